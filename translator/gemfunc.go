package main

// Statement-by-statement translation of loop-free Go functions over int, bool, string,
// gem.String and Options into Gallina. Like intfunc.go it works in continuation style (what
// follows an if is translated into both branches, so early returns are handled); unlike it,
// every expression is typed, and the operations of the types are mapped onto the model's
// functions through the small table below. That table is the trusted part: the grapheme
// operations themselves (Len, Sub, Add, IndexFunc, ...) are hand-modelled and tied to the code by
// the correspondence, not by this translation. What the translation adds is that the control
// flow, the comparisons, the arithmetic and the argument order of the translated functions are
// the source's, re-read on every run, and proved equal to the model's definitions
// (Inst/GoGemFuncs.v).
//
//	Go                                          Gallina
//	x.Len()                (x gem.String)       glen x
//	x.Sub(a, b)                                 gsub x a b
//	x.Add(y)                                    gadd x y
//	x.String()                                  encode x
//	gem.New(s)                                  decode s
//	gem.RepeatStr(" ", n)                       spaces n
//	x.IndexFunc(func(gc []rune) bool { return !unicode.IsSpace(gc[0]) })
//	                                            gindex_func not_space_cluster x
//	x.LastIndexFunc(the same closure)           glast_index_func not_space_cluster x
//	   (the closure as a literal, or the name of a package-level function with exactly that body)
//	CountLeadingWhitespace(x)                   go_CountLeadingWhitespace x   (translated too)
//	s == ""  /  s != ""    (s string)           str_empty s / negb (str_empty s)
//	opts.F  /  opts.F = e  (Options)            o_f opts / set_o_f opts e   (Inst/GoRt.v)
//	a / b                  (int)                Z.quot a b  (Go truncates toward zero)
//	untyped constants DefaultX                  go_DefaultX (gen/Consts.v)

import (
	"fmt"
	"go/ast"
	"go/parser"
	"go/token"
	"os"
	"path/filepath"
	"sort"
	"strconv"
	"strings"
)

type kind int

const (
	kInt kind = iota
	kBool
	kStr
	kGem
	kOpts
	kEd
	kRef // *parentRef: the parent of a sub-editor and the byte range it replaces
	kSb  // strings.Builder: the bytes written so far
)

func (k kind) coq() string {
	switch k {
	case kInt:
		return "Z"
	case kBool:
		return "bool"
	case kStr:
		return "list Z"
	case kGem:
		return "gstr"
	case kOpts:
		return "options"
	case kEd:
		return "editor"
	case kRef:
		return "(editor * Z * Z)"
	case kSb:
		return "list Z"
	}
	return "?"
}

var optFields = map[string]struct {
	coq string
	k   kind
}{
	"IndentStr":                {"o_indent", kStr},
	"LineSeparator":            {"o_linesep", kStr},
	"NoTrailingLineSeparators": {"o_notrailing", kBool},
	"ParagraphSeparator":       {"o_parasep", kStr},
	"PreserveParagraphs":       {"o_preserve", kBool},
	"JustifyLastLine":          {"o_justlast", kBool},
	"TableBorders":             {"o_borders", kBool},
	"TableHeaders":             {"o_headers", kBool},
	"TableCharSet":             {"o_charset", kStr},
}

// string constants of the package that may be referred to by name
var strConsts = map[string]bool{
	"DefaultLineSeparator": true, "DefaultIndentString": true, "DefaultParagraphSeparator": true, "DefaultTableCharSet": true,
}

var coqReserved = map[string]bool{
	"end": true, "in": true, "let": true, "fun": true, "match": true, "with": true, "if": true, "then": true, "else": true,
	"forall": true, "exists": true, "return": true, "as": true, "at": true, "fix": true, "cofix": true, "for": true,
	"Type": true, "Prop": true, "Set": true, "using": true, "where": true, "struct": true,
}

// cq is the Coq name of a Go identifier.
func cq(name string) string {
	if coqReserved[name] {
		return name + "_"
	}
	return name
}

// methods of Editor that are mapped onto the model by the table above, not translated on demand
var tableMethod = map[string]bool{
	"Chars": true, "CharsTo": true, "CharsFrom": true, "Lines": true, "LinesTo": true, "LinesFrom": true,
	"LineCount": true, "IsSubEditor": true, "Commit": true, "CommitAll": true,
}

// gemSig is the signature of a translated function.
type gemSig struct {
	res     kind
	args    []kind
	monadic bool
	multi   bool // more than one result: not callable from a translated expression
}

// gemUnit translates the functions of one source file on demand: a call of another plain
// function of the same file (a helper a maintainer has extracted, say) translates that function
// first, so the generated definitions come out in dependency order.
type gemUnit struct {
	file  string
	decls map[string]*ast.FuncDecl
	done  map[string]gemSig
	busy  map[string]bool
	defs  []string // generated definitions, in order
	names []string // their names (for the unfold hints)
}

// declKey is the name a function is looked up by: Name for a plain function, Type.Name for a method.
func declKey(fd *ast.FuncDecl) string {
	if fd.Recv == nil || len(fd.Recv.List) != 1 {
		return fd.Name.Name
	}
	t := fd.Recv.List[0].Type
	if st, ok := t.(*ast.StarExpr); ok {
		t = st.X
	}
	if id, ok := t.(*ast.Ident); ok {
		return id.Name + "." + fd.Name.Name
	}
	return "?." + fd.Name.Name
}

// coqName is the Gallina name of a translated function: go_Name, whatever its receiver.
func coqName(key string) string {
	if i := strings.LastIndex(key, "."); i >= 0 {
		return "go_" + key[i+1:]
	}
	return "go_" + key
}

// The unexported names the translation has to recognise - the reference field of Editor, the
// type it points to and that type's three fields - are read off the struct declarations of the
// package (a field of Editor whose type is a pointer to a struct made of a *Editor and two ints),
// so that renaming them does not stop the translation.
var (
	refField  = "ref"
	refType   = "parentRef"
	refParent = "parent"
	refStart  = "start"
	refEnd    = "end"
)

func discoverRefNames(files []*ast.File) {
	structs := map[string]*ast.StructType{}
	for _, af := range files {
		for _, d := range af.Decls {
			gd, ok := d.(*ast.GenDecl)
			if !ok || gd.Tok != token.TYPE {
				continue
			}
			for _, sp := range gd.Specs {
				ts := sp.(*ast.TypeSpec)
				if st, ok := ts.Type.(*ast.StructType); ok {
					structs[ts.Name.Name] = st
				}
			}
		}
	}
	ed := structs["Editor"]
	if ed == nil {
		return
	}
	for _, f := range ed.Fields.List {
		star, ok := f.Type.(*ast.StarExpr)
		if !ok || len(f.Names) != 1 {
			continue
		}
		tid, ok := star.X.(*ast.Ident)
		if !ok {
			continue
		}
		st := structs[tid.Name]
		if st == nil {
			continue
		}
		var parent string
		var ints []string
		okShape := true
		for _, g := range st.Fields.List {
			switch t := g.Type.(type) {
			case *ast.StarExpr:
				if id, ok := t.X.(*ast.Ident); ok && id.Name == "Editor" && len(g.Names) == 1 {
					parent = g.Names[0].Name
				} else {
					okShape = false
				}
			case *ast.Ident:
				if t.Name == "int" {
					for _, n := range g.Names {
						ints = append(ints, n.Name)
					}
				} else {
					okShape = false
				}
			default:
				okShape = false
			}
		}
		if okShape && parent != "" && len(ints) == 2 {
			refField, refType, refParent, refStart, refEnd = f.Names[0].Name, tid.Name, parent, ints[0], ints[1]
			return
		}
	}
}

// parsePkg parses the non-test Go files of a package directory that are part of the normal build
// (files behind a build constraint, such as the verif-tagged exports, are left out).
func parsePkg(dir string) []*ast.File {
	ents, err := os.ReadDir(dir)
	if err != nil {
		fail("%v", err)
	}
	fset := token.NewFileSet()
	var out []*ast.File
	for _, e := range ents {
		n := e.Name()
		if e.IsDir() || !strings.HasSuffix(n, ".go") || strings.HasSuffix(n, "_test.go") {
			continue
		}
		src, err := os.ReadFile(filepath.Join(dir, n))
		if err != nil {
			fail("%v", err)
		}
		if strings.Contains(string(src), "//go:build") {
			continue
		}
		af, err := parser.ParseFile(fset, filepath.Join(dir, n), src, 0)
		if err != nil {
			fail("%v", err)
		}
		out = append(out, af)
	}
	return out
}

// newGemUnit reads every function of the package in directory dir (a function may move between
// the files of its package without the translation noticing).
func newGemUnit(repo, dir string) *gemUnit {
	u := &gemUnit{file: dir, decls: map[string]*ast.FuncDecl{}, done: map[string]gemSig{}, busy: map[string]bool{}}
	files := parsePkg(filepath.Join(repo, dir))
	if dir == "." {
		discoverRefNames(files)
	}
	for _, af := range files {
		for _, d := range af.Decls {
			if fd, ok := d.(*ast.FuncDecl); ok && fd.Body != nil {
				// plain functions by name, methods as Type.Name
				u.decls[declKey(fd)] = fd
			}
		}
	}
	return u
}

type gemFn struct {
	unit *gemUnit
	name string
	vars map[string]kind
	// monadic: the function may panic (it calls selections or slices a string); its result is a
	// Res, every call that may panic is bound with do before the statement that contains it
	monadic bool
	pre     []string
	tmp     int
}

// hoist binds the result of an expression that may panic to a fresh name, ahead of the
// statement being translated (Go evaluates it there too: left to right, before the assignment)
func (f *gemFn) hoist(e string) string {
	if !f.monadic {
		panic(needMonad{})
	}
	f.tmp++
	t := fmt.Sprintf("t%d_", f.tmp)
	f.pre = append(f.pre, "do "+t+" <- "+e+";\n  ")
	return t
}

func (f *gemFn) flush() string {
	out := strings.Join(f.pre, "")
	f.pre = nil
	return out
}

func (f *gemFn) bad(format string, a ...interface{}) {
	fail("gemfunc %s: "+format, append([]interface{}{f.name}, a...)...)
}

func typeKind(e ast.Expr) (kind, bool) {
	switch v := e.(type) {
	case *ast.Ident:
		switch v.Name {
		case "int":
			return kInt, true
		case "bool":
			return kBool, true
		case "string":
			return kStr, true
		case "Options":
			return kOpts, true
		case "Editor":
			return kEd, true
		}
	case *ast.SelectorExpr:
		if id, ok := v.X.(*ast.Ident); ok && id.Name == "gem" && v.Sel.Name == "String" {
			return kGem, true
		}
		if id, ok := v.X.(*ast.Ident); ok && id.Name == "strings" && v.Sel.Name == "Builder" {
			return kSb, true
		}
	case *ast.StarExpr:
		if id, ok := v.X.(*ast.Ident); ok && id.Name == refType {
			return kRef, true
		}
	}
	return 0, false
}

func zeroOf(k kind) string {
	switch k {
	case kInt:
		return "0"
	case kBool:
		return "false"
	case kStr, kGem, kSb:
		return "[]"
	}
	return "zero_options"
}

// isNotSpaceClosure recognises func(gc []rune) bool { return !unicode.IsSpace(gc[0]) }, written as a
// function literal or as the name of a package-level function with exactly that body.
func (f *gemFn) isNotSpaceClosure(e ast.Expr) bool {
	switch v := e.(type) {
	case *ast.FuncLit:
		return isNotSpaceFunc(v.Type, v.Body)
	case *ast.Ident:
		if fd, ok := f.unit.decls[v.Name]; ok && fd.Recv == nil && fd.Body != nil {
			return isNotSpaceFunc(fd.Type, fd.Body)
		}
	}
	return false
}

func isNotSpaceFunc(ft *ast.FuncType, body *ast.BlockStmt) bool {
	if ft == nil || ft.Params == nil || len(ft.Params.List) != 1 || len(ft.Params.List[0].Names) != 1 {
		return false
	}
	p := ft.Params.List[0].Names[0].Name
	if at, ok := ft.Params.List[0].Type.(*ast.ArrayType); !ok || at.Len != nil {
		return false
	} else if id, ok := at.Elt.(*ast.Ident); !ok || id.Name != "rune" {
		return false
	}
	if ft.Results == nil || len(ft.Results.List) != 1 {
		return false
	}
	if id, ok := ft.Results.List[0].Type.(*ast.Ident); !ok || id.Name != "bool" {
		return false
	}
	if len(body.List) != 1 {
		return false
	}
	ret, ok := body.List[0].(*ast.ReturnStmt)
	if !ok || len(ret.Results) != 1 {
		return false
	}
	un, ok := ret.Results[0].(*ast.UnaryExpr)
	if !ok || un.Op != token.NOT {
		return false
	}
	call, ok := un.X.(*ast.CallExpr)
	if !ok || len(call.Args) != 1 {
		return false
	}
	sel, ok := call.Fun.(*ast.SelectorExpr)
	if !ok || sel.Sel.Name != "IsSpace" {
		return false
	}
	if id, ok := sel.X.(*ast.Ident); !ok || id.Name != "unicode" {
		return false
	}
	ix, ok := call.Args[0].(*ast.IndexExpr)
	if !ok {
		return false
	}
	if id, ok := ix.X.(*ast.Ident); !ok || id.Name != p {
		return false
	}
	n, ok := intLit(ix.Index)
	return ok && n == 0
}

// exprIfKind translates e when it is an expression of kind want; otherwise it returns kind -1
// without side effects (package names such as gem or strings are not expressions).
func (f *gemFn) exprIfKind(e ast.Expr, want kind) (string, kind) {
	switch v := e.(type) {
	case *ast.Ident:
		if k, ok := f.vars[v.Name]; !ok || k != want {
			return "", -1
		}
	case *ast.SelectorExpr:
		switch want {
		case kRef:
			if v.Sel.Name != refField {
				return "", -1
			}
		case kEd:
			if v.Sel.Name != refParent {
				return "", -1
			}
		default:
			return "", -1
		}
	case *ast.CallExpr, *ast.ParenExpr, *ast.StarExpr:
	default:
		return "", -1
	}
	npre, ntmp := len(f.pre), f.tmp
	x, k := f.expr(e)
	if k != want {
		f.pre, f.tmp = f.pre[:npre], ntmp
		return "", -1
	}
	return x, k
}

// expr translates e and returns its kind.
func (f *gemFn) expr(e ast.Expr) (string, kind) {
	switch v := e.(type) {
	case *ast.ParenExpr:
		return f.expr(v.X)
	case *ast.BasicLit:
		switch v.Kind {
		case token.INT:
			n, ok := intLit(v)
			if !ok {
				f.bad("integer literal")
			}
			if n < 0 {
				return fmt.Sprintf("(%d)", n), kInt
			}
			return fmt.Sprintf("%d", n), kInt
		case token.STRING:
			s, err := strconv.Unquote(v.Value)
			if err != nil {
				f.bad("string literal")
			}
			return bytesList(s), kStr
		}
	case *ast.Ident:
		if v.Name == "true" || v.Name == "false" {
			return v.Name, kBool
		}
		if k, ok := f.vars[v.Name]; ok {
			return cq(v.Name), k
		}
		if strConsts[v.Name] {
			return "go_" + v.Name, kStr
		}
		f.bad("unknown identifier %s", v.Name)
	case *ast.SelectorExpr:
		// ed.ref: a nil reference panics when it is dereferenced; it is only ever dereferenced
		if v.Sel.Name == refField {
			if x, k := f.exprIfKind(v.X, kEd); k == kEd {
				return f.hoist("ed_ref " + x), kRef
			}
		}
		if v.Sel.Name == refStart || v.Sel.Name == refEnd || v.Sel.Name == refParent {
			if x, k := f.exprIfKind(v.X, kRef); k == kRef {
				if v.Sel.Name == refParent {
					// a *Editor: only ever read through (*p or p.Field), so it is translated as the value
					return "(ref_parent " + x + ")", kEd
				}
				if v.Sel.Name == refStart {
					return "(ref_start " + x + ")", kInt
				}
				return "(ref_end " + x + ")", kInt
			}
		}
		if v.Sel.Name == "Text" {
			if _, isPkg := v.X.(*ast.Ident); !isPkg || f.vars[v.X.(*ast.Ident).Name] == kEd {
				x, k := f.expr(v.X)
				if k == kEd {
					return "(e_text " + x + ")", kStr
				}
			}
		}
		if id, ok := v.X.(*ast.Ident); ok && f.vars[id.Name] == kOpts {
			if _, isVar := f.vars[id.Name]; isVar {
				fd, ok := optFields[v.Sel.Name]
				if !ok {
					f.bad("unknown Options field %s", v.Sel.Name)
				}
				return "(" + fd.coq + " " + cq(id.Name) + ")", fd.k
			}
		}
	case *ast.StarExpr:
		x, k := f.expr(v.X)
		if k == kEd {
			return x, kEd
		}
	case *ast.SliceExpr:
		if v.Slice3 {
			f.bad("three-index slice")
		}
		x, k := f.expr(v.X)
		if k != kStr {
			f.bad("slice of a non-string")
		}
		lo, hi := "0", "(zlen "+x+")"
		if v.Low != nil {
			a, ka := f.expr(v.Low)
			if ka != kInt {
				f.bad("slice bound")
			}
			lo = a
		}
		if v.High != nil {
			b, kb := f.expr(v.High)
			if kb != kInt {
				f.bad("slice bound")
			}
			hi = b
		}
		return f.hoist("zsub " + x + " " + lo + " " + hi), kStr
	case *ast.UnaryExpr:
		x, k := f.expr(v.X)
		switch {
		case v.Op == token.SUB && k == kInt:
			return "(- " + x + ")", kInt
		case v.Op == token.ADD && k == kInt:
			return x, kInt
		case v.Op == token.NOT && k == kBool:
			return "(negb " + x + ")", kBool
		}
	case *ast.BinaryExpr:
		a, ka := f.expr(v.X)
		b, kb := f.expr(v.Y)
		if ka != kb {
			f.bad("operands of %s have different types", v.Op)
		}
		switch ka {
		case kInt:
			switch v.Op {
			case token.ADD:
				return "(" + a + " + " + b + ")", kInt
			case token.SUB:
				return "(" + a + " - " + b + ")", kInt
			case token.MUL:
				return "(" + a + " * " + b + ")", kInt
			case token.QUO:
				return "(Z.quot " + a + " " + b + ")", kInt
			case token.REM:
				return "(Z.rem " + a + " " + b + ")", kInt
			case token.LSS:
				return "(" + a + " <? " + b + ")", kBool
			case token.LEQ:
				return "(" + a + " <=? " + b + ")", kBool
			case token.GTR:
				return "(" + b + " <? " + a + ")", kBool
			case token.GEQ:
				return "(" + b + " <=? " + a + ")", kBool
			case token.EQL:
				return "(" + a + " =? " + b + ")", kBool
			case token.NEQ:
				return "(negb (" + a + " =? " + b + "))", kBool
			}
		case kBool:
			switch v.Op {
			case token.LAND:
				return "(" + a + " && " + b + ")", kBool
			case token.LOR:
				return "(" + a + " || " + b + ")", kBool
			case token.EQL:
				return "(Bool.eqb " + a + " " + b + ")", kBool
			case token.NEQ:
				return "(negb (Bool.eqb " + a + " " + b + "))", kBool
			}
		case kStr:
			if v.Op == token.ADD {
				return "(" + a + " ++ " + b + ")", kStr
			}
			// only comparison with the empty string is in the fragment
			emptyL, emptyR := a == "[]", b == "[]"
			if emptyL || emptyR {
				x := a
				if emptyL {
					x = b
				}
				switch v.Op {
				case token.EQL:
					return "(str_empty " + x + ")", kBool
				case token.NEQ:
					return "(negb (str_empty " + x + "))", kBool
				}
			}
		}
	case *ast.CallExpr:
		// builtins
		if id, ok := v.Fun.(*ast.Ident); ok && (id.Name == "min" || id.Name == "max") && len(v.Args) >= 1 {
			if _, shadow := f.vars[id.Name]; !shadow {
				if _, local := f.unit.decls[id.Name]; !local {
					op := "Z." + id.Name
					acc, k := f.expr(v.Args[0])
					if k != kInt {
						f.bad("%s of a non-int", id.Name)
					}
					for _, a := range v.Args[1:] {
						y, ky := f.expr(a)
						if ky != kInt {
							f.bad("%s of a non-int", id.Name)
						}
						acc = "(" + op + " " + acc + " " + y + ")"
					}
					return acc, kInt
				}
			}
		}
		if id, ok := v.Fun.(*ast.Ident); ok && id.Name == "len" && len(v.Args) == 1 {
			if _, shadow := f.vars["len"]; !shadow {
				x, k := f.expr(v.Args[0])
				if k == kStr {
					return "(zlen " + x + ")", kInt
				}
				f.bad("len of a non-string")
			}
		}
		if id, ok := v.Fun.(*ast.Ident); ok {
			if _, isVar := f.vars[id.Name]; !isVar {
				if fd, ok := f.unit.decls[id.Name]; ok && fd.Recv == nil {
					c := f.unit.translate(id.Name)
					if c.multi {
						f.bad("call of %s, which has several results", id.Name)
					}
					if len(v.Args) != len(c.args) {
						f.bad("call of %s: arity", id.Name)
					}
					out := "go_" + id.Name
					for i, a := range v.Args {
						x, k := f.expr(a)
						if k != c.args[i] {
							f.bad("call of %s: argument type", id.Name)
						}
						out += " " + x
					}
					if c.monadic {
						return f.hoist(out), c.res
					}
					return "(" + out + ")", c.res
				}
			}
		}
		if sel, ok := v.Fun.(*ast.SelectorExpr); ok {
			// gem.New, gem.RepeatStr
			if id, ok := sel.X.(*ast.Ident); ok && id.Name == "gem" {
				if _, shadow := f.vars["gem"]; !shadow {
					switch sel.Sel.Name {
					case "New":
						if len(v.Args) == 1 {
							x, k := f.expr(v.Args[0])
							if k == kStr {
								return "(decode " + x + ")", kGem
							}
						}
					case "RepeatStr":
						if len(v.Args) == 2 {
							if lit, ok := v.Args[0].(*ast.BasicLit); ok && lit.Kind == token.STRING && lit.Value == `" "` {
								n, k := f.expr(v.Args[1])
								if k == kInt {
									return "(spaces " + n + ")", kGem
								}
							}
						}
					}
					f.bad("unsupported call gem.%s", sel.Sel.Name)
				}
			}
			// methods declared in the same file (helpers with a receiver), translated on demand
			for _, tn := range []string{"Editor", refType, "Options"} {
				fd, ok := f.unit.decls[tn+"."+sel.Sel.Name]
				if !ok || (tn == "Editor" && tableMethod[sel.Sel.Name]) {
					continue
				}
				rk, okk := typeKind(fd.Recv.List[0].Type)
				if okk {
					if rx, k := f.exprIfKind(sel.X, rk); k == rk {
						c := f.unit.translate(tn + "." + sel.Sel.Name)
						if c.multi || len(v.Args) != len(c.args) {
							f.bad("call of method %s", sel.Sel.Name)
						}
						out := "go_" + sel.Sel.Name + " " + rx
						for i, a := range v.Args {
							y, ky := f.expr(a)
							if ky != c.args[i] {
								f.bad("call of %s: argument type", sel.Sel.Name)
							}
							out += " " + y
						}
						if c.monadic {
							return f.hoist(out), c.res
						}
						return "(" + out + ")", c.res
					}
				}
			}
			// strings.Builder
			if bx, k := f.exprIfKind(sel.X, kSb); k == kSb {
				switch {
				case sel.Sel.Name == "String" && len(v.Args) == 0:
					return bx, kStr
				case sel.Sel.Name == "Len" && len(v.Args) == 0:
					return "(zlen " + bx + ")", kInt
				}
				f.bad("unsupported use of strings.Builder.%s in an expression", sel.Sel.Name)
			}
			// methods of gem.String values and selections of Editors
			x, k := f.expr(sel.X)
			if k == kEd {
				var args []string
				for _, a := range v.Args {
					y, ky := f.expr(a)
					if ky != kInt {
						f.bad("argument of %s", sel.Sel.Name)
					}
					args = append(args, y)
				}
				switch {
				case sel.Sel.Name == "IsSubEditor" && len(args) == 0:
					return "(is_sub_editor " + x + ")", kBool
				case sel.Sel.Name == "Commit" && len(args) == 0:
					return f.hoist("commit " + x), kEd
				case sel.Sel.Name == "CommitAll" && len(args) == 0:
					return f.hoist("commit_all " + x), kEd
				case sel.Sel.Name == "LineCount" && len(args) == 0:
					return "(line_count " + x + ")", kInt
				case sel.Sel.Name == "Lines" && len(args) == 2:
					return f.hoist("ed_lines_sel " + x + " " + args[0] + " " + args[1]), kEd
				case sel.Sel.Name == "LinesTo" && len(args) == 1:
					return f.hoist("lines_to " + x + " " + args[0]), kEd
				case sel.Sel.Name == "LinesFrom" && len(args) == 1:
					return f.hoist("lines_from " + x + " " + args[0]), kEd
				case sel.Sel.Name == "CharsTo" && len(args) == 1:
					return f.hoist("chars_to " + x + " " + args[0]), kEd
				case sel.Sel.Name == "CharsFrom" && len(args) == 1:
					return f.hoist("chars_from " + x + " " + args[0]), kEd
				case sel.Sel.Name == "Chars" && len(args) == 2:
					return f.hoist("chars " + x + " " + args[0] + " " + args[1]), kEd
				}
				f.bad("unsupported method %s of Editor", sel.Sel.Name)
			}
			if k == kGem {
				switch sel.Sel.Name {
				case "Len":
					if len(v.Args) == 0 {
						return "(glen " + x + ")", kInt
					}
				case "String":
					if len(v.Args) == 0 {
						return "(encode " + x + ")", kStr
					}
				case "Sub":
					if len(v.Args) == 2 {
						a, ka := f.expr(v.Args[0])
						b, kb := f.expr(v.Args[1])
						if ka == kInt && kb == kInt {
							return "(gsub " + x + " " + a + " " + b + ")", kGem
						}
					}
				case "Add":
					if len(v.Args) == 1 {
						y, ky := f.expr(v.Args[0])
						if ky == kGem {
							return "(gadd " + x + " " + y + ")", kGem
						}
					}
				case "IndexFunc":
					if len(v.Args) == 1 && f.isNotSpaceClosure(v.Args[0]) {
						return "(gindex_func not_space_cluster " + x + ")", kInt
					}
				case "LastIndexFunc":
					if len(v.Args) == 1 && f.isNotSpaceClosure(v.Args[0]) {
						return "(glast_index_func not_space_cluster " + x + ")", kInt
					}
				}
				f.bad("unsupported method %s of gem.String (or unsupported arguments)", sel.Sel.Name)
			}
		}
	}
	f.bad("expression at position %d is outside the translated fragment", e.Pos())
	return "", 0
}

func (f *gemFn) declare(name string, k kind) {
	if old, ok := f.vars[name]; ok && old != k {
		f.bad("variable %s redeclared with another type", name)
	}
	f.vars[name] = k
}

func (f *gemFn) stmts(l []ast.Stmt, results []kind, depth int) string {
	if depth > 4096 {
		f.bad("function too large to translate")
	}
	if len(l) == 0 {
		f.bad("a path does not end in return")
	}
	rest := l[1:]
	switch s := l[0].(type) {
	case *ast.BlockStmt:
		return f.stmts(append(append([]ast.Stmt{}, s.List...), rest...), results, depth+1)
	case *ast.DeclStmt:
		gd, ok := s.Decl.(*ast.GenDecl)
		if !ok || gd.Tok != token.VAR {
			f.bad("declaration")
		}
		out := ""
		for _, sp := range gd.Specs {
			vs := sp.(*ast.ValueSpec)
			for i, n := range vs.Names {
				var val string
				var k kind
				if i < len(vs.Values) {
					val, k = f.expr(vs.Values[i])
					if vs.Type != nil {
						tk, ok := typeKind(vs.Type)
						if !ok || tk != k {
							f.bad("declared type of %s", n.Name)
						}
					}
				} else {
					tk, ok := typeKind(vs.Type)
					if !ok {
						f.bad("type of %s", n.Name)
					}
					k, val = tk, zeroOf(tk)
				}
				f.declare(n.Name, k)
				out += f.flush() + "let " + cq(n.Name) + " : " + k.coq() + " := " + val + " in\n  "
			}
		}
		return out + f.stmts(rest, results, depth+1)
	case *ast.AssignStmt:
		if len(s.Lhs) > 1 && len(s.Lhs) == len(s.Rhs) && (s.Tok == token.DEFINE || s.Tok == token.ASSIGN) {
			// a, b := x, y: the right-hand sides are evaluated first, then bound
			vals := make([]string, len(s.Rhs))
			kinds := make([]kind, len(s.Rhs))
			for i := range s.Rhs {
				vals[i], kinds[i] = f.expr(s.Rhs[i])
			}
			out := f.flush()
			for i, lh := range s.Lhs {
				id, ok := lh.(*ast.Ident)
				if !ok {
					f.bad("parallel assignment target")
				}
				if id.Name == "_" {
					continue
				}
				out += "let " + cq(id.Name) + "'tmp : " + kinds[i].coq() + " := " + vals[i] + " in\n  "
			}
			for i, lh := range s.Lhs {
				id := lh.(*ast.Ident)
				if id.Name == "_" {
					continue
				}
				if s.Tok == token.DEFINE {
					f.declare(id.Name, kinds[i])
				} else if old, ok := f.vars[id.Name]; !ok || old != kinds[i] {
					f.bad("parallel assignment to %s", id.Name)
				}
				out += "let " + cq(id.Name) + " : " + kinds[i].coq() + " := " + cq(id.Name) + "'tmp in\n  "
			}
			return out + f.stmts(rest, results, depth+1)
		}
		if len(s.Lhs) != 1 || len(s.Rhs) != 1 {
			f.bad("multiple assignment")
		}
		val, k := f.expr(s.Rhs[0])
		switch lh := s.Lhs[0].(type) {
		case *ast.Ident:
			if s.Tok == token.DEFINE {
				f.declare(lh.Name, k)
			} else {
				old, ok := f.vars[lh.Name]
				if !ok {
					f.bad("assignment to unknown variable %s", lh.Name)
				}
				switch s.Tok {
				case token.ASSIGN:
					if old != k {
						f.bad("assignment to %s changes its type", lh.Name)
					}
				case token.ADD_ASSIGN, token.SUB_ASSIGN:
					if old != kInt || k != kInt {
						f.bad("compound assignment on a non-int")
					}
					op := " + "
					if s.Tok == token.SUB_ASSIGN {
						op = " - "
					}
					val = "(" + cq(lh.Name) + op + val + ")"
				default:
					f.bad("assignment operator %s", s.Tok)
				}
			}
			return f.flush() + "let " + cq(lh.Name) + " : " + k.coq() + " := " + val + " in\n  " + f.stmts(rest, results, depth+1)
		case *ast.SelectorExpr:
			id, ok := lh.X.(*ast.Ident)
			if ok && f.vars[id.Name] == kEd && s.Tok == token.ASSIGN && lh.Sel.Name == "Text" && k == kStr {
				return f.flush() + "let " + cq(id.Name) + " : editor := (with_text " + cq(id.Name) + " " + val + ") in\n  " + f.stmts(rest, results, depth+1)
			}
			if !ok || f.vars[id.Name] != kOpts || s.Tok != token.ASSIGN {
				f.bad("assignment target")
			}
			fd, ok := optFields[lh.Sel.Name]
			if !ok || fd.k != k {
				f.bad("assignment to Options field %s", lh.Sel.Name)
			}
			return f.flush() + "let " + cq(id.Name) + " : options := (set_" + fd.coq + " " + cq(id.Name) + " " + val + ") in\n  " + f.stmts(rest, results, depth+1)
		}
		f.bad("assignment target")
	case *ast.ExprStmt:
		// b.Grow(n) reserves space (no effect on the value); b.WriteString(s) appends
		call, ok := s.X.(*ast.CallExpr)
		if !ok {
			f.bad("expression statement")
		}
		sel, ok := call.Fun.(*ast.SelectorExpr)
		if !ok {
			f.bad("expression statement")
		}
		id, ok := sel.X.(*ast.Ident)
		if !ok || f.vars[id.Name] != kSb {
			f.bad("expression statement")
		}
		switch {
		case sel.Sel.Name == "Grow" && len(call.Args) == 1:
			if _, k := f.expr(call.Args[0]); k != kInt {
				f.bad("Grow argument")
			}
			return f.flush() + f.stmts(rest, results, depth+1)
		case sel.Sel.Name == "WriteString" && len(call.Args) == 1:
			x, k := f.expr(call.Args[0])
			if k != kStr {
				f.bad("WriteString argument")
			}
			return f.flush() + "let " + cq(id.Name) + " : list Z := (" + cq(id.Name) + " ++ " + x + ") in\n  " + f.stmts(rest, results, depth+1)
		}
		f.bad("unsupported use of strings.Builder.%s", sel.Sel.Name)
	case *ast.SwitchStmt:
		// a switch is the if / else-if chain of its cases (no fallthrough, no break)
		if s.Init != nil {
			f.bad("switch with init")
		}
		var chain, last *ast.IfStmt
		var deflt []ast.Stmt
		hasDefault := false
		for _, c := range s.Body.List {
			cc := c.(*ast.CaseClause)
			for _, st := range cc.Body {
				if _, isBranch := st.(*ast.BranchStmt); isBranch {
					f.bad("break/fallthrough in switch")
				}
			}
			if cc.List == nil {
				deflt, hasDefault = cc.Body, true
				continue
			}
			var cond ast.Expr
			for _, x := range cc.List {
				var one ast.Expr = x
				if s.Tag != nil {
					one = &ast.BinaryExpr{X: s.Tag, Op: token.EQL, Y: x}
				}
				if cond == nil {
					cond = one
				} else {
					cond = &ast.BinaryExpr{X: cond, Op: token.LOR, Y: one}
				}
			}
			ifs := &ast.IfStmt{Cond: cond, Body: &ast.BlockStmt{List: cc.Body}}
			if chain == nil {
				chain = ifs
			} else {
				last.Else = ifs
			}
			last = ifs
		}
		if chain == nil {
			return f.stmts(append(append([]ast.Stmt{}, deflt...), rest...), results, depth+1)
		}
		if hasDefault {
			last.Else = &ast.BlockStmt{List: deflt}
		}
		return f.stmts(append([]ast.Stmt{chain}, rest...), results, depth+1)
	case *ast.IfStmt:
		if s.Init != nil {
			f.bad("if with init")
		}
		c, k := f.expr(s.Cond)
		if k != kBool {
			f.bad("condition is not boolean")
		}
		condPre := f.flush()
		saved := map[string]kind{}
		for n, k := range f.vars {
			saved[n] = k
		}
		restore := func() {
			f.vars = map[string]kind{}
			for n, k := range saved {
				f.vars[n] = k
			}
		}
		var elseL []ast.Stmt
		if s.Else != nil {
			elseL = []ast.Stmt{s.Else}
		}
		if !containsReturn(s.Body) && (s.Else == nil || !containsReturn(s.Else)) {
			// no branch returns: the statement only updates variables; bind them from a
			// conditional instead of copying what follows into both branches
			mod := f.modified(append([]ast.Stmt{s.Body}, elseL...))
			if len(mod) == 0 {
				if f.monadic {
					f.bad("a conditional statement without visible effect in a function that may panic")
				}
				return f.stmts(rest, results, depth+1)
			}
			kinds := make([]kind, len(mod))
			names := make([]string, len(mod))
			ret := &ast.ReturnStmt{}
			for i, n := range mod {
				kinds[i] = f.vars[n]
				names[i] = cq(n)
				ret.Results = append(ret.Results, ast.NewIdent(n))
			}
			thenE := f.stmts(append(append([]ast.Stmt{}, s.Body.List...), ret), kinds, depth+1)
			restore()
			elseE := f.stmts(append(elseL, ret), kinds, depth+1)
			restore()
			if f.monadic {
				pat := names[0]
				if len(names) > 1 {
					pat = "(" + strings.Join(names, ", ") + ")"
				}
				return condPre + "do " + pat + " <- (if " + c + " then\n  " + thenE + "\n  else\n  " + elseE + ");\n  " + f.stmts(rest, results, depth+1)
			}
			pat := names[0]
			if len(names) > 1 {
				pat = "'(" + strings.Join(names, ", ") + ")"
			}
			return "let " + pat + " := (if " + c + " then\n  " + thenE + "\n  else\n  " + elseE + ") in\n  " + f.stmts(rest, results, depth+1)
		}
		thenE := f.stmts(append(append([]ast.Stmt{}, s.Body.List...), rest...), results, depth*2+1)
		restore()
		elseE := f.stmts(append(elseL, rest...), results, depth*2+1)
		restore()
		return condPre + "(if " + c + " then\n  " + thenE + "\n  else\n  " + elseE + ")"
	case *ast.ReturnStmt:
		if len(s.Results) != len(results) || len(results) == 0 {
			f.bad("return arity")
		}
		parts := make([]string, len(results))
		for i, r := range s.Results {
			x, k := f.expr(r)
			if k != results[i] {
				f.bad("return type")
			}
			parts[i] = x
		}
		if f.monadic {
			return f.flush() + "Ok (" + strings.Join(parts, ", ") + ")"
		}
		return "(" + strings.Join(parts, ", ") + ")"
	}
	f.bad("unsupported statement at position %d", l[0].Pos())
	return ""
}

func containsReturn(n ast.Node) bool {
	found := false
	ast.Inspect(n, func(x ast.Node) bool {
		if _, ok := x.(*ast.FuncLit); ok {
			return false
		}
		if _, ok := x.(*ast.ReturnStmt); ok {
			found = true
		}
		return !found
	})
	return found
}

// modified lists, in a fixed order, the variables known before the statements that the
// statements assign to (a := inside them declares a new variable and does not count).
func (f *gemFn) modified(l []ast.Stmt) []string {
	seen := map[string]bool{}
	var out []string
	add := func(n string) {
		if _, known := f.vars[n]; known && !seen[n] {
			seen[n] = true
			out = append(out, n)
		}
	}
	for _, st := range l {
		ast.Inspect(st, func(x ast.Node) bool {
			switch v := x.(type) {
			case *ast.FuncLit:
				return false
			case *ast.AssignStmt:
				if v.Tok == token.DEFINE {
					return true
				}
				for _, lh := range v.Lhs {
					switch t := lh.(type) {
					case *ast.Ident:
						add(t.Name)
					case *ast.SelectorExpr:
						if id, ok := t.X.(*ast.Ident); ok {
							add(id.Name)
						}
					}
				}
			case *ast.IncDecStmt:
				if id, ok := v.X.(*ast.Ident); ok {
					add(id.Name)
				}
			}
			return true
		})
	}
	sort.Strings(out)
	return out
}

type needMonad struct{}

// tryBody translates the body; retry is true when the function must be translated as monadic.
func (f *gemFn) tryBody(l []ast.Stmt, results []kind) (body string, retry bool) {
	defer func() {
		if r := recover(); r != nil {
			if _, ok := r.(needMonad); ok {
				body, retry = "", true
				return
			}
			panic(r)
		}
	}()
	return f.stmts(l, results, 0), false
}

// translate makes sure go_<name> is among the unit's definitions and returns its signature.
func (u *gemUnit) translate(name string) gemSig {
	if sig, ok := u.done[name]; ok {
		return sig
	}
	if u.busy[name] {
		fail("gemfunc %s: recursive function", name)
	}
	fd := u.decls[name]
	if fd == nil {
		fail("gemfunc: function %s not found in %s", name, u.file)
	}
	u.busy[name] = true
	defer delete(u.busy, name)
	f := &gemFn{unit: u, name: name, vars: map[string]kind{}}
	var params []string
	var sig gemSig
	addParam := func(n string, t ast.Expr, isRecv bool) {
		k, ok := typeKind(t)
		if !ok {
			f.bad("parameter type of %s", n)
		}
		f.declare(n, k)
		params = append(params, "("+cq(n)+" : "+k.coq()+")")
		if !isRecv {
			sig.args = append(sig.args, k)
		}
	}
	if fd.Recv != nil {
		if len(fd.Recv.List) != 1 || len(fd.Recv.List[0].Names) != 1 {
			f.bad("receiver")
		}
		addParam(fd.Recv.List[0].Names[0].Name, fd.Recv.List[0].Type, true)
	}
	for _, p := range fd.Type.Params.List {
		for _, n := range p.Names {
			addParam(n.Name, p.Type, false)
		}
	}
	var results []kind
	var resT []string
	if fd.Type.Results == nil {
		f.bad("no result")
	}
	for _, r := range fd.Type.Results.List {
		k, ok := typeKind(r.Type)
		if !ok || len(r.Names) != 0 {
			f.bad("result type")
		}
		results = append(results, k)
		resT = append(resT, k.coq())
	}
	sig.res = results[0]
	sig.multi = len(results) > 1
	for _, k := range f.vars {
		if k == kEd {
			f.monadic = true
		}
	}
	// a function that turns out to contain an operation that may panic (a slice, a selection) is
	// translated again as one returning a Res
	saved := map[string]kind{}
	for n, k := range f.vars {
		saved[n] = k
	}
	body, retry := f.tryBody(fd.Body.List, results)
	if retry {
		f.monadic, f.pre, f.tmp = true, nil, 0
		f.vars = saved
		body = f.stmts(fd.Body.List, results, 0)
	}
	sig.monadic = f.monadic
	rt := strings.Join(resT, " * ")
	if f.monadic {
		rt = "Res (" + rt + ")"
	}
	u.defs = append(u.defs, fmt.Sprintf("Definition %s %s : %s :=\n  %s.\n", coqName(name), strings.Join(params, " "), rt, body))
	u.names = append(u.names, coqName(name))
	u.done[name] = sig
	return sig
}
