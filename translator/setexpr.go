package main

// A symbolic evaluator for rune predicates: the set of values of the parameter for which a
// function returns true, as a sorted list of disjoint closed intervals over the integers
// (negInf and posInf standing for the two infinities). It is exact for the fragment it
// accepts - boolean combinations (||, &&, !) of comparisons between the parameter and integer
// or rune literals, calls of other predicates of the same file on the parameter, if/else
// chains, expression-less and tag switches, early returns - and refuses everything else, so
// that a predicate rewritten in any of these styles still translates to the same table.

import (
	"go/ast"
	"go/token"
	"sort"
)

type iset []interval // sorted, disjoint, non-adjacent

func (s iset) norm() iset {
	var t []interval
	for _, iv := range s {
		if iv.lo <= iv.hi {
			t = append(t, iv)
		}
	}
	sort.Slice(t, func(i, j int) bool { return t[i].lo < t[j].lo })
	var out iset
	for _, iv := range t {
		if n := len(out); n > 0 && (out[n-1].hi >= iv.lo || out[n-1].hi+1 == iv.lo) {
			if iv.hi > out[n-1].hi {
				out[n-1].hi = iv.hi
			}
			continue
		}
		out = append(out, iv)
	}
	return out
}

func union(a, b iset) iset { return append(append(iset{}, a...), b...).norm() }

func compl(a iset) iset {
	a = a.norm()
	var out iset
	lo := int64(negInf)
	for _, iv := range a {
		if iv.lo > lo {
			out = append(out, interval{lo, iv.lo - 1})
		}
		if iv.hi >= posInf {
			return out.norm()
		}
		lo = iv.hi + 1
	}
	out = append(out, interval{lo, posInf})
	return out.norm()
}

func inter(a, b iset) iset { return compl(union(compl(a), compl(b))) }

var universe = iset{{negInf, posInf}}

type predEnv struct {
	fns   map[string]*ast.FuncDecl
	memo  map[string]iset
	stack map[string]bool
}

// setOf is the set for which predicate name returns true.
func (e *predEnv) setOf(name string) iset {
	if s, ok := e.memo[name]; ok {
		return s
	}
	if e.stack[name] {
		fail("%s: recursive predicate", name)
	}
	fd := e.fns[name]
	if fd == nil {
		fail("predicate %s not found", name)
	}
	if fd.Type.Params == nil || len(fd.Type.Params.List) != 1 || len(fd.Type.Params.List[0].Names) != 1 || fd.Body == nil {
		fail("%s: unexpected parameter list", name)
	}
	e.stack[name] = true
	param := fd.Type.Params.List[0].Names[0].Name
	s := e.block(fd.Body.List, param, name)
	delete(e.stack, name)
	e.memo[name] = s
	return s
}

// block: the values (of those that reach it) for which the statement list returns true; every
// path must end in a return.
func (e *predEnv) block(l []ast.Stmt, param, fn string) iset {
	if len(l) == 0 {
		fail("%s: a path does not end in return", fn)
	}
	rest := l[1:]
	switch s := l[0].(type) {
	case *ast.ReturnStmt:
		if len(s.Results) != 1 {
			fail("%s: return arity", fn)
		}
		return e.cond(s.Results[0], param, fn)
	case *ast.BlockStmt:
		return e.block(append(append([]ast.Stmt{}, s.List...), rest...), param, fn)
	case *ast.IfStmt:
		if s.Init != nil {
			fail("%s: if with init", fn)
		}
		c := e.cond(s.Cond, param, fn)
		thenS := e.block(append(append([]ast.Stmt{}, s.Body.List...), rest...), param, fn)
		var elseL []ast.Stmt
		if s.Else != nil {
			elseL = []ast.Stmt{s.Else}
		}
		elseS := e.block(append(elseL, rest...), param, fn)
		return union(inter(c, thenS), inter(compl(c), elseS))
	case *ast.SwitchStmt:
		if s.Init != nil {
			fail("%s: switch with init", fn)
		}
		if s.Tag != nil && !isParam(s.Tag, param) {
			fail("%s: switch tag is not the parameter", fn)
		}
		remaining := universe
		var out iset
		var def *ast.CaseClause
		for _, c := range s.Body.List {
			cc := c.(*ast.CaseClause)
			if cc.List == nil {
				def = cc
				continue
			}
			var m iset
			for _, x := range cc.List {
				if s.Tag != nil {
					n, ok := intLit(x)
					if !ok {
						fail("%s: case value is not a literal", fn)
					}
					m = union(m, iset{{n, n}})
				} else {
					m = union(m, e.cond(x, param, fn))
				}
			}
			out = union(out, inter(inter(remaining, m), e.clause(cc.Body, rest, param, fn)))
			remaining = inter(remaining, compl(m))
		}
		if def != nil {
			out = union(out, inter(remaining, e.clause(def.Body, rest, param, fn)))
		} else {
			out = union(out, inter(remaining, e.block(rest, param, fn)))
		}
		return out
	}
	fail("%s: unsupported statement at position %d", fn, l[0].Pos())
	return nil
}

func (e *predEnv) clause(body, rest []ast.Stmt, param, fn string) iset {
	for _, st := range body {
		if b, ok := st.(*ast.BranchStmt); ok {
			_ = b
			fail("%s: break/fallthrough in switch", fn)
		}
	}
	return e.block(append(append([]ast.Stmt{}, body...), rest...), param, fn)
}

func (e *predEnv) cond(x ast.Expr, param, fn string) iset {
	switch v := x.(type) {
	case *ast.ParenExpr:
		return e.cond(v.X, param, fn)
	case *ast.Ident:
		if v.Name == "true" {
			return universe
		}
		if v.Name == "false" {
			return nil
		}
	case *ast.UnaryExpr:
		if v.Op == token.NOT {
			return compl(e.cond(v.X, param, fn))
		}
	case *ast.CallExpr:
		if id, ok := v.Fun.(*ast.Ident); ok && len(v.Args) == 1 && isParam(v.Args[0], param) {
			if _, ok := e.fns[id.Name]; ok {
				return e.setOf(id.Name)
			}
		}
	case *ast.BinaryExpr:
		switch v.Op {
		case token.LOR:
			return union(e.cond(v.X, param, fn), e.cond(v.Y, param, fn))
		case token.LAND:
			return inter(e.cond(v.X, param, fn), e.cond(v.Y, param, fn))
		case token.NEQ:
			if iv, ok := cmpAtom(&ast.BinaryExpr{X: v.X, Op: token.EQL, Y: v.Y}, param); ok {
				return compl(iset{iv})
			}
		default:
			if iv, ok := cmpAtom(v, param); ok {
				return iset{iv}.norm()
			}
		}
	}
	fail("%s: condition at position %d is outside the translated fragment", fn, x.Pos())
	return nil
}
