package main

// Translation of integer-only, loop-free Go functions into Gallina (used for
// util.RangeToIndexes, the position normalisation behind every selection).
// Accepted shape: all parameters and results of type int; the body is a sequence
// of assignments (=, +=, -=, ++, --), if / else statements without init whose
// bodies have the same shape, and one final return. Expressions: identifiers,
// integer literals, + - *, unary -, parentheses; conditions: comparisons, && || !.
// Anything else is a translation failure. Go's int is translated as Z; that no
// intermediate value leaves the int64 range for the arguments the library
// passes (sizes are lengths, positions are ints added to a length) is stated in
// DESIGN.md and not proved here.

import (
	"fmt"
	"go/ast"
	"go/parser"
	"go/token"
	"path/filepath"
	"strings"
)

var coqReserved = map[string]bool{"end": true, "match": true, "with": true, "in": true, "let": true, "fun": true, "if": true, "then": true, "else": true, "return": true, "as": true, "at": true, "Type": true, "Set": true, "Prop": true, "fix": true, "for": true, "forall": true, "exists": true}

func cq(name string) string {
	if coqReserved[name] {
		return name + "_"
	}
	return name
}

type intFn struct {
	vars []string // all int variables in scope (the parameters), Coq names
}

func (f *intFn) tuple() string { return "(" + strings.Join(f.vars, ", ") + ")" }

func (f *intFn) expr(e ast.Expr) string {
	switch v := e.(type) {
	case *ast.ParenExpr:
		return "(" + f.expr(v.X) + ")"
	case *ast.Ident:
		for _, x := range f.vars {
			if x == cq(v.Name) {
				return x
			}
		}
		fail("intfunc: unknown identifier %s", v.Name)
	case *ast.BasicLit:
		if n, ok := intLit(v); ok {
			if n < 0 {
				return fmt.Sprintf("(%d)", n)
			}
			return fmt.Sprintf("%d", n)
		}
	case *ast.UnaryExpr:
		if v.Op == token.SUB {
			return "(- " + f.expr(v.X) + ")"
		}
	case *ast.BinaryExpr:
		switch v.Op {
		case token.ADD:
			return "(" + f.expr(v.X) + " + " + f.expr(v.Y) + ")"
		case token.SUB:
			return "(" + f.expr(v.X) + " - " + f.expr(v.Y) + ")"
		case token.MUL:
			return "(" + f.expr(v.X) + " * " + f.expr(v.Y) + ")"
		}
	}
	fail("intfunc: unsupported expression")
	return ""
}

func (f *intFn) cond(e ast.Expr) string {
	switch v := e.(type) {
	case *ast.ParenExpr:
		return "(" + f.cond(v.X) + ")"
	case *ast.UnaryExpr:
		if v.Op == token.NOT {
			return "(negb " + f.cond(v.X) + ")"
		}
	case *ast.BinaryExpr:
		switch v.Op {
		case token.LAND:
			return "(" + f.cond(v.X) + " && " + f.cond(v.Y) + ")"
		case token.LOR:
			return "(" + f.cond(v.X) + " || " + f.cond(v.Y) + ")"
		case token.LSS:
			return "(" + f.expr(v.X) + " <? " + f.expr(v.Y) + ")"
		case token.LEQ:
			return "(" + f.expr(v.X) + " <=? " + f.expr(v.Y) + ")"
		case token.GTR:
			return "(" + f.expr(v.Y) + " <? " + f.expr(v.X) + ")"
		case token.GEQ:
			return "(" + f.expr(v.Y) + " <=? " + f.expr(v.X) + ")"
		case token.EQL:
			return "(" + f.expr(v.X) + " =? " + f.expr(v.Y) + ")"
		case token.NEQ:
			return "(negb (" + f.expr(v.X) + " =? " + f.expr(v.Y) + "))"
		}
	}
	fail("intfunc: unsupported condition")
	return ""
}

// stmts translates a statement list followed by the continuation k (a Coq expression over the variables).
func (f *intFn) stmts(l []ast.Stmt, k string, allowReturn bool) string {
	if len(l) == 0 {
		return k
	}
	rest := func() string { return f.stmts(l[1:], k, allowReturn) }
	switch s := l[0].(type) {
	case *ast.AssignStmt:
		if len(s.Lhs) != 1 || len(s.Rhs) != 1 {
			fail("intfunc: multiple assignment")
		}
		id, ok := s.Lhs[0].(*ast.Ident)
		if !ok {
			fail("intfunc: assignment target")
		}
		x := f.expr(id)
		var rhs string
		switch s.Tok {
		case token.ASSIGN:
			rhs = f.expr(s.Rhs[0])
		case token.ADD_ASSIGN:
			rhs = "(" + x + " + " + f.expr(s.Rhs[0]) + ")"
		case token.SUB_ASSIGN:
			rhs = "(" + x + " - " + f.expr(s.Rhs[0]) + ")"
		default:
			fail("intfunc: assignment operator %s", s.Tok)
		}
		return "let " + x + " := " + rhs + " in\n  " + rest()
	case *ast.IncDecStmt:
		x := f.expr(s.X)
		op := " + 1"
		if s.Tok == token.DEC {
			op = " - 1"
		}
		return "let " + x + " := (" + x + op + ") in\n  " + rest()
	case *ast.IfStmt:
		if s.Init != nil {
			fail("intfunc: if with init")
		}
		thenE := f.stmts(s.Body.List, f.tuple(), false)
		elseE := f.tuple()
		if s.Else != nil {
			switch e := s.Else.(type) {
			case *ast.BlockStmt:
				elseE = f.stmts(e.List, f.tuple(), false)
			case *ast.IfStmt:
				elseE = f.stmts([]ast.Stmt{e}, f.tuple(), false)
			default:
				fail("intfunc: else form")
			}
		}
		return "let '" + f.tuple() + " := (if " + f.cond(s.Cond) + " then " + thenE + " else " + elseE + ") in\n  " + rest()
	case *ast.ReturnStmt:
		if !allowReturn || len(l) != 1 {
			fail("intfunc: return not in final position")
		}
		parts := make([]string, len(s.Results))
		for i, r := range s.Results {
			parts[i] = f.expr(r)
		}
		return "(" + strings.Join(parts, ", ") + ")"
	}
	fail("intfunc: unsupported statement")
	return ""
}

func isIntType(e ast.Expr) bool {
	id, ok := e.(*ast.Ident)
	return ok && id.Name == "int"
}

// intFunc returns the Gallina definition go_<name> of the function <name> of <file>.
func intFunc(repo, file, name string) string {
	fset := token.NewFileSet()
	af, err := parser.ParseFile(fset, filepath.Join(repo, file), nil, 0)
	if err != nil {
		fail("%v", err)
	}
	for _, d := range af.Decls {
		fd, ok := d.(*ast.FuncDecl)
		if !ok || fd.Name.Name != name || fd.Recv != nil {
			continue
		}
		f := &intFn{}
		for _, p := range fd.Type.Params.List {
			if !isIntType(p.Type) {
				fail("intfunc %s: non-int parameter", name)
			}
			for _, n := range p.Names {
				f.vars = append(f.vars, cq(n.Name))
			}
		}
		nres := 0
		for _, r := range fd.Type.Results.List {
			if !isIntType(r.Type) || len(r.Names) != 0 {
				fail("intfunc %s: result type", name)
			}
			nres++
		}
		res := strings.TrimSuffix(strings.Repeat("Z * ", nres), " * ")
		body := f.stmts(fd.Body.List, "", true)
		return fmt.Sprintf("Definition go_%s (%s : Z) : %s :=\n  %s.\n", name, strings.Join(f.vars, " "), res, body)
	}
	fail("intfunc: function %s not found in %s", name, file)
	return ""
}
