package main

// Translation of integer-only, loop-free Go functions into Gallina (used for
// util.RangeToIndexes, the position normalisation behind every selection).
// Accepted shape: all parameters and results of type int; the body is a sequence
// of assignments (=, +=, -=, ++, --), if / else statements without init whose
// bodies have the same shape, and one final return. Expressions: identifiers,
// integer literals, + - *, unary -, parentheses; conditions: comparisons, && || !.
// Anything else is a translation failure. Go's int is translated as Z; that no
// intermediate value leaves the int64 range for the arguments the library
// passes (sizes are lengths, positions are ints added to a length) is stated in
// DESIGN.md and not proved here.

import (
	"fmt"
	"go/ast"
	"go/parser"
	"go/token"
	"path/filepath"
	"strings"
)

var coqReserved = map[string]bool{"end": true, "match": true, "with": true, "in": true, "let": true, "fun": true, "if": true, "then": true, "else": true, "return": true, "as": true, "at": true, "Type": true, "Set": true, "Prop": true, "fix": true, "for": true, "forall": true, "exists": true}

func cq(name string) string {
	if coqReserved[name] {
		return name + "_"
	}
	return name
}

type intFn struct {
	vars []string // all int variables in scope (the parameters), Coq names
}

func (f *intFn) tuple() string { return "(" + strings.Join(f.vars, ", ") + ")" }

func (f *intFn) expr(e ast.Expr) string {
	switch v := e.(type) {
	case *ast.ParenExpr:
		return "(" + f.expr(v.X) + ")"
	case *ast.Ident:
		for _, x := range f.vars {
			if x == cq(v.Name) {
				return x
			}
		}
		fail("intfunc: unknown identifier %s", v.Name)
	case *ast.BasicLit:
		if n, ok := intLit(v); ok {
			if n < 0 {
				return fmt.Sprintf("(%d)", n)
			}
			return fmt.Sprintf("%d", n)
		}
	case *ast.UnaryExpr:
		if v.Op == token.SUB {
			return "(- " + f.expr(v.X) + ")"
		}
		if v.Op == token.ADD {
			return f.expr(v.X)
		}
	case *ast.CallExpr:
		if id, ok := v.Fun.(*ast.Ident); ok && (id.Name == "min" || id.Name == "max") && len(v.Args) >= 1 {
			op := "Z.min"
			if id.Name == "max" {
				op = "Z.max"
			}
			acc := f.expr(v.Args[0])
			for _, a := range v.Args[1:] {
				acc = "(" + op + " " + acc + " " + f.expr(a) + ")"
			}
			return acc
		}
		if id, ok := v.Fun.(*ast.Ident); ok && id.Name == "int" && len(v.Args) == 1 {
			return f.expr(v.Args[0])
		}
	case *ast.BinaryExpr:
		switch v.Op {
		case token.ADD:
			return "(" + f.expr(v.X) + " + " + f.expr(v.Y) + ")"
		case token.SUB:
			return "(" + f.expr(v.X) + " - " + f.expr(v.Y) + ")"
		case token.MUL:
			return "(" + f.expr(v.X) + " * " + f.expr(v.Y) + ")"
		}
	}
	fail("intfunc: unsupported expression")
	return ""
}

func (f *intFn) cond(e ast.Expr) string {
	switch v := e.(type) {
	case *ast.ParenExpr:
		return "(" + f.cond(v.X) + ")"
	case *ast.UnaryExpr:
		if v.Op == token.NOT {
			return "(negb " + f.cond(v.X) + ")"
		}
	case *ast.BinaryExpr:
		switch v.Op {
		case token.LAND:
			return "(" + f.cond(v.X) + " && " + f.cond(v.Y) + ")"
		case token.LOR:
			return "(" + f.cond(v.X) + " || " + f.cond(v.Y) + ")"
		case token.LSS:
			return "(" + f.expr(v.X) + " <? " + f.expr(v.Y) + ")"
		case token.LEQ:
			return "(" + f.expr(v.X) + " <=? " + f.expr(v.Y) + ")"
		case token.GTR:
			return "(" + f.expr(v.Y) + " <? " + f.expr(v.X) + ")"
		case token.GEQ:
			return "(" + f.expr(v.Y) + " <=? " + f.expr(v.X) + ")"
		case token.EQL:
			return "(" + f.expr(v.X) + " =? " + f.expr(v.Y) + ")"
		case token.NEQ:
			return "(negb (" + f.expr(v.X) + " =? " + f.expr(v.Y) + "))"
		}
	}
	fail("intfunc: unsupported condition")
	return ""
}

// stmts translates a statement list in continuation style: what follows an if statement is
// translated into both of its branches, so early returns inside branches are handled; a
// statement list must end in a return on every path. The result is exponential in the number
// of sequential if statements, which is fine for the small arithmetic helpers this is used on
// (a limit guards against anything larger).
func (f *intFn) stmts(l []ast.Stmt, depth int) string {
	if depth > 4096 {
		fail("intfunc: function too large to translate")
	}
	if len(l) == 0 {
		fail("intfunc: a path does not end in return")
	}
	rest := l[1:]
	switch s := l[0].(type) {
	case *ast.BlockStmt:
		return f.stmts(append(append([]ast.Stmt{}, s.List...), rest...), depth+1)
	case *ast.DeclStmt:
		gd, ok := s.Decl.(*ast.GenDecl)
		if !ok || gd.Tok != token.VAR {
			fail("intfunc: declaration")
		}
		out := ""
		for _, sp := range gd.Specs {
			vs := sp.(*ast.ValueSpec)
			if vs.Type != nil && !isIntType(vs.Type) {
				fail("intfunc: non-int variable")
			}
			for i, n := range vs.Names {
				val := "0"
				if i < len(vs.Values) {
					val = f.expr(vs.Values[i])
				}
				f.vars = append(f.vars, cq(n.Name))
				out += "let " + cq(n.Name) + " := " + val + " in\n  "
			}
		}
		return out + f.stmts(rest, depth+1)
	case *ast.AssignStmt:
		if len(s.Lhs) != len(s.Rhs) {
			fail("intfunc: assignment arity")
		}
		if s.Tok == token.DEFINE {
			// evaluate all right-hand sides first (Go semantics), then bind
			vals := make([]string, len(s.Rhs))
			for i := range s.Rhs {
				vals[i] = f.expr(s.Rhs[i])
			}
			out := ""
			for i, lh := range s.Lhs {
				id, ok := lh.(*ast.Ident)
				if !ok {
					fail("intfunc: define target")
				}
				out += "let " + cq(id.Name) + "' := " + vals[i] + " in\n  "
			}
			for _, lh := range s.Lhs {
				id := lh.(*ast.Ident)
				known := false
				for _, x := range f.vars {
					if x == cq(id.Name) {
						known = true
					}
				}
				if !known {
					f.vars = append(f.vars, cq(id.Name))
				}
				out += "let " + cq(id.Name) + " := " + cq(id.Name) + "' in\n  "
			}
			return out + f.stmts(rest, depth+1)
		}
		if len(s.Lhs) != 1 {
			// parallel assignment: temporaries first
			vals := make([]string, len(s.Rhs))
			for i := range s.Rhs {
				vals[i] = f.expr(s.Rhs[i])
			}
			if s.Tok != token.ASSIGN {
				fail("intfunc: parallel compound assignment")
			}
			out := ""
			for i, lh := range s.Lhs {
				out += "let " + f.expr(lh) + "' := " + vals[i] + " in\n  "
			}
			for _, lh := range s.Lhs {
				out += "let " + f.expr(lh) + " := " + f.expr(lh) + "' in\n  "
			}
			return out + f.stmts(rest, depth+1)
		}
		id, ok := s.Lhs[0].(*ast.Ident)
		if !ok {
			fail("intfunc: assignment target")
		}
		x := f.expr(id)
		var rhs string
		switch s.Tok {
		case token.ASSIGN:
			rhs = f.expr(s.Rhs[0])
		case token.ADD_ASSIGN:
			rhs = "(" + x + " + " + f.expr(s.Rhs[0]) + ")"
		case token.SUB_ASSIGN:
			rhs = "(" + x + " - " + f.expr(s.Rhs[0]) + ")"
		case token.MUL_ASSIGN:
			rhs = "(" + x + " * " + f.expr(s.Rhs[0]) + ")"
		default:
			fail("intfunc: assignment operator %s", s.Tok)
		}
		return "let " + x + " := " + rhs + " in\n  " + f.stmts(rest, depth+1)
	case *ast.IncDecStmt:
		x := f.expr(s.X)
		op := " + 1"
		if s.Tok == token.DEC {
			op = " - 1"
		}
		return "let " + x + " := (" + x + op + ") in\n  " + f.stmts(rest, depth+1)
	case *ast.IfStmt:
		if s.Init != nil {
			fail("intfunc: if with init")
		}
		nv := len(f.vars)
		thenE := f.stmts(append(append([]ast.Stmt{}, s.Body.List...), rest...), depth*2+1)
		f.vars = f.vars[:nv]
		var elseL []ast.Stmt
		if s.Else != nil {
			elseL = []ast.Stmt{s.Else}
		}
		elseE := f.stmts(append(elseL, rest...), depth*2+1)
		f.vars = f.vars[:nv]
		return "(if " + f.cond(s.Cond) + " then\n  " + thenE + "\n  else\n  " + elseE + ")"
	case *ast.ReturnStmt:
		parts := make([]string, len(s.Results))
		for i, r := range s.Results {
			parts[i] = f.expr(r)
		}
		if len(parts) == 0 {
			fail("intfunc: bare return")
		}
		return "(" + strings.Join(parts, ", ") + ")"
	}
	fail("intfunc: unsupported statement")
	return ""
}

func isIntType(e ast.Expr) bool {
	id, ok := e.(*ast.Ident)
	return ok && id.Name == "int"
}

// intFunc returns the Gallina definition go_<name> of the function <name> of <file>.
func intFunc(repo, file, name string) string {
	fset := token.NewFileSet()
	af, err := parser.ParseFile(fset, filepath.Join(repo, file), nil, 0)
	if err != nil {
		fail("%v", err)
	}
	for _, d := range af.Decls {
		fd, ok := d.(*ast.FuncDecl)
		if !ok || fd.Name.Name != name || fd.Recv != nil {
			continue
		}
		f := &intFn{}
		for _, p := range fd.Type.Params.List {
			if !isIntType(p.Type) {
				fail("intfunc %s: non-int parameter", name)
			}
			for _, n := range p.Names {
				f.vars = append(f.vars, cq(n.Name))
			}
		}
		nres := 0
		for _, r := range fd.Type.Results.List {
			if !isIntType(r.Type) || len(r.Names) != 0 {
				fail("intfunc %s: result type", name)
			}
			nres++
		}
		res := strings.TrimSuffix(strings.Repeat("Z * ", nres), " * ")
		body := f.stmts(fd.Body.List, 0)
		return fmt.Sprintf("Definition go_%s (%s : Z) : %s :=\n  %s.\n", name, strings.Join(f.vars, " "), res, body)
	}
	fail("intfunc: function %s not found in %s", name, file)
	return ""
}
