// Command translator regenerates the Coq tables and constants from the Go
// source of dekarrin/rosed. It is run by every check on /repo's working tree.
//
//	translator -repo /repo -out /verif/coq/gen
//
// It parses internal/gem/graphemeclusters.go with go/ast. Every class predicate
// (isCb*, isExtPicto) is evaluated symbolically to the set of values it accepts:
// the shape the source has today (a single `return` of a disjunction of atoms
// `lo <= r && r <= hi` or `r == x`) is kept in source order; any boolean
// combination of comparisons with literals, calls of other predicates, if/else
// chains, switches and early returns (setexpr.go) gives the same set, merged. A
// predicate outside that fragment (a table lookup, say) ends the run with status
// 3; called again with -sweep FILE (the harness's evaluation of the compiled
// predicate on every code point) its table is read off the compiled code
// instead. Other failures are status 2 (message on stderr), which the checks
// treat as a broken proof obligation.
package main

import (
	"flag"
	"fmt"
	"go/ast"
	"go/constant"
	"go/token"
	"os"
	"path/filepath"
	"sort"
	"strconv"
	"strings"
	"unicode"
)

type interval struct{ lo, hi int64 }

var predOrder = []string{
	"isCbPrepend", "isCbCR", "isCbLF", "isCbControl", "isCbExtend",
	"isCbRegionalIndicator", "isCbSpacingMark", "isCbL", "isCbV", "isCbT",
	"isCbLV", "isCbLVT", "isCbZWJ", "isExtPicto",
}

// softErr is what fail panics with while softFail is set: the failure then concerns one
// generated file only (it is written as a stub naming the reason, so that only the proofs that
// depend on it stop building) instead of ending the whole translation.
type softErr string

var softFail bool

func fail(format string, a ...interface{}) {
	if softFail {
		panic(softErr(fmt.Sprintf(format, a...)))
	}
	fmt.Fprintf(os.Stderr, "translator: "+format+"\n", a...)
	os.Exit(2)
}

// tryGemFunc translates one function with the typed translation of gemfunc.go; when its shape
// is outside the translated fragment the result is a stub without the definition (the equality
// proof that needs it then fails to build, which is reported for the property it belongs to only).
// tryGemUnit parses the file; a file that cannot be read gives a unit without declarations (every
// function of the group then becomes a stub).
func tryGemUnit(repo, file string) (u *gemUnit) {
	softFail = true
	defer func() {
		softFail = false
		if r := recover(); r != nil {
			e, ok := r.(softErr)
			if !ok {
				panic(r)
			}
			fmt.Fprintf(os.Stderr, "translator: %s: %s\n", file, string(e))
			u = &gemUnit{file: file, decls: map[string]*ast.FuncDecl{}, done: map[string]gemSig{}, busy: map[string]bool{}}
		}
	}()
	return newGemUnit(repo, file)
}

func tryGemFunc(u *gemUnit, name string) (out string) {
	softFail = true
	defer func() {
		softFail = false
		if r := recover(); r != nil {
			e, ok := r.(softErr)
			if !ok {
				panic(r)
			}
			fmt.Fprintf(os.Stderr, "translator: %s not translated: %s\n", name, string(e))
			out = fmt.Sprintf("(* NOT TRANSLATED: %s: %s *)\nDefinition %s_not_translated : unit := tt.\n", name, strings.ReplaceAll(string(e), "*)", "* )"), coqName(name))
		}
	}()
	before := len(u.defs)
	u.translate(name)
	out = strings.Join(u.defs[before:], "\n")
	return out
}

func intLit(e ast.Expr) (int64, bool) {
	switch v := e.(type) {
	case *ast.ParenExpr:
		return intLit(v.X)
	case *ast.BasicLit:
		if v.Kind != token.INT && v.Kind != token.CHAR {
			return 0, false
		}
		c := constant.MakeFromLiteral(v.Value, v.Kind, 0)
		n, ok := constant.Int64Val(constant.ToInt(c))
		return n, ok
	case *ast.UnaryExpr:
		if v.Op == token.SUB {
			n, ok := intLit(v.X)
			return -n, ok
		}
	}
	return 0, false
}

func isParam(e ast.Expr, name string) bool {
	if p, ok := e.(*ast.ParenExpr); ok {
		return isParam(p.X, name)
	}
	id, ok := e.(*ast.Ident)
	return ok && id.Name == name
}

// bound parses one comparison between the parameter and a literal into a
// half-line [lo, hi] (using min/max int64 as infinities).
const (
	negInf = -1 << 62
	posInf = 1 << 62
)

func cmpAtom(b *ast.BinaryExpr, param string) (interval, bool) {
	var lit int64
	var ok bool
	op := b.Op
	if isParam(b.X, param) {
		lit, ok = intLit(b.Y)
	} else if isParam(b.Y, param) {
		lit, ok = intLit(b.X)
		// flip so that the parameter is on the left
		switch op {
		case token.LSS:
			op = token.GTR
		case token.LEQ:
			op = token.GEQ
		case token.GTR:
			op = token.LSS
		case token.GEQ:
			op = token.LEQ
		}
	}
	if !ok {
		return interval{}, false
	}
	switch op {
	case token.EQL:
		return interval{lit, lit}, true
	case token.LEQ:
		return interval{negInf, lit}, true
	case token.LSS:
		return interval{negInf, lit - 1}, true
	case token.GEQ:
		return interval{lit, posInf}, true
	case token.GTR:
		return interval{lit + 1, posInf}, true
	}
	return interval{}, false
}

// conj parses a conjunction of comparisons into one interval.
func conj(e ast.Expr, param string) (interval, bool) {
	switch v := e.(type) {
	case *ast.ParenExpr:
		return conj(v.X, param)
	case *ast.BinaryExpr:
		if v.Op == token.LAND {
			a, ok1 := conj(v.X, param)
			b, ok2 := conj(v.Y, param)
			if !ok1 || !ok2 {
				return interval{}, false
			}
			if b.lo > a.lo {
				a.lo = b.lo
			}
			if b.hi < a.hi {
				a.hi = b.hi
			}
			return a, true
		}
		return cmpAtom(v, param)
	}
	return interval{}, false
}

func disj(e ast.Expr, param string, out *[]interval) bool {
	switch v := e.(type) {
	case *ast.ParenExpr:
		return disj(v.X, param, out)
	case *ast.BinaryExpr:
		if v.Op == token.LOR {
			return disj(v.X, param, out) && disj(v.Y, param, out)
		}
	case *ast.Ident:
		if v.Name == "false" {
			return true
		}
	}
	iv, ok := conj(e, param)
	if !ok {
		return false
	}
	if iv.lo == negInf || iv.hi == posInf {
		return false // unbounded atoms are not a table
	}
	if iv.lo <= iv.hi {
		*out = append(*out, iv)
	}
	return true
}

// simplePred is the shape the source has today: a single return of a disjunction of range
// atoms. The intervals are kept in source order, unmerged.
func simplePred(fd *ast.FuncDecl) ([]interval, bool) {
	if fd.Type.Params == nil || len(fd.Type.Params.List) != 1 || len(fd.Type.Params.List[0].Names) != 1 {
		return nil, false
	}
	param := fd.Type.Params.List[0].Names[0].Name
	if fd.Body == nil || len(fd.Body.List) != 1 {
		return nil, false
	}
	ret, ok := fd.Body.List[0].(*ast.ReturnStmt)
	if !ok || len(ret.Results) != 1 {
		return nil, false
	}
	var ivs []interval
	if !disj(ret.Results[0], param, &ivs) {
		return nil, false
	}
	return ivs, true
}

// generalPred evaluates any predicate of the fragment of setexpr.go; ok is false (with the
// reason) when the predicate is outside it.
func generalPred(env *predEnv, name string) (ivs []interval, why string, ok bool) {
	softFail = true
	defer func() {
		softFail = false
		if r := recover(); r != nil {
			e, isSoft := r.(softErr)
			if !isSoft {
				panic(r)
			}
			ivs, why, ok = nil, string(e), false
		}
	}()
	s := env.setOf(name)
	for _, iv := range s {
		if iv.lo <= negInf || iv.hi >= posInf {
			fail("%s: true on an unbounded set of values", name)
		}
	}
	return []interval(s), "", true
}

// sweepPred reads the set from the harness's exhaustive evaluation of the compiled predicate
// (one line "codepoint bits" per value; bit i is predOrder[i]).
func sweepPred(sweep string, idx int) []interval {
	data, err := os.ReadFile(sweep)
	if err != nil {
		fail("sweep file: %v", err)
	}
	var cps []int64
	for _, ln := range strings.Split(string(data), "\n") {
		f := strings.Fields(ln)
		if len(f) != 2 {
			continue
		}
		cp, e1 := strconv.ParseInt(f[0], 10, 64)
		bits, e2 := strconv.ParseInt(f[1], 10, 64)
		if e1 != nil || e2 != nil {
			fail("sweep file: bad line %q", ln)
		}
		if bits>>uint(idx)&1 == 1 {
			cps = append(cps, cp)
		}
	}
	var s iset
	for _, c := range cps {
		s = append(s, interval{c, c})
	}
	return []interval(s.norm())
}

func setSize(s iset) int64 {
	var n int64
	for _, iv := range s {
		n += iv.hi - iv.lo + 1
	}
	return n
}

// refTables reads the fourteen interval lists of coq/ref/Ucd13.v in the order of predOrder.
func refTables(path string) []iset {
	data, err := os.ReadFile(path)
	if err != nil {
		return nil
	}
	var out []iset
	for _, ln := range strings.Split(string(data), "\n") {
		if !strings.HasPrefix(ln, "Definition ucd13_") || strings.HasPrefix(ln, "Definition ucd13_tables") {
			continue
		}
		var s iset
		rest := ln[strings.Index(ln, ":=")+2:]
		for _, part := range strings.Split(rest, "(")[1:] {
			part = part[:strings.Index(part, ")")]
			ab := strings.Split(part, ",")
			if len(ab) != 2 {
				continue
			}
			a, e1 := strconv.ParseInt(strings.TrimSpace(ab[0]), 10, 64)
			b, e2 := strconv.ParseInt(strings.TrimSpace(ab[1]), 10, 64)
			if e1 == nil && e2 == nil {
				s = append(s, interval{a, b})
			}
		}
		out = append(out, s.norm())
	}
	return out
}

// matchByContent looks for a renamed class predicate.
func matchByContent(env *predEnv, ref string, idx int) (string, []interval) {
	refs := refTables(ref)
	if idx >= len(refs) {
		return "", nil
	}
	want := refs[idx]
	known := map[string]bool{}
	for _, p := range predOrder {
		known[p] = true
	}
	best, bestName := 0.0, ""
	var bestSet []interval
	ties := 0
	for name, fd := range env.fns {
		if known[name] || fd.Type.Params == nil || len(fd.Type.Params.List) != 1 || len(fd.Type.Params.List[0].Names) != 1 ||
			fd.Type.Results == nil || len(fd.Type.Results.List) != 1 {
			continue
		}
		if id, ok := fd.Type.Params.List[0].Type.(*ast.Ident); !ok || id.Name != "rune" {
			continue
		}
		if id, ok := fd.Type.Results.List[0].Type.(*ast.Ident); !ok || id.Name != "bool" {
			continue
		}
		ivs, ok := simplePred(fd)
		if !ok {
			var okg bool
			ivs, _, okg = generalPred(env, name)
			if !okg {
				continue
			}
		}
		got := iset(ivs).norm()
		in := setSize(inter(got, want))
		un := setSize(union(got, want))
		if un == 0 {
			continue
		}
		j := float64(in) / float64(un)
		if j > best {
			best, bestName, bestSet, ties = j, name, ivs, 0
		} else if j == best {
			ties++
		}
	}
	if best >= 0.9 && ties == 0 {
		return bestName, bestSet
	}
	return "", nil
}

// tables returns the interval table of every class predicate and the names of those that had
// to be read off the compiled code (sweep) because their source is outside the translated
// fragment. Without a sweep file such a predicate ends the run with status 3, which asks the
// caller to run the sweep and call again.
func tables(repo, sweep, ref string) (map[string][]interval, []string) {
	// the predicates are looked up in the whole package (they may move between its files)
	env := &predEnv{fns: map[string]*ast.FuncDecl{}, memo: map[string]iset{}, stack: map[string]bool{}}
	func() {
		softFail = true
		defer func() {
			softFail = false
			if r := recover(); r != nil {
				if e, ok := r.(softErr); ok {
					// the package cannot be read: the tables are then read off the compiled code
					fmt.Fprintf(os.Stderr, "translator: internal/gem: %s\n", string(e))
					return
				}
				panic(r)
			}
		}()
		for _, f := range parsePkg(filepath.Join(repo, "internal", "gem")) {
			for _, d := range f.Decls {
				if fd, ok := d.(*ast.FuncDecl); ok && fd.Recv == nil {
					env.fns[fd.Name.Name] = fd
				}
			}
		}
	}()
	res := map[string][]interval{}
	var swept []string
	var need []string
	for i, p := range predOrder {
		fd := env.fns[p]
		why := "not found in graphemeclusters.go"
		if fd == nil && ref != "" {
			// renamed? recognise it by what it accepts: the function of type func(rune) bool, not one of
			// the other predicates, whose set is (nearly) the reference set of this class
			if name, ivs := matchByContent(env, ref, i); name != "" {
				fmt.Fprintf(os.Stderr, "translator: %s not found by name; %s accepts its set and is taken for it\n", p, name)
				res[p] = ivs
				continue
			}
		}
		if fd != nil {
			if ivs, ok := simplePred(fd); ok {
				res[p] = ivs
				continue
			}
			var ivs []interval
			var ok bool
			ivs, why, ok = generalPred(env, p)
			if ok {
				res[p] = ivs
				continue
			}
		}
		fmt.Fprintf(os.Stderr, "translator: %s is outside the translated fragment (%s)\n", p, why)
		if sweep == "" {
			need = append(need, p)
			continue
		}
		res[p] = sweepPred(sweep, i)
		swept = append(swept, p)
	}
	if len(need) > 0 {
		fmt.Fprintf(os.Stderr, "translator: need the exhaustive sweep of the compiled predicates for %s\n", strings.Join(need, ", "))
		os.Exit(3)
	}
	return res, swept
}

// ---- constants -----------------------------------------------------------

func stringConsts(repo, file string, names []string) map[string]string {
	out := map[string]string{}
	var files []*ast.File
	func() {
		softFail = true
		defer func() {
			softFail = false
			if r := recover(); r != nil {
				if e, ok := r.(softErr); ok {
					// not fatal: no constant of this package is generated
					fmt.Fprintf(os.Stderr, "translator: %s: %s\n", file, string(e))
					return
				}
				panic(r)
			}
		}()
		files = parsePkg(filepath.Join(repo, file))
	}()
	for _, f := range files {
		ast.Inspect(f, func(n ast.Node) bool {
			vs, ok := n.(*ast.ValueSpec)
			if !ok {
				return true
			}
			for i, id := range vs.Names {
				if i >= len(vs.Values) {
					continue
				}
				lit, ok := vs.Values[i].(*ast.BasicLit)
				if !ok {
					continue
				}
				for _, w := range names {
					if w == id.Name {
						switch lit.Kind {
						case token.STRING:
							s, err := strconv.Unquote(lit.Value)
							if err != nil {
								fail("%s: %v", id.Name, err)
							}
							out[w] = "S" + s
						case token.INT:
							out[w] = "I" + lit.Value
						}
					}
				}
			}
			return true
		})
	}
	for _, w := range names {
		if _, ok := out[w]; !ok {
			// not fatal: the constant is left out of gen/Consts.v, so that only the proof that
			// mentions it (and the property that proof belongs to) stops building
			fmt.Fprintf(os.Stderr, "translator: constant %s not found as a literal in %s\n", w, file)
		}
	}
	return out
}

func bytesList(s string) string {
	parts := make([]string, 0, len(s))
	for i := 0; i < len(s); i++ {
		parts = append(parts, strconv.Itoa(int(s[i])))
	}
	return "[" + strings.Join(parts, "; ") + "]"
}

func writeIfChanged(path, content string) {
	old, err := os.ReadFile(path)
	if err == nil && string(old) == content {
		return
	}
	if err := os.MkdirAll(filepath.Dir(path), 0o755); err != nil {
		fail("%v", err)
	}
	if err := os.WriteFile(path, []byte(content), 0o644); err != nil {
		fail("%v", err)
	}
}

func main() {
	repo := flag.String("repo", "/repo", "repository root")
	out := flag.String("out", "/verif/coq/gen", "output directory")
	ref := flag.String("ref", "", "reference tables (coq/ref/Ucd13.v): used only to recognise a class predicate that was renamed, by the set of values it accepts")
	sweep := flag.String("sweep", "", "output of `harness sweep`, used for predicates whose source is outside the translated fragment")
	flag.Parse()

	tabs, swept := tables(*repo, *sweep, *ref)
	var b strings.Builder
	b.WriteString("(* GENERATED by /verif/translator from internal/gem/graphemeclusters.go. Do not edit. *)\n")
	if len(swept) > 0 {
		b.WriteString("(* read off the compiled predicates by exhaustive evaluation (source outside the translated fragment): " + strings.Join(swept, ", ") + " *)\n")
		fmt.Printf("translator: from the sweep of the compiled code: %s\n", strings.Join(swept, ", "))
	}
	b.WriteString("From Coq Require Import ZArith List.\nImport ListNotations.\nOpen Scope Z_scope.\n\n")
	total := 0
	for _, p := range predOrder {
		ivs := tabs[p]
		total += len(ivs)
		fmt.Fprintf(&b, "Definition %s_tab : list (Z*Z) := [", p)
		for i, iv := range ivs {
			if i > 0 {
				b.WriteString("; ")
			}
			if i%8 == 7 {
				b.WriteString("\n  ")
			}
			fmt.Fprintf(&b, "(%d,%d)", iv.lo, iv.hi)
		}
		b.WriteString("].\n")
	}
	b.WriteString("\nDefinition go_tables : list (list (Z*Z)) := [")
	for i, p := range predOrder {
		if i > 0 {
			b.WriteString("; ")
		}
		b.WriteString(p + "_tab")
	}
	b.WriteString("].\n")
	writeIfChanged(filepath.Join(*out, "Tables.v"), b.String())

	// constants
	oc := stringConsts(*repo, ".", []string{"DefaultIndentString", "DefaultLineSeparator", "DefaultParagraphSeparator", "DefaultTableCharSet"})
	pc := stringConsts(*repo, ".", []string{"termLeftTabWidth", "minBetween", "definitionStart"})
	var c strings.Builder
	c.WriteString("(* GENERATED by /verif/translator from options.go, operations.go. Do not edit. *)\n")
	c.WriteString("From Coq Require Import ZArith List.\nImport ListNotations.\nOpen Scope Z_scope.\n\n")
	emit := func(m map[string]string) {
		keys := make([]string, 0, len(m))
		for k := range m {
			keys = append(keys, k)
		}
		sort.Strings(keys)
		for _, k := range keys {
			v := m[k]
			if v[0] == 'S' {
				fmt.Fprintf(&c, "Definition go_%s : list Z := %s.\n", k, bytesList(v[1:]))
			} else {
				n, err := strconv.ParseInt(v[1:], 0, 64)
				if err != nil {
					fail("%s: %v", k, err)
				}
				fmt.Fprintf(&c, "Definition go_%s : Z := %d.\n", k, n)
			}
		}
	}
	emit(oc)
	emit(pc)
	writeIfChanged(filepath.Join(*out, "Consts.v"), c.String())
	// unicode.ToUpper of the Go runtime the harness is built with (an oracle for
	// strings.ToUpper in table headers); every code point it changes.
	var u strings.Builder
	u.WriteString("(* GENERATED by /verif/translator from the Go runtime's unicode.ToUpper. Do not edit. *)\n")
	u.WriteString("From Coq Require Import ZArith List.\nImport ListNotations.\nOpen Scope Z_scope.\n\n")
	u.WriteString("Definition go_upper_tab : list (Z*Z) := [")
	first := true
	nup := 0
	for r := rune(0); r <= unicode.MaxRune; r++ {
		if up := unicode.ToUpper(r); up != r {
			if !first {
				u.WriteString("; ")
			}
			if nup%8 == 7 {
				u.WriteString("\n  ")
			}
			first = false
			nup++
			fmt.Fprintf(&u, "(%d,%d)", r, up)
		}
	}
	u.WriteString("].\n")
	writeIfChanged(filepath.Join(*out, "Upper.v"), u.String())
	// loop-free functions over int, string, gem.String, Options and Editor (gemfunc.go); one
	// generated file per group, so that a function outside the translated fragment only stops
	// the proofs of its own group (and so only the property those belong to)
	groups := []struct {
		out, src string
		fns      []string
	}{
		{"Funcs.v", filepath.Join("internal", "util"), []string{"RangeToIndexes"}},
		{"GemAlign.v", filepath.Join("internal", "manip"), []string{"CountLeadingWhitespace", "CountTrailingWhitespace", "AlignLineLeft", "AlignLineRight", "AlignLineCenter"}},
		{"GemOpts.v", ".", []string{"Options.WithDefaults"}},
		{"GemEdit.v", ".", []string{"Editor.Insert", "Editor.Delete", "Editor.Overtype"}},
		{"GemChars.v", ".", []string{"Editor.CharsFrom", "Editor.CharsTo"}},
		{"GemLines.v", ".", []string{"Editor.LinesFrom", "Editor.LinesTo"}},
		{"GemCommit.v", ".", []string{"Editor.Commit", "Editor.String"}},
	}
	for _, g := range groups {
		var gf strings.Builder
		gf.WriteString("(* GENERATED by /verif/translator from the package in directory " + g.src + " of the repository. Do not edit. *)\n")
		gf.WriteString("From Coq Require Import ZArith Bool List.\nImport ListNotations.\n")
		gf.WriteString("From Rosed Require Import Base.Res Base.ListX Base.Utf8 Gem.Segment Gem.GString Model.Manip Model.Options Model.Editor Inst.GoRt gen.Consts.\n")
		gf.WriteString("Open Scope Z_scope.\nOpen Scope bool_scope.\n\nSection GoGemFuncs.\nContext `{Classifier}.\n\n")
		u := tryGemUnit(*repo, g.src)
		for _, n := range g.fns {
			gf.WriteString(tryGemFunc(u, n))
			gf.WriteString("\n")
		}
		gf.WriteString("End GoGemFuncs.\n")
		// helpers translated on demand (functions a maintainer has extracted) are unfolded by the
		// proof scripts without being named there
		entry := map[string]bool{}
		for _, n := range g.fns {
			entry[coqName(n)] = true
		}
		var helpers []string
		for _, n := range u.names {
			if !entry[n] {
				helpers = append(helpers, n)
			}
		}
		if len(helpers) > 0 {
			gf.WriteString("\n#[export] Hint Unfold " + strings.Join(helpers, " ") + " : go_defs.\n")
		}
		writeIfChanged(filepath.Join(*out, g.out), gf.String())
	}
	fmt.Printf("translator: %d predicates, %d intervals\n", len(predOrder), total)
}
