// Command translator regenerates the Coq tables and constants from the Go
// source of dekarrin/rosed. It is run by every check on /repo's working tree.
//
//	translator -repo /repo -out /verif/coq/gen
//
// It parses internal/gem/graphemeclusters.go with go/ast and requires every
// class predicate (isCb*, isExtPicto) to be a single `return` of a disjunction
// of atoms `lo <= r && r <= hi` or `r == x` over integer literals. Any other
// shape is a translation failure (exit 2, message on stderr), which the checks
// treat as a broken proof obligation.
package main

import (
	"flag"
	"fmt"
	"go/ast"
	"go/constant"
	"go/parser"
	"go/token"
	"os"
	"path/filepath"
	"sort"
	"strconv"
	"strings"
	"unicode"
)

type interval struct{ lo, hi int64 }

var predOrder = []string{
	"isCbPrepend", "isCbCR", "isCbLF", "isCbControl", "isCbExtend",
	"isCbRegionalIndicator", "isCbSpacingMark", "isCbL", "isCbV", "isCbT",
	"isCbLV", "isCbLVT", "isCbZWJ", "isExtPicto",
}

func fail(format string, a ...interface{}) {
	fmt.Fprintf(os.Stderr, "translator: "+format+"\n", a...)
	os.Exit(2)
}

func intLit(e ast.Expr) (int64, bool) {
	switch v := e.(type) {
	case *ast.ParenExpr:
		return intLit(v.X)
	case *ast.BasicLit:
		if v.Kind != token.INT && v.Kind != token.CHAR {
			return 0, false
		}
		c := constant.MakeFromLiteral(v.Value, v.Kind, 0)
		n, ok := constant.Int64Val(constant.ToInt(c))
		return n, ok
	case *ast.UnaryExpr:
		if v.Op == token.SUB {
			n, ok := intLit(v.X)
			return -n, ok
		}
	}
	return 0, false
}

func isParam(e ast.Expr, name string) bool {
	if p, ok := e.(*ast.ParenExpr); ok {
		return isParam(p.X, name)
	}
	id, ok := e.(*ast.Ident)
	return ok && id.Name == name
}

// bound parses one comparison between the parameter and a literal into a
// half-line [lo, hi] (using min/max int64 as infinities).
const (
	negInf = -1 << 62
	posInf = 1 << 62
)

func cmpAtom(b *ast.BinaryExpr, param string) (interval, bool) {
	var lit int64
	var ok bool
	op := b.Op
	if isParam(b.X, param) {
		lit, ok = intLit(b.Y)
	} else if isParam(b.Y, param) {
		lit, ok = intLit(b.X)
		// flip so that the parameter is on the left
		switch op {
		case token.LSS:
			op = token.GTR
		case token.LEQ:
			op = token.GEQ
		case token.GTR:
			op = token.LSS
		case token.GEQ:
			op = token.LEQ
		}
	}
	if !ok {
		return interval{}, false
	}
	switch op {
	case token.EQL:
		return interval{lit, lit}, true
	case token.LEQ:
		return interval{negInf, lit}, true
	case token.LSS:
		return interval{negInf, lit - 1}, true
	case token.GEQ:
		return interval{lit, posInf}, true
	case token.GTR:
		return interval{lit + 1, posInf}, true
	}
	return interval{}, false
}

// conj parses a conjunction of comparisons into one interval.
func conj(e ast.Expr, param string) (interval, bool) {
	switch v := e.(type) {
	case *ast.ParenExpr:
		return conj(v.X, param)
	case *ast.BinaryExpr:
		if v.Op == token.LAND {
			a, ok1 := conj(v.X, param)
			b, ok2 := conj(v.Y, param)
			if !ok1 || !ok2 {
				return interval{}, false
			}
			if b.lo > a.lo {
				a.lo = b.lo
			}
			if b.hi < a.hi {
				a.hi = b.hi
			}
			return a, true
		}
		return cmpAtom(v, param)
	}
	return interval{}, false
}

func disj(e ast.Expr, param string, out *[]interval) bool {
	switch v := e.(type) {
	case *ast.ParenExpr:
		return disj(v.X, param, out)
	case *ast.BinaryExpr:
		if v.Op == token.LOR {
			return disj(v.X, param, out) && disj(v.Y, param, out)
		}
	case *ast.Ident:
		if v.Name == "false" {
			return true
		}
	}
	iv, ok := conj(e, param)
	if !ok {
		return false
	}
	if iv.lo == negInf || iv.hi == posInf {
		return false // unbounded atoms are not a table
	}
	if iv.lo <= iv.hi {
		*out = append(*out, iv)
	}
	return true
}

func tables(repo string) map[string][]interval {
	path := filepath.Join(repo, "internal", "gem", "graphemeclusters.go")
	fset := token.NewFileSet()
	f, err := parser.ParseFile(fset, path, nil, 0)
	if err != nil {
		fail("parse %s: %v", path, err)
	}
	res := map[string][]interval{}
	for _, d := range f.Decls {
		fd, ok := d.(*ast.FuncDecl)
		if !ok || fd.Recv != nil {
			continue
		}
		name := fd.Name.Name
		want := false
		for _, p := range predOrder {
			if p == name {
				want = true
			}
		}
		if !want {
			continue
		}
		if fd.Type.Params == nil || len(fd.Type.Params.List) != 1 || len(fd.Type.Params.List[0].Names) != 1 {
			fail("%s: unexpected parameter list", name)
		}
		param := fd.Type.Params.List[0].Names[0].Name
		if fd.Body == nil || len(fd.Body.List) != 1 {
			fail("%s: body is not a single statement", name)
		}
		ret, ok := fd.Body.List[0].(*ast.ReturnStmt)
		if !ok || len(ret.Results) != 1 {
			fail("%s: body is not a single return", name)
		}
		var ivs []interval
		if !disj(ret.Results[0], param, &ivs) {
			fail("%s: return expression at %s is not a disjunction of range atoms", name, fset.Position(ret.Pos()))
		}
		res[name] = ivs
	}
	for _, p := range predOrder {
		if _, ok := res[p]; !ok {
			fail("predicate %s not found", p)
		}
	}
	return res
}

// ---- constants -----------------------------------------------------------

func stringConsts(repo, file string, names []string) map[string]string {
	path := filepath.Join(repo, file)
	fset := token.NewFileSet()
	f, err := parser.ParseFile(fset, path, nil, 0)
	if err != nil {
		fail("parse %s: %v", path, err)
	}
	out := map[string]string{}
	ast.Inspect(f, func(n ast.Node) bool {
		vs, ok := n.(*ast.ValueSpec)
		if !ok {
			return true
		}
		for i, id := range vs.Names {
			if i >= len(vs.Values) {
				continue
			}
			lit, ok := vs.Values[i].(*ast.BasicLit)
			if !ok {
				continue
			}
			for _, w := range names {
				if w == id.Name {
					switch lit.Kind {
					case token.STRING:
						s, err := strconv.Unquote(lit.Value)
						if err != nil {
							fail("%s: %v", id.Name, err)
						}
						out[w] = "S" + s
					case token.INT:
						out[w] = "I" + lit.Value
					}
				}
			}
		}
		return true
	})
	for _, w := range names {
		if _, ok := out[w]; !ok {
			fail("constant %s not found as a literal in %s", w, file)
		}
	}
	return out
}

func bytesList(s string) string {
	parts := make([]string, 0, len(s))
	for i := 0; i < len(s); i++ {
		parts = append(parts, strconv.Itoa(int(s[i])))
	}
	return "[" + strings.Join(parts, "; ") + "]"
}

func writeIfChanged(path, content string) {
	old, err := os.ReadFile(path)
	if err == nil && string(old) == content {
		return
	}
	if err := os.MkdirAll(filepath.Dir(path), 0o755); err != nil {
		fail("%v", err)
	}
	if err := os.WriteFile(path, []byte(content), 0o644); err != nil {
		fail("%v", err)
	}
}

func main() {
	repo := flag.String("repo", "/repo", "repository root")
	out := flag.String("out", "/verif/coq/gen", "output directory")
	flag.Parse()

	tabs := tables(*repo)
	var b strings.Builder
	b.WriteString("(* GENERATED by /verif/translator from internal/gem/graphemeclusters.go. Do not edit. *)\n")
	b.WriteString("From Coq Require Import ZArith List.\nImport ListNotations.\nOpen Scope Z_scope.\n\n")
	total := 0
	for _, p := range predOrder {
		ivs := tabs[p]
		total += len(ivs)
		fmt.Fprintf(&b, "Definition %s_tab : list (Z*Z) := [", p)
		for i, iv := range ivs {
			if i > 0 {
				b.WriteString("; ")
			}
			if i%8 == 7 {
				b.WriteString("\n  ")
			}
			fmt.Fprintf(&b, "(%d,%d)", iv.lo, iv.hi)
		}
		b.WriteString("].\n")
	}
	b.WriteString("\nDefinition go_tables : list (list (Z*Z)) := [")
	for i, p := range predOrder {
		if i > 0 {
			b.WriteString("; ")
		}
		b.WriteString(p + "_tab")
	}
	b.WriteString("].\n")
	writeIfChanged(filepath.Join(*out, "Tables.v"), b.String())

	// constants
	oc := stringConsts(*repo, "options.go", []string{"DefaultIndentString", "DefaultLineSeparator", "DefaultParagraphSeparator", "DefaultTableCharSet"})
	pc := stringConsts(*repo, "operations.go", []string{"termLeftTabWidth", "minBetween", "definitionStart"})
	tc := stringConsts(*repo, filepath.Join("internal", "manip", "table.go"), []string{"minNonBorderInterColumnPadding"})
	var c strings.Builder
	c.WriteString("(* GENERATED by /verif/translator from options.go, operations.go, internal/manip/table.go. Do not edit. *)\n")
	c.WriteString("From Coq Require Import ZArith List.\nImport ListNotations.\nOpen Scope Z_scope.\n\n")
	emit := func(m map[string]string) {
		keys := make([]string, 0, len(m))
		for k := range m {
			keys = append(keys, k)
		}
		sort.Strings(keys)
		for _, k := range keys {
			v := m[k]
			if v[0] == 'S' {
				fmt.Fprintf(&c, "Definition go_%s : list Z := %s.\n", k, bytesList(v[1:]))
			} else {
				n, err := strconv.ParseInt(v[1:], 0, 64)
				if err != nil {
					fail("%s: %v", k, err)
				}
				fmt.Fprintf(&c, "Definition go_%s : Z := %d.\n", k, n)
			}
		}
	}
	emit(oc)
	emit(pc)
	emit(tc)
	writeIfChanged(filepath.Join(*out, "Consts.v"), c.String())
	// unicode.ToUpper of the Go runtime the harness is built with (an oracle for
	// strings.ToUpper in table headers); every code point it changes.
	var u strings.Builder
	u.WriteString("(* GENERATED by /verif/translator from the Go runtime's unicode.ToUpper. Do not edit. *)\n")
	u.WriteString("From Coq Require Import ZArith List.\nImport ListNotations.\nOpen Scope Z_scope.\n\n")
	u.WriteString("Definition go_upper_tab : list (Z*Z) := [")
	first := true
	nup := 0
	for r := rune(0); r <= unicode.MaxRune; r++ {
		if up := unicode.ToUpper(r); up != r {
			if !first {
				u.WriteString("; ")
			}
			if nup%8 == 7 {
				u.WriteString("\n  ")
			}
			first = false
			nup++
			fmt.Fprintf(&u, "(%d,%d)", r, up)
		}
	}
	u.WriteString("].\n")
	writeIfChanged(filepath.Join(*out, "Upper.v"), u.String())
	// integer-only functions translated statement by statement
	var fn strings.Builder
	fn.WriteString("(* GENERATED by /verif/translator from internal/util/util.go. Do not edit. *)\n")
	fn.WriteString("From Coq Require Import ZArith Bool.\nOpen Scope Z_scope.\n\n")
	fn.WriteString(intFunc(*repo, filepath.Join("internal", "util", "util.go"), "RangeToIndexes"))
	writeIfChanged(filepath.Join(*out, "Funcs.v"), fn.String())
	fmt.Printf("translator: %d predicates, %d intervals\n", len(predOrder), total)
}
