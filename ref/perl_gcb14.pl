use strict; use warnings;
my @cls = qw(CR LF Control Extend ZWJ Regional_Indicator Prepend SpacingMark L V T LV LVT);
my %re; for my $c (@cls) { $re{$c} = qr/\p{GCB=$c}/; }
my $age13 = qr/\p{Present_In: 13.0}/;
my $di = qr/\p{Default_Ignorable_Code_Point}/;
my $ep = qr/\p{Extended_Pictographic}/;
my $cn = qr/\p{Gc=Cn}/;
for my $cp (0..0x10FFFF) {
  next if $cp >= 0xD800 && $cp <= 0xDFFF;
  my $ch = chr($cp); my $g = 'Other';
  for my $c (@cls) { if ($ch =~ $re{$c}) { $g = $c; last; } }
  my $in13 = ($ch =~ $age13) ? 1 : 0;
  my $d = ($ch =~ $di) ? 1:0; my $e = ($ch =~ $ep)?1:0; my $u = ($ch =~ $cn)?1:0;
  next if $g eq 'Other' && !$e && $in13 && !$d;
  printf "%X %s %d %d %d %d\n", $cp, $g, $in13, $d, $e, $u;
}
