#!/usr/bin/env python3
"""Derive coq/ref/Ucd13.v (Grapheme_Cluster_Break and Extended_Pictographic for
Unicode 13.0.0) from local sources only.  Run by hand; the output is committed.

Sources:  perl 5.36 (Unicode 14.0 GCB + Present_In 13.0 + Default_Ignorable),
          ref/emoji-data-13.0.txt (verbatim Unicode 13.0 emoji-data.txt),
          three documented 13.0 -> 14.0 GraphemeBreakProperty deltas.
"""
import subprocess, re, sys, os
here = os.path.dirname(os.path.abspath(__file__))
order = ['Prepend','CR','LF','Control','Extend','Regional_Indicator','SpacingMark','L','V','T','LV','LVT','ZWJ']
coqname = {'Prepend':'Prepend','CR':'CR','LF':'LF','Control':'Control','Extend':'Extend','Regional_Indicator':'RI',
           'SpacingMark':'SpacingMark','L':'L','V':'V','T':'T','LV':'LV','LVT':'LVT','ZWJ':'ZWJ'}
out = subprocess.run(['perl', os.path.join(here,'perl_gcb14.pl')], capture_output=True, text=True, check=True).stdout
cls = {}
for l in out.splitlines():
    cp,g,in13,d,e,u = l.split(); cp=int(cp,16); in13=int(in13); d=int(d)
    if in13:
        if g!='Other': cls[cp]=g
    elif d:
        cls[cp]='Control'   # unassigned Default_Ignorable code points are Control
# documented deltas between 13.0 and 14.0 (GraphemeBreakProperty-14.0.0.txt vs 13.0.0):
cls[0x1734]='Extend'          # 14.0: SpacingMark (gc Mn->Mc)
cls[0x11720]='SpacingMark'    # 14.0: Other
cls[0x11721]='SpacingMark'    # 14.0: Other
cls.pop(0x180F, None)         # assigned (and made DI) in 14.0; unassigned, not DI, in 13.0
ep=set()
for l in open(os.path.join(here,'emoji-data-13.0.txt')):
    m=re.match(r'([0-9A-F]+)(?:\.\.([0-9A-F]+))?\s*;\s*Extended_Pictographic',l)
    if m:
        a=int(m.group(1),16); b=int(m.group(2) or m.group(1),16); ep.update(range(a,b+1))
def intervals(s):
    s=sorted(s); res=[]
    for c in s:
        if res and res[-1][1]==c-1: res[-1][1]=c
        else: res.append([c,c])
    return res
with open(os.path.join(here,'..','coq','ref','Ucd13.v'),'w') as f:
    f.write('(* Reference data: Unicode 13.0.0 Grapheme_Cluster_Break and Extended_Pictographic.\n   Derived by /verif/ref/derive_ucd13.py; committed; see DESIGN.md section 4. *)\n')
    f.write('From Coq Require Import ZArith List.\nImport ListNotations.\nOpen Scope Z_scope.\n\n')
    names=[]
    for g in order:
        iv=intervals(c for c,v in cls.items() if v==g)
        n='ucd13_%s'%coqname[g]; names.append(n)
        f.write('Definition %s : list (Z*Z) := [%s].\n'%(n,'; '.join('(%d,%d)'%(a,b) for a,b in iv)))
        print(g,len(iv),sum(b-a+1 for a,b in iv),file=sys.stderr)
    iv=intervals(ep); names.append('ucd13_ExtPict')
    f.write('Definition ucd13_ExtPict : list (Z*Z) := [%s].\n'%'; '.join('(%d,%d)'%(a,b) for a,b in iv))
    print('ExtPict',len(iv),len(ep),file=sys.stderr)
    f.write('\nDefinition ucd13_tables : list (list (Z*Z)) := [%s].\n'%'; '.join(names))
