//go:build !verif_nomanip

package main

// "manip": the text-level functions of internal/manip and internal/util called directly through
// the verif-tagged exports, on generated arguments. These are the very functions the Coq
// theorems of C06, C07, C12-C16 are stated about (collapse_space, wrap, justify_line, align_*,
// combine_column_blocks, make_table, range_to_indexes); the OCaml driver recomputes every
// line with the extracted model ("driver manip FILE").
//
// Line format:  <id> <kind> <arg tokens...> => <result>
//   byte strings as in fmt.go; a list of strings is its items joined by ';' ("~" when empty);
//   a matrix is its rows joined by '/' ("~" when empty, a row "~" when it has no cells); "P" = panic.

import (
	"bufio"
	"flag"
	"fmt"
	"math/rand"
	"os"
	"strings"
	"unicode/utf8"

	"github.com/dekarrin/rosed"
)

func listTok(l []string) string {
	if len(l) == 0 {
		return "~"
	}
	p := make([]string, len(l))
	for i, s := range l {
		p[i] = bstr(s)
	}
	return strings.Join(p, ";")
}

func matTok(m [][]string) string {
	if len(m) == 0 {
		return "~"
	}
	p := make([]string, len(m))
	for i, r := range m {
		p[i] = listTok(r)
	}
	return strings.Join(p, "/")
}

func guarded(f func() string) (out string) {
	defer func() {
		if recover() != nil {
			out = "P"
		}
	}()
	return f()
}

func (g *G) validText(maxWords int, deg bool, seps ...string) string {
	for {
		t := g.text(maxWords, deg, seps...)
		if utf8.ValidString(t) {
			return t
		}
	}
}

func cmdManip(args []string) {
	fs := flag.NewFlagSet("manip", flag.ExitOnError)
	seed := fs.Int64("seed", 1, "seed")
	n := fs.Int("n", 1000, "number of calls")
	out := fs.String("out", "manip.txt", "output")
	kinds := fs.String("kinds", "CS,WR,WR,JL,AL,CC,MT,RI", "kinds to draw from")
	fs.Parse(args)
	kl := strings.Split(*kinds, ",")
	g := &G{r: rand.New(rand.NewSource(*seed*7919 + 17))}
	f, err := os.Create(*out)
	must(err)
	w := bufio.NewWriter(f)
	seps := []string{"\n", "\n", "\r\n", "|", "<br>", "␤", ""}
	for i := 0; i < *n; i++ {
		id := fmt.Sprintf("manip-%d-%d", *seed, i)
		deg := g.chance(0.25)
		switch g.pick(kl) {
		case "CS":
			sep := g.pick(seps)
			t := g.validText(10, deg, sep)
			fmt.Fprintf(w, "%s CS %s %s => %s\n", id, bstr(t), bstr(sep), guarded(func() string { return bstr(rosed.VerifCollapseSpace(t, sep)) }))
		case "WR":
			sep := g.pick(seps)
			t := g.validText(14, deg, sep)
			wd := g.width()
			fmt.Fprintf(w, "%s WR %s %d %s => %s\n", id, bstr(t), wd, bstr(sep), guarded(func() string { return listTok(rosed.VerifWrap(t, wd, sep)) }))
		case "JL":
			t := g.validText(8, deg)
			wd := g.width()
			fmt.Fprintf(w, "%s JL %s %d => %s\n", id, bstr(t), wd, guarded(func() string { return bstr(rosed.VerifJustifyLine(t, wd)) }))
		case "AL":
			t := g.validText(6, deg)
			if g.chance(0.5) {
				t = g.cell(6, deg)
				if !utf8.ValidString(t) {
					t = "x"
				}
			}
			wd := g.width()
			k := g.r.Intn(3)
			fmt.Fprintf(w, "%s AL %d %s %d => %s\n", id, k, bstr(t), wd, guarded(func() string { return bstr(rosed.VerifAlignLine(k, t, wd)) }))
		case "CC":
			nl, nr := g.r.Intn(4), g.r.Intn(4)
			left, right := make([]string, nl), make([]string, nr)
			for j := range left {
				left[j] = g.validCell(4, deg)
			}
			for j := range right {
				right[j] = g.validCell(4, deg)
			}
			gap := g.r.Intn(6) - 1
			fmt.Fprintf(w, "%s CC %s %s %d => %s\n", id, listTok(left), listTok(right), gap, guarded(func() string { return listTok(rosed.VerifCombineColumns(left, right, gap)) }))
		case "MT":
			rows := g.r.Intn(4)
			data := make([][]string, rows)
			for j := range data {
				cols := g.r.Intn(4)
				data[j] = make([]string, cols)
				for k := range data[j] {
					if g.chance(0.15) {
						continue
					}
					data[j][k] = g.validCell(3, deg)
				}
			}
			wd := g.width()
			sep := g.pick(seps)
			hd, bd := g.chance(0.5), g.chance(0.5)
			if g.chance(0.4) {
				wd = g.tableMinWidth(data, bd) + g.r.Intn(8) - 2
			}
			cs := g.pick([]string{"", "+|-", "*", "ab", "#=~!", "╔║═", "é|-"})
			fmt.Fprintf(w, "%s MT %s %d %s %s %s %s => %s\n", id, matTok(data), wd, bstr(sep), b01(hd), b01(bd), bstr(cs),
				guarded(func() string { return listTok(rosed.VerifMakeTable(data, wd, sep, hd, bd, cs)) }))
		default:
			size := g.r.Intn(12)
			s, e := g.pos(size), g.pos(size)
			a, b := rosed.VerifRangeToIndexes(size, s, e)
			fmt.Fprintf(w, "%s RI %d %d %d => %d,%d\n", id, size, s, e, a, b)
		}
	}
	must(w.Flush())
	f.Close()
}

func (g *G) validCell(maxWords int, deg bool) string {
	for {
		t := g.cell(maxWords, deg)
		if utf8.ValidString(t) {
			return t
		}
	}
}
