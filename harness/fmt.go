package main

// Case and result token formats shared with the OCaml driver (ocaml/driver.ml).
//
// Everything is a space-separated token. A byte string is "-" (empty) or
// comma-separated decimal bytes. Options are "N" (use the receiver's) or
// "O:<indent>:<linesep>:<notrail>:<parasep>:<preserve>:<justlast>:<borders>:<headers>:<charset>".

import (
	"strconv"
	"strings"

	"github.com/dekarrin/rosed"
)

func bstr(s string) string {
	if len(s) == 0 {
		return "-"
	}
	var b strings.Builder
	for i := 0; i < len(s); i++ {
		if i > 0 {
			b.WriteByte(',')
		}
		b.WriteString(strconv.Itoa(int(s[i])))
	}
	return b.String()
}

func b01(v bool) string {
	if v {
		return "1"
	}
	return "0"
}

func optsTok(o rosed.Options) string {
	return strings.Join([]string{"O", bstr(o.IndentStr), bstr(o.LineSeparator), b01(o.NoTrailingLineSeparators),
		bstr(o.ParagraphSeparator), b01(o.PreserveParagraphs), b01(o.JustifyLastLine), b01(o.TableBorders),
		b01(o.TableHeaders), bstr(o.TableCharSet)}, ":")
}

func optTok(o *rosed.Options) string {
	if o == nil {
		return "N"
	}
	return optsTok(*o)
}

func itoa(n int) string { return strconv.Itoa(n) }
