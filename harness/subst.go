package main

import (
	"strings"

	"github.com/dekarrin/rosed"
)

// caseless, self-contained, non-whitespace clusters of different code-point and byte lengths
var substClusters = []string{"0", "1", "7", "漢", "字", "한", "각", "한", "가",
	"\U0001F468‍\U0001F469‍\U0001F467", "\U0001F469\U0001F3FD‍\U0001F4BB", "❤️", "\U0001F44D\U0001F3FF", "\U0001F642",
	"\U0001F1E9\U0001F1EA", "\U0001F1EF\U0001F1F5", "षि", "நி", "กำ", "3́", "9̈́", "؀١",
	"א", "あ", "½"}

// substCase: the same operation on a text and on its image under a cluster-for-cluster substitution.
// pool[0] = text, pool[1] = substituted text, pool[2] = the substitution as "a b a b ..." (space separated)
func (g *G) substCase(stream, id string) Case {
	k := 1 + g.r.Intn(len(substClusters)-1)
	rho := map[string]string{}
	var pairs []string
	for i, a := range substClusters {
		b := substClusters[(i+k)%len(substClusters)]
		rho[a] = b
		pairs = append(pairs, a, b)
	}
	// build a text from slots; sub applies rho slot-wise
	type slot struct{ a, b string }
	mk := func(maxWords int, seps ...string) (string, string) {
		var sa, sb strings.Builder
		n := g.r.Intn(maxWords + 1)
		for i := 0; i < n; i++ {
			wl := 1 + g.r.Intn(5)
			if g.chance(0.1) {
				wl = 8 + g.r.Intn(10)
			}
			for j := 0; j < wl; j++ {
				c := g.pick(substClusters)
				sa.WriteString(c)
				sb.WriteString(rho[c])
			}
			if i+1 < n || g.chance(0.3) {
				var w string
				if len(seps) > 0 && g.chance(0.25) {
					w = seps[g.r.Intn(len(seps))]
				} else {
					w = g.pick(spaceTokens)
				}
				sa.WriteString(w)
				sb.WriteString(w)
			}
		}
		return sa.String(), sb.String()
	}
	single := func(maxWords int) (string, string) {
		a, b := mk(maxWords)
		rep := strings.NewReplacer("\n", " ", "\r", " ", " ", " ", " ", " ", "\u0085", " ", "\v", " ", "\f", " ")
		return rep.Replace(a), rep.Replace(b)
	}
	o := g.opts(cleanPairs, false)
	if o != nil {
		o.TableHeaders = false
	}
	ls, ps := optsSeps(o)
	ta, tb := mk(10, ls, ps)
	n := clusterCount(ta)
	var opA, opB Op
	switch g.r.Intn(14) {
	case 0:
		opA = Op{Name: "wrap", I: []int{g.width()}, Opts: o}
		opB = opA
	case 1:
		opA = Op{Name: "justify", I: []int{g.width()}, Opts: o}
		opB = opA
	case 2:
		opA = Op{Name: "align", I: []int{g.r.Intn(4), g.width()}, Opts: o}
		opB = opA
	case 3:
		opA = Op{Name: "collapse", Opts: o}
		opB = opA
	case 4:
		xa, xb := mk(3)
		opA = Op{Name: "insert", I: []int{g.pos(n)}, S: []string{xa}}
		opB = Op{Name: "insert", I: opA.I, S: []string{xb}}
	case 5:
		opA = Op{Name: "delete", I: []int{g.pos(n), g.pos(n)}}
		opB = opA
	case 6:
		xa, xb := mk(3)
		opA = Op{Name: "overtype", I: []int{g.pos(n)}, S: []string{xa}}
		opB = Op{Name: "overtype", I: opA.I, S: []string{xb}}
	case 7:
		opA = Op{Name: "chars", I: []int{g.pos(n), g.pos(n)}}
		opB = opA
	case 8:
		opA = Op{Name: "charsfrom", I: []int{g.pos(n)}}
		opB = opA
	case 9:
		opA = Op{Name: "charsto", I: []int{g.pos(n)}}
		opB = opA
	case 10:
		la, lb := single(8)
		ra, rb := single(8)
		p := g.pct()
		m, e := frexp(p)
		opA = Op{Name: "twocols", I: []int{g.pos(n), g.r.Intn(5), g.width()}, S: []string{la, ra}, M: m, E: e, Pct: p, Opts: o}
		opB = opA
		opB.S = []string{lb, rb}
	case 11:
		cnt := g.r.Intn(4)
		var da, db [][2]string
		for i := 0; i < cnt; i++ {
			ta1, tb1 := single(1)
			d1, d2 := single(8)
			da = append(da, [2]string{strings.TrimSpace(ta1), d1})
			db = append(db, [2]string{strings.TrimSpace(tb1), d2})
		}
		opA = Op{Name: "deftable", I: []int{g.pos(n), g.width()}, Defs: da, Opts: o}
		opB = opA
		opB.Defs = db
	default:
		rows := g.r.Intn(4)
		var da, db [][]string
		for i := 0; i < rows; i++ {
			var ra, rb []string
			for j := g.r.Intn(4); j > 0; j-- {
				a, b := single(2)
				ra = append(ra, a)
				rb = append(rb, b)
			}
			da = append(da, ra)
			db = append(db, rb)
		}
		opA = Op{Name: "table", I: []int{g.pos(n), g.width()}, Data: da, Opts: o}
		opB = opA
		opB.Data = db
	}
	opA.Recv = 0
	opB.Recv = 1
	_ = rosed.End
	return Case{ID: id, Stream: stream, Pool: []string{ta, tb, strings.Join(pairs, " ")}, Steps: []Op{opA, opB}}
}
