package main

import (
	"fmt"
	"strconv"
	"strings"
	"time"

	"github.com/dekarrin/rosed"
)

// Op is one operation applied to pool entry Recv.
type Op struct {
	Recv int
	Name string
	I    []int    // integer arguments
	S    []string // string arguments
	Opts *rosed.Options
	Defs [][2]string
	Data [][]string
	M, E int64 // percentage as M * 2^E
	Pct  float64
}

func (o Op) tokens() string {
	var t []string
	t = append(t, itoa(o.Recv), o.Name)
	switch o.Name {
	case "chars", "lines", "delete":
		t = append(t, itoa(o.I[0]), itoa(o.I[1]))
	case "charsfrom", "charsto", "linesfrom", "linesto":
		t = append(t, itoa(o.I[0]))
	case "commit", "commitall":
	case "withopts":
		t = append(t, optsTok(*o.Opts))
	case "insert", "overtype":
		t = append(t, itoa(o.I[0]), bstr(o.S[0]))
	case "wrap", "justify", "indent", "apply", "applyparas":
		t = append(t, itoa(o.I[0]), optTok(o.Opts))
	case "align":
		t = append(t, itoa(o.I[0]), itoa(o.I[1]), optTok(o.Opts))
	case "collapse":
		t = append(t, optTok(o.Opts))
	case "twocols":
		t = append(t, itoa(o.I[0]), bstr(o.S[0]), bstr(o.S[1]), itoa(o.I[1]), itoa(o.I[2]),
			strconv.FormatInt(o.M, 10), strconv.FormatInt(o.E, 10), optTok(o.Opts))
	case "deftable":
		t = append(t, itoa(o.I[0]), itoa(len(o.Defs)))
		for _, d := range o.Defs {
			t = append(t, bstr(d[0]), bstr(d[1]))
		}
		t = append(t, itoa(o.I[1]), optTok(o.Opts))
	case "table":
		t = append(t, itoa(o.I[0]), itoa(len(o.Data)))
		for _, row := range o.Data {
			t = append(t, itoa(len(row)))
			for _, c := range row {
				t = append(t, bstr(c))
			}
		}
		t = append(t, itoa(o.I[1]), optTok(o.Opts))
	default:
		panic("unknown op " + o.Name)
	}
	return strings.Join(t, " ")
}

func lineCB(k int) rosed.LineOperation {
	return func(idx int, line string) []string {
		switch k {
		case 0:
			return []string{line}
		case 1:
			return []string{}
		case 2:
			return []string{line, line}
		case 3:
			return []string{strconv.Itoa(idx) + ":" + line}
		case 4:
			return []string{"a", line, ""}
		case 5:
			if idx%2 == 1 {
				return nil
			}
			return []string{line}
		}
		return []string{line}
	}
}

func paraCB(k int) rosed.ParagraphOperation {
	return func(idx int, para, pre, suf string) []string {
		switch k {
		case 0:
			return []string{para}
		case 1:
			return []string{"[" + strconv.Itoa(idx) + ";" + para + ";" + pre + ";" + suf + "]"}
		case 2:
			return []string{}
		case 3:
			return []string{para, para}
		case 5:
			if idx%2 == 1 {
				return nil
			}
			return []string{para}
		}
		return []string{para}
	}
}

// apply runs the operation through the public API.
func (o Op) apply(ed rosed.Editor) rosed.Editor {
	has := o.Opts != nil
	var op rosed.Options
	if has {
		op = *o.Opts
	}
	switch o.Name {
	case "chars":
		return ed.Chars(o.I[0], o.I[1])
	case "charsfrom":
		return ed.CharsFrom(o.I[0])
	case "charsto":
		return ed.CharsTo(o.I[0])
	case "lines":
		return ed.Lines(o.I[0], o.I[1])
	case "linesfrom":
		return ed.LinesFrom(o.I[0])
	case "linesto":
		return ed.LinesTo(o.I[0])
	case "commit":
		return ed.Commit()
	case "commitall":
		return ed.CommitAll()
	case "withopts":
		return ed.WithOptions(op)
	case "insert":
		return ed.Insert(o.I[0], o.S[0])
	case "delete":
		return ed.Delete(o.I[0], o.I[1])
	case "overtype":
		return ed.Overtype(o.I[0], o.S[0])
	case "wrap":
		if has {
			return ed.WrapOpts(o.I[0], op)
		}
		return ed.Wrap(o.I[0])
	case "justify":
		if has {
			return ed.JustifyOpts(o.I[0], op)
		}
		return ed.Justify(o.I[0])
	case "align":
		if has {
			return ed.AlignOpts(rosed.Alignment(o.I[0]), o.I[1], op)
		}
		return ed.Align(rosed.Alignment(o.I[0]), o.I[1])
	case "collapse":
		if has {
			return ed.CollapseSpaceOpts(op)
		}
		return ed.CollapseSpace()
	case "indent":
		if has {
			return ed.IndentOpts(o.I[0], op)
		}
		return ed.Indent(o.I[0])
	case "apply":
		if has {
			return ed.ApplyOpts(lineCB(o.I[0]), op)
		}
		return ed.Apply(lineCB(o.I[0]))
	case "applyparas":
		if has {
			return ed.ApplyParagraphsOpts(paraCB(o.I[0]), op)
		}
		return ed.ApplyParagraphs(paraCB(o.I[0]))
	case "twocols":
		if has {
			return ed.InsertTwoColumnsOpts(o.I[0], o.S[0], o.S[1], o.I[1], o.I[2], o.Pct, op)
		}
		return ed.InsertTwoColumns(o.I[0], o.S[0], o.S[1], o.I[1], o.I[2], o.Pct)
	case "deftable":
		if has {
			return ed.InsertDefinitionsTableOpts(o.I[0], o.Defs, o.I[1], op)
		}
		return ed.InsertDefinitionsTable(o.I[0], o.Defs, o.I[1])
	case "table":
		if has {
			return ed.InsertTableOpts(o.I[0], o.Data, o.I[1], op)
		}
		return ed.InsertTable(o.I[0], o.Data, o.I[1])
	}
	panic("unknown op " + o.Name)
}

// obsTok renders what the harness observes of an Editor.
func obsTok(ed rosed.Editor) string {
	has, start, end := refOf(ed)
	str := func() (s string) {
		defer func() {
			if r := recover(); r != nil {
				s = "P"
			}
		}()
		return bstr(ed.String())
	}()
	return strings.Join([]string{"K", bstr(ed.Text), optsTok(ed.Options), b01(has), start, end, str,
		itoa(ed.CharCount()), itoa(ed.LineCount())}, "|")
}

type stepOut struct {
	ed    rosed.Editor
	tok   string
	panic bool
}

// runStep applies op to ed under recover and a watchdog.
func runStep(o Op, ed rosed.Editor, timeout time.Duration) (res stepOut) {
	ch := make(chan stepOut, 1)
	go func() {
		var out stepOut
		defer func() {
			if r := recover(); r != nil {
				out = stepOut{ed: ed, tok: "P", panic: true}
			}
			ch <- out
		}()
		r := o.apply(ed)
		out = stepOut{ed: r, tok: obsTok(r)}
	}()
	select {
	case res = <-ch:
		return res
	case <-time.After(timeout):
		return stepOut{ed: ed, tok: "T", panic: true}
	}
}

// Case is a pool of initial texts and a history of operations on it.
type Case struct {
	ID     string
	Stream string
	Flags  int // 1: re-observe every pool entry after every step
	Pool   []string
	Steps  []Op
}

func (c Case) line() string {
	var t []string
	t = append(t, c.ID, c.Stream, itoa(c.Flags), itoa(len(c.Pool)))
	for _, p := range c.Pool {
		t = append(t, bstr(p))
	}
	t = append(t, itoa(len(c.Steps)))
	for _, s := range c.Steps {
		t = append(t, s.tokens())
	}
	return strings.Join(t, " ")
}

// run executes the case on the implementation; one result token per step.
func (c Case) run(timeout time.Duration) string {
	pool := make([]rosed.Editor, 0, len(c.Pool)+len(c.Steps))
	for _, p := range c.Pool {
		pool = append(pool, rosed.Edit(p))
	}
	toks := []string{c.ID}
	abnormal := false // a step panicked or hit the watchdog: the order-independence pass is skipped
	for _, s := range c.Steps {
		if s.Recv >= len(pool) {
			toks = append(toks, "P")
			break
		}
		recv := pool[s.Recv]
		before := obsTok(recv)
		out := runStep(s, recv, timeout)
		tok := out.tok
		if out.panic {
			abnormal = true
		} else {
			// determinism: the same call on the same receiver gives the same result (a watchdog
			// timeout of the repetition on a loaded machine is not a different result)
			again := runStep(s, recv, timeout)
			if again.tok != tok && again.tok != "T" {
				tok = "ND" + tok
			}
		}
		// the receiver is unchanged by the call
		if obsTok(recv) != before {
			tok = "MUT" + tok
		}
		pool = append(pool, out.ed)
		if c.Flags&1 != 0 {
			var all []string
			for _, e := range pool {
				all = append(all, obsTok(e))
			}
			tok = tok + ";" + strings.Join(all, ";")
		}
		toks = append(toks, tok)
	}
	// order independence: what an Editor reports does not depend on which related Editors were
	// observed before it. The history is executed again without any intermediate observation and
	// the pool is then observed last entry first; every entry must report what it reports when the
	// pool of the run above is observed first entry first.
	if !abnormal && len(toks) == len(c.Steps)+1 && len(c.Steps) > 0 && !c.orderIndependent(pool, timeout) {
		toks[len(toks)-1] = "ND" + toks[len(toks)-1]
	}
	return strings.Join(toks, " ")
}

// orderIndependent re-executes the case silently and compares reverse-order observations with the
// forward-order observations of pool; it reports true when they agree (or when a step did not
// return normally, in which case nothing is compared).
func (c Case) orderIndependent(pool []rosed.Editor, timeout time.Duration) bool {
	fwd := make([]string, len(pool))
	for i, e := range pool {
		fwd[i] = obsTok(e)
	}
	again := make([]rosed.Editor, 0, len(pool))
	for _, p := range c.Pool {
		again = append(again, rosed.Edit(p))
	}
	for _, s := range c.Steps {
		if s.Recv >= len(again) {
			return true
		}
		out := runStepSilent(s, again[s.Recv], timeout)
		if out.panic {
			return true
		}
		again = append(again, out.ed)
	}
	if len(again) != len(pool) {
		return true
	}
	for i := len(again) - 1; i >= 0; i-- {
		if obsTok(again[i]) != fwd[i] {
			return false
		}
	}
	return true
}

// runStepSilent applies op to ed under recover and a watchdog without observing the result.
func runStepSilent(o Op, ed rosed.Editor, timeout time.Duration) (res stepOut) {
	ch := make(chan stepOut, 1)
	go func() {
		var out stepOut
		defer func() {
			if r := recover(); r != nil {
				out = stepOut{ed: ed, panic: true}
			}
			ch <- out
		}()
		out = stepOut{ed: o.apply(ed)}
	}()
	select {
	case res = <-ch:
		return res
	case <-time.After(timeout):
		return stepOut{ed: ed, panic: true}
	}
}

func must(err error) {
	if err != nil {
		panic(fmt.Sprint(err))
	}
}
