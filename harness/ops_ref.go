//go:build !verif_noref

package main

import "github.com/dekarrin/rosed"

// refOf: whether the Editor is a sub-editor and the byte range of its parent it replaces, read
// through the verif-tagged accessor.
func refOf(ed rosed.Editor) (bool, string, string) {
	has, start, end, _ := rosed.VerifRef(ed)
	return has, itoa(start), itoa(end)
}
