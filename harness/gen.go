package main

import (
	"math"
	"math/rand"
	"strings"

	"github.com/dekarrin/rosed"
)

// ---- vocabulary ----------------------------------------------------------

var asciiWords = []string{"a", "of", "the", "quick", "brown", "fox", "x", "hello", "world", "lorem", "ipsum",
	"supercalifragilistic", "I", "42", "end.", "semi;colon", "it's", "A", "AA", "b-c", "-", "--", "Zz"}

// multi-code-point or non-ASCII clusters that are self-contained
var niceClusters = []string{"\u00e9", "\u00f1", "\u00fc", "e\u0301", "n\u0303", "a\u0308\u0301", "o\u0302\u0323",
	"\U0001F468\u200d\U0001F469\u200d\U0001F467", "\U0001F469\U0001F3FD\u200d\U0001F4BB", "\u2764\ufe0f", "\U0001F44D\U0001F3FF",
	"\U0001F642", "\U0001F1E9\U0001F1EA", "\U0001F1EF\U0001F1F5", "\ud55c", "\uac01", "\u1112\u1161\u11ab", "\u1100\u1161",
	"\u0915\u094d\u0937\u093f", "\u0ba8\u0bbf", "\u6f22", "\u5b57", "\u00df", "\u03a9", "\u0600\u0661", "i\u0307", "\u01c6", "\ufb01",
	"\u03b1\u0345", "\u1fb3", "\u24dc", "\u0e01\u0e33", "\u00a9", "\u203c\ufe0f"}

// whitespace code points (unicode.IsSpace), single and combined
var spaceTokens = []string{" ", " ", " ", " ", "  ", "   ", "\t", "\u00a0", "\u2003", "\u3000", "\u1680", "\u2000", "\u200a",
	"\u0085", "\v", "\f", "\r", " \t ", "\u2028", "\u2029", "\u202f", "\u205f", "\r\n", "\r\n", " \r\n", "\n\r"}

// ill-formed orderings and characters that merge with neighbours
var degenerate = []string{"\u0301", "\u200d", "\u0903", "\U0001F1E9", "\u0600", "\u0001", "\u200b", "\u200d\U0001F467", "\u1112", "\u1161",
	"\u11ab", "\ufe0f", "\U0001F468\u200d", "\U000e0061", "\u0344", "\U0001F1E9\U0001F1EA\U0001F1EF", "\u0600\u0600", "\u110bd", "\ufeff", "\u00ad",
	"\u0d4e", "\U0001F3FB", "\r", "\n\u0301", "\t\u0301", " \u0301", "\u0301 ", "\u0600 ", "\u0345", "\U0001F468\u0301\u200d\U0001F467"}

type sepPair struct{ line, para string }

var lineSeps = []string{"", "\n", "\n", "\r\n", "<br>", "|", "\u2424", "--", "\n\r", "e\u0301", "\t"}

var sepPairs = []sepPair{{"", ""}, {"\n", "\n\n"}, {"", "\n\n"}, {"\r\n", "\r\n\r\n"}, {"<br>", "<p>"}, {"\n", "\n--\n"},
	{"\n", "<P>\n"}, {"\n", "\n<P>"}, {"\n", "X\nY"}, {"\n", "\n\n\n"}, {"|", "||"}, {"<br>", "<br><p><br>"}, {"\n", "\n"},
	{"ab", "abab"}, {"\n", "=\n=\n="}, {"\n", "--\n"}, {"\n", "\n* * *\n"}, {"\n", "\n\n--\n\n"}, {"<br>", "<hr><br>"},
	// a custom line separator with the paragraph separator left unset (it defaults to "\n\n",
	// which then need not contain the line separator)
	{"\r\n", ""}, {"<br>", ""}, {"|", ""}, {"\t", ""}}

// separators made of line separators only (paragraph lines unambiguous)
var cleanPairs = []sepPair{{"", ""}, {"\n", "\n\n"}, {"", "\n\n"}, {"\r\n", "\r\n\r\n"}, {"|", "||"}, {"\n", "\n\n\n"},
	{"<br>", "<br><br>"}, {"\u2424", "\u2424\u2424"}}

type G struct{ r *rand.Rand }

func (g *G) pick(l []string) string { return l[g.r.Intn(len(l))] }
func (g *G) chance(p float64) bool  { return g.r.Float64() < p }

// word: a run of non-whitespace clusters
func (g *G) word(deg bool) string {
	if g.chance(0.55) {
		return g.pick(asciiWords)
	}
	n := 1 + g.r.Intn(4)
	var b strings.Builder
	for i := 0; i < n; i++ {
		switch {
		case deg && g.chance(0.35):
			b.WriteString(g.pick(degenerate))
		case g.chance(0.6):
			b.WriteString(g.pick(niceClusters))
		default:
			b.WriteString(g.pick(asciiWords))
		}
	}
	return b.String()
}

// text: words separated by whitespace; sep, if non-empty, is sprinkled in as well
func (g *G) text(maxWords int, deg bool, seps ...string) string {
	if g.chance(0.1) {
		return g.asciiText(maxWords)
	}
	n := g.r.Intn(maxWords + 1)
	var b strings.Builder
	if g.chance(0.2) {
		b.WriteString(g.pick(spaceTokens))
	}
	for i := 0; i < n; i++ {
		b.WriteString(g.word(deg))
		if i+1 < n || g.chance(0.3) {
			if len(seps) > 0 && g.chance(0.25) {
				// one separator, or a run of independently drawn ones (line and paragraph separators adjacent)
				k := 1
				if g.chance(0.3) {
					k = 1 + g.r.Intn(3)
				}
				for ; k > 0; k-- {
					b.WriteString(seps[g.r.Intn(len(seps))])
				}
			} else if g.chance(0.85) {
				b.WriteString(g.pick(spaceTokens))
			} else if deg {
				b.WriteString(g.pick(degenerate))
			}
		}
	}
	if len(seps) > 0 && g.chance(0.3) {
		b.WriteString(seps[0])
	}
	return b.String()
}

// asciiText: bytes below 128 only, with CR LF pairs (one cluster, two bytes)
func (g *G) asciiText(maxWords int) string {
	n := 1 + g.r.Intn(maxWords+1)
	var b strings.Builder
	for i := 0; i < n; i++ {
		b.WriteString(g.pick(asciiWords))
		switch g.r.Intn(5) {
		case 0:
			b.WriteString("\r\n")
		case 1:
			b.WriteString("\n")
		case 2:
			b.WriteString("  ")
		case 3:
			b.WriteString(" \r\n\t")
		default:
			b.WriteString(" ")
		}
	}
	return b.String()
}

// single-line text (no default or configured separators)
func (g *G) cell(maxWords int, deg bool) string {
	t := g.text(maxWords, deg)
	t = strings.NewReplacer("\n", " ", "\r", " ", "\u2028", " ", "\u2029", " ", "\u0085", " ", "\v", " ", "\f", " ").Replace(t)
	return t
}

const (
	maxInt = int(^uint(0) >> 1)
	minInt = -maxInt - 1
)

// pos: a position relative to a collection of n items
func (g *G) pos(n int) int {
	switch g.r.Intn(12) {
	case 0:
		return 0
	case 1:
		return n
	case 2:
		return n + 1 + g.r.Intn(5)
	case 3:
		return -1 - g.r.Intn(n+1)
	case 4:
		return -n - 1 - g.r.Intn(6)
	case 5:
		return rosed.End
	case 6:
		return minInt + 1 + g.r.Intn(3)
	case 7:
		return maxInt - g.r.Intn(3)
	case 8:
		return -n
	default:
		if n == 0 {
			return g.r.Intn(3) - 1
		}
		return g.r.Intn(n + 1)
	}
}

func (g *G) width() int {
	switch g.r.Intn(10) {
	case 0:
		return -g.r.Intn(8)
	case 1:
		return g.r.Intn(3)
	case 2:
		return 20 + g.r.Intn(30)
	case 3:
		return 60 + g.r.Intn(40)
	default:
		return 2 + g.r.Intn(16)
	}
}

func (g *G) opts(pairs []sepPair, lineOnly bool) *rosed.Options {
	if g.chance(0.15) {
		return nil
	}
	var o rosed.Options
	if lineOnly {
		o.LineSeparator = g.pick(lineSeps)
	} else {
		p := pairs[g.r.Intn(len(pairs))]
		o.LineSeparator, o.ParagraphSeparator = p.line, p.para
		if len(pairs) == len(sepPairs) && g.chance(0.12) {
			// the call's options leave the line separator (and the paragraph separator) to the default
			// (not for the pairs chosen to consist of line separators only)
			o.LineSeparator = ""
			if g.chance(0.5) {
				o.ParagraphSeparator = ""
			}
		}
		o.PreserveParagraphs = g.chance(0.6)
	}
	o.NoTrailingLineSeparators = g.chance(0.35)
	o.JustifyLastLine = g.chance(0.4)
	switch g.r.Intn(5) {
	case 0:
		o.IndentStr = "\t"
	case 1:
		o.IndentStr = "  "
	case 2:
		o.IndentStr = "\u2192 "
	}
	o.TableBorders = g.chance(0.5)
	o.TableHeaders = g.chance(0.5)
	switch g.r.Intn(12) {
	case 0:
		o.TableCharSet = "+|-"
	case 1:
		o.TableCharSet = "#"
	case 2:
		o.TableCharSet = "*!=~"
	case 3:
		o.TableCharSet = "\u253c\u2502\u2500"
	case 4:
		o.TableCharSet = "ab"
	case 5:
		o.TableCharSet = "\u2500" // three bytes, one cluster
	case 6:
		o.TableCharSet = "\u00e9#" // three bytes, two clusters
	case 7:
		o.TableCharSet = "e\u0301" // three bytes, one cluster of two code points
	case 8:
		o.TableCharSet = "\u20ac" // three bytes, one cluster
	case 9:
		o.TableCharSet = "\u0600" // Prepend: glues onto the padding that completes the set
	case 10:
		o.TableCharSet = "#\u0600"
	}
	return &o
}

func optsSeps(o *rosed.Options) (string, string) {
	if o == nil {
		return "\n", "\n\n"
	}
	d := o.WithDefaults()
	return d.LineSeparator, d.ParagraphSeparator
}

func frexp(p float64) (int64, int64) {
	if p == 0 {
		return 0, 0
	}
	frac, exp := math.Frexp(p)
	m := int64(frac * (1 << 53))
	return m, int64(exp) - 53
}

var pcts = []float64{0, 1, 0.5, 0.95, 0.96, 1.0 / 3.0, 0.1, 0.25, 0.75, 0.999999, 1e-9, 5e-324, -0.0, -0.5, -3, 1.0000001, 2, 17.5,
	0.3, 0.7, 0.05, 0.45, 0.55, 0.9, 2.0 / 3.0}

func (g *G) pct() float64 {
	if g.chance(0.7) {
		return pcts[g.r.Intn(len(pcts))]
	}
	return g.r.Float64()*1.4 - 0.2
}

// ---- streams -------------------------------------------------------------

func clusterCount(s string) int { return rosed.Edit(s).CharCount() }

func one(stream, id, text string, o Op) Case {
	o.Recv = 0
	return Case{ID: id, Stream: stream, Pool: []string{text}, Steps: []Op{o}}
}

// withOptsThen: optionally install the options on the editor and call the
// non-Opts variant instead of passing them
func (g *G) viaEditor(c Case) Case {
	last := c.Steps[len(c.Steps)-1]
	if last.Opts != nil && g.chance(0.3) {
		w := Op{Recv: last.Recv, Name: "withopts", Opts: last.Opts}
		last.Opts = nil
		last.Recv = len(c.Pool) + len(c.Steps) - 1
		c.Steps[len(c.Steps)-1] = w
		c.Steps = append(c.Steps, last)
	}
	return c
}

func (g *G) genCase(stream, id string) Case {
	deg := g.chance(0.25)
	switch stream {
	case "chars": // C04
		t := g.text(8, deg, "\n")
		n := clusterCount(t)
		switch g.r.Intn(4) {
		case 0:
			return one(stream, id, t, Op{Name: "charsfrom", I: []int{g.pos(n)}})
		case 1:
			return one(stream, id, t, Op{Name: "charsto", I: []int{g.pos(n)}})
		default:
			return one(stream, id, t, Op{Name: "chars", I: []int{g.pos(n), g.pos(n)}})
		}
	case "edit": // C09
		t := g.text(8, deg, "\n")
		n := clusterCount(t)
		switch g.r.Intn(3) {
		case 0:
			ins := g.text(3, deg)
			p := g.pos(n)
			c := one(stream, id, t, Op{Name: "insert", I: []int{p}, S: []string{ins}})
			// deleting what was just inserted restores the text
			np := p
			if p == rosed.End || p > n {
				np = n
			} else if p < 0 {
				np = p + n
				if np < 0 {
					np = 0
				}
			}
			c.Steps = append(c.Steps, Op{Recv: 1, Name: "delete", I: []int{np, np + clusterCount(ins)}})
			return c
		case 1:
			return one(stream, id, t, Op{Name: "delete", I: []int{g.pos(n), g.pos(n)}})
		default:
			return one(stream, id, t, Op{Name: "overtype", I: []int{g.pos(n)}, S: []string{g.text(3, deg)}})
		}
	case "lines": // C10
		o := g.opts(nil, true)
		ls, _ := optsSeps(o)
		t := g.text(8, deg, ls)
		if g.chance(0.1) {
			t = strings.Repeat(ls, g.r.Intn(4))
		}
		n := strings.Count(t, ls) + 1
		c := Case{ID: id, Stream: stream, Pool: []string{t}}
		recv := 0
		if o != nil {
			c.Steps = append(c.Steps, Op{Recv: 0, Name: "withopts", Opts: o})
			recv = 1
		}
		switch g.r.Intn(5) {
		case 0:
			c.Steps = append(c.Steps, Op{Recv: recv, Name: "lines", I: []int{g.pos(n), g.pos(n)}})
		case 1:
			c.Steps = append(c.Steps, Op{Recv: recv, Name: "linesfrom", I: []int{g.pos(n)}})
		case 2:
			c.Steps = append(c.Steps, Op{Recv: recv, Name: "linesto", I: []int{g.pos(n)}})
		default:
			c.Steps = append(c.Steps, Op{Recv: recv, Name: "apply", I: []int{g.r.Intn(6)}, Opts: g.sameOr(o)})
		}
		return c
	case "paras": // C11
		if g.chance(0.12) {
			return g.affixParas(stream, id, deg)
		}
		o := g.opts(sepPairs, false)
		if o != nil {
			o.PreserveParagraphs = true
		}
		ls, ps := optsSeps(o)
		t := g.text(10, deg, ps, ls, ps)
		if g.chance(0.15) {
			t = strings.Repeat("\n", g.r.Intn(8)) + g.text(2, false) + strings.Repeat("\n", g.r.Intn(8)) + g.text(2, false) + strings.Repeat("\n", g.r.Intn(8))
		}
		var op Op
		switch g.r.Intn(6) {
		case 0:
			op = Op{Name: "wrap", I: []int{g.width()}, Opts: o}
		case 1:
			op = Op{Name: "justify", I: []int{g.width()}, Opts: o}
		case 2:
			op = Op{Name: "align", I: []int{1 + g.r.Intn(3), g.width()}, Opts: o}
		case 3:
			op = Op{Name: "indent", I: []int{g.r.Intn(4)}, Opts: o}
		default:
			op = Op{Name: "applyparas", I: []int{g.r.Intn(6)}, Opts: o}
		}
		if g.chance(0.3) {
			// the same paragraph operation on a sub-editor (selected lines or characters), then committed
			c := Case{ID: id, Stream: stream, Pool: []string{t}}
			recv := 0
			if o != nil {
				c.Steps = append(c.Steps, Op{Recv: 0, Name: "withopts", Opts: o})
				recv = 1
			}
			if g.chance(0.5) {
				c.Steps = append(c.Steps, Op{Recv: recv, Name: "lines", I: []int{g.r.Intn(3), rosed.End - g.r.Intn(2)*rosed.End + g.r.Intn(2)*(-1)}})
			} else {
				c.Steps = append(c.Steps, Op{Recv: recv, Name: "chars", I: []int{g.r.Intn(4), -g.r.Intn(4)}})
			}
			op.Recv = recv + 1
			c.Steps = append(c.Steps, op)
			c.Steps = append(c.Steps, Op{Recv: recv + 2, Name: "commit"})
			return c
		}
		return g.viaEditor(one(stream, id, t, op))
	case "wrap": // C06
		o := g.opts(cleanPairs, false)
		ls, ps := optsSeps(o)
		t := g.text(14, deg, ls, ps)
		c := g.viaEditor(one(stream, id, t, Op{Name: "wrap", I: []int{g.width()}, Opts: o}))
		if g.chance(0.5) { // wrapping already wrapped text changes nothing
			last := c.Steps[len(c.Steps)-1]
			last.Recv = len(c.Pool) + len(c.Steps) - 1
			c.Steps = append(c.Steps, last)
		}
		return c
	case "ws": // C07
		if g.chance(0.12) {
			return g.affixParas(stream, id, deg)
		}
		o := g.opts(sepPairs, false)
		ls, ps := optsSeps(o)
		t := g.text(12, deg, ls, ps)
		var op Op
		switch g.r.Intn(5) {
		case 0:
			op = Op{Name: "wrap", I: []int{g.width()}, Opts: o}
		case 1:
			op = Op{Name: "collapse", Opts: o}
		case 2:
			op = Op{Name: "justify", I: []int{g.width()}, Opts: o}
		case 3:
			op = Op{Name: "align", I: []int{g.r.Intn(5), g.width()}, Opts: o}
		default:
			op = Op{Name: "indent", I: []int{g.r.Intn(4) - 1}, Opts: o}
		}
		c := g.viaEditor(one(stream, id, t, op))
		if op.Name == "collapse" { // CollapseSpace is idempotent
			last := c.Steps[len(c.Steps)-1]
			last.Recv = len(c.Pool) + len(c.Steps) - 1
			c.Steps = append(c.Steps, last)
		}
		return c
	case "justify": // C12
		o := g.opts(cleanPairs, false)
		if o != nil && o.PreserveParagraphs {
			o.NoTrailingLineSeparators = false
		}
		ls, ps := optsSeps(o)
		t := g.text(14, deg, ls, ps)
		return g.viaEditor(one(stream, id, t, Op{Name: "justify", I: []int{g.width()}, Opts: o}))
	case "align": // C13
		o := g.opts(cleanPairs, false)
		if o != nil && o.PreserveParagraphs {
			o.NoTrailingLineSeparators = false
		}
		ls, ps := optsSeps(o)
		t := g.text(10, deg, ls, ps)
		a := g.r.Intn(4)
		if g.chance(0.1) {
			a = 4 + g.r.Intn(5) - 7
		}
		return g.viaEditor(one(stream, id, t, Op{Name: "align", I: []int{a, g.width()}, Opts: o}))
	case "twocols": // C14
		o := g.opts(nil, true)
		t := g.text(4, deg, "\n")
		n := clusterCount(t)
		p := g.pct()
		m, e := frexp(p)
		gap := g.r.Intn(6)
		return g.viaEditor(one(stream, id, t, Op{Name: "twocols", I: []int{g.pos(n), gap, g.width()},
			S: []string{g.cell(10, deg), g.cell(10, deg)}, M: m, E: e, Pct: p, Opts: o}))
	case "deftable": // C15
		o := g.opts(sepPairs, false)
		t := g.text(3, deg, "\n")
		n := clusterCount(t)
		k := g.r.Intn(5)
		var defs [][2]string
		for i := 0; i < k; i++ {
			term := strings.TrimSpace(g.cell(2, deg))
			defs = append(defs, [2]string{term, g.cell(12, deg)})
		}
		return g.viaEditor(one(stream, id, t, Op{Name: "deftable", I: []int{g.pos(n), g.width()}, Defs: defs, Opts: o}))
	case "table": // C16
		o := g.opts(nil, true)
		t := g.text(3, deg, "\n")
		n := clusterCount(t)
		rows := g.r.Intn(5)
		var data [][]string
		for i := 0; i < rows; i++ {
			cols := g.r.Intn(5)
			var row []string
			for j := 0; j < cols; j++ {
				row = append(row, g.cell(3, deg))
			}
			data = append(data, row)
		}
		wd := g.width()
		if g.chance(0.4) {
			// a width around the minimum the content needs: surplus smaller than, equal to and just above the column count
			wd = g.tableMinWidth(data, o != nil && o.TableBorders) + g.r.Intn(8) - 2
		}
		return g.viaEditor(one(stream, id, t, Op{Name: "table", I: []int{g.pos(n), wd}, Data: data, Opts: o}))
	case "hist": // C05, C08
		return g.history(stream, id, deg)
	case "opts": // C17
		return g.optsCase(stream, id, deg)
	case "total": // C18: degenerate inputs through every operation
		return g.totalCase(stream, id)
	case "subst": // C03
		return g.substCase(stream, id)
	}
	panic("unknown stream " + stream)
}

// tableMinWidth: the width a table of this data needs at least (content widths in clusters plus padding and borders)
func (g *G) tableMinWidth(data [][]string, border bool) int {
	cols := 0
	for _, r := range data {
		if len(r) > cols {
			cols = len(r)
		}
	}
	w := 0
	if border {
		w = 1
	}
	for j := 0; j < cols; j++ {
		m := 0
		for _, r := range data {
			if j < len(r) {
				if c := clusterCount(r[j]); c > m {
					m = c
				}
			}
		}
		switch {
		case border:
			w += m + 3
		case j+1 < cols:
			w += m + 2
		default:
			w += m
		}
	}
	return w
}

func (g *G) sameOr(o *rosed.Options) *rosed.Options {
	if g.chance(0.5) {
		return nil
	}
	return o
}

// separators with a visible part before and/or after their last line separator
var affixPairs = []sepPair{{"\n", "\n<P>"}, {"\n", "<P>\n"}, {"\n", "\n--\n"}, {"<br>", "<p>"}, {"\n", "X\nY"}, {"\n", "\n* * *\n"},
	{"<br>", "<hr><br>"}, {"\n", "=\n=\n="}}

// affixParas: paragraph mode with a separator that has visible affixes, a few short paragraphs,
// and a width within a few columns of the length of one of their lines - where the affix that
// the paragraph machinery adds to a first or last line decides what fits
func (g *G) affixParas(stream, id string, deg bool) Case {
	p := affixPairs[g.r.Intn(len(affixPairs))]
	o := &rosed.Options{LineSeparator: p.line, ParagraphSeparator: p.para, PreserveParagraphs: true,
		NoTrailingLineSeparators: g.chance(0.4), JustifyLastLine: g.chance(0.4)}
	var paras []string
	var lens []int
	for i := 2 + g.r.Intn(2); i > 0; i-- {
		var lines []string
		for j := 1 + g.r.Intn(2); j > 0; j-- {
			l := strings.Repeat(" ", g.r.Intn(3))
			for w := 1 + g.r.Intn(4); w > 0; w-- {
				if deg && g.chance(0.15) {
					l += g.pick(niceClusters)
				} else {
					l += g.pick(asciiWords)
				}
				if w > 1 {
					l += " "
				}
			}
			l += strings.Repeat(" ", g.r.Intn(3))
			lines = append(lines, l)
			lens = append(lens, clusterCount(l))
		}
		paras = append(paras, strings.Join(lines, p.line))
	}
	t := strings.Join(paras, p.para)
	w := lens[g.r.Intn(len(lens))] + g.r.Intn(9) - 4
	var op Op
	switch g.r.Intn(6) {
	case 0, 1, 2:
		op = Op{Name: "align", I: []int{1 + g.r.Intn(3), w}, Opts: o}
	case 3:
		op = Op{Name: "justify", I: []int{w}, Opts: o}
	case 4:
		op = Op{Name: "wrap", I: []int{w}, Opts: o}
	default:
		op = Op{Name: "indent", I: []int{1 + g.r.Intn(2)}, Opts: o}
	}
	return g.viaEditor(one(stream, id, t, op))
}

// nested: a selection, an edit of it that keeps its length (so that nothing about the
// intermediate sub-editor looks edited from the outside), a selection inside the result, an
// edit of that, then every way of reading the whole back: String() (observed at every step),
// CommitAll, and Commit step by step
func (g *G) nested(stream, id string, deg bool) Case {
	lines := 2 + g.r.Intn(4)
	var parts []string
	for i := 0; i < lines; i++ {
		l := strings.Repeat(" ", g.r.Intn(4))
		for w := g.r.Intn(3); w >= 0; w-- {
			if deg && g.chance(0.2) {
				l += g.pick(niceClusters)
			} else {
				l += g.pick(asciiWords)
			}
			if w > 0 {
				l += " "
			}
		}
		parts = append(parts, l)
	}
	t := strings.Join(parts, "\n")
	if g.chance(0.7) {
		t += "\n"
	}
	c := Case{ID: id, Stream: stream, Flags: 1, Pool: []string{t}}
	cur := 0
	add := func(op Op) {
		op.Recv = cur
		c.Steps = append(c.Steps, op)
		cur = len(c.Pool) + len(c.Steps) - 1
	}
	// the intermediate sub-editor
	if g.chance(0.6) {
		a := g.r.Intn(lines)
		add(Op{Name: "lines", I: []int{a, a + 1 + g.r.Intn(2)}})
	} else {
		a := g.r.Intn(6)
		add(Op{Name: "chars", I: []int{a, a + 2 + g.r.Intn(8)}})
	}
	// an edit that keeps the length
	switch g.r.Intn(4) {
	case 0:
		add(Op{Name: "align", I: []int{1 + g.r.Intn(3), 1 + g.r.Intn(6)}})
	case 1:
		add(Op{Name: "overtype", I: []int{g.r.Intn(4), 0}, S: []string{g.pick([]string{"X", "YZ", "qqq", "\u00e9"})}})
		c.Steps[len(c.Steps)-1].I = c.Steps[len(c.Steps)-1].I[:1]
	case 2:
		add(Op{Name: "overtype", I: []int{-1 - g.r.Intn(3)}, S: []string{g.pick([]string{"X", "YZ"})}})
	default:
		// no edit of the intermediate at all
	}
	// the inner sub-editor and its edit
	if g.chance(0.7) {
		a := g.r.Intn(3)
		add(Op{Name: "chars", I: []int{a, a + 1 + g.r.Intn(4)}})
	} else {
		add(Op{Name: "linesto", I: []int{1}})
	}
	switch g.r.Intn(3) {
	case 0:
		add(Op{Name: "overtype", I: []int{0}, S: []string{g.pick([]string{"XY", "Q", "\U0001F642"})}})
	case 1:
		add(Op{Name: "insert", I: []int{g.r.Intn(3)}, S: []string{g.pick([]string{"++", "e\u0301", " "})}})
	default:
		add(Op{Name: "delete", I: []int{0, 1 + g.r.Intn(2)}})
	}
	inner := cur
	add(Op{Name: "commitall"})
	cur = inner
	add(Op{Name: "commit"})
	add(Op{Name: "commit"})
	return c
}

// history: selections, edits, further selections and commits over a growing pool
func (g *G) history(stream, id string, deg bool) Case {
	if g.chance(0.2) {
		return g.nested(stream, id, deg)
	}
	o := g.opts(cleanPairs, false)
	ls, ps := optsSeps(o)
	c := Case{ID: id, Stream: stream, Flags: 1}
	npool := 1 + g.r.Intn(2)
	for i := 0; i < npool; i++ {
		c.Pool = append(c.Pool, g.text(8, deg, ls, ps))
	}
	size := npool
	steps := 2 + g.r.Intn(7)
	for i := 0; i < steps; i++ {
		recv := g.r.Intn(size)
		if g.chance(0.5) {
			recv = size - 1
		}
		var op Op
		n := 6
		switch g.r.Intn(16) {
		case 0, 1:
			op = Op{Name: "chars", I: []int{g.pos(n), g.pos(n)}}
		case 2:
			op = Op{Name: "charsfrom", I: []int{g.pos(n)}}
		case 3:
			op = Op{Name: "charsto", I: []int{g.pos(n)}}
		case 4:
			op = Op{Name: "lines", I: []int{g.pos(3), g.pos(3)}}
		case 5:
			op = Op{Name: "linesfrom", I: []int{g.pos(3)}}
		case 6:
			op = Op{Name: "commit"}
		case 7:
			op = Op{Name: "commitall"}
		case 8:
			op = Op{Name: "insert", I: []int{g.pos(n)}, S: []string{g.text(2, deg)}}
		case 9:
			op = Op{Name: "delete", I: []int{g.pos(n), g.pos(n)}}
		case 10:
			op = Op{Name: "overtype", I: []int{g.pos(n)}, S: []string{g.text(2, deg)}}
		case 11:
			op = Op{Name: "wrap", I: []int{g.width()}, Opts: g.sameOr(o)}
		case 12:
			op = Op{Name: "indent", I: []int{g.r.Intn(3)}, Opts: g.sameOr(o)}
		case 13:
			if o != nil {
				op = Op{Name: "withopts", Opts: o}
			} else {
				op = Op{Name: "collapse"}
			}
		case 14:
			op = Op{Name: "align", I: []int{g.r.Intn(4), g.width()}, Opts: g.sameOr(o)}
		default:
			op = Op{Name: "justify", I: []int{g.width()}, Opts: g.sameOr(o)}
		}
		op.Recv = recv
		c.Steps = append(c.Steps, op)
		size++
	}
	return c
}

// explicitDefaults replaces a random subset of unset fields by their documented defaults
func (g *G) explicitDefaults(o rosed.Options) rosed.Options {
	if o.LineSeparator == "" && g.chance(0.5) {
		o.LineSeparator = rosed.DefaultLineSeparator
	}
	if o.IndentStr == "" && g.chance(0.5) {
		o.IndentStr = rosed.DefaultIndentString
	}
	if o.ParagraphSeparator == "" && g.chance(0.5) {
		o.ParagraphSeparator = rosed.DefaultParagraphSeparator
	}
	if o.TableCharSet == "" && g.chance(0.5) {
		o.TableCharSet = rosed.DefaultTableCharSet
	}
	return o
}

func (g *G) anyOp(t string, deg bool, o *rosed.Options) Op {
	n := clusterCount(t)
	switch g.r.Intn(12) {
	case 0:
		return Op{Name: "wrap", I: []int{g.width()}, Opts: o}
	case 1:
		return Op{Name: "justify", I: []int{g.width()}, Opts: o}
	case 2:
		return Op{Name: "align", I: []int{g.r.Intn(5), g.width()}, Opts: o}
	case 3:
		return Op{Name: "collapse", Opts: o}
	case 4:
		return Op{Name: "indent", I: []int{g.r.Intn(4) - 1}, Opts: o}
	case 5:
		return Op{Name: "apply", I: []int{g.r.Intn(6)}, Opts: o}
	case 6:
		return Op{Name: "applyparas", I: []int{g.r.Intn(6)}, Opts: o}
	case 7:
		p := g.pct()
		m, e := frexp(p)
		return Op{Name: "twocols", I: []int{g.pos(n), g.r.Intn(5), g.width()}, S: []string{g.cell(6, deg), g.cell(6, deg)}, M: m, E: e, Pct: p, Opts: o}
	case 8:
		k := g.r.Intn(4)
		var defs [][2]string
		for i := 0; i < k; i++ {
			defs = append(defs, [2]string{strings.TrimSpace(g.cell(2, deg)), g.cell(8, deg)})
		}
		return Op{Name: "deftable", I: []int{g.pos(n), g.width()}, Defs: defs, Opts: o}
	case 9:
		rows := g.r.Intn(4)
		var data [][]string
		for i := 0; i < rows; i++ {
			var row []string
			for j := g.r.Intn(4); j > 0; j-- {
				row = append(row, g.cell(2, deg))
			}
			data = append(data, row)
		}
		return Op{Name: "table", I: []int{g.pos(n), g.width()}, Data: data, Opts: o}
	case 10:
		return Op{Name: "wrap", I: []int{g.width()}, Opts: o}
	default:
		return Op{Name: "justify", I: []int{g.width()}, Opts: o}
	}
}

// optsCase: the same operation with (0) XOpts(o), (1,2) WithOptions(o).X, (3) XOpts(o with some unset
// fields made explicit), (4) XOpts(o.WithDefaults()); then WithDefaults once and twice
func (g *G) optsCase(stream, id string, deg bool) Case {
	o := g.opts(sepPairs, false)
	if o == nil {
		o = &rosed.Options{}
	}
	ls, ps := optsSeps(o)
	t := g.text(8, deg, ls, ps)
	op := g.anyOp(t, deg, o)
	c := Case{ID: id, Stream: stream, Pool: []string{t}}
	op.Recv = 0
	c.Steps = append(c.Steps, op)
	c.Steps = append(c.Steps, Op{Recv: 0, Name: "withopts", Opts: o})
	op2 := op
	op2.Opts = nil
	op2.Recv = 2
	c.Steps = append(c.Steps, op2)
	o3 := g.explicitDefaults(*o)
	op3 := op
	op3.Opts = &o3
	c.Steps = append(c.Steps, op3)
	o4 := o.WithDefaults()
	op4 := op
	op4.Opts = &o4
	c.Steps = append(c.Steps, op4)
	c.Steps = append(c.Steps, Op{Recv: 0, Name: "withopts", Opts: &o4})
	o5 := o4.WithDefaults()
	c.Steps = append(c.Steps, Op{Recv: 0, Name: "withopts", Opts: &o5})
	return c
}

var degenerateTexts = []string{"", " ", "\n", "\n\n", "\n\n\n", "\u0301", "\u200d", " \u0301", "\t", "\r\n", "a", "\u0600", "\U0001F1E9",
	"   \n   ", "\n \n", "x\n\n", "\n\nx", "\u0903\u0903", "\ufe0f\ufe0f", "- -", "\u0001"}

func (g *G) totalCase(stream, id string) Case {
	var t string
	if g.chance(0.5) {
		t = g.pick(degenerateTexts)
	} else {
		t = g.text(4, true, "\n", "\n\n")
	}
	o := g.opts(sepPairs, false)
	var op Op
	n := clusterCount(t)
	switch g.r.Intn(10) {
	case 0:
		op = Op{Name: "chars", I: []int{g.pos(n), g.pos(n)}}
	case 1:
		op = Op{Name: "lines", I: []int{g.pos(2), g.pos(2)}}
	case 2:
		op = Op{Name: "insert", I: []int{g.pos(n)}, S: []string{g.pick(degenerateTexts)}}
	case 3:
		op = Op{Name: "delete", I: []int{g.pos(n), g.pos(n)}}
	case 4:
		op = Op{Name: "overtype", I: []int{g.pos(n)}, S: []string{g.pick(degenerateTexts)}}
	default:
		op = g.anyOp(t, true, o)
		if g.chance(0.3) {
			// degenerate cells, terms, columns
			switch op.Name {
			case "twocols":
				op.S = []string{g.pick(degenerateTexts[:12]), g.pick(degenerateTexts[:12])}
			case "deftable":
				op.Defs = [][2]string{{g.pick(degenerateTexts[5:13]), g.pick(degenerateTexts[:12])}, {"", ""}}
			case "table":
				op.Data = [][]string{{}, {g.pick(degenerateTexts[5:13]), ""}, {}}
			}
		}
	}
	return g.viaEditor(one(stream, id, t, op))
}
