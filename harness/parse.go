package main

import (
	"math"
	"strconv"
	"strings"

	"github.com/dekarrin/rosed"
)

type toks struct {
	t []string
	i int
}

func (p *toks) next() string { s := p.t[p.i]; p.i++; return s }
func (p *toks) int() int {
	n, err := strconv.ParseInt(p.next(), 10, 64)
	must(err)
	return int(n)
}
func unb(s string) string {
	if s == "-" {
		return ""
	}
	parts := strings.Split(s, ",")
	b := make([]byte, len(parts))
	for i, x := range parts {
		n, err := strconv.Atoi(x)
		must(err)
		b[i] = byte(n)
	}
	return string(b)
}
func (p *toks) str() string { return unb(p.next()) }
func (p *toks) opts() *rosed.Options {
	s := p.next()
	if s == "N" {
		return nil
	}
	f := strings.Split(s, ":")
	o := rosed.Options{IndentStr: unb(f[1]), LineSeparator: unb(f[2]), NoTrailingLineSeparators: f[3] == "1",
		ParagraphSeparator: unb(f[4]), PreserveParagraphs: f[5] == "1", JustifyLastLine: f[6] == "1",
		TableBorders: f[7] == "1", TableHeaders: f[8] == "1", TableCharSet: unb(f[9])}
	return &o
}

func parseCase(line string) Case {
	p := &toks{t: strings.Fields(line)}
	c := Case{ID: p.next(), Stream: p.next(), Flags: p.int()}
	np := p.int()
	for i := 0; i < np; i++ {
		c.Pool = append(c.Pool, p.str())
	}
	ns := p.int()
	for i := 0; i < ns; i++ {
		o := Op{Recv: p.int(), Name: p.next()}
		switch o.Name {
		case "chars", "lines", "delete":
			o.I = []int{p.int(), p.int()}
		case "charsfrom", "charsto", "linesfrom", "linesto":
			o.I = []int{p.int()}
		case "commit", "commitall":
		case "withopts":
			o.Opts = p.opts()
		case "insert", "overtype":
			o.I = []int{p.int()}
			o.S = []string{p.str()}
		case "wrap", "justify", "indent", "apply", "applyparas":
			o.I = []int{p.int()}
			o.Opts = p.opts()
		case "align":
			o.I = []int{p.int(), p.int()}
			o.Opts = p.opts()
		case "collapse":
			o.Opts = p.opts()
		case "twocols":
			pos := p.int()
			l, r := p.str(), p.str()
			gap, width := p.int(), p.int()
			m, e := p.int(), p.int()
			o.I = []int{pos, gap, width}
			o.S = []string{l, r}
			o.M, o.E = int64(m), int64(e)
			o.Pct = math.Ldexp(float64(m), e)
			o.Opts = p.opts()
		case "deftable":
			pos := p.int()
			k := p.int()
			for j := 0; j < k; j++ {
				o.Defs = append(o.Defs, [2]string{p.str(), p.str()})
			}
			o.I = []int{pos, p.int()}
			o.Opts = p.opts()
		case "table":
			pos := p.int()
			rows := p.int()
			for j := 0; j < rows; j++ {
				cols := p.int()
				row := []string{}
				for k := 0; k < cols; k++ {
					row = append(row, p.str())
				}
				o.Data = append(o.Data, row)
			}
			o.I = []int{pos, p.int()}
			o.Opts = p.opts()
		default:
			panic("parse: unknown op " + o.Name)
		}
		c.Steps = append(c.Steps, o)
	}
	return c
}
