//go:build verif_nogem

package main

import "testing"

func checkZeroPristine(t *testing.T) {}
