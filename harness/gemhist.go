//go:build !verif_nogem

package main

import (
	"bufio"
	"flag"
	"fmt"
	"math/rand"
	"os"
	"strconv"
	"strings"

	"github.com/dekarrin/rosed"
)

type gemOp struct {
	name string
	i, j int
	a, b int
	rs   []rune
}

func (o gemOp) tok() string {
	switch o.name {
	case "new":
		return "new " + runesTok(o.rs)
	case "zero", "zv":
		return o.name
	case "copy", "len", "runes", "idx", "rev":
		return fmt.Sprintf("%s %d", o.name, o.i)
	case "add":
		return fmt.Sprintf("add %d %d", o.i, o.j)
	case "sub":
		return fmt.Sprintf("sub %d %d %d", o.i, o.a, o.b)
	case "set":
		return fmt.Sprintf("set %d %d %s", o.i, o.a, runesTok(o.rs))
	case "rep", "charat":
		return fmt.Sprintf("%s %d %d", o.name, o.i, o.a)
	}
	panic("gemOp " + o.name)
}

func snapshot(pool []rosed.VerifGemString) string {
	ids := map[uintptr]int{}
	parts := make([]string, len(pool))
	for k, v := range pool {
		cell, has, isNil, ends := rosed.VerifCache(v)
		c := "z"
		if has {
			id, ok := ids[cell]
			if !ok {
				id = len(ids)
				ids[cell] = id
			}
			c = strconv.Itoa(id)
		}
		n := "f"
		if isNil {
			n = "n"
		}
		parts[k] = runesTok(rosed.VerifRawRunes(v)) + "/" + c + "/" + n + "/" + intsTok(ends)
	}
	if len(parts) == 0 {
		return "-"
	}
	return strings.Join(parts, ";")
}

func runGemStep(pool []rosed.VerifGemString, o gemOp) (np []rosed.VerifGemString, out string) {
	np = pool
	defer func() {
		if r := recover(); r != nil {
			np = pool
			out = "P"
		}
	}()
	get := func(i int) rosed.VerifGemString {
		if i < len(pool) {
			return pool[i]
		}
		return rosed.VerifGemString{}
	}
	switch o.name {
	case "new":
		return append(pool, rosed.VerifFromRunes(o.rs)), "N"
	case "zero":
		return append(pool, rosed.VerifGemZero()), "N"
	case "zv":
		return append(pool, rosed.VerifGemString{}), "N"
	case "copy":
		return append(pool, get(o.i)), "N"
	case "add":
		return append(pool, get(o.i).Add(get(o.j))), "N"
	case "sub":
		return append(pool, get(o.i).Sub(o.a, o.b)), "N"
	case "set":
		return append(pool, get(o.i).SetCharAt(o.a, o.rs)), "N"
	case "rep":
		return append(pool, rosed.VerifGemRepeat(get(o.i), o.a)), "N"
	case "rev":
		return append(pool, get(o.i).Reverse()), "N"
	case "charat":
		return pool, "R" + runesTok(get(o.i).CharAt(o.a))
	case "len":
		return pool, "I" + strconv.Itoa(get(o.i).Len())
	case "runes":
		return pool, "R" + runesTok(get(o.i).Runes())
	case "idx":
		ix := get(o.i).GraphemeIndexes()
		p := make([]string, len(ix))
		for k, x := range ix {
			p[k] = fmt.Sprintf("%d:%d", x[0], x[1])
		}
		if len(p) == 0 {
			return pool, "X-"
		}
		return pool, "X" + strings.Join(p, ",")
	}
	panic("gem op " + o.name)
}

var gemSeeds = [][]rune{
	{}, {'a'}, {'a', 'b', 'c'}, {'e', 0x301}, {0x301}, {0x200D}, {0x1F1E6, 0x1F1E7, 0x1F1E8}, {0x1F468, 0x200D, 0x1F469, 0x200D, 0x1F467},
	{0x0D, 0x0A}, {0x0A, 0x0D}, {0x600, 'a'}, {0x600}, {0x1100, 0x1161, 0x11A8}, {0xAC00, 0x11A8}, {' ', 0x301}, {'x', ' ', 'y'},
	{0x1F1E6}, {0x1F1E6, 0x1F1E7}, {-1, 0x110000, 0xD800}, {0x903, 'k'}, {'a', 0x200D, 0x1F600}, {0x1F600, 0x301, 0x200D, 0x1F600},
}

func (g *G) gemRunes() []rune {
	if g.chance(0.6) {
		return append([]rune{}, gemSeeds[g.r.Intn(len(gemSeeds))]...)
	}
	n := g.r.Intn(7)
	rs := make([]rune, n)
	for i := range rs {
		c := g.r.Intn(len(classReps))
		rs[i] = classReps[c][g.r.Intn(len(classReps[c]))]
	}
	return rs
}

func cmdGemHist(args []string) {
	fs := flag.NewFlagSet("gemhist", flag.ExitOnError)
	seed := fs.Int64("seed", 1, "seed")
	n := fs.Int("n", 100, "histories")
	rev := fs.Bool("rev", false, "include Reverse")
	out := fs.String("out", "gemhist.txt", "output")
	fs.Parse(args)
	g := &G{r: rand.New(rand.NewSource(*seed*7919 + 13))}
	f, err := os.Create(*out)
	must(err)
	w := bufio.NewWriter(f)
	for c := 0; c < *n; c++ {
		var pool []rosed.VerifGemString
		steps := 3 + g.r.Intn(22)
		var optoks, restoks []string
		size := 0
		for s := 0; s < steps; s++ {
			var o gemOp
			pick := func() int {
				if size == 0 {
					return 0
				}
				// favour a few "base" values so that several results branch off the same operand
				// and earlier results keep being observed afterwards
				if g.chance(0.45) {
					return g.r.Intn(1 + size/3)
				}
				return g.r.Intn(size)
			}
			k := g.r.Intn(16)
			if size == 0 {
				k = g.r.Intn(3)
			}
			switch k {
			case 0, 1:
				o = gemOp{name: "new", rs: g.gemRunes()}
			case 2:
				if g.chance(0.5) {
					o = gemOp{name: "zero"}
				} else {
					o = gemOp{name: "zv"}
				}
			case 3:
				o = gemOp{name: "copy", i: pick()}
			case 4, 5:
				o = gemOp{name: "add", i: pick(), j: pick()}
			case 6, 7, 8:
				o = gemOp{name: "sub", i: pick(), a: g.r.Intn(9) - 4, b: g.r.Intn(9) - 4}
			case 9:
				rs := g.gemRunes()
				if g.chance(0.9) && len(rs) == 0 {
					rs = []rune{' '}
				}
				o = gemOp{name: "set", i: pick(), a: g.r.Intn(5) - 1, rs: rs}
			case 10:
				o = gemOp{name: "rep", i: pick(), a: g.r.Intn(5) - 1}
			case 11:
				o = gemOp{name: "charat", i: pick(), a: g.r.Intn(5) - 1}
			case 12:
				o = gemOp{name: "len", i: pick()}
			case 13:
				o = gemOp{name: "runes", i: pick()}
			case 14:
				o = gemOp{name: "idx", i: pick()}
			default:
				if *rev {
					o = gemOp{name: "rev", i: pick()}
				} else {
					o = gemOp{name: "len", i: pick()}
				}
			}
			seq := []gemOp{o}
			if size >= 2 && g.chance(0.12) {
				// two results branching off one Add result, the first observed before and after the second
				a, b, c := pick(), pick(), pick()
				seq = []gemOp{{name: "add", i: a, j: b}, {name: "add", i: size, j: c}, {name: "len", i: size + 1},
					{name: "add", i: size, j: pick()}, {name: "len", i: size + 1}, {name: "charat", i: size + 1, a: g.r.Intn(4)}}
			}
			for _, o := range seq {
				var res string
				pool, res = runGemStep(pool, o)
				optoks = append(optoks, o.tok())
				restoks = append(restoks, res+"|"+snapshot(pool))
			}
			size = len(pool)
		}
		steps = len(optoks)
		fmt.Fprintf(w, "g%d-%d %d %s # %s\n", *seed, c, steps, strings.Join(optoks, " "), strings.Join(restoks, " "))
	}
	must(w.Flush())
	f.Close()
}
