// Command harness generates cases, runs them on the rosed implementation built
// from /repo's working tree (with -tags verif), and writes the case file and
// the implementation's results for the OCaml driver to compare with the model.
package main

import (
	"bufio"
	"flag"
	"fmt"
	"math/rand"
	"os"
	"strings"
	"time"
)

func main() {
	if len(os.Args) < 2 {
		fmt.Fprintln(os.Stderr, "usage: harness gen|sweep|replay ...")
		os.Exit(2)
	}
	switch os.Args[1] {
	case "gen":
		cmdGen(os.Args[2:])
	case "sweep":
		cmdSweep(os.Args[2:])
	case "run":
		cmdRun(os.Args[2:])
	default:
		extra(os.Args[1], os.Args[2:])
	}
}

func cmdGen(args []string) {
	fs := flag.NewFlagSet("gen", flag.ExitOnError)
	stream := fs.String("stream", "", "stream name")
	seed := fs.Int64("seed", 1, "seed")
	n := fs.Int("n", 100, "number of cases")
	casesPath := fs.String("cases", "cases.txt", "case file")
	resPath := fs.String("res", "go.txt", "implementation results")
	fs.Parse(args)
	g := &G{r: rand.New(rand.NewSource(*seed*1000003 + int64(len(*stream))))}
	cf, err := os.Create(*casesPath)
	must(err)
	rf, err := os.Create(*resPath)
	must(err)
	cw, rw := bufio.NewWriter(cf), bufio.NewWriter(rf)
	for i := 0; i < *n; i++ {
		c := g.genCase(*stream, fmt.Sprintf("%s-%d-%d", *stream, *seed, i))
		fmt.Fprintln(cw, c.line())
		fmt.Fprintln(rw, c.run(20*time.Second))
	}
	must(cw.Flush())
	must(rw.Flush())
	cf.Close()
	rf.Close()
}

// cmdRun re-runs the cases of an existing case file (corpus, replay) on the implementation.
func cmdRun(args []string) {
	fs := flag.NewFlagSet("run", flag.ExitOnError)
	casesPath := fs.String("cases", "cases.txt", "case file")
	resPath := fs.String("res", "go.txt", "implementation results")
	fs.Parse(args)
	data, err := os.ReadFile(*casesPath)
	must(err)
	rf, err := os.Create(*resPath)
	must(err)
	rw := bufio.NewWriter(rf)
	for _, line := range strings.Split(string(data), "\n") {
		if strings.TrimSpace(line) == "" {
			continue
		}
		c := parseCase(line)
		fmt.Fprintln(rw, c.run(20*time.Second))
	}
	must(rw.Flush())
	rf.Close()
}
