//go:build !verif_nogem

package main

// The engines that look inside internal/gem through the verif-tagged accessors (class bits,
// shouldBreakAfter, Split): sweep, splitx, probes. When those accessors no longer compile
// (an unexported name they refer to was renamed, say) the harness is built with
// -tags verif,verif_nogem and gemcmds_stub.go reports them as unavailable instead.

import (
	"bufio"
	"flag"
	"fmt"
	"math/rand"
	"os"
	"strconv"
	"strings"

	"github.com/dekarrin/rosed"
)

// representatives of the 15 classes, in the order CR LF Control Extend ZWJ RI
// Prepend SpacingMark L V T LV LVT ExtPict Other
var classReps = [][]rune{
	{0x0D}, {0x0A}, {0x01, 0x200B, 0xAD}, {0x0301, 0xFE0F, 0x1F3FB, 0x200C}, {0x200D}, {0x1F1E6, 0x1F1FF},
	{0x0600, 0x110BD}, {0x0903, 0x0E33}, {0x1100, 0xA960}, {0x1161, 0xD7B0}, {0x11A8, 0xD7CB},
	{0xAC00, 0xAC1C}, {0xAC01, 0xD7A3}, {0x1F600, 0x00A9, 0x2764}, {0x61, 0x20, 0x4E00, 0x10FFFF},
}

// one line per string: runes, Split ends, per-index shouldBreakAfter bits, CharCount via the public API
func emitSplit(w *bufio.Writer, rs []rune) {
	ends := rosed.VerifSplit(rs)
	var sb strings.Builder
	for i := range rs {
		if rosed.VerifShouldBreakAfter(rs, i) {
			sb.WriteByte('1')
		} else {
			sb.WriteByte('0')
		}
	}
	if len(rs) == 0 {
		sb.WriteByte('-')
	}
	valid := true
	for _, r := range rs {
		if r < 0 || r > 0x10FFFF || (r >= 0xD800 && r <= 0xDFFF) {
			valid = false
		}
	}
	cc := -1
	if valid {
		cc = rosed.Edit(string(rs)).CharCount()
	}
	fmt.Fprintf(w, "%s %s %s %d\n", runesTok(rs), intsTok(ends), sb.String(), cc)
}

func cmdSplitX(args []string) {
	fs := flag.NewFlagSet("splitx", flag.ExitOnError)
	maxLen := fs.Int("len", 4, "exhaustive up to this length")
	nrand := fs.Int("rand", 2000, "random long strings")
	seed := fs.Int64("seed", 1, "seed")
	out := fs.String("out", "split.txt", "output")
	fs.Parse(args)
	f, err := os.Create(*out)
	must(err)
	w := bufio.NewWriter(f)
	r := rand.New(rand.NewSource(*seed))
	// exhaustive over class strings, with the first and with a random representative
	idx := make([]int, *maxLen)
	var rec func(n, k int)
	rec = func(n, k int) {
		if k == n {
			a := make([]rune, n)
			b := make([]rune, n)
			for i := 0; i < n; i++ {
				reps := classReps[idx[i]]
				a[i] = reps[0]
				b[i] = reps[r.Intn(len(reps))]
			}
			emitSplit(w, a)
			if n > 0 {
				emitSplit(w, b)
			}
			return
		}
		for c := 0; c < len(classReps); c++ {
			idx[k] = c
			rec(n, k+1)
		}
	}
	for n := 0; n <= *maxLen; n++ {
		rec(n, 0)
	}
	// random long strings biased towards RI runs, Extend runs, ZWJ chains, Hangul
	for i := 0; i < *nrand; i++ {
		n := 1 + r.Intn(300)
		rs := make([]rune, 0, n)
		for len(rs) < n {
			switch r.Intn(8) {
			case 0:
				for k := r.Intn(7); k > 0; k-- {
					rs = append(rs, classReps[5][r.Intn(2)])
				}
			case 1:
				rs = append(rs, classReps[13][r.Intn(3)])
				for k := r.Intn(4); k > 0; k-- {
					rs = append(rs, classReps[3][r.Intn(4)])
				}
				if r.Intn(2) == 0 {
					rs = append(rs, 0x200D)
				}
			case 2:
				for k := 1 + r.Intn(4); k > 0; k-- {
					c := 8 + r.Intn(5)
					rs = append(rs, classReps[c][r.Intn(len(classReps[c]))])
				}
			case 3:
				rs = append(rs, rune(r.Intn(0x110000)))
			default:
				c := r.Intn(len(classReps))
				rs = append(rs, classReps[c][r.Intn(len(classReps[c]))])
			}
		}
		emitSplit(w, rs)
	}
	// arbitrary rune values, including invalid ones
	for i := 0; i < 200; i++ {
		n := 1 + r.Intn(12)
		rs := make([]rune, n)
		for j := range rs {
			switch r.Intn(4) {
			case 0:
				rs[j] = -rune(r.Intn(1000)) - 1
			case 1:
				rs[j] = 0x110000 + rune(r.Intn(1000))
			case 2:
				rs[j] = 0xD800 + rune(r.Intn(0x800))
			default:
				rs[j] = rune(r.Intn(0x110000))
			}
		}
		emitSplit(w, rs)
	}
	must(w.Flush())
	f.Close()
}

// probe contexts: each is (prefix, suffix) placed around the code point under test
var probeCtx = [][2][]rune{
	{{0x0D}, {}}, {{}, {0x0A}}, {{'a'}, {}}, {{}, {'a'}}, {{0x1100}, {}}, {{0x1161}, {}}, {{0x11A8}, {}}, {{}, {0x1161}}, {{}, {0x11A8}},
	{{0x1F600, 0x200D}, {}}, {{}, {0x200D, 0x1F600}}, {{0x1F1E6}, {}}, {{}, {0x1F1E6}}, {{}, {0x0301}}, {{0x0600}, {}},
	{{}, {0x0301, 0x200D, 0x1F600}}, {{0x1F600}, {0x200D, 0x1F600}}, {{0xAC00}, {}}, {{0xAC01}, {}}, {{0x1F1E6, 0x1F1E7}, {0x1F1E8}},
}

func probeSig(r rune) string {
	var sb strings.Builder
	for _, pc := range probeCtx {
		rs := append(append(append([]rune{}, pc[0]...), r), pc[1]...)
		for i := 0; i+1 < len(rs); i++ {
			if rosed.VerifShouldBreakAfter(rs, i) {
				sb.WriteByte('1')
			} else {
				sb.WriteByte('0')
			}
		}
		ends := rosed.VerifSplit(rs)
		sb.WriteString(strconv.Itoa(len(ends)))
		sb.WriteByte('.')
	}
	return sb.String()
}

// cmdProbes prints, for every code point (and some out-of-range values), how it joins with the probe characters
func cmdProbes(args []string) {
	fs := flag.NewFlagSet("probes", flag.ExitOnError)
	out := fs.String("out", "probes.txt", "output")
	all := fs.Bool("all", false, "every code point (otherwise: every code point in a table, 16 around every class change, block ends, a random sample)")
	seed := fs.Int64("seed", 1, "seed")
	fs.Parse(args)
	sel := make([]bool, 0x110000)
	if *all {
		for i := range sel {
			sel[i] = true
		}
	} else {
		prev := uint32(0)
		for r := 0; r <= 0x10FFFF; r++ {
			b := rosed.VerifClassBits(rune(r))
			if b != 0 {
				sel[r] = true
			}
			if b != prev || r%0x100 == 0 {
				for k := r - 16; k <= r+16; k++ {
					if k >= 0 && k <= 0x10FFFF {
						sel[k] = true
					}
				}
			}
			prev = b
		}
		rr := rand.New(rand.NewSource(*seed))
		for i := 0; i < 30000; i++ {
			sel[rr.Intn(0x110000)] = true
		}
	}
	f, err := os.Create(*out)
	must(err)
	w := bufio.NewWriter(f)
	// the probe contexts themselves, for the model side
	fmt.Fprintf(w, "CTX %d", len(probeCtx))
	for _, pc := range probeCtx {
		fmt.Fprintf(w, " %s %s", runesTok(pc[0]), runesTok(pc[1]))
	}
	fmt.Fprintln(w)
	for r := rune(0); r <= 0x10FFFF; r++ {
		if sel[r] {
			fmt.Fprintf(w, "%d %s\n", r, probeSig(r))
		}
	}
	for _, r := range []rune{-1, -2, -128, 0x110000, 0x110001, 0x7FFFFFFF, -0x80000000} {
		fmt.Fprintf(w, "%d %s\n", r, probeSig(r))
	}
	must(w.Flush())
	f.Close()
}

// cmdSweep prints the 14 predicate bits of every code point and of some
// out-of-range values, one "value bits" pair per line.
func cmdSweep(args []string) {
	fs := flag.NewFlagSet("sweep", flag.ExitOnError)
	out := fs.String("out", "sweep.txt", "output")
	fs.Parse(args)
	f, err := os.Create(*out)
	must(err)
	w := bufio.NewWriter(f)
	for r := rune(0); r <= 0x10FFFF; r++ {
		fmt.Fprintf(w, "%d %d\n", r, rosed.VerifClassBits(r))
	}
	for _, r := range []rune{-1, -2, -128, -0x10FFFF, 0x110000, 0x110001, 0x7FFFFFFF, -0x80000000, 0x200000} {
		fmt.Fprintf(w, "%d %d\n", r, rosed.VerifClassBits(r))
	}
	must(w.Flush())
	f.Close()
}
