//go:build !verif_nogem

package main

import (
	"testing"

	"github.com/dekarrin/rosed"
)

func checkZeroPristine(t *testing.T) {
	z := rosed.VerifGemZero()
	_, _, isNil, ends := rosed.VerifCache(z)
	if isNil || len(ends) != 0 || len(rosed.VerifRawRunes(z)) != 0 {
		t.Errorf("gem.Zero was modified: nil=%v ends=%v", isNil, ends)
	}
}
