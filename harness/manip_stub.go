//go:build verif_nomanip

package main

// Built instead of manip.go when the verif-tagged re-exports of internal/manip, internal/util and
// internal/tb do not compile.

import (
	"fmt"
	"os"
)

func cmdManip(args []string) {
	fmt.Fprintln(os.Stderr, "harness: manip is unavailable: the verif-tagged re-exports of internal/manip do not compile with this tree")
	os.Exit(3)
}
