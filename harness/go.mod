module verif/harness

go 1.21

require github.com/dekarrin/rosed v0.0.0

replace github.com/dekarrin/rosed => /repo
