package main

import (
	"fmt"
	"os"
	"strconv"
	"strings"
)

func extra(cmd string, args []string) {
	switch cmd {
	case "splitx":
		cmdSplitX(args)
	case "gemhist":
		cmdGemHist(args)
	case "probes":
		cmdProbes(args)
	case "manip":
		cmdManip(args)
	case "shrink":
		cmdShrink(args)
	case "gocode":
		cmdGoCode(args)
	default:
		fmt.Fprintln(os.Stderr, "unknown command", cmd)
		os.Exit(2)
	}
}

func runesTok(rs []rune) string {
	if len(rs) == 0 {
		return "-"
	}
	p := make([]string, len(rs))
	for i, r := range rs {
		p[i] = strconv.Itoa(int(r))
	}
	return strings.Join(p, ",")
}
func intsTok(xs []int) string {
	if len(xs) == 0 {
		return "-"
	}
	p := make([]string, len(xs))
	for i, x := range xs {
		p[i] = strconv.Itoa(x)
	}
	return strings.Join(p, ",")
}
