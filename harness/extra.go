package main

import (
	"fmt"
	"os"
)

func extra(cmd string, args []string) {
	fmt.Fprintln(os.Stderr, "unknown command", cmd)
	os.Exit(2)
}
