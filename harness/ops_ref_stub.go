//go:build verif_noref

package main

import "github.com/dekarrin/rosed"

// refOf without the accessor (it does not compile with this tree): whether the Editor is a
// sub-editor is public; the byte range is not observed ("?", which the driver compares with
// anything and which switches off the verdicts that need it).
func refOf(ed rosed.Editor) (bool, string, string) {
	return ed.IsSubEditor(), "?", "?"
}
