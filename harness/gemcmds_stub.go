//go:build verif_nogem

package main

// Built instead of gemcmds.go and gemhist.go when the accessors into internal/gem do not compile.

import (
	"fmt"
	"os"
)

func gemUnavailable(cmd string) {
	fmt.Fprintln(os.Stderr, "harness: "+cmd+" is unavailable: the verif-tagged accessors of internal/gem do not compile with this tree")
	os.Exit(3)
}

func cmdSweep(args []string)   { gemUnavailable("sweep") }
func cmdSplitX(args []string)  { gemUnavailable("splitx") }
func cmdProbes(args []string)  { gemUnavailable("probes") }
func cmdGemHist(args []string) { gemUnavailable("gemhist") }
