package main

// Replays for people: a failing case is minimised (steps after the failing one dropped, unused
// earlier steps removed, texts and numbers shrunk while the same failure remains) and rendered
// as a Go test against the public API.
//
//	harness shrink -case "<case line>" -prop Cxx -driver /verif/bin/driver   prints the minimised case line
//	harness gocode -case "<case line>"                                        prints a Go test

import (
	"flag"
	"fmt"
	"os"
	"os/exec"
	"path/filepath"
	"strconv"
	"strings"
	"time"
	"unicode/utf8"

	"github.com/dekarrin/rosed"
)

// failure describes how a case fails for a property: the first step at which model and
// implementation differ (kind "DIFF <op>") or the property's verdict is false (kind "V").
type failure struct {
	step int
	kind string
}

// evaluate runs the case on the implementation and the driver on both, and reports the first
// failure that concerns prop (nil when there is none).
func evaluate(c Case, prop, driver, dir string) *failure {
	cases := filepath.Join(dir, "c.txt")
	res := filepath.Join(dir, "g.txt")
	must(os.WriteFile(cases, []byte(c.line()+"\n"), 0o644))
	must(os.WriteFile(res, []byte(c.run(5*time.Second)+"\n"), 0o644))
	out, err := exec.Command(driver, cases, res).Output()
	if err != nil {
		return nil
	}
	var best *failure
	for _, l := range strings.Split(string(out), "\n") {
		f := strings.Fields(l)
		if len(f) < 3 {
			continue
		}
		var cand *failure
		switch {
		case f[1] == "DIFF" && len(f) >= 4:
			k, _ := strconv.Atoi(f[2])
			cand = &failure{k, "DIFF " + f[3]}
		case f[1] == "V" && len(f) >= 6 && f[2] == prop && f[4] == "1" && f[5] == "0":
			k, _ := strconv.Atoi(f[3])
			cand = &failure{k, "V"}
		}
		if cand != nil && (best == nil || cand.step < best.step) {
			best = cand
		}
	}
	return best
}

func sameFailure(a, b *failure) bool {
	return a != nil && b != nil && a.kind == b.kind
}

// shrinkString proposes shorter variants of s (whole runes only).
func shrinkString(s string) []string {
	if s == "" {
		return nil
	}
	rs := []rune(s)
	if !utf8.ValidString(s) {
		return []string{""}
	}
	out := []string{""}
	n := len(rs)
	if n >= 2 {
		out = append(out, string(rs[:n/2]), string(rs[n/2:]))
	}
	if n >= 4 {
		out = append(out, string(rs[:n/4])+string(rs[n/2:]), string(rs[:n/2])+string(rs[3*n/4:]))
	}
	if n <= 24 {
		for i := 0; i < n; i++ {
			out = append(out, string(rs[:i])+string(rs[i+1:]))
		}
	}
	return out
}

func shrinkInt(v int) []int {
	if v == rosed.End {
		return nil
	}
	var out []int
	for _, c := range []int{0, 1, -1, 2, v / 2, v - 1, v + 1} {
		if c != v && abs(c) < abs(v) || (c == 0 && v != 0) {
			out = append(out, c)
		}
	}
	return out
}

func abs(x int) int {
	if x < 0 {
		return -x
	}
	return x
}

func cloneCase(c Case) Case {
	d := Case{ID: c.ID, Stream: c.Stream, Flags: c.Flags}
	d.Pool = append([]string{}, c.Pool...)
	for _, s := range c.Steps {
		t := s
		t.I = append([]int{}, s.I...)
		t.S = append([]string{}, s.S...)
		if s.Opts != nil {
			o := *s.Opts
			t.Opts = &o
		}
		t.Defs = append([][2]string{}, s.Defs...)
		t.Data = nil
		for _, row := range s.Data {
			t.Data = append(t.Data, append([]string{}, row...))
		}
		d.Steps = append(d.Steps, t)
	}
	return d
}

// dropStep removes step j and renumbers the receivers that pointed past it; ok is false when
// a later step uses its result.
func dropStep(c Case, j int) (Case, bool) {
	idx := len(c.Pool) + j
	d := cloneCase(c)
	for k := j + 1; k < len(d.Steps); k++ {
		if d.Steps[k].Recv == idx {
			return c, false
		}
		if d.Steps[k].Recv > idx {
			d.Steps[k].Recv--
		}
	}
	d.Steps = append(d.Steps[:j], d.Steps[j+1:]...)
	return d, true
}

func cmdShrink(args []string) {
	fs := flag.NewFlagSet("shrink", flag.ExitOnError)
	line := fs.String("case", "", "case line")
	prop := fs.String("prop", "", "property")
	driver := fs.String("driver", "/verif/bin/driver", "driver binary")
	budget := fs.Int("budget", 400, "maximal number of evaluations")
	fs.Parse(args)
	c := parseCase(*line)
	dir, err := os.MkdirTemp("", "shrink")
	must(err)
	defer os.RemoveAll(dir)
	evals := 0
	eval := func(x Case) *failure { evals++; return evaluate(x, *prop, *driver, dir) }
	orig := eval(c)
	if orig == nil {
		fmt.Println(c.line())
		return
	}
	try := func(d Case) bool {
		if evals >= *budget {
			return false
		}
		if f := eval(d); sameFailure(f, orig) {
			c = d
			return true
		}
		return false
	}
	// 1. nothing after the failing step matters
	if orig.step+1 < len(c.Steps) {
		d := cloneCase(c)
		d.Steps = d.Steps[:orig.step+1]
		try(d)
	}
	// 2. earlier steps nobody uses
	for j := len(c.Steps) - 2; j >= 0; j-- {
		if d, ok := dropStep(c, j); ok {
			try(d)
		}
	}
	// 3. shorter texts, smaller numbers, fewer options - until nothing helps
	for changed := true; changed && evals < *budget; {
		changed = false
		for i := range c.Pool {
			for _, s := range shrinkString(c.Pool[i]) {
				d := cloneCase(c)
				d.Pool[i] = s
				if try(d) {
					changed = true
					break
				}
			}
		}
		for k := range c.Steps {
			for i := range c.Steps[k].S {
				for _, s := range shrinkString(c.Steps[k].S[i]) {
					d := cloneCase(c)
					d.Steps[k].S[i] = s
					if try(d) {
						changed = true
						break
					}
				}
			}
			for i := range c.Steps[k].I {
				for _, v := range shrinkInt(c.Steps[k].I[i]) {
					d := cloneCase(c)
					d.Steps[k].I[i] = v
					if try(d) {
						changed = true
						break
					}
				}
			}
			for i := range c.Steps[k].Defs {
				for side := 0; side < 2; side++ {
					for _, s := range shrinkString(c.Steps[k].Defs[i][side]) {
						d := cloneCase(c)
						d.Steps[k].Defs[i][side] = s
						if try(d) {
							changed = true
							break
						}
					}
				}
			}
			if n := len(c.Steps[k].Defs); n > 1 {
				for i := 0; i < n; i++ {
					d := cloneCase(c)
					d.Steps[k].Defs = append(d.Steps[k].Defs[:i], d.Steps[k].Defs[i+1:]...)
					if try(d) {
						changed = true
						break
					}
				}
			}
			for i := range c.Steps[k].Data {
				for j := range c.Steps[k].Data[i] {
					for _, s := range shrinkString(c.Steps[k].Data[i][j]) {
						d := cloneCase(c)
						d.Steps[k].Data[i][j] = s
						if try(d) {
							changed = true
							break
						}
					}
				}
			}
			if n := len(c.Steps[k].Data); n > 1 {
				for i := 0; i < n; i++ {
					d := cloneCase(c)
					d.Steps[k].Data = append(d.Steps[k].Data[:i], d.Steps[k].Data[i+1:]...)
					if try(d) {
						changed = true
						break
					}
				}
			}
			if o := c.Steps[k].Opts; o != nil {
				type edit func(*rosed.Options)
				for _, e := range []edit{
					func(o *rosed.Options) { o.IndentStr = "" },
					func(o *rosed.Options) { o.TableCharSet = "" },
					func(o *rosed.Options) { o.NoTrailingLineSeparators = false },
					func(o *rosed.Options) { o.JustifyLastLine = false },
					func(o *rosed.Options) { o.TableBorders = false },
					func(o *rosed.Options) { o.TableHeaders = false },
					func(o *rosed.Options) { o.PreserveParagraphs = false },
					func(o *rosed.Options) { o.ParagraphSeparator = "" },
					func(o *rosed.Options) { o.LineSeparator = "" },
				} {
					d := cloneCase(c)
					before := *d.Steps[k].Opts
					e(d.Steps[k].Opts)
					if *d.Steps[k].Opts != before && try(d) {
						changed = true
					}
				}
			}
		}
	}
	fmt.Println(c.line())
}

// ---- Go rendering ------------------------------------------------------------

func goOpts(o *rosed.Options) string {
	var f []string
	add := func(name, val string) { f = append(f, name+": "+val) }
	if o.IndentStr != "" {
		add("IndentStr", strconv.Quote(o.IndentStr))
	}
	if o.LineSeparator != "" {
		add("LineSeparator", strconv.Quote(o.LineSeparator))
	}
	if o.ParagraphSeparator != "" {
		add("ParagraphSeparator", strconv.Quote(o.ParagraphSeparator))
	}
	if o.NoTrailingLineSeparators {
		add("NoTrailingLineSeparators", "true")
	}
	if o.PreserveParagraphs {
		add("PreserveParagraphs", "true")
	}
	if o.JustifyLastLine {
		add("JustifyLastLine", "true")
	}
	if o.TableBorders {
		add("TableBorders", "true")
	}
	if o.TableHeaders {
		add("TableHeaders", "true")
	}
	if o.TableCharSet != "" {
		add("TableCharSet", strconv.Quote(o.TableCharSet))
	}
	return "rosed.Options{" + strings.Join(f, ", ") + "}"
}

func goInt(v int) string {
	if v == rosed.End {
		return "rosed.End"
	}
	return strconv.Itoa(v)
}

func goCall(o Op) string {
	q := strconv.Quote
	opt := ""
	suffix := ""
	if o.Opts != nil {
		opt = ", " + goOpts(o.Opts)
		suffix = "Opts"
	}
	switch o.Name {
	case "chars":
		return fmt.Sprintf("Chars(%s, %s)", goInt(o.I[0]), goInt(o.I[1]))
	case "charsfrom":
		return fmt.Sprintf("CharsFrom(%s)", goInt(o.I[0]))
	case "charsto":
		return fmt.Sprintf("CharsTo(%s)", goInt(o.I[0]))
	case "lines":
		return fmt.Sprintf("Lines(%s, %s)", goInt(o.I[0]), goInt(o.I[1]))
	case "linesfrom":
		return fmt.Sprintf("LinesFrom(%s)", goInt(o.I[0]))
	case "linesto":
		return fmt.Sprintf("LinesTo(%s)", goInt(o.I[0]))
	case "commit":
		return "Commit()"
	case "commitall":
		return "CommitAll()"
	case "withopts":
		return "WithOptions(" + goOpts(o.Opts) + ")"
	case "insert":
		return fmt.Sprintf("Insert(%s, %s)", goInt(o.I[0]), q(o.S[0]))
	case "delete":
		return fmt.Sprintf("Delete(%s, %s)", goInt(o.I[0]), goInt(o.I[1]))
	case "overtype":
		return fmt.Sprintf("Overtype(%s, %s)", goInt(o.I[0]), q(o.S[0]))
	case "wrap":
		return fmt.Sprintf("Wrap%s(%d%s)", suffix, o.I[0], opt)
	case "justify":
		return fmt.Sprintf("Justify%s(%d%s)", suffix, o.I[0], opt)
	case "align":
		return fmt.Sprintf("Align%s(rosed.Alignment(%d), %d%s)", suffix, o.I[0], o.I[1], opt)
	case "collapse":
		if o.Opts != nil {
			return "CollapseSpaceOpts(" + goOpts(o.Opts) + ")"
		}
		return "CollapseSpace()"
	case "indent":
		return fmt.Sprintf("Indent%s(%d%s)", suffix, o.I[0], opt)
	case "apply":
		return fmt.Sprintf("Apply%s(lineCallback%d%s)", suffix, o.I[0], opt)
	case "applyparas":
		return fmt.Sprintf("ApplyParagraphs%s(paragraphCallback%d%s)", suffix, o.I[0], opt)
	case "twocols":
		return fmt.Sprintf("InsertTwoColumns%s(%s, %s, %s, %d, %d, %v%s)", suffix, goInt(o.I[0]), q(o.S[0]), q(o.S[1]), o.I[1], o.I[2], o.Pct, opt)
	case "deftable":
		var d []string
		for _, x := range o.Defs {
			d = append(d, "{"+q(x[0])+", "+q(x[1])+"}")
		}
		return fmt.Sprintf("InsertDefinitionsTable%s(%s, [][2]string{%s}, %d%s)", suffix, goInt(o.I[0]), strings.Join(d, ", "), o.I[1], opt)
	case "table":
		var rows []string
		for _, r := range o.Data {
			var cs []string
			for _, x := range r {
				cs = append(cs, q(x))
			}
			rows = append(rows, "{"+strings.Join(cs, ", ")+"}")
		}
		return fmt.Sprintf("InsertTable%s(%s, [][]string{%s}, %d%s)", suffix, goInt(o.I[0]), strings.Join(rows, ", "), o.I[1], opt)
	}
	return "/* " + o.Name + " */"
}

func cmdGoCode(args []string) {
	fs := flag.NewFlagSet("gocode", flag.ExitOnError)
	line := fs.String("case", "", "case line")
	fs.Parse(args)
	c := parseCase(*line)
	var b strings.Builder
	b.WriteString("package rosed_test\n\nimport (\n\t\"testing\"\n\n\t\"github.com/dekarrin/rosed\"\n)\n\n")
	b.WriteString("// case " + c.ID + " (stream " + c.Stream + "): every value below is what the check observed;\n")
	b.WriteString("// lineCallbackK / paragraphCallbackK are the callbacks of /verif/harness/ops.go (lineCB, paraCB).\n")
	b.WriteString("func TestReplay(t *testing.T) {\n")
	for i, p := range c.Pool {
		fmt.Fprintf(&b, "\te%d := rosed.Edit(%s)\n", i, strconv.Quote(p))
	}
	n := len(c.Pool)
	pool := make([]rosed.Editor, 0, n+len(c.Steps))
	for _, p := range c.Pool {
		pool = append(pool, rosed.Edit(p))
	}
	for k, s := range c.Steps {
		fmt.Fprintf(&b, "\te%d := e%d.%s\n", n+k, s.Recv, goCall(s))
		if s.Recv < len(pool) {
			out := runStep(s, pool[s.Recv], 5*time.Second)
			pool = append(pool, out.ed)
			if out.panic {
				fmt.Fprintf(&b, "\t// ^ panics or does not return\n")
			} else {
				str := func() (r string) {
					defer func() {
						if recover() != nil {
							r = "<String() panics>"
						}
					}()
					return out.ed.String()
				}()
				fmt.Fprintf(&b, "\t// e%d.Text = %s; e%d.String() = %s\n", n+k, strconv.Quote(out.ed.Text), n+k, strconv.Quote(str))
			}
		}
	}
	fmt.Fprintf(&b, "\t_ = e%d\n}\n", n+len(c.Steps)-1)
	fmt.Print(b.String())
}
