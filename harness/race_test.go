package main

// Run with:  go test -race -tags verif -run TestRace -count=1 .
// 16 goroutines execute generated cases on shared and unshared Editors; every
// result must equal the sequential result, the shared inputs must be unchanged,
// and the race detector must stay silent (it fails the test otherwise).

import (
	"math/rand"
	"os"
	"strconv"
	"sync"
	"testing"
	"time"

	"github.com/dekarrin/rosed"
)

func envInt(name string, def int) int {
	if v, err := strconv.Atoi(os.Getenv(name)); err == nil {
		return v
	}
	return def
}

// coldStart is the very first thing the process does with the library: sixteen goroutines enter
// the public entry points at once with fixed arguments, before anything - the case generators
// included - has run library code sequentially, so that package-level values that are filled in
// lazily (a cached default, a memo) are first touched by racing goroutines.
func coldStart() {
	var wg sync.WaitGroup
	for w := 0; w < 16; w++ {
		wg.Add(1)
		go func(w int) {
			defer wg.Done()
			o := rosed.Options{TableCharSet: "#", LineSeparator: "\r\n", PreserveParagraphs: w%2 == 0, TableBorders: true, TableHeaders: w%3 == 0}
			_ = o.WithDefaults()
			_ = rosed.Options{}.WithDefaults()
			e := rosed.Edit("one two  three\r\n\r\nfour e\u0301 five\r\n").WithOptions(o)
			_ = e.Wrap(6).String()
			_ = e.Justify(12).String()
			_ = e.Align(rosed.Center, 9).String()
			_ = e.Indent(1).String()
			_ = e.CollapseSpace().String()
			_ = e.InsertTable(0, [][]string{{"a", "b"}, {"c"}}, 12).String()
			_ = e.InsertTwoColumns(0, "left text", "right text here", 2, 20, 0.4).String()
			_ = e.InsertDefinitionsTable(0, [][2]string{{"t", "def of t"}}, 24).String()
			_ = e.Chars(1, -1).Insert(1, "x").String()
			_ = e.Lines(0, 1).Overtype(0, "y").Commit().String()
			_ = e.CharCount() + e.LineCount()
		}(w)
	}
	wg.Wait()
}

func TestRace(t *testing.T) {
	coldStart()
	seed := int64(envInt("VERIF_SEED", 1))
	n := envInt("VERIF_RACE_CASES", 300)
	g := &G{r: rand.New(rand.NewSource(seed*31 + 7))}
	streams := []string{"wrap", "ws", "paras", "justify", "align", "twocols", "deftable", "table", "edit", "chars", "lines", "hist", "total"}
	var cases []Case
	for i := 0; i < n; i++ {
		s := streams[i%len(streams)]
		cases = append(cases, g.genCase(s, s+"-race-"+strconv.Itoa(i)))
	}
	// shared editors: the same Editor values used by all goroutines at once
	shared := make([]rosed.Editor, 0, 8)
	for i := 0; i < 8; i++ {
		o := g.opts(sepPairs, false)
		e := rosed.Edit(g.text(10, i%2 == 0, "\n", "\n\n"))
		if o != nil {
			e = e.WithOptions(*o)
		}
		shared = append(shared, e.Chars(1, -1)) // sub-editors share their parent copy too
	}
	sharedOps := func(e rosed.Editor) []string {
		return []string{
			obsTok(e.Wrap(7)), obsTok(e.Justify(20)), obsTok(e.Align(rosed.Center, 12)), obsTok(e.Align(rosed.Right, 12)),
			obsTok(e.CollapseSpace()), obsTok(e.Insert(2, "x\u0301")), obsTok(e.Delete(-3, rosed.End)), obsTok(e.Commit()),
			obsTok(e.Lines(0, 1)), obsTok(e.Indent(1)), obsTok(e.InsertTable(0, [][]string{{"a", "b"}, {"c"}}, 20)),
			obsTok(e.InsertTableOpts(0, [][]string{{"h"}, {"c"}}, 9, rosed.Options{TableBorders: true, TableHeaders: true, TableCharSet: "\u0600"})),
			obsTok(e.InsertTwoColumns(0, "left text", "right text here", 2, 20, 0.5)),
			obsTok(e.InsertDefinitionsTable(0, [][2]string{{"t", "def of t"}}, 30)),
			strconv.Itoa(e.CharCount()), strconv.Itoa(e.LineCount()), e.String(),
		}
	}
	// The concurrent phase comes FIRST, before anything has run sequentially in this process, so that
	// lazily initialised package-level state is first touched by racing goroutines.
	const workers = 16
	got := make([][]string, workers)
	gotShared := make([][][]string, workers)
	var wg sync.WaitGroup
	for w := 0; w < workers; w++ {
		wg.Add(1)
		go func(w int) {
			defer wg.Done()
			r := rand.New(rand.NewSource(seed + int64(w)))
			got[w] = make([]string, len(cases))
			gotShared[w] = make([][]string, len(shared))
			for _, i := range r.Perm(len(cases)) {
				got[w][i] = cases[i].run(10 * time.Second)
				j := r.Intn(len(shared))
				gotShared[w][j] = sharedOps(shared[j])
			}
		}(w)
	}
	wg.Wait()
	// sequential reference, afterwards
	for i, c := range cases {
		want := c.run(10 * time.Second)
		for w := 0; w < workers; w++ {
			if got[w][i] != want {
				t.Errorf("case %s: result under concurrency differs from the sequential result", c.ID)
				break
			}
		}
	}
	before := make([]string, len(shared))
	for j, e := range shared {
		before[j] = obsTok(e)
		want := sharedOps(e)
		for w := 0; w < workers; w++ {
			if gotShared[w][j] == nil {
				continue
			}
			for x := range want {
				if gotShared[w][j][x] != want[x] {
					t.Errorf("shared editor %d op %d differs under concurrency", j, x)
				}
			}
		}
	}
	_ = before
	// the package-level zero string is still pristine (needs the accessors into internal/gem)
	checkZeroPristine(t)
}
