(* Conversions between the text formats of the harness and the extracted Coq types. *)
open BinNums
open Datatypes

(* ---- Z <-> text -------------------------------------------------------- *)
let rec pos_of_int n =
  if n = 1 then Coq_xH
  else if n land 1 = 0 then Coq_xO (pos_of_int (n lsr 1))
  else Coq_xI (pos_of_int (n lsr 1))
let z_of_int n = if n = 0 then Z0 else if n > 0 then Zpos (pos_of_int n) else Zneg (pos_of_int (-n))
let zten = z_of_int 10
let z_of_string s =
  let neg = String.length s > 0 && s.[0] = '-' in
  let acc = ref Z0 in
  String.iteri (fun i c -> if not (i = 0 && neg) then
    acc := BinInt.Z.add (BinInt.Z.mul !acc zten) (z_of_int (Char.code c - 48))) s;
  if neg then BinInt.Z.opp !acc else !acc
let rec int_of_pos = function
  | Coq_xH -> 1 | Coq_xO p -> 2 * int_of_pos p | Coq_xI p -> 2 * int_of_pos p + 1
let int_of_z = function Z0 -> 0 | Zpos p -> int_of_pos p | Zneg p -> - (int_of_pos p)
let rec pos_bits = function Coq_xH -> 1 | Coq_xO p | Coq_xI p -> 1 + pos_bits p
let string_of_z z =
  let small p = pos_bits p < 60 in
  match z with
  | Z0 -> "0"
  | Zpos p when small p -> string_of_int (int_of_pos p)
  | Zneg p when small p -> string_of_int (- (int_of_pos p))
  | _ ->
    let neg = (match z with Zneg _ -> true | _ -> false) in
    let z = BinInt.Z.abs z in
    let buf = Buffer.create 24 in
    let rec go z acc = if z = Z0 then acc else
        go (BinInt.Z.div z zten) (string_of_int (int_of_z (BinInt.Z.modulo z zten)) :: acc) in
    Stdlib.List.iter (Buffer.add_string buf) (go z []);
    (if neg then "-" else "") ^ Buffer.contents buf
let rec nat_of_int n = if n <= 0 then O else S (nat_of_int (n - 1))

let bytes_of_tok s =
  if s = "-" then [] else Stdlib.List.map (fun x -> z_of_int (int_of_string x)) (String.split_on_char ',' s)
let tok_of_bytes l =
  if l = [] then "-" else String.concat "," (Stdlib.List.map (fun z -> string_of_int (int_of_z z)) l)
let b01 b = if b then "1" else "0"

let opts_of_tok s : Options.options option =
  if s = "N" then None else
  match String.split_on_char ':' s with
  | [_; ind; ls; nt; ps; pp; jl; tb; th; cs] ->
    Some { Options.o_indent = bytes_of_tok ind; o_linesep = bytes_of_tok ls; o_notrailing = (nt = "1");
           o_parasep = bytes_of_tok ps; o_preserve = (pp = "1"); o_justlast = (jl = "1");
           o_borders = (tb = "1"); o_headers = (th = "1"); o_charset = bytes_of_tok cs }
  | _ -> failwith ("bad options token " ^ s)
let tok_of_opts (o : Options.options) =
  String.concat ":" ["O"; tok_of_bytes o.Options.o_indent; tok_of_bytes o.Options.o_linesep; b01 o.Options.o_notrailing;
                     tok_of_bytes o.Options.o_parasep; b01 o.Options.o_preserve; b01 o.Options.o_justlast;
                     b01 o.Options.o_borders; b01 o.Options.o_headers; tok_of_bytes o.Options.o_charset]

(* ---- implementation observations -------------------------------------- *)
type iobs = { i_text : coq_Z list; i_opts : Options.options; i_sub : bool; i_start : coq_Z; i_end : coq_Z;
              i_string : coq_Z list option; i_chars : coq_Z; i_lines : coq_Z }
let parse_obs tok : iobs option =
  let first = Stdlib.List.hd (String.split_on_char ';' tok) in
  let rec strip s =
    if String.length s >= 2 && String.sub s 0 2 = "ND" then strip (String.sub s 2 (String.length s - 2))
    else if String.length s >= 3 && String.sub s 0 3 = "MUT" then strip (String.sub s 3 (String.length s - 3))
    else s in
  let first = strip first in
  match String.split_on_char '|' first with
  | ["K"; text; opts; sub; s; e; str; ch; ln] ->
    (match opts_of_tok opts with
     | Some o -> Some { i_text = bytes_of_tok text; i_opts = o; i_sub = (sub = "1"); i_start = z_of_string s;
                        i_end = z_of_string e; i_string = (if str = "P" then None else Some (bytes_of_tok str));
                        i_chars = z_of_string ch; i_lines = z_of_string ln }
     | None -> None)
  | _ -> None

