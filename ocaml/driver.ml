(* Correspondence driver: reads the case file written by the Go harness and the
   implementation's results, runs the model extracted from Coq on the same
   cases, compares every observation, and evaluates the property checkers
   (also extracted from Coq) on the implementation's outputs.

   Output, one line per fact:
     <id> OK                          model and implementation agree on every step
     <id> DIFF <step> <model-token>   first step at which they differ
     <id> V <prop> <guard> <impl> <model>   verdicts of check_<prop> (0/1) *)

open BinNums
open Datatypes

open Conv

(* ---- case parsing ------------------------------------------------------ *)
type case = { id : string; stream : string; flags : int; pool : coq_Z list list; steps : (int * Hist.op) list }

let parse_case line =
  let t = Array.of_list (Stdlib.List.filter (fun s -> s <> "") (String.split_on_char ' ' line)) in
  let i = ref 0 in
  let next () = let s = t.(!i) in incr i; s in
  let int () = int_of_string (next ()) in
  let z () = z_of_string (next ()) in
  let str () = bytes_of_tok (next ()) in
  let opts () = opts_of_tok (next ()) in
  let id = next () in let stream = next () in let flags = int () in
  let np = int () in
  let pool = Stdlib.List.init np (fun _ -> str ()) in
  let ns = int () in
  let steps = Stdlib.List.init ns (fun _ ->
    let recv = int () in
    let name = next () in
    let op = match name with
      | "chars" -> let a = z () in let b = z () in Hist.OChars (a, b)
      | "charsfrom" -> Hist.OCharsFrom (z ())
      | "charsto" -> Hist.OCharsTo (z ())
      | "lines" -> let a = z () in let b = z () in Hist.OLines (a, b)
      | "linesfrom" -> Hist.OLinesFrom (z ())
      | "linesto" -> Hist.OLinesTo (z ())
      | "commit" -> Hist.OCommit
      | "commitall" -> Hist.OCommitAll
      | "withopts" -> (match opts () with Some o -> Hist.OWithOptions o | None -> failwith "withopts N")
      | "insert" -> let p = z () in let s = str () in Hist.OInsert (p, s)
      | "delete" -> let a = z () in let b = z () in Hist.ODelete (a, b)
      | "overtype" -> let p = z () in let s = str () in Hist.OOvertype (p, s)
      | "wrap" -> let w = z () in let o = opts () in Hist.OWrap (w, o)
      | "justify" -> let w = z () in let o = opts () in Hist.OJustify (w, o)
      | "align" -> let a = z () in let w = z () in let o = opts () in Hist.OAlign (a, w, o)
      | "collapse" -> Hist.OCollapse (opts ())
      | "indent" -> let l = z () in let o = opts () in Hist.OIndent (l, o)
      | "apply" -> let k = z () in let o = opts () in Hist.OApply (k, o)
      | "applyparas" -> let k = z () in let o = opts () in Hist.OApplyParas (k, o)
      | "twocols" ->
        let pos = z () in let l = str () in let r = str () in let gap = z () in let w = z () in
        let m = z () in let e = z () in let o = opts () in
        Hist.OTwoCols (pos, l, r, gap, w, m, e, o)
      | "deftable" ->
        let pos = z () in let k = int () in
        let defs = Stdlib.List.init k (fun _ -> let a = str () in let b = str () in (a, b)) in
        let w = z () in let o = opts () in Hist.ODefTable (pos, defs, w, o)
      | "table" ->
        let pos = z () in let rows = int () in
        let data = Stdlib.List.init rows (fun _ -> let c = int () in Stdlib.List.init c (fun _ -> str ())) in
        let w = z () in let o = opts () in Hist.OTable (pos, data, w, o)
      | _ -> failwith ("unknown op " ^ name) in
    (recv, op)) in
  { id; stream; flags; pool; steps }

(* ---- running the model ------------------------------------------------- *)
let cls = Go.coq_GoClassifier
let upp = GoUpper.coq_GoUpper

let obs_tok (e : Editor.editor) =
  let o = Hist.observe cls e in
  let str = match o.Hist.ob_string with Res.Ok s -> tok_of_bytes s | _ -> "P" in
  String.concat "|" ["K"; tok_of_bytes o.Hist.ob_text; tok_of_opts o.Hist.ob_opts; b01 o.Hist.ob_sub;
                     string_of_z o.Hist.ob_start; string_of_z o.Hist.ob_end; str;
                     string_of_z o.Hist.ob_chars; string_of_z o.Hist.ob_lines]

(* one token per step, computed like the Go harness does *)
let run_model (c : case) : string list * (Editor.editor * Hist.op * Editor.editor Res.coq_Res) list =
  let pool = ref (Array.of_list (Stdlib.List.map Editor.edit c.pool)) in
  let trace = ref [] in
  let toks = Stdlib.List.map (fun (recv, op) ->
    if recv >= Array.length !pool then "P" else begin
      let e = (!pool).(recv) in
      let r = Hist.run_op cls upp e op in
      trace := (e, op, r) :: !trace;
      let (tok, nxt) = match r with
        | Res.Ok e' -> (obs_tok e', e')
        | Res.Panic _ -> ("P", e)
        | Res.OutOfFuel -> ("F", e) in
      pool := Array.append !pool [| nxt |];
      if c.flags land 1 <> 0 then
        tok ^ ";" ^ String.concat ";" (Array.to_list (Array.map obs_tok !pool))
      else tok
    end) c.steps in
  (toks, Stdlib.List.rev !trace)

let () =
  let cases_path = Sys.argv.(1) and res_path = Sys.argv.(2) in
  let ic = open_in cases_path and ir = open_in res_path in
  (try
     while true do
       let cl = input_line ic in
       let rl = input_line ir in
       if String.trim cl <> "" then begin
         let c = parse_case cl in
         let rt = Stdlib.List.filter (fun s -> s <> "") (String.split_on_char ' ' rl) in
         (match rt with
          | rid :: impl ->
            if rid <> c.id then failwith ("id mismatch " ^ rid ^ " vs " ^ c.id);
            let (model, trace) = run_model c in
            let rec cmp k ms is = match ms, is with
              | [], [] -> Printf.printf "%s OK\n" c.id
              | m :: ms', i :: is' -> if m = i then cmp (k + 1) ms' is' else Printf.printf "%s DIFF %d %s\n" c.id k m
              | m :: _, [] -> Printf.printf "%s DIFF %d %s\n" c.id k m
              | [], _ :: _ -> Printf.printf "%s DIFF %d -\n" c.id k in
            cmp 0 model impl;
            Verdicts.emit c.id c.stream trace c.pool (Stdlib.List.map fst c.steps) (Stdlib.List.map parse_obs impl) impl
          | [] -> failwith "empty result line")
       end
     done
   with End_of_file -> ());
  close_in ic; close_in ir
