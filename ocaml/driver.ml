(* Correspondence driver: reads the case file written by the Go harness and the
   implementation's results, runs the model extracted from Coq on the same
   cases, compares every observation, and evaluates the property checkers
   (also extracted from Coq) on the implementation's outputs.

   Output, one line per fact:
     <id> OK                          model and implementation agree on every step
     <id> DIFF <step> <op> <R|S|P> <model-token>   first step at which they differ (R: the step's
       result; S: only what String() shows of the result; P: only the re-observed pool)
     <id> V <prop> <guard> <impl> <model>   verdicts of check_<prop> (0/1) *)

open BinNums
open Datatypes

open Conv

(* ---- case parsing ------------------------------------------------------ *)
type case = { id : string; stream : string; flags : int; pool : coq_Z list list; steps : (int * Hist.op) list }

let parse_case line =
  let t = Array.of_list (Stdlib.List.filter (fun s -> s <> "") (String.split_on_char ' ' line)) in
  let i = ref 0 in
  let next () = let s = t.(!i) in incr i; s in
  let int () = int_of_string (next ()) in
  let z () = z_of_string (next ()) in
  let str () = bytes_of_tok (next ()) in
  let opts () = opts_of_tok (next ()) in
  let id = next () in let stream = next () in let flags = int () in
  let np = int () in
  let pool = Stdlib.List.init np (fun _ -> str ()) in
  let ns = int () in
  let steps = Stdlib.List.init ns (fun _ ->
    let recv = int () in
    let name = next () in
    let op = match name with
      | "chars" -> let a = z () in let b = z () in Hist.OChars (a, b)
      | "charsfrom" -> Hist.OCharsFrom (z ())
      | "charsto" -> Hist.OCharsTo (z ())
      | "lines" -> let a = z () in let b = z () in Hist.OLines (a, b)
      | "linesfrom" -> Hist.OLinesFrom (z ())
      | "linesto" -> Hist.OLinesTo (z ())
      | "commit" -> Hist.OCommit
      | "commitall" -> Hist.OCommitAll
      | "withopts" -> (match opts () with Some o -> Hist.OWithOptions o | None -> failwith "withopts N")
      | "insert" -> let p = z () in let s = str () in Hist.OInsert (p, s)
      | "delete" -> let a = z () in let b = z () in Hist.ODelete (a, b)
      | "overtype" -> let p = z () in let s = str () in Hist.OOvertype (p, s)
      | "wrap" -> let w = z () in let o = opts () in Hist.OWrap (w, o)
      | "justify" -> let w = z () in let o = opts () in Hist.OJustify (w, o)
      | "align" -> let a = z () in let w = z () in let o = opts () in Hist.OAlign (a, w, o)
      | "collapse" -> Hist.OCollapse (opts ())
      | "indent" -> let l = z () in let o = opts () in Hist.OIndent (l, o)
      | "apply" -> let k = z () in let o = opts () in Hist.OApply (k, o)
      | "applyparas" -> let k = z () in let o = opts () in Hist.OApplyParas (k, o)
      | "twocols" ->
        let pos = z () in let l = str () in let r = str () in let gap = z () in let w = z () in
        let m = z () in let e = z () in let o = opts () in
        Hist.OTwoCols (pos, l, r, gap, w, m, e, o)
      | "deftable" ->
        let pos = z () in let k = int () in
        let defs = Stdlib.List.init k (fun _ -> let a = str () in let b = str () in (a, b)) in
        let w = z () in let o = opts () in Hist.ODefTable (pos, defs, w, o)
      | "table" ->
        let pos = z () in let rows = int () in
        let data = Stdlib.List.init rows (fun _ -> let c = int () in Stdlib.List.init c (fun _ -> str ())) in
        let w = z () in let o = opts () in Hist.OTable (pos, data, w, o)
      | _ -> failwith ("unknown op " ^ name) in
    (recv, op)) in
  { id; stream; flags; pool; steps }

let op_name (op : Hist.op) = match op with
  | Hist.OChars _ -> "chars" | Hist.OCharsFrom _ -> "charsfrom" | Hist.OCharsTo _ -> "charsto"
  | Hist.OLines _ -> "lines" | Hist.OLinesFrom _ -> "linesfrom" | Hist.OLinesTo _ -> "linesto"
  | Hist.OCommit -> "commit" | Hist.OCommitAll -> "commitall" | Hist.OWithOptions _ -> "withopts"
  | Hist.OInsert _ -> "insert" | Hist.ODelete _ -> "delete" | Hist.OOvertype _ -> "overtype"
  | Hist.OWrap _ -> "wrap" | Hist.OJustify _ -> "justify" | Hist.OAlign _ -> "align" | Hist.OCollapse _ -> "collapse"
  | Hist.OIndent _ -> "indent" | Hist.OApply _ -> "apply" | Hist.OApplyParas _ -> "applyparas"
  | Hist.OTwoCols _ -> "twocols" | Hist.ODefTable _ -> "deftable" | Hist.OTable _ -> "table"

(* ---- running the model ------------------------------------------------- *)
let cls = Go.coq_GoClassifier
let upp = GoUpper.coq_GoUpper

let obs_tok (e : Editor.editor) =
  let o = Hist.observe cls e in
  let str = match o.Hist.ob_string with Res.Ok s -> tok_of_bytes s | _ -> "P" in
  String.concat "|" ["K"; tok_of_bytes o.Hist.ob_text; tok_of_opts o.Hist.ob_opts; b01 o.Hist.ob_sub;
                     string_of_z o.Hist.ob_start; string_of_z o.Hist.ob_end; str;
                     string_of_z o.Hist.ob_chars; string_of_z o.Hist.ob_lines]

(* one token per step, computed like the Go harness does *)
let run_model (c : case) : string list * (Editor.editor * Hist.op * Editor.editor Res.coq_Res) list =
  let pool = ref (Array.of_list (Stdlib.List.map Editor.edit c.pool)) in
  let trace = ref [] in
  let toks = Stdlib.List.map (fun (recv, op) ->
    if recv >= Array.length !pool then "P" else begin
      let e = (!pool).(recv) in
      let r = Hist.run_op cls upp e op in
      trace := (e, op, r) :: !trace;
      let (tok, nxt) = match r with
        | Res.Ok e' -> (obs_tok e', e')
        | Res.Panic _ -> ("P", e)
        | Res.OutOfFuel -> ("F", e) in
      pool := Array.append !pool [| nxt |];
      if c.flags land 1 <> 0 then
        tok ^ ";" ^ String.concat ";" (Array.to_list (Array.map obs_tok !pool))
      else tok
    end) c.steps in
  (toks, Stdlib.List.rev !trace)

(* ---- special modes ------------------------------------------------------ *)
let ints_of_tok s = if s = "-" then [] else Stdlib.List.map int_of_string (String.split_on_char ',' s)

(* split FILE: lines "runes ends sba-bits charcount" from the harness; compares
   with Break.split on the classes (the function the C01 theorems are about),
   with the one-pass cluster list of the executable model, and with CharCount *)
let mode_split path =
  let ic = open_in path in
  let n = ref 0 and bad = ref 0 in
  (try while true do
       let l = input_line ic in
       (match String.split_on_char ' ' l with
        | [rt; et; bt; cc] ->
          incr n;
          let rs = Stdlib.List.map z_of_int (ints_of_tok rt) in
          let ends = ints_of_tok et in
          let model = Stdlib.List.map (fun x -> let rec f = function O -> 0 | S k -> 1 + f k in f x)
              (Segment.split_runes cls rs) in
          let cl = Segment.clusters cls rs in
          let run = Stdlib.List.rev (snd (Stdlib.List.fold_left (fun (i, acc) c -> let j = i + Stdlib.List.length c in (j, j :: acc)) (0, []) cl)) in
          let bits = String.concat "" (Stdlib.List.mapi (fun i _ -> if Stdlib.List.mem (i + 1) model then "1" else "0") rs) in
          let bits = if rs = [] then "-" else bits in
          let ccm = int_of_string cc in
          if model <> ends || run <> ends || bits <> bt || (ccm >= 0 && ccm <> Stdlib.List.length ends) then begin
            incr bad;
            if !bad <= 20 then Printf.printf "SPLITDIFF %s impl=%s model=%s sba=%s count=%s\n" rt et
                (String.concat "," (Stdlib.List.map string_of_int model)) bt cc
          end
        | _ -> ())
     done with End_of_file -> ());
  close_in ic;
  Printf.printf "SPLIT %d %d\n" !n !bad

(* gemhist FILE: histories over a pool of gem.String values; after every step the
   result and a snapshot of every pool value (runes, cache cell up to renaming,
   nil-ness, contents) must equal the heap model's (Gem/GHeap.v) *)
let nat_to_int x = let rec f acc = function O -> acc | S k -> f (acc + 1) k in f 0 x
let mode_gemhist path =
  let ic = open_in path in
  let n = ref 0 and bad = ref 0 and steps_total = ref 0 in
  let rtok rs = if rs = [] then "-" else String.concat "," (Stdlib.List.map (fun z -> string_of_z z) rs) in
  let itok xs = if xs = [] then "-" else String.concat "," (Stdlib.List.map (fun x -> string_of_int (nat_to_int x)) xs) in
  let snapshot (h : GHeap.heap) (pool : GHeap.gval list) =
    let ids = Hashtbl.create 16 in
    let parts = Stdlib.List.map (fun (v : GHeap.gval) ->
        let c, cont = (match v.GHeap.g_c with
            | None -> "z", None
            | Some l -> let li = nat_to_int l in
              let id = (match Hashtbl.find_opt ids li with Some i -> i | None -> let i = Hashtbl.length ids in Hashtbl.add ids li i; i) in
              string_of_int id, GHeap.rd h l) in
        rtok v.GHeap.g_r ^ "/" ^ c ^ "/" ^ (match cont with None -> "n" | Some _ -> "f") ^ "/" ^
        (match cont with None -> "-" | Some e -> itok e)) pool in
    if parts = [] then "-" else String.concat ";" parts in
  (try while true do
       let l = input_line ic in
       (match String.index_opt l '#' with
        | Some k ->
          incr n;
          let left = Stdlib.List.filter (fun s -> s <> "") (String.split_on_char ' ' (String.sub l 0 k)) in
          let right = Stdlib.List.filter (fun s -> s <> "") (String.split_on_char ' ' (String.sub l (k + 1) (String.length l - k - 1))) in
          let t = Array.of_list left in
          let i = ref 2 in
          let next () = let s = t.(!i) in incr i; s in
          let nat () = nat_of_int (int_of_string (next ())) in
          let z () = z_of_string (next ()) in
          let runes () = let s = next () in if s = "-" then [] else Stdlib.List.map z_of_string (String.split_on_char ',' s) in
          let nsteps = int_of_string t.(1) in
          let ops = Stdlib.List.init nsteps (fun _ ->
              match next () with
              | "new" -> GHeap.GNew (runes ())
              | "zero" -> GHeap.GZero
              | "zv" -> GHeap.GZeroValue
              | "copy" -> GHeap.GCopy (nat ())
              | "add" -> let a = nat () in let b = nat () in GHeap.GAdd (a, b)
              | "sub" -> let a = nat () in let x = z () in let y = z () in GHeap.GSub (a, x, y)
              | "set" -> let a = nat () in let x = z () in let r = runes () in GHeap.GSetCharAt (a, x, r)
              | "rep" -> let a = nat () in let x = z () in GHeap.GRepeat (a, x)
              | "charat" -> let a = nat () in let x = z () in GHeap.GCharAt (a, x)
              | "len" -> GHeap.GLen (nat ())
              | "runes" -> GHeap.GRunes (nat ())
              | "idx" -> GHeap.GIndexes (nat ())
              | "rev" -> GHeap.GReverse (nat ())
              | o -> failwith ("gem op " ^ o)) in
          let res = GHeap.grun cls (GHeap.heap0, []) ops in
          let toks = Stdlib.List.map (fun (((h, pool), out) : (GHeap.heap * GHeap.gval list) * GHeap.gout) ->
              let o = (match out with
                  | GHeap.OutNone -> "N" | GHeap.OutPanic -> "P"
                  | GHeap.OutRunes rs -> "R" ^ rtok rs
                  | GHeap.OutInt z -> "I" ^ string_of_z z
                  | GHeap.OutPairs ps -> if ps = [] then "X-" else
                      "X" ^ String.concat "," (Stdlib.List.map (fun (a, b) -> Printf.sprintf "%d:%d" (nat_to_int a) (nat_to_int b)) ps)) in
              o ^ "|" ^ snapshot h pool) res in
          steps_total := !steps_total + nsteps;
          (* the property itself, judged on the implementation's snapshots: operands never change, a filled
             cache holds exactly the boundaries of the content (except in values made by Reverse, which
             installs mirrored boundaries on purpose), observers answer as a fresh value would *)
          (let prev = ref [||] in
           let reversed = ref [||] in
           let fails = ref [] in
           Stdlib.List.iteri (fun k (op, tok) ->
               match String.index_opt tok '|' with
               | None -> ()
               | Some b ->
                 let out = String.sub tok 0 b in
                 let snap = String.sub tok (b + 1) (String.length tok - b - 1) in
                 let vals = if snap = "-" then [||] else Array.of_list (Stdlib.List.map (fun v -> Array.of_list (String.split_on_char '/' v)) (String.split_on_char ';' snap)) in
                 Array.iteri (fun j old -> if j < Array.length vals && vals.(j).(0) <> old.(0) then fails := (k, "operand " ^ string_of_int j ^ " altered") :: !fails) !prev;
                 let nrev = Array.make (Array.length vals) false in
                 Array.blit !reversed 0 nrev 0 (min (Array.length !reversed) (Array.length nrev));
                 if Array.length vals > Array.length !prev then begin
                   let j = Array.length vals - 1 in
                   (match op with
                    | GHeap.GReverse _ -> nrev.(j) <- true
                    | GHeap.GCopy i | GHeap.GSub (i, _, _) -> let i = nat_to_int i in if i < Array.length !reversed then nrev.(j) <- (!reversed).(i)
                    | _ -> ())
                 end;
                 reversed := nrev;
                 let fresh_ends v = itok (Segment.split_runes cls (if v = "-" then [] else Stdlib.List.map z_of_string (String.split_on_char ',' v))) in
                 Array.iteri (fun j v -> if Array.length v = 4 && v.(2) = "f" && not nrev.(j) && v.(3) <> fresh_ends v.(0) then
                                 fails := (k, "stale cache in value " ^ string_of_int j) :: !fails) vals;
                 (match op with
                  | GHeap.GLen i ->
                    let i = nat_to_int i in
                    if i < Array.length vals && not nrev.(i) && out <> "P" then begin
                      let e = fresh_ends vals.(i).(0) in
                      let cnt = if e = "-" then 0 else Stdlib.List.length (String.split_on_char ',' e) in
                      if out <> "I" ^ string_of_int cnt then fails := (k, "Len differs from a fresh value") :: !fails end
                  | _ -> ());
                 prev := vals) (Stdlib.List.combine ops right);
           Stdlib.List.iter (fun (k, what) -> Printf.printf "GEMFAIL %s step=%d %s\n" t.(0) k (String.concat "_" (String.split_on_char ' ' what))) (Stdlib.List.rev !fails));
          if toks <> right then begin
            incr bad;
            if !bad <= 10 then begin
              let rec first k a b = match a, b with
                | x :: a', y :: b' -> if x = y then first (k + 1) a' b' else (k, x, y)
                | _ -> (k, "-", "-") in
              let (k, m, g) = first 0 toks right in
              Printf.printf "GEMDIFF %s step=%d model=%s impl=%s\n" t.(0) k m g
            end
          end
        | None -> ())
     done with End_of_file -> ());
  close_in ic;
  Printf.printf "GEMHIST %d %d %d\n" !n !bad !steps_total


(* manip FILE: direct calls of the text-level functions (harness/manip.go) recomputed with the model *)
let mode_manip path =
  let ic = open_in path in
  let n = ref 0 and bad = ref 0 in
  let dec t = Utf8.decode (bytes_of_tok t) in
  let enc rs = tok_of_bytes (Utf8.encode rs) in
  let list_of_tok t = if t = "~" then [] else Stdlib.List.map dec (String.split_on_char ';' t) in
  let tok_of_list l = if l = [] then "~" else String.concat ";" (Stdlib.List.map enc l) in
  let mat_of_tok t = if t = "~" then [] else Stdlib.List.map list_of_tok (String.split_on_char '/' t) in
  let res f = (match f () with Res.Ok x -> x | _ -> "P") in
  (try while true do
       let l = input_line ic in
       (match String.split_on_char ' ' l with
        | id :: kind :: rest ->
          let rec split_at acc = function
            | "=>" :: [r] -> (Stdlib.List.rev acc, r)
            | x :: tl -> split_at (x :: acc) tl
            | [] -> (Stdlib.List.rev acc, "?") in
          let (args, impl) = split_at [] rest in
          let model =
            (match kind, args with
             | "CS", [t; sep] -> res (fun () -> Res.bind (Manip.collapse_space cls (dec t) (dec sep)) (fun r -> Res.Ok (enc r)))
             | "WR", [t; w; sep] -> res (fun () -> Res.bind (Manip.wrap cls (dec t) (z_of_string w) (dec sep)) (fun b -> Res.Ok (tok_of_list b.Tb.b_lines)))
             | "JL", [t; w] -> res (fun () -> Res.bind (Manip.justify_line cls (dec t) (z_of_string w)) (fun r -> Res.Ok (enc r)))
             | "AL", [k; t; w] ->
               let f = (match k with "0" -> Manip.align_left | "1" -> Manip.align_right | _ -> Manip.align_center) in
               enc (f cls (dec t) (z_of_string w))
             | "CC", [lt; rt; gap] ->
               let blk l = { Tb.b_lines = list_of_tok l; Tb.b_sep = []; Tb.b_trailing = false } in
               res (fun () -> Res.bind (Manip.combine_column_blocks cls (blk lt) (blk rt) (z_of_string gap)) (fun b -> Res.Ok (tok_of_list b.Tb.b_lines)))
             | "MT", [d; w; sep; hd; bd; cs] ->
               tok_of_list (Table.make_table cls upp (mat_of_tok d) (z_of_string w) (dec sep) (hd = "1") (bd = "1") (dec cs)).Tb.b_lines
             | "RI", [sz; s; e] ->
               let (a, b) = Util.range_to_indexes (z_of_string sz) (z_of_string s) (z_of_string e) in
               string_of_z a ^ "," ^ string_of_z b
             | _ -> "?") in
          incr n;
          if model <> impl then begin
            incr bad; if !bad <= 20 then Printf.printf "MANIPDIFF %s %s impl=%s model=%s\n" id kind impl model end
        | _ -> ())
     done with End_of_file -> ());
  close_in ic;
  Printf.printf "MANIP %d %d\n" !n !bad

(* probes FILE: first line "CTX n pre suf ...", then "value signature" lines; the model's signature
   (break bits between all adjacent positions and cluster count, per probe context) depends on the
   value only through its class, so it is computed once per class *)
let mode_probes path =
  let ic = open_in path in
  let n = ref 0 and bad = ref 0 in
  let ctx = ref [] in
  let cache = Hashtbl.create 16 in
  let runes s = if s = "-" then [] else Stdlib.List.map z_of_string (String.split_on_char ',' s) in
  let model_sig r =
    String.concat "" (Stdlib.List.map (fun (pre, suf) ->
        let rs = pre @ [r] @ suf in
        let ends = Stdlib.List.map nat_to_int (Segment.split_runes cls rs) in
        let len = Stdlib.List.length rs in
        let bits = String.concat "" (Stdlib.List.init (len - 1) (fun i -> if Stdlib.List.mem (i + 1) ends then "1" else "0")) in
        bits ^ string_of_int (Stdlib.List.length ends) ^ ".") !ctx) in
  (try while true do
       let l = input_line ic in
       (match String.split_on_char ' ' l with
        | "CTX" :: _ :: rest ->
          let rec pairs = function a :: b :: tl -> (runes a, runes b) :: pairs tl | _ -> [] in
          ctx := pairs rest
        | [rt; sg] ->
          incr n;
          let r = z_of_string rt in
          let c = Go.go_class_of r in
          let expect = (match Hashtbl.find_opt cache c with
              | Some e -> e
              | None -> let e = model_sig r in Hashtbl.add cache c e; e) in
          if expect <> sg then begin
            incr bad; if !bad <= 20 then Printf.printf "PROBEDIFF %s impl=%s model=%s\n" rt sg expect end
        | _ -> ())
     done with End_of_file -> ());
  close_in ic;
  Printf.printf "PROBES %d %d\n" !n !bad

(* sweepcls FILE: lines "value bits"; the class the model's decision tree gives
   must be the class the implementation's predicate bits give *)
let mode_sweepcls path =
  let ic = open_in path in
  let n = ref 0 and bad = ref 0 in
  (try while true do
       let l = input_line ic in
       (match String.split_on_char ' ' l with
        | [rt; bt] ->
          incr n;
          let r = z_of_string rt in
          let b = int_of_string bt in
          let bl = Stdlib.List.init 14 (fun i -> b land (1 lsl i) <> 0) in
          if Go.class_of_bits bl <> Go.go_class_of r then begin
            incr bad; if !bad <= 20 then Printf.printf "CLSDIFF %s %s\n" rt bt end
        | _ -> ())
     done with End_of_file -> ());
  close_in ic;
  Printf.printf "SWEEPCLS %d %d\n" !n !bad

let mode_cases cases_path res_path =
  let ic = open_in cases_path and ir = open_in res_path in
  (try
     while true do
       let cl = input_line ic in
       let rl = input_line ir in
       if String.trim cl <> "" then begin
         let c = parse_case cl in
         let rt = Stdlib.List.filter (fun s -> s <> "") (String.split_on_char ' ' rl) in
         (match rt with
          | rid :: impl ->
            if rid <> c.id then failwith ("id mismatch " ^ rid ^ " vs " ^ c.id);
            let (model, trace) = run_model c in
            (* a harness built without the accessor for the parent reference prints "?" for the byte range of
               a sub-editor: those fields are taken from the model's observation, so that the comparison and
               the verdicts judge the implementation's text against the model's range *)
            let patch m i =
              if not (String.contains i '?') then i else begin
                let ms = String.split_on_char ';' m and is = String.split_on_char ';' i in
                if Stdlib.List.length ms <> Stdlib.List.length is then i else
                  String.concat ";" (Stdlib.List.map2 (fun mo io ->
                    let mf = String.split_on_char '|' mo and f = String.split_on_char '|' io in
                    if Stdlib.List.length mf <> Stdlib.List.length f then io
                    else String.concat "|" (Stdlib.List.map2 (fun a b -> if b = "?" then a else b) mf f)) ms is)
              end in
            let impl = (let rec go ms is = match ms, is with
                          | m :: ms', i :: is' -> patch m i :: go ms' is'
                          | _, is -> is in go model impl) in
            (* DIFF lines name the operation of the first differing step and whether the step's own result (R) or
               only the re-observation of earlier pool entries (P) differs *)
            let opname k = (match Stdlib.List.nth_opt c.steps k with Some (_, op) -> op_name op | None -> "?") in
            let kind m i =
              let first s = Stdlib.List.hd (String.split_on_char ';' s) in
              if first m = first i then "P" else begin
                (* S: the step's own result differs only in what String() (= CommitAll) shows of it:
                   its text, options and parent reference agree *)
                let fm = Array.of_list (String.split_on_char '|' (first m))
                and fi = Array.of_list (String.split_on_char '|' (first i)) in
                if Array.length fm = 9 && Array.length fi = 9 && fm.(6) <> fi.(6)
                   && (let same = ref true in
                       Array.iteri (fun k x -> if k <> 6 && x <> fi.(k) then same := false) fm; !same)
                then "S" else "R"
              end in
            let rec cmp k ms is = match ms, is with
              | [], [] -> Printf.printf "%s OK\n" c.id
              | m :: ms', i :: is' -> if m = i then cmp (k + 1) ms' is' else Printf.printf "%s DIFF %d %s %s %s\n" c.id k (opname k) (kind m i) m
              | m :: _, [] -> Printf.printf "%s DIFF %d %s R %s\n" c.id k (opname k) m
              | [], _ :: _ -> Printf.printf "%s DIFF %d %s R -\n" c.id k (opname k) in
            cmp 0 model impl;
            Verdicts.emit c.id c.stream trace c.pool (Stdlib.List.map fst c.steps) (Stdlib.List.map parse_obs impl) impl
          | [] -> failwith "empty result line")
       end
     done
   with End_of_file -> ());
  close_in ic; close_in ir

let () =
  match Array.to_list Sys.argv with
  | [_; "split"; p] -> mode_split p
  | [_; "sweepcls"; p] -> mode_sweepcls p
  | [_; "gemhist"; p] -> mode_gemhist p
  | [_; "probes"; p] -> mode_probes p
  | [_; "manip"; p] -> mode_manip p
  | [_; c; r] -> mode_cases c r
  | _ -> prerr_endline "usage: driver CASES RESULTS | driver split FILE | driver sweepcls FILE"; exit 2
