(* Correspondence driver: reads the case file written by the Go harness and the
   implementation's results, runs the model extracted from Coq on the same
   cases, compares every observation, and evaluates the property checkers
   (also extracted from Coq) on the implementation's outputs.

   Output, one line per fact:
     <id> OK                          model and implementation agree on every step
     <id> DIFF <step> <model-token>   first step at which they differ
     <id> V <prop> <guard> <impl> <model>   verdicts of check_<prop> (0/1) *)

open BinNums
open Datatypes

open Conv

(* ---- case parsing ------------------------------------------------------ *)
type case = { id : string; stream : string; flags : int; pool : coq_Z list list; steps : (int * Hist.op) list }

let parse_case line =
  let t = Array.of_list (Stdlib.List.filter (fun s -> s <> "") (String.split_on_char ' ' line)) in
  let i = ref 0 in
  let next () = let s = t.(!i) in incr i; s in
  let int () = int_of_string (next ()) in
  let z () = z_of_string (next ()) in
  let str () = bytes_of_tok (next ()) in
  let opts () = opts_of_tok (next ()) in
  let id = next () in let stream = next () in let flags = int () in
  let np = int () in
  let pool = Stdlib.List.init np (fun _ -> str ()) in
  let ns = int () in
  let steps = Stdlib.List.init ns (fun _ ->
    let recv = int () in
    let name = next () in
    let op = match name with
      | "chars" -> let a = z () in let b = z () in Hist.OChars (a, b)
      | "charsfrom" -> Hist.OCharsFrom (z ())
      | "charsto" -> Hist.OCharsTo (z ())
      | "lines" -> let a = z () in let b = z () in Hist.OLines (a, b)
      | "linesfrom" -> Hist.OLinesFrom (z ())
      | "linesto" -> Hist.OLinesTo (z ())
      | "commit" -> Hist.OCommit
      | "commitall" -> Hist.OCommitAll
      | "withopts" -> (match opts () with Some o -> Hist.OWithOptions o | None -> failwith "withopts N")
      | "insert" -> let p = z () in let s = str () in Hist.OInsert (p, s)
      | "delete" -> let a = z () in let b = z () in Hist.ODelete (a, b)
      | "overtype" -> let p = z () in let s = str () in Hist.OOvertype (p, s)
      | "wrap" -> let w = z () in let o = opts () in Hist.OWrap (w, o)
      | "justify" -> let w = z () in let o = opts () in Hist.OJustify (w, o)
      | "align" -> let a = z () in let w = z () in let o = opts () in Hist.OAlign (a, w, o)
      | "collapse" -> Hist.OCollapse (opts ())
      | "indent" -> let l = z () in let o = opts () in Hist.OIndent (l, o)
      | "apply" -> let k = z () in let o = opts () in Hist.OApply (k, o)
      | "applyparas" -> let k = z () in let o = opts () in Hist.OApplyParas (k, o)
      | "twocols" ->
        let pos = z () in let l = str () in let r = str () in let gap = z () in let w = z () in
        let m = z () in let e = z () in let o = opts () in
        Hist.OTwoCols (pos, l, r, gap, w, m, e, o)
      | "deftable" ->
        let pos = z () in let k = int () in
        let defs = Stdlib.List.init k (fun _ -> let a = str () in let b = str () in (a, b)) in
        let w = z () in let o = opts () in Hist.ODefTable (pos, defs, w, o)
      | "table" ->
        let pos = z () in let rows = int () in
        let data = Stdlib.List.init rows (fun _ -> let c = int () in Stdlib.List.init c (fun _ -> str ())) in
        let w = z () in let o = opts () in Hist.OTable (pos, data, w, o)
      | _ -> failwith ("unknown op " ^ name) in
    (recv, op)) in
  { id; stream; flags; pool; steps }

(* ---- running the model ------------------------------------------------- *)
let cls = Go.coq_GoClassifier
let upp = GoUpper.coq_GoUpper

let obs_tok (e : Editor.editor) =
  let o = Hist.observe cls e in
  let str = match o.Hist.ob_string with Res.Ok s -> tok_of_bytes s | _ -> "P" in
  String.concat "|" ["K"; tok_of_bytes o.Hist.ob_text; tok_of_opts o.Hist.ob_opts; b01 o.Hist.ob_sub;
                     string_of_z o.Hist.ob_start; string_of_z o.Hist.ob_end; str;
                     string_of_z o.Hist.ob_chars; string_of_z o.Hist.ob_lines]

(* one token per step, computed like the Go harness does *)
let run_model (c : case) : string list * (Editor.editor * Hist.op * Editor.editor Res.coq_Res) list =
  let pool = ref (Array.of_list (Stdlib.List.map Editor.edit c.pool)) in
  let trace = ref [] in
  let toks = Stdlib.List.map (fun (recv, op) ->
    if recv >= Array.length !pool then "P" else begin
      let e = (!pool).(recv) in
      let r = Hist.run_op cls upp e op in
      trace := (e, op, r) :: !trace;
      let (tok, nxt) = match r with
        | Res.Ok e' -> (obs_tok e', e')
        | Res.Panic _ -> ("P", e)
        | Res.OutOfFuel -> ("F", e) in
      pool := Array.append !pool [| nxt |];
      if c.flags land 1 <> 0 then
        tok ^ ";" ^ String.concat ";" (Array.to_list (Array.map obs_tok !pool))
      else tok
    end) c.steps in
  (toks, Stdlib.List.rev !trace)

(* ---- special modes ------------------------------------------------------ *)
let ints_of_tok s = if s = "-" then [] else Stdlib.List.map int_of_string (String.split_on_char ',' s)

(* split FILE: lines "runes ends sba-bits charcount" from the harness; compares
   with Break.split on the classes (the function the C01 theorems are about),
   with the one-pass cluster list of the executable model, and with CharCount *)
let mode_split path =
  let ic = open_in path in
  let n = ref 0 and bad = ref 0 in
  (try while true do
       let l = input_line ic in
       (match String.split_on_char ' ' l with
        | [rt; et; bt; cc] ->
          incr n;
          let rs = Stdlib.List.map z_of_int (ints_of_tok rt) in
          let ends = ints_of_tok et in
          let model = Stdlib.List.map (fun x -> let rec f = function O -> 0 | S k -> 1 + f k in f x)
              (Segment.split_runes cls rs) in
          let cl = Segment.clusters cls rs in
          let run = Stdlib.List.rev (snd (Stdlib.List.fold_left (fun (i, acc) c -> let j = i + Stdlib.List.length c in (j, j :: acc)) (0, []) cl)) in
          let bits = String.concat "" (Stdlib.List.mapi (fun i _ -> if Stdlib.List.mem (i + 1) model then "1" else "0") rs) in
          let bits = if rs = [] then "-" else bits in
          let ccm = int_of_string cc in
          if model <> ends || run <> ends || bits <> bt || (ccm >= 0 && ccm <> Stdlib.List.length ends) then begin
            incr bad;
            if !bad <= 20 then Printf.printf "SPLITDIFF %s impl=%s model=%s sba=%s count=%s\n" rt et
                (String.concat "," (Stdlib.List.map string_of_int model)) bt cc
          end
        | _ -> ())
     done with End_of_file -> ());
  close_in ic;
  Printf.printf "SPLIT %d %d\n" !n !bad

(* sweepcls FILE: lines "value bits"; the class the model's decision tree gives
   must be the class the implementation's predicate bits give *)
let mode_sweepcls path =
  let ic = open_in path in
  let n = ref 0 and bad = ref 0 in
  (try while true do
       let l = input_line ic in
       (match String.split_on_char ' ' l with
        | [rt; bt] ->
          incr n;
          let r = z_of_string rt in
          let b = int_of_string bt in
          let bl = Stdlib.List.init 14 (fun i -> b land (1 lsl i) <> 0) in
          if Go.class_of_bits bl <> Go.go_class_of r then begin
            incr bad; if !bad <= 20 then Printf.printf "CLSDIFF %s %s\n" rt bt end
        | _ -> ())
     done with End_of_file -> ());
  close_in ic;
  Printf.printf "SWEEPCLS %d %d\n" !n !bad

let mode_cases cases_path res_path =
  let ic = open_in cases_path and ir = open_in res_path in
  (try
     while true do
       let cl = input_line ic in
       let rl = input_line ir in
       if String.trim cl <> "" then begin
         let c = parse_case cl in
         let rt = Stdlib.List.filter (fun s -> s <> "") (String.split_on_char ' ' rl) in
         (match rt with
          | rid :: impl ->
            if rid <> c.id then failwith ("id mismatch " ^ rid ^ " vs " ^ c.id);
            let (model, trace) = run_model c in
            let rec cmp k ms is = match ms, is with
              | [], [] -> Printf.printf "%s OK\n" c.id
              | m :: ms', i :: is' -> if m = i then cmp (k + 1) ms' is' else Printf.printf "%s DIFF %d %s\n" c.id k m
              | m :: _, [] -> Printf.printf "%s DIFF %d %s\n" c.id k m
              | [], _ :: _ -> Printf.printf "%s DIFF %d -\n" c.id k in
            cmp 0 model impl;
            Verdicts.emit c.id c.stream trace c.pool (Stdlib.List.map fst c.steps) (Stdlib.List.map parse_obs impl) impl
          | [] -> failwith "empty result line")
       end
     done
   with End_of_file -> ());
  close_in ic; close_in ir

let () =
  match Array.to_list Sys.argv with
  | [_; "split"; p] -> mode_split p
  | [_; "sweepcls"; p] -> mode_sweepcls p
  | [_; c; r] -> mode_cases c r
  | _ -> prerr_endline "usage: driver CASES RESULTS | driver split FILE | driver sweepcls FILE"; exit 2
