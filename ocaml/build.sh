#!/bin/bash
# Extract the model from Coq and build the driver. Run from anywhere.
set -e
cd "$(dirname "$0")"
mkdir -p gen && cd gen
rm -f *.ml *.mli *.cm* *.o
coqc -Q ../../coq Rosed ../../coq/Extract/Extract.v > extract.log 2>&1 || { cat extract.log; exit 1; }
rm -f *.mli
cp ../conv.ml ../verdicts.ml ../driver.ml .
# dependency order from ocamldep
FILES=$(ocamlfind ocamldep -sort *.ml)
ocamlfind ocamlopt -O2 -w -a -o ../../bin/driver $FILES 2>/dev/null || ocamlfind ocamlopt -w -a -o ../../bin/driver $FILES
