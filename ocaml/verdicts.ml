(* Dispatch of the property checkers (extracted from Coq, Check/*.v) on the
   implementation's and the model's outputs. *)
open Conv

let emit (_id : string) (_stream : string)
    (_trace : (Editor.editor * Hist.op * Editor.editor Res.coq_Res) list)
    (_impl : iobs option list) : unit = ()
