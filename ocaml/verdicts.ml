(* Dispatch of the property checkers (extracted from Coq, Check/*.v) on the
   implementation's and the model's outputs.  One line per applicable property:
     <id> V <prop> <step> <guard> <impl> <model>      (0/1 each; "-" when not evaluated) *)
open Conv
open BinNums

let cls = Go.coq_GoClassifier
let upp = GoUpper.coq_GoUpper
let b2s b = if b then "1" else "0"

type eobs = { text : coq_Z list; opts : Options.options; sub : bool; a : coq_Z; b : coq_Z;
              str : coq_Z list option; chars : coq_Z; lines : coq_Z }

let of_iobs (i : iobs) : eobs =
  { text = i.i_text; opts = i.i_opts; sub = i.i_sub; a = i.i_start; b = i.i_end; str = i.i_string;
    chars = i.i_chars; lines = i.i_lines }
let of_model (e : Editor.editor) : eobs =
  let o = Hist.observe cls e in
  { text = o.Hist.ob_text; opts = o.Hist.ob_opts; sub = o.Hist.ob_sub; a = o.Hist.ob_start; b = o.Hist.ob_end;
    str = (match o.Hist.ob_string with Res.Ok s -> Some s | _ -> None); chars = o.Hist.ob_chars; lines = o.Hist.ob_lines }

let unres = function Res.Ok l -> l | _ -> []

(* verdicts of one step: list of (prop, guard, check on given output) *)
let step_checks (recv : eobs) (op : Hist.op) (out : eobs option) : (string * bool * bool) list =
  let t = recv.text in
  let dflt o = Options.with_defaults cls (match o with Some o -> o | None -> recv.opts) in
  let ck f = match out with Some o -> f o | None -> false in
  let c18_valid = ("C18", Utf8.valid_utf8 t, ck (fun o -> Utf8.valid_utf8 o.text)) in
  let keeps = ("C17", true, ck (fun o -> Options.options_eqb o.opts recv.opts)) in
  let count o = Select.check_charcount cls o.text o.chars in
  let full = (match recv.str with Some s -> s | None -> t) in
  match op with
  | Hist.OChars _ | Hist.OCharsFrom _ ->
    let kind, s, e = (match op with Hist.OChars (s, e) -> z_of_int 0, s, e | Hist.OCharsFrom s -> z_of_int 1, s, Z0 | _ -> assert false) in
    [("C04", Select.guard_C04 t s e, ck (fun o -> Select.check_C04 cls kind t s e o.text o.sub o.a o.b o.str full && count o)); c18_valid; keeps]
  | Hist.OCharsTo e ->
    [("C04", Select.guard_C04 t Z0 e, ck (fun o -> Select.check_C04 cls (z_of_int 2) t Z0 e o.text o.sub o.a o.b o.str full && count o)); c18_valid; keeps]
  | Hist.OInsert (p, x) ->
    [("C09", Select.guard_C09 t x p Z0, ck (fun o -> Select.check_C09 cls (z_of_int 0) t p Z0 x o.text));
     ("C18", Utf8.valid_utf8 t && Utf8.valid_utf8 x, ck (fun o -> Utf8.valid_utf8 o.text)); keeps]
  | Hist.ODelete (s, e) ->
    [("C09", Select.guard_C09 t [] s e, ck (fun o -> Select.check_C09 cls (z_of_int 1) t s e [] o.text)); c18_valid; keeps]
  | Hist.OOvertype (p, x) ->
    [("C09", Select.guard_C09 t x p Z0, ck (fun o -> Select.check_C09 cls (z_of_int 2) t p Z0 x o.text));
     ("C18", Utf8.valid_utf8 t && Utf8.valid_utf8 x, ck (fun o -> Utf8.valid_utf8 o.text)); keeps]
  | Hist.OLines _ | Hist.OLinesFrom _ | Hist.OLinesTo _ ->
    let kind, s, e = (match op with Hist.OLines (s, e) -> 0, s, e | Hist.OLinesFrom s -> 1, s, Z0 | Hist.OLinesTo e -> 2, Z0, e | _ -> assert false) in
    let d = dflt None in
    let sep = d.Options.o_linesep and ntl = recv.opts.Options.o_notrailing in
    [("C10", Select.guard_C10 t sep s e,
      ck (fun o -> Select.check_C10_sel (z_of_int kind) t sep ntl s e o.text o.a o.b
                   && Select.check_linecount o.text (Options.with_defaults cls o.opts).Options.o_linesep o.opts.Options.o_notrailing o.lines
                   && (match o.str with Some x -> x = full | None -> false)));
     c18_valid; keeps]
  | Hist.OApply (k, o) ->
    let d = dflt o in
    let sep = d.Options.o_linesep and ntl = d.Options.o_notrailing in
    let f i l = unres (Hist.line_cb k i l) in
    [("C10", Select.guard_C10 t sep Z0 Z0, ck (fun r -> r.text = Select.apply_expected f t sep ntl)); c18_valid; keeps]
  | Hist.OWrap (w, o) ->
    let d = dflt o in
    let sep = d.Options.o_linesep and psep = d.Options.o_parasep in
    if d.Options.o_preserve then
      [("C07", Layout.guard_C07 cls t d w, ck (fun r -> Layout.check_C07_wrap cls t r.text [psep; sep] sep
                                                      && (Common.contains sep psep || Layout.count_occ_sep t psep = Layout.count_occ_sep r.text psep)));
       ("C11", Paras.guard_C11_hom t d && Layout.guard_C07 cls t d w, ck (fun r -> Paras.check_C11_hom cls upp op t d r.text));
       c18_valid; keeps]
    else
      [("C06", Layout.guard_C06 cls t sep w, ck (fun r -> Layout.check_C06 cls t sep w r.text));
       ("C07", Layout.guard_C07 cls t d w && Layout.guard_C06 cls t sep w, ck (fun r -> Layout.check_C07_wrap cls t r.text [sep] sep));
       c18_valid; keeps]
  | Hist.OCollapse o ->
    let d = dflt o in
    [("C07", Layout.guard_C07 cls t d Z0, ck (fun r -> Layout.check_C07_collapse cls t r.text d.Options.o_linesep)); c18_valid; keeps]
  | Hist.OJustify (w, o) ->
    let d = dflt o in
    let sep = d.Options.o_linesep and psep = d.Options.o_parasep in
    let same = ("C07", Layout.guard_C07 cls t d w,
                ck (fun r -> Layout.check_C07_same cls t r.text (if d.Options.o_preserve then [psep; sep] else [sep])
                             && (not d.Options.o_preserve || Layout.count_occ_sep t psep = Layout.count_occ_sep r.text psep))) in
    if d.Options.o_preserve then [same; ("C11", Paras.guard_C11_hom t d && Layout.guard_C07 cls t d w, ck (fun r -> Paras.check_C11_hom cls upp op t d r.text)); c18_valid; keeps]
    else [("C12", Layout.guard_C12 cls t sep w, ck (fun r -> Layout.check_C12 cls t sep d.Options.o_notrailing d.Options.o_justlast w r.text));
          same; c18_valid; keeps]
  | Hist.OAlign (a, w, o) ->
    let d = dflt o in
    let sep = d.Options.o_linesep and psep = d.Options.o_parasep in
    (* all separators kept: Align may trim white-space-only lines to nothing, and the line separators around
       them can then read as one more paragraph separator - none may be lost *)
    let same = ("C07", Layout.guard_C07 cls t d w,
                ck (fun r -> Layout.check_C07_same cls t r.text (if d.Options.o_preserve then [psep; sep] else [sep])
                             && (not d.Options.o_preserve || int_of_z (Layout.count_occ_sep t psep) <= int_of_z (Layout.count_occ_sep r.text psep)))) in
    let valid_align = (int_of_z a >= 1 && int_of_z a <= 3) in
    if d.Options.o_preserve && valid_align then [same; ("C11", Paras.guard_C11_hom t d && Layout.guard_C07 cls t d w, ck (fun r -> Paras.check_C11_hom cls upp op t d r.text)); c18_valid; keeps]
    else [("C13", Layout.guard_C13 cls t sep w, ck (fun r -> Layout.check_C13 cls a t sep d.Options.o_notrailing w r.text));
          same; c18_valid; keeps]
  | Hist.OIndent (lvl, o) ->
    let d = dflt o in
    let sep = d.Options.o_linesep in
    if int_of_z lvl < 1 then [("C07", true, ck (fun r -> r.text = t)); c18_valid; keeps]
    else if d.Options.o_preserve then
      [("C11", Paras.guard_C11_hom t d, ck (fun r -> Paras.check_C11_hom cls upp op t d r.text)); c18_valid; keeps]
    else
      let ind = Stdlib.List.concat (Stdlib.List.init (int_of_z lvl) (fun _ -> d.Options.o_indent)) in
      [("C07", Layout.guard_C07 cls t d Z0, ck (fun r -> r.text = Select.apply_expected (fun _ l -> [ind @ l]) t sep d.Options.o_notrailing));
       c18_valid; keeps]
  | Hist.OTwoCols (pos, l, r, gap, w, m, ex, o) ->
    let d = dflt o in
    let hint = (match Ops.two_col_widths w gap m ex with ((_, lw), _) -> lw) in
    [("C14", Blocks.guard_C14 cls t l r d.Options.o_linesep gap w,
      ck (fun x -> Blocks.check_C14 cls hint t pos l r gap w d.Options.o_linesep d.Options.o_notrailing x.text));
     ("C18", Utf8.valid_utf8 t && Utf8.valid_utf8 l && Utf8.valid_utf8 r && int_of_z gap >= 0, ck (fun x -> Utf8.valid_utf8 x.text)); keeps]
  | Hist.ODefTable (pos, defs, w, o) ->
    let d = dflt o in
    [("C15", Blocks.guard_C15 cls t defs d w, ck (fun x -> Blocks.check_C15 cls t pos defs w d x.text));
     ("C18", Utf8.valid_utf8 t && Stdlib.List.for_all (fun (a, b) -> Utf8.valid_utf8 a && Utf8.valid_utf8 b) defs, ck (fun x -> Utf8.valid_utf8 x.text)); keeps]
  | Hist.OTable (pos, data, w, o) ->
    let d = dflt o in
    [("C16", Blocks.guard_C16 cls upp t data d w, ck (fun x -> Blocks.check_C16 cls upp t pos data w d x.text));
     ("C18", Utf8.valid_utf8 t && Stdlib.List.for_all (Stdlib.List.for_all Utf8.valid_utf8) data, ck (fun x -> Utf8.valid_utf8 x.text)); keeps]
  | Hist.OApplyParas (k, o) ->
    let d = dflt o in
    [("C11", Paras.guard_C11 t d.Options.o_parasep d.Options.o_linesep,
      ck (fun r -> Paras.check_C11_cb k t d.Options.o_parasep d.Options.o_linesep r.text)); c18_valid; keeps]
  | Hist.OCommit | Hist.OCommitAll | Hist.OWithOptions _ -> []
  | _ -> []

(* known-finding clauses: a name for the class of inputs a failing case falls in *)
let clause (recv : eobs) (op : Hist.op) (prop : string) : string =
  let dflt o = Options.with_defaults cls (match o with Some o -> o | None -> recv.opts) in
  match op, prop with
  | Hist.OWrap (_, o), ("C07" | "C11" | "C06") ->
    let d = dflt o in
    if d.Options.o_preserve
    && (Paras.sep_suffix d.Options.o_parasep d.Options.o_linesep <> [] || Paras.sep_prefix d.Options.o_parasep d.Options.o_linesep <> [])
    then "wrap-para-visible-affix" else "-"
  | _ -> "-"

let emit (id : string) (_stream : string)
    (trace : (Editor.editor * Hist.op * Editor.editor Res.coq_Res) list)
    (pool0 : coq_Z list list) (recvs : int list)
    (impl : iobs option list) (impl_raw : string list) : unit =
  (* the implementation's view of the pool: initial entries, then each step's result (receiver on panic) *)
  let zero = { text = []; opts = Options.zero_options; sub = false; a = Z0; b = Z0; str = Some []; chars = Z0; lines = Z0 } in
  let ipool = ref (Array.of_list (Stdlib.List.map (fun t -> { zero with text = t; str = Some t }) pool0)) in
  let parent = ref (Array.make (Stdlib.List.length pool0) (-1)) in
  let prev = ref None in
  let mprev = ref None in
  let outs = ref [] in
  let first_obs = Hashtbl.create 16 in
  let rec go k trace recvs impl raw =
    match trace, recvs, impl, raw with
    | (me, op, mr) :: trace', recv :: recvs', io :: impl', tok :: raw' ->
      if recv < Array.length !ipool then begin
        let ir = (!ipool).(recv) in
        let iout = (match io with Some i -> Some (of_iobs i) | None -> None) in
        (* relational checks over two consecutive steps *)
        (* the model's own verdict on the same relational checks *)
        (match !prev, !mprev, (match mr with Res.Ok e -> Some (of_model e) | _ -> None) with
         | Some (pop, pidx, _, _), Some (mpout : eobs), Some mo when pidx = recv ->
           (match pop, op with
            | Hist.OWrap _, Hist.OWrap _ when pop = op -> Printf.printf "%s M C06 %d 1 %s idem\n" id k (b2s (mo.text = mpout.text))
            | Hist.OCollapse _, Hist.OCollapse _ when pop = op -> Printf.printf "%s M C07 %d 1 %s idem\n" id k (b2s (mo.text = mpout.text))
            | _ -> ())
         | _ -> ());
        mprev := (match mr with Res.Ok e -> Some (of_model e) | _ -> None);
        (match !prev, iout with
         | Some (pop, pidx, (prevrecv : eobs), Some (pout : eobs)), Some o when pidx = recv ->
           (match pop, op with
            | Hist.OWrap (w, oo), Hist.OWrap _ when pop = op ->
              let d = Options.with_defaults cls (match oo with Some x -> x | None -> prevrecv.opts) in
              let g = Layout.guard_C07 cls prevrecv.text d w && Layout.guard_C06 cls prevrecv.text d.Options.o_linesep w in
              Printf.printf "%s V C06 %d %s %s idem\n" id k (b2s g) (b2s (o.text = pout.text))
            | Hist.OCollapse oo, Hist.OCollapse _ when pop = op ->
              let d = Options.with_defaults cls (match oo with Some x -> x | None -> prevrecv.opts) in
              Printf.printf "%s V C07 %d %s %s idem\n" id k (b2s (Layout.guard_C07 cls prevrecv.text d Z0)) (b2s (o.text = pout.text))
            | Hist.OInsert (p, x), Hist.ODelete (ds, de)
              when (let n = z_of_int (Stdlib.List.length (Segment.clusters cls (Utf8.decode prevrecv.text))) in
                    let p' = Common.norm1 n p in
                    ds = p' && de = BinInt.Z.add p' (z_of_int (Stdlib.List.length (Segment.clusters cls (Utf8.decode x))))) ->
              let cl t = Segment.clusters cls (Utf8.decode t) in
              let before = Stdlib.List.length (cl prevrecv.text) in
              let g = Utf8.valid_utf8 prevrecv.text && Utf8.valid_utf8 x
                      && Stdlib.List.length (cl pout.text) = before + Stdlib.List.length (cl x)
                      && (* the inserted clusters sit unmerged where they were put *)
                      (let ins = cl x in let all = cl pout.text in
                       let rec sub a b = match a, b with [], _ -> true | x :: a', y :: b' -> x = y && sub a' b' | _ -> false in
                       let rec find l = sub ins l || (match l with [] -> false | _ :: l' -> find l') in find all) in
              Printf.printf "%s V C09 %d %s %s roundtrip\n" id k (b2s g) (b2s (o.text = prevrecv.text))
            | _ -> ())
         | _ -> ());
        prev := Some (op, Array.length !ipool, ir, iout);
        outs := iout :: !outs;
        (* C08: every Editor obtained so far still reports what it reported when it was obtained *)
        (match String.split_on_char ';' tok with
         | _ :: (_ :: _ as all) ->
           let ok = ref true in
           Stdlib.List.iteri (fun j t ->
               match Hashtbl.find_opt first_obs j with
               | Some t0 -> if t0 <> t then ok := false
               | None -> Hashtbl.add first_obs j t) all;
           Printf.printf "%s V C08 %d 1 %s reobserve\n" id k (b2s !ok)
         | _ -> ());
        let mout = (match mr with Res.Ok e -> Some (of_model e) | _ -> None) in
        (* C18: no panic, no timeout *)
        Printf.printf "%s V C18 %d 1 %s %s\n" id k (b2s (iout <> None)) (b2s (mout <> None));
        (* C08: determinism / receiver unchanged flags from the harness *)
        let nd = String.length tok >= 2 && (String.sub tok 0 2 = "ND" || (String.length tok >= 3 && String.sub tok 0 3 = "MUT")) in
        Printf.printf "%s V C08 %d 1 %s 1\n" id k (b2s (not nd));
        Stdlib.List.iter (fun (prop, g, ci) ->
            Printf.printf "%s V %s %d %s %s %s\n" id prop k (b2s g) (b2s ci) (if ci then "-" else clause ir op prop))
          (step_checks ir op iout);
        (* model's own outputs through the same checkers *)
        Stdlib.List.iter (fun (prop, g, cm) -> Printf.printf "%s M %s %d %s %s -\n" id prop k (b2s g) (b2s cm))
          (step_checks (of_model me) op mout);
        (* C05: commit splices exactly the selected region of the parent *)
        let par = (!parent).(recv) in
        (match op with
         | Hist.OCommit ->
           (match iout with
            | Some o ->
              if ir.sub && par >= 0 then begin
                let p = (!ipool).(par) in
                Printf.printf "%s V C05 %d 1 %s -\n" id k
                  (b2s (Select.check_C05_commit p.text ir.text ir.a ir.b o.text && Options.options_eqb o.opts p.opts))
              end else if not ir.sub then
                Printf.printf "%s V C05 %d 1 %s -\n" id k (b2s (o.text = ir.text && not o.sub))
            | None -> Printf.printf "%s V C05 %d 1 0 -\n" id k)
         | _ -> ());
        (* String() of every result equals committing through all ancestors *)
        (match iout with
         | Some o ->
           let np = (match op with
               | Hist.OChars _ | Hist.OCharsFrom _ | Hist.OCharsTo _ | Hist.OLines _ | Hist.OLinesFrom _ | Hist.OLinesTo _ -> recv
               | Hist.OCommit -> if par >= 0 then (!parent).(par) else -1
               | Hist.OCommitAll -> -1
               | _ -> par) in
           ipool := Array.append !ipool [| o |];
           parent := Array.append !parent [| np |];
           let rec full idx (x : eobs) =
             if not x.sub then Some x.text else
               let pi = (!parent).(idx) in
               if pi < 0 then None else
                 let p = (!ipool).(pi) in
                 let spliced = Select.commit_expected p.text x.text x.a x.b in
                 full pi { p with text = spliced } in
           (match full (Array.length !ipool - 1) o with
            | Some expect -> Printf.printf "%s V C05 %d 1 %s -\n" id k (b2s (o.str = Some expect))
            | None -> ())
         | None ->
           ipool := Array.append !ipool [| ir |];
           parent := Array.append !parent [| par |])
      end;
      go (k + 1) trace' recvs' impl' raw'
    | _ -> () in
  go 0 trace recvs impl impl_raw;
  let outs = Array.of_list (Stdlib.List.rev !outs) in
  let text k = if k < Array.length outs then (match outs.(k) with Some o -> Some o.text | None -> None) else None in
  (* C17: unset options equal their defaults; XOpts(o) equals WithOptions(o).X; WithDefaults is idempotent *)
  if _stream = "opts" && Array.length outs >= 7 then begin
    let same = text 0 <> None && text 0 = text 2 && text 0 = text 3 && text 0 = text 4 in
    (* character sets whose clusters merge with the padding that completes them are the known finding D11 *)
    let gcs = (match outs.(5) with Some a -> Common.plain_cfg cls a.opts.Options.o_charset | None -> true) in
    (* ... which only an operation that draws with the character set can show *)
    let uses_charset = (match trace with (_, Hist.OTable _, _) :: _ -> true | _ -> false) in
    Printf.printf "%s V C17 0 %s %s variants\n" id (b2s (gcs || not uses_charset)) (b2s same);
    (match outs.(5), outs.(6) with
     | Some a, Some b ->
       let g = Common.plain_cfg cls a.opts.Options.o_charset in
       let three = Stdlib.List.length (Segment.clusters cls (Utf8.decode a.opts.Options.o_charset)) = 3 in
       Printf.printf "%s V C17 5 %s %s idempotent\n" id (b2s g) (b2s (Options.options_eqb a.opts b.opts && three))
     | _ -> Printf.printf "%s V C17 5 1 0 idempotent\n" id)
  end;
  (* C03: the operation commutes with a cluster-for-cluster substitution *)
  if _stream = "subst" && Array.length outs >= 2 then begin
    match pool0 with
    | [_; _; m] ->
      let rec split_sp cur acc = function
        | [] -> Stdlib.List.rev (Stdlib.List.rev cur :: acc)
        | c :: rest -> if c = z_of_int 32 then split_sp [] (Stdlib.List.rev cur :: acc) rest else split_sp (c :: cur) acc rest in
      let toks = Stdlib.List.map Utf8.decode (split_sp [] [] m) in
      let rec pairs = function a :: b :: rest -> (a, b) :: pairs rest | _ -> [] in
      let rho = pairs toks in
      let subst t =
        Utf8.encode (Stdlib.List.concat (Stdlib.List.map (fun c -> match Stdlib.List.assoc_opt c rho with Some d -> d | None -> c)
                                           (Segment.clusters cls (Utf8.decode t)))) in
      (match outs.(0), outs.(1) with
       | Some a, Some b ->
         Printf.printf "%s V C03 1 1 %s subst\n" id
           (b2s (subst a.text = b.text && a.chars = b.chars && a.lines = b.lines && a.sub = b.sub))
       | None, None -> Printf.printf "%s V C03 1 1 1 subst\n" id
       | _ -> Printf.printf "%s V C03 1 1 0 subst\n" id)
    | _ -> ()
  end
