"""Per-property configuration and the exploration engines used by bin/check."""
import os, json, re, subprocess, time
from concurrent.futures import ThreadPoolExecutor

TRUSTED_BASE = [
    'Coq 8.16.1 kernel (coqc, full .vo builds; vm_compute used for finite table checks; no native_compute)',
    'no axioms: Print Assumptions of every Props theorem is "Closed under the global context" (see coverage.assumptions)',
    'translator /verif/translator (go/ast -> coq/gen/Tables.v (symbolic evaluation of the class predicates, or the exhaustive sweep of the compiled ones), Consts.v, Upper.v, validated by the exhaustive class sweep; loop-free Go functions statement by statement -> coq/gen/Funcs.v, GemChars.v, GemLines.v, GemCommit.v, GemEdit.v, GemAlign.v, GemOpts.v (Go int read as Z; the operations of gem.String, Editor, Options, *parentRef and strings.Builder mapped onto the model by the table at the head of translator/gemfunc.go; each proved equal to the function of the model in coq/Inst))',
    'extraction: ExtrOcamlBasic only (bool, option, unit, list, prod, sumbool to OCaml types); Z/positive/nat as Coq inductives; no Extract Constant',
    'OCaml 4.13.1 and the hand-written driver (ocaml/conv.ml, verdicts.ml, driver.ml) for the correspondence only',
    'Go harness /verif/harness built with -tags verif against /repo; hooks internal/gem/verif_export.go, verif_export.go, verif_export_table.go',
    'the model is hand-written (coq/Model, coq/Gem): tied to the code by the correspondence run, not by proof',
]
DEFAULT_RULE = ('cases generated from one PRNG seeded by VERIF_SEED (structured tokens: ASCII words, every unicode.IsSpace code point, '
                'precomposed/decomposed accents, emoji ZWJ sequences, flags, Hangul, Indic conjuncts, Prepend; 25% of cases draw from a '
                'degenerate vocabulary: lone Extend/ZWJ/SpacingMark/RI, controls, Prepend at end); positions from {inside, boundary, beyond, '
                'negative, End, MinInt+1, MaxInt}; a case is non-trivial if it contains a non-ASCII byte or a negative/out-of-range integer; '
                'distinct = distinct case lines; every case is executed twice by the harness: once with every step repeated and the receiver (and, in '
                'history streams, every earlier pool entry) re-observed, and once silently with the pool observed last entry first - the observations must agree')

# streams: (name, quick count, thorough count)
PROPS = {
    'C01': {'streams': [], 'engines': ['engine_split', 'engine_probes', 'engine_sweep'],
            'rule': 'exhaustive: every string over the 15 classes up to length 4 (quick) / 5 (thorough), with a fixed and a random representative code point per class; random strings up to length 300 biased to RI runs, Extend runs, ZWJ chains, Hangul; arbitrary (also invalid) rune values; all code points for the classifier. non-trivial = more than one code point'},
    'C02': {'streams': [], 'engines': ['engine_sweep', 'engine_probes'],
            'rule': 'exhaustive: all 1,114,112 code points plus 9 negative / out-of-range rune values; the 14 predicate bits of the compiled Go code against the Unicode 13.0.0 reference, against the regenerated Coq tables and against the extracted classifier. non-trivial = outside ASCII'},
    'C03': {'streams': [('subst', 1500, 60000)], 'engines': ['engine_manip'],
            'rule': 'pairs (text, image of the text under a cluster-for-cluster substitution between caseless self-contained clusters of 1-5 code points: digits, CJK, precomposed and conjoining Hangul, emoji ZWJ sequences, flags, Indic and Thai clusters, digit + combining marks, Prepend + digit), the same operation on both with string arguments substituted likewise; the outputs must correspond under the substitution. non-trivial = contains a non-ASCII byte'},
    'C04': {'streams': [('chars', 1500, 60000), ('hist', 300, 10000)], 'engines': ['engine_manip']},
    'C05': {'streams': [('hist', 1200, 60000)], 'also': ['C04', 'C09', 'C10']},
    'C06': {'streams': [('wrap', 1200, 60000)], 'engines': ['engine_manip']},
    'C07': {'streams': [('ws', 1200, 50000), ('paras', 400, 20000), ('wrap', 300, 10000)], 'engines': ['engine_manip']},
    'C08': {'streams': [('hist', 1000, 60000)]},
    'C09': {'streams': [('edit', 1500, 60000)]},
    'C10': {'streams': [('lines', 1500, 60000), ('hist', 200, 5000)]},
    'C11': {'streams': [('paras', 1500, 60000)]},
    'C12': {'streams': [('justify', 1200, 60000)], 'engines': ['engine_manip']},
    'C13': {'streams': [('align', 1500, 60000)], 'engines': ['engine_manip']},
    'C14': {'streams': [('twocols', 600, 30000)], 'engines': ['engine_manip']},
    'C15': {'streams': [('deftable', 500, 25000)], 'engines': ['engine_manip']},
    'C16': {'streams': [('table', 800, 40000)], 'engines': ['engine_manip']},
    'C17': {'streams': [('opts', 1200, 60000)]},
    'C18': {'streams': [('total', 1200, 60000), ('hist', 150, 5000), ('chars', 150, 5000), ('edit', 150, 5000), ('lines', 150, 5000), ('paras', 200, 5000),
                        ('wrap', 150, 5000), ('ws', 200, 5000), ('justify', 150, 5000), ('align', 150, 5000), ('twocols', 150, 5000),
                        ('deftable', 150, 5000), ('table', 150, 5000), ('opts', 100, 5000)]},
    'C19': {'streams': [], 'engines': ['engine_gemhist'],
            'rule': 'random histories of 3-24 operations (New from ill-formed and well-formed rune strings, Zero, the zero value String{}, value copies, Add, Sub, SetCharAt, Repeat, CharAt, Len, Runes, GraphemeIndexes) over a growing pool; after every step every pool value is observed. all histories count as non-trivial (they involve shared cache cells)'},
    'C20': {'streams': [], 'engines': ['engine_race', 'engine_gemhist'],
            'rule': 'race-detector stress: generated cases of every stream executed by 16 goroutines concurrently plus fixed operations on 8 shared sub-editors, compared with the sequential results; plus gem.String histories including Reverse against the heap model'},
}

def parse_tables(path, names=None):
    """interval tables of a generated/committed Coq file: [(name, [(lo,hi),...])] in file order"""
    out = []
    for m in re.finditer(r'Definition (\w+) : list \(Z\*Z\) := \[(.*?)\]\.', open(path).read(), re.S):
        ivs = [(int(a), int(b)) for a, b in re.findall(r'\((-?\d+),(-?\d+)\)', m.group(2))]
        out.append((m.group(1), ivs))
    return out

def bits_array(tables):
    arr = [0] * 0x110000
    for i, (_, ivs) in enumerate(tables):
        for lo, hi in ivs:
            for c in range(max(lo, 0), min(hi, 0x10FFFF) + 1):
                arr[c] |= (1 << i)
    return arr

CLASS_NAMES = ['Prepend', 'CR', 'LF', 'Control', 'Extend', 'RI', 'SpacingMark', 'L', 'V', 'T', 'LV', 'LVT', 'ZWJ', 'ExtPict']

def engine_sweep(ctx, prop, r):
    """all code points: implementation predicate bits vs the Unicode 13.0.0 reference (the property),
    vs the regenerated Coq tables (translator validation), vs the model's classifier (extracted)"""
    out = os.path.join(ctx.work, 'sweep.txt')
    rc, o = ctx.sh('%s sweep -out %s' % (ctx.build.harness, out))
    if rc != 0:
        r.engine_errors.append('sweep failed: ' + o[-300:]); return
    ref = bits_array(parse_tables(os.path.join(ctx.verif, 'coq', 'ref', 'Ucd13.v')))
    genp = os.path.join(ctx.verif, 'coq', 'gen', 'Tables.v')
    gen = bits_array(parse_tables(genp)) if ctx.build.translator_ok and os.path.exists(genp) else None
    n = 0
    trans_bad = 0
    for l in open(out):
        a, b = l.split()
        cp, bits = int(a), int(b)
        n += 1
        want = ref[cp] if 0 <= cp <= 0x10FFFF else 0
        if bits != want:
            if len([f for f in r.failures if f.get('stream') == 'sweep']) < 10:
                r.failures.append({'id': 'U+%04X' % cp if cp >= 0 else str(cp), 'stream': 'sweep', 'in_guard': True, 'clause': '-',
                                   'case': 'codepoint %d' % cp,
                                   'impl': 'predicates=' + ','.join(CLASS_NAMES[i] for i in range(14) if bits >> i & 1),
                                   'expected': 'Unicode 13.0.0: ' + (','.join(CLASS_NAMES[i] for i in range(14) if want >> i & 1) or 'Other')})
        if gen is not None and bits != (gen[cp] if 0 <= cp <= 0x10FFFF else 0):
            trans_bad += 1
    r.evaluations += n
    r.distinct_nontrivial += n - 128
    r.stream_counts['sweep(all code points + out-of-range values)'] = n
    r.exhaustive = True
    if trans_bad:
        r.disagreements.append({'id': 'translator', 'stream': 'sweep', 'step': '-', 'model': '%d code points where the regenerated Coq tables differ from the compiled predicates' % trans_bad, 'case': '', 'impl': ''})
    else:
        r.agreements += n
    rc, o = ctx.sh('%s sweepcls %s' % (ctx.driver, out))
    m = re.search(r'SWEEPCLS (\d+) (\d+)', o)
    if not m:
        r.engine_errors.append('sweepcls failed: ' + o[-300:])
    elif int(m.group(2)):
        r.disagreements.append({'id': 'classifier', 'stream': 'sweepcls', 'step': '-', 'model': o[:600], 'case': '', 'impl': ''})
    r.samples.append({'stream': 'sweep', 'case': 'U+0041 -> Other; U+0301 -> Extend; U+1F1E6 -> RI; -1 -> Other; 0x110000 -> Other'})

def engine_probes(ctx, prop, r):
    """how each code point joins with fixed probe characters (20 contexts covering every rule) in the
    implementation, against the model's behaviour for that code point's class"""
    out = os.path.join(ctx.work, 'probes.txt')
    allf = ' -all' if ctx.tier == 'thorough' else ''
    rc, o = ctx.sh('%s probes%s -seed %d -out %s' % (ctx.build.harness, allf, ctx.seed, out), timeout=3000)
    if rc != 0:
        r.engine_errors.append('probes failed: ' + o[-300:]); return
    rc, o = ctx.sh('%s probes %s' % (ctx.driver, out))
    m = re.search(r'PROBES (\d+) (\d+)', o)
    if not m:
        r.engine_errors.append('driver probes failed: ' + o[-300:]); return
    n, bad = int(m.group(1)), int(m.group(2))
    r.evaluations += n * 20
    r.agreements += (n - bad) * 20
    r.distinct_nontrivial += n
    r.stream_counts['probe contexts: code points x 20 contexts' + (' (all code points)' if allf else ' (all table members, 16 around every class change and block end, 30000 random)')] = n
    for l in o.splitlines():
        if l.startswith('PROBEDIFF'):
            f = l.split()
            cp = int(f[1])
            r.failures.append({'id': 'U+%04X' % cp if cp >= 0 else str(cp), 'stream': 'probes', 'in_guard': True, 'clause': '-',
                               'case': 'codepoint %d in the probe contexts of harness/extra.go (probeCtx)' % cp, 'impl': ' '.join(f[2:])})
    r.samples.append({'stream': 'probes', 'case': open(out).readlines()[1000].strip()})

# Which operations a property's statement is about. A disagreement between model and implementation is a broken
# correspondence *for a property* only when it first shows at a step whose operation is in the property's scope
# (for C08: only when the re-observation of earlier pool entries differs); otherwise the case is set aside for
# this property - the disagreement belongs to another property's check.
SEL = {'chars', 'charsfrom', 'charsto'}
LIN = {'lines', 'linesfrom', 'linesto'}
ALLOPS = None
SCOPE = {
    'C03': ALLOPS, 'C17': ALLOPS, 'C18': ALLOPS, 'C08': ALLOPS,
    'C04': SEL | {'withopts'},
    'C05': SEL | LIN | {'commit', 'commitall', 'withopts'},
    'C06': {'wrap', 'withopts'},
    'C07': {'wrap', 'collapse', 'justify', 'align', 'indent', 'withopts'},
    'C09': {'insert', 'delete', 'overtype', 'withopts'},
    'C10': LIN | {'apply', 'withopts'},
    'C11': {'applyparas', 'wrap', 'justify', 'align', 'indent', 'withopts'},
    'C12': {'justify', 'withopts'},
    'C13': {'align', 'withopts'},
    'C14': {'twocols', 'withopts'},
    'C15': {'deftable', 'withopts'},
    'C16': {'table', 'withopts'},
}

def in_scope(prop, opname, kind, model_tok=''):
    if prop == 'C08':
        return kind == 'P'
    if prop == 'C18':
        # totality: what matters is whether model and implementation disagree on panicking / running out of fuel
        # (an implementation panic is a failing verdict of its own); a difference in content belongs elsewhere
        return model_tok.split(';')[0] in ('P', 'F')
    if prop == 'C05' and kind == 'S':
        # String() of a sub-editor is CommitAll through all its ancestors, whatever operation produced it
        return True
    sc = SCOPE.get(prop, ALLOPS)
    return sc is None or opname in sc

MANIP_KINDS = {'C04': 'RI', 'C06': 'WR', 'C07': 'CS,WR', 'C12': 'JL', 'C13': 'AL', 'C14': 'CC,WR', 'C15': 'CC,WR', 'C16': 'MT',
               'C18': 'CS,WR,JL,AL,CC,MT,RI', 'C03': 'CS,WR,JL,AL'}

def engine_manip(ctx, prop, r):
    """the text-level functions the theorems are stated about (CollapseSpace, Wrap, JustifyLine, AlignLine*,
    CombineColumnBlocks, MakeTable, RangeToIndexes) called directly through the verif-tagged exports on generated
    arguments and recomputed with the extracted model"""
    kinds = MANIP_KINDS.get(prop, 'CS,WR,JL,AL,CC,MT,RI')
    n = 2000 if ctx.tier == 'quick' else 120000
    shards = 1 if ctx.tier == 'quick' else 8
    tot = bad = 0
    for sh in range(shards):
        out = os.path.join(ctx.work, 'manip_%d.txt' % sh)
        rc, o = ctx.sh('%s manip -n %d -seed %d -kinds %s -out %s' % (ctx.build.harness, n // shards, ctx.seed * 100 + sh, kinds, out), timeout=3000)
        if rc == 3 and 'unavailable' in o:
            # the verif-tagged re-exports of internal/manip do not compile with this tree: this engine is an
            # additional, direct comparison of the text-level functions; the same functions are still compared
            # through the public API by the property's streams, so its absence is recorded, not reported
            r.engines_unavailable.append('manip: ' + o.strip()[-200:]); return
        if rc != 0:
            r.engine_errors.append('manip failed: ' + o[-300:]); return
        rc, o = ctx.sh('%s manip %s' % (ctx.driver, out), timeout=3000)
        m = re.search(r'MANIP (\d+) (\d+)', o)
        if not m:
            r.engine_errors.append('driver manip failed: ' + o[-300:]); return
        tot += int(m.group(1)); bad += int(m.group(2))
        for l in o.splitlines():
            if l.startswith('MANIPDIFF') and len(r.disagreements) < 10:
                f = l.split()
                line = [x for x in open(out) if x.startswith(f[1] + ' ')]
                r.disagreements.append({'id': f[1], 'stream': 'manip', 'step': f[2], 'model': ' '.join(f[4:])[:600], 'impl': f[3][:600],
                                        'case': (line[0].strip() if line else '')[:1500]})
        if sh == 0:
            r.samples.append({'stream': 'manip', 'case': open(out).readline().strip()[:300]})
    r.evaluations += tot
    r.agreements += tot - bad
    r.distinct_nontrivial += tot
    r.stream_counts['manip: direct calls of the text-level functions (%s)' % kinds] = tot

def engine_split(ctx, prop, r):
    """every class string up to a length (one fixed and one random representative per class) plus long random
    strings: gem.Split, shouldBreakAfter and CharCount against the model the C01 theorems are about"""
    out = os.path.join(ctx.work, 'split.txt')
    ln, nr = (4, 3000) if ctx.tier == 'quick' else (5, 60000)
    rc, o = ctx.sh('%s splitx -len %d -rand %d -seed %d -out %s' % (ctx.build.harness, ln, nr, ctx.seed, out))
    if rc != 0:
        r.engine_errors.append('splitx failed: ' + o[-300:]); return
    rc, o = ctx.sh('%s split %s' % (ctx.driver, out))
    m = re.search(r'SPLIT (\d+) (\d+)', o)
    if not m:
        r.engine_errors.append('driver split failed: ' + o[-300:]); return
    n, bad = int(m.group(1)), int(m.group(2))
    r.evaluations += n
    r.agreements += n - bad
    r.distinct_nontrivial += n - 16
    r.stream_counts['class strings of length <= %d (exhaustive) + %d random' % (ln, nr)] = n
    r.exhaustive = True
    for l in o.splitlines():
        if l.startswith('SPLITDIFF'):
            f = l.split()
            r.failures.append({'id': 'runes:' + f[1][:80], 'stream': 'splitx', 'in_guard': True, 'clause': '-',
                               'case': 'runes ' + f[1], 'impl': ' '.join(f[2:])})
    r.samples.append({'stream': 'splitx', 'case': open(out).readlines()[5000].strip()})

def engine_gemhist(ctx, prop, r):
    """histories over a pool of gem.String values: results and per-step snapshots (runes, cache cell identity up
    to renaming, nil-ness, contents) of the implementation against the heap model Gem/GHeap.v"""
    n = 4000 if ctx.tier == 'quick' else 250000
    rev = ' -rev' if prop == 'C20' else ''
    shards = 1 if ctx.tier == 'quick' else 16
    tot = bad = steps = 0
    for sh in range(shards):
        out = os.path.join(ctx.work, 'gemhist_%d.txt' % sh)
        rc, o = ctx.sh('%s gemhist -n %d -seed %d%s -out %s' % (ctx.build.harness, n // shards, ctx.seed * 100 + sh, rev, out))
        if rc != 0:
            r.engine_errors.append('gemhist failed: ' + o[-300:]); return
        rc, o = ctx.sh('%s gemhist %s' % (ctx.driver, out))
        m = re.search(r'GEMHIST (\d+) (\d+) (\d+)', o)
        if not m:
            r.engine_errors.append('driver gemhist failed: ' + o[-300:]); return
        tot += int(m.group(1)); bad += int(m.group(2)); steps += int(m.group(3))
        for l in o.splitlines():
            if l.startswith('GEMFAIL') and len(r.failures) < 10:
                f = l.split()
                line = [x for x in open(out) if x.startswith(f[1] + ' ')]
                r.failures.append({'id': f[1], 'stream': 'gemhist', 'step': f[2], 'in_guard': True, 'clause': '-', 'what': f[3],
                                   'case': (line[0].split('#')[0].strip() if line else '')[:1500],
                                   'impl': (line[0].split('#')[1].strip() if line else '')[:1500]})
            if l.startswith('GEMDIFF') and len(r.disagreements) < 10:
                f = l.split()
                line = [x for x in open(out) if x.startswith(f[1] + ' ')]
                r.disagreements.append({'id': f[1], 'stream': 'gemhist', 'step': f[2], 'model': f[3][:500], 'impl': f[4][:500],
                                        'case': (line[0].split('#')[0].strip() if line else '')[:1500]})
        if sh == 0:
            r.samples.append({'stream': 'gemhist', 'case': open(out).readline().split('#')[0].strip()[:400]})
    r.evaluations += tot
    r.agreements += tot - bad
    r.distinct_nontrivial += tot
    r.stream_counts['gemhist histories (%d operations)' % steps] = tot

def engine_race(ctx, prop, r):
    """16 goroutines on shared and unshared Editors under the Go race detector; results must equal the sequential ones.
    The test binary is built once and run in several fresh processes: lazily initialised package-level state is only
    ever filled once per process, and whether the detector sees that one write racing is a matter of schedule
    (measured: about one run in six misses it), so one process is not enough."""
    n = 200 if ctx.tier == 'quick' else 3000
    runs = 5 if ctx.tier == 'quick' else 8
    hdir = os.path.join(ctx.verif, 'harness')
    binp = os.path.join(ctx.work, 'race.test')
    rc, o = ctx.sh('go test -race -tags %s -c -o %s . 2>&1 | tail -30' % (getattr(ctx.build, 'harness_tags', 'verif'), binp), cwd=hdir, env=ctx.env, timeout=3000)
    if not os.path.exists(binp):
        r.engine_errors.append('race test binary did not build: ' + o[-600:]); return
    bad = None
    for k in range(runs):
        env = dict(ctx.env, VERIF_SEED=str(ctx.seed + 1000 * k), VERIF_RACE_CASES=str(n))
        rc, o = ctx.sh('%s -test.run TestRace -test.count=1 -test.timeout 40m 2>&1 | tail -60' % binp, cwd=hdir, env=env, timeout=3000)
        r.evaluations += n * 17
        if re.search(r'^PASS\s*$', o, re.M) and 'DATA RACE' not in o and 'FAIL' not in o:
            r.agreements += n * 17
            r.distinct_nontrivial += n
        else:
            bad = (k, o)
            break
    r.stream_counts['race stress: processes x cases x (1 sequential + 16 concurrent goroutines)'] = r.stream_counts.get('race stress: processes x cases x (1 sequential + 16 concurrent goroutines)', 0) + runs * n * 17
    if bad is None:
        r.samples.append({'stream': 'race', 'case': 'go test -race -tags verif -c; %d fresh processes of TestRace (VERIF_RACE_CASES=%d, 16 goroutines, 8 shared sub-editors)' % (runs, n)})
    else:
        k, o = bad
        kind = 'data race reported by the Go race detector' if 'DATA RACE' in o else 'concurrent result differs from sequential result or shared state changed'
        r.failures.append({'id': 'race-%d' % ctx.seed, 'stream': 'race', 'in_guard': True, 'clause': '-',
                           'case': 'cd /verif/harness && go test -race -tags verif -c -o /tmp/race.test . && VERIF_SEED=%d VERIF_RACE_CASES=%d /tmp/race.test -test.run TestRace (repeat: detection depends on the schedule)' % (ctx.seed + 1000 * k, n),
                           'impl': kind + ': ' + o[-1500:]})

class Ctx:
    def __init__(self, verif, repo, work, build, tier, seed, env, sh):
        self.verif, self.repo, self.work, self.build = verif, repo, work, build
        self.tier, self.seed, self.env, self.sh = tier, seed, env, sh
        self.driver = os.path.join(verif, 'bin', 'driver')

RELATIONAL = {'idem', 'roundtrip', 'reobserve', 'variants', 'idempotent', 'subst'}

class Result:
    def __init__(self):
        self.evaluations = 0
        self.agreements = 0
        self.disagreements = []
        self.failures = []
        self.known_hits = {}
        self.samples = []
        self.distinct = set()
        self.distinct_nontrivial = 0
        self.verdict_counts = {}
        self.stream_counts = {}
        self.distribution = {}
        self.engine_errors = []
        self.engines_unavailable = []
        self.exhaustive = False
        self.out_of_scope = {}

def load_known(verif):
    p = os.path.join(verif, 'known_findings.json')
    if not os.path.exists(p):
        return []
    return json.load(open(p))['findings']

def match_known(known, prop, failure):
    for k in known:
        if k.get('status') != 'known' or k.get('property') != prop:
            continue
        if failure.get('witness_of') == k['id']:
            return k
        if k.get('clause') and k['clause'] != '-' and failure.get('clause') == k['clause']:
            return k
    return None

def nontrivial(case_line):
    for t in case_line.split()[2:]:
        for x in re.split('[,:]', t):
            y = x.lstrip('-')
            if y.isdigit():
                v = int(x)
                if v >= 128 or v < 0:
                    return True
    return False

def run_shard(ctx, stream, seed, n, tag):
    cases = os.path.join(ctx.work, 'c_%s_%s.txt' % (stream, tag))
    res = os.path.join(ctx.work, 'g_%s_%s.txt' % (stream, tag))
    out = os.path.join(ctx.work, 'd_%s_%s.txt' % (stream, tag))
    rc, o = ctx.sh('%s gen -stream %s -seed %d -n %d -cases %s -res %s' % (ctx.build.harness, stream, seed, n, cases, res), timeout=3600)
    if rc != 0:
        return (stream, cases, res, None, 'harness failed on stream %s: %s' % (stream, o[-300:]))
    rc, o = ctx.sh('%s %s %s > %s' % (ctx.driver, cases, res, out), timeout=3600)
    if rc != 0:
        return (stream, cases, res, None, 'driver failed on stream %s: %s' % (stream, o[-300:]))
    return (stream, cases, res, out, None)

def digest(ctx, prop, r, stream, cases, res, out, witness_ids=None):
    also = PROPS.get(prop, {}).get('also', [])   # verdicts of other properties that this one's statement relies on
    case_by_id = {}
    for l in open(cases):
        l = l.rstrip('\n')
        if not l: continue
        cid = l.split(' ', 1)[0]
        case_by_id[cid] = l
        r.evaluations += 1
        key = l.split(' ', 1)[1]
        if key not in r.distinct:
            r.distinct.add(key)
            if nontrivial(l):
                r.distinct_nontrivial += 1
        if len(r.samples) < 6 and (r.evaluations % 97 == 1):
            r.samples.append({'stream': stream, 'case': l[:600]})
    res_by_id = {}
    for l in open(res):
        l = l.rstrip('\n')
        if l: res_by_id[l.split(' ', 1)[0]] = l
    r.stream_counts[stream] = r.stream_counts.get(stream, 0) + len(case_by_id)
    model_ok = {}
    pending = []
    for l in open(out):
        f = l.split()
        if len(f) < 2: continue
        cid = f[0]
        if f[1] == 'OK':
            r.agreements += 1
        elif f[1] == 'DIFF':
            opname, kind = (f[3], f[4]) if len(f) > 4 else ('?', 'R')
            if in_scope(prop, opname, kind, f[5] if len(f) > 5 else ''):
                r.disagreements.append({'id': cid, 'stream': stream, 'step': f[2], 'op': opname, 'part': kind, 'model': ' '.join(f[5:])[:400],
                                        'case': case_by_id.get(cid, '')[:2000], 'impl': res_by_id.get(cid, '')[:2000]})
            else:
                r.out_of_scope[opname] = r.out_of_scope.get(opname, 0) + 1
        elif f[1] == 'M' and (f[2] == prop or f[2] in also):
            model_ok[(cid, f[3], f[6] if len(f) > 6 else '-')] = (f[5] == '1')
        elif f[1] == 'V' and (f[2] == prop or f[2] in also):
            g, i = f[4], f[5]
            clause = f[6] if len(f) > 6 else '-'
            k = 'g%s_i%s' % (g, i)
            r.verdict_counts[k] = r.verdict_counts.get(k, 0) + 1
            if i == '0':
                pending.append((cid, f[3], g, clause))
    for cid, step, g, clause in pending:
        m = model_ok.get((cid, step, clause if clause in RELATIONAL else '-'))
        is_witness = witness_ids is not None and cid in witness_ids
        if g == '1' or m is True or is_witness:
            fail = {'id': cid, 'stream': stream, 'step': int(step), 'in_guard': g == '1', 'model_passes_check': m,
                    'clause': clause, 'case': case_by_id.get(cid, '')[:4000], 'impl': res_by_id.get(cid, '')[:4000]}
            if is_witness:
                fail['witness_of'] = witness_ids[cid]
            r.failures.append(fail)

def explore(ctx, prop, cfg):
    r = Result()
    b = ctx.build
    if not b.harness_ok:
        r.engine_errors.append('harness does not build against /repo: ' + b.harness_log[-800:])
        return r
    if not b.driver_ok:
        r.engine_errors.append('model driver could not be built')
        return r
    # 1. witnesses of listed findings and the corpus of minimised earlier failures, first
    known = load_known(ctx.verif)
    wit = {}
    wl = []
    for k in known:
        if k.get('property') == prop and k.get('case'):
            cid = k['case'].split(' ', 1)[0]
            wit[cid] = k['id']
            wl.append(k['case'])
    corpus = os.path.join(ctx.verif, 'corpus', prop + '.txt')
    if os.path.exists(corpus):
        wl += [l.rstrip('\n') for l in open(corpus) if l.strip()]
    if wl:
        cases = os.path.join(ctx.work, 'c_known.txt')
        open(cases, 'w').write('\n'.join(wl) + '\n')
        res = os.path.join(ctx.work, 'g_known.txt')
        out = os.path.join(ctx.work, 'd_known.txt')
        rc, o = ctx.sh('%s run -cases %s -res %s' % (b.harness, cases, res))
        rc2, o2 = ctx.sh('%s %s %s > %s' % (ctx.driver, cases, res, out))
        if rc == 0 and rc2 == 0:
            digest(ctx, prop, r, 'known+corpus', cases, res, out, witness_ids=wit)
        else:
            r.engine_errors.append('witness/corpus run failed: ' + (o + o2)[-300:])
    # 2. generated streams
    jobs = []
    for (stream, nq, nt) in cfg.get('streams', []):
        n = nq if ctx.tier == 'quick' else nt
        shards = 1 if ctx.tier == 'quick' else 16
        per = max(1, n // shards)
        for s in range(shards):
            jobs.append((stream, ctx.seed * 1000 + s, per, '%d' % s))
    with ThreadPoolExecutor(max_workers=16) as ex:
        futs = [ex.submit(run_shard, ctx, *j) for j in jobs]
        for f in futs:
            stream, cases, res, out, err = f.result()
            if err:
                r.engine_errors.append(err)
            else:
                digest(ctx, prop, r, stream, cases, res, out)
    # 3. special engines
    for eng in cfg.get('engines', []):
        try:
            eng = globals()[eng] if isinstance(eng, str) else eng
            eng(ctx, prop, r)
        except Exception as e:  # an engine that cannot run is an error of the check, not a pass
            r.engine_errors.append('engine %s failed: %r' % (getattr(eng, '__name__', '?'), e))
    r.distinct = None
    return r

def replay(ctx, prop, path):
    d = json.load(open(path))
    f = d.get('failure') or (d.get('first_disagreements') or [None])[0]
    if not f or not f.get('case'):
        print('replay file holds no case; broken obligations:', d.get('broken'))
        return 1
    cases = os.path.join(ctx.work, 'c_replay.txt')
    open(cases, 'w').write(f['case'] + '\n')
    res = os.path.join(ctx.work, 'g_replay.txt')
    out = os.path.join(ctx.work, 'd_replay.txt')
    ctx.sh('%s run -cases %s -res %s' % (ctx.build.harness, cases, res))
    ctx.sh('%s %s %s > %s' % (ctx.driver, cases, res, out))
    print('case :', f['case'])
    print('impl :', open(res).read().strip())
    if d.get('minimised_case'):
        print('minimised case :', d['minimised_case'])
    if d.get('go_test'):
        print('as Go code (of the minimised case when there is one):')
        print(d['go_test'])
    bad = False
    for l in open(out):
        fl = l.split()
        if len(fl) > 2 and (fl[1] in ('OK', 'DIFF') or fl[2] == prop):
            print(l.rstrip())
            if (fl[1] == 'DIFF' and (len(fl) < 5 or in_scope(prop, fl[3], fl[4], fl[5] if len(fl) > 5 else ''))) or (fl[1] == 'V' and fl[5] == '0'):
                bad = True
    if bad:
        print('VIOLATION property=%s replay=%s' % (prop, path))
        return 1
    return 0
