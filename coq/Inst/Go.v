(* The classifier of the Go code: built from the tables that the translator
   regenerates from internal/gem/graphemeclusters.go on every run. Definitions only (this is
   what the extracted model uses); the facts about it (C02) are proved in Inst/GoP.v, so that
   a change to the tables that breaks a proof does not stop the model from following the
   code. *)
From Coq Require Import ZArith List Bool Lia.
Import ListNotations.
From Rosed Require Import Base.Cls Base.Intervals Gem.Segment gen.Tables ref.Ucd13.
Open Scope Z_scope.

(* the 14 predicate values, in the order of go_tables / ucd13_tables:
   Prepend CR LF Control Extend RI SpacingMark L V T LV LVT ZWJ ExtPict *)
Definition bits (T : list (list (Z*Z))) (r : Z) : list bool := map (fun tab => inr r tab) T.

Definition class_of_bits (b : list bool) : cls :=
  match b with
  | [pre; cr; lf; ctl; ext; ri; sm; l; v; t; lv; lvt; zwj; ep] =>
      if cr then CR else if lf then LF else if ctl then Control else if ext then Extend else
      if zwj then ZWJ else if ri then RI else if pre then Prepend else if sm then SpacingMark else
      if l then L else if v then V else if t then T else if lv then LV else if lvt then LVT else
      if ep then ExtPict else Other
  | _ => Other
  end.

Definition class_of_tabs (T : list (list (Z*Z))) (r : Z) : cls := class_of_bits (bits T r).

(* all constants any of these functions compares r with *)
Definition all_bps : list Z :=
  Eval vm_compute in zsort (0 :: 128 :: 1114112 :: flat_map bps_of (go_tables ++ ucd13_tables)).

(* a decision tree for the classification; the root separates ASCII so that the
   common case is decided in a few comparisons *)
Definition go_tree : tree cls :=
  Eval vm_compute in
    Node 128 (build 24 (class_of_tabs go_tables) (lowest all_bps - 1) (filter (fun b => b <? 128) all_bps))
             (build 24 (class_of_tabs go_tables) 128 (filter (fun b => 128 <? b) all_bps)).

Definition go_class_of (r : Z) : cls := lookup go_tree r.

#[export] Instance GoClassifier : Classifier := {| class_of := go_class_of |}.
