(* Facts about the classifier of the Go code (Inst/Go.v), proved by the piecewise-constant
   principle of Base/Intervals.v plus finite checks by vm_compute (C02). *)
From Coq Require Import ZArith List Bool Lia.
Import ListNotations.
From Rosed Require Import Base.Cls Base.Intervals Gem.Segment gen.Tables ref.Ucd13.
From Rosed Require Export Inst.Go.
Open Scope Z_scope.

(* ---- piecewise-ness ---- *)
Lemma bits_piecewise T : forallb (fun tab => zincl (bps_of tab) all_bps) T = true -> piecewise all_bps (bits T).
Proof.
  intro Hc. unfold bits.
  rewrite forallb_forall in Hc.
  intros r r' Hs. apply map_ext_in. intros tab Hin.
  apply (piecewise_inr all_bps tab); [apply zincl_incl, Hc, Hin|exact Hs].
Qed.

Lemma go_incl : forallb (fun tab => zincl (bps_of tab) all_bps) go_tables = true.
Proof. vm_cast_no_check (eq_refl true). Qed.
Lemma ucd_incl : forallb (fun tab => zincl (bps_of tab) all_bps) ucd13_tables = true.
Proof. vm_cast_no_check (eq_refl true). Qed.
Lemma tree_incl : zincl (keys go_tree) all_bps = true.
Proof. vm_cast_no_check (eq_refl true). Qed.

Definition list_bool_eqb (a b : list bool) : bool :=
  (Nat.eqb (length a) (length b)) && forallb (fun p => Bool.eqb (fst p) (snd p)) (combine a b).
Lemma list_bool_eqb_ok a b : list_bool_eqb a b = true -> a = b.
Proof.
  unfold list_bool_eqb. revert b; induction a as [|x a IH]; intros [|y b]; cbn; try discriminate; [reflexivity|].
  intro E. apply andb_true_iff in E as [E1 E2]. apply andb_true_iff in E2 as [E2 E3].
  apply Bool.eqb_prop in E2. subst. f_equal. apply IH. rewrite E1, E3. reflexivity.
Qed.

(* ---- C02: the Go tables are the Unicode 13.0.0 tables, for every integer ---- *)
Theorem go_tables_are_ucd13 : forall r : Z, bits go_tables r = bits ucd13_tables r.
Proof.
  apply (piecewise_forall list_bool_eqb list_bool_eqb_ok all_bps).
  - apply bits_piecewise, go_incl.
  - apply bits_piecewise, ucd_incl.
  - vm_cast_no_check (eq_refl true).
Qed.

(* the fast lookup used by the extracted model is the table-driven classification *)
Theorem go_class_of_spec : forall r : Z, go_class_of r = class_of_tabs go_tables r.
Proof.
  apply (piecewise_forall cls_eqb (fun a b => proj1 (cls_eqb_eq a b)) all_bps).
  - apply piecewise_lookup, zincl_incl, tree_incl.
  - unfold class_of_tabs. apply piecewise_comp, bits_piecewise, go_incl.
  - vm_cast_no_check (eq_refl true).
Qed.

(* every integer satisfies at most one of the thirteen Grapheme_Cluster_Break
   predicates, and Extended_Pictographic only if it satisfies none of them *)
Definition count_true (l : list bool) : nat := length (filter (fun b => b) l).
Definition one_class (b : list bool) : bool := Nat.leb (count_true b) 1.
Theorem go_one_class : forall r : Z, one_class (bits go_tables r) = true.
Proof.
  apply (piecewise_forall_true all_bps).
  - apply (piecewise_comp all_bps (bits go_tables) one_class), bits_piecewise, go_incl.
  - vm_cast_no_check (eq_refl true).
Qed.

(* out-of-range and negative values are in no table, hence Other *)
Definition in_range (r : Z) : bool := (0 <=? r) && negb (1114112 <=? r).
Definition none_set (b : list bool) : bool := Nat.eqb (count_true b) 0.
Lemma in_range_piecewise : piecewise all_bps in_range.
Proof.
  assert (H0 : In 0 all_bps) by (apply zmem_in; vm_compute; reflexivity).
  assert (H1 : In 1114112 all_bps) by (apply zmem_in; vm_compute; reflexivity).
  intros r r' Hs. unfold in_range. rewrite (Hs _ H0), (Hs _ H1). reflexivity.
Qed.
Theorem go_out_of_range : forall r : Z, in_range r || none_set (bits go_tables r) = true.
Proof.
  apply (piecewise_forall_true all_bps).
  - intros r r' Hs. rewrite (in_range_piecewise _ _ Hs).
    rewrite (bits_piecewise go_tables go_incl _ _ Hs). reflexivity.
  - vm_cast_no_check (eq_refl true).
Qed.
Lemma count_true_0 l : count_true l = 0%nat -> l = repeat false (length l).
Proof.
  induction l as [|[] l IH]; cbn; intro E; [reflexivity|discriminate|]. f_equal. apply IH, E.
Qed.
Corollary go_out_of_range_other r : r < 0 \/ 1114111 < r -> go_class_of r = Other.
Proof.
  intro Hr. pose proof (go_out_of_range r) as H. rewrite go_class_of_spec. unfold class_of_tabs.
  assert (E : in_range r = false) by (unfold in_range; destruct (0 <=? r) eqn:E1, (1114112 <=? r) eqn:E2; try reflexivity; lia).
  rewrite E in H. cbn [orb] in H. unfold none_set in H. apply Nat.eqb_eq in H.
  apply count_true_0 in H. rewrite H. unfold bits. rewrite map_length. reflexivity.
Qed.

(* Hangul syllables: LV exactly at the arithmetic positions, LVT at the others *)
Definition hangul_ok (k : nat) : bool :=
  let r := 44032 + Z.of_nat k in
  let lv := inr r isCbLV_tab in let lvt := inr r isCbLVT_tab in
  Bool.eqb lv ((r - 44032) mod 28 =? 0) && Bool.eqb lvt (negb ((r - 44032) mod 28 =? 0)).
Lemma hangul_all : forallb hangul_ok (seq 0 (Z.to_nat 11172)) = true.
Proof. vm_cast_no_check (eq_refl true). Qed.
Theorem go_hangul r : 44032 <= r <= 55203 ->
  inr r isCbLV_tab = ((r - 44032) mod 28 =? 0) /\ inr r isCbLVT_tab = negb ((r - 44032) mod 28 =? 0).
Proof.
  intro Hr. pose proof hangul_all as H. rewrite forallb_forall in H.
  specialize (H (Z.to_nat (r - 44032))). unfold hangul_ok in H.
  rewrite Z2Nat.id in H by lia. replace (44032 + (r - 44032)) with r in H by lia.
  assert (Hin : In (Z.to_nat (r - 44032)) (seq 0 (Z.to_nat 11172))) by (apply in_seq; lia).
  apply H in Hin. apply andb_true_iff in Hin as [H1 H2].
  split; apply Bool.eqb_prop; assumption.
Qed.
Definition outside_hangul (b : list bool) : bool :=
  match b with [_;_;_;_;_;_;_;_;_;_; lv; lvt; _; _] => negb lv && negb lvt | _ => false end.
Definition in_hangul (r : Z) : bool := (44032 <=? r) && negb (55204 <=? r).
Theorem go_hangul_outside : forall r : Z, in_hangul r || outside_hangul (bits go_tables r) = true.
Proof.
  assert (H0 : In 44032 all_bps) by (apply zmem_in; vm_compute; reflexivity).
  assert (H1 : In 55204 all_bps) by (apply zmem_in; vm_compute; reflexivity).
  apply (piecewise_forall_true all_bps).
  - intros r r' Hs. unfold in_hangul. rewrite (Hs _ H0), (Hs _ H1).
    rewrite (bits_piecewise go_tables go_incl _ _ Hs). reflexivity.
  - vm_cast_no_check (eq_refl true).
Qed.
