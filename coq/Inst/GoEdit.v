(* Insert, Delete and Overtype of operations.go, translated statement by statement on every run
   (gen/GemEdit.v), are the model's insert, delete and overtype (C09). Every call that can panic
   (the selections, the byte slices of the text, the dereference of the selection's parent
   reference) is bound in the order Go evaluates it; the model binds the same calls in the same
   order. *)
From Coq Require Import List Bool ZArith Lia ZifyBool.
Import ListNotations.
From Rosed Require Import Base.Res Base.ListX Base.Utf8 Gem.Segment Gem.GString Model.Manip Model.Table Model.Options Model.Editor Model.Ops Inst.GoRt Inst.GoTac gen.GemEdit.
Open Scope Z_scope.

Section GoEdit.
Context `{Classifier} `{Upper}.

Theorem go_insert_eq e pos text : go_Insert e pos text = insert pos text e.
Proof. unfold go_Insert, insert. go_res. Qed.

Theorem go_delete_eq e s en : go_Delete e s en = delete s en e.
Proof. unfold go_Delete, delete. go_res. Qed.

Theorem go_overtype_eq e pos text : go_Overtype e pos text = overtype pos text e.
Proof. unfold go_Overtype, overtype. go_res. Qed.

End GoEdit.
