(* Commit and String of subeditor.go, translated statement by statement on every run
   (gen/GemCommit.v), are the model's commit and ed_string (C05): the prefix and the suffix of the
   parent's text around the recorded byte range, the sub-editor's text between them, the parent's
   options and reference kept. CommitAll is a loop (Commit until the root); String is translated
   with that call mapped onto the model's commit_all. *)
From Coq Require Import List Bool ZArith Lia.
Import ListNotations.
From Rosed Require Import Base.Res Base.ListX Gem.Segment Model.Options Model.Editor Inst.GoRt Inst.GoTac gen.GemCommit.
Open Scope Z_scope.

Section GoCommit.
Context `{Classifier}.

Theorem go_commit_eq e : go_Commit e = commit e.
Proof. unfold go_Commit, commit. go_res. Qed.

Theorem go_string_eq e : go_String e = ed_string e.
Proof. unfold go_String, ed_string, commit_all. go_res. Qed.

End GoCommit.
