(* CharsFrom / CharsTo (C04) and LinesFrom / LinesTo (C10) of subeditor.go, translated on every
   run (gen/GemChars.v, gen/GemLines.v), are the model's selectors. *)
From Coq Require Import List Bool ZArith Lia.
From Rosed Require Import Base.Res Gem.Segment Model.Editor Inst.GoRt Inst.GoTac gen.GemChars.
Open Scope Z_scope.

Section GoSel.
Context `{Classifier}.
Theorem go_chars_from_eq e s : go_CharsFrom e s = chars_from e s.
Proof. unfold go_CharsFrom, chars_from. rewrite ?bind_ret. go_res. Qed.
Theorem go_chars_to_eq e en : go_CharsTo e en = chars_to e en.
Proof. unfold go_CharsTo, chars_to. rewrite ?bind_ret. go_res. Qed.
End GoSel.
