(* What the statement-by-statement translation of Go functions (translator/gemfunc.go,
   gen/GemFuncs.v) refers to besides the model's own functions: the test for the empty string
   and the field updates of an Options value (Go assigns to a field of its copy of the struct). *)
From Coq Require Import List ZArith.
Import ListNotations.
From Rosed Require Import Base.Res Model.Options Model.Editor.

Definition str_empty (s : list Z) : bool := match s with [] => true | _ => false end.

Definition set_o_indent (o : options) (v : list Z) : options :=
  {| o_indent := v; o_linesep := o_linesep o; o_notrailing := o_notrailing o; o_parasep := o_parasep o;
     o_preserve := o_preserve o; o_justlast := o_justlast o; o_borders := o_borders o; o_headers := o_headers o; o_charset := o_charset o |}.
Definition set_o_linesep (o : options) (v : list Z) : options :=
  {| o_indent := o_indent o; o_linesep := v; o_notrailing := o_notrailing o; o_parasep := o_parasep o;
     o_preserve := o_preserve o; o_justlast := o_justlast o; o_borders := o_borders o; o_headers := o_headers o; o_charset := o_charset o |}.
Definition set_o_notrailing (o : options) (v : bool) : options :=
  {| o_indent := o_indent o; o_linesep := o_linesep o; o_notrailing := v; o_parasep := o_parasep o;
     o_preserve := o_preserve o; o_justlast := o_justlast o; o_borders := o_borders o; o_headers := o_headers o; o_charset := o_charset o |}.
Definition set_o_parasep (o : options) (v : list Z) : options :=
  {| o_indent := o_indent o; o_linesep := o_linesep o; o_notrailing := o_notrailing o; o_parasep := v;
     o_preserve := o_preserve o; o_justlast := o_justlast o; o_borders := o_borders o; o_headers := o_headers o; o_charset := o_charset o |}.
Definition set_o_preserve (o : options) (v : bool) : options :=
  {| o_indent := o_indent o; o_linesep := o_linesep o; o_notrailing := o_notrailing o; o_parasep := o_parasep o;
     o_preserve := v; o_justlast := o_justlast o; o_borders := o_borders o; o_headers := o_headers o; o_charset := o_charset o |}.
Definition set_o_justlast (o : options) (v : bool) : options :=
  {| o_indent := o_indent o; o_linesep := o_linesep o; o_notrailing := o_notrailing o; o_parasep := o_parasep o;
     o_preserve := o_preserve o; o_justlast := v; o_borders := o_borders o; o_headers := o_headers o; o_charset := o_charset o |}.
Definition set_o_borders (o : options) (v : bool) : options :=
  {| o_indent := o_indent o; o_linesep := o_linesep o; o_notrailing := o_notrailing o; o_parasep := o_parasep o;
     o_preserve := o_preserve o; o_justlast := o_justlast o; o_borders := v; o_headers := o_headers o; o_charset := o_charset o |}.
Definition set_o_headers (o : options) (v : bool) : options :=
  {| o_indent := o_indent o; o_linesep := o_linesep o; o_notrailing := o_notrailing o; o_parasep := o_parasep o;
     o_preserve := o_preserve o; o_justlast := o_justlast o; o_borders := o_borders o; o_headers := v; o_charset := o_charset o |}.
Definition set_o_charset (o : options) (v : list Z) : options :=
  {| o_indent := o_indent o; o_linesep := o_linesep o; o_notrailing := o_notrailing o; o_parasep := o_parasep o;
     o_preserve := o_preserve o; o_justlast := o_justlast o; o_borders := o_borders o; o_headers := o_headers o; o_charset := v |}.

(* sel.ref.start / sel.ref.end: dereferencing the parent reference of a sub-editor panics when
   there is none *)
Definition ed_ref (e : editor) : Res (editor * Z * Z) :=
  match e_ref e with None => Panic P_index | Some r => Ok r end.
Definition ref_parent (r : editor * Z * Z) : editor := fst (fst r).
Definition ref_start (r : editor * Z * Z) : Z := snd (fst r).
Definition ref_end (r : editor * Z * Z) : Z := snd r.

(* unfold hints for helper functions the translator finds on its own (gen/Gem*.v) *)
Create HintDb go_defs.
