(* Tactics for the equality proofs between translated Go functions (gen/Gem*.v) and the model.
   They do not depend on how the Go function arranges its statements: every condition of both
   sides is case-split, every call that can panic is case-split on its outcome in order, and
   what remains must agree up to integer arithmetic and associativity of concatenation. *)
From Coq Require Import List Bool ZArith Lia ZifyBool.
From Rosed Require Import Base.Res Model.Editor Inst.GoRt.
Open Scope Z_scope.

(* one case split, innermost condition first (a condition that itself contains a conditional is
   left for later, so that no conditional ends up in a hypothesis) *)
Ltac split_if :=
  match goal with |- context [if ?c then _ else _] =>
    lazymatch c with context [if _ then _ else _] => fail | _ => destruct c eqn:? end end.

Ltac go_eq :=
  autounfold with go_defs; cbv zeta;
  repeat (cbv zeta beta iota; split_if); cbv zeta beta iota;
  try reflexivity; try (exfalso; lia);
  repeat (f_equal; try lia; try reflexivity).

Ltac go_res :=
  autounfold with go_defs; cbv zeta; unfold ed_ref, ref_parent, ref_start, ref_end, is_sub_editor;
  repeat (match goal with
          | |- context [match e_ref ?x with _ => _ end] => destruct (e_ref x) as [[[? ?] ?]|]; cbn [bind fst snd negb]
          | |- context [if ?c then _ else _] =>
              lazymatch c with context [if _ then _ else _] => fail | _ => destruct c eqn:?; cbn [bind] end
          | |- context [bind ?r _] =>
              lazymatch r with
              | Ok _ => cbn [bind]
              | Panic _ => cbn [bind]
              | OutOfFuel => cbn [bind]
              | context [if _ then _ else _] => fail
              | context [match _ with _ => _ end] => fail
              | context [bind _ _] => fail
              | _ => destruct r as [?| |]; cbn [bind]
              end
          end);
  rewrite <- ?app_assoc; cbn [app]; try reflexivity; try discriminate.

Lemma bind_ret {A} (r : Res A) : (do x <- r; Ok x) = r.
Proof. destruct r; reflexivity. Qed.
