(* Options.WithDefaults of options.go, translated statement by statement on every run
   (gen/GemOpts.v, with whatever helper functions it calls), is the model's with_defaults (C17). *)
From Coq Require Import List Bool ZArith Lia ZifyBool.
Import ListNotations.
From Rosed Require Import Base.Res Base.Utf8 Gem.Segment Gem.GString Model.Manip Model.Options Inst.GoRt Inst.GoTac gen.Consts gen.GemOpts Inst.GoConsts.
Open Scope Z_scope.

Section GoOpts.
Context `{Classifier}.

Theorem go_with_defaults_eq o : go_WithDefaults o = with_defaults o.
Proof.
  destruct go_defaults_eq as (Ei & El & Ep & Ec).
  unfold go_WithDefaults, with_defaults. autounfold with go_defs. rewrite ?Ei, ?El, ?Ep, ?Ec.
  destruct o as [ind ls nt ps pr jl bo he cs].
  (* the three plain strings: empty or not *)
  destruct ls, ind, ps;
  cbv zeta; unfold set_o_linesep, set_o_indent, set_o_parasep, set_o_charset;
  cbn [str_empty o_indent o_linesep o_notrailing o_parasep o_preserve o_justlast o_borders o_headers o_charset negb];
  (* the table character set: shorter, longer or as long as the default *)
  repeat (cbv zeta beta iota; split_if); cbv zeta beta iota;
  try reflexivity; try (exfalso; lia);
  repeat (f_equal; try lia; try reflexivity).
Qed.

End GoOpts.
