(* The Go sources of CountLeadingWhitespace, CountTrailingWhitespace, AlignLineLeft,
   AlignLineRight and AlignLineCenter (internal/manip/manip.go), translated statement by
   statement on every run (gen/GemAlign.v), are the model's count_leading_ws, count_trailing_ws,
   align_left, align_right and align_center - so the theorems about alignment (C13) are about the
   control flow, comparisons, arithmetic and argument order of the code as it is now. A change to
   one of these Go functions that changes its meaning breaks the corresponding proof. *)
From Coq Require Import List Bool ZArith Lia ZifyBool.
Import ListNotations.
From Rosed Require Import Base.Res Base.ListX Base.Utf8 Gem.Segment Gem.GString Model.Util Model.Manip Proofs.C13P Inst.GoRt Inst.GoTac gen.GemAlign.
Open Scope Z_scope.

(* lia with Go's truncating division (Z.quot), the model's flooring one (Z.div) and remainders *)
Ltac Zify.zify_post_hook ::= Z.to_euclidean_division_equations.

Section GoAlign.
Context `{Classifier}.

Theorem go_count_leading_eq text : go_CountLeadingWhitespace text = count_leading_ws text.
Proof. unfold go_CountLeadingWhitespace, count_leading_ws. autounfold with go_defs. go_eq. Qed.

Theorem go_count_trailing_eq text : go_CountTrailingWhitespace text = count_trailing_ws text.
Proof. unfold go_CountTrailingWhitespace, count_trailing_ws. autounfold with go_defs. go_eq. Qed.

(* what the proofs below may use about the two counters and about negative end positions *)
Lemma count_leading_range text : 0 <= count_leading_ws text <= glen text.
Proof. rewrite count_leading_spec. pose proof (lead_ws_le (clusters text)). unfold glen, zlen. lia. Qed.

Lemma count_trailing_range text : 0 <= count_trailing_ws text <= glen text.
Proof. rewrite count_trailing_spec. pose proof (lead_ws_le (rev (clusters text))) as Hl. rewrite rev_length in Hl. unfold glen, zlen. lia. Qed.

(* Sub with a negative end counts from the end *)
Lemma gsub_neg_end t a k : 0 < k <= glen t -> gsub t a (- k) = gsub t a (glen t - k).
Proof.
  intro Hk. unfold gsub. fold (glen t). replace (range_to_indexes (glen t) a (- k)) with (range_to_indexes (glen t) a (glen t - k)); [reflexivity|].
  unfold range_to_indexes. replace (- k <? 0) with true by lia. replace (- k + glen t <? 0) with false by lia.
  replace (glen t - k <? 0) with false by lia. replace (- k + glen t) with (glen t - k) by lia. reflexivity.
Qed.

(* case split on every condition of both sides; positions counted from the end rewritten as
   positions from the start; Go's truncating division as the model's where the dividend is
   positive; what remains agrees up to integer arithmetic *)
Ltac go_align text :=
  pose proof (count_leading_range text); pose proof (count_trailing_range text);
  autounfold with go_defs; rewrite ?go_count_leading_eq, ?go_count_trailing_eq; cbv zeta;
  repeat (cbv zeta beta iota; split_if); cbv zeta beta iota;
  try (assert (E0 : count_trailing_ws text = 0) by lia; rewrite E0 in * );
  try (assert (E1 : count_leading_ws text = 0) by lia; rewrite E1 in * );
  rewrite ?gsub_neg_end in * by lia; rewrite ?Z.sub_0_r, ?Z.add_0_r, ?Z.add_0_l in *;
  try reflexivity; try (exfalso; lia);
  repeat (f_equal; try lia; try reflexivity).

Theorem go_align_left_eq text width : go_AlignLineLeft text width = align_left text width.
Proof. unfold go_AlignLineLeft, align_left. go_align text. Qed.

Theorem go_align_right_eq text width : go_AlignLineRight text width = align_right text width.
Proof. unfold go_AlignLineRight, align_right. go_align text. Qed.

(* Go's integer division truncates toward zero; the model's floors; they agree where the
   quotient is used (a positive number of missing columns) *)
Theorem go_align_center_eq text width : go_AlignLineCenter text width = align_center text width.
Proof. unfold go_AlignLineCenter, align_center. go_align text. Qed.

End GoAlign.
