(* The Go classifier satisfies the facts the layout proofs rely on. *)
From Coq Require Import ZArith List Bool Lia ZifyBool.
Import ListNotations.
From Rosed Require Import Base.Cls Base.Intervals Gem.Segment Model.Manip Proofs.SeamP Inst.Go.
Open Scope Z_scope.

Lemma go_ascii_check : forallb (fun k => cls_eqb (go_class_of (32 + Z.of_nat k)) Other) (seq 0 95) = true.
Proof. vm_cast_no_check (eq_refl true). Qed.

Lemma go_ascii r : 32 <= r < 127 -> go_class_of r = Other.
Proof.
  intro Hr. pose proof go_ascii_check as H. rewrite forallb_forall in H.
  specialize (H (Z.to_nat (r - 32))). rewrite Z2Nat.id in H by lia. replace (32 + (r - 32)) with r in H by lia.
  apply cls_eqb_eq, H, in_seq. lia.
Qed.

Definition space_list : list Z :=
  [9; 10; 11; 12; 13; 32; 133; 160; 5760; 8192; 8193; 8194; 8195; 8196; 8197; 8198; 8199; 8200; 8201; 8202; 8232; 8233; 8239; 8287; 12288].

Lemma is_space_list r : is_space r = true -> In r space_list.
Proof.
  unfold is_space. intro H. unfold space_list.
  assert (E : r = 9 \/ r = 10 \/ r = 11 \/ r = 12 \/ r = 13 \/ r = 32 \/ r = 133 \/ r = 160 \/ r = 5760 \/
              8192 <= r <= 8202 \/ r = 8232 \/ r = 8233 \/ r = 8239 \/ r = 8287 \/ r = 12288) by lia.
  cbn [In]. lia.
Qed.

Lemma go_space_check :
  forallb (fun r => match go_class_of r with Other | Control | CR | LF => true | _ => false end) space_list = true.
Proof. vm_cast_no_check (eq_refl true). Qed.

Lemma go_space r : is_space r = true ->
  go_class_of r = Other \/ go_class_of r = Control \/ go_class_of r = CR \/ go_class_of r = LF.
Proof.
  intro H. apply is_space_list in H. pose proof go_space_check as Hc. rewrite forallb_forall in Hc.
  specialize (Hc r H). destruct (go_class_of r); try discriminate; tauto.
Qed.

#[export] Instance GoClassifierOk : @ClassifierOk GoClassifier.
Proof.
  constructor.
  - exact go_ascii.
  - exact go_space.
  - vm_compute. reflexivity.
  - vm_compute. reflexivity.
Qed.
