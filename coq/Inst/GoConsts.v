(* The constants of the Go source (regenerated on every run into gen/Consts.v) are the ones
   the model uses. A changed default or layout constant breaks this file. *)
From Coq Require Import List ZArith.
Import ListNotations.
From Rosed Require Import Model.Manip Model.Options gen.Consts.
Open Scope Z_scope.

Theorem go_defaults_eq :
  go_DefaultIndentString = default_indent /\ go_DefaultLineSeparator = default_linesep /\
  go_DefaultParagraphSeparator = default_parasep /\ go_DefaultTableCharSet = default_charset.
Proof. repeat split; reflexivity. Qed.

