(* The constants of the Go source (regenerated on every run into gen/Consts.v) are the ones
   the model uses. A changed default or layout constant breaks this file. *)
From Coq Require Import List ZArith.
Import ListNotations.
From Rosed Require Import Model.Manip Model.Options gen.Consts.
Open Scope Z_scope.

Theorem go_defaults_eq :
  go_DefaultIndentString = default_indent /\ go_DefaultLineSeparator = default_linesep /\
  go_DefaultParagraphSeparator = default_parasep /\ go_DefaultTableCharSet = default_charset.
Proof. repeat split; reflexivity. Qed.

(* the literals the model of InsertDefinitionsTable and MakeTable writes out:
   "- " before a definition, two spaces before a term (termLeftTabWidth), two spaces between
   the columns (minBetween), and the inter-column padding of borderless tables *)
Theorem go_layout_consts_eq :
  go_definitionStart = [HYPHEN; SP] /\ go_termLeftTabWidth = 2 /\ go_minBetween = 2 /\ go_minNonBorderInterColumnPadding = 2.
Proof. repeat split; reflexivity. Qed.
