(* LinesFrom / LinesTo (C10) of subeditor.go, translated on every run (gen/GemLines.v), are the
   model's selectors. *)
From Coq Require Import List Bool ZArith Lia.
From Rosed Require Import Base.Res Gem.Segment Model.Editor Inst.GoRt Inst.GoTac gen.GemLines.
Open Scope Z_scope.

Section GoSelLines.
Context `{Classifier}.
Theorem go_lines_from_eq e s : go_LinesFrom e s = lines_from e s.
Proof. unfold go_LinesFrom, lines_from. rewrite ?bind_ret. go_res. Qed.
Theorem go_lines_to_eq e en : go_LinesTo e en = lines_to e en.
Proof. unfold go_LinesTo, lines_to. rewrite ?bind_ret. go_res. Qed.
End GoSelLines.
