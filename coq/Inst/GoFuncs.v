(* The Go source of util.RangeToIndexes, translated statement by statement on every run
   (gen/Funcs.v, with whatever helper functions it calls), is the model's range_to_indexes - so
   every theorem that mentions position normalisation (C04, C09, C10, C19) is about the code as
   it is now. A change to the Go function that changes its meaning breaks this proof. *)
From Coq Require Import List Bool ZArith Lia ZifyBool.
From Rosed Require Import Model.Util Inst.GoRt Inst.GoTac gen.Funcs.
Open Scope Z_scope.

(* for every size a text can have (sizes are lengths, never negative) *)
Theorem go_range_to_indexes_eq : forall size s e, 0 <= size -> go_RangeToIndexes size s e = range_to_indexes size s e.
Proof.
  intros size s e Hsize. unfold go_RangeToIndexes, range_to_indexes. autounfold with go_defs.
  repeat (cbv zeta beta iota; split_if); cbv zeta beta iota; f_equal; lia.
Qed.
