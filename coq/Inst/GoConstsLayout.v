(* The layout constants of operations.go (regenerated on every run into gen/Consts.v) are the
   ones the model of InsertDefinitionsTable uses (C15). Kept apart from Inst/GoConsts.v so that a
   renamed layout constant does not touch the option defaults (C17). *)
From Coq Require Import List ZArith.
Import ListNotations.
From Rosed Require Import Model.Manip gen.Consts.
Open Scope Z_scope.

(* the literals the model of InsertDefinitionsTable writes out: "- " before a definition, two
   spaces before a term (termLeftTabWidth), two spaces between the columns (minBetween) *)
Theorem go_layout_consts_eq :
  go_definitionStart = [HYPHEN; SP] /\ go_termLeftTabWidth = 2 /\ go_minBetween = 2.
Proof. repeat split; reflexivity. Qed.
