(* Faithful model of shouldBreakAfter (internal/gem/graphemeclusters.go) and Split (gem.go) on class lists. *)
From Coq Require Import List Bool Arith Lia.
Import ListNotations.
From Rosed Require Import Base.Cls.

(* ---------- faithful model of shouldBreakAfter, zipper form ----------
   pre  = chars[0..i-1] reversed (chars[i-1] first), r = chars[i], nxt = chars[i+1..] *)
Fixpoint gb11_scan (pre : list cls) : bool :=   (* for j := i-1; j>=0; j-- *)
  match pre with
  | [] => false
  | c :: rest => if negb (c =c Extend) then (c =c ExtPict) else gb11_scan rest
  end.
Fixpoint ri_prior (pre : list cls) : nat :=
  match pre with
  | c :: rest => if negb (c =c RI) then 0 else S (ri_prior rest)
  | [] => 0
  end.
Definition isctl c := (c =c Control) || (c =c CR) || (c =c LF).
Definition sba (pre : list cls) (r : cls) (nxt : list cls) : bool :=
  match nxt with
  | [] => true
  | n :: _ =>
    if (r =c CR) && (n =c LF) then false else
    if isctl r then true else
    if isctl n then true else
    if (r =c L) && ((n =c L) || (n =c V) || (n =c LV) || (n =c LVT)) then false else
    if ((r =c LV) || (r =c V)) && ((n =c V) || (n =c T)) then false else
    if ((r =c LVT) || (r =c T)) && (n =c T) then false else
    if (n =c Extend) || (n =c ZWJ) then false else
    if (n =c SpacingMark) then false else
    if (r =c Prepend) then false else
    if (r =c ZWJ) && (n =c ExtPict) && negb (match pre with [] => true | _ => false end) && gb11_scan pre then false else
    if (r =c RI) && (n =c RI) && Nat.even (ri_prior pre) then false else
    true
  end.
(* Split: exclusive end indexes *)
Fixpoint split_aux (pre : list cls) (i : nat) (cs : list cls) : list nat :=
  match cs with
  | [] => []
  | r :: nxt => (if sba pre r nxt then [S i] else []) ++ split_aux (r :: pre) (S i) nxt
  end.
Definition split cs := split_aux [] 0 cs.

