(* The specification C19 measures gem.String against: a pool of values that are nothing but
   their code points; every derivation and every observation is a function of content.
   Histories use the same operation type as the heap model (Gem/GHeap.v). *)
From Coq Require Import List Bool Arith ZArith Lia.
Import ListNotations.
From Rosed Require Import Base.Res Base.ListX Gem.Segment Gem.GString Gem.GHeap Model.Util.

Section GSpec.
Context `{Classifier}.

Definition pstep (pool : list (list Z)) (o : gop) : list (list Z) * gout :=
  let get i := nth i pool [] in
  match o with
  | GNew rs => (pool ++ [rs], OutNone)
  | GZero => (pool ++ [[]], OutNone)
  | GZeroValue => (pool ++ [[]], OutNone)
  | GCopy i => (pool ++ [get i], OutNone)
  | GAdd i j => (pool ++ [gadd (get i) (get j)], OutNone)
  | GSub i a b => (pool ++ [gsub (get i) a b], OutNone)
  | GSetCharAt i idx r => match gset_char_at (get i) idx r with
                          | Ok rs => (pool ++ [rs], OutNone)
                          | _ => (pool, OutPanic)
                          end
  | GRepeat i n => (pool ++ [grepeat (get i) n], OutNone)
  | GCharAt i idx => (pool, match gchar_at (get i) idx with Ok c => OutRunes c | _ => OutPanic end)
  | GLen i => (pool, OutInt (glen (get i)))
  | GRunes i => (pool, OutRunes (get i))
  | GIndexes i => (pool, OutPairs (combine (O :: split_runes (get i)) (split_runes (get i))))
  | GReverse i => (pool ++ [concat (rev (clusters (get i)))], OutNone)
  end.

Fixpoint prun (pool : list (list Z)) (ops : list gop) : list (list (list Z) * gout) :=
  match ops with
  | [] => []
  | o :: rest => let '(pool', out) := pstep pool o in (pool', out) :: prun pool' rest
  end.

(* C19's quantifier: Reverse deliberately installs mirrored boundaries and is excluded *)
Definition in_c19 (o : gop) : Prop := match o with GReverse _ => False | _ => True end.

End GSpec.
