(* Heap-level model of gem.String (internal/gem/string.go): a value is its runes
   plus a pointer to a cache cell shared by all value copies; the cell holds a nil
   slice or the cluster ends. Written after the Go code method by method, with
   every read, write and allocation of a cell explicit. *)
From Coq Require Import List Bool Arith ZArith Lia.
Import ListNotations.
From Rosed Require Import Base.Res Base.ListX Gem.Segment Model.Util.
Open Scope Z_scope.

Record gval := { g_r : list Z; g_c : option nat }.     (* None: nil pointer (the zero value String{}) *)
Definition heap := list (option (list nat)).             (* cell contents: None = nil slice *)

Definition zero_loc : nat := O.
Definition heap0 : heap := [Some []].                    (* gem.Zero's cell: non-nil and empty *)
Definition gzero : gval := {| g_r := []; g_c := Some zero_loc |}.

Section GH.
Context `{Classifier}.

Definition alloc (h : heap) (c : option (list nat)) : heap * nat := (h ++ [c], length h).
Definition rd (h : heap) (l : nat) : option (list nat) := match nth_error h l with Some c => c | None => None end.
Definition wr (h : heap) (l : nat) (c : option (list nat)) : heap := set_nth h l c.

(* initialized(): a nil pointer is replaced, in the callee's copy only, by a fresh cell *)
Definition initialized (h : heap) (v : gval) : heap * gval :=
  match g_c v with
  | Some _ => (h, v)
  | None => let '(h, l) := alloc h None in (h, {| g_r := g_r v; g_c := Some l |})
  end.
Definition cell_of (v : gval) : nat := match g_c v with Some l => l | None => O end.

(* fill the receiver's cell if it is nil *)
Definition fill (h : heap) (v : gval) : heap :=
  match rd h (cell_of v) with
  | None => wr h (cell_of v) (Some (split_runes (g_r v)))
  | Some _ => h
  end.

Definition gh_clone (h : heap) (v : gval) : heap * gval :=
  let '(h, v) := initialized h v in
  let '(h, l) := alloc h None in
  match rd h (cell_of v) with
  | Some ends => let '(h, l2) := alloc h (Some ends) in (h, {| g_r := g_r v; g_c := Some l2 |})
  | None => (h, {| g_r := g_r v; g_c := Some l |})
  end.

Definition gh_new (h : heap) (rs : list Z) : heap * gval :=
  let '(h, l) := alloc h None in (h, {| g_r := rs; g_c := Some l |}).

Definition gh_runes (h : heap) (v : gval) : heap * list Z := let '(h, v) := initialized h v in (h, g_r v).

Definition gh_add (h : heap) (v s2 : gval) : heap * gval :=
  let '(h, v) := initialized h v in
  let '(h, r2) := gh_clone h v in
  let h := wr h (cell_of r2) None in
  let '(h, rs2) := gh_runes h s2 in
  (h, {| g_r := g_r r2 ++ rs2; g_c := g_c r2 |}).

Definition gh_len (h : heap) (v : gval) : heap * Z :=
  let '(h, v) := initialized h v in
  match rd h (cell_of v) with
  | None => match g_r v with
            | [] => (h, 0)
            | _ => let h := fill h v in (h, match rd h (cell_of v) with Some e => zlen e | None => 0 end)
            end
  | Some e => (h, zlen e)
  end.

Definition ends_get (e : list nat) (i : Z) : Res nat :=
  if i <? 0 then Panic P_index else match nth_error e (Z.to_nat i) with Some x => Ok x | None => Panic P_index end.

Definition gh_char_at (h : heap) (v : gval) (idx : Z) : heap * Res (list Z) :=
  let '(h, v) := initialized h v in
  let h := fill h v in
  let e := match rd h (cell_of v) with Some e => e | None => [] end in
  (h, do st <- (if 0 <? idx then ends_get e (idx - 1) else Ok O);
      do en <- ends_get e idx;
      Ok (slice (g_r v) st en)).

Definition gh_indexes (h : heap) (v : gval) : heap * list (nat * nat) :=
  let '(h, v) := initialized h v in
  let h := fill h v in
  let e := match rd h (cell_of v) with Some e => e | None => [] end in
  (h, combine (O :: e) e).

Definition gh_sub (h : heap) (v : gval) (start end_ : Z) : heap * Res gval :=
  let '(h, v) := initialized h v in
  let '(h, n) := gh_len h v in
  let '(s, e) := range_to_indexes n start end_ in
  if s =? e then (h, Ok gzero) else
  let h := fill h v in
  let '(h, c) := gh_clone h v in
  let ends := match rd h (cell_of c) with Some x => x | None => [] end in
  let r := (do rs <- (if 0 <? s then ends_get ends (s - 1) else Ok O);
            do re <- ends_get ends (e - 1);
            Ok (rs, re)) in
  match r with
  | Ok (rs, re) =>
      let sub := zslice ends s e in
      let sub := if Nat.ltb 0 rs then map (fun x => (x - rs)%nat) sub else sub in
      let h := wr h (cell_of c) (Some sub) in
      (h, Ok {| g_r := slice (g_r c) rs re; g_c := g_c c |})
  | Panic p => (h, Panic p)
  | OutOfFuel => (h, OutOfFuel)
  end.

Definition gh_set_char_at (h : heap) (v : gval) (idx : Z) (r : list Z) : heap * Res gval :=
  let '(h, v) := initialized h v in
  match r with
  | [] => (h, Panic P_setchar)
  | _ =>
      let '(h, c) := gh_clone h v in
      let h := fill h c in
      let ends := match rd h (cell_of c) with Some x => x | None => [] end in
      let rr := (do st <- (if 0 <? idx then ends_get ends (idx - 1) else Ok O);
                 do en <- ends_get ends idx; Ok (st, en)) in
      match rr with
      | Ok (st, en) =>
          let h := wr h (cell_of c) None in
          (h, Ok {| g_r := firstn st (g_r c) ++ r ++ skipn en (g_r c); g_c := g_c c |})
      | Panic p => (h, Panic p)
      | OutOfFuel => (h, OutOfFuel)
      end
  end.

Fixpoint gh_repeat_loop (n : nat) (h : heap) (acc s : gval) : heap * gval :=
  match n with
  | O => (h, acc)
  | S n' => let '(h, acc) := gh_add h acc s in gh_repeat_loop n' h acc s
  end.
Definition gh_repeat (h : heap) (s : gval) (n : Z) : heap * gval := gh_repeat_loop (Z.to_nat n) h gzero s.

Fixpoint cut_ends (rs : list Z) (prev : nat) (ends : list nat) : list (list Z) :=
  match ends with
  | [] => []
  | e :: ends' => slice rs prev e :: cut_ends rs e ends'
  end.

(* Reverse: fills the receiver's cell, and installs the mirrored boundaries of the
   original in the copy's cell on purpose (outside C19's quantifier; used by C20) *)
Definition gh_reverse (h : heap) (v : gval) : heap * gval :=
  let '(h, v) := initialized h v in
  let h := fill h v in
  let '(h, c) := gh_clone h v in
  (* the clusters as the (possibly mirrored) cache describes them, not re-segmented *)
  let cl := cut_ends (g_r v) O (match rd h (cell_of v) with Some e => e | None => [] end) in
  let rcl := rev cl in
  let h := wr h (cell_of c) (Some (ends_from 0 rcl)) in
  (h, {| g_r := concat rcl; g_c := g_c c |}).

(* ---- histories over a pool ---- *)
Inductive gop :=
| GNew (rs : list Z) | GZero | GZeroValue | GCopy (i : nat)
| GAdd (i j : nat) | GSub (i : nat) (a b : Z) | GSetCharAt (i : nat) (idx : Z) (r : list Z) | GRepeat (i : nat) (n : Z)
| GCharAt (i : nat) (idx : Z) | GLen (i : nat) | GRunes (i : nat) | GIndexes (i : nat) | GReverse (i : nat).

(* result of an observing operation, for comparison with the implementation *)
Inductive gout := OutNone | OutPanic | OutRunes (rs : list Z) | OutInt (n : Z) | OutPairs (l : list (nat * nat)).

Definition gstate := (heap * list gval)%type.
Definition nthv (pool : list gval) (i : nat) : gval := nth i pool {| g_r := []; g_c := None |}.

Definition gstep (st : gstate) (o : gop) : gstate * gout :=
  let '(h, pool) := st in
  match o with
  | GNew rs => let '(h, v) := gh_new h rs in ((h, pool ++ [v]), OutNone)
  | GZero => ((h, pool ++ [gzero]), OutNone)
  | GZeroValue => ((h, pool ++ [{| g_r := []; g_c := None |}]), OutNone)
  | GCopy i => ((h, pool ++ [nthv pool i]), OutNone)
  | GAdd i j => let '(h, v) := gh_add h (nthv pool i) (nthv pool j) in ((h, pool ++ [v]), OutNone)
  | GSub i a b => let '(h, r) := gh_sub h (nthv pool i) a b in
                  (match r with Ok v => ((h, pool ++ [v]), OutNone) | _ => ((h, pool), OutPanic) end)
  | GSetCharAt i idx r => let '(h, x) := gh_set_char_at h (nthv pool i) idx r in
                          (match x with Ok v => ((h, pool ++ [v]), OutNone) | _ => ((h, pool), OutPanic) end)
  | GRepeat i n => let '(h, v) := gh_repeat h (nthv pool i) n in ((h, pool ++ [v]), OutNone)
  | GCharAt i idx => let '(h, r) := gh_char_at h (nthv pool i) idx in
                     ((h, pool), match r with Ok c => OutRunes c | _ => OutPanic end)
  | GLen i => let '(h, n) := gh_len h (nthv pool i) in ((h, pool), OutInt n)
  | GRunes i => let '(h, r) := gh_runes h (nthv pool i) in ((h, pool), OutRunes r)
  | GIndexes i => let '(h, l) := gh_indexes h (nthv pool i) in ((h, pool), OutPairs l)
  | GReverse i => let '(h, v) := gh_reverse h (nthv pool i) in ((h, pool ++ [v]), OutNone)
  end.

Fixpoint grun (st : gstate) (ops : list gop) : list (gstate * gout) :=
  match ops with
  | [] => []
  | o :: rest => let '(st', out) := gstep st o in (st', out) :: grun st' rest
  end.

End GH.
