(* Streaming (finite-state) formulation of the segmenter, equal to Break.v, and context-freeness at a break. *)
From Coq Require Import List Bool Arith Lia.
Import ListNotations.
From Rosed Require Import Base.Cls Gem.Break.

(* streaming state: last class, "… ExtPict Extend*" ends here, "ExtPict Extend* ZWJ" ends here,
   RI run ending here has odd length *)
Record st := { last : option cls; epx : bool; zwjok : bool; riodd : bool }.
Definition st0 := {| last := None; epx := false; zwjok := false; riodd := false |}.
Definition dstep (s : st) (c : cls) : st :=
  {| last := Some c;
     epx := (c =c ExtPict) || ((c =c Extend) && epx s);
     zwjok := (c =c ZWJ) && epx s;
     riodd := (c =c RI) && negb (riodd s) |}.
(* state after consuming the list given nearest-first (as pre) *)
Fixpoint st_of (pre : list cls) : st :=
  match pre with [] => st0 | c :: rest => dstep (st_of rest) c end.

Definition dbrk (s : st) (n : cls) : bool :=
  match last s with
  | None => true
  | Some r =>
    if (r =c CR) && (n =c LF) then false else
    if isctl r then true else
    if isctl n then true else
    if (r =c L) && ((n =c L) || (n =c V) || (n =c LV) || (n =c LVT)) then false else
    if ((r =c LV) || (r =c V)) && ((n =c V) || (n =c T)) then false else
    if ((r =c LVT) || (r =c T)) && (n =c T) then false else
    if (n =c Extend) || (n =c ZWJ) then false else
    if (n =c SpacingMark) then false else
    if (r =c Prepend) then false else
    if zwjok s && (n =c ExtPict) then false else
    if riodd s && (n =c RI) then false else
    true
  end.

Lemma epx_scan pre : epx (st_of pre) = gb11_scan pre.
Proof.
  induction pre as [|c rest IH]; cbn; [reflexivity|]. rewrite IH.
  destruct c; cbn; try reflexivity.
Qed.
Lemma riodd_odd pre : riodd (st_of pre) = Nat.odd (ri_prior pre).
Proof.
  induction pre as [|c rest IH]; [reflexivity|]. cbn [st_of dstep riodd ri_prior]. rewrite IH.
  destruct (c =c RI); cbn [negb andb]; [|reflexivity].
  rewrite Nat.odd_succ, <- Nat.negb_odd. reflexivity.
Qed.
Lemma riodd_spec pre r : riodd (st_of (r :: pre)) = (r =c RI) && Nat.even (ri_prior pre).
Proof. cbn [st_of dstep riodd]. rewrite riodd_odd, <- Nat.negb_odd. reflexivity. Qed.
Lemma zwjok_spec pre r : zwjok (st_of (r :: pre)) = (r =c ZWJ) && gb11_scan pre.
Proof. cbn. rewrite epx_scan. reflexivity. Qed.

Theorem dfa_eq_sba pre r n nxt : dbrk (st_of (r :: pre)) n = sba pre r (n :: nxt).
Proof.
  unfold dbrk. change (last (st_of (r :: pre))) with (Some r). cbv iota.
  rewrite zwjok_spec, riodd_spec. unfold sba.
  assert (Hs : gb11_scan pre = true -> pre <> []) by (destruct pre; cbn; congruence).
  destruct (gb11_scan pre) eqn:E1; destruct (Nat.even (ri_prior pre)) eqn:E2;
  destruct pre as [|p0 pre']; try (exfalso; apply Hs; reflexivity);
  destruct r, n; reflexivity.
Qed.

(* streaming split from a state *)
Fixpoint dsplit (s : st) (i : nat) (cs : list cls) : list nat :=
  match cs with
  | [] => []
  | r :: nxt =>
      let s' := dstep s r in
      (match nxt with [] => [S i] | n :: _ => if dbrk s' n then [S i] else [] end)
      ++ dsplit s' (S i) nxt
  end.
Lemma dsplit_split_aux pre i cs : dsplit (st_of pre) i cs = split_aux pre i cs.
Proof.
  revert pre i; induction cs as [|r nxt IH]; intros pre i; cbn [dsplit split_aux]; [reflexivity|].
  change (dstep (st_of pre) r) with (st_of (r :: pre)). rewrite IH. f_equal.
  destruct nxt as [|n nxt']; [reflexivity|]. rewrite (dfa_eq_sba pre r n nxt'). reflexivity.
Qed.
Theorem dsplit_split cs : dsplit st0 0 cs = split cs.
Proof. exact (dsplit_split_aux [] 0 cs). Qed.

(* ---- context-freeness at a break ---- *)
(* all states *)
Definition all_opt := None :: map Some all_cls.
Definition all_st : list st :=
  flat_map (fun l => flat_map (fun a => flat_map (fun b => map (fun c => Build_st l a b c) [true;false]) [true;false]) [true;false]) all_opt.
Lemma all_st_ok s : In s all_st.
Proof. destruct s as [[l|] [] [] []]; try destruct l; cbn; tauto. Qed.
(* reachable-state invariant: flags are consistent with last *)
Definition inv (s : st) : bool :=
  match last s with
  | None => negb (epx s) && negb (zwjok s) && negb (riodd s)
  | Some c => implb (epx s) ((c =c ExtPict) || (c =c Extend)) && implb (zwjok s) (c =c ZWJ) && implb (riodd s) (c =c RI)
                && implb (c =c ExtPict) (epx s)
  end.
Lemma inv_st_of pre : inv (st_of pre) = true.
Proof.
  induction pre as [|c rest IH]; [reflexivity|]. cbn [st_of]. 
  destruct (st_of rest) as [l a b d]. destruct c, a, b, d; reflexivity.
Qed.
(* future-equivalence: two states that agree on everything decisions can see *)
Definition st_eqb (a b : st) : bool :=
  match last a, last b with Some x, Some y => x =c y | None, None => true | _, _ => false end
  && Bool.eqb (epx a) (epx b) && Bool.eqb (zwjok a) (zwjok b) && Bool.eqb (riodd a) (riodd b).
Lemma st_eqb_eq a b : st_eqb a b = true -> a = b.
Proof.
  destruct a as [[x|] a1 a2 a3], b as [[y|] b1 b2 b3]; unfold st_eqb; cbn [last epx zwjok riodd];
  try discriminate; destruct a1, a2, a3, b1, b2, b3; cbn; try (rewrite ?andb_false_r; discriminate);
  rewrite ?andb_true_r; try (intro H; apply cls_eqb_eq in H; subst); reflexivity.
Qed.
(* key finite fact: if s is reachable and there is a break before c, consuming c from s
   and from the initial state give the same state *)
Definition cf_check : bool :=
  forallb (fun s => forallb (fun c => implb (inv s && dbrk s c) (st_eqb (dstep s c) (dstep st0 c))) all_cls) all_st.
Lemma cf_check_ok : cf_check = true. Proof. vm_compute. reflexivity. Qed.
Lemma context_free_step s c : inv s = true -> dbrk s c = true -> dstep s c = dstep st0 c.
Proof.
  intros Hi Hb. pose proof cf_check_ok as H. unfold cf_check in H.
  rewrite forallb_forall in H. specialize (H s (all_st_ok s)). rewrite forallb_forall in H.
  specialize (H c (all_cls_ok c)). rewrite Hi, Hb in H. cbn in H. apply st_eqb_eq. exact H.
Qed.
(* suffix closure: the boundaries after a break do not depend on what came before *)
Theorem context_free pre c rest i :
  dbrk (st_of pre) c = true -> dsplit (st_of pre) i (c :: rest) = dsplit st0 i (c :: rest).
Proof.
  intro Hb. cbn [dsplit]. rewrite (context_free_step _ _ (inv_st_of pre) Hb). reflexivity.
Qed.
