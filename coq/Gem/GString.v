(* Pure model of gem.String (internal/gem/string.go, gem.go): a value is its
   code points; every observation re-segments. The lazily filled cache of the
   Go type is modelled separately (Gem/GHeap.v) and proved never to be stale
   (C19), which is what justifies this content-only view. *)
From Coq Require Import List Bool ZArith Lia.
Import ListNotations.
From Rosed Require Import Base.Cls Base.Res Base.ListX Gem.Dfa Gem.Segment Model.Util.
Open Scope Z_scope.

Section GS.
Context `{Classifier}.

Definition gstr := list Z.

Definition glen (s : gstr) : Z := zlen (clusters s).

(* CharAt: panics (index out of range) outside [0, Len) *)
Definition gchar_at (s : gstr) (i : Z) : Res (list Z) := znth (clusters s) i.

Definition gadd (a b : gstr) : gstr := a ++ b.

Definition gsub (s : gstr) (start end_ : Z) : gstr :=
  let cl := clusters s in
  let '(a, b) := range_to_indexes (zlen cl) start end_ in
  if a =? b then [] else concat (zslice cl a b).

Definition gset_char_at (s : gstr) (i : Z) (r : list Z) : Res gstr :=
  match r with
  | [] => Panic P_setchar
  | _ =>
      let cl := clusters s in
      if (i <? 0) || (zlen cl <=? i) then Panic P_index
      else Ok (concat (firstn (Z.to_nat i) cl) ++ r ++ concat (skipn (S (Z.to_nat i)) cl))
  end.

Definition grepeat (s : gstr) (n : Z) : gstr := repeatn s (Z.to_nat n).   (* loop: n <= 0 gives Zero *)

Definition gis_empty (s : gstr) : bool := match s with [] => true | _ => false end.

(* IndexFunc over clusters; -1 if none *)
Fixpoint find_idx {A} (f : A -> bool) (i : Z) (l : list A) : Z :=
  match l with
  | [] => -1
  | x :: l' => if f x then i else find_idx f (i + 1) l'
  end.
Definition gindex_func (f : list Z -> bool) (s : gstr) : Z := find_idx f 0 (clusters s).

(* LastIndexFunc: Reverse() installs the mirrored boundaries of the original
   string in the reversed copy's cache, so the scan visits the original
   clusters from last to first *)
Definition glast_index_func (f : list Z -> bool) (s : gstr) : Z :=
  let cl := clusters s in
  let ri := find_idx f 0 (rev cl) in
  if ri =? -1 then -1 else (zlen cl - 1) - ri.

End GS.
