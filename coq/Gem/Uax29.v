(* Declarative statement of UAX #29 rules GB3-GB999 as an ordered rule list, and the proof that the model of shouldBreakAfter decides exactly as the first applicable rule. *)
From Coq Require Import List Bool Arith Lia.
Import ListNotations.
From Rosed Require Import Base.Cls Gem.Break.

(* ---------- declarative UAX #29 spec ----------
   boundary between (rev lhs) and rhs, lhs given reversed, both non-empty *)
Definition any_of (l : list cls) (c : cls) := In c l.
(* GB11 left context:  ExtPict Extend* ZWJ   (reversed: ZWJ, Extend*, ExtPict) *)
Definition gb11_left (lhs : list cls) := exists k rest, lhs = ZWJ :: repeat Extend k ++ ExtPict :: rest.
(* GB12/13 left context: (sot | [^RI]) (RI RI)* RI *)
Definition gb1213_left (lhs : list cls) := exists k rest, lhs = repeat RI (2*k+1) ++ rest /\ (rest = [] \/ exists c r', rest = c :: r' /\ c <> RI).
Inductive verdict := Brk | NoBrk.
Record rule := { applies : list cls -> cls -> Prop; verd : verdict }.
Definition R p v := {| applies := p; verd := v |}.
Definition rules : list rule := [
  R (fun lhs n => hd Other lhs = CR /\ n = LF) NoBrk;                                 (* GB3 *)
  R (fun lhs n => any_of [Control;CR;LF] (hd Other lhs)) Brk;                          (* GB4 *)
  R (fun lhs n => any_of [Control;CR;LF] n) Brk;                                       (* GB5 *)
  R (fun lhs n => hd Other lhs = L /\ any_of [L;V;LV;LVT] n) NoBrk;                    (* GB6 *)
  R (fun lhs n => any_of [LV;V] (hd Other lhs) /\ any_of [V;T] n) NoBrk;               (* GB7 *)
  R (fun lhs n => any_of [LVT;T] (hd Other lhs) /\ n = T) NoBrk;                       (* GB8 *)
  R (fun lhs n => any_of [Extend;ZWJ] n) NoBrk;                                        (* GB9 *)
  R (fun lhs n => n = SpacingMark) NoBrk;                                              (* GB9a *)
  R (fun lhs n => hd Other lhs = Prepend) NoBrk;                                       (* GB9b *)
  R (fun lhs n => gb11_left lhs /\ n = ExtPict) NoBrk;                                 (* GB11 *)
  R (fun lhs n => gb1213_left lhs /\ n = RI) NoBrk                                     (* GB12,13 *)
].
Inductive decides : list rule -> list cls -> cls -> verdict -> Prop :=
| d_nil lhs n : decides [] lhs n Brk
| d_hit f rs lhs n : applies f lhs n -> decides (f :: rs) lhs n (verd f)
| d_skip f rs lhs n v : ~ applies f lhs n -> decides rs lhs n v -> decides (f :: rs) lhs n v.
Definition spec_break (lhs : list cls) (n : cls) (v : verdict) := decides rules lhs n v.

(* ---------- equivalence ---------- *)
Lemma gb11_scan_spec pre : gb11_scan pre = true <-> exists k rest, pre = repeat Extend k ++ ExtPict :: rest.
Proof.
  induction pre as [|c rest IH]; cbn.
  - split; [discriminate|]. intros (k & r & H). destruct k; discriminate.
  - destruct (c =c Extend) eqn:E; cbn.
    + apply cls_eqb_eq in E; subst. rewrite IH. split.
      * intros (k & r & ->). exists (S k), r. reflexivity.
      * intros (k & r & H). destruct k; cbn in H; [discriminate|]. injection H as ->. eauto.
    + split.
      * intro H. apply cls_eqb_eq in H; subst. exists 0, rest. reflexivity.
      * intros (k & r & H). destruct k; cbn in H; injection H as -> ?; [reflexivity|discriminate].
Qed.
Lemma ri_prior_spec pre : exists rest, pre = repeat RI (ri_prior pre) ++ rest /\ (rest = [] \/ exists c r', rest = c :: r' /\ c <> RI).
Proof.
  induction pre as [|c rest IH]; cbn.
  - exists []. auto.
  - destruct (c =c RI) eqn:E; cbn.
    + apply cls_eqb_eq in E; subst. destruct IH as (r & H1 & H2). exists r. split; [cbn; congruence|assumption].
    + exists (c :: rest). split; [reflexivity|]. right. exists c, rest. split; [reflexivity|]. intro; subst; discriminate.
Qed.
Lemma repeat_RI_inj a b r1 r2 :
  repeat RI a ++ r1 = repeat RI b ++ r2 ->
  (r1 = [] \/ exists c r', r1 = c :: r' /\ c <> RI) -> (r2 = [] \/ exists c r', r2 = c :: r' /\ c <> RI) -> a = b.
Proof.
  revert b; induction a as [|a IH]; intros [|b] H H1 H2; cbn in *; try reflexivity.
  - subst r1. destruct H1 as [|(c & r' & E & N)]; [discriminate|]. injection E as <- _. congruence.
  - subst r2. destruct H2 as [|(c & r' & E & N)]; [discriminate|]. injection E as <- _. congruence.
  - injection H as H. f_equal. eauto.
Qed.
Lemma gb1213_left_iff pre : gb1213_left (RI :: pre) <-> Nat.even (ri_prior pre) = true.
Proof.
  destruct (ri_prior_spec pre) as (rest & Hp & Hr). split.
  - intros (k & r & H & Hr'). replace (2*k+1) with (S (2*k)) in H by lia. cbn [repeat app] in H. injection H as H.
    rewrite Hp in H at 1. apply repeat_RI_inj in H; try assumption. rewrite H. apply Nat.even_spec. exists k. reflexivity.
  - intro E. apply Nat.even_spec in E as [k E]. exists k, rest. split; [|assumption].
    replace (2*k+1) with (S (2*k)) by lia. cbn [repeat app]. f_equal. rewrite <- E. exact Hp.
Qed.

Ltac inv H := inversion H; subst; clear H.

Lemma gb11_left_iff pre : gb11_left (ZWJ :: pre) <-> gb11_scan pre = true.
Proof.
  rewrite gb11_scan_spec. unfold gb11_left. split; intros (k & r & H); exists k, r; [injection H as H; exact H | f_equal; exact H].
Qed.
Lemma gb11_left_hd lhs : gb11_left lhs -> hd Other lhs = ZWJ.
Proof. intros (k & r & ->). reflexivity. Qed.
Lemma gb1213_left_hd lhs : gb1213_left lhs -> hd Other lhs = RI.
Proof. intros (k & r & -> & _). replace (2*k+1) with (S (2*k)) by lia. reflexivity. Qed.

Ltac no_apply :=
  cbn [applies R verd hd any_of In]; 
  first [ intros [? ?]; discriminate
        | intros [? ?]; repeat match goal with H : _ \/ _ |- _ => destruct H end; solve [discriminate|contradiction]
        | intro H; repeat match goal with H : _ \/ _ |- _ => destruct H end; solve [discriminate|contradiction]
        | intros [H ?]; apply gb11_left_hd in H; discriminate
        | intros [H ?]; apply gb1213_left_hd in H; discriminate
        | intro H; discriminate ].
Ltac yes_apply :=
  cbn [applies R verd hd any_of In]; solve [ tauto | repeat split; tauto ].

Theorem sba_meets_spec pre r n nxt :
  spec_break (r :: pre) n (if sba pre r (n :: nxt) then Brk else NoBrk).
Proof.
  unfold spec_break, rules.
  destruct (gb11_scan pre) eqn:E11; destruct (Nat.even (ri_prior pre)) eqn:E12;
  destruct pre as [|p0 pre']; destruct r, n; cbn [sba cls_eqb isctl andb orb negb]; 
  rewrite ?E11, ?E12; cbn [andb orb negb];
  repeat first
    [ apply d_nil
    | apply (d_hit (R _ Brk)); yes_apply
    | apply (d_hit (R _ NoBrk)); yes_apply
    | apply d_skip; [ no_apply | ] ].
  all: try discriminate.
  all: repeat first
    [ apply d_nil
    | match goal with
      | E : gb11_scan ?p = true |- decides (R _ NoBrk :: _) (ZWJ :: ?p) ExtPict NoBrk =>
          apply (d_hit (R _ NoBrk)); cbn [applies R]; split; [apply gb11_left_iff; exact E | reflexivity]
      | E : gb11_scan ?p = false |- decides (R _ NoBrk :: _) (ZWJ :: ?p) ExtPict _ =>
          apply d_skip; [cbn [applies R]; intros [H _]; apply gb11_left_iff in H; congruence|]
      | E : Nat.even (ri_prior ?p) = true |- decides (R _ NoBrk :: _) (RI :: ?p) RI NoBrk =>
          apply (d_hit (R _ NoBrk)); cbn [applies R]; split; [apply gb1213_left_iff; exact E | reflexivity]
      | E : Nat.even (ri_prior ?p) = false |- decides (R _ NoBrk :: _) (RI :: ?p) RI _ =>
          apply d_skip; [cbn [applies R]; intros [H _]; apply gb1213_left_iff in H; congruence|]
      | |- decides (R _ NoBrk :: _) (ZWJ :: _) ExtPict _ =>
          apply d_skip; [cbn [applies R]; intros [H _]; apply gb1213_left_hd in H; discriminate|]
      | |- decides (R _ NoBrk :: _) [ZWJ] ExtPict Brk =>
          apply d_skip; [cbn [applies R]; intros [H _]; apply gb11_left_iff in H; cbn in H; discriminate|]
      end ].
Qed.

