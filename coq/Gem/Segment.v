(* Segmentation of code-point lists. The classifier (code point -> class) is a
   typeclass parameter, so that nothing here depends on the generated tables. *)
From Coq Require Import List Bool Arith ZArith Lia.
Import ListNotations.
From Rosed Require Import Base.Cls Gem.Break Gem.Dfa.

Class Classifier := { class_of : Z -> cls }.

Section Seg.
Context `{Classifier}.

(* model of gem.Split: exclusive cluster ends, exactly as the Go code computes them *)
Definition split_runes (rs : list Z) : list nat := split (map class_of rs).

(* one-pass cluster list, driven by the streaming state; [cur] is the current
   cluster, reversed *)
Fixpoint dchunks (s : st) (cur : list Z) (rs : list Z) : list (list Z) :=
  match rs with
  | [] => match cur with [] => [] | _ => [rev cur] end
  | r :: nxt =>
      let s' := dstep s (class_of r) in
      match nxt with
      | [] => [rev (r :: cur)]
      | n :: _ => if dbrk s' (class_of n) then rev (r :: cur) :: dchunks s' [] nxt
                  else dchunks s' (r :: cur) nxt
      end
  end.

Definition clusters (rs : list Z) : list (list Z) := dchunks st0 [] rs.

(* exclusive ends of a cluster list *)
Fixpoint ends_from (i : nat) (cl : list (list Z)) : list nat :=
  match cl with [] => [] | c :: cl' => (i + length c) :: ends_from (i + length c) cl' end.

Definition run (s : st) (rs : list Z) : st := fold_left (fun s r => dstep s (class_of r)) rs s.

End Seg.
