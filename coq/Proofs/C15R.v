(* C15 / C14, the empty cases: an empty definitions list, and two empty column texts, produce no
   output - the Editor is returned as it is. *)
From Coq Require Import List Bool Arith ZArith Lia.
Import ListNotations.
From Rosed Require Import Base.Res Base.ListX Base.Utf8 Base.Str Gem.Segment Gem.GString Model.Util Model.Tb Model.Manip Model.Table
     Model.Options Model.Editor Model.Ops.
Open Scope Z_scope.

Section C15R.
Context `{Classifier} `{Upper}.

Theorem definitions_table_empty pos width opts e : insert_definitions_table_opts pos [] width opts e = Ok e.
Proof. reflexivity. Qed.

Theorem two_columns_empty pos gap width m ex opts e : insert_two_columns_opts pos [] [] gap width m ex opts e = Ok e.
Proof. reflexivity. Qed.

End C15R.
