(* C18, continued: the outputs are valid UTF-8. Everything an operation writes is either the
   UTF-8 encoding of a list of code points (which is valid whatever the code points are: the
   encoder writes U+FFFD for a value that is not a scalar), or a separator taken from the
   options, or a concatenation of such pieces. *)
From Coq Require Import List Bool Arith ZArith Lia.
Import ListNotations.
From Rosed Require Import Base.Res Base.ListX Base.Utf8 Base.Str Gem.Segment Gem.GString Model.Util Model.Tb Model.Manip Model.Table
     Model.Options Model.Editor Model.Ops Proofs.Utf8P Proofs.C04P Proofs.C18P Proofs.C18Q Proofs.C18R Proofs.OpsMapP.
Open Scope Z_scope.

Definition fix_rune (r : Z) : Z := if scalar r then r else rune_error.

Lemma scalar_rune_error : scalar rune_error = true. Proof. reflexivity. Qed.

Lemma encode_rune_fix r : encode_rune (fix_rune r) = encode_rune r.
Proof. unfold fix_rune, encode_rune. destruct (scalar r) eqn:E; [rewrite E; reflexivity|rewrite scalar_rune_error; reflexivity]. Qed.

Lemma encode_fix rs : encode (map fix_rune rs) = encode rs.
Proof. induction rs as [|r rs IH]; [reflexivity|]. cbn [map]. rewrite !encode_cons, IH, encode_rune_fix. reflexivity. Qed.

(* the encoding of any list of integers is valid UTF-8 *)
Theorem encode_valid rs : valid_utf8 (encode rs) = true.
Proof.
  rewrite <- encode_fix. apply valid_utf8_encode. unfold scalars. apply Forall_forall. intros r Hr.
  apply in_map_iff in Hr as (x & <- & _). unfold fix_rune. destruct (scalar x) eqn:E; [exact E|reflexivity].
Qed.

Lemma list_eqb_eq : forall a b : list Z,
  (fix eqb (a b : list Z) := match a, b with [], [] => true | x :: a', y :: b' => (x =? y) && eqb a' b' | _, _ => false end) a b = true -> a = b.
Proof.
  induction a as [|x a IH]; intros [|y b] E; try discriminate; [reflexivity|].
  apply andb_true_iff in E as [E1 E2]. apply Z.eqb_eq in E1. subst. f_equal. apply IH, E2.
Qed.

(* valid UTF-8 is the encoding of its own scalar values *)
Lemma valid_is_encode bs : valid_utf8 bs = true -> exists rs, scalars rs /\ bs = encode rs.
Proof.
  unfold valid_utf8. intro E. apply andb_true_iff in E as [E1 E2]. exists (decode bs). split.
  - unfold scalars. apply Forall_forall. rewrite forallb_forall in E1. exact E1.
  - symmetry. apply list_eqb_eq, E2.
Qed.

Theorem valid_app a b : valid_utf8 a = true -> valid_utf8 b = true -> valid_utf8 (a ++ b) = true.
Proof.
  intros Ha Hb. destruct (valid_is_encode a Ha) as (ra & _ & ->). destruct (valid_is_encode b Hb) as (rb & _ & ->).
  rewrite <- encode_app. apply encode_valid.
Qed.

Lemma valid_nil : valid_utf8 [] = true. Proof. reflexivity. Qed.

Theorem valid_join sep l : valid_utf8 sep = true -> Forall (fun x => valid_utf8 x = true) l -> valid_utf8 (join sep l) = true.
Proof.
  intros Hs HF. induction HF as [|x l Hx HF IH]; [exact valid_nil|]. destruct l as [|y l']; [cbn [join]; exact Hx|].
  change (join sep (x :: y :: l')) with (x ++ sep ++ join sep (y :: l')). apply valid_app; [exact Hx|apply valid_app; [exact Hs|exact IH]].
Qed.

Section C18T.
Context `{Classifier} `{Upper}.

(* CollapseSpace and Wrap (outside paragraph mode) write an encoding: valid for every input *)
Theorem collapse_space_valid opts e r : collapse_space_opts opts e = Ok r -> valid_utf8 (e_text r) = true.
Proof.
  unfold collapse_space_opts. intro E. destruct (collapse_space _ _) as [t| |]; cbn [bind] in E; try discriminate.
  injection E as <-. cbn [with_text e_text]. apply encode_valid.
Qed.

Theorem wrap_valid width opts e r : o_preserve (with_defaults opts) = false -> wrap_opts width opts e = Ok r -> valid_utf8 (e_text r) = true.
Proof.
  intros Hp E. unfold wrap_opts in E. rewrite Hp in E. destruct (wrap _ _ _) as [bl| |]; cbn [bind] in E; try discriminate.
  injection E as <-. cbn [with_text e_text]. apply encode_valid.
Qed.

(* line-wise operations: the result is the separator-join of what the line function returns *)
Lemma apply_each_valid (f : Z -> list Z -> list (list Z)) : (forall k l, Forall (fun x => valid_utf8 x = true) (f k l)) ->
  forall lines i r, apply_each (fun k l => Ok (f k l)) i lines = Ok r -> Forall (fun x => valid_utf8 x = true) r.
Proof.
  intro Hf. induction lines as [|l ls IH]; intros i r E; [injection E as <-; constructor|].
  cbn [apply_each bind] in E. destruct (apply_each _ (i + 1) ls) as [rest| |] eqn:Er; cbn [bind] in E; try discriminate.
  injection E as <-. apply Forall_app. split; [apply Hf|exact (IH _ _ Er)].
Qed.

Theorem align_valid align width opts e r : o_preserve (with_defaults opts) = false ->
  valid_utf8 (o_linesep (with_defaults opts)) = true -> valid_utf8 (e_text e) = true ->
  align_opts align width opts e = Ok r -> valid_utf8 (e_text r) = true.
Proof.
  intros Hp Hsep He E. unfold align_opts in E. destruct (_ || _); [injection E as <-; exact He|]. cbv zeta in E. rewrite Hp in E.
  unfold apply_opts in E. cbv zeta in E.
  destruct (apply_each _ 0 _) as [ap| |] eqn:Ea; cbn [bind] in E; try discriminate. injection E as <-. cbn [with_text e_text].
  pose proof (apply_each_valid (fun _ line => [encode (align_line align (decode line) width)])
                ltac:(intros k l; constructor; [apply encode_valid|constructor]) _ _ _ Ea) as Hv.
  assert (Hv' : Forall (fun x => valid_utf8 x = true)
                 (if negb (o_notrailing (with_defaults (with_defaults opts))) && has_suffix (e_text e) (o_linesep (with_defaults (with_defaults opts))) then ap ++ [[]] else ap)).
  { destruct (negb _ && _); [apply Forall_app; split; [exact Hv|constructor; [exact valid_nil|constructor]]|exact Hv]. }
  unfold with_defaults in Hsep. cbn [o_linesep] in Hsep. unfold with_defaults in Hv' |- *. cbn [o_linesep o_notrailing] in Hv' |- *.
  destruct (o_linesep opts) as [|z l]; cbv iota in Hv' |- *; (apply valid_join; [exact Hsep|exact Hv']).
Qed.

End C18T.
