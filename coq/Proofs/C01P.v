(* C01: the boundaries computed by the model of gem.Split are exactly those the
   UAX #29 rule list prescribes. *)
From Coq Require Import List Bool Arith Lia.
Import ListNotations.
From Rosed Require Import Base.Cls Gem.Break Gem.Uax29.

Lemma split_aux_spec pre k cs j :
  In j (split_aux pre k cs) <->
  exists i, j = S (k + i) /\ i < length cs /\
            sba (rev (firstn i cs) ++ pre) (nth i cs Other) (skipn (S i) cs) = true.
Proof.
  revert pre k; induction cs as [|r nxt IH]; intros pre k.
  - cbn. split; [tauto|]. intros (i & _ & Hi & _). cbn in Hi. lia.
  - cbn [split_aux]. rewrite in_app_iff, IH. split.
    + intros [H|(i & -> & Hi & Hs)].
      * destruct (sba pre r nxt) eqn:E; [|destruct H]. destruct H as [<-|[]].
        exists 0. cbn. repeat split; [lia|lia|exact E].
      * exists (S i). cbn [length firstn rev nth skipn]. repeat split; [lia|lia|].
        rewrite <- app_assoc. exact Hs.
    + intros ([|i] & -> & Hi & Hs).
      * left. cbn in Hs. rewrite Hs. left. lia.
      * right. exists i. cbn [length firstn rev nth skipn] in *. repeat split; [lia|lia|].
        rewrite <- app_assoc in Hs. exact Hs.
Qed.

(* position i (0-based) ends a cluster iff the model of shouldBreakAfter says so there *)
Theorem split_spec cs i : i < length cs ->
  (In (S i) (split cs) <-> sba (rev (firstn i cs)) (nth i cs Other) (skipn (S i) cs) = true).
Proof.
  intro Hi. unfold split. rewrite split_aux_spec. split.
  - intros (i' & E & _ & Hs). assert (i' = i) by lia. subst. rewrite app_nil_r in Hs. exact Hs.
  - intro Hs. exists i. rewrite app_nil_r. repeat split; [lia|exact Hs].
Qed.

Lemma split_range cs j : In j (split cs) -> 1 <= j <= length cs.
Proof. unfold split. rewrite split_aux_spec. intros (i & -> & Hi & _). lia. Qed.

(* GB1 / GB2 *)
Theorem split_nil : split [] = [].
Proof. reflexivity. Qed.
Theorem split_end cs : cs <> [] -> In (length cs) (split cs).
Proof.
  intro Hne. destruct (length cs) as [|n] eqn:E; [destruct cs; [congruence|discriminate]|].
  rewrite <- E. rewrite E. apply split_spec; [lia|].
  assert (Hs : skipn (S n) cs = []) by (apply skipn_all2; lia). rewrite Hs. reflexivity.
Qed.

(* the rule list decides uniquely *)
Lemma decides_fun rs lhs n v1 v2 : decides rs lhs n v1 -> decides rs lhs n v2 -> v1 = v2.
Proof.
  induction 1 as [| f rs lhs n Ha | f rs lhs n v Hn _ IH]; intro H2; inversion H2; subst; try reflexivity; try contradiction.
  apply IH. assumption.
Qed.

(* interior positions: there is a boundary between cs[j-1] and cs[j] iff the first
   applicable rule of GB3..GB999, read on the text before and the class after, says "break" *)
Theorem split_meets_uax29 cs j : 0 < j < length cs ->
  (In j (split cs) <-> spec_break (rev (firstn j cs)) (nth j cs Other) Brk).
Proof.
  intros [H0 Hj]. destruct j as [|i]; [lia|]. rewrite split_spec by lia.
  assert (Hf : rev (firstn (S i) cs) = nth i cs Other :: rev (firstn i cs)).
  { clear H0. revert i Hj; induction cs as [|c cs IH]; intros i Hj; [cbn in Hj; lia|].
    destruct i as [|i]; [destruct cs; reflexivity|].
    cbn [length] in Hj. change (firstn (S (S i)) (c :: cs)) with (c :: firstn (S i) cs).
    change (firstn (S i) (c :: cs)) with (c :: firstn i cs). cbn [rev nth]. rewrite IH by lia. reflexivity. }
  assert (Hs : skipn (S i) cs = nth (S i) cs Other :: skipn (S (S i)) cs).
  { clear H0 Hf. revert i Hj; induction cs as [|c cs IH]; intros i Hj; [cbn in Hj; lia|].
    destruct i as [|i]; [destruct cs; [cbn in Hj; lia|reflexivity]|].
    cbn [length] in Hj. change (skipn (S (S i)) (c :: cs)) with (skipn (S i) cs). rewrite IH by lia. reflexivity. }
  rewrite Hf, Hs.
  pose proof (sba_meets_spec (rev (firstn i cs)) (nth i cs Other) (nth (S i) cs Other) (skipn (S (S i)) cs)) as Hm.
  split.
  - intro E. rewrite E in Hm. exact Hm.
  - intro Hb. destruct (sba _ _ _); [reflexivity|].
    pose proof (decides_fun _ _ _ _ _ Hm Hb). discriminate.
Qed.
