(* C16, continued: the table is rectangular. Every cell is rendered as a "piece" - its kept
   clusters between two runs of spaces - and pieces, border characters and bars meet only at
   plain code points, so cluster counts add up. *)
From Coq Require Import List Bool Arith ZArith Lia ZifyBool.
Import ListNotations.
From Rosed Require Import Base.Cls Base.Res Base.ListX Base.Str Gem.Segment Gem.GString Model.Util Model.Tb Model.Manip Model.Table
     Proofs.SegmentP Proofs.SeamP Proofs.C04P Proofs.C13P Proofs.C06Q Proofs.C07Q Proofs.C16P.
Open Scope Z_scope.

Section C16Q.
Context `{ClassifierOk} `{Upper}.

(* ---- pieces ---- *)
Definition piece (l : Z) (K : gstr) (r : Z) : gstr := spaces l ++ K ++ spaces r.

Lemma spaces_nonpos n : n <= 0 -> spaces n = [].
Proof. intro Hn. rewrite spaces_eq. replace (Z.to_nat n) with 0%nat by lia. reflexivity. Qed.

Lemma spaces_pos n : 0 < n -> spaces n = SP :: spaces (n - 1).
Proof. intro Hn. rewrite !spaces_eq. replace (Z.to_nat n) with (S (Z.to_nat (n - 1))) by lia. reflexivity. Qed.

Lemma spaces_snoc n : 0 < n -> spaces n = spaces (n - 1) ++ [SP].
Proof. intro Hn. rewrite !spaces_eq. replace (Z.to_nat n) with (S (Z.to_nat (n - 1))) by lia. cbn [repeat]. apply repeat_cons. Qed.

Lemma starts_ok_sp X : starts_ok (SP :: X).
Proof. cbn. pose proof sp_plain as Hp. unfold plain in Hp. rewrite Hp. repeat split; discriminate. Qed.

Lemma starts_ok_plain p X : plain p -> starts_ok (p :: X).
Proof. intro Hp. cbn. unfold plain in Hp. rewrite Hp. repeat split; discriminate. Qed.

Lemma starts_ok_app a X : starts_ok a -> starts_ok X -> starts_ok (a ++ X).
Proof. destruct a; [intros _ HX; exact HX|intros Ha _; exact Ha]. Qed.

Lemma starts_ok_spaces_app n X : starts_ok X -> starts_ok (spaces n ++ X).
Proof. intro HX. destruct (Z_lt_le_dec 0 n) as [Hn|Hn]; [rewrite spaces_pos by exact Hn; apply starts_ok_sp|rewrite spaces_nonpos by exact Hn; exact HX]. Qed.

Lemma piece_starts l K r X : starts_ok K -> starts_ok X -> starts_ok (piece l K r ++ X).
Proof.
  intros HK HX. unfold piece. rewrite <- !app_assoc. apply starts_ok_spaces_app. apply starts_ok_app; [exact HK|].
  apply starts_ok_spaces_app. exact HX.
Qed.

Lemma ends_ok_app_ne a b : b <> [] -> ends_ok b -> ends_ok (a ++ b).
Proof. intros Hne [->|Hb]; [congruence|]. right. rewrite last_app_ne by exact Hne. exact Hb. Qed.

Lemma ends_ok_spaces n : ends_ok (spaces n).
Proof.
  destruct (Z_lt_le_dec 0 n) as [Hn|Hn]; [|left; apply spaces_nonpos; exact Hn].
  rewrite spaces_snoc by exact Hn. apply ends_ok_snoc_plain, sp_plain.
Qed.

Lemma piece_ends_ok l K r : ends_ok K -> ends_ok (piece l K r).
Proof.
  intro HK. unfold piece. destruct (Z_lt_le_dec 0 r) as [Hr|Hr].
  - rewrite (spaces_snoc r) by exact Hr. rewrite !app_assoc. apply ends_ok_snoc_plain, sp_plain.
  - rewrite (spaces_nonpos r) by exact Hr. rewrite app_nil_r. destruct K as [|x K'] eqn:EK.
    + rewrite app_nil_r. apply ends_ok_spaces.
    + apply ends_ok_app_ne; [discriminate|exact HK].
Qed.

Lemma piece_glen l K r : 0 <= l -> 0 <= r -> starts_ok K -> ends_ok K -> glen (piece l K r) = l + glen K + r.
Proof.
  intros Hl Hr Hs He. unfold piece.
  change (spaces l ++ K ++ spaces r) with (gadd (spaces l) (gadd K (spaces r))).
  rewrite glen_spaces_app; [|unfold gadd; apply starts_ok_app; [exact Hs|rewrite <- (app_nil_r (spaces r)); apply starts_ok_spaces_app; exact I]|exact Hl].
  rewrite glen_app_spaces by assumption. lia.
Qed.

Lemma piece_ends_plain l K r : 0 < r -> exists a, piece l K r = a ++ [SP].
Proof. intro Hr. unfold piece. rewrite (spaces_snoc r) by exact Hr. exists (spaces l ++ K ++ spaces (r - 1)). rewrite <- !app_assoc. reflexivity. Qed.

(* cluster counts add up across a plain code point *)
Lemma glen_after_plain a p X : plain p -> starts_ok X -> glen ((a ++ [p]) ++ X) = glen (a ++ [p]) + glen X.
Proof. intros Hp HX. unfold glen. rewrite clusters_app by (apply seam_after_plain; assumption). rewrite zlen_app. reflexivity. Qed.

Lemma glen_before_plain a p : ends_ok a -> plain p -> glen (a ++ [p]) = glen a + 1.
Proof. intros Ha Hp. unfold glen. rewrite clusters_snoc_plain by assumption. rewrite zlen_app. reflexivity. Qed.

(* ---- cells as pieces ---- *)
Definition kl (c : gstr) : gstr := concat (kept_left c).
Definition kc (c : gstr) : gstr := concat (kept_center c).

Lemma kept_left_slice c : exists a j, kept_left c = firstn j (skipn a (clusters c)).
Proof. unfold kept_left. rewrite drop_ws_skipn. exists (lead_ws (clusters c)), (length (clusters c)). rewrite firstn_all2 by (rewrite skipn_length; lia). reflexivity. Qed.

Lemma kept_center_slice c : exists a j, kept_center c = firstn j (skipn a (clusters c)).
Proof. unfold kept_center. rewrite !drop_ws_skipn, skipn_rev, rev_involutive. eauto. Qed.

Lemma kl_facts c : all_safe c -> starts_ok (kl c) /\ ends_ok (kl c) /\ glen (kl c) = zlen (kept_left c) /\ zlen (kept_left c) <= glen c.
Proof.
  intro Hs. destruct (kept_left_slice c) as (a & j & E). unfold kl. rewrite E.
  destruct (slice_safe c a j Hs) as [Hk1 Hk2]. repeat split; [exact Hk1|exact Hk2|apply glen_concat_slice|].
  unfold glen, zlen. rewrite firstn_length, skipn_length. lia.
Qed.

Lemma kc_facts c : all_safe c -> starts_ok (kc c) /\ ends_ok (kc c) /\ glen (kc c) = zlen (kept_center c) /\ zlen (kept_center c) <= glen c.
Proof.
  intro Hs. destruct (kept_center_slice c) as (a & j & E). unfold kc. rewrite E.
  destruct (slice_safe c a j Hs) as [Hk1 Hk2]. repeat split; [exact Hk1|exact Hk2|apply glen_concat_slice|].
  unfold glen, zlen. rewrite firstn_length, skipn_length. lia.
Qed.

Lemma align_left_piece c w : align_left c w = piece 0 (kl c) (Z.max 0 (w - zlen (kept_left c))).
Proof. rewrite align_left_text. unfold piece, kl. rewrite (spaces_nonpos 0) by lia. reflexivity. Qed.

Lemma align_center_piece c w : let need := w - zlen (kept_center c) in
  align_center c w = if need <=? 0 then piece 0 (kc c) 0 else piece (need - need / 2) (kc c) (need / 2).
Proof.
  cbv zeta. pose proof (align_center_text c w) as E. cbv zeta in E. rewrite E. unfold piece, kc.
  destruct (w - zlen (kept_center c) <=? 0); [rewrite (spaces_nonpos 0) by lia; cbn; rewrite app_nil_r; reflexivity|reflexivity].
Qed.

(* ---- rows ---- *)
Definition cellt (row : list gstr) (col : nat) (hdr : bool) : gstr :=
  if hdr then upper_str (cell_at row col) else cell_at row col.

(* column j of width w can take the cell: room for the padding the layout relies on *)
Definition fits (border hdr : bool) (row : list gstr) (ws : list Z) (col : nat) : Prop :=
  forall j w, nth_error ws j = Some w ->
    all_safe (cellt row (col + j) hdr) /\
    glen (cellt row (col + j) hdr) + (if border then (if hdr then 0 else 1) else (if Nat.ltb (S j) (length ws) then 1 else 0)) <= w.

Lemma fits_tail border hdr row w ws col : fits border hdr row (w :: ws) col -> fits border hdr row ws (S col).
Proof.
  intros Hf j w' Hn. specialize (Hf (S j) w' Hn). replace (col + S j)%nat with (S col + j)%nat in Hf by lia.
  destruct Hf as [Hs Hl]. split; [exact Hs|]. cbn [length] in Hl. destruct border; [exact Hl|].
  change (Nat.ltb (S (S j)) (S (length ws))) with (Nat.ltb (S j) (length ws)) in Hl. exact Hl.
Qed.

Lemma spaces_one : spaces 1 = [SP]. Proof. reflexivity. Qed.

Lemma glen_nonneg s : 0 <= glen s. Proof. unfold glen, zlen. lia. Qed.

Lemma build_row_border cs row y hdr : cs_vert cs = [y] -> plain y -> forall ws col,
  fits true hdr row ws col ->
  glen (build_row cs row ws col hdr true) = sumZ (map (fun w => w + 1) ws) /\ starts_ok (build_row cs row ws col hdr true).
Proof.
  intros Hv Hy. induction ws as [|w ws IH]; intros col Hf; [split; [reflexivity|exact I]|].
  destruct (IH (S col) (fits_tail _ _ _ _ _ _ Hf)) as [IHg IHs].
  destruct (Hf 0%nat w eq_refl) as [Hsafe Hw]. rewrite Nat.add_0_r in Hsafe, Hw.
  cbn [build_row map sumZ]. rewrite Hv. unfold cellt in Hsafe, Hw. destruct hdr.
  - (* header: centred *)
    destruct (kc_facts _ Hsafe) as (K1 & K2 & K3 & K4). pose proof (align_center_piece (upper_str (cell_at row col)) w) as EP. cbv zeta in EP.
    set (h := upper_str (cell_at row col)) in *. set (need := w - zlen (kept_center h)) in *.
    assert (EP' : exists l r, align_center h w = piece l (kc h) r /\ 0 <= l /\ 0 <= r /\ l + glen (kc h) + r = w).
    { destruct (need <=? 0) eqn:En.
      - exists 0, 0. split; [exact EP|]. unfold need in *. lia.
      - exists (need - need / 2), (need / 2). split; [exact EP|]. unfold need in *.
        assert (0 <= (w - zlen (kept_center h)) / 2) by (apply Z.div_pos; lia).
        assert ((w - zlen (kept_center h)) / 2 <= w - zlen (kept_center h)) by (apply Z.div_le_upper_bound; lia). lia. }
    destruct EP' as (l & r & EP' & Hl & Hr & Hsum). unfold gadd. rewrite EP'. split.
    + rewrite glen_after_plain by (exact Hy || exact IHs). rewrite glen_before_plain by (apply piece_ends_ok, K2 || exact Hy).
      rewrite piece_glen by assumption. lia.
    + rewrite <- app_assoc. apply piece_starts; [exact K1|]. apply starts_ok_plain, Hy.
  - (* body: one space, left aligned to w - 1 *)
    destruct (kl_facts _ Hsafe) as (K1 & K2 & K3 & K4). unfold gadd. rewrite align_left_piece.
    set (c := cell_at row col) in *. set (r := Z.max 0 (w - 1 - zlen (kept_left c))).
    assert (EP : [SP] ++ piece 0 (kl c) r = piece 1 (kl c) r) by (unfold piece; rewrite spaces_one, (spaces_nonpos 0) by lia; reflexivity).
    rewrite EP. split.
    + rewrite glen_after_plain by (exact Hy || exact IHs). rewrite glen_before_plain by (apply piece_ends_ok, K2 || exact Hy).
      rewrite piece_glen by (assumption || lia). unfold r. lia.
    + rewrite <- app_assoc. apply piece_starts; [exact K1|]. apply starts_ok_plain, Hy.
Qed.

Lemma build_row_plain cs row hdr : forall ws col,
  fits false hdr row ws col ->
  glen (build_row cs row ws col hdr false) = sumZ ws /\ starts_ok (build_row cs row ws col hdr false).
Proof.
  induction ws as [|w ws IH]; intros col Hf; [split; [reflexivity|exact I]|].
  destruct (IH (S col) (fits_tail _ _ _ _ _ _ Hf)) as [IHg IHs].
  destruct (Hf 0%nat w eq_refl) as [Hsafe Hw]. rewrite Nat.add_0_r in Hsafe, Hw.
  cbn [build_row sumZ].
  assert (E : (if hdr then align_left (upper_str (cell_at row col)) w else align_left (cell_at row col) w) = align_left (cellt row col hdr) w)
    by (unfold cellt; destruct hdr; reflexivity).
  rewrite E. set (c := cellt row col hdr) in *.
  destruct (kl_facts _ Hsafe) as (K1 & K2 & K3 & K4). rewrite align_left_piece. set (r := Z.max 0 (w - zlen (kept_left c))).
  split; [|apply piece_starts; [exact K1|exact IHs]].
  destruct ws as [|w2 ws'].
  - cbn [build_row]. rewrite app_nil_r. rewrite piece_glen by (assumption || lia). cbn [length Nat.ltb Nat.leb] in Hw. unfold r. cbn [sumZ]. lia.
  - assert (Hr : 0 < r) by (cbn [length] in Hw; change (Nat.ltb 1 (S (S (length ws')))) with true in Hw; cbv iota in Hw; unfold r; lia).
    destruct (piece_ends_plain 0 (kl c) r Hr) as [a Ea].
    assert (Hg : glen (piece 0 (kl c) r) = w) by (rewrite piece_glen by (assumption || lia); unfold r; lia).
    rewrite Ea in *. rewrite glen_after_plain by (apply sp_plain || exact IHs). rewrite Hg, IHg. reflexivity.
Qed.

(* ---- bars ---- *)
Lemma glen_plain rs : Forall plain rs -> glen rs = zlen rs.
Proof. intro Hp. unfold glen. rewrite clusters_plain by exact Hp. unfold zlen. rewrite map_length. reflexivity. Qed.

Lemma grepeat_single z n : grepeat [z] n = repeat z (Z.to_nat n).
Proof. unfold grepeat. apply repeatn_single. Qed.

Lemma horz_bar_plain x z ws : plain x -> plain z -> Forall (fun w => 0 <= w) ws ->
  Forall plain (horz_bar [x] [z] ws) /\ zlen (horz_bar [x] [z] ws) = sumZ (map (fun w => w + 1) ws).
Proof.
  intros Hx Hz. induction 1 as [|w ws Hw _ [IH1 IH2]]; [split; [constructor|reflexivity]|].
  cbn [horz_bar map sumZ]. rewrite grepeat_single. split.
  - apply Forall_app. split; [apply Forall_forall; intros r Hr; apply repeat_spec in Hr; subst; exact Hz|]. constructor; assumption.
  - rewrite !zlen_app, zlen_repeat, IH2. unfold zlen at 1. cbn [length]. lia.
Qed.

(* ---- the table ---- *)
Definition table_width (border : bool) (ws : list Z) : Z :=
  if border then 1 + sumZ (map (fun w => w + 1) ws) else sumZ ws.

Lemma build_rows_rect cs x y z ws header border multi hbar nbbar W :
  cs_corner cs = [x] -> cs_vert cs = [y] -> cs_horz cs = [z] -> plain y ->
  W = table_width border ws -> glen hbar = W \/ border = false -> glen nbbar = W \/ (header && negb border = false) ->
  forall data first,
  (forall i row, nth_error data i = Some row -> fits border ((Nat.eqb i 0) && first && header) row ws 0) ->
  Forall (fun l => glen l = W) (build_rows cs data ws first header border multi hbar nbbar).
Proof.
  intros Hc Hv Hh Hy HW Hhb Hnb. induction data as [|row data IH]; intros first Hfit; [constructor|].
  cbn [build_rows]. constructor; [|apply Forall_app; split].
  - pose proof (Hfit 0%nat row eq_refl) as Hf. cbn [Nat.eqb andb] in Hf. unfold table_width in HW. destruct border; cbv iota in HW.
    + destruct (build_row_border cs row y (first && header) Hv Hy ws 0%nat Hf) as [Hg Hs]. rewrite Hv.
      change ([y] ++ build_row cs row ws 0 (first && header) true) with (([] ++ [y]) ++ build_row cs row ws 0 (first && header) true).
      rewrite glen_after_plain by assumption. rewrite Hg. cbn [app]. rewrite glen_plain by (constructor; [exact Hy|constructor]). unfold zlen. cbn [length]. lia.
    + destruct (build_row_plain cs row (first && header) ws 0%nat Hf) as [Hg _]. cbn [app]. lia.
  - destruct (first && header) eqn:Efh; [|constructor]. destruct border.
    + destruct multi; [|constructor]. constructor; [|constructor]. destruct Hhb as [E|E]; [exact E|discriminate].
    + constructor; [|constructor]. destruct Hnb as [E|E]; [exact E|]. destruct first, header; cbn in *; discriminate.
  - apply IH. intros i r Hn. specialize (Hfit (S i) r Hn). cbn [Nat.eqb andb] in Hfit. rewrite andb_false_r. cbn [andb]. exact Hfit.
Qed.

Theorem build_table_rect data ws width sep header border cs x y z :
  cs_corner cs = [x] -> cs_vert cs = [y] -> cs_horz cs = [z] -> plain x -> plain y -> plain z ->
  Forall (fun w => 0 <= w) ws ->
  (header && negb border = true -> width = sumZ ws) ->
  (forall i row, nth_error data i = Some row -> fits border ((Nat.eqb i 0) && header) row ws 0) ->
  Forall (fun l => glen l = table_width border ws) (b_lines (build_table data ws width sep header border cs)).
Proof.
  intros Hc Hv Hh Hx Hy Hz Hws Hwidth Hfit. unfold build_table. cbn [b_lines]. rewrite Hc, Hh.
  destruct (horz_bar_plain x z ws Hx Hz Hws) as [Hbp Hbl].
  assert (Hbar : border = true -> glen ([x] ++ horz_bar [x] [z] ws) = table_width border ws).
  { intros ->. rewrite glen_plain by (constructor; assumption). unfold table_width. rewrite zlen_app, Hbl. unfold zlen. cbn [length]. lia. }
  assert (Hrows : Forall (fun l => glen l = table_width border ws)
                    (build_rows cs data ws true header border (1 <? zlen data)
                       (if border then [x] ++ horz_bar [x] [z] ws else [])
                       (if header && negb border then grepeat [z] width else []))).
  { apply (build_rows_rect cs x y z ws header border _ _ _ (table_width border ws)); try assumption; try reflexivity.
    - destruct border; [left; apply Hbar; reflexivity|right; reflexivity].
    - destruct (header && negb border) eqn:E; [left|right; reflexivity].
      rewrite grepeat_single, glen_plain by (apply Forall_forall; intros r Hr; apply repeat_spec in Hr; subst; exact Hz).
      rewrite zlen_repeat. rewrite (Hwidth eq_refl). destruct border; [destruct header; discriminate|]. unfold table_width.
      assert (0 <= sumZ ws) by (clear -Hws; induction Hws; cbn; lia). lia.
    - intros i row Hn. specialize (Hfit i row Hn). rewrite andb_true_r. exact Hfit. }
  destruct border.
  - apply Forall_app. split; [constructor; [apply Hbar; reflexivity|constructor]|].
    apply Forall_app. split; [exact Hrows|constructor; [apply Hbar; reflexivity|constructor]].
  - cbn [app]. rewrite app_nil_r. exact Hrows.
Qed.

(* ---- MakeTable ---- *)
Definition cw_step (col : nat) (acc : Z) (row : list gstr) : Z :=
  let l := glen (cell_at row col) in if acc <=? l then l else acc.

Lemma fold_width_ge (data : list (list gstr)) col : forall acc,
  acc <= fold_left (cw_step col) data acc /\
  (forall row, In row data -> glen (cell_at row col) <= fold_left (cw_step col) data acc).
Proof.
  induction data as [|r data IH]; intro acc; [split; [cbn; lia|intros ? []]|]. cbn [fold_left].
  destruct (IH (cw_step col acc r)) as [IH1 IH2].
  assert (acc <= cw_step col acc r /\ glen (cell_at r col) <= cw_step col acc r) by (unfold cw_step; cbv zeta; destruct (acc <=? glen (cell_at r col)) eqn:E; lia).
  split; [lia|]. intros row [<-|Hin]; [lia|apply IH2, Hin].
Qed.

Lemma col_width_ge data col row : In row data -> glen (cell_at row col) <= col_content_width data col.
Proof. intro Hin. change (col_content_width data col) with (fold_left (cw_step col) data 0). apply (fold_width_ge data col 0), Hin. Qed.

Lemma col_width_nonneg data col : 0 <= col_content_width data col.
Proof. change (col_content_width data col) with (fold_left (cw_step col) data 0). apply (fold_width_ge data col 0). Qed.

Lemma map_combine_seq {A B} (f : nat * A -> B) (g : nat -> A) n : forall s,
  map f (combine (seq s n) (map g (seq s n))) = map (fun i => f (i, g i)) (seq s n).
Proof. induction n as [|n IH]; intro s; [reflexivity|]. cbn [seq map combine]. f_equal. apply IH. Qed.

Lemma nth_error_map_seq {B} (h : nat -> B) n j v : nth_error (map h (seq 0 n)) j = Some v -> (j < n)%nat /\ v = h j.
Proof.
  intro Hn. assert (Hj : (j < n)%nat).
  { assert (Hlt : (j < length (map h (seq 0 n)))%nat) by (apply nth_error_Some; congruence). rewrite map_length, seq_length in Hlt. exact Hlt. }
  split; [exact Hj|]. rewrite (map_nth_error h j (seq 0 n) (d := j)) in Hn; [congruence|].
  rewrite nth_error_nth' with (d := 0%nat) by (rewrite seq_length; exact Hj). rewrite seq_nth by exact Hj. reflexivity.
Qed.

Lemma Forall2_nth_le (a b : list Z) j w : Forall2 (fun x y => x <= y) a b -> nth_error b j = Some w ->
  exists p, nth_error a j = Some p /\ p <= w.
Proof.
  intro HF. revert j. induction HF as [|x y a b Hxy _ IH]; intros j Hn; [destruct j; discriminate|].
  destruct j as [|j]; [cbn in *; inversion Hn; subst; exists x; split; [reflexivity|exact Hxy]|apply IH, Hn].
Qed.

Lemma Forall2_len {A B} (R : A -> B -> Prop) a b : Forall2 R a b -> length a = length b.
Proof. induction 1; cbn; congruence. Qed.

Lemma sumZ_nonneg l : Forall (fun w => 0 <= w) l -> 0 <= sumZ l.
Proof. induction 1; cbn; lia. Qed.

Lemma sumZ_map_succ l : sumZ (map (fun w => w + 1) l) = sumZ l + zlen l.
Proof. induction l as [|x l IH]; [reflexivity|]. cbn [map sumZ]. rewrite IH. unfold zlen. cbn [length]. lia. Qed.

Lemma all_safe_nil' : all_safe []. Proof. constructor. Qed.

Lemma cell_at_in row col : cell_at row col = [] \/ In (cell_at row col) row.
Proof. unfold cell_at. destruct (nth_error row col) eqn:E; [right; eapply nth_error_In; exact E|left; reflexivity]. Qed.

(* the minimum width the content needs, and what MakeTable renders *)
Definition min_table_width (data : list (list gstr)) (border : bool) : Z :=
  let colCount := fold_left (fun acc row => Nat.max acc (length row)) data O in
  let padded := map (fun i => col_content_width data i + (if border then 2 else if Nat.ltb (S i) colCount then 2 else 0)) (seq 0 colCount) in
  (if border then 1 else 0) + sumZ padded + (if border then Z.of_nat colCount else 0).

Theorem make_table_rect data width sep header border charSet x y z :
  let cs := parse_table_charset charSet in
  cs_corner cs = [x] -> cs_vert cs = [y] -> cs_horz cs = [z] -> plain x -> plain y -> plain z ->
  (forall row c, In row data -> In c row -> all_safe c) ->
  (header = true -> forall row c, nth_error data 0 = Some row -> In c row -> all_safe (upper_str c) /\ glen (upper_str c) <= glen c) ->
  Forall (fun l => glen l = Z.max width (min_table_width data border)) (b_lines (make_table data width sep header border charSet)).
Proof.
  cbv zeta. intros Hc Hv Hh Hx Hy Hz Hsafe Hup. unfold make_table.
  destruct data as [|row0 data']; [constructor|]. set (data := row0 :: data') in *.
  unfold min_table_width. set (colCount := fold_left (fun acc row => Nat.max acc (length row)) data O).
  destruct colCount as [|cc] eqn:Ecc; [constructor|]. rewrite <- Ecc. 
  rewrite map_combine_seq.
  set (padded := map (fun i => col_content_width data i + (if border then 2 else if Nat.ltb (S i) colCount then 2 else 0)) (seq 0 colCount)).
  assert (Hhl : glen (cs_horz (parse_table_charset charSet)) = 1) by (rewrite Hh, glen_plain by (constructor; [exact Hz|constructor]); reflexivity).
  rewrite Hhl.
  assert (Hplen : zlen padded = Z.of_nat colCount) by (unfold padded, zlen; rewrite map_length, seq_length; reflexivity).
  assert (Hppos : Forall (fun w => 0 <= w) padded).
  { unfold padded. apply Forall_forall. intros w Hw. apply in_map_iff in Hw as (i & <- & _). pose proof (col_width_nonneg data i).
    destruct border; [lia|]. destruct (Nat.ltb (S i) colCount); lia. }
  set (minw := (if border then 1 else 0) + sumZ padded + (if border then 1 * Z.of_nat colCount else 0)).
  set (n := if negb border && Nat.ltb 1 colCount then Z.of_nat colCount - 1 else Z.of_nat colCount).
  assert (Hn : 0 < n <= zlen padded).
  { unfold n. rewrite Hplen. destruct (negb border && Nat.ltb 1 colCount) eqn:E; [|lia].
    apply andb_true_iff in E as [_ E]. apply Nat.ltb_lt in E. lia. }
  set (ws := if 0 <? width - minw then add_space padded 0 n ((width - minw) / n) ((width - minw) mod n) else padded).
  assert (Hge : Forall2 (fun a b => a <= b) padded ws).
  { unfold ws. destruct (0 <? width - minw) eqn:E; [apply add_space_ge; apply Z.div_pos; lia|].
    clear. induction padded; constructor; [lia|assumption]. }
  assert (Hsum : sumZ ws = sumZ padded + Z.max 0 (width - minw)).
  { unfold ws. destruct (0 <? width - minw) eqn:E; [rewrite surplus_distributed_exactly by lia; lia|lia]. }
  assert (Hwslen : zlen ws = Z.of_nat colCount).
  { rewrite <- Hplen. unfold zlen. f_equal. symmetry. eapply Forall2_len. exact Hge. }
  assert (Hwspos : Forall (fun w => 0 <= w) ws).
  { clear -Hge Hppos. induction Hge; [constructor|]. inversion Hppos; subst. constructor; [lia|auto]. }
  assert (Hfit : forall i row, nth_error data i = Some row -> fits border ((Nat.eqb i 0) && header) row ws 0).
  { intros i row Hrow j w Hw. cbn [Nat.add].
    destruct (Forall2_nth_le _ _ _ _ Hge Hw) as (p & Hp & Hpw). unfold padded in Hp. apply nth_error_map_seq in Hp as [Hj Hp].
    assert (Hin : In row data) by (eapply nth_error_In; exact Hrow).
    pose proof (col_width_ge data j row Hin) as Hcw.
    assert (Hcell : all_safe (cell_at row j)) by (destruct (cell_at_in row j) as [->|Hc']; [apply all_safe_nil'|apply (Hsafe row _ Hin Hc')]).
    assert (Hlenws : length ws = colCount) by (unfold zlen in Hwslen; lia).
    assert (Hcellt : all_safe (cellt row j ((Nat.eqb i 0) && header)) /\ glen (cellt row j ((Nat.eqb i 0) && header)) <= glen (cell_at row j)).
    { unfold cellt. destruct ((Nat.eqb i 0) && header) eqn:Eh; [|split; [exact Hcell|lia]].
      apply andb_true_iff in Eh as [Ei Ehd]. apply Nat.eqb_eq in Ei. subst i.
      destruct (cell_at_in row j) as [E0|Hc']; [rewrite E0; split; [apply all_safe_nil'|cbn; lia]|apply (Hup Ehd row _ Hrow Hc')]. }
    destruct Hcellt as [Hs1 Hs2]. split; [exact Hs1|]. rewrite Hlenws. subst p.
    destruct border; [destruct ((Nat.eqb i 0) && header); lia|]. destruct (Nat.ltb (S j) colCount); lia. }
  assert (HW : table_width border ws = Z.max width minw).
  { unfold table_width. rewrite sumZ_map_succ, Hsum, Hwslen. unfold minw. destruct border; lia. }
  assert (Hminw : minw = (if border then 1 else 0) + sumZ padded + (if border then Z.of_nat colCount else 0)) by (unfold minw; destruct border; lia).
  rewrite <- Hminw, <- HW. fold minw. fold n.
  destruct (0 <? width - minw) eqn:Espace.
  - assert (Ews : ws = add_space padded 0 n ((width - minw) / n) ((width - minw) mod n)) by reflexivity.
    rewrite <- Ews. apply (build_table_rect data ws width sep header border _ x y z); try assumption.
    intro Hnb. rewrite Hsum. unfold minw. destruct border; [destruct header; discriminate|]. lia.
  - assert (Ews : ws = padded) by reflexivity.
    rewrite <- Ews. apply (build_table_rect data ws minw sep header border _ x y z); try assumption.
    intro Hnb. rewrite Hsum. unfold minw. destruct border; [destruct header; discriminate|]. lia.
Qed.

(* ---- the character set ---- *)
Lemma concat_map_singleton {A} (l : list A) : concat (map (fun r => [r]) l) = l.
Proof. induction l as [|x l IH]; [reflexivity|]. cbn. f_equal. exact IH. Qed.

Lemma map_skipn_c {A B} (f : A -> B) k (l : list A) : map f (skipn k l) = skipn k (map f l).
Proof. revert l; induction k as [|k IH]; intro l; [reflexivity|]. destruct l; [reflexivity|]. cbn. apply IH. Qed.

Lemma gsub_plain rs a b : Forall plain rs -> (a <= b <= length rs)%nat ->
  gsub rs (Z.of_nat a) (Z.of_nat b) = firstn (b - a) (skipn a rs).
Proof.
  intros Hp Hab. rewrite gsub_range by (rewrite clusters_plain, map_length by exact Hp; exact Hab).
  rewrite clusters_plain by exact Hp. rewrite <- map_skipn_c, firstn_map. apply concat_map_singleton.
Qed.

Lemma gsub_plainZ rs a b : Forall plain rs -> 0 <= a <= b -> b <= zlen rs ->
  gsub rs a b = firstn (Z.to_nat b - Z.to_nat a) (skipn (Z.to_nat a) rs).
Proof.
  intros Hp Hab Hb. rewrite <- (Z2Nat.id a), <- (Z2Nat.id b) at 1 by lia. apply gsub_plain; [exact Hp|unfold zlen in Hb; lia].
Qed.

Lemma parse3 a b c : plain a -> plain b -> plain c ->
  gsub [a; b; c] 0 1 = [a] /\ gsub [a; b; c] 1 2 = [b] /\ gsub [a; b; c] 2 3 = [c].
Proof.
  intros Ha Hb Hc. assert (Hp : Forall plain [a; b; c]) by (repeat constructor; assumption).
  repeat split; rewrite gsub_plainZ by (try exact Hp; unfold zlen; cbn [length]; lia); reflexivity.
Qed.

(* the three-cluster set after completion / truncation *)
Definition norm_charset (cs : gstr) : gstr :=
  if glen cs <? 3 then gadd cs (gsub default_charset_runes 0 (3 - glen cs))
  else if 3 <? glen cs then gsub cs 0 3 else cs.

Lemma norm_charset_plain cs : Forall plain cs -> exists a b c, plain a /\ plain b /\ plain c /\ norm_charset cs = [a; b; c].
Proof.
  intro Hp. unfold norm_charset. rewrite (glen_plain cs Hp).
  assert (P43 : plain 43) by (apply ok_ascii; lia). assert (P124 : plain 124) by (apply ok_ascii; lia). assert (P45 : plain 45) by (apply ok_ascii; lia).
  assert (Hd : Forall plain default_charset_runes) by (repeat constructor; assumption).
  destruct cs as [|a [|b [|c [|d rest]]]].
  - change (zlen (@nil Z)) with 0. change (0 <? 3) with true. cbv iota.
    rewrite gsub_plainZ by (try exact Hd; unfold zlen, default_charset_runes; cbn [length]; lia).
    exists 43, 124, 45. repeat split; assumption || reflexivity.
  - inversion Hp as [|? ? Ha _]; subst. change (zlen [a]) with 1. change (1 <? 3) with true. cbv iota.
    rewrite gsub_plainZ by (try exact Hd; unfold zlen, default_charset_runes; cbn [length]; lia).
    exists a, 43, 124. repeat split; assumption || reflexivity.
  - inversion Hp as [|? ? Ha Hp2]; subst. inversion Hp2 as [|? ? Hb _]; subst. change (zlen [a; b]) with 2. change (2 <? 3) with true. cbv iota.
    rewrite gsub_plainZ by (try exact Hd; unfold zlen, default_charset_runes; cbn [length]; lia).
    exists a, b, 43. repeat split; assumption || reflexivity.
  - inversion Hp as [|? ? Ha Hp2]; subst. inversion Hp2 as [|? ? Hb Hp3]; subst. inversion Hp3 as [|? ? Hc _]; subst.
    change (zlen [a; b; c]) with 3. change (3 <? 3) with false. cbv iota.
    exists a, b, c. repeat split; assumption || reflexivity.
  - inversion Hp as [|? ? Ha Hp2]; subst. inversion Hp2 as [|? ? Hb Hp3]; subst. inversion Hp3 as [|? ? Hc _]; subst.
    assert (Hlen : 4 <= zlen (a :: b :: c :: d :: rest)) by (unfold zlen; cbn [length]; lia).
    replace (zlen (a :: b :: c :: d :: rest) <? 3) with false by lia. replace (3 <? zlen (a :: b :: c :: d :: rest)) with true by lia. cbv iota.
    rewrite gsub_plainZ by (try exact Hp; lia).
    exists a, b, c. repeat split; assumption || reflexivity.
Qed.

Theorem parse_charset_plain charSet : Forall plain charSet ->
  exists x y z, cs_corner (parse_table_charset charSet) = [x] /\ cs_vert (parse_table_charset charSet) = [y] /\
                cs_horz (parse_table_charset charSet) = [z] /\ plain x /\ plain y /\ plain z.
Proof.
  intro Hp. destruct (norm_charset_plain charSet Hp) as (a & b & c & Ha & Hb & Hc & E).
  unfold parse_table_charset. fold (norm_charset charSet). rewrite E. cbn [cs_corner cs_vert cs_horz].
  destruct (parse3 a b c Ha Hb Hc) as (E1 & E2 & E3). exists a, b, c. repeat split; assumption.
Qed.

(* the statement for a plain character set, with the charset hypothesis discharged *)
Theorem table_rectangular data width sep header border charSet :
  Forall plain charSet ->
  (forall row c, In row data -> In c row -> all_safe c) ->
  (header = true -> forall row c, nth_error data 0 = Some row -> In c row -> all_safe (upper_str c) /\ glen (upper_str c) <= glen c) ->
  Forall (fun l => glen l = Z.max width (min_table_width data border)) (b_lines (make_table data width sep header border charSet)).
Proof.
  intros Hp Hsafe Hup. destruct (parse_charset_plain charSet Hp) as (x & y & z & E1 & E2 & E3 & Hx & Hy & Hz).
  exact (make_table_rect data width sep header border charSet x y z E1 E2 E3 Hx Hy Hz Hsafe Hup).
Qed.

End C16Q.
