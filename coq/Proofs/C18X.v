(* C18, continued: the text a Lines selection holds is valid UTF-8. *)
From Coq Require Import List Bool Arith ZArith Lia ZifyBool.
Import ListNotations.
From Rosed Require Import Base.Res Base.ListX Base.Utf8 Base.Str Gem.Segment Gem.GString Model.Util Model.Tb Model.Manip Model.Table
     Model.Options Model.Editor Model.Ops Check.Common Proofs.StrP Proofs.Utf8P Proofs.C04P Proofs.C17P Proofs.C18P Proofs.C18T Proofs.C18U
     Proofs.Utf8SplitP Proofs.C18V Proofs.C10P Proofs.C10Q.
Open Scope Z_scope.

Notation valid x := (valid_utf8 x = true).

Lemma firstn_In {A} (x : A) n : forall l, In x (firstn n l) -> In x l.
Proof. induction n as [|n IH]; intros l Hx; [destruct Hx|]. destruct l as [|y l]; [destruct Hx|]. destruct Hx as [->|Hx]; [left; reflexivity|right; apply IH, Hx]. Qed.
Lemma skipn_In {A} (x : A) n : forall l, In x (skipn n l) -> In x l.
Proof. induction n as [|n IH]; intros l Hx; [exact Hx|]. destruct l as [|y l]; [destruct Hx|]. right. apply IH, Hx. Qed.

Lemma valid_concat (l : list (list Z)) : Forall (fun x => valid x) l -> valid (concat l).
Proof. induction 1 as [|x l Hx _ IH]; [exact valid_nil|]. cbn [concat]. apply valid_app; assumption. Qed.

Lemma sub_ed_text e x y r : sub_ed e x y = Ok r -> e_text r = zslice (e_text e) x y.
Proof.
  unfold sub_ed, zsub. intro E. destruct (_ || _); cbn [bind] in E; [discriminate|]. injection E as <-. reflexivity.
Qed.

Lemma zslice_empty {A} (l : list A) x : zslice l x x = [].
Proof. unfold zslice, slice. rewrite Nat.sub_diag. reflexivity. Qed.

Section C18X.
Context `{Classifier}.

Theorem lines_sel_valid e s0 e0 r : valid (e_text e) -> valid (o_linesep (with_defaults (e_opts e))) ->
  ed_lines_sel e s0 e0 = Ok r -> valid (e_text r).
Proof.
  intros He Hsep E.
  destruct (e_text e) as [|x0 t0] eqn:Et.
  { unfold ed_lines_sel in E. rewrite Et in E. apply sub_ed_text in E. rewrite E, zslice_empty. exact valid_nil. }
  assert (Htext : e_text e <> []) by (rewrite Et; discriminate). rewrite <- Et in *. clear Et.
  pose proof (proj1 (wd_linesep (e_opts e))) as Hne.
  pose proof (lines_sel_spec e s0 e0 Htext Hne) as Hspec. cbv zeta in Hspec. rewrite Hspec in E. clear Hspec.
  set (text := e_text e) in *. set (sep := o_linesep (with_defaults (e_opts e))) in *. set (P := split text sep) in *.
  set (lc := line_count e) in *.
  assert (Hlc : 0 <= lc <= Z.of_nat (length P)).
  { unfold lc, line_count, ed_lines. fold sep. pose proof (lines_sep_length e sep) as Hl. cbv zeta in Hl. fold text P in Hl. unfold zlen. lia. }
  pose proof (range_to_indexes_bounds lc (if s0 =? go_End then lc else s0) (if e0 =? go_End then lc else e0) ltac:(lia)) as Hb.
  destruct (range_to_indexes lc (if s0 =? go_End then lc else s0) (if e0 =? go_End then lc else e0)) as [a b]. destruct Hb as [[Ha Hab] Hblc].
  pose proof (split_valid text sep He Hsep Hne) as HP. fold P in HP.
  destruct (lc <=? a) eqn:Ela.
  { apply sub_ed_text in E. rewrite E, zslice_empty. exact valid_nil. }
  apply sub_ed_text in E. rewrite E. destruct (Z.to_nat b <? length P)%nat eqn:Eb.
  - unfold P. rewrite lines_range_text by (fold P; lia || exact Hne). fold P. apply valid_concat.
    apply Forall_forall. intros y Hy. apply in_map_iff in Hy as (p & <- & Hp). apply valid_app; [|exact Hsep].
    rewrite Forall_forall in HP. apply HP. unfold slice in Hp. apply firstn_In in Hp. apply skipn_In in Hp. exact Hp.
  - unfold P. rewrite lines_tail_text by (fold P; lia || exact Hne). fold P. apply valid_join; [exact Hsep|].
    apply Forall_forall. intros p Hp. rewrite Forall_forall in HP. apply HP. apply skipn_In in Hp. exact Hp.
Qed.

End C18X.
