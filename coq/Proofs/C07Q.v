(* C07, continued: CollapseSpace on clusters. The re-segmenting loop of CollapseSpace maps
   every cluster whose first code point is white space to a single U+0020 and keeps every
   other cluster - provided no cluster of the text can merge with a space put next to it
   (otherwise the loop really does eat the mark that follows a line feed; see DESIGN 7). The
   final pass then deletes every U+0020 cluster that follows another one. *)
From Coq Require Import List Bool Arith ZArith Lia ZifyBool.
Import ListNotations.
From Rosed Require Import Base.Cls Base.Res Base.ListX Base.Str Gem.Segment Gem.GString Model.Tb Model.Manip Model.Table
     Proofs.SegmentP Proofs.SeamP Proofs.StrP Proofs.C13P Proofs.C06Q Proofs.C07P Proofs.C18P.
Open Scope Z_scope.

Section C07Q.
Context `{ClassifierOk} `{Upper}.

Definition wsc (c : list Z) : bool := is_space (first_rune c).
Definition normws (c : list Z) : list Z := if wsc c then [SP] else c.
Definition safe_c (c : list Z) : Prop := starts_ok c /\ ends_ok c.

(* a space between two texts that cannot merge with it *)
Lemma clusters_sp_between a b : ends_ok a -> starts_ok b -> clusters (a ++ [SP] ++ b) = clusters a ++ [[SP]] ++ clusters b.
Proof.
  intros Ha Hb. rewrite clusters_app by (apply seam_before_plain; [exact Ha|apply sp_plain]).
  f_equal. change ([SP] ++ b) with (repeat SP 1 ++ b). rewrite clusters_repeat_app by (apply sp_plain || exact Hb). reflexivity.
Qed.

Lemma nth_error_split {A} (l : list A) i x : nth_error l i = Some x -> l = firstn i l ++ x :: skipn (S i) l /\ length (firstn i l) = i.
Proof.
  revert i; induction l as [|y l IH]; intros i Hi; [destruct i; discriminate|].
  destruct i as [|i]; [cbn in *; inversion Hi; split; reflexivity|].
  cbn [nth_error] in Hi. destruct (IH i Hi) as [E L]. cbn [firstn skipn app length]. split; [f_equal; exact E|f_equal; exact L].
Qed.

Lemma firstn_S_nth {A} (l : list A) i x : nth_error l i = Some x -> firstn (S i) l = firstn i l ++ [x].
Proof.
  revert i; induction l as [|y l IH]; intros i Hi; [destruct i; discriminate|].
  destruct i as [|i]; [cbn in *; congruence|]. cbn [nth_error] in Hi. cbn [firstn app]. f_equal. apply IH, Hi.
Qed.

Lemma cut_after {A} (a : list A) x b i : length a = i -> firstn (S i) (a ++ x :: b) = a ++ [x] /\ skipn (S i) (a ++ x :: b) = b.
Proof.
  revert i; induction a as [|y a IH]; intros i Hl; cbn in Hl; subst i; [split; reflexivity|].
  destruct (IH (length a) eq_refl) as [E1 E2]. cbn [length app]. split; [cbn [firstn]; f_equal; exact E1|cbn [skipn]; exact E2].
Qed.

(* one replacement *)
Lemma replace_cluster text i ch : all_safe text -> nth_error (clusters text) i = Some ch ->
  let text' := concat (firstn i (clusters text)) ++ [SP] ++ concat (skipn (S i) (clusters text)) in
  clusters text' = firstn i (clusters text) ++ [[SP]] ++ skipn (S i) (clusters text) /\ all_safe text'.
Proof.
  intros Hs Hn. cbn zeta. set (cl := clusters text) in *.
  assert (Hpre : all_safe (concat (firstn i cl))) by (apply (all_safe_slice text 0 i Hs)).
  assert (Hpost : all_safe (concat (skipn (S i) cl))).
  { pose proof (all_safe_slice text (S i) (length cl) Hs) as Hx. fold cl in Hx. rewrite firstn_all2 in Hx by (rewrite skipn_length; lia). exact Hx. }
  assert (E : clusters (concat (firstn i cl) ++ [SP] ++ concat (skipn (S i) cl)) = firstn i cl ++ [[SP]] ++ skipn (S i) cl).
  { rewrite clusters_sp_between by (apply all_safe_ends; assumption).
    unfold cl. rewrite clusters_firstn, clusters_skipn. reflexivity. }
  split; [exact E|]. unfold all_safe. rewrite E. unfold all_safe in Hs. fold cl in Hs.
  apply Forall_app. split; [apply Forall_forall; intros c Hc; rewrite Forall_forall in Hs; apply Hs; apply in_firstn' in Hc; exact Hc|].
  apply Forall_app. split; [constructor; [exact sp_cluster_safe|constructor]|].
  apply Forall_forall; intros c Hc; rewrite Forall_forall in Hs; apply Hs; apply in_skipn' in Hc; exact Hc.
Qed.

(* the loop, from position i with n clusters to go *)
Lemma collapse_loop_spec n : forall fuel text i, all_safe text -> length (clusters text) = (i + n)%nat -> (n < fuel)%nat ->
  exists r, collapse_loop fuel (Z.of_nat i) text = Ok r /\
    clusters r = firstn i (clusters text) ++ map normws (skipn i (clusters text)) /\ all_safe r.
Proof.
  induction n as [|n IH]; intros fuel text i Hs Hl Hf; (destruct fuel as [|fuel]; [lia|]); cbn [collapse_loop].
  - replace (Z.of_nat i <? zlen (clusters text)) with false by (unfold zlen; lia).
    exists text. split; [reflexivity|]. split; [|exact Hs].
    rewrite firstn_all2, skipn_all2 by lia. cbn. rewrite app_nil_r. reflexivity.
  - replace (Z.of_nat i <? zlen (clusters text)) with true by (unfold zlen; lia).
    destruct (nth_error (clusters text) i) as [ch|] eqn:En; [|apply nth_error_None in En; lia].
    unfold znth. replace (Z.of_nat i <? 0) with false by lia. rewrite Nat2Z.id, En. cbn [bind].
    replace (Z.of_nat i + 1) with (Z.of_nat (S i)) by lia.
    destruct (nth_error_split _ _ _ En) as [Esplit Elen].
    assert (Hskip : skipn i (clusters text) = ch :: skipn (S i) (clusters text)).
    { rewrite Esplit at 1. rewrite skipn_app, Elen, Nat.sub_diag, skipn_all2 by lia. reflexivity. }
    destruct (is_space (first_rune ch)) eqn:Ews.
    + destruct (replace_cluster text i ch Hs En) as [Ecl Hs'].
      set (text' := concat (firstn i (clusters text)) ++ [SP] ++ concat (skipn (S i) (clusters text))) in *.
      destruct (IH fuel text' (S i) Hs') as (r & Hr & Hcl & Hsr).
      * rewrite Ecl, !app_length, Elen, skipn_length. cbn [length]. lia.
      * lia.
      * exists r. split; [exact Hr|]. split; [|exact Hsr]. rewrite Hcl, Ecl, Hskip. cbn [map]. unfold normws at 2, wsc. rewrite Ews.
        cbn [app]. destruct (cut_after (firstn i (clusters text)) [SP] (skipn (S i) (clusters text)) i Elen) as [E1 E2].
        rewrite E1, E2, <- app_assoc. reflexivity.
    + destruct (IH fuel text (S i) Hs ltac:(lia) ltac:(lia)) as (r & Hr & Hcl & Hsr).
      exists r. split; [exact Hr|]. split; [|exact Hsr]. rewrite Hcl, Hskip. cbn [map]. unfold normws at 2, wsc. rewrite Ews.
      rewrite (firstn_S_nth _ _ _ En), <- app_assoc. reflexivity.
Qed.

(* ---- the final pass, on clusters ---- *)
Definition is_sp (c : list Z) : bool := match c with [x] => x =? SP | _ => false end.

Fixpoint dedup (prev : bool) (L : list (list Z)) : list (list Z) :=
  match L with
  | [] => []
  | c :: L' => if is_sp c then (if prev then dedup true L' else c :: dedup true L') else c :: dedup false L'
  end.

Lemma is_sp_true c : is_sp c = true -> c = [SP].
Proof. destruct c as [|x [|y c]]; cbn; try discriminate. intro E. f_equal. lia. Qed.

(* a block without U+0020 passes through the run-collapsing pass *)
Lemma collapse_runs_block c rest prev : c <> [] -> ~ In SP c ->
  collapse_runs SP prev (c ++ rest) = c ++ collapse_runs SP false rest.
Proof.
  revert prev; induction c as [|x c IH]; intros prev Hne Hin; [congruence|].
  cbn [app collapse_runs]. replace (x =? SP) with false by (assert (x <> SP) by (intro E; apply Hin; left; exact E); lia).
  f_equal. destruct c as [|y c]; [reflexivity|]. apply IH; [discriminate|intro Hi; apply Hin; right; exact Hi].
Qed.

Definition piece_ok (c : list Z) : Prop := is_sp c = true \/ (c <> [] /\ ~ In SP c).

Lemma collapse_runs_concat L : Forall piece_ok L -> forall prev,
  collapse_runs SP prev (concat L) = concat (dedup prev L).
Proof.
  induction 1 as [|c L Hc _ IH]; intro prev; [reflexivity|]. cbn [concat dedup].
  destruct Hc as [Hsp|[Hne Hin]].
  - rewrite Hsp. apply is_sp_true in Hsp. subst c. cbn [app collapse_runs]. rewrite Z.eqb_refl.
    destruct prev; [apply IH|cbn [concat app]; f_equal; apply IH].
  - assert (Hns : is_sp c = false).
    { destruct (is_sp c) eqn:E; [|reflexivity]. apply is_sp_true in E. subst c. exfalso. apply Hin. left. reflexivity. }
    rewrite Hns. rewrite collapse_runs_block by assumption. cbn [concat]. f_equal. apply IH.
Qed.

(* a list of clusters that is its own segmentation *)
Definition segd (L : list (list Z)) : Prop := clusters (concat L) = L.

Lemma segd_cons_inv c L : segd (c :: L) -> clusters c = [c] /\ segd L /\ seam_ok c (concat L).
Proof. intro E. exact (clusters_cons (concat (c :: L)) c L E). Qed.

Lemma segd_cons c L : clusters c = [c] -> segd L -> seam_ok c (concat L) -> segd (c :: L).
Proof. intros Hc HL Hs. unfold segd in *. cbn [concat]. rewrite clusters_app by exact Hs. rewrite Hc, HL. reflexivity. Qed.

Lemma seam_ok_same_head a b b' : seam_ok a b -> hd_error b' = hd_error b -> seam_ok a b'.
Proof. unfold seam_ok. destruct b as [|x b], b' as [|y b']; cbn; intros Hs Hh; try exact I; try discriminate. inversion Hh; subst. exact Hs. Qed.

Lemma hd_error_concat_cons (c : list Z) L L' : c <> [] -> hd_error (concat (c :: L)) = hd_error (concat (c :: L')).
Proof. destruct c; [congruence|reflexivity]. Qed.

Lemma starts_ok_concat L : Forall (fun c => safe_c c /\ c <> []) L -> starts_ok (concat L).
Proof. destruct 1 as [|c L [[Hs _] Hne] _]; [exact I|]. destruct c as [|x c]; [congruence|]. exact Hs. Qed.

Lemma dedup_sub prev L (P : list Z -> Prop) : Forall P L -> Forall P (dedup prev L).
Proof.
  intro HF. revert prev. induction HF as [|c L Hc _ IH]; intro prev; [constructor|]. cbn [dedup].
  destruct (is_sp c); [destruct prev; [apply IH|constructor; [exact Hc|apply IH]]|constructor; [exact Hc|apply IH]].
Qed.

(* deleting U+0020 clusters that follow a U+0020 cluster leaves the other boundaries alone *)
Lemma segd_dedup L : segd L -> Forall (fun c => safe_c c /\ c <> []) L ->
  segd (dedup true L) /\ segd (dedup false L) /\ hd_error (concat (dedup false L)) = hd_error (concat L).
Proof.
  intros Hseg HF. revert Hseg. induction HF as [|c L [Hc Hne] HF IH]; intro Hseg; [repeat split; reflexivity|].
  destruct (segd_cons_inv c L Hseg) as (Hcc & HL & Hseam). destruct (IH HL) as (IHt & IHf & IHh).
  cbn [dedup]. destruct (is_sp c) eqn:Esp.
  - apply is_sp_true in Esp. subst c. split; [exact IHt|]. split; [|reflexivity].
    apply segd_cons; [reflexivity|exact IHt|].
    apply (seam_after_plain [] SP); [apply sp_plain|]. apply starts_ok_concat. apply dedup_sub. exact HF.
  - assert (Hs : segd (c :: dedup false L)).
    { apply segd_cons; [exact Hcc|exact IHf|]. apply (seam_ok_same_head c (concat L)); [exact Hseam|exact IHh]. }
    split; [exact Hs|]. split; [exact Hs|]. apply hd_error_concat_cons. exact Hne.
Qed.

Lemma dedup_keeps_nonws prev L : Forall (fun c => is_sp c = true -> wsc c = true) L ->
  filter (fun c => negb (wsc c)) (dedup prev L) = filter (fun c => negb (wsc c)) L.
Proof.
  intro HF. revert prev. induction HF as [|c L Hc _ IH]; intro prev; [reflexivity|]. cbn [dedup filter].
  destruct (is_sp c) eqn:Esp.
  - rewrite (Hc eq_refl). cbn [negb]. destruct prev; [apply IH|]. cbn [filter]. rewrite (Hc eq_refl). cbn [negb]. apply IH.
  - cbn [filter]. rewrite IH. reflexivity.
Qed.

(* ---- CollapseSpace as a whole ---- *)
Definition nonws (L : list (list Z)) : list (list Z) := filter (fun c => negb (wsc c)) L.

(* no cluster can merge with a neighbouring space, and a cluster that does not start with
   white space contains none *)
Definition safe_text (t : gstr) : Prop :=
  Forall (fun c => safe_c c /\ (wsc c = true \/ Forall (fun r => is_space r = false) c)) (clusters t).

Lemma safe_text_all_safe t : safe_text t -> all_safe t.
Proof. unfold safe_text, all_safe. apply Forall_impl. intros c [Hc _]. exact Hc. Qed.

Lemma length_concat_ge (L : list (list Z)) : Forall (fun c => c <> []) L -> (length L <= length (concat L))%nat.
Proof. induction 1 as [|c L Hc _ IH]; [cbn; lia|]. cbn. rewrite app_length. destruct c; [congruence|cbn; lia]. Qed.

Lemma wsc_normws c : wsc (normws c) = wsc c.
Proof. unfold normws. destruct (wsc c) eqn:E; [reflexivity|exact E]. Qed.

Lemma nonws_normws L : nonws (map normws L) = nonws L.
Proof.
  unfold nonws. induction L as [|c L IH]; [reflexivity|]. cbn [map filter]. rewrite wsc_normws.
  destruct (wsc c) eqn:E; cbn [negb]; [exact IH|]. unfold normws. rewrite E. f_equal. exact IH.
Qed.

Lemma normws_safe c : safe_c c -> safe_c (normws c).
Proof. unfold normws. destruct (wsc c); [intros _; exact sp_cluster_safe|auto]. Qed.

Theorem collapse_space_clusters text sep r :
  let t0 := if gis_empty sep then text else replace_all text sep [SP] in
  safe_text t0 -> collapse_space text sep = Ok r ->
  clusters r = dedup false (map normws (clusters t0)) /\
  nonws (clusters r) = nonws (clusters t0) /\
  Forall (fun c => wsc c = true -> c = [SP]) (clusters r) /\
  safe_text r.
Proof.
  cbn zeta. set (t0 := if gis_empty sep then text else replace_all text sep [SP]).
  intros Hsafe Hcs. change (bind (collapse_loop (S (length t0)) 0 t0) (fun x => Ok (collapse_runs SP false x)) = Ok r) in Hcs.
  pose proof (clusters_nonempty t0) as Hne.
  destruct (collapse_loop_spec (length (clusters t0)) (S (length t0)) t0 0%nat (safe_text_all_safe _ Hsafe) eq_refl) as (r1 & Hr1 & Hcl1 & Hs1).
  { pose proof (length_concat_ge _ Hne) as Hle. rewrite clusters_concat in Hle. lia. }
  change (Z.of_nat 0) with 0 in Hr1. rewrite Hr1 in Hcs. cbn [bind] in Hcs. assert (Hr : collapse_runs SP false r1 = r) by congruence. clear Hcs.
  cbn [firstn skipn app] in Hcl1. set (L := map normws (clusters t0)) in *.
  assert (HL : Forall (fun c => (safe_c c /\ c <> []) /\ piece_ok c /\ (wsc c = true -> c = [SP])
                               /\ (wsc c = true \/ Forall (fun r => is_space r = false) c)) L).
  { unfold L. apply Forall_forall. intros c' Hin. apply in_map_iff in Hin as (c & <- & Hin).
    unfold safe_text in Hsafe. rewrite Forall_forall in Hsafe, Hne. destruct (Hsafe c Hin) as [Hc Hin'].
    specialize (Hne c Hin). unfold normws. destruct (wsc c) eqn:Ew.
    - split; [split; [exact sp_cluster_safe|discriminate]|]. split; [left; reflexivity|]. split; [reflexivity|left; reflexivity].
    - destruct Hin' as [Hx|Hns]; [discriminate|]. split; [split; assumption|]. split; [|split; [rewrite Ew; discriminate|right; exact Hns]].
      right. split; [exact Hne|]. intro Hsp. rewrite Forall_forall in Hns. specialize (Hns SP Hsp). discriminate. }
  assert (Hr' : r = concat (dedup false L)).
  { rewrite <- Hr. rewrite <- (clusters_concat r1), Hcl1. apply collapse_runs_concat.
    revert HL. apply Forall_impl. tauto. }
  assert (Hseg : segd L) by (unfold segd; rewrite <- Hcl1, clusters_concat; reflexivity).
  destruct (segd_dedup L Hseg) as (_ & Hd & _); [revert HL; apply Forall_impl; tauto|].
  assert (Hclr : clusters r = dedup false L) by (rewrite Hr'; exact Hd).
  split; [exact Hclr|]. rewrite Hclr. split; [|split].
  - unfold nonws. rewrite dedup_keeps_nonws.
    + apply nonws_normws.
    + revert HL. apply Forall_impl. intros c (_ & _ & Hw & _) Hsp. apply is_sp_true in Hsp. subst c. reflexivity.
  - apply dedup_sub. revert HL. apply Forall_impl. tauto.
  - unfold safe_text. rewrite Hclr. apply dedup_sub. revert HL. apply Forall_impl. tauto.
Qed.

Lemma dedup_idem L : dedup true (dedup true L) = dedup true L /\ dedup false (dedup true L) = dedup true L /\
  dedup false (dedup false L) = dedup false L.
Proof.
  induction L as [|c L (A1 & A2 & A3)]; [repeat split; reflexivity|]. cbn [dedup]. destruct (is_sp c) eqn:E.
  - split; [exact A1|]. split; [exact A2|]. cbn [dedup]. rewrite E. f_equal. exact A1.
  - cbn [dedup]. rewrite E. repeat split; f_equal; exact A3.
Qed.

Lemma map_normws_id M : Forall (fun c => wsc c = true -> c = [SP]) M -> map normws M = M.
Proof.
  induction 1 as [|c M Hc _ IH]; [reflexivity|]. cbn [map]. rewrite IH. f_equal. unfold normws.
  destruct (wsc c) eqn:E; [symmetry; apply Hc; reflexivity|reflexivity].
Qed.

(* CollapseSpace is idempotent (when the separator does not occur in the collapsed text, which
   is the case for every separator that was replaced by spaces the first time) *)
Theorem collapse_space_idem text sep r sep2 :
  safe_text (if gis_empty sep then text else replace_all text sep [SP]) -> collapse_space text sep = Ok r ->
  (if gis_empty sep2 then r else replace_all r sep2 [SP]) = r ->
  collapse_space r sep2 = Ok r.
Proof.
  intros Hsafe Hcs Hsep2.
  destruct (collapse_space_clusters text sep r Hsafe Hcs) as (Hcl & _ & Hws & Hsr).
  destruct (collapse_space_total r sep2) as [r' Hr']. rewrite Hr'. f_equal.
  pose proof (collapse_space_clusters r sep2 r') as Hc2. cbv zeta in Hc2. unfold gstr in *. rewrite Hsep2 in Hc2.
  destruct (Hc2 Hsr Hr') as (Hcl' & _).
  rewrite (map_normws_id _ Hws) in Hcl'. rewrite Hcl in Hcl'.
  destruct (dedup_idem (map normws (clusters (if gis_empty sep then text else replace_all text sep [SP])))) as (_ & _ & A3).
  rewrite A3, <- Hcl in Hcl'. rewrite <- (clusters_concat r'), Hcl', clusters_concat. reflexivity.
Qed.

(* ---- C03 for CollapseSpace: the result of collapsing a cluster-for-cluster image is the image ---- *)
Lemma dedup_map (f : list Z -> list Z) L : (forall c, In c L -> is_sp (f c) = is_sp c) -> forall prev,
  dedup prev (map f L) = map f (dedup prev L).
Proof.
  induction L as [|c L IH]; intros Hf prev; [reflexivity|]. cbn [map dedup]. rewrite (Hf c (or_introl eq_refl)).
  assert (Hf' : forall c0, In c0 L -> is_sp (f c0) = is_sp c0) by (intros c0 Hc0; apply Hf; right; exact Hc0).
  destruct (is_sp c); [destruct prev; [apply IH, Hf'|cbn [map]; f_equal; apply IH, Hf']|cbn [map]; f_equal; apply IH, Hf'].
Qed.

Lemma is_sp_wsc c : is_sp c = true -> wsc c = true.
Proof. intro E. apply is_sp_true in E. subst c. reflexivity. Qed.

Theorem collapse_space_image rho text sep r text' r' :
  let t0 := if gis_empty sep then text else replace_all text sep [SP] in
  let t0' := if gis_empty sep then text' else replace_all text' sep [SP] in
  (forall c, wsc (rho c) = wsc c) -> clusters t0' = map rho (clusters t0) ->
  safe_text t0 -> safe_text t0' -> collapse_space text sep = Ok r -> collapse_space text' sep = Ok r' ->
  clusters r' = map (fun c => if is_sp c then c else rho c) (clusters r).
Proof.
  cbv zeta. intros Hk Him Hs Hs' Hr Hr'.
  destruct (collapse_space_clusters text sep r Hs Hr) as (Hcl & _). destruct (collapse_space_clusters text' sep r' Hs' Hr') as (Hcl' & _).
  rewrite Hcl', Hcl, Him.
  assert (Em : map normws (map rho (clusters (if gis_empty sep then text else replace_all text sep [SP])))
             = map (fun c => if is_sp c then c else rho c) (map normws (clusters (if gis_empty sep then text else replace_all text sep [SP])))).
  { rewrite !map_map. apply map_ext. intro c. unfold normws. rewrite Hk. destruct (wsc c) eqn:Ew; [reflexivity|].
    destruct (is_sp c) eqn:Es; [apply is_sp_wsc in Es; congruence|reflexivity]. }
  rewrite Em. apply dedup_map. intros c Hin. destruct (is_sp c) eqn:Es; [exact Es|].
  apply in_map_iff in Hin as (c0 & <- & _). unfold normws in *. destruct (wsc c0) eqn:Ew; [cbn in Es; discriminate|].
  destruct (is_sp (rho c0)) eqn:Er; [apply is_sp_wsc in Er; rewrite Hk in Er; congruence|reflexivity].
Qed.

(* non-vacuity: every text of plain (class Other) code points qualifies, e.g. printable ASCII *)
Lemma clusters_plain rs : Forall plain rs -> clusters rs = map (fun r => [r]) rs.
Proof.
  induction rs as [|r rs IH] using rev_ind; intro Hp; [reflexivity|].
  apply Forall_app in Hp as [Hp Hr]. inversion Hr as [|? ? Hr' _]; subst.
  rewrite clusters_snoc_plain; [rewrite IH by exact Hp; rewrite map_app; reflexivity| |exact Hr'].
  destruct rs as [|x rs'] using rev_ind; [left; reflexivity|right]. rewrite last_last.
  apply Forall_app in Hp as [_ Hx]. inversion Hx as [|? ? Hx' _]; subst. unfold plain in Hx'. rewrite Hx'. discriminate.
Qed.

Lemma plain_text_safe rs : Forall plain rs -> safe_text rs.
Proof.
  intro Hp. unfold safe_text. rewrite clusters_plain by exact Hp. apply Forall_forall. intros c Hin.
  apply in_map_iff in Hin as (r & <- & Hr). rewrite Forall_forall in Hp. specialize (Hp r Hr). unfold plain in Hp.
  split; [split; [cbn; rewrite Hp; repeat split; discriminate|right; cbn; rewrite Hp; discriminate]|].
  unfold wsc, first_rune. cbn [hd]. destruct (is_space r) eqn:E; [left; reflexivity|right; constructor; [exact E|constructor]].
Qed.

Example safe_text_example : safe_text [97; 32; 32; 98; 45; 99; 32].
Proof. apply plain_text_safe. repeat (apply Forall_cons; [apply ok_ascii; lia|]). apply Forall_nil. Qed.

End C07Q.
