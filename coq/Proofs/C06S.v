(* C06, continued: the greedy partition is unique, hence wrapping wrapped text again changes
   nothing; and a word is cut only when it is longer than the width. *)
From Coq Require Import List Bool Arith ZArith Lia ZifyBool.
Import ListNotations.
From Rosed Require Import Base.Cls Base.Res Base.ListX Base.Str Gem.Segment Gem.GString Model.Util Model.Tb Model.Manip Model.Table
     Proofs.SegmentP Proofs.SeamP Proofs.StrP Proofs.C04P Proofs.C13P Proofs.C18P Proofs.C06P Proofs.C06Q Proofs.C06R.
Open Scope Z_scope.

Section C06S.
Context `{ClassifierOk} `{Upper}.

(* words no longer than the width are never cut: the pieces are the words *)
Lemma cov_no_chunk W ps ws : Forall (fun w => glen w <= W) ws -> cov W ps ws -> ps = ws.
Proof.
  intros HF Hc. induction Hc as [|w ps ws Hc IH|o w' ps ws Hne Hlt Hfull Hc IH]; [reflexivity| |].
  - inversion HF; subst. f_equal. apply IH. assumption.
  - inversion HF as [|? ? Hle _]; subst. lia.
Qed.

Lemma sumZ_app a b : sumZ (a ++ b) = sumZ a + sumZ b.
Proof. induction a; cbn; [reflexivity|rewrite IHa; lia]. Qed.

(* a longer line of pieces is longer by at least a space and the next piece *)
Lemma ln_extend ps q t : ps <> [] -> Forall pc_ok (ps ++ q :: t) ->
  glen (ln ps) + 1 + glen q <= glen (ln (ps ++ q :: t)).
Proof.
  intros Hne HF. pose proof HF as HF2. apply Forall_app in HF2 as [HFp HFq].
  destruct (ln_props _ HF) as [_ E1]. destruct (ln_props _ HFp) as [_ E2]. rewrite E1, E2.
  rewrite map_app, sumZ_app, zlen_app. cbn [map sumZ].
  assert (0 <= sumZ (map glen t)) by (clear; induction t; cbn; [lia|pose proof (glen_nonneg a); lia]).
  assert (1 <= zlen ps) by (destruct ps; [congruence|unfold zlen; cbn [length]; lia]).
  assert (1 <= zlen (q :: t)) by (unfold zlen; cbn [length]; lia).
  pose proof (glen_nonneg q). lia.
Qed.

Lemma chain_tail W ps rest : chain W (ps :: rest) -> chain W rest.
Proof. destruct rest as [|r rest']; [intros _; exact I|cbn [chain]; tauto]. Qed.

(* two greedy partitions of the same piece sequence coincide *)
Theorem greedy_unique W : forall pss pss',
  Forall (lp_ok W) pss -> Forall (lp_ok W) pss' -> chain W pss -> chain W pss' ->
  concat pss = concat pss' -> pss = pss'.
Proof.
  induction pss as [|ps rest IH]; intros pss' G1 G2 C1 C2 E.
  - destruct pss' as [|ps' rest']; [reflexivity|]. inversion G2 as [|? ? (Hne & _) _]; subst. cbn in E. destruct ps'; [congruence|discriminate].
  - destruct pss' as [|ps' rest'].
    + inversion G1 as [|? ? (Hne & _) _]; subst. cbn in E. destruct ps; [congruence|discriminate].
    + inversion G1 as [|? ? (Hne1 & Hp1 & Hw1) G1']; subst. inversion G2 as [|? ? (Hne2 & Hp2 & Hw2) G2']; subst.
      cbn [concat] in E. apply app_eq_app in E as [m [[E1 E2]|[E1 E2]]].
      * (* ps = ps' ++ m *)
        destruct m as [|q t].
        -- rewrite app_nil_r in E1. subst ps'. cbn [app] in E2. f_equal.
           apply IH; [exact G1'|exact G2'|exact (chain_tail _ _ _ C1)|exact (chain_tail _ _ _ C2)|congruence].
        -- exfalso. subst ps. destruct rest' as [|r1 rest'']; [cbn in E2; discriminate|].
           cbn [chain] in C2. destruct C2 as [Hnf _]. inversion G2' as [|? ? (Hr1 & _) _]; subst.
           destruct r1 as [|q' r1']; [congruence|]. cbn [concat app] in E2. inversion E2; subst q'. cbn [hd] in Hnf.
           pose proof (ln_extend ps' q t Hne2 Hp1) as Hext. unfold nofit in Hnf. pose proof (glen_nonneg q). lia.
      * destruct m as [|q t].
        -- rewrite app_nil_r in E1. subst ps'. cbn [app] in E2. f_equal.
           apply IH; [exact G1'|exact G2'|exact (chain_tail _ _ _ C1)|exact (chain_tail _ _ _ C2)|congruence].
        -- exfalso. subst ps'. destruct rest as [|r1 rest'']; [cbn in E2; discriminate|].
           cbn [chain] in C1. destruct C1 as [Hnf _]. inversion G1' as [|? ? (Hr1 & _) _]; subst.
           destruct r1 as [|q' r1']; [congruence|]. cbn [concat app] in E2. inversion E2; subst q'. cbn [hd] in Hnf.
           pose proof (ln_extend ps q t Hne1 Hp2) as Hext. unfold nofit in Hnf. pose proof (glen_nonneg q). lia.
Qed.

(* ---- the words of a line of pieces are its pieces ---- *)
Lemma wds_run (L : list (list Z)) rest : forall cur, Forall (fun c => first_rune c <> SP) L ->
  wds (L ++ rest) cur = wds rest (cur ++ concat L).
Proof.
  induction L as [|c L IH]; intros cur HF; [cbn; rewrite app_nil_r; reflexivity|].
  inversion HF as [|? ? Hc HF']; subst. cbn [app wds concat]. replace (first_rune c =? SP) with false by lia.
  rewrite IH by exact HF'. rewrite app_assoc. reflexivity.
Qed.

Lemma wds_ln ps : ps <> [] -> Forall pc_ok ps -> wds (clusters (ln ps)) [] = ps.
Proof.
  induction ps as [|p ps IH]; [congruence|]. intros _ HF. inversion HF as [|? ? (Hpne & Hps & Hpn) HF']; subst.
  destruct ps as [|q t].
  - cbn [ln join]. rewrite <- (app_nil_r (clusters p)). rewrite wds_run by exact Hpn. cbn [wds app]. rewrite clusters_concat.
    destruct p; [congruence|reflexivity].
  - change (ln (p :: q :: t)) with (p ++ [SP] ++ ln (q :: t)).
    destruct (ln_props (q :: t) HF') as [Hsl _].
    rewrite clusters_snoc_sp_app by assumption. rewrite wds_run by exact Hpn. cbn [app wds]. unfold first_rune at 1. cbn [hd].
    rewrite Z.eqb_refl. cbn [app]. rewrite clusters_concat. rewrite IH by (discriminate || exact HF').
    destruct p; [congruence|reflexivity].
Qed.

Lemma piece_le_line ps p : Forall pc_ok ps -> In p ps -> glen p <= glen (ln ps).
Proof.
  intros HF Hin. destruct (ln_props ps HF) as [_ E]. rewrite E.
  assert (Hs : glen p <= sumZ (map glen ps)).
  { clear -Hin. induction ps as [|x ps IH]; [destruct Hin|]. cbn [map sumZ].
    assert (Hnn : 0 <= sumZ (map glen ps)) by (clear; induction ps; cbn; [lia|pose proof (glen_nonneg a); lia]).
    destruct Hin as [->|Hin]; [lia|]. specialize (IH Hin). pose proof (glen_nonneg x). lia. }
  lia.
Qed.

(* wrapping text whose collapsed form is the pieces of an earlier wrap, joined by single spaces,
   to the same width gives the same lines *)
Theorem wrap_again text w sep ct b text' :
  collapse_space text sep = Ok ct -> all_safe ct -> ct <> [] -> wrap text w sep = Ok b -> b_lines b <> [] ->
  (forall pss, b_lines b = map ln pss -> collapse_space text' sep = Ok (ln (concat pss))) ->
  exists b', wrap text' w sep = Ok b' /\ b_lines b' = b_lines b.
Proof.
  intros Hc Hs Hne Hw Hlines Hre.
  destruct (wrap_structure text w sep ct b Hc Hs Hne Hw) as (pss & Eb & Hlp & Hch & _).
  specialize (Hre pss Eb). set (W := Z.max w 2) in *.
  assert (Hpne : pss <> []) by (intro E0; rewrite E0 in Eb; cbn in Eb; congruence).
  assert (Hall : Forall pc_ok (concat pss)).
  { apply Forall_forall. intros p Hp. apply in_concat in Hp as (ps & Hps & Hp). rewrite Forall_forall in Hlp.
    destruct (Hlp ps Hps) as (_ & HF & _). rewrite Forall_forall in HF. apply HF, Hp. }
  assert (Hcne : concat pss <> []).
  { destruct pss as [|ps0 rest]; [congruence|]. inversion Hlp as [|? ? (Hps0 & _) _]; subst. cbn. destruct ps0; [congruence|discriminate]. }
  destruct (ln_props _ Hall) as [Hsafe' _]. pose proof (ln_ne _ Hcne Hall) as Hne'.
  destruct (wrap_total text' w sep) as [b' Hw']. exists b'. split; [exact Hw'|].
  destruct (wrap_structure text' w sep _ b' Hre Hsafe' Hne' Hw') as (pss' & Eb' & Hlp' & Hch' & Hcov').
  fold W in Hlp', Hch', Hcov'. rewrite wds_ln in Hcov' by assumption.
  assert (Hle : Forall (fun p => glen p <= W) (concat pss)).
  { apply Forall_forall. intros p Hp. apply in_concat in Hp as (ps & Hps & Hp). rewrite Forall_forall in Hlp.
    destruct (Hlp ps Hps) as (_ & HF & Hw0). pose proof (piece_le_line ps p HF Hp). lia. }
  pose proof (cov_no_chunk W _ _ Hle Hcov') as Econ.
  rewrite (greedy_unique W pss' pss Hlp' Hlp Hch' Hch Econ) in Eb'. congruence.
Qed.

End C06S.
