(* Images across plain code points: when two texts meet at a code point of class Other (a space,
   a hyphen, a border character) their cluster lists are simply concatenated, so a
   cluster-for-cluster image of the parts is an image of the whole. Used for the layouts that
   glue user text to padding and decoration: the definitions table, tables. *)
From Coq Require Import List Bool Arith ZArith Lia ZifyBool.
Import ListNotations.
From Rosed Require Import Base.Cls Base.Res Base.ListX Base.Str Base.Utf8 Gem.Segment Gem.GString Model.Util Model.Tb Model.Manip Model.Table
     Proofs.SegmentP Proofs.SeamP Proofs.C13P Proofs.C06Q Proofs.C07Q Proofs.C12R Proofs.C15P Proofs.C15Q Proofs.C03P Proofs.C03T.
Open Scope Z_scope.

Section ImageP.
Context `{ClassifierOk} `{Upper}.
Variable rho : list Z -> list Z.

(* a plain code point that the substitution leaves alone *)
Definition pfix (r : Z) : Prop := plain r /\ rho [r] = [r].

Lemma image_plain P : Forall pfix P -> image rho P P.
Proof.
  intro HP. unfold image. rewrite clusters_plain by (eapply Forall_impl; [|exact HP]; intros a [Ha _]; exact Ha).
  rewrite map_map. apply map_ext_in. intros r Hr. rewrite Forall_forall in HP. symmetry. exact (proj2 (HP r Hr)).
Qed.

Lemma plain_starts_ok P X : Forall pfix P -> P <> [] -> starts_ok (P ++ X).
Proof.
  intros HP Hne. destruct P as [|p P']; [congruence|]. inversion HP as [|? ? [Hp _] _]; subst. cbn [app starts_ok].
  unfold plain in Hp. rewrite Hp. repeat split; discriminate.
Qed.

Lemma starts_ok_app' a X : starts_ok a -> starts_ok X -> starts_ok (a ++ X).
Proof. destruct a; [intros _ HX; exact HX|intros Ha _; exact Ha]. Qed.

Lemma plain_ends_ok X P : Forall pfix P -> P <> [] -> ends_ok (X ++ P).
Proof.
  intros HP Hne. destruct (exists_last Hne) as (P0 & p & ->). apply Forall_app in HP as [_ Hp]. inversion Hp as [|? ? [Hp' _] _]; subst.
  rewrite app_assoc. apply ends_ok_snoc_plain, Hp'.
Qed.

(* the two texts meet at a plain code point (or one of them is empty) *)
Definition meets (a b : list Z) : Prop :=
  a = [] \/ b = [] \/ (exists a0 p, a = a0 ++ [p] /\ plain p /\ starts_ok b) \/ (exists p b0, b = p :: b0 /\ plain p /\ ends_ok a).

Lemma clusters_meets a b : meets a b -> clusters (a ++ b) = clusters a ++ clusters b.
Proof.
  intros [->|[->|[(a0 & p & -> & Hp & Hb)|(p & b0 & -> & Hp & Ha)]]].
  - reflexivity.
  - rewrite !app_nil_r. reflexivity.
  - apply clusters_app, seam_after_plain; assumption.
  - apply clusters_app, seam_before_plain; assumption.
Qed.

Lemma image_app a a' b b' : meets a b -> meets a' b' -> image rho a a' -> image rho b b' -> image rho (a ++ b) (a' ++ b').
Proof. intros M M' Ia Ib. unfold image in *. rewrite !clusters_meets by assumption. rewrite Ia, Ib, map_app. reflexivity. Qed.

Lemma meets_plain_l P b : Forall pfix P -> starts_ok b -> meets P b.
Proof.
  intros HP Hb. destruct P as [|p0 P0] eqn:EP; [left; reflexivity|]. rewrite <- EP in *. assert (Hne : P <> []) by (rewrite EP; discriminate).
  destruct (exists_last Hne) as (Q & p & ->). apply Forall_app in HP as [_ Hp]. inversion Hp as [|? ? [Hp' _] _]; subst.
  right. right. left. exists Q, p. repeat split; assumption.
Qed.

Lemma meets_plain_r a P : Forall pfix P -> ends_ok a -> meets a P.
Proof.
  intros HP Ha. destruct P as [|p P0]; [right; left; reflexivity|]. inversion HP as [|? ? [Hp _] _]; subst.
  right. right. right. exists p, P0. repeat split; assumption.
Qed.

(* plain text before and after an image *)
Lemma image_plain_l P b b' : Forall pfix P -> starts_ok b -> starts_ok b' -> image rho b b' -> image rho (P ++ b) (P ++ b').
Proof. intros HP Sb Sb' Ib. apply image_app; try (apply meets_plain_l; assumption); [apply image_plain, HP|exact Ib]. Qed.

Lemma image_plain_r a a' P : Forall pfix P -> ends_ok a -> ends_ok a' -> image rho a a' -> image rho (a ++ P) (a' ++ P).
Proof. intros HP Ea Ea' Ia. apply image_app; try (apply meets_plain_r; assumption); [exact Ia|apply image_plain, HP]. Qed.

(* user text, non-empty plain text, user text *)
Lemma image_plain_mid a a' P b b' : Forall pfix P -> P <> [] -> ends_ok a -> ends_ok a' -> starts_ok b -> starts_ok b' ->
  image rho a a' -> image rho b b' -> image rho (a ++ P ++ b) (a' ++ P ++ b').
Proof.
  intros HP Hne Ea Ea' Sb Sb' Ia Ib. destruct P as [|p P0]; [congruence|]. inversion HP as [|? ? [Hp _] _]; subst.
  apply image_app.
  - right. right. right. exists p, (P0 ++ b). split; [reflexivity|split; assumption].
  - right. right. right. exists p, (P0 ++ b'). split; [reflexivity|split; assumption].
  - exact Ia.
  - apply image_plain_l; assumption.
Qed.

Lemma Forall2_impl {A B} (P Q : A -> B -> Prop) l l' : (forall a b, P a b -> Q a b) -> Forall2 P l l' -> Forall2 Q l l'.
Proof. intros HI HF. induction HF; constructor; auto. Qed.

Lemma pfix_repeat p k : pfix p -> Forall pfix (repeat p k).
Proof. intro Hp. induction k; constructor; assumption. Qed.

Hypothesis rho_sp : rho [SP] = [SP].
Hypothesis rho_hy : rho [HYPHEN] = [HYPHEN].

Lemma pfix_sp : pfix SP. Proof. split; [apply sp_plain|exact rho_sp]. Qed.
Lemma pfix_hy : pfix HYPHEN. Proof. split; [apply hyphen_plain|exact rho_hy]. Qed.

Lemma cont_rows_image k rs rs' : Forall2 (image rho) rs rs' -> Forall all_safe rs -> Forall all_safe rs' ->
  Forall2 (image rho) (map (fun l => repeat SP k ++ [SP; SP] ++ l) rs) (map (fun l => repeat SP k ++ [SP; SP] ++ l) rs').
Proof.
  intro HR. induction HR as [|l l' rs rs' Il HR IH]; intros S1 S2; [constructor|]. inversion S1; subst. inversion S2; subst.
  cbn [map]. constructor; [|apply IH; assumption].
  rewrite !app_assoc. apply image_plain_l.
  - apply Forall_app. split; [apply pfix_repeat, pfix_sp|repeat constructor; apply pfix_sp].
  - apply (all_safe_ends l). assumption.
  - apply (all_safe_ends l'). assumption.
  - exact Il.
Qed.

(* one entry of the definitions table: the term, padded to the longest term, the dash, the
   first line of the wrapped definition; then the continuation lines under the definition *)
Theorem entry_rows_image term term' longest R R' :
  image rho term term' -> starts_ok term -> ends_ok term -> starts_ok term' -> ends_ok term' ->
  Forall2 (image rho) R R' -> Forall all_safe R -> Forall all_safe R' ->
  Forall2 (image rho) (entry_rows term longest R) (entry_rows term' longest R').
Proof.
  intros It St Et St' Et' HR SR SR'. unfold entry_rows. destruct HR as [|r0 r0' rs rs' I0 HR]; [constructor|].
  inversion SR as [|? ? S0 SRs]; subst. inversion SR' as [|? ? S0' SRs']; subst.
  assert (Hg : glen term' = glen term) by (unfold glen; apply (image_len rho term term' It)).
  constructor.
  - rewrite Hg. change ([SP; SP] ++ term ++ repeat SP (Z.to_nat (longest - glen term)) ++ repeat SP 2 ++ [HYPHEN; SP] ++ r0)
      with ([SP; SP] ++ (term ++ (repeat SP (Z.to_nat (longest - glen term)) ++ [SP; SP; HYPHEN; SP] ++ r0))).
    change ([SP; SP] ++ term' ++ repeat SP (Z.to_nat (longest - glen term)) ++ repeat SP 2 ++ [HYPHEN; SP] ++ r0')
      with ([SP; SP] ++ (term' ++ (repeat SP (Z.to_nat (longest - glen term)) ++ [SP; SP; HYPHEN; SP] ++ r0'))).
    rewrite !(app_assoc (repeat SP _) [SP; SP; HYPHEN; SP]).
    set (P := repeat SP (Z.to_nat (longest - glen term)) ++ [SP; SP; HYPHEN; SP]).
    assert (HP : Forall pfix P).
    { unfold P. apply Forall_app. split; [apply pfix_repeat, pfix_sp|]. repeat constructor; (apply pfix_sp || apply pfix_hy). }
    assert (HPne : P <> []) by (unfold P; destruct (repeat SP (Z.to_nat (longest - glen term))); discriminate).
    apply image_plain_l.
    + repeat constructor; apply pfix_sp.
    + apply starts_ok_app'; [exact St|apply plain_starts_ok; assumption].
    + apply starts_ok_app'; [exact St'|apply plain_starts_ok; assumption].
    + apply image_plain_mid; try assumption; [apply (all_safe_ends r0 S0)|apply (all_safe_ends r0' S0')].
  - apply cont_rows_image; assumption.
Qed.

(* the longest term is measured in clusters: the same for the terms and their images *)
Lemma longest_image defs defs' : Forall2 (fun d d' : list Z * list Z => image rho (decode (fst d)) (decode (fst d'))) defs defs' ->
  forall acc, fold_left lg_step defs' acc = fold_left lg_step defs acc.
Proof.
  induction 1 as [|d d' defs defs' Hd HF IH]; intro acc; [reflexivity|]. cbn [fold_left]. rewrite IH. f_equal.
  unfold lg_step. cbv zeta. replace (glen (decode (fst d'))) with (glen (decode (fst d))); [reflexivity|].
  unfold glen. symmetry. apply (image_len rho _ _ Hd).
Qed.

(* the definitions table, entry by entry and row by row: with the terms' images as terms and
   definitions that wrap to images of the lines, every row is the image of the row *)
Theorem deftable_entries_image defs defs' rbs rbs' :
  Forall2 (fun d d' : list Z * list Z => image rho (decode (fst d)) (decode (fst d')) /\
             word_ok (decode (fst d)) /\ word_ok (decode (fst d'))) defs defs' ->
  Forall2 (fun rb rb' => Forall2 (image rho) (b_lines rb) (b_lines rb') /\ Forall all_safe (b_lines rb) /\ Forall all_safe (b_lines rb')) rbs rbs' ->
  let longest := fold_left lg_step defs (-1) in
  fold_left lg_step defs' (-1) = longest /\
  Forall2 (Forall2 (image rho)) (map (fun p => entry longest (fst p) (snd p)) (combine defs rbs))
                                (map (fun p => entry longest (fst p) (snd p)) (combine defs' rbs')).
Proof.
  intros Hd Hb longest. split.
  - apply longest_image. eapply Forall2_impl; [|exact Hd]. intros a b (Hi & _). exact Hi.
  - generalize longest. clear longest. intro longest. revert rbs rbs' Hb.
    induction Hd as [|d d' defs defs' (Hi & [Hs He] & [Hs' He']) Hd IH]; intros rbs rbs' Hb; [constructor|].
    destruct Hb as [|rb rb' rbs rbs' (Hl & Sl & Sl') Hb]; [constructor|]. cbn [combine map fst snd]. constructor; [|apply IH, Hb].
    unfold entry. cbn [fst].
    assert (Enil : image rho [] []) by reflexivity.
    destruct Hl as [|l l' ls ls' Il Hl].
    + apply entry_rows_image; try assumption; repeat constructor; exact Enil.
    + apply entry_rows_image; try assumption. constructor; assumption.
Qed.

End ImageP.
