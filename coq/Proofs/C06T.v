(* C06 without any assumption on the clusters: no line Wrap returns is wider than the (clamped)
   width, for every text, width and separator. Where C06Q adds cluster counts exactly (for texts
   whose clusters cannot merge), this file bounds them with the subadditivity of segmentation. *)
From Coq Require Import List Bool Arith ZArith Lia ZifyBool.
Import ListNotations.
From Rosed Require Import Base.Cls Base.Res Base.ListX Base.Str Gem.Segment Gem.GString Model.Util Model.Tb Model.Manip
     Proofs.SegmentP Proofs.SubaddP Proofs.C04P Proofs.C06Q Proofs.C18P.
Open Scope Z_scope.

Section C06T.
Context `{Classifier}.

Lemma glen_single r : glen [r] = 1.
Proof. unfold glen, clusters. rewrite dchunks_one. reflexivity. Qed.

Lemma glen_nonneg' x : 0 <= glen x. Proof. unfold glen, zlen. lia. Qed.

(* the first k clusters of a word are k clusters *)
Lemma glen_gsub_head w k : 0 <= k <= glen w -> glen (gsub w 0 k) = k.
Proof.
  intro Hk. unfold gsub, glen in *. set (cl := clusters w) in *.
  assert (E : range_to_indexes (zlen cl) 0 k = (0, k)).
  { unfold range_to_indexes. cbn [Z.ltb Z.compare]. replace (k <? 0) with false by lia. replace (zlen cl <? k) with false by lia.
    replace (zlen cl <? 0) with false by (unfold zlen; lia). replace (k <? 0) with false by lia. reflexivity. }
  rewrite E. destruct (0 =? k) eqn:Ek; [change (clusters []) with (@nil (list Z)); unfold zlen; cbn [length]; lia|].
  unfold zslice, slice. unfold cl. rewrite clusters_slice. fold cl. unfold zlen in *. rewrite firstn_length, skipn_length. lia.
Qed.

Lemma join_line_le curLine curWord :
  glen (gadd (if glen curLine =? 0 then curLine else gadd curLine [SP]) curWord)
  <= glen curLine + (glen curWord + (if glen curLine =? 0 then 0 else 1)).
Proof.
  unfold gadd. destruct (glen curLine =? 0) eqn:El.
  - pose proof (glen_app_le curLine curWord). lia.
  - pose proof (glen_app_le (curLine ++ [SP]) curWord). pose proof (glen_app_le curLine [SP]). rewrite glen_single in *. lia.
Qed.

Lemma append_word_width_le fuel : forall lines curWord curLine W r, 2 <= W ->
  glen curLine <= W -> lines_ok W lines ->
  append_word fuel lines curWord curLine W = Ok r ->
  lines_ok W (fst r) /\ glen (snd r) <= W.
Proof.
  induction fuel as [|fuel IH]; intros lines curWord curLine W r HW Hll Hlines Hr; [discriminate|].
  cbn [append_word] in Hr. destruct (0 <? glen curWord) eqn:E0; [|injection Hr as <-; cbn; auto].
  pose proof (join_line_le curLine curWord) as Hj.
  destruct (glen curLine + (glen curWord + (if glen curLine =? 0 then 0 else 1)) =? W) eqn:Ea.
  - refine (IH _ _ _ _ _ HW _ _ Hr); [change (glen (@nil Z)) with 0; lia|].
    apply Forall_app. split; [exact Hlines|]. constructor; [lia|constructor].
  - destruct (W <? glen curLine + (glen curWord + (if glen curLine =? 0 then 0 else 1))) eqn:Eb.
    + destruct (glen curLine =? 0) eqn:El.
      * refine (IH _ _ _ _ _ HW _ _ Hr); [change (glen (@nil Z)) with 0; lia|].
        apply Forall_app. split; [exact Hlines|]. constructor; [|constructor]. unfold gadd.
        pose proof (glen_app_le (curLine ++ gsub curWord 0 (W - 1)) [HYPHEN]) as H1.
        pose proof (glen_app_le curLine (gsub curWord 0 (W - 1))) as H2.
        rewrite glen_single in H1. rewrite glen_gsub_head in H2 by lia. lia.
      * refine (IH _ _ _ _ _ HW _ _ Hr); [change (glen (@nil Z)) with 0; lia|].
        apply Forall_app. split; [exact Hlines|]. constructor; [exact Hll|constructor].
    + refine (IH _ _ _ _ _ HW _ Hlines Hr). lia.
Qed.

Lemma wrap_loop_width_le W : 2 <= W -> forall cls lines w cl r,
  glen cl <= W -> lines_ok W lines -> wrap_loop cls lines w cl W = Ok r ->
  let '(l', cw, cl') := r in lines_ok W l' /\ glen cl' <= W.
Proof.
  intro HW. induction cls as [|ch cls IH]; intros lines w cl r Hcl Hl Hr.
  - cbn in Hr. injection Hr as <-. split; assumption.
  - cbn [wrap_loop] in Hr. destruct (first_rune ch =? SP).
    + unfold append_word_to_wrapped_line in Hr. replace (W <? 2) with false in Hr by lia.
      destruct (append_word _ lines w cl W) as [[l2 c2]| |] eqn:Ea; cbn [bind] in Hr; try discriminate.
      destruct (append_word_width_le _ _ _ _ _ _ HW Hcl Hl Ea) as [K1 K2]. cbn [fst snd] in *.
      apply (IH l2 [] c2 r K2 K1 Hr).
    + apply (IH lines (gadd w ch) cl r Hcl Hl Hr).
Qed.

(* no line of the block Wrap returns is wider than the (clamped) width: every text *)
Theorem wrap_width_all text w sep b : wrap text w sep = Ok b -> Forall (fun l => glen l <= Z.max w 2) (b_lines b).
Proof.
  intro Hw. unfold wrap in Hw. destruct (collapse_space text sep) as [ct| |]; cbn [bind] in Hw; try discriminate.
  set (W := if w <? 2 then 2 else w) in *. assert (HW : 2 <= W) by (unfold W; destruct (w <? 2) eqn:E; lia).
  replace (Z.max w 2) with W by (unfold W; destruct (w <? 2) eqn:E; lia).
  destruct ct as [|x ct']; [injection Hw as <-; cbn [b_lines]; constructor; [change (glen (@nil Z)) with 0; lia|constructor]|].
  destruct (wrap_loop (clusters (x :: ct')) [] [] [] W) as [[[lines cw] cl]| |] eqn:El; cbn [bind] in Hw; try discriminate.
  assert (H0 : glen (@nil Z) <= W) by (change (glen (@nil Z)) with 0; lia).
  pose proof (wrap_loop_width_le W HW _ _ _ _ _ H0 ltac:(constructor) El) as (K1 & K4).
  destruct (gis_empty cw) eqn:Ee.
  - cbn [bind] in Hw. injection Hw as <-. cbn [b_lines]. destruct (gis_empty cl); [exact K1|].
    apply Forall_app. split; [exact K1|constructor; [exact K4|constructor]].
  - unfold append_word_to_wrapped_line in Hw. replace (W <? 2) with false in Hw by lia.
    destruct (append_word _ lines cw cl W) as [[l2 c2]| |] eqn:Ea; cbn [bind] in Hw; try discriminate.
    destruct (append_word_width_le _ _ _ _ _ _ HW K4 K1 Ea) as (G1 & G3). cbn [fst snd] in *.
    injection Hw as <-. cbn [b_lines]. destruct (gis_empty c2); [exact G1|].
    apply Forall_app. split; [exact G1|constructor; [exact G3|constructor]].
Qed.

End C06T.
