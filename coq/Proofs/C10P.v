(* C10: one line decomposition behind LineCount, Apply and Lines; round trip. *)
From Coq Require Import List Bool ZArith Lia.
Import ListNotations.
From Rosed Require Import Base.Res Base.ListX Base.Str Gem.Segment Gem.GString Model.Util Model.Options Model.Editor Model.Ops
     Check.Select Proofs.StrP.
Open Scope Z_scope.

Lemma join_snoc_empty sep (l : list (list Z)) : l <> [] -> join sep (l ++ [[]]) = join sep l ++ sep.
Proof.
  induction l as [|x l IH]; [congruence|]. intros _. destruct l as [|y l].
  - cbn. rewrite app_nil_r. reflexivity.
  - change ((x :: y :: l) ++ [[]]) with (x :: ((y :: l) ++ [[]])).
    rewrite join_cons by (destruct l; discriminate). rewrite IH by discriminate.
    rewrite (join_cons sep x (y :: l)) by discriminate. rewrite <- !app_assoc. reflexivity.
Qed.

(* the model's line list is the decomposition the checkers use *)
Lemma lines_sep_lines_of e sep : lines_sep e sep = lines_of (e_text e) sep (o_notrailing (e_opts e)).
Proof. unfold lines_sep, lines_of. destruct (rev (split (e_text e) sep)) as [|[|x l] rest]; try reflexivity.
       destruct (o_notrailing (e_opts e)); reflexivity. Qed.

(* a final empty piece was dropped (the text ends with a terminator that is not a line of its own) *)
Definition terminated (t sep : list Z) (ntl : bool) : bool :=
  negb ntl && match rev (split t sep) with [] :: _ :: _ => true | _ => false end.

(* the pieces - each line with its terminator - concatenate back to the text *)
Theorem lines_decomposition t sep ntl : sep <> [] ->
  join sep (lines_of t sep ntl) ++ (if terminated t sep ntl then sep else []) = t.
Proof.
  intro Hsep. pose proof (join_split t sep Hsep) as Hj. unfold lines_of, terminated.
  destruct (rev (split t sep)) as [|[|x l] rest] eqn:E.
  - cbn. rewrite andb_false_r, app_nil_r. exact Hj.
  - assert (Hs : split t sep = rev rest ++ [[]]).
    { rewrite <- (rev_involutive (split t sep)), E. reflexivity. }
    destruct ntl; cbn [negb andb].
    + rewrite app_nil_r. exact Hj.
    + destruct rest as [|r rest'].
      * cbn. cbn in Hs. rewrite Hs in Hj. cbn in Hj. exact Hj.
      * rewrite Hs, join_snoc_empty in Hj; [exact Hj|].
        cbn. intro E2. apply app_eq_nil in E2 as [_ E2]. discriminate.
  - rewrite andb_false_r, app_nil_r. destruct ntl; exact Hj.
Qed.

(* Apply with the identity callback: the line list is rebuilt and the terminator is
   re-attached iff the text ends with the separator; this reproduces the text exactly
   provided the two notions of "ends with a terminator" agree on the text, which is
   what "non-self-overlapping separator" guarantees *)
Definition trailing_consistent (t sep : list Z) : bool :=
  Bool.eqb (has_suffix t sep) (match rev (split t sep) with [] :: _ :: _ => true | _ => false end).

Lemma apply_each_id lines i : apply_each (fun _ l => Ok [l]) i lines = Ok lines.
Proof. revert i; induction lines as [|l ls IH]; intro i; cbn; [reflexivity|]. rewrite IH. reflexivity. Qed.

Theorem apply_id `{Classifier} (opts : options) (e : editor) :
  let o := with_defaults opts in
  o_linesep o <> [] ->
  trailing_consistent (e_text e) (o_linesep o) = true ->
  apply_opts (fun _ l => Ok [l]) opts e = Ok e.
Proof.
  intros o Hsep Htc. unfold apply_opts. fold o. rewrite apply_each_id. cbn [bind].
  rewrite lines_sep_lines_of. destruct e as [t eo r]. unfold with_text, with_options in *. cbn [e_text e_opts e_ref] in *.
  do 2 f_equal.
  pose proof (lines_decomposition t (o_linesep o) (o_notrailing o) Hsep) as Hd.
  unfold terminated in Hd. unfold trailing_consistent in Htc. apply Bool.eqb_prop in Htc. rewrite Htc.
  destruct (o_notrailing o) eqn:En; cbn [negb andb] in *.
  - rewrite app_nil_r in Hd. exact Hd.
  - unfold lines_of in *.
    destruct (rev (split t (o_linesep o))) as [|[|x l] rest] eqn:E; try (rewrite app_nil_r in Hd; exact Hd).
    destruct rest as [|r0 rest'].
    + cbn in *. exact Hd.
    + rewrite join_snoc_empty; [exact Hd|]. cbn. intro E2. apply app_eq_nil in E2 as [_ E2]. discriminate.
Qed.

(* LineCount counts exactly the lines handed to an Apply callback *)
Theorem line_count_is_lines `{Classifier} e :
  line_count e = zlen (lines_of (e_text e) (o_linesep (with_defaults (e_opts e))) (o_notrailing (e_opts e))).
Proof. unfold line_count, ed_lines. rewrite lines_sep_lines_of. reflexivity. Qed.

