(* C07 for the three AlignLine functions: the non-white-space clusters of the aligned line are
   those of the line, in order - only white space is removed and only U+0020 is added. *)
From Coq Require Import List Bool Arith ZArith Lia ZifyBool.
Import ListNotations.
From Rosed Require Import Base.Cls Base.Res Base.ListX Gem.Break Gem.Dfa Gem.Segment Gem.GString Model.Util Model.Manip
     Proofs.SegmentP Proofs.SeamP Proofs.StrP Proofs.C13P Proofs.C06Q Proofs.C07Q Proofs.C12P Proofs.C18P Proofs.C12R Base.Str Model.Tb Model.Table.
Open Scope Z_scope.

Section C07R.
Context `{ClassifierOk} `{Upper}.

Lemma nonws_app (a b : list (list Z)) : nonws (a ++ b) = nonws a ++ nonws b.
Proof. unfold nonws. apply filter_app. Qed.

Lemma nonws_rev (a : list (list Z)) : nonws (rev a) = rev (nonws a).
Proof.
  induction a as [|c a IH]; [reflexivity|]. cbn [rev]. rewrite nonws_app, IH. unfold nonws at 2 3. cbn [filter].
  destruct (negb (wsc c)); cbn [rev app]; [reflexivity|apply app_nil_r].
Qed.

Lemma nonws_spaces k : nonws (repeat [SP] k) = [].
Proof. induction k as [|k IH]; [reflexivity|]. cbn [repeat]. unfold nonws in *. cbn [filter]. exact IH. Qed.

Lemma nonws_drop_ws cl : nonws (drop_ws cl) = nonws cl.
Proof.
  induction cl as [|c cl IH]; [reflexivity|]. cbn [drop_ws]. destruct (not_space_cluster c) eqn:E; [reflexivity|].
  rewrite IH. unfold nonws. cbn [filter]. unfold not_space_cluster in E. unfold wsc. rewrite E. reflexivity.
Qed.

Lemma clusters_slice text a j : clusters (concat (firstn j (skipn a (clusters text)))) = firstn j (skipn a (clusters text)).
Proof.
  rewrite <- (clusters_skipn text a) at 1. rewrite clusters_firstn. rewrite clusters_skipn. reflexivity.
Qed.

Theorem align_left_keeps_text text w : ends_ok text -> nonws (clusters (align_left text w)) = nonws (clusters text).
Proof.
  intro He. rewrite align_left_text. unfold kept_left. rewrite drop_ws_skipn, spaces_eq.
  rewrite clusters_app_repeat by (apply ends_ok_suffix, He || apply sp_plain). rewrite clusters_skipn, nonws_app, nonws_spaces, app_nil_r.
  rewrite <- drop_ws_skipn. apply nonws_drop_ws.
Qed.

Theorem align_right_keeps_text text w : starts_ok text -> nonws (clusters (align_right text w)) = nonws (clusters text).
Proof.
  intro Hs. rewrite align_right_text. rewrite spaces_eq.
  assert (Hk : kept_right text = firstn (length (clusters text) - lead_ws (rev (clusters text))) (clusters text)).
  { unfold kept_right. rewrite drop_ws_skipn. pose proof (lead_ws_le (rev (clusters text))) as Ht. rewrite rev_length in Ht.
    apply firstn_rev_skipn. lia. }
  assert (Hn : nonws (kept_right text) = nonws (clusters text)).
  { unfold kept_right. rewrite nonws_rev, nonws_drop_ws, nonws_rev, rev_involutive. reflexivity. }
  rewrite Hk in *. rewrite clusters_repeat_app by (apply sp_plain || apply starts_ok_prefix, Hs).
  rewrite clusters_firstn, nonws_app, nonws_spaces. exact Hn.
Qed.

Theorem align_center_keeps_text text w : all_safe text -> nonws (clusters (align_center text w)) = nonws (clusters text).
Proof.
  intro Hs. rewrite align_center_text. cbv zeta.
  assert (Hk : exists a j, kept_center text = firstn j (skipn a (clusters text))).
  { unfold kept_center. rewrite !drop_ws_skipn, skipn_rev, rev_involutive. eauto. }
  assert (Hn : nonws (kept_center text) = nonws (clusters text)).
  { unfold kept_center. rewrite nonws_rev, nonws_drop_ws, nonws_rev, rev_involutive. apply nonws_drop_ws. }
  destruct Hk as (a & j & Hk). rewrite Hk in *.
  destruct (slice_safe text a j Hs) as [Hks Hke].
  set (K := firstn j (skipn a (clusters text))) in *.
  assert (HcK : clusters (concat K) = K) by apply clusters_slice.
  destruct (w - zlen K <=? 0); [rewrite HcK; exact Hn|].
  set (need := w - zlen K). rewrite !spaces_eq.
  rewrite clusters_repeat_app; [|apply sp_plain|].
  - rewrite clusters_app_repeat by (exact Hke || apply sp_plain). rewrite HcK, !nonws_app, !nonws_spaces, app_nil_r. exact Hn.
  - destruct (concat K) as [|x kp]; [|exact Hks]. cbn [app]. destruct (Z.to_nat (need / 2)); [exact I|]. cbn. rewrite sp_plain. repeat split; discriminate.
Qed.

(* ---- JustifyLine ---- *)
Lemma interleave_nonws ws : forall gs, length ws = S (length gs) -> Forall word_ok ws -> Forall (fun k => (1 <= k)%nat) gs ->
  starts_ok (concat (interleave ws gs)) /\
  nonws (clusters (concat (interleave ws gs))) = concat (map (fun w => nonws (clusters w)) ws).
Proof.
  induction ws as [|w ws IH]; intros gs Hl Hw Hg; [discriminate|].
  inversion Hw as [|? ? [Hws Hwe] Hw']; subst. destruct gs as [|k gs].
  - destruct ws; [|discriminate]. cbn. rewrite !app_nil_r. split; [exact Hws|reflexivity].
  - inversion Hg as [|? ? Hk Hg']; subst. cbn [interleave concat map].
    destruct (IH gs ltac:(cbn in Hl; lia) Hw' Hg') as [HRs HRn]. set (R := concat (interleave ws gs)) in *.
    split.
    + destruct w as [|x w']; [|exact Hws]. destruct k; [lia|]. cbn. pose proof sp_plain as Hp. unfold plain in Hp. rewrite Hp.
      repeat split; discriminate.
    + destruct k as [|k]; [lia|].
      rewrite clusters_app by (cbn [repeat app]; apply seam_before_plain; [exact Hwe|apply sp_plain]).
      rewrite clusters_repeat_app by (apply sp_plain || exact HRs).
      rewrite !nonws_app, nonws_spaces, HRn. reflexivity.
Qed.

Theorem justify_line_keeps_text text w c r :
  collapse_space text [10] = Ok c -> Forall word_ok (split c [SP]) -> justify_line text w = Ok r ->
  nonws (clusters r) = nonws (clusters c).
Proof.
  intros Hc Hwords Hr. pose proof (justify_line_explicit text w c Hc) as He. cbv zeta in He.
  destruct ((w <=? glen c) || (zlen (split c [SP]) - 1 <? 1)) eqn:Econd; [rewrite He in Hr; injection Hr as <-; reflexivity|].
  apply orb_false_iff in Econd as [E1 E2].
  destruct (justify_line_width text w c r Hc ltac:(lia) ltac:(lia) Hwords Hr) as (_ & gs & -> & Hl & Hge & _).
  set (words := split c [SP]) in *.
  assert (Hne : words <> []) by (unfold words, split; apply split_aux_nonempty).
  assert (Hlw : length words = S (length gs)) by (unfold zlen in E2; lia).
  set (ones := repeat 1%nat (length words - 1)).
  assert (Hlo : length words = S (length ones)) by (unfold ones; rewrite repeat_length; lia).
  assert (Hcj : c = concat (interleave words ones)).
  { unfold ones. rewrite <- intersperse_interleave by exact Hne. rewrite concat_intersperse. unfold words. rewrite join_split by discriminate. reflexivity. }
  destruct (interleave_nonws words gs Hlw Hwords Hge) as [_ E].
  destruct (interleave_nonws words ones Hlo Hwords ltac:(unfold ones; clear; induction (length words - 1)%nat; constructor; [lia|assumption])) as [_ E'].
  rewrite E. transitivity (nonws (clusters (concat (interleave words ones)))); [rewrite E'; reflexivity|rewrite <- Hcj; reflexivity].
Qed.

End C07R.
