(* C14 / C15: CombineColumnBlocks puts the right column at one cluster offset on every row,
   and the definitions table pads every term to the same cluster width. *)
From Coq Require Import List Bool Arith ZArith Lia ZifyBool.
Import ListNotations.
From Rosed Require Import Base.Cls Base.Res Base.ListX Base.Str Gem.Segment Gem.GString Model.Tb Model.Manip
     Proofs.SegmentP Proofs.SeamP.
Open Scope Z_scope.

Section C15.
Context `{ClassifierOk}.

Definition row_of (left right : list gstr) (total : Z) (k : nat) : gstr :=
  let l := match nth_error left k with Some x => x | None => [] end in
  let r := match nth_error right k with Some x => x | None => [] end in
  l ++ repeat SP (Z.to_nat (total - glen l)) ++ r.

Lemma glen_nil : glen [] = 0. Proof. reflexivity. Qed.

(* the rows CombineColumnBlocks builds: left line, padding up to [total], right line; no
   strings.Repeat panic as long as no left line is wider than [total] *)
Theorem combine_rows_spec n : forall i left right total, 0 <= i -> 0 <= total ->
  (forall l, In l left -> glen l <= total) ->
  combine_rows n i left right total = Ok (map (row_of left right total) (seq (Z.to_nat i) n)).
Proof.
  induction n as [|n IH]; intros i left right total Hi Ht Hfit; [reflexivity|].
  cbn [combine_rows seq map].
  set (l := match nth_error left (Z.to_nat i) with Some x => x | None => [] end).
  assert (Hl : glen l <= total).
  { unfold l. destruct (nth_error left (Z.to_nat i)) eqn:E; [apply Hfit; eapply nth_error_In; exact E|rewrite glen_nil; exact Ht]. }
  unfold repeat_str. replace (total - glen l <? 0) with false by lia. cbn [bind].
  rewrite (IH (i + 1)) by (assumption || lia). cbn [bind].
  replace (Z.to_nat (i + 1)) with (S (Z.to_nat i)) by lia. f_equal. f_equal.
  unfold row_of. fold l. rewrite repeatn_single. reflexivity.
Qed.

(* on every row the right column starts exactly [total] clusters in *)
Theorem right_column_offset (left : list gstr) total k :
  let l := match nth_error left k with Some x => x | None => [] end in
  ends_ok l -> glen l <= total ->
  glen (l ++ repeat SP (Z.to_nat (total - glen l))) = total.
Proof.
  intros l He Hl. rewrite <- spaces_eq. change (l ++ spaces (total - glen l)) with (gadd l (spaces (total - glen l))).
  rewrite glen_app_spaces by (assumption || lia). lia.
Qed.

(* the definitions table: "  " ++ term ++ padding has longest + 2 clusters for every term *)
Theorem term_column_width term longest : starts_ok term -> ends_ok term -> glen term <= longest ->
  glen ([SP; SP] ++ term ++ repeat SP (Z.to_nat (longest - glen term))) = longest + 2.
Proof.
  intros Hs He Hl. change [SP; SP] with (repeat SP 2).
  unfold glen. rewrite clusters_repeat_app; [|apply sp_plain|].
  - rewrite clusters_app_repeat by (assumption || apply sp_plain).
    rewrite !zlen_app, !zlen_repeat. unfold glen in Hl. lia.
  - destruct term as [|x t]; [|exact Hs]. cbn [app].
    destruct (Z.to_nat (longest - zlen (clusters []))) as [|k]; [exact I|].
    cbn. rewrite sp_plain. repeat split; discriminate.
Qed.

End C15.
