(* C19 over whole histories: the heap model of gem.String (Gem/GHeap.v: values sharing
   lazily filled cache cells) refines the pure model (Gem/GString.v: a value is its code
   points and every observation re-segments). The invariant - every cell is nil or holds
   exactly the boundaries of the runes of every value that points to it - is kept by every
   operation in C19's quantifier, for every history. *)
From Coq Require Import List Bool Arith ZArith Lia.
Import ListNotations.
From Rosed Require Import Base.Cls Base.Res Base.ListX Gem.Break Gem.Dfa Gem.Segment Gem.GString Gem.GHeap Gem.GSpec Model.Util
     Proofs.SegmentP Proofs.C04P Proofs.C19P Proofs.C20P.
Open Scope nat_scope.

Ltac splits := repeat match goal with |- _ /\ _ => split end.

Section C19H.
Context `{Classifier}.

(* a cell is nil or holds the boundaries of rs *)
Definition cell_ok (h : heap) (l : nat) (rs : list Z) : Prop := rd h l = None \/ rd h l = Some (split_runes rs).

Definition good (h : heap) (v : gval) : Prop :=
  match g_c v with
  | None => g_r v = []
  | Some l => l < length h /\ cell_ok h l (g_r v)
  end.

(* h' extends h0: every cell of h0 reads as before, except that the cell [fst own] may have
   gone from nil to the boundaries of [snd own] *)
Definition ext2 (own : option (nat * list Z)) (h0 h' : heap) : Prop :=
  length h0 <= length h' /\
  forall l, l < length h0 -> rd h' l = rd h0 l \/
    (exists rs, own = Some (l, rs) /\ rd h0 l = None /\ rd h' l = Some (split_runes rs)).

Definition own_of (v : gval) : option (nat * list Z) :=
  match g_c v with Some l => Some (l, g_r v) | None => None end.

Lemma ext2_refl own h : ext2 own h h.
Proof. split; [lia|]. intros; left; reflexivity. Qed.

Lemma ext2_trans own h1 h2 h3 : ext2 own h1 h2 -> ext2 own h2 h3 -> ext2 own h1 h3.
Proof.
  intros [L1 E1] [L2 E2]. split; [lia|]. intros l Hl.
  destruct (E1 l Hl) as [A|A].
  - destruct (E2 l ltac:(lia)) as [B|(rs & B1 & B2 & B3)]; [left; congruence|]. right. exists rs. splits; congruence.
  - destruct A as (rs & A1 & A2 & A3). destruct (E2 l ltac:(lia)) as [B|(rs' & B1 & B2 & B3)]; [|congruence].
    right. exists rs. splits; congruence.
Qed.

Lemma ext2_none own h h' : ext2 None h h' -> ext2 own h h'.
Proof. intros [L E]. split; [exact L|]. intros l Hl. destruct (E l Hl) as [A|(rs & A & _)]; [left; exact A|discriminate]. Qed.

Lemma ext2_alloc own h c : ext2 own h (h ++ [c]).
Proof. split; [rewrite app_length; lia|]. intros l Hl. left. apply rd_app, Hl. Qed.

Lemma ext2_wr_fresh own h0 h l c : ext2 own h0 h -> length h0 <= l -> ext2 own h0 (wr h l c).
Proof.
  intros [L E] Hl. split; [unfold wr; rewrite set_nth_length; exact L|].
  intros l' Hl'. unfold wr. rewrite rd_set_other by lia. apply E, Hl'.
Qed.

(* an owner whose cell did not exist in h0 cannot have been filled in h0 *)
Lemma ext2_fresh_owner own l rs h0 h' : ext2 (Some (l, rs)) h0 h' -> length h0 <= l -> ext2 own h0 h'.
Proof.
  intros [L E] Hl. split; [exact L|]. intros l' Hl'. destruct (E l' Hl') as [A|(rs' & A & _)]; [left; exact A|].
  inversion A; subst. lia.
Qed.

Lemma split_runes_nil : split_runes [] = [].
Proof. reflexivity. Qed.

(* ---- the primitives ---- *)

Lemma rd_set_same' (h : heap) l c : l < length h -> rd (wr h l c) l = c.
Proof. apply rd_set_same. Qed.

(* initialized(): the callee's copy always has a cell; it is the value's own, or a fresh nil one *)
Lemma ini_spec h v : good h v ->
  exists h1 v1 l1, initialized h v = (h1, v1) /\ g_r v1 = g_r v /\ g_c v1 = Some l1 /\ l1 < length h1 /\
    cell_ok h1 l1 (g_r v) /\ ext2 None h h1 /\
    ((g_c v = Some l1 /\ h1 = h) \/ (g_c v = None /\ length h <= l1)).
Proof.
  unfold good, initialized. destruct (g_c v) as [l|] eqn:Hc.
  - intros [Hl Hok]. exists h, v, l. splits; try assumption; try reflexivity; [apply ext2_refl|left; split; reflexivity].
  - intros Hr. cbn. exists (h ++ [None]), {| g_r := g_r v; g_c := Some (length h) |}, (length h).
    splits; try reflexivity; [rewrite app_length; cbn; lia| |apply ext2_alloc|right; split; [reflexivity|lia]].
    left. unfold rd. rewrite nth_error_app2 by lia. rewrite Nat.sub_diag. reflexivity.
Qed.

(* fill: afterwards the cell holds the boundaries; nothing else changes *)
Lemma fill_spec h v l : g_c v = Some l -> l < length h -> cell_ok h l (g_r v) ->
  length (fill h v) = length h /\ rd (fill h v) l = Some (split_runes (g_r v)) /\
  (forall l', l' <> l -> rd (fill h v) l' = rd h l') /\ ext2 (Some (l, g_r v)) h (fill h v).
Proof.
  intros Hc Hl Hok. unfold fill, cell_of. rewrite Hc. destruct Hok as [Hn|Hs].
  - rewrite Hn. unfold wr. rewrite set_nth_length. splits; [reflexivity|apply rd_set_same, Hl|intros; apply rd_set_other; congruence|].
    split; [rewrite set_nth_length; lia|].
    intros l' Hl'. destruct (Nat.eq_dec l' l) as [ ->|Hne].
    + right. exists (g_r v). splits; [reflexivity|exact Hn|apply rd_set_same, Hl].
    + left. apply rd_set_other. congruence.
  - rewrite Hs. splits; [reflexivity|exact Hs|reflexivity|apply ext2_refl].
Qed.

(* clone of an initialised value: a fresh cell holding a copy of the original's cell *)
Lemma clone_spec h v l : g_c v = Some l -> l < length h ->
  exists h2 c lc, gh_clone h v = (h2, c) /\ g_r c = g_r v /\ g_c c = Some lc /\ length h <= lc /\ lc < length h2 /\
    rd h2 lc = rd h l /\ ext2 None h h2.
Proof.
  intros Hc Hl. unfold gh_clone, initialized. rewrite Hc. unfold alloc. unfold cell_of. rewrite Hc.
  rewrite rd_app by exact Hl. destruct (rd h l) as [e|] eqn:Er.
  - eexists _, _, _. split; [reflexivity|]. cbn [g_r g_c]. splits; try reflexivity.
    + rewrite app_length. cbn. lia.
    + rewrite !app_length. cbn. lia.
    + unfold rd. rewrite nth_error_app2 by lia. rewrite Nat.sub_diag. reflexivity.
    + split; [rewrite !app_length; cbn; lia|].
      intros l' Hl'. left. rewrite rd_app by (rewrite app_length; cbn; lia). apply rd_app, Hl'.
  - eexists _, _, _. split; [reflexivity|]. cbn [g_r g_c]. splits; try reflexivity.
    + rewrite app_length. cbn. lia.
    + unfold rd. rewrite nth_error_app2 by lia. rewrite Nat.sub_diag. reflexivity.
    + apply ext2_alloc.
Qed.

Lemma ext2_none_rd h h' l : ext2 None h h' -> l < length h -> rd h' l = rd h l.
Proof. intros [_ E] Hl. destruct (E l Hl) as [A|(rs & A & _)]; [exact A|discriminate]. Qed.

Lemma good_ext2_none h h' v : good h v -> ext2 None h h' -> good h' v.
Proof.
  unfold good, cell_ok. destruct (g_c v) as [l|]; [|auto]. intros [Hl Hok] He. split; [destruct He; lia|].
  rewrite (ext2_none_rd h h' l He Hl). exact Hok.
Qed.

(* an operation on a value without a cell runs as on its initialised copy in the heap with one more nil cell *)
Definition inited (h : heap) (v : gval) : gval := {| g_r := g_r v; g_c := Some (length h) |}.

Lemma inited_good h v : g_r v = [] \/ True -> good (h ++ [None]) (inited h v).
Proof.
  intros _. unfold good, inited, cell_ok. cbn [g_c g_r]. split; [rewrite app_length; cbn; lia|]. left.
  unfold rd. rewrite nth_error_app2 by lia. rewrite Nat.sub_diag. reflexivity.
Qed.

Lemma ext2_after_alloc own l rs h h' : ext2 (Some (l, rs)) (h ++ [None]) h' -> length h <= l -> ext2 own h h'.
Proof.
  intros He Hl. apply (ext2_fresh_owner own l rs); [|exact Hl]. eapply ext2_trans; [apply ext2_alloc|exact He].
Qed.

(* ---- Runes ---- *)
Lemma runes_spec h v : good h v -> exists h1, gh_runes h v = (h1, g_r v) /\ ext2 None h h1.
Proof.
  intro Hg. unfold gh_runes. destruct (ini_spec h v Hg) as (h1 & v1 & l1 & Hi & Hr & _ & _ & _ & He & _).
  rewrite Hi. exists h1. rewrite Hr. split; [reflexivity|exact He].
Qed.

(* ---- Add ---- *)
Theorem add_spec h v s2 : good h v -> good h s2 ->
  exists h' v' l', gh_add h v s2 = (h', v') /\ g_r v' = g_r v ++ g_r s2 /\ g_c v' = Some l' /\
    length h <= l' /\ l' < length h' /\ rd h' l' = None /\ ext2 None h h'.
Proof.
  intros Hv Hs. unfold gh_add.
  destruct (ini_spec h v Hv) as (h1 & v1 & l1 & Hi & Hr1 & Hc1 & Hl1 & Hok1 & He1 & _). rewrite Hi.
  destruct (clone_spec h1 v1 l1 Hc1 Hl1) as (h2 & c & lc & Hcl & Hrc & Hcc & Hlc & Hlc2 & _ & He2). rewrite Hcl.
  unfold cell_of at 1. rewrite Hcc.
  assert (He3 : ext2 None h (wr h2 lc None)).
  { apply ext2_wr_fresh; [eapply ext2_trans; eassumption|]. destruct He1. lia. }
  destruct (runes_spec (wr h2 lc None) s2 (good_ext2_none _ _ _ Hs He3)) as (h4 & Hru & He4). rewrite Hru.
  exists h4, {| g_r := g_r c ++ g_r s2; g_c := Some lc |}, lc. cbn [g_r g_c].
  assert (Hlen3 : length (wr h2 lc None) = length h2) by (unfold wr; apply set_nth_length).
  splits; [reflexivity|congruence|reflexivity|destruct He1; lia|destruct He4; lia| |eapply ext2_trans; eassumption].
  rewrite (ext2_none_rd _ _ lc He4) by lia. apply rd_set_same. exact Hlc2.
Qed.

(* ---- Len ---- *)
Lemma len_init h v l : g_c v = Some l -> l < length h -> cell_ok h l (g_r v) ->
  exists h', gh_len h v = (h', glen (g_r v)) /\ length h' = length h /\ ext2 (Some (l, g_r v)) h h' /\
    cell_ok h' l (g_r v) /\ (g_r v <> [] -> rd h' l = Some (split_runes (g_r v))).
Proof.
  intros Hc Hl Hok. unfold gh_len, initialized. rewrite Hc. unfold cell_of. rewrite Hc.
  destruct Hok as [Hn|Hs].
  - rewrite Hn. destruct (g_r v) as [|x r] eqn:Er.
    + exists h. splits; [reflexivity|reflexivity|apply ext2_refl|left; exact Hn|congruence].
    + rewrite <- Er. destruct (fill_spec h v l Hc Hl (or_introl Hn)) as (Hfl & Hfr & _ & Hfe).
      rewrite Hfr. exists (fill h v).
      splits; [rewrite zlen_split_runes; reflexivity|exact Hfl|exact Hfe|right; exact Hfr|intros _; exact Hfr].
  - rewrite Hs. exists h. splits; [rewrite zlen_split_runes; reflexivity|reflexivity|apply ext2_refl|right; exact Hs|intros _; exact Hs].
Qed.

Lemma len_uninit h v : g_c v = None -> gh_len h v = gh_len (h ++ [None]) (inited h v).
Proof. intro Hc. unfold gh_len, initialized, inited. rewrite Hc. reflexivity. Qed.

Theorem len_spec h v : good h v -> exists h', gh_len h v = (h', glen (g_r v)) /\ ext2 (own_of v) h h'.
Proof.
  intro Hg. unfold good, own_of in *. destruct (g_c v) as [l|] eqn:Hc.
  - destruct Hg as [Hl Hok]. destruct (len_init h v l Hc Hl Hok) as (h' & E & _ & He & _). exists h'. split; assumption.
  - rewrite (len_uninit h v Hc). pose proof (inited_good h v (or_intror I)) as Hgi. unfold good, inited in Hgi. cbn [g_c g_r] in Hgi.
    destruct Hgi as [Hl Hok].
    destruct (len_init (h ++ [None]) (inited h v) (length h) eq_refl Hl Hok) as (h' & E & _ & He & _).
    exists h'. split; [exact E|]. eapply ext2_after_alloc; [exact He|lia].
Qed.

(* ---- reading the cache ---- *)
Lemma length_split_runes rs : length (split_runes rs) = length (clusters rs).
Proof. pose proof (zlen_split_runes rs) as Hz. unfold glen, zlen in Hz. lia. Qed.

Lemma get_ok rs k : k < length (clusters rs) -> ends_get (split_runes rs) (Z.of_nat k) = Ok (roff (clusters rs) (S k)).
Proof.
  intro Hk. unfold ends_get. replace (Z.of_nat k <? 0)%Z with false by lia.
  rewrite Nat2Z.id, <- clusters_ends, nth_ends_from by exact Hk. reflexivity.
Qed.

Lemma get_panic rs i : (i < 0 \/ Z.of_nat (length (clusters rs)) <= i)%Z -> ends_get (split_runes rs) i = Panic P_index.
Proof.
  intro Hi. unfold ends_get. destruct (i <? 0)%Z eqn:E; [reflexivity|].
  destruct (nth_error (split_runes rs) (Z.to_nat i)) eqn:En; [|reflexivity].
  assert (Z.to_nat i < length (split_runes rs)) by (apply nth_error_Some; congruence). rewrite length_split_runes in H0. lia.
Qed.

Lemma start_ok rs s : (0 <= s <= Z.of_nat (length (clusters rs)))%Z ->
  (if (0 <? s)%Z then ends_get (split_runes rs) (s - 1) else Ok 0) = Ok (roff (clusters rs) (Z.to_nat s)).
Proof.
  intro Hs. destruct (0 <? s)%Z eqn:E0.
  - replace (s - 1)%Z with (Z.of_nat (Z.to_nat s - 1)) by lia. rewrite get_ok by lia. f_equal. f_equal. lia.
  - replace (Z.to_nat s) with 0 by lia. reflexivity.
Qed.

Lemma slice_one {A} (l : list A) k c : nth_error l k = Some c -> slice l k (S k) = [c].
Proof.
  unfold slice. replace (S k - k) with 1 by lia. revert k; induction l as [|x l IH]; intros k Hk; [destruct k; discriminate|].
  destruct k; [cbn in *; congruence|]. cbn [skipn]. apply IH. exact Hk.
Qed.

Lemma char_at_cache rs idx :
  (do st <- (if (0 <? idx)%Z then ends_get (split_runes rs) (idx - 1) else Ok O);
   do en <- ends_get (split_runes rs) idx; Ok (slice rs st en)) = gchar_at rs idx.
Proof.
  unfold gchar_at, znth. set (cl := clusters rs).
  destruct (idx <? 0)%Z eqn:Eneg.
  - replace (0 <? idx)%Z with false by lia. cbn [bind]. rewrite get_panic by lia. reflexivity.
  - destruct (nth_error cl (Z.to_nat idx)) as [c|] eqn:En.
    + assert (Hk : Z.to_nat idx < length cl) by (apply nth_error_Some; congruence).
      rewrite start_ok by (fold cl; lia). cbn [bind]. replace idx with (Z.of_nat (Z.to_nat idx)) at 1 by lia.
      rewrite get_ok by exact Hk. cbn [bind]. f_equal. fold cl.
      rewrite <- (clusters_concat rs) at 1. fold cl. rewrite slice_roff by lia. rewrite (slice_one cl _ c En). cbn. apply app_nil_r.
    + apply nth_error_None in En.
      destruct (if (0 <? idx)%Z then ends_get (split_runes rs) (idx - 1) else Ok 0) as [st|p|] eqn:Est.
      * cbn [bind]. rewrite get_panic by (fold cl; lia). reflexivity.
      * cbn [bind]. destruct (0 <? idx)%Z; [|discriminate]. unfold ends_get in Est.
        destruct (idx - 1 <? 0)%Z; [congruence|]. destruct (nth_error _ _); congruence.
      * destruct (0 <? idx)%Z; [|discriminate]. unfold ends_get in Est.
        destruct (idx - 1 <? 0)%Z; [congruence|]. destruct (nth_error _ _); congruence.
Qed.

(* ---- CharAt, GraphemeIndexes ---- *)
Lemma char_at_init h v l idx : g_c v = Some l -> l < length h -> cell_ok h l (g_r v) ->
  exists h', gh_char_at h v idx = (h', gchar_at (g_r v) idx) /\ ext2 (Some (l, g_r v)) h h'.
Proof.
  intros Hc Hl Hok. unfold gh_char_at, initialized. rewrite Hc.
  destruct (fill_spec h v l Hc Hl Hok) as (_ & Hfr & _ & Hfe). unfold cell_of. rewrite Hc, Hfr.
  exists (fill h v). split; [|exact Hfe]. f_equal. apply char_at_cache.
Qed.

Lemma char_at_uninit h v idx : g_c v = None -> gh_char_at h v idx = gh_char_at (h ++ [None]) (inited h v) idx.
Proof. intro Hc. unfold gh_char_at, initialized, inited. rewrite Hc. reflexivity. Qed.

Theorem char_at_spec h v idx : good h v ->
  exists h', gh_char_at h v idx = (h', gchar_at (g_r v) idx) /\ ext2 (own_of v) h h'.
Proof.
  intro Hg. unfold good, own_of in *. destruct (g_c v) as [l|] eqn:Hc.
  - destruct Hg as [Hl Hok]. apply char_at_init; assumption.
  - rewrite (char_at_uninit h v idx Hc). pose proof (inited_good h v (or_intror I)) as Hgi. unfold good, inited in Hgi. cbn [g_c g_r] in Hgi.
    destruct Hgi as [Hl Hok].
    destruct (char_at_init (h ++ [None]) (inited h v) (length h) idx eq_refl Hl Hok) as (h' & E & He).
    exists h'. split; [exact E|]. eapply ext2_after_alloc; [exact He|lia].
Qed.

Lemma indexes_init h v l : g_c v = Some l -> l < length h -> cell_ok h l (g_r v) ->
  exists h', gh_indexes h v = (h', combine (O :: split_runes (g_r v)) (split_runes (g_r v))) /\ ext2 (Some (l, g_r v)) h h'.
Proof.
  intros Hc Hl Hok. unfold gh_indexes, initialized. rewrite Hc.
  destruct (fill_spec h v l Hc Hl Hok) as (_ & Hfr & _ & Hfe). unfold cell_of. rewrite Hc, Hfr.
  exists (fill h v). split; [reflexivity|exact Hfe].
Qed.

Lemma indexes_uninit h v : g_c v = None -> gh_indexes h v = gh_indexes (h ++ [None]) (inited h v).
Proof. intro Hc. unfold gh_indexes, initialized, inited. rewrite Hc. reflexivity. Qed.

Theorem indexes_spec h v : good h v ->
  exists h', gh_indexes h v = (h', combine (O :: split_runes (g_r v)) (split_runes (g_r v))) /\ ext2 (own_of v) h h'.
Proof.
  intro Hg. unfold good, own_of in *. destruct (g_c v) as [l|] eqn:Hc.
  - destruct Hg as [Hl Hok]. apply indexes_init; assumption.
  - rewrite (indexes_uninit h v Hc). pose proof (inited_good h v (or_intror I)) as Hgi. unfold good, inited in Hgi. cbn [g_c g_r] in Hgi.
    destruct Hgi as [Hl Hok].
    destruct (indexes_init (h ++ [None]) (inited h v) (length h) eq_refl Hl Hok) as (h' & E & He).
    exists h'. split; [exact E|]. eapply ext2_after_alloc; [exact He|lia].
Qed.

(* ---- Sub ---- *)
Definition fresh_or_zero (h h' : heap) (v' : gval) : Prop :=
  v' = gzero \/ exists l', g_c v' = Some l' /\ length h <= l' /\ l' < length h' /\ cell_ok h' l' (g_r v').

Lemma rebased_slice rs a b (cl := clusters rs) : a < b -> b <= length cl ->
  (if 0 <? roff cl a then map (fun x => x - roff cl a) (slice (split_runes rs) a b) else slice (split_runes rs) a b)
  = split_runes (slice rs (roff cl a) (roff cl b)).
Proof.
  intros Hab Hbl.
  pose proof (sub_boundaries rs a (b - a)) as Hsb. fold cl in Hsb. unfold rebase in Hsb.
  assert (Hsl : slice rs (roff cl a) (roff cl b) = concat (firstn (b - a) (skipn a cl))).
  { rewrite <- (clusters_concat rs) at 1. fold cl. apply slice_roff. lia. }
  rewrite Hsl, <- Hsb. unfold slice.
  destruct (0 <? roff cl a) eqn:E0; [reflexivity|].
  apply Nat.ltb_ge in E0. assert (E : roff cl a = 0) by lia. rewrite E.
  rewrite <- (map_id (firstn (b - a) (skipn a (split_runes rs)))) at 1. apply map_ext. intro x. lia.
Qed.

Lemma sub_init h v l a b : g_c v = Some l -> l < length h -> cell_ok h l (g_r v) ->
  exists h' v', gh_sub h v a b = (h', Ok v') /\ g_r v' = gsub (g_r v) a b /\
    ext2 (Some (l, g_r v)) h h' /\ fresh_or_zero h h' v'.
Proof.
  intros Hc Hl Hok. unfold gh_sub. rewrite (initialized_some h v l Hc).
  destruct (len_init h v l Hc Hl Hok) as (h1 & Elen & Hl1 & He1 & Hok1 & Hne1). rewrite Elen.
  unfold gsub, glen. set (cl := clusters (g_r v)).
  pose proof (range_to_indexes_bounds (zlen cl) a b ltac:(unfold zlen; lia)) as Hb.
  destruct (range_to_indexes (zlen cl) a b) as [s e]. destruct Hb as [[Hs0 Hse] Hen].
  destruct (s =? e)%Z eqn:Ese.
  - exists h1, gzero. splits; [reflexivity|reflexivity|exact He1|left; reflexivity].
  - assert (Hlt : (s < e)%Z) by (apply Z.eqb_neq in Ese; lia).
    assert (Hl1' : l < length h1) by lia.
    destruct (fill_spec h1 v l Hc Hl1' Hok1) as (Hfl & Hfr & _ & Hfe).
    assert (Hl2 : l < length (fill h1 v)) by lia.
    destruct (clone_spec (fill h1 v) v l Hc Hl2) as (h3 & c & lc & Hcl & Hrc & Hcc & Hlc & Hlc3 & Hrd3 & He3). rewrite Hcl.
    unfold cell_of. rewrite Hcc, Hrd3, Hfr.
    unfold zlen in Hen. fold cl.
    rewrite start_ok by (fold cl; lia). cbn [bind].
    replace (e - 1)%Z with (Z.of_nat (Z.to_nat e - 1)) by lia. rewrite get_ok by (fold cl; lia). cbn [bind]. fold cl.
    replace (S (Z.to_nat e - 1)) with (Z.to_nat e) by lia.
    eexists _, _. split; [reflexivity|]. cbn [g_r g_c]. rewrite Hrc.
    assert (Hrunes : slice (g_r v) (roff cl (Z.to_nat s)) (roff cl (Z.to_nat e)) = concat (zslice cl s e)).
    { rewrite <- (clusters_concat (g_r v)) at 1. fold cl. unfold zslice. apply slice_roff. lia. }
    splits.
    + exact Hrunes.
    + apply ext2_wr_fresh; [|lia]. eapply ext2_trans; [exact He1|]. eapply ext2_trans; [exact Hfe|apply ext2_none; exact He3].
    + right. exists lc. unfold wr. rewrite set_nth_length. splits; [reflexivity|lia|exact Hlc3|].
      right. rewrite rd_set_same by exact Hlc3. cbn [g_r]. f_equal. unfold zslice. unfold cl in *. apply rebased_slice; lia.
Qed.

Lemma sub_uninit h v a b : g_c v = None -> gh_sub h v a b = gh_sub (h ++ [None]) (inited h v) a b.
Proof. intro Hc. unfold gh_sub, initialized, inited. rewrite Hc. reflexivity. Qed.

Lemma fresh_or_zero_mono h0 h h' v' : length h0 <= length h -> fresh_or_zero h h' v' -> fresh_or_zero h0 h' v'.
Proof. intros Hl [Hz|(l' & A & B & C & D)]; [left; exact Hz|right; exists l'; splits; try assumption; lia]. Qed.

Theorem sub_spec h v a b : good h v ->
  exists h' v', gh_sub h v a b = (h', Ok v') /\ g_r v' = gsub (g_r v) a b /\ ext2 (own_of v) h h' /\ fresh_or_zero h h' v'.
Proof.
  intro Hg. unfold good, own_of in *. destruct (g_c v) as [l|] eqn:Hc.
  - destruct Hg as [Hl Hok]. apply sub_init; assumption.
  - rewrite (sub_uninit h v a b Hc). pose proof (inited_good h v (or_intror I)) as Hgi. unfold good, inited in Hgi. cbn [g_c g_r] in Hgi.
    destruct Hgi as [Hl Hok].
    destruct (sub_init (h ++ [None]) (inited h v) (length h) a b eq_refl Hl Hok) as (h' & v' & E & Hr & He & Hf).
    exists h', v'. splits; [exact E|exact Hr|eapply ext2_after_alloc; [exact He|lia]|].
    eapply fresh_or_zero_mono; [|exact Hf]. rewrite app_length. lia.
Qed.

(* ---- SetCharAt ---- *)
Lemma concat_split_at (cl : list (list Z)) k : concat cl = concat (firstn k cl) ++ concat (skipn k cl).
Proof. rewrite <- concat_app, firstn_skipn. reflexivity. Qed.

Lemma firstn_roff cl k : firstn (roff cl k) (concat cl) = concat (firstn k cl).
Proof.
  rewrite (concat_split_at cl k) at 1. unfold roff. rewrite firstn_app, Nat.sub_diag, firstn_all. cbn. apply app_nil_r.
Qed.

Lemma skipn_roff cl k : skipn (roff cl k) (concat cl) = concat (skipn k cl).
Proof.
  rewrite (concat_split_at cl k) at 1. unfold roff. rewrite skipn_app, Nat.sub_diag, skipn_all. reflexivity.
Qed.

Lemma two_reads rs idx (cl := clusters rs) :
  (do st <- (if (0 <? idx)%Z then ends_get (split_runes rs) (idx - 1) else Ok O);
   do en <- ends_get (split_runes rs) idx; Ok (st, en))
  = if ((idx <? 0) || (zlen cl <=? idx))%Z then Panic P_index
    else Ok (roff cl (Z.to_nat idx), roff cl (S (Z.to_nat idx))).
Proof.
  unfold zlen. destruct (idx <? 0)%Z eqn:Eneg; cbn [orb].
  - replace (0 <? idx)%Z with false by lia. cbn [bind]. rewrite get_panic by lia. reflexivity.
  - destruct (Z.of_nat (length cl) <=? idx)%Z eqn:Ehi.
    + destruct (if (0 <? idx)%Z then ends_get (split_runes rs) (idx - 1) else Ok 0) as [st|p|] eqn:Est.
      * cbn [bind]. rewrite get_panic by (fold cl; lia). reflexivity.
      * cbn [bind]. destruct (0 <? idx)%Z; [|discriminate]. unfold ends_get in Est.
        destruct (idx - 1 <? 0)%Z; [congruence|]. destruct (nth_error _ _); congruence.
      * destruct (0 <? idx)%Z; [|discriminate]. unfold ends_get in Est.
        destruct (idx - 1 <? 0)%Z; [congruence|]. destruct (nth_error _ _); congruence.
    + rewrite start_ok by (fold cl; lia). cbn [bind]. replace idx with (Z.of_nat (Z.to_nat idx)) at 1 by lia.
      rewrite get_ok by (fold cl; lia). reflexivity.
Qed.

Lemma set_char_at_init h v l idx r : g_c v = Some l -> l < length h -> cell_ok h l (g_r v) ->
  exists h' x, gh_set_char_at h v idx r = (h', x) /\ ext2 None h h' /\
    match gset_char_at (g_r v) idx r with
    | Ok rs => exists v' l', x = Ok v' /\ g_r v' = rs /\ g_c v' = Some l' /\ length h <= l' /\ l' < length h' /\ rd h' l' = None
    | Panic p => x = Panic p
    | OutOfFuel => False
    end.
Proof.
  intros Hc Hl Hok. unfold gh_set_char_at, gset_char_at. rewrite (initialized_some h v l Hc).
  destruct r as [|r0 r]; [exists h, (Panic P_setchar); splits; [reflexivity|apply ext2_refl|reflexivity]|].
  destruct (clone_spec h v l Hc Hl) as (h2 & c & lc & Hcl & Hrc & Hcc & Hlc & Hlc2 & Hrd2 & He2). rewrite Hcl.
  assert (Hokc : cell_ok h2 lc (g_r c)) by (unfold cell_ok in *; rewrite Hrd2, Hrc; exact Hok).
  destruct (fill_spec h2 c lc Hcc Hlc2 Hokc) as (Hfl & Hfr & _ & Hfe).
  unfold cell_of. rewrite Hcc, Hfr. rewrite Hrc. rewrite two_reads.
  set (cl := clusters (g_r v)).
  destruct ((idx <? 0) || (zlen cl <=? idx))%Z eqn:Eout.
  - eexists _, _. split; [reflexivity|]. split; [|reflexivity].
    apply (ext2_fresh_owner None lc (g_r c)); [|exact Hlc]. eapply ext2_trans; [apply ext2_none; exact He2|exact Hfe].
  - eexists _, _. split; [reflexivity|]. split.
    + apply ext2_wr_fresh; [|lia]. apply (ext2_fresh_owner None lc (g_r c)); [|exact Hlc]. eapply ext2_trans; [apply ext2_none; exact He2|exact Hfe].
    + eexists _, lc. split; [reflexivity|]. cbn [g_r g_c]. unfold wr. rewrite set_nth_length.
      splits; [|reflexivity|exact Hlc|lia|apply rd_set_same; lia].
      rewrite <- (clusters_concat (g_r v)) at 1 2. fold cl. rewrite firstn_roff, skipn_roff. reflexivity.
Qed.

Lemma set_char_at_uninit h v idx r : g_c v = None -> gh_set_char_at h v idx r = gh_set_char_at (h ++ [None]) (inited h v) idx r.
Proof. intro Hc. unfold gh_set_char_at, initialized, inited. rewrite Hc. reflexivity. Qed.

Theorem set_char_at_spec h v idx r : good h v ->
  exists h' x, gh_set_char_at h v idx r = (h', x) /\ ext2 None h h' /\
    match gset_char_at (g_r v) idx r with
    | Ok rs => exists v' l', x = Ok v' /\ g_r v' = rs /\ g_c v' = Some l' /\ length h <= l' /\ l' < length h' /\ rd h' l' = None
    | Panic p => x = Panic p
    | OutOfFuel => False
    end.
Proof.
  intro Hg. unfold good in *. destruct (g_c v) as [l|] eqn:Hc.
  - destruct Hg as [Hl Hok]. apply set_char_at_init with (l := l); assumption.
  - rewrite (set_char_at_uninit h v idx r Hc). pose proof (inited_good h v (or_intror I)) as Hgi. unfold good, inited in Hgi. cbn [g_c g_r] in Hgi.
    destruct Hgi as [Hl Hok].
    destruct (set_char_at_init (h ++ [None]) (inited h v) (length h) idx r eq_refl Hl Hok) as (h' & x & E & He & Hm).
    exists h', x. splits; [exact E|eapply ext2_trans; [apply ext2_alloc|exact He]|].
    change (g_r (inited h v)) with (g_r v) in Hm. destruct (gset_char_at (g_r v) idx r); try exact Hm.
    destruct Hm as (v' & l' & A & B & C & D & E' & F). exists v', l'. rewrite app_length in D. splits; try assumption. lia.
Qed.

(* ---- Repeat ---- *)
Lemma repeat_loop_spec s n : forall h acc, good h acc -> good h s ->
  exists h' v', gh_repeat_loop n h acc s = (h', v') /\ g_r v' = g_r acc ++ repeatn (g_r s) n /\ ext2 None h h' /\
    ((n = 0 /\ v' = acc /\ h' = h) \/
     exists l', g_c v' = Some l' /\ length h <= l' /\ l' < length h' /\ rd h' l' = None).
Proof.
  induction n as [|n IH]; intros h acc Ha Hs.
  - exists h, acc. cbn. rewrite app_nil_r. splits; [reflexivity|reflexivity|apply ext2_refl|left; splits; reflexivity].
  - cbn [gh_repeat_loop].
    destruct (add_spec h acc s Ha Hs) as (h1 & a1 & l1 & Ea & Hr1 & Hc1 & Hl1 & Hl1' & Hrd1 & He1). rewrite Ea.
    assert (Ha1 : good h1 a1) by (unfold good, cell_ok; rewrite Hc1; split; [exact Hl1'|left; exact Hrd1]).
    destruct (IH h1 a1 Ha1 (good_ext2_none _ _ _ Hs He1)) as (h' & v' & El & Hr & He & Hcase).
    exists h', v'. splits; [exact El| |eapply ext2_trans; eassumption|right].
    + rewrite Hr, Hr1. unfold repeatn. cbn [repeat concat]. rewrite app_assoc. reflexivity.
    + destruct Hcase as [(_ & Ev & Eh)|(l' & A & B & C & D)].
      * subst v' h'. exists l1. splits; assumption.
      * exists l'. splits; try assumption. destruct He1. lia.
Qed.

Theorem repeat_spec h s n : 1 <= length h -> rd h 0 = Some [] -> good h s ->
  exists h' v', gh_repeat h s n = (h', v') /\ g_r v' = grepeat (g_r s) n /\ ext2 None h h' /\ fresh_or_zero h h' v'.
Proof.
  intros Hlen Hz Hs. unfold gh_repeat, grepeat.
  assert (Hgz : good h gzero) by (unfold good, gzero, cell_ok, zero_loc; cbn; split; [lia|right; exact Hz]).
  destruct (repeat_loop_spec s (Z.to_nat n) h gzero Hgz Hs) as (h' & v' & El & Hr & He & Hcase).
  exists h', v'. splits; [exact El|exact Hr|exact He|].
  destruct Hcase as [(_ & Ev & _)|(l' & A & B & C & D)]; [left; exact Ev|right].
  exists l'. splits; try assumption. left. exact D.
Qed.

(* ---- histories ---- *)
Definition WF (st : gstate) : Prop :=
  let '(h, pool) := st in
  1 <= length h /\ rd h 0 = Some [] /\
  (forall v, In v pool -> good h v) /\
  (forall v1 v2 l, In v1 pool -> In v2 pool -> g_c v1 = Some l -> g_c v2 = Some l -> g_r v1 = g_r v2) /\
  (forall v, In v pool -> g_c v = Some 0 -> g_r v = []).

Definition zero_value : gval := {| g_r := []; g_c := None |}.

Lemma nthv_cases pool i : In (nthv pool i) pool \/ nthv pool i = zero_value.
Proof. unfold nthv. destruct (Nat.lt_ge_cases i (length pool)); [left; apply nth_In; assumption|right; apply nth_overflow; assumption]. Qed.

Lemma nthv_good h pool i : WF (h, pool) -> good h (nthv pool i).
Proof. intros (_ & _ & Hg & _). destruct (nthv_cases pool i) as [Hi| ->]; [apply Hg, Hi|reflexivity]. Qed.

Lemma nthv_runes pool i : g_r (nthv pool i) = nth i (map g_r pool) [].
Proof. unfold nthv. change (@nil Z) with (g_r zero_value). rewrite map_nth. reflexivity. Qed.

(* an operation with receiver v keeps the invariant for the pool *)
Lemma wf_keep h h' pool v : WF (h, pool) -> In v pool \/ v = zero_value -> ext2 (own_of v) h h' -> WF (h', pool).
Proof.
  intros (Hlen & Hz & Hg & Hs & Hz0) Hv [L E]. unfold WF. splits.
  - lia.
  - destruct (E 0 ltac:(lia)) as [A|(rs & _ & A & _)]; congruence.
  - intros u Hu. specialize (Hg u Hu). unfold good, cell_ok in *. destruct (g_c u) as [l|] eqn:Hcu; [|exact Hg].
    destruct Hg as [Hl Hok]. split; [lia|]. destruct (E l Hl) as [A|(rs & A & B & C)]; [rewrite A; exact Hok|].
    right. rewrite C. unfold own_of in A. destruct Hv as [Hv| ->]; [|discriminate].
    destruct (g_c v) as [lv|] eqn:Hcv; [|discriminate]. inversion A; subst. f_equal. f_equal.
    symmetry. apply (Hs u v l Hu Hv Hcu Hcv).
  - exact Hs.
  - exact Hz0.
Qed.

Definition pushable (h h' : heap) (pool : list gval) (v' : gval) : Prop :=
  In v' pool \/ v' = zero_value \/ fresh_or_zero h h' v'.

Lemma wf_push h h' pool v' : WF (h, pool) -> WF (h', pool) -> length h <= length h' -> pushable h h' pool v' -> WF (h', pool ++ [v']).
Proof.
  intros (Hlen0 & _ & Hg0 & _) (Hlen & Hz & Hg & Hs & Hz0) Hll Hp. unfold WF.
  assert (Hold : forall u l, In u pool -> g_c u = Some l -> l < length h).
  { intros u l Hu Hc. specialize (Hg0 u Hu). unfold good in Hg0. rewrite Hc in Hg0. tauto. }
  destruct Hp as [Hin|[ ->|[ ->|(l' & Hc' & Hl' & Hl'' & Hok')]]].
  - splits; [exact Hlen|exact Hz| | |].
    + intros u Hu. apply in_app_or in Hu. destruct Hu as [Hu|[<-|[]]]; [apply Hg, Hu|apply Hg, Hin].
    + intros v1 v2 l H1 H2. apply in_app_or in H1, H2.
      assert (H1' : In v1 pool) by (destruct H1 as [|[<-|[]]]; assumption).
      assert (H2' : In v2 pool) by (destruct H2 as [|[<-|[]]]; assumption). apply Hs; assumption.
    + intros u Hu. apply in_app_or in Hu. destruct Hu as [Hu|[<-|[]]]; [apply Hz0, Hu|apply Hz0, Hin].
  - splits; [exact Hlen|exact Hz| | |].
    + intros u Hu. apply in_app_or in Hu. destruct Hu as [Hu|[<-|[]]]; [apply Hg, Hu|reflexivity].
    + intros v1 v2 l H1 H2 C1 C2. apply in_app_or in H1, H2.
      destruct H1 as [H1|[<-|[]]]; [|discriminate]. destruct H2 as [H2|[<-|[]]]; [|discriminate]. apply (Hs v1 v2 l); assumption.
    + intros u Hu. apply in_app_or in Hu. destruct Hu as [Hu|[<-|[]]]; [apply Hz0, Hu|discriminate].
  - splits; [exact Hlen|exact Hz| | |].
    + intros u Hu. apply in_app_or in Hu. destruct Hu as [Hu|[<-|[]]]; [apply Hg, Hu|].
      unfold good, gzero, cell_ok, zero_loc. cbn. split; [lia|right; exact Hz].
    + intros v1 v2 l H1 H2 C1 C2. apply in_app_or in H1, H2.
      destruct H1 as [H1|[<-|[]]]; destruct H2 as [H2|[<-|[]]].
      * apply (Hs v1 v2 l); assumption.
      * cbn in C2. inversion C2; subst. cbn. apply Hz0; assumption.
      * cbn in C1. inversion C1; subst. cbn. symmetry. apply Hz0; assumption.
      * reflexivity.
    + intros u Hu. apply in_app_or in Hu. destruct Hu as [Hu|[<-|[]]]; [apply Hz0, Hu|reflexivity].
  - splits; [exact Hlen|exact Hz| | |].
    + intros u Hu. apply in_app_or in Hu. destruct Hu as [Hu|[<-|[]]]; [apply Hg, Hu|].
      unfold good. rewrite Hc'. split; assumption.
    + intros v1 v2 l H1 H2 C1 C2. apply in_app_or in H1, H2.
      destruct H1 as [H1|[<-|[]]]; destruct H2 as [H2|[<-|[]]].
      * apply (Hs v1 v2 l); assumption.
      * pose proof (Hold v1 l H1 C1). assert (l = l') by congruence. lia.
      * pose proof (Hold v2 l H2 C2). assert (l = l') by congruence. lia.
      * reflexivity.
    + intros u Hu. apply in_app_or in Hu. destruct Hu as [Hu|[<-|[]]]; [apply Hz0, Hu|].
      intro C. assert (l' = 0) by congruence. lia.
Qed.

Definition view (st : gstate) : list (list Z) := map g_r (snd st).

Lemma view_push h pool v : view (h, pool ++ [v]) = view (h, pool) ++ [g_r v].
Proof. unfold view. cbn. rewrite map_app. reflexivity. Qed.

(* one step: the invariant is kept, and pool contents and output are those of the pure step *)
Theorem gstep_refines st o : WF st -> in_c19 o ->
  let '(st', out) := gstep st o in WF st' /\ (view st', out) = pstep (view st) o.
Proof.
  destruct st as [h pool]. intros Hwf Hin. pose proof Hwf as (Hlen & Hz & Hg & Hs & Hz0).
  destruct o as [rs| | |i|i j|i a b|i idx r|i n|i idx|i|i|i|i]; cbn [gstep pstep]; try (exfalso; exact Hin);
    unfold view; cbn [snd]; rewrite <- ?nthv_runes.
  - (* New *)
    unfold gh_new, alloc. split; [|cbn [snd]; rewrite map_app; reflexivity].
    apply (wf_push h); [exact Hwf| |rewrite app_length; lia|].
    + apply (wf_keep h _ pool zero_value Hwf); [right; reflexivity|]. cbn. apply ext2_alloc.
    + right. right. right. exists (length h). cbn. splits; [reflexivity|lia|rewrite app_length; cbn; lia|].
      left. unfold rd. rewrite nth_error_app2 by lia. rewrite Nat.sub_diag. reflexivity.
  - (* Zero *)
    split; [|cbn [snd]; rewrite map_app; reflexivity]. apply (wf_push h); [exact Hwf|exact Hwf|lia|]. right. right. left. reflexivity.
  - (* the zero value String{} *)
    split; [|cbn [snd]; rewrite map_app; reflexivity]. apply (wf_push h); [exact Hwf|exact Hwf|lia|]. right. left. reflexivity.
  - (* a value copy *)
    split; [|cbn [snd]; rewrite map_app; reflexivity]. apply (wf_push h); [exact Hwf|exact Hwf|lia|].
    destruct (nthv_cases pool i) as [Hi|Hi]; [left; exact Hi|right; left; exact Hi].
  - (* Add *)
    destruct (add_spec h (nthv pool i) (nthv pool j) (nthv_good h pool i Hwf) (nthv_good h pool j Hwf))
      as (h' & v' & l' & E & Hr & Hc & Hl & Hl' & Hrd & He). rewrite E.
    split; [|cbn [snd]; rewrite map_app; cbn [map]; rewrite Hr; reflexivity].
    apply (wf_push h); [exact Hwf| |destruct He; lia|].
    + apply (wf_keep h h' pool zero_value Hwf); [right; reflexivity|exact He].
    + right. right. right. exists l'. splits; try assumption. left. exact Hrd.
  - (* Sub *)
    destruct (sub_spec h (nthv pool i) a b (nthv_good h pool i Hwf)) as (h' & v' & E & Hr & He & Hf). rewrite E.
    split; [|cbn [snd]; rewrite map_app; cbn [map]; rewrite Hr; reflexivity].
    apply (wf_push h); [exact Hwf| |destruct He; lia|right; right; exact Hf].
    apply (wf_keep h h' pool (nthv pool i) Hwf); [apply nthv_cases|exact He].
  - (* SetCharAt *)
    destruct (set_char_at_spec h (nthv pool i) idx r (nthv_good h pool i Hwf)) as (h' & x & E & He & Hm). rewrite E.
    assert (Hk : WF (h', pool)) by (apply (wf_keep h h' pool zero_value Hwf); [right; reflexivity|exact He]).
    destruct (gset_char_at (g_r (nthv pool i)) idx r) as [rs|p|]; [|subst x; split; [exact Hk|reflexivity]|contradiction].
    destruct Hm as (v' & l' & -> & Hr & Hc & Hl & Hl' & Hrd).
    split; [|cbn [snd]; rewrite map_app; cbn [map]; rewrite Hr; reflexivity].
    apply (wf_push h); [exact Hwf|exact Hk|destruct He; lia|].
    right. right. right. exists l'. splits; try assumption. left. exact Hrd.
  - (* Repeat *)
    destruct (repeat_spec h (nthv pool i) n Hlen Hz (nthv_good h pool i Hwf)) as (h' & v' & E & Hr & He & Hf). rewrite E.
    split; [|cbn [snd]; rewrite map_app; cbn [map]; rewrite Hr; reflexivity].
    apply (wf_push h); [exact Hwf| |destruct He; lia|right; right; exact Hf].
    apply (wf_keep h h' pool zero_value Hwf); [right; reflexivity|exact He].
  - (* CharAt *)
    destruct (char_at_spec h (nthv pool i) idx (nthv_good h pool i Hwf)) as (h' & E & He). rewrite E.
    split; [|reflexivity]. apply (wf_keep h h' pool (nthv pool i) Hwf); [apply nthv_cases|exact He].
  - (* Len *)
    destruct (len_spec h (nthv pool i) (nthv_good h pool i Hwf)) as (h' & E & He). rewrite E.
    split; [|reflexivity]. apply (wf_keep h h' pool (nthv pool i) Hwf); [apply nthv_cases|exact He].
  - (* Runes *)
    destruct (runes_spec h (nthv pool i) (nthv_good h pool i Hwf)) as (h' & E & He). rewrite E.
    split; [|reflexivity]. apply (wf_keep h h' pool zero_value Hwf); [right; reflexivity|exact He].
  - (* GraphemeIndexes *)
    destruct (indexes_spec h (nthv pool i) (nthv_good h pool i Hwf)) as (h' & E & He). rewrite E.
    split; [|reflexivity]. apply (wf_keep h h' pool (nthv pool i) Hwf); [apply nthv_cases|exact He].
Qed.

Lemma wf_init : WF (heap0, []).
Proof. unfold WF, heap0. splits; [cbn; lia|reflexivity|intros v []|intros v1 v2 l []|intros v []]. Qed.

(* every history: what the heap model shows is what the pure model shows, at every step *)
Theorem history_refines ops : forall st, WF st -> Forall in_c19 ops ->
  map (fun so => (view (fst so), snd so)) (grun st ops) = prun (view st) ops /\
  Forall (fun so => WF (fst so)) (grun st ops).
Proof.
  induction ops as [|o ops IH]; intros st Hwf Hin; [split; [reflexivity|constructor]|].
  inversion Hin as [|? ? Ho Hin']; subst. cbn [grun prun].
  pose proof (gstep_refines st o Hwf Ho) as Hstep. destruct (gstep st o) as [st' out]. destruct Hstep as [Hwf' Heq].
  rewrite <- Heq. destruct (IH st' Hwf' Hin') as [IH1 IH2]. cbn [map fst snd]. rewrite IH1. split; [reflexivity|constructor; assumption].
Qed.

(* no operand is ever altered: a step only appends to the pool of contents *)
Lemma pstep_appends pool o : fst (pstep pool o) = pool \/ exists x, fst (pstep pool o) = pool ++ [x].
Proof.
  destruct o; cbn [pstep]; try (left; reflexivity); try (right; eexists; reflexivity).
  destruct (gset_char_at _ _ _); [right; eexists; reflexivity|left; reflexivity|left; reflexivity].
Qed.

Theorem history_from_start ops : Forall in_c19 ops ->
  map (fun so => (view (fst so), snd so)) (grun (heap0, []) ops) = prun [] ops /\
  Forall (fun so => WF (fst so)) (grun (heap0, []) ops).
Proof. intro Hin. exact (history_refines ops (heap0, []) wf_init Hin). Qed.

Example history_premise : Forall in_c19 [GNew [97; 769; 98]%Z; GCopy 0; GLen 0; GSub 1 0%Z 1%Z; GAdd 3 0; GZeroValue; GRepeat 4 2%Z; GSetCharAt 6 1%Z [120]%Z; GCharAt 7 0%Z].
Proof. repeat constructor. Qed.

End C19H.
