(* C20: footprint of the grapheme-string operations on the shared heap of cache cells.
   Every operation leaves every pre-existing cell unchanged, except that it may fill the
   receiver's own cell when that cell is still nil. Hence no operation ever writes a cell
   that is already filled - in particular the cell of the package-level Zero, which is
   filled at initialisation - and concurrent operations on values whose cells are filled
   do not write any shared location at all. *)
From Coq Require Import List Bool Arith ZArith Lia.
Import ListNotations.
From Rosed Require Import Base.Res Base.ListX Gem.Segment Gem.GString Gem.GHeap Model.Util.
Open Scope nat_scope.

Section C20.
Context `{Classifier}.

(* h' extends h: longer, and every old cell is unchanged except possibly cell [own], which may go from nil to filled *)
Definition ext (own : option nat) (h h' : heap) : Prop :=
  length h <= length h' /\
  forall l, l < length h -> rd h' l = rd h l \/ (own = Some l /\ rd h l = None).

Lemma ext_refl own h : ext own h h.
Proof. split; [lia|]. intros; left; reflexivity. Qed.

Lemma ext_trans own h1 h2 h3 : ext own h1 h2 -> ext own h2 h3 -> ext own h1 h3.
Proof.
  intros [L1 E1] [L2 E2]. split; [lia|]. intros l Hl.
  destruct (E1 l Hl) as [A|A]; [|right; exact A].
  destruct (E2 l ltac:(lia)) as [B|[B1 B2]]; [left; congruence|]. right. split; [exact B1|congruence].
Qed.

Lemma rd_app h c l : l < length h -> rd (h ++ [c]) l = rd h l.
Proof. intro Hl. unfold rd. rewrite nth_error_app1 by exact Hl. reflexivity. Qed.

Lemma rd_set_other h l l' c : l <> l' -> rd (set_nth h l c) l' = rd h l'.
Proof.
  unfold rd. revert l l'; induction h as [|x h IH]; intros l l' Hne; [destruct l; reflexivity|].
  destruct l, l'; cbn; try reflexivity; try congruence. apply IH. congruence.
Qed.

Lemma set_nth_length {A} (h : list A) l c : length (set_nth h l c) = length h.
Proof. revert l; induction h as [|x h IH]; intro l; [destruct l; reflexivity|]. destruct l; cbn; [reflexivity|]. f_equal. apply IH. Qed.

Lemma ext_alloc own h c : ext own h (h ++ [c]).
Proof. split; [rewrite app_length; lia|]. intros l Hl. left. apply rd_app, Hl. Qed.

(* writing a cell that did not exist at the start of the operation *)
Lemma ext_wr_fresh own h0 h l c : ext own h0 h -> length h0 <= l -> ext own h0 (wr h l c).
Proof.
  intros [L E] Hl. split; [unfold wr; rewrite set_nth_length; exact L|].
  intros l' Hl'. unfold wr. rewrite rd_set_other by lia. apply E, Hl'.
Qed.

(* fill writes only a nil cell, and only the given (initialised) value's own *)
Lemma ext_fill own h0 h v l : g_c v = Some l -> (own = Some l \/ length h0 <= l) -> ext own h0 h -> ext own h0 (fill h v).
Proof.
  intros Hc Hv [L E]. unfold fill, cell_of. rewrite Hc. destruct (rd h l) eqn:Er; [split; assumption|].
  split; [unfold wr; rewrite set_nth_length; exact L|].
  intros l' Hl'. unfold wr. destruct (Nat.eq_dec l l') as [<-|Hne].
  - destruct Hv as [Hv|Hv]; [|lia]. destruct (E l Hl') as [A|A]; [|right; exact A]. right. split; [exact Hv|congruence].
  - rewrite rd_set_other by exact Hne. apply E, Hl'.
Qed.

(* initialized(): either the value already has a cell, or a fresh one is allocated for the callee's copy *)
Lemma initialized_spec h v : let '(h', v') := initialized h v in
  ext (g_c v) h h' /\ g_r v' = g_r v /\ exists l, g_c v' = Some l /\ (g_c v = Some l \/ length h <= l).
Proof.
  unfold initialized. destruct (g_c v) as [l|] eqn:Hc.
  - split; [apply ext_refl|]. split; [reflexivity|]. exists l. rewrite Hc. split; [reflexivity|left; reflexivity].
  - cbn. split; [apply ext_alloc|]. split; [reflexivity|]. exists (length h). split; [reflexivity|right; lia].
Qed.

Ltac use_init h v :=
  let H := fresh "Hi" in pose proof (initialized_spec h v) as H;
  destruct (initialized h v) as [?h ?v]; destruct H as (?Hext & ?Hr & ?l & ?Hc & ?Hown).

(* clone: allocations only; the copy lives in a cell that did not exist before *)
Lemma gh_clone_spec h v : let '(h', c) := gh_clone h v in
  ext (g_c v) h h' /\ g_r c = g_r v /\ exists l, g_c c = Some l /\ length h <= l.
Proof.
  unfold gh_clone. use_init h v. unfold alloc.
  assert (L0 : length h <= length h0) by (destruct Hext; assumption).
  destruct (rd (h0 ++ [None]) (cell_of v0)) eqn:Er.
  - split; [eapply ext_trans; [exact Hext|]; eapply ext_trans; apply ext_alloc|].
    cbn. split; [congruence|]. eexists. split; [reflexivity|]. rewrite app_length. cbn. lia.
  - split; [eapply ext_trans; [exact Hext|apply ext_alloc]|]. cbn. split; [congruence|]. eexists. split; [reflexivity|]. lia.
Qed.

Ltac own_case Hown := destruct Hown as [Hown|Hown]; [left; congruence|right; lia].

Theorem gh_len_frame h v : ext (g_c v) h (fst (gh_len h v)).
Proof.
  unfold gh_len. use_init h v. destruct (rd h0 (cell_of v0)) eqn:Er; [exact Hext|].
  destruct (g_r v0); [exact Hext|]. cbn [fst].
  apply (ext_fill (g_c v) h h0 v0 l Hc); [destruct Hown as [Hown|Hown]; [left; congruence|right; lia]|exact Hext].
Qed.

Theorem gh_char_at_frame h v idx : ext (g_c v) h (fst (gh_char_at h v idx)).
Proof.
  unfold gh_char_at. use_init h v. cbn [fst].
  apply (ext_fill (g_c v) h h0 v0 l Hc); [destruct Hown as [Hown|Hown]; [left; congruence|right; lia]|exact Hext].
Qed.

Theorem gh_indexes_frame h v : ext (g_c v) h (fst (gh_indexes h v)).
Proof.
  unfold gh_indexes. use_init h v. cbn [fst].
  apply (ext_fill (g_c v) h h0 v0 l Hc); [destruct Hown as [Hown|Hown]; [left; congruence|right; lia]|exact Hext].
Qed.

Theorem gh_runes_frame h v : ext (g_c v) h (fst (gh_runes h v)).
Proof. unfold gh_runes. use_init h v. exact Hext. Qed.

Lemma length_set_nth_app (h : heap) : True. Proof. exact I. Qed.

(* brute force for the operations that only allocate and write fresh cells: every old cell reads the same afterwards *)
Ltac old_cells :=
  repeat first [ rewrite rd_app by (rewrite ?app_length, ?set_nth_length, ?app_length; cbn [length]; lia)
               | rewrite rd_set_other by (rewrite ?app_length, ?set_nth_length; cbn [length]; lia) ];
  try reflexivity.

(* Add never changes a pre-existing cell: it writes only the fresh cell of its own clone *)
Theorem gh_add_frame h v s2 l' : l' < length h -> rd (fst (gh_add h v s2)) l' = rd h l'.
Proof.
  intro Hl. unfold gh_add, gh_runes, gh_clone, initialized, alloc, wr.
  destruct v as [vr [l|]]; destruct s2 as [sr [l2|]]; cbn [g_r g_c cell_of fst];
  repeat match goal with |- context [match rd ?hh ?ll with _ => _ end] => destruct (rd hh ll) end;
  cbn [g_r g_c cell_of fst]; old_cells.
Qed.

(* SetCharAt likewise *)
Theorem gh_set_char_at_frame h v idx r l' : l' < length h -> rd (fst (gh_set_char_at h v idx r)) l' = rd h l'.
Proof.
  intro Hl. unfold gh_set_char_at, gh_clone, initialized, alloc, fill, wr.
  destruct v as [vr [l|]]; destruct r as [|r0 r]; cbn [g_r g_c cell_of fst]; old_cells;
  repeat match goal with |- context [match rd ?hh ?ll with _ => _ end] => destruct (rd hh ll) eqn:? end;
  cbn [g_r g_c cell_of fst];
  repeat match goal with |- context [match ?x with Ok _ => _ | Panic _ => _ | OutOfFuel => _ end] => destruct x as [[? ?]| |] end;
  cbn [g_r g_c cell_of fst]; old_cells.
Qed.

Lemma initialized_some h v l : g_c v = Some l -> initialized h v = (h, v).
Proof. intro Hc. unfold initialized. rewrite Hc. reflexivity. Qed.

(* Sub on an initialised value: may fill the receiver's own nil cell, nothing else *)
Theorem gh_sub_frame h v l a b : g_c v = Some l -> ext (Some l) h (fst (gh_sub h v a b)).
Proof.
  intro Hc. unfold gh_sub. rewrite (initialized_some h v l Hc).
  pose proof (gh_len_frame h v) as Hlen. rewrite Hc in Hlen. destruct (gh_len h v) as [h1 n]. cbn [fst] in Hlen.
  destruct (range_to_indexes n a b) as [s e]. destruct (s =? e)%Z; [exact Hlen|].
  assert (Hfill : ext (Some l) h (fill h1 v)) by (apply (ext_fill (Some l) h h1 v l Hc); [left; reflexivity|exact Hlen]).
  pose proof (gh_clone_spec (fill h1 v) v) as Hcl. destruct (gh_clone (fill h1 v) v) as [h3 c].
  destruct Hcl as (Hext3 & _ & lc & Hcc & Hfresh). rewrite Hc in Hext3.
  assert (H03 : ext (Some l) h h3) by (eapply ext_trans; eassumption).
  assert (Hlc : length h <= lc) by (destruct Hfill as [L _]; lia).
  destruct (match rd h3 (cell_of c) with Some x => x | None => [] end) eqn:Eends; cbn [bind];
  repeat match goal with |- context [match ?x with Ok _ => _ | Panic _ => _ | OutOfFuel => _ end] => destruct x as [[? ?]| |] end;
  cbn [fst]; try exact H03; apply ext_wr_fresh; try exact H03; unfold cell_of; rewrite Hcc; exact Hlc.
Qed.

Theorem gh_reverse_frame h v l : g_c v = Some l -> ext (Some l) h (fst (gh_reverse h v)).
Proof.
  intro Hc. unfold gh_reverse. rewrite (initialized_some h v l Hc).
  assert (Hfill : ext (Some l) h (fill h v)) by (apply (ext_fill (Some l) h h v l Hc); [left; reflexivity|apply ext_refl]).
  pose proof (gh_clone_spec (fill h v) v) as Hcl. destruct (gh_clone (fill h v) v) as [h3 c].
  destruct Hcl as (Hext3 & _ & lc & Hcc & Hfresh). rewrite Hc in Hext3.
  assert (H03 : ext (Some l) h h3) by (eapply ext_trans; eassumption).
  cbn [fst]. apply ext_wr_fresh; [exact H03|]. unfold cell_of. rewrite Hcc. destruct Hfill as [L _]. lia.
Qed.

(* consequence: a cell that is filled is never written by any operation *)
Corollary filled_cells_never_change own h h' l c : ext own h h' -> l < length h -> rd h l = Some c -> rd h' l = Some c.
Proof. intros [_ E] Hl Hr. destruct (E l Hl) as [A|[_ A]]; congruence. Qed.

(* the package-level Zero: its cell is filled from the start (heap0), so it is never written *)
Corollary zero_cell_never_written own h' : ext own heap0 h' -> rd h' zero_loc = Some [].
Proof. intro He. apply (filled_cells_never_change own heap0 h' zero_loc []); [exact He|unfold zero_loc, heap0; cbn [length]; lia|reflexivity]. Qed.

(* two operations on values whose cells are filled commute on the old heap: neither writes what the other reads *)
Corollary independent own1 own2 h h1 h2 l : ext own1 h h1 -> ext own2 h h2 -> l < length h -> rd h l <> None ->
  rd h1 l = rd h l /\ rd h2 l = rd h l.
Proof.
  intros [_ E1] [_ E2] Hl Hn. split; [destruct (E1 l Hl) as [A|[_ A]]|destruct (E2 l Hl) as [A|[_ A]]]; congruence.
Qed.

End C20.
