(* Operations that act line by line (Align, Justify with JustifyLastLine, Indent, outside
   paragraph mode): the result is the separator-join of the per-line results over the one line
   decomposition, with the final terminator kept exactly when the text had one. *)
From Coq Require Import List Bool Arith ZArith Lia.
Import ListNotations.
From Rosed Require Import Base.Res Base.ListX Base.Utf8 Base.Str Gem.Segment Gem.GString Model.Util Model.Tb Model.Manip Model.Table
     Model.Options Model.Editor Model.Ops Proofs.C12P Proofs.C12Q Proofs.C17P Proofs.C18P.
Open Scope Z_scope.

Section OpsMap.
Context `{Classifier} `{Upper}.

Lemma apply_each_map (f : list Z -> list Z) : forall lines i, apply_each (fun _ l => Ok [f l]) i lines = Ok (map f lines).
Proof. induction lines as [|l ls IH]; intro i; [reflexivity|]. cbn [apply_each bind map]. rewrite IH. reflexivity. Qed.

Lemma apply_each_ext (op op' : line_op) : (forall i l, op i l = op' i l) -> forall lines i, apply_each op i lines = apply_each op' i lines.
Proof. intro He. induction lines as [|l ls IH]; intro i; [reflexivity|]. cbn [apply_each]. rewrite He, IH. reflexivity. Qed.

(* the lines of the result, before joining *)
Definition mapped_lines (f : list Z -> list Z) (opts : options) (e : editor) : list (list Z) :=
  let o := with_defaults opts in
  let L := map f (lines_sep (with_options e o) (o_linesep o)) in
  if negb (o_notrailing o) && has_suffix (e_text e) (o_linesep o) then L ++ [[]] else L.

Theorem apply_opts_map (f : list Z -> list Z) opts e :
  apply_opts (fun _ l => Ok [f l]) opts e = Ok (with_text e (join (o_linesep (with_defaults opts)) (mapped_lines f opts e))).
Proof. unfold apply_opts, mapped_lines. rewrite apply_each_map. reflexivity. Qed.

Lemma wd_linesep_idem o : o_linesep (with_defaults (with_defaults o)) = o_linesep (with_defaults o).
Proof. unfold with_defaults. cbn [o_linesep]. destruct (o_linesep o); reflexivity. Qed.

Lemma wd_notrailing o : o_notrailing (with_defaults o) = o_notrailing o.
Proof. reflexivity. Qed.

Lemma lines_sep_opts e o o' sep : o_notrailing o = o_notrailing o' -> lines_sep (with_options e o) sep = lines_sep (with_options e o') sep.
Proof. intro E. unfold lines_sep, with_options. cbn [e_text e_opts]. rewrite E. reflexivity. Qed.

Lemma mapped_lines_wd f opts e : mapped_lines f (with_defaults opts) e = mapped_lines f opts e.
Proof.
  unfold mapped_lines. rewrite wd_linesep_idem, !wd_notrailing.
  rewrite (lines_sep_opts e (with_defaults (with_defaults opts)) (with_defaults opts)) by reflexivity. reflexivity.
Qed.

(* Align outside paragraph mode *)
Theorem align_opts_lines align width opts e :
  o_preserve (with_defaults opts) = false -> (align = A_Left \/ align = A_Right \/ align = A_Center) ->
  align_opts align width opts e =
    Ok (with_text e (join (o_linesep (with_defaults opts))
                          (mapped_lines (fun l => encode (align_line align (decode l) width)) opts e))).
Proof.
  intros Hp Ha. unfold align_opts. rewrite Hp.
  replace ((align =? A_None) || (negb (align =? A_Left) && negb (align =? A_Right) && negb (align =? A_Center))) with false
    by (unfold A_None, A_Left, A_Right, A_Center in *; destruct Ha as [Ha|[Ha|Ha]]; subst align; reflexivity).
  rewrite (apply_opts_map (fun l => encode (align_line align (decode l) width))), mapped_lines_wd, wd_linesep_idem. reflexivity.
Qed.

(* any other alignment value returns the Editor unchanged *)
Theorem align_opts_none align width opts e : align <> A_Left -> align <> A_Right -> align <> A_Center ->
  align_opts align width opts e = Ok e.
Proof.
  intros H1 H2 H3. unfold align_opts.
  replace ((align =? A_None) || (negb (align =? A_Left) && negb (align =? A_Right) && negb (align =? A_Center))) with true; [reflexivity|].
  unfold A_None, A_Left, A_Right, A_Center in *. symmetry. apply orb_true_iff. right.
  rewrite !andb_true_iff, !negb_true_iff, !Z.eqb_neq. auto.
Qed.

(* Justify with JustifyLastLine outside paragraph mode *)
Definition just_line (width : Z) (l : list Z) : list Z :=
  match justify_line (decode l) width with Ok j => encode j | _ => [] end.

Theorem justify_opts_lines width opts e :
  o_preserve (with_defaults opts) = false -> o_justlast (with_defaults opts) = true ->
  justify_opts width opts e =
    Ok (with_text e (join (o_linesep (with_defaults opts)) (mapped_lines (just_line width) opts e))).
Proof.
  intros Hp Hj. unfold justify_opts. rewrite Hp, Hj.
  unfold apply_opts. rewrite (apply_each_ext _ (fun _ l => Ok [just_line width l])).
  - rewrite apply_each_map. cbn [bind].
    change (Ok (with_text e (join (o_linesep (with_defaults (with_defaults opts))) (mapped_lines (just_line width) (with_defaults opts) e))) = 
            Ok (with_text e (join (o_linesep (with_defaults opts)) (mapped_lines (just_line width) opts e)))).
    rewrite mapped_lines_wd, wd_linesep_idem. reflexivity.
  - intros i l. unfold just_line. destruct (justify_line_spec (decode l) width) as (c & _ & r & Hr & _). rewrite Hr. reflexivity.
Qed.

(* Indent outside paragraph mode *)
Theorem indent_opts_lines level opts e ind :
  1 <= level -> o_preserve (with_defaults opts) = false -> repeat_str (o_indent (with_defaults opts)) level = Ok ind ->
  indent_opts level opts e =
    Ok (with_text e (join (o_linesep (with_defaults opts)) (mapped_lines (fun l => ind ++ l) opts e))).
Proof.
  intros Hl Hp Hi. unfold indent_opts. replace (level <? 1) with false by lia. rewrite Hi. cbn [bind]. rewrite Hp.
  apply (apply_opts_map (fun l => ind ++ l)).
Qed.

Theorem indent_opts_nop level opts e : level < 1 -> indent_opts level opts e = Ok e.
Proof. intro Hl. unfold indent_opts. replace (level <? 1) with true by lia. reflexivity. Qed.

End OpsMap.
