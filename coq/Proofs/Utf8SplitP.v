(* UTF-8 is self-synchronising: splitting the encoding of a text at the encoding of a
   separator is splitting the text at the separator. (Base/Str.v uses one set of string
   functions for bytes and for code points on that ground; here it is proved.) *)
From Coq Require Import List Bool Arith ZArith Lia ZifyBool.
Import ListNotations.
From Rosed Require Import Base.Res Base.ListX Base.Utf8 Base.Str Proofs.StrP Proofs.Utf8P Proofs.C04P.
Open Scope Z_scope.
Ltac Zify.zify_post_hook ::= Z.to_euclidean_division_equations.

Definition contb (b : Z) : Prop := 128 <= b < 192.

Lemma has_prefix_nil1 s : has_prefix s [] = true.
Proof. destruct s; reflexivity. Qed.

(* the first byte of an encoded scalar is not a continuation byte; the others are *)
Lemma encode_rune_shape r : scalar r = true -> exists h t, encode_rune r = h :: t /\ ~ contb h /\ Forall contb t.
Proof.
  intro Hs. rewrite (encode_rune_scalar r Hs). apply scalar_range in Hs. unfold contb.
  destruct (r <? 128) eqn:E1; [exists r, []; split; [reflexivity|split; [lia|constructor]]|].
  destruct (r <? 2048) eqn:E2; [eexists _, _; split; [reflexivity|split; [lia|repeat constructor; lia]]|].
  destruct (r <? 65536) eqn:E3; [eexists _, _; split; [reflexivity|split; [lia|repeat constructor; lia]]|].
  eexists _, _; split; [reflexivity|split; [lia|repeat constructor; lia]].
Qed.

Lemma has_prefix_same (x a b : list Z) : has_prefix (x ++ a) (x ++ b) = has_prefix a b.
Proof. induction x as [|c x IH]; [reflexivity|]. cbn [app has_prefix]. rewrite Z.eqb_refl, IH. reflexivity. Qed.

Lemma encode_rune_inj r y a b : scalar r = true -> scalar y = true -> encode_rune r ++ a = encode_rune y ++ b -> r = y.
Proof.
  intros Hr Hy E. pose proof (dec1_encode r a Hr) as D1. pose proof (dec1_encode y b Hy) as D2. rewrite E in D1. rewrite D1 in D2.
  congruence.
Qed.

Lemma has_prefix_rune r y a b : scalar r = true -> scalar y = true ->
  has_prefix (encode_rune r ++ a) (encode_rune y ++ b) = (r =? y) && has_prefix a b.
Proof.
  intros Hr Hy. destruct (r =? y) eqn:E.
  - assert (r = y) by lia. subst y. apply has_prefix_same.
  - cbn [andb]. destruct (has_prefix _ _) eqn:Hp; [|reflexivity]. exfalso.
    apply has_prefix_spec in Hp. rewrite <- app_assoc in Hp. apply encode_rune_inj in Hp; [lia|assumption|assumption].
Qed.

(* at a code-point boundary, a prefix of the bytes is a prefix of the code points *)
Lemma has_prefix_encode q : scalars q -> forall a, scalars a -> has_prefix (encode a) (encode q) = has_prefix a q.
Proof.
  induction 1 as [|y q Hy Hq IH]; intros a Ha; [cbn [encode flat_map]; rewrite has_prefix_nil1; destruct a; reflexivity|].
  rewrite encode_cons. destruct a as [|r a'].
  - cbn [encode flat_map has_prefix]. destruct (encode_rune y) eqn:Ey; [exfalso; exact (encode_rune_nonempty y Ey)|reflexivity].
  - inversion Ha as [|? ? Hr Ha']; subst. rewrite encode_cons. rewrite has_prefix_rune by assumption. cbn [has_prefix].
    rewrite IH by exact Ha'. reflexivity.
Qed.

(* stepping over continuation bytes: no separator starts there *)
Lemma cont_run n h t c : ~ contb h -> Forall contb c -> forall cur rest,
  split_aux n (h :: t) 0 cur (c ++ rest) = split_aux n (h :: t) 0 (rev c ++ cur) rest.
Proof.
  intros Hh. induction 1 as [|b c Hb Hc IH]; intros cur rest; [reflexivity|].
  cbn [app split_aux has_prefix]. replace (b =? h) with false by (unfold contb in *; lia). cbn [andb].
  rewrite IH. cbn [rev]. rewrite <- app_assoc. reflexivity.
Qed.

Lemma skipn_app_exact {A} (a b : list A) : skipn (length a) (a ++ b) = b.
Proof. induction a; [reflexivity|exact IHa]. Qed.

Lemma split_aux_encode q : q <> [] -> scalars q -> forall n rs curR, (length rs <= n)%nat -> scalars rs ->
  split_aux (length (encode q)) (encode q) 0 (rev (encode (rev curR))) (encode rs)
  = map encode (split_aux (length q) q 0 curR rs).
Proof.
  intros Hq Hsq. destruct q as [|y q']; [congruence|]. inversion Hsq as [|? ? Hy Hq']; subst.
  destruct (encode_rune_shape y Hy) as (h & t & Ey & Hh & Ht).
  assert (Esep : encode (y :: q') = h :: (t ++ encode q')) by (rewrite encode_cons, Ey; reflexivity).
  induction n as [|n IH]; intros rs curR Hn Hs.
  - destruct rs; [|cbn in Hn; lia]. cbn [encode flat_map split_aux map]. rewrite rev_involutive. reflexivity.
  - destruct rs as [|r rs']; [cbn [encode flat_map split_aux map]; rewrite rev_involutive; reflexivity|].
    inversion Hs as [|? ? Hr Hs']; subst.
    pose proof (has_prefix_encode (y :: q') Hsq (r :: rs') Hs) as Hpre.
    destruct (encode_rune_shape r Hr) as (x & c & Er & _ & Hc).
    assert (Ers : encode (r :: rs') = x :: (c ++ encode rs')) by (rewrite encode_cons, Er; reflexivity).
    rewrite Ers in *. cbn [split_aux]. rewrite Hpre.
    change (split_aux (length (y :: q')) (y :: q') 0 curR (r :: rs'))
      with (if has_prefix (r :: rs') (y :: q') then rev curR :: split_aux (length (y :: q')) (y :: q') (length (y :: q') - 1) [] rs'
            else split_aux (length (y :: q')) (y :: q') 0 (r :: curR) rs').
    destruct (has_prefix (r :: rs') (y :: q')) eqn:Hm.
    + (* the separator is here *)
      cbn [map]. rewrite rev_involutive. f_equal.
      apply has_prefix_spec in Hm. cbn [length skipn app] in Hm. injection Hm as Hry Hrs'. subst y.
      set (rest := skipn (length q') rs') in *.
      assert (Hrest : scalars rest).
      { unfold scalars in *. rewrite Hrs' in Hs'. apply Forall_app in Hs' as [_ Hx]. exact Hx. }
      assert (Hlen : (length rest <= n)%nat).
      { cbn [length] in Hn. assert (length rs' = length q' + length rest)%nat by (rewrite Hrs' at 1; apply app_length). lia. }
      (* code points *)
      cbn [length]. rewrite Nat.sub_succ, Nat.sub_0_r.
      rewrite (split_aux_skip _ _ (length q') rs') by (rewrite Hrs', app_length; lia). fold rest.
      (* bytes *)
      assert (Eb : c ++ encode rs' = (t ++ encode q') ++ encode rest).
      { assert (c = t) by congruence. subst c. rewrite Hrs' at 1. rewrite encode_app, app_assoc. reflexivity. }
      rewrite Eb. rewrite Esep. cbn [length]. rewrite Nat.sub_succ, Nat.sub_0_r.
      rewrite split_aux_skip by (rewrite !app_length; lia). rewrite skipn_app_exact.
      rewrite <- Esep. replace (S (length (t ++ encode q'))) with (length (encode (r :: q'))) by (rewrite Esep; reflexivity).
      exact (IH rest [] Hlen Hrest).
    + (* no separator here: the whole code point goes to the current piece *)
      rewrite Esep. rewrite (cont_run _ h _ c Hh Hc). rewrite <- Esep.
      assert (Ecur : rev c ++ x :: rev (encode (rev curR)) = rev (encode (rev (r :: curR)))).
      { cbn [rev]. rewrite encode_app. cbn [encode flat_map]. rewrite app_nil_r, Er, rev_app_distr. cbn [rev]. rewrite <- app_assoc. reflexivity. }
      rewrite Ecur. apply IH; [cbn [length] in Hn; lia|exact Hs'].
Qed.

Theorem split_encode rs q : q <> [] -> scalars rs -> scalars q -> split (encode rs) (encode q) = map encode (split rs q).
Proof.
  intros Hq Hs Hsq. unfold split. destruct q as [|y q']; [congruence|].
  destruct (encode (y :: q')) eqn:E; [exfalso; rewrite encode_cons in E; apply app_eq_nil in E as [E _]; exact (encode_rune_nonempty y E)|].
  rewrite <- E. exact (split_aux_encode (y :: q') Hq Hsq (length rs) rs [] (le_n _) Hs).
Qed.
