(* C18, continued: valid UTF-8 out of the three inserted layouts. Each builds a block of code
   points, encodes it and inserts it with Insert. *)
From Coq Require Import List Bool Arith ZArith Lia.
Import ListNotations.
From Rosed Require Import Base.Res Base.ListX Base.Utf8 Base.Str Gem.Segment Gem.GString Model.Util Model.Tb Model.Manip Model.Table
     Model.Options Model.Editor Model.Ops Proofs.StrP Proofs.Utf8P Proofs.C04P Proofs.C17P Proofs.C18P Proofs.C18T Proofs.C18U.
Open Scope Z_scope.

Section C18W.
Context `{Classifier} `{Upper}.

Notation valid x := (valid_utf8 x = true).

Ltac peel E :=
  repeat lazymatch type of E with
  | bind ?x _ = Ok _ => let a := fresh "a" in destruct x as [a| |]; cbn [bind] in E; [|discriminate|discriminate]
  | (if ?c then _ else _) = Ok _ => destruct c; try discriminate
  | (let '(_, _) := ?x in _) = Ok _ => let p := fresh "p" in destruct x as [? ?]
  end.

Theorem two_columns_valid pos lt rt gap width m ex opts e r : valid (e_text e) ->
  insert_two_columns_opts pos lt rt gap width m ex opts e = Ok r -> valid (e_text r).
Proof.
  intros He E. unfold insert_two_columns_opts in E.
  assert (Hgo : (let '(width0, lw, rw) := two_col_widths width gap m ex in
                 if rw <? 2 then Panic P_rightcol else
                 let opts0 := with_defaults opts in let lineSep := decode (o_linesep opts0) in
                 do lb <- wrap (decode lt) lw lineSep; do rb <- wrap (decode rt) rw lineSep;
                 let maxl := maxZ 0 (map glen (b_lines lb)) in
                 do cb <- combine_column_blocks lb rb (gap + (lw - maxl));
                 let cb0 := {| b_lines := b_lines cb; b_sep := lineSep; b_trailing := negb (o_notrailing opts0) |} in
                 insert pos (encode (tb_join cb0)) e) = Ok r -> valid (e_text r)).
  { clear E. intro E. destruct (two_col_widths width gap m ex) as [[w0 lw] rw]. cbv zeta in E. peel E.
    exact (insert_valid _ _ _ _ He (encode_valid _) E). }
  destruct lt, rt; [injection E as <-; exact He|exact (Hgo E)..].
Qed.

Theorem definitions_table_valid pos defs width opts e r : valid (e_text e) ->
  insert_definitions_table_opts pos defs width opts e = Ok r -> valid (e_text r).
Proof.
  intros He E. unfold insert_definitions_table_opts in E. cbv zeta in E. peel E.
  - exact (insert_valid _ _ _ _ He (encode_valid _) E).
  - injection E as <-. exact He.
Qed.

Theorem table_valid pos data width opts e r : valid (e_text e) -> valid (o_linesep (with_defaults opts)) ->
  insert_table_opts pos data width opts e = Ok r -> valid (e_text r).
Proof.
  intros He Hsep E. unfold insert_table_opts in E. cbv zeta in E.
  refine (insert_valid _ _ _ _ He _ E).
  destruct (encode _) eqn:Ee; [reflexivity|]. rewrite <- Ee.
  destruct (negb _); [apply valid_app; [apply encode_valid|exact Hsep]|apply encode_valid].
Qed.

End C18W.
