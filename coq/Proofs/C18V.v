(* C18, continued: the lines of a valid text at a valid separator are valid, hence Indent in
   line mode and every line function that maps valid lines to valid lines. *)
From Coq Require Import List Bool Arith ZArith Lia.
Import ListNotations.
From Rosed Require Import Base.Res Base.ListX Base.Utf8 Base.Str Gem.Segment Gem.GString Model.Util Model.Tb Model.Manip Model.Table
     Model.Options Model.Editor Model.Ops Proofs.StrP Proofs.Utf8P Proofs.C04P Proofs.C17P Proofs.C18P Proofs.C18T Proofs.C18U Proofs.Utf8SplitP.
Open Scope Z_scope.

Notation valid x := (valid_utf8 x = true).

Theorem split_valid s sep : valid s -> valid sep -> sep <> [] -> Forall (fun x => valid x) (split s sep).
Proof.
  intros Hs Hsep Hne. destruct (valid_is_encode s Hs) as (rs & Hrs & ->). destruct (valid_is_encode sep Hsep) as (q & Hq & ->).
  assert (Hqne : q <> []) by (intro E; apply Hne; rewrite E; reflexivity).
  rewrite (split_encode rs q Hqne Hrs Hq). apply Forall_forall. intros x Hx. apply in_map_iff in Hx as (y & <- & _). apply encode_valid.
Qed.

Theorem join_encode sep l : join (encode sep) (map encode l) = encode (join sep l).
Proof.
  induction l as [|x l IH]; [reflexivity|]. destruct l as [|y l']; [reflexivity|].
  change (map encode (x :: y :: l')) with (encode x :: map encode (y :: l')).
  rewrite !join_cons by (cbn [map]; discriminate). rewrite IH, !encode_app. reflexivity.
Qed.

Theorem replace_all_encode s old new : scalars s -> scalars old ->
  replace_all (encode s) (encode old) (encode new) = encode (replace_all s old new).
Proof.
  intros Hs Ho. destruct old as [|y old']; [reflexivity|]. unfold replace_all.
  destruct (encode (y :: old')) eqn:E; [exfalso; rewrite encode_cons in E; apply app_eq_nil in E as [E _]; exact (encode_rune_nonempty y E)|].
  rewrite <- E. rewrite split_encode by (discriminate || assumption). apply join_encode.
Qed.

Lemma repeatn_valid s n : valid s -> valid (repeatn s n).
Proof. intro Hs. induction n as [|n IH]; [exact valid_nil|]. cbn [repeatn]. apply valid_app; assumption. Qed.

Section C18V.
Context `{Classifier} `{Upper}.

Lemma lines_sep_valid e sep : valid (e_text e) -> valid sep -> sep <> [] -> Forall (fun x => valid x) (lines_sep e sep).
Proof.
  intros He Hsep Hne. unfold lines_sep. pose proof (split_valid _ _ He Hsep Hne) as Hv.
  destruct (rev (split (e_text e) sep)) as [|l0 rest] eqn:Er; [exact Hv|]. destruct l0; [|exact Hv].
  destruct (negb _); [|exact Hv].
  assert (Hr : Forall (fun x => valid x) (rev (split (e_text e) sep))) by (apply Forall_rev; exact Hv).
  rewrite Er in Hr. inversion Hr as [|? ? _ Hrest]; subst. apply Forall_rev. exact Hrest.
Qed.

Lemma apply_each_valid_lines (op : line_op) : (forall k l r, valid l -> op k l = Ok r -> Forall (fun x => valid x) r) ->
  forall lines i r, Forall (fun x => valid x) lines -> apply_each op i lines = Ok r -> Forall (fun x => valid x) r.
Proof.
  intro Hf. induction lines as [|l ls IH]; intros i r HL E; [injection E as <-; constructor|].
  inversion HL as [|? ? Hl HL']; subst.
  cbn [apply_each] in E. destruct (op i l) as [r0| |] eqn:E0; cbn [bind] in E; try discriminate.
  destruct (apply_each op (i + 1) ls) as [rest| |] eqn:Er; cbn [bind] in E; try discriminate.
  injection E as <-. apply Forall_app. split; [exact (Hf _ _ _ Hl E0)|exact (IH _ _ HL' Er)].
Qed.

(* line mode on valid text: any line function that maps valid lines to valid lines *)
Theorem apply_opts_valid_lines (op : line_op) opts e r : (forall k l r, valid l -> op k l = Ok r -> Forall (fun x => valid x) r) ->
  valid (e_text e) -> valid (o_linesep (with_defaults opts)) -> apply_opts op opts e = Ok r -> valid (e_text r).
Proof.
  intros Hop He Hsep E. unfold apply_opts in E. cbv zeta in E.
  destruct (apply_each op 0 _) as [ap| |] eqn:Ea; cbn [bind] in E; try discriminate. injection E as <-. cbn [with_text e_text].
  apply valid_join; [exact Hsep|].
  assert (Hv : Forall (fun x => valid x) ap).
  { apply (apply_each_valid_lines op Hop _ _ _) in Ea; [exact Ea|]. apply lines_sep_valid; [exact He|exact Hsep|apply (proj1 (wd_linesep opts))]. }
  destruct (negb _ && _); [apply Forall_app; split; [exact Hv|constructor; [exact valid_nil|constructor]]|exact Hv].
Qed.

(* Indent, line mode *)
Theorem indent_valid_lines level opts e r : o_preserve (with_defaults opts) = false ->
  valid (e_text e) -> valid (o_linesep (with_defaults opts)) -> valid (o_indent (with_defaults opts)) ->
  indent_opts level opts e = Ok r -> valid (e_text r).
Proof.
  intros Hp He Hsep Hind E. unfold indent_opts in E. destruct (level <? 1); [injection E as <-; exact He|].
  unfold repeat_str in E. destruct (level <? 0); cbn [bind] in E; try discriminate. rewrite Hp in E.
  refine (apply_opts_valid_lines _ _ _ _ _ He Hsep E).
  intros k l r0 Hl E0. injection E0 as <-. constructor; [|constructor]. apply valid_app; [apply repeatn_valid, Hind|exact Hl].
Qed.

End C18V.
