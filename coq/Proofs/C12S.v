(* C12, continued: Justify without JustifyLastLine, outside paragraph mode. The operation
   selects all lines but the last as a sub-editor, justifies them and commits: every line but
   the last is replaced by its JustifyLine and keeps its terminator; the last line (and the
   empty piece after a final terminator) is returned untouched. *)
From Coq Require Import List Bool Arith ZArith Lia ZifyBool.
Import ListNotations.
From Rosed Require Import Base.Res Base.ListX Base.Utf8 Base.Str Gem.Segment Gem.GString Model.Util Model.Tb Model.Manip Model.Table
     Model.Options Model.Editor Model.Ops Proofs.StrP Proofs.C04P Proofs.C10P Proofs.C10Q Proofs.C12P Proofs.C12Q Proofs.C17P Proofs.C18P Proofs.OpsMapP.
Open Scope Z_scope.

(* ---- splitting a prefix that ends at a line start ---- *)
Lemma has_prefix_app_irrel sep : forall s r r', (length sep <= length s)%nat -> has_prefix (s ++ r) sep = has_prefix (s ++ r') sep.
Proof.
  induction sep as [|y sep IH]; intros s r r' Hl; [destruct (s ++ r), (s ++ r'); reflexivity|]. destruct s as [|x s]; [cbn in Hl; lia|].
  cbn [app has_prefix]. f_equal. apply IH. cbn in Hl. lia.
Qed.

Lemma index_from_unfold i s sep : index_from i s sep =
  if has_prefix s sep then Some i else match s with [] => None | _ :: s' => index_from (i + 1) s' sep end.
Proof. destruct s; reflexivity. Qed.

Lemma index_from_prefix_stable sep p : forall i r r', index_from i (p ++ sep ++ r) sep = Some (i + zlen p) ->
  index_from i (p ++ sep ++ r') sep = Some (i + zlen p).
Proof.
  induction p as [|x p IH]; intros i r r' Hi.
  - cbn [app] in *. rewrite index_from_unfold, has_prefix_app. f_equal. unfold zlen. cbn [length]. lia.
  - cbn [app index_from] in *.
    assert (E : has_prefix (x :: p ++ sep ++ r') sep = has_prefix (x :: p ++ sep ++ r) sep).
    { replace (x :: p ++ sep ++ r') with ((x :: p ++ sep) ++ r') by (cbn [app]; rewrite <- app_assoc; reflexivity).
      replace (x :: p ++ sep ++ r) with ((x :: p ++ sep) ++ r) by (cbn [app]; rewrite <- app_assoc; reflexivity).
      apply has_prefix_app_irrel. cbn [length]. rewrite app_length. lia. }
    rewrite E. destruct (has_prefix (x :: p ++ sep ++ r) sep) eqn:E2.
    + inversion Hi as [Hi']. unfold zlen in *. cbn [length] in *. lia.
    + replace (i + zlen (x :: p)) with ((i + 1) + zlen p) in * by (unfold zlen; cbn [length]; lia).
      apply (IH (i + 1) r r'). exact Hi.
Qed.

Lemma split_prefix sep : sep <> [] -> forall k text, (k < length (split text sep))%nat ->
  split (concat (map (fun p => p ++ sep) (firstn k (split text sep)))) sep = firstn k (split text sep) ++ [[]].
Proof.
  intro Hsep. induction k as [|k IH]; intros text Hk.
  - cbn [firstn map concat app]. pose proof (split_first [] sep Hsep) as Hf. destruct (index [] sep) as [i|] eqn:Ei; [|exact Hf].
    destruct Hf as (Hl & _). destruct sep; [congruence|cbn in Hl; lia].
  - pose proof (split_first text sep Hsep) as Hf. destruct (index text sep) as [i|] eqn:Ei; [|rewrite Hf in Hk; cbn in Hk; lia].
    destruct Hf as (Hl & Hi0 & Htext & Hsp). rewrite Hsp in Hk |- *. cbn [length] in Hk.
    set (p0 := firstn (Z.to_nat i) text) in *. set (rest := skipn (Z.to_nat i + length sep) text) in *.
    cbn [firstn map concat]. rewrite <- app_assoc.
    set (S' := concat (map (fun p => p ++ sep) (firstn k (split rest sep)))).
    assert (Hlp : length p0 = Z.to_nat i) by (unfold p0; rewrite firstn_length; lia).
    assert (Hidx : index (p0 ++ sep ++ S') sep = Some i).
    { unfold index in *. replace i with (0 + zlen p0) by (unfold zlen; lia).
      apply (index_from_prefix_stable sep p0 0 rest S'). rewrite <- Htext. rewrite Ei. f_equal. unfold zlen. lia. }
    pose proof (split_first (p0 ++ sep ++ S') sep Hsep) as Hf2. rewrite Hidx in Hf2. destruct Hf2 as (_ & _ & _ & Hsp2).
    rewrite Hsp2. rewrite firstn_exact by exact Hlp.
    replace (skipn (Z.to_nat i + length sep) (p0 ++ sep ++ S')) with S'.
    + unfold S'. rewrite (IH rest) by lia. reflexivity.
    + rewrite app_assoc. symmetry. apply skipn_exact. rewrite app_length. lia.
Qed.

Lemma has_suffix_app x sep : has_suffix (x ++ sep) sep = true.
Proof. unfold has_suffix. rewrite rev_app_distr. apply has_prefix_app. Qed.

Lemma has_suffix_nil sep : sep <> [] -> has_suffix [] sep = false.
Proof. intro Hs. unfold has_suffix. cbn [rev]. destruct (rev sep) eqn:E; [|reflexivity]. apply (f_equal (@rev Z)) in E. rewrite rev_involutive in E. cbn in E. congruence. Qed.

Lemma join_terminated sep (L : list (list Z)) : L <> [] -> join sep L ++ sep = concat (map (fun p => p ++ sep) L).
Proof.
  induction L as [|x L IH]; [congruence|]. intros _. destruct L as [|y L]; [cbn; rewrite app_nil_r; reflexivity|].
  rewrite join_cons by discriminate. specialize (IH ltac:(discriminate)).
  change (concat (map (fun p => p ++ sep) (x :: y :: L))) with ((x ++ sep) ++ concat (map (fun p => p ++ sep) (y :: L))).
  rewrite <- IH. rewrite <- !app_assoc. reflexivity.
Qed.

Lemma concat_map_term_ends sep (Q : list (list Z)) : Q <> [] -> exists x, concat (map (fun p => p ++ sep) Q) = x ++ sep.
Proof.
  intro Hq. destruct (exists_last Hq) as (Q' & q & ->). exists (concat (map (fun p => p ++ sep) Q') ++ q).
  rewrite map_app, concat_app. cbn [map concat]. rewrite app_nil_r, app_assoc. reflexivity.
Qed.

(* the lines of a text made of terminated lines, mapped and re-joined under either trailing policy *)
Lemma mapped_prefix (f : list Z -> list Z) sep (Q : list (list Z)) nt opts ref :
  sep <> [] -> f [] = [] ->
  let tsub := concat (map (fun p => p ++ sep) Q) in
  split tsub sep = Q ++ [[]] -> o_notrailing opts = nt ->
  join sep (let L := map f (lines_sep (Ed tsub opts ref) sep) in
            if negb nt && has_suffix tsub sep then L ++ [[]] else L)
  = concat (map (fun p => f p ++ sep) Q).
Proof.
  intros Hsep Hf tsub Hsplit Hnt. unfold lines_sep. cbn [e_text e_opts]. rewrite Hsplit, rev_app_distr. cbn [rev app]. rewrite Hnt.
  assert (Hmap : concat (map (fun p => f p ++ sep) Q) = concat (map (fun p => p ++ sep) (map f Q))) by (rewrite map_map; reflexivity).
  destruct nt; cbn [negb andb].
  - rewrite map_app. cbn [map]. rewrite Hf. destruct Q as [|q Q']; [reflexivity|].
    rewrite join_snoc_empty by discriminate. rewrite Hmap. apply join_terminated. discriminate.
  - rewrite rev_involutive. destruct Q as [|q Q'].
    + cbn [map concat] in *. unfold tsub. cbn [map concat]. rewrite has_suffix_nil by exact Hsep. reflexivity.
    + destruct (concat_map_term_ends sep (q :: Q') ltac:(discriminate)) as [x Ex]. unfold tsub. rewrite Ex, has_suffix_app.
      rewrite join_snoc_empty by discriminate. rewrite Hmap. apply join_terminated. discriminate.
Qed.

Section C12S.
Context `{Classifier} `{Upper}.

Lemma just_line_nil w : just_line w [] = [].
Proof.
  unfold just_line. destruct (justify_line_spec (decode []) w) as (c & Hc & r & Hr & Hcase). rewrite Hr.
  assert (Hc0 : c = []).
  { change (decode []) with (@nil Z) in Hc. unfold collapse_space in Hc. cbn in Hc. inversion Hc. reflexivity. }
  subst c. destruct Hcase as [[_ ->]|(Hlt & Hg & _)]; [reflexivity|]. cbn in Hg. lia.
Qed.

Lemma lines_sep_ne e sep : sep <> [] -> e_text e <> [] -> lines_sep e sep <> [].
Proof.
  intros Hsep Ht. unfold lines_sep. pose proof (join_split (e_text e) sep Hsep) as Hj.
  destruct (rev (split (e_text e) sep)) as [|[|x l] rest] eqn:E.
  - apply (f_equal (@rev (list Z))) in E. rewrite rev_involutive in E. cbn in E. rewrite E in Hj. cbn in Hj. congruence.
  - destruct (negb (o_notrailing (e_opts e))).
    + destruct rest as [|r0 rest']; [|cbn; destruct (rev rest'); discriminate].
      apply (f_equal (@rev (list Z))) in E. rewrite rev_involutive in E. cbn in E. rewrite E in Hj. cbn in Hj. congruence.
    + intro E2. rewrite E2 in E. discriminate.
  - intro E2. rewrite E2 in E. discriminate.
Qed.

(* Justify without JustifyLastLine, outside paragraph mode *)
Theorem justify_opts_keep_last w opts e :
  let o := with_defaults opts in
  let sep := o_linesep o in
  let P := split (e_text e) sep in
  let k := Z.to_nat (line_count (with_options e o) - 1) in
  o_preserve o = false -> o_justlast o = false -> e_text e <> [] ->
  justify_opts w opts e =
    Ok (with_text e (concat (map (fun p => just_line w p ++ sep) (firstn k P)) ++ join sep (skipn k P))).
Proof.
  cbv zeta. intros Hp Hj Htext. set (o := with_defaults opts) in *. set (sep := o_linesep o).
  assert (Hsep : sep <> []) by (unfold sep, o, with_defaults; cbn [o_linesep]; destruct (o_linesep opts); discriminate).
  set (P := split (e_text e) sep). set (e' := with_options e o).
  assert (Hsep' : o_linesep (with_defaults (e_opts e')) = sep) by (unfold e', with_options; cbn [e_opts]; apply wd_linesep_idem).
  set (lc := line_count e').
  assert (Hlc : 1 <= lc <= Z.of_nat (length P)).
  { unfold lc, line_count, ed_lines. rewrite Hsep'. pose proof (lines_sep_length e' sep) as Hl. cbv zeta in Hl.
    pose proof (lines_sep_ne e' sep Hsep Htext) as Hne. unfold zlen. change (e_text e') with (e_text e) in Hl. fold P in Hl.
    destruct (lines_sep e' sep); [congruence|cbn [length] in *; lia]. }
  set (k := Z.to_nat (lc - 1)).
  assert (Hk : (k < length P)%nat) by (unfold k; lia).
  unfold justify_opts. fold o. rewrite Hp, Hj. fold e'.
  (* the sub-editor of all lines but the last *)
  unfold lines_to. pose proof (lines_sel_spec e' 0 (-1)) as Hsel. cbv zeta in Hsel. rewrite Hsep' in Hsel.
  change (e_text e') with (e_text e) in Hsel. fold P lc in Hsel.
  change (0 =? go_End) with false in Hsel. change (-1 =? go_End) with false in Hsel. cbv iota in Hsel.
  assert (Hrange : range_to_indexes lc 0 (-1) = (0, lc - 1)).
  { unfold range_to_indexes. change (0 <? 0) with false. change (-1 <? 0) with true. cbv iota.
    replace (-1 + lc <? 0) with false by lia. replace (lc <? -1 + lc) with false by lia. replace (lc <? 0) with false by lia.
    replace (-1 + lc <? 0) with false by lia. f_equal. lia. }
  rewrite Hrange in Hsel. replace (lc <=? 0) with false in Hsel by lia. fold k in Hsel.
  replace (k <? length P)%nat with true in Hsel by lia. change (Z.to_nat 0) with 0%nat in Hsel. rewrite off_0 in Hsel.
  rewrite (Hsel Htext Hsep). clear Hsel.
  destruct (split_suffix sep Hsep k (e_text e) Hk) as [Hoff _]. fold P in Hoff.
  assert (Hoffnn : 0 <= off sep P k) by (unfold off; lia).
  unfold sub_ed. unfold zsub. change (e_text e') with (e_text e).
  replace ((0 <? 0) || (off sep P k <? 0) || (zlen (e_text e) <? off sep P k)) with false by (unfold zlen; lia).
  cbn [bind].
  assert (Etsub : zslice (e_text e) 0 (off sep P k) = concat (map (fun p => p ++ sep) (firstn k P))).
  { rewrite <- (off_0 sep P). unfold P. rewrite lines_range_text by (exact Hsep || lia || (fold P; lia)). unfold slice. rewrite Nat.sub_0_r. reflexivity. }
  rewrite Etsub. set (tsub := concat (map (fun p => p ++ sep) (firstn k P))).
  (* justify its lines *)
  unfold apply_opts. rewrite (apply_each_ext _ (fun _ l => Ok [just_line w l]))
    by (intros i l; unfold just_line; destruct (justify_line_spec (decode l) w) as (c & _ & r & Hr & _); rewrite Hr; reflexivity).
  rewrite apply_each_map. cbn [bind]. cbn [e_text e_opts with_options with_text].
  assert (Hsep2 : o_linesep (with_defaults o) = sep) by (apply wd_linesep_idem).
  rewrite Hsep2.
  pose proof (mapped_prefix (just_line w) sep (firstn k P) (o_notrailing (with_defaults o)) (with_defaults o) (Some (e', 0, off sep P k))
                Hsep (just_line_nil w)) as Hmp. cbv zeta in Hmp. fold tsub in Hmp.
  change (with_options (Ed tsub (e_opts e') (Some (e', 0, off sep P k))) (with_defaults o)) with (Ed tsub (with_defaults o) (Some (e', 0, off sep P k))).
  rewrite Hmp; [|unfold tsub, P; apply split_prefix; [exact Hsep|fold P; exact Hk]|reflexivity].
  (* commit *)
  unfold commit, with_text. cbn [e_ref e_text e_opts]. unfold zsub. change (e_text e') with (e_text e).
  replace ((0 <? 0) || (0 <? 0) || (zlen (e_text e) <? 0)) with false by (unfold zlen; lia).
  replace ((off sep P k <? 0) || (zlen (e_text e) <? off sep P k) || (zlen (e_text e) <? zlen (e_text e))) with false by (unfold zlen; lia).
  cbn [bind]. unfold P at 3. rewrite lines_tail_text by (exact Hsep || (fold P; exact Hk)). fold P.
  unfold with_options, with_text, e'. cbn [e_text e_opts e_ref zslice]. unfold zslice, slice. cbn [Z.to_nat Nat.sub firstn skipn app].
  reflexivity.
Qed.

End C12S.
