(* C15, continued: one definition rendered as rows, and the rows of all definitions glued by
   the paragraph separator. *)
From Coq Require Import List Bool Arith ZArith Lia ZifyBool.
Import ListNotations.
From Rosed Require Import Base.Cls Base.Res Base.ListX Base.Str Base.Utf8 Gem.Segment Gem.GString Model.Util Model.Tb Model.Manip Model.Table
     Model.Options Model.Editor Model.Ops Proofs.SegmentP Proofs.SeamP Proofs.StrP Proofs.C15P Proofs.C14Q.
Open Scope Z_scope.

Section C15Q.
Context `{ClassifierOk} `{Upper}.

(* the rows of one definition: R are the wrapped lines of the definition text (at least one) *)
Definition entry_rows (term : gstr) (longest : Z) (R : list gstr) : list gstr :=
  match R with
  | [] => []
  | r0 :: rs =>
      ([SP; SP] ++ term ++ repeat SP (Z.to_nat (longest - glen term)) ++ repeat SP 2 ++ [HYPHEN; SP] ++ r0)
      :: map (fun l => repeat SP (Z.to_nat (longest + 4)) ++ [SP; SP] ++ l) rs
  end.

Definition pref (idx : Z) (line : gstr) : Res (list gstr) := Ok [(if idx =? 0 then [HYPHEN; SP] else [SP; SP]) ++ line].

Lemma apply_lines_pref_tail l : forall i, 0 < i -> apply_lines pref i l = Ok (map (fun x => [SP; SP] ++ x) l).
Proof.
  induction l as [|x l IH]; intros i Hi; [reflexivity|]. cbn [apply_lines map]. unfold pref at 1.
  replace (i =? 0) with false by lia. cbn [bind]. rewrite IH by lia. reflexivity.
Qed.

Lemma apply_lines_pref r0 rs : apply_lines pref 0 (r0 :: rs) = Ok (([HYPHEN; SP] ++ r0) :: map (fun x => [SP; SP] ++ x) rs).
Proof. cbn [apply_lines]. unfold pref at 1. cbn [Z.eqb bind]. rewrite apply_lines_pref_tail by lia. reflexivity. Qed.

Lemma map_seq_nth {B} (h : list Z -> B) (R : list (list Z)) :
  map (fun k => h (match nth_error R k with Some x => x | None => [] end)) (seq 0 (length R)) = map h R.
Proof.
  induction R as [|a R IH]; [reflexivity|]. cbn [length seq map nth_error]. f_equal.
  rewrite <- seq_shift, map_map. rewrite <- IH. apply map_ext. intro k. reflexivity.
Qed.

Lemma nth_error_nil' {A} (k : nat) : nth_error (@nil A) k = None.
Proof. destruct k; reflexivity. Qed.

Lemma glen_nn (s : gstr) : 0 <= glen s. Proof. unfold glen, zlen. lia. Qed.

(* the two-column combination of "  term pad" with the prefixed right column *)
Lemma entry_combined term longest r0 rs : starts_ok term -> ends_ok term -> glen term <= longest ->
  let L := [SP; SP] ++ term ++ repeat SP (Z.to_nat (longest - glen term)) in
  let R' := ([HYPHEN; SP] ++ r0) :: map (fun x => [SP; SP] ++ x) rs in
  forall lb rb, b_lines lb = [L] -> b_lines rb = R' ->
  combine_column_blocks lb rb 2
  = Ok {| b_lines := entry_rows term longest (r0 :: rs); b_sep := []; b_trailing := false |}.
Proof.
  intros Hs He Hl L R' lb rb Elb Erb. unfold combine_column_blocks. rewrite Elb, Erb.
  pose proof (term_column_width term longest Hs He Hl) as HgL. fold L in HgL.
  assert (Hmax : maxZ 0 (map glen [L]) = longest + 2) by (cbn [map maxZ]; pose proof (glen_nn L); lia).
  rewrite Hmax. pose proof (glen_nn term) as Htn.
  rewrite combine_rows_spec; [|lia|lia|intros l [<-|[]]; lia].
  cbn [bind]. f_equal. f_equal. unfold R'. cbn [length]. rewrite map_length.
  replace (Nat.max 1 (S (length rs))) with (S (length rs)) by lia. cbn [seq map entry_rows Z.to_nat].
  f_equal.
  - unfold row_of. cbn [nth_error]. rewrite HgL. replace (Z.to_nat (longest + 2 + 2 - (longest + 2))) with 2%nat by lia.
    unfold L. rewrite <- !app_assoc. reflexivity.
  - rewrite <- seq_shift, map_map. unfold gstr in *.
    rewrite <- (map_seq_nth (fun l : list Z => repeat SP (Z.to_nat (longest + 4)) ++ [SP; SP] ++ l) rs).
    apply map_ext_in. intros k Hk. apply in_seq in Hk. unfold row_of. cbn [nth_error].
    rewrite nth_error_nil'.
    rewrite nth_error_map. destruct (nth_error rs k) eqn:En; [|apply nth_error_None in En; lia].
    cbn [option_map]. change (glen []) with 0. rewrite Z.sub_0_r. replace (longest + 2 + 2) with (longest + 4) by lia. reflexivity.
Qed.

(* ---- gluing the rows of consecutive definitions with the paragraph separator ---- *)
Definition glue1 (psep : gstr) (acc rows : list gstr) : list gstr :=
  match acc, rows with
  | [], _ => rows
  | _, [] => acc
  | _, c0 :: tl => removelast acc ++ [List.last acc [] ++ psep ++ c0] ++ tl
  end.

Lemma set_nth_mid {A} (p : list A) y q x : set_nth (p ++ y :: q) (length p) x = p ++ x :: q.
Proof. induction p as [|a p IH]; [reflexivity|]. cbn [app length set_nth]. f_equal. exact IH. Qed.

Lemma set_nth_last {A} (l : list A) x : l <> [] -> set_nth l (length l - 1) x = removelast l ++ [x].
Proof.
  intro Hne. destruct l as [|a0 l0] eqn:El; [congruence|]. rewrite <- El in *.
  rewrite (app_removelast_last a0 Hne) at 1 2. rewrite app_length. cbn [length].
  replace (length (removelast l) + 1 - 1)%nat with (length (removelast l)) by lia. apply set_nth_mid.
Qed.

Lemma nth_error_last {A} (l : list A) d : l <> [] -> nth_error l (length l - 1) = Some (List.last l d).
Proof.
  intro Hne. rewrite (app_removelast_last d Hne) at 1 2. rewrite app_length. cbn [length].
  replace (length (removelast l) + 1 - 1)%nat with (length (removelast l)) by lia.
  rewrite nth_error_app2 by lia. rewrite Nat.sub_diag. reflexivity.
Qed.

(* one iteration of the loop of InsertDefinitionsTable, after the rows are computed *)
Lemma def_join_step (full : block) psep c0 tl :
  let combined := {| b_lines := c0 :: tl; b_sep := []; b_trailing := false |} in
  (do fc <- (if (0 <? tb_len full) && (0 <? tb_len combined) then
               let lastIdx := tb_len full - 1 in
               do lastLine <- tb_line full lastIdx;
               do c <- tb_line combined 0;
               do full' <- tb_set full lastIdx (gadd (gadd lastLine psep) c);
               Ok (full', tb_remove combined 0)
             else Ok (full, combined));
   let '(full, combined) := fc in
   Ok (if 0 <? tb_len combined then tb_with_lines full (b_lines full ++ b_lines combined) else full))
  = Ok (tb_with_lines full (glue1 psep (b_lines full) (c0 :: tl))).
Proof.
  cbv zeta. set (combined := {| b_lines := c0 :: tl; b_sep := []; b_trailing := false |}).
  assert (Hlc : (0 <? tb_len combined) = true) by (unfold combined, tb_len, zlen; cbn [b_lines length]; lia).
  rewrite Hlc, andb_true_r.
  destruct (b_lines full) as [|f0 F] eqn:EF.
  - assert (Hlf : (0 <? tb_len full) = false) by (unfold tb_len; rewrite EF; reflexivity).
    rewrite Hlf. cbn [bind]. rewrite Hlc. unfold tb_with_lines, glue1. rewrite EF. reflexivity.
  - assert (HFne : b_lines full <> []) by (rewrite EF; discriminate).
    assert (Hlen : 0 < zlen (b_lines full)) by (rewrite EF; unfold zlen; cbn [length]; lia).
    assert (Hlf : (0 <? tb_len full) = true) by (unfold tb_len; lia).
    rewrite Hlf. unfold tb_line, tb_len, znth. replace (zlen (b_lines full) - 1 <? 0) with false by lia.
    replace (Z.to_nat (zlen (b_lines full) - 1)) with (length (b_lines full) - 1)%nat by (unfold zlen; lia).
    rewrite (nth_error_last (b_lines full) []) by exact HFne. cbn [bind].
    change (0 <? 0) with false. unfold combined. cbn [Z.to_nat b_lines nth_error bind].
    unfold tb_set, zset. replace ((zlen (b_lines full) - 1 <? 0) || (zlen (b_lines full) <=? zlen (b_lines full) - 1)) with false by lia.
    replace (Z.to_nat (zlen (b_lines full) - 1)) with (length (b_lines full) - 1)%nat by (unfold zlen; lia).
    rewrite (set_nth_last (b_lines full)) by exact HFne. cbn [bind].
    unfold tb_remove, tb_len. cbn [b_lines]. replace ((0 <=? 0) && (0 <? zlen (c0 :: tl))) with true by (unfold zlen; cbn [length]; lia).
    unfold tb_with_lines. cbn [Z.to_nat firstn skipn app b_lines b_sep b_trailing]. unfold gadd, glue1. rewrite EF. rewrite <- EF.
    destruct tl as [|t1 tl'].
    + change (0 <? zlen (@nil gstr)) with false. cbv iota. rewrite <- !app_assoc. reflexivity.
    + replace (0 <? zlen (t1 :: tl')) with true by (unfold zlen; cbn [length]; lia). cbv iota. rewrite <- !app_assoc. reflexivity.
Qed.

Lemma bind_pair_cont {A B C D} (X : Res (A * B)) (g : A -> B -> C) (K : C -> Res D) v :
  (do fc <- X; let '(f, c) := fc in Ok (g f c)) = Ok v ->
  (do fc <- X; let '(f, c) := fc in K (g f c)) = K v.
Proof. destruct X as [[f c]| |]; cbn [bind]; intro E; [inversion E; reflexivity|discriminate|discriminate]. Qed.

(* the rows of definition d, given the wrapped block of its text *)
Definition entry (longest : Z) (d : list Z * list Z) (rb : block) : list gstr :=
  entry_rows (decode (fst d)) longest (match b_lines rb with [] => [[]] | l => l end).

Definition term_ok (longest : Z) (d : list Z * list Z) : Prop :=
  starts_ok (decode (fst d)) /\ ends_ok (decode (fst d)) /\ glen (decode (fst d)) <= longest.

Theorem def_rows_spec longest rw sep psep : forall defs rbs full,
  Forall2 (fun d rb => wrap (decode (snd d)) (rw - 2) sep = Ok rb) defs rbs ->
  Forall (term_ok longest) defs ->
  def_rows defs longest rw sep psep full =
    Ok (tb_with_lines full (fold_left (glue1 psep) (map (fun p => entry longest (fst p) (snd p)) (combine defs rbs)) (b_lines full))).
Proof.
  intros defs rbs full HF. revert full. induction HF as [|d rb defs rbs Hwrap _ IH]; intros full Hok.
  - cbn. destruct full; reflexivity.
  - inversion Hok as [|? ? (Hs & He & Hl) Hok']; subst. destruct d as [term def]. cbn [fst snd] in *.
    cbn [def_rows combine map fold_left fst snd].
    set (termr := decode term) in *.
    assert (Epad : (if glen termr <? longest then repeat_str [SP] (longest - glen termr) else Ok []) = Ok (repeat SP (Z.to_nat (longest - glen termr)))).
    { destruct (glen termr <? longest) eqn:E; [unfold repeat_str; replace (longest - glen termr <? 0) with false by lia; rewrite repeatn_single; reflexivity|].
      replace (Z.to_nat (longest - glen termr)) with 0%nat by lia. reflexivity. }
    rewrite Epad. cbn [bind]. rewrite Hwrap. cbn [bind].
    set (R := match b_lines rb with [] => [[]] | l => l end).
    assert (ER : b_lines (if tb_len rb =? 0 then tb_append rb [] else rb) = R).
    { unfold R, tb_len, tb_append. destruct (b_lines rb) as [|x l] eqn:E; [reflexivity|].
      replace (zlen (x :: l) =? 0) with false by (unfold zlen; cbn [length]; lia). exact E. }
    assert (HRne : exists r0 rs, R = r0 :: rs) by (unfold R; destruct (b_lines rb) as [|x l]; eauto).
    destruct HRne as (r0 & rs & ER0).
    unfold tb_apply. rewrite ER, ER0. change (fun (idx : Z) (line : gstr) => Ok [(if idx =? 0 then [HYPHEN; SP] else [SP; SP]) ++ line]) with pref.
    rewrite apply_lines_pref. cbn [bind].
    rewrite (entry_combined termr longest r0 rs Hs He Hl) by reflexivity. cbn [bind].
    change (entry_rows termr longest (r0 :: rs)) with
      (([SP; SP] ++ termr ++ repeat SP (Z.to_nat (longest - glen termr)) ++ repeat SP 2 ++ [HYPHEN; SP] ++ r0)
        :: map (fun l => repeat SP (Z.to_nat (longest + 4)) ++ [SP; SP] ++ l) rs).
    rewrite (bind_pair_cont _ (fun f c => if 0 <? tb_len c then tb_with_lines f (b_lines f ++ b_lines c) else f)
               (fun f => def_rows defs longest rw sep psep f) _ (def_join_step full psep _ _)).
    rewrite (IH _ Hok').
    assert (EX : entry longest (term, def) rb = entry_rows termr longest (r0 :: rs)) by (unfold entry; cbn [fst]; f_equal; exact ER0).
    rewrite EX. reflexivity.
Qed.

(* ---- the text: paragraphs joined by the paragraph separator ---- *)
Lemma join_glue (lsep psep : list Z) (P : list (list Z)) (z c0 : list Z) (tl : list (list Z)) :
  join lsep (P ++ [z ++ psep ++ c0] ++ tl) = join lsep (P ++ [z]) ++ psep ++ join lsep (c0 :: tl).
Proof.
  induction P as [|p P IH].
  - cbn [app]. destruct tl as [|t tl']; [cbn [join]; rewrite <- ?app_assoc; reflexivity|].
    change (join lsep ((z ++ psep ++ c0) :: t :: tl')) with ((z ++ psep ++ c0) ++ lsep ++ join lsep (t :: tl')).
    change (join lsep (c0 :: t :: tl')) with (c0 ++ lsep ++ join lsep (t :: tl')). cbn [join]. rewrite <- !app_assoc. reflexivity.
  - cbn [app]. rewrite (join_cons lsep p (P ++ (z ++ psep ++ c0) :: tl)) by (destruct P; discriminate). rewrite (join_cons lsep p (P ++ [z])) by (destruct P; discriminate).
    cbn [app] in IH. rewrite IH. rewrite <- !app_assoc. reflexivity.
Qed.

Lemma glue1_join lsep psep acc rows : acc <> [] -> rows <> [] ->
  join lsep (glue1 psep acc rows) = join lsep acc ++ psep ++ join lsep rows /\ glue1 psep acc rows <> [].
Proof.
  intros Ha Hr. unfold glue1. destruct acc as [|a0 acc'] eqn:Ea; [congruence|]. rewrite <- Ea in *. destruct rows as [|c0 tl]; [congruence|].
  split; [|destruct (removelast acc); discriminate].
  rewrite join_glue. unfold gstr in *. rewrite <- (app_removelast_last [] Ha). reflexivity.
Qed.

Lemma fold_glue_join lsep psep : forall ess acc, acc <> [] -> Forall (fun rows => rows <> []) ess ->
  join lsep (fold_left (glue1 psep) ess acc) = join lsep acc ++ concat (map (fun rows => psep ++ join lsep rows) ess).
Proof.
  induction ess as [|rows ess IH]; intros acc Ha HF; [cbn; rewrite app_nil_r; reflexivity|].
  inversion HF as [|? ? Hr HF']; subst. cbn [fold_left map concat].
  destruct (glue1_join lsep psep acc rows Ha Hr) as [Ej Hne]. rewrite (IH _ Hne HF'), Ej. rewrite <- !app_assoc. reflexivity.
Qed.

Lemma join_as_concat psep (x : gstr) xs : join psep (x :: xs) = x ++ concat (map (fun y => psep ++ y) xs).
Proof.
  revert x; induction xs as [|y ys IH]; intro x; [cbn; rewrite app_nil_r; reflexivity|].
  rewrite join_cons by discriminate. rewrite IH. cbn [map concat]. rewrite <- !app_assoc. reflexivity.
Qed.

(* the joined text of the definition rows: each paragraph's rows joined by the line separator,
   the paragraphs joined by the paragraph separator *)
Theorem glued_text lsep psep ess : Forall (fun rows => rows <> []) ess ->
  join lsep (fold_left (glue1 psep) ess []) = join psep (map (join lsep) ess).
Proof.
  intro HF. destruct ess as [|e1 rest]; [reflexivity|]. inversion HF as [|? ? He HF']; subst.
  cbn [fold_left map]. assert (Eg : glue1 psep [] e1 = e1) by reflexivity. rewrite Eg.
  rewrite fold_glue_join by assumption. rewrite join_as_concat, map_map. reflexivity.
Qed.

Definition lg_step (acc : Z) (d : list Z * list Z) : Z := let l := glen (decode (fst d)) in if acc <? l then l else acc.

Lemma longest_ge defs : forall acc,
  acc <= fold_left lg_step defs acc /\ forall d, In d defs -> glen (decode (fst d)) <= fold_left lg_step defs acc.
Proof.
  induction defs as [|d0 defs IH]; intro acc; [split; [cbn; lia|intros ? []]|]. cbn [fold_left].
  destruct (IH (lg_step acc d0)) as [I1 I2].
  assert (acc <= lg_step acc d0 /\ glen (decode (fst d0)) <= lg_step acc d0) by (unfold lg_step; cbv zeta; destruct (acc <? glen (decode (fst d0))) eqn:E; lia).
  split; [lia|]. intros d [<-|Hd]; [lia|apply I2, Hd].
Qed.

Lemma fold_glue_ne psep : forall ess acc, acc <> [] -> Forall (fun rows => rows <> []) ess -> fold_left (glue1 psep) ess acc <> [].
Proof.
  induction ess as [|rows ess IH]; intros acc Ha HF; [exact Ha|]. inversion HF as [|? ? Hr HF']; subst. cbn [fold_left].
  apply IH; [|exact HF']. unfold glue1. destruct acc as [|a acc']; [congruence|]. destruct rows; [congruence|]. destruct (removelast (a :: acc')); discriminate.
Qed.

Lemma entry_ne longest d rb : entry longest d rb <> [].
Proof. unfold entry, entry_rows. destruct (b_lines rb); discriminate. Qed.

(* InsertDefinitionsTable as a whole *)
Theorem deftable_spec pos defs width opts e rbs :
  let o := with_defaults opts in
  let longest := fold_left lg_step defs (-1) in
  let lsep := decode (o_linesep o) in
  let psep := decode (o_parasep o) in
  Forall2 (fun d rb => wrap (decode (snd d)) (width - (longest + 2) - 2 - 2) lsep = Ok rb) defs rbs ->
  Forall (fun d => starts_ok (decode (fst d)) /\ ends_ok (decode (fst d))) defs ->
  insert_definitions_table_opts pos defs width opts e =
    match defs with
    | [] => Ok e
    | _ => insert pos (encode (join psep (map (join lsep) (map (fun p => entry longest (fst p) (snd p)) (combine defs rbs)))
                               ++ (if negb (o_notrailing o) then lsep else []))) e
    end.
Proof.
  cbv zeta. intros HF Hterms. unfold insert_definitions_table_opts.
  change (fold_left (fun acc d => let l := glen (decode (fst d)) in if acc <? l then l else acc) defs (-1)) with (fold_left lg_step defs (-1)).
  set (longest := fold_left lg_step defs (-1)) in *. set (o := with_defaults opts) in *.
  assert (Hok : Forall (term_ok longest) defs).
  { apply Forall_forall. intros d Hd. rewrite Forall_forall in Hterms. destruct (Hterms d Hd) as [Hs He].
    split; [exact Hs|split; [exact He|apply (longest_ge defs (-1)), Hd]]. }
  rewrite (def_rows_spec longest (width - (longest + 2) - 2) (decode (o_linesep o)) (decode (o_parasep o)) defs rbs _ HF Hok).
  cbn [bind b_lines]. unfold tb_len, tb_with_lines. cbn [b_lines].
  set (ess := map (fun p => entry longest (fst p) (snd p)) (combine defs rbs)).
  assert (Hess : Forall (fun rows => rows <> []) ess).
  { unfold ess. apply Forall_forall. intros rows Hr. apply in_map_iff in Hr as (p & <- & _). apply entry_ne. }
  destruct defs as [|d0 defs'].
  - inversion HF; subst. reflexivity.
  - inversion HF as [|? rb0 ? rbs' Hw0 HF']; subst. unfold ess in *. cbn [combine map] in *.
    set (e0 := entry longest (fst (d0, rb0)) (snd (d0, rb0))) in *.
    set (rest := map (fun p => entry longest (fst p) (snd p)) (combine defs' rbs')) in *.
    assert (Hne : fold_left (glue1 (decode (o_parasep o))) (e0 :: rest) [] <> []).
    { cbn [fold_left]. inversion Hess; subst. apply fold_glue_ne; [assumption|assumption]. }
    replace (0 <? zlen (fold_left (glue1 (decode (o_parasep o))) (e0 :: rest) [])) with true
      by (destruct (fold_left (glue1 (decode (o_parasep o))) (e0 :: rest) []); [congruence|unfold zlen; cbn [length]; lia]).
    unfold tb_join. cbn [b_lines b_sep b_trailing].
    destruct (fold_left (glue1 (decode (o_parasep o))) (e0 :: rest) []) eqn:Efold; [congruence|]. rewrite <- Efold.
    rewrite glued_text by exact Hess. reflexivity.
Qed.

End C15Q.
