(* C16, continued: the lines of a table in order - top border, the first row (as header row
   when headers are on), the rule after a header row, the other rows in input order, bottom border. *)
From Coq Require Import List Bool Arith ZArith Lia.
Import ListNotations.
From Rosed Require Import Base.Res Base.ListX Base.Str Gem.Segment Gem.GString Model.Util Model.Tb Model.Manip Model.Table.
Open Scope Z_scope.

Section C16S.
Context `{Classifier} `{Upper}.

Definition row_line (cs : charset) (ws : list Z) (hdr border : bool) (row : list gstr) : gstr :=
  (if border then cs_vert cs else []) ++ build_row cs row ws 0 hdr border.

Lemma build_rows_body cs ws header border multi (hbar nbbar : gstr) : forall data : list (list gstr),
  build_rows cs data ws false header border multi hbar nbbar = map (row_line cs ws false border) data.
Proof. induction data as [|row data IH]; [reflexivity|]. cbn [build_rows map andb app]. rewrite IH. reflexivity. Qed.

Theorem build_table_structure (r0 : list gstr) rest ws width sep (header border : bool) cs :
  let hbar : gstr := if border then cs_corner cs ++ horz_bar (cs_corner cs) (cs_horz cs) ws else [] in
  let rule := if header then (if border then (if 1 <? zlen (r0 :: rest) then [hbar] else []) else [grepeat (cs_horz cs) width]) else [] in
  b_lines (build_table (r0 :: rest) ws width sep header border cs) =
  (if border then [hbar] else []) ++ [row_line cs ws header border r0] ++ rule ++ map (row_line cs ws false border) rest ++ (if border then [hbar] else []).
Proof.
  cbv zeta. unfold build_table. cbn [b_lines build_rows andb]. rewrite build_rows_body. unfold row_line.
  destruct header, border; cbn [andb negb app]; rewrite <- ?app_assoc; reflexivity.
Qed.

(* a header cell is the upper-cased cell, centred between borders or left-aligned without *)
Theorem header_cell cs row w ws col border :
  build_row cs row (w :: ws) col true border =
  (let h := upper_str (cell_at row col) in if border then gadd (align_center h w) (cs_vert cs) else align_left h w)
  ++ build_row cs row ws (S col) true border.
Proof. reflexivity. Qed.

End C16S.
