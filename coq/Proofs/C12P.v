(* C12: the space-distribution loop of JustifyLine. *)
From Coq Require Import List Bool Arith ZArith Lia ZifyBool.
Import ListNotations.
From Rosed Require Import Base.Res Base.ListX Base.Str Gem.Segment Gem.GString Model.Tb Model.Manip.
Open Scope Z_scope.

Ltac Zify.zify_post_hook ::= Z.div_mod_to_equations.

Lemma znth_ok {A} (l : list A) i : 0 <= i < zlen l -> exists x, znth l i = Ok x /\ nth_error l (Z.to_nat i) = Some x.
Proof.
  intro Hi. unfold znth. replace (i <? 0) with false by lia.
  destruct (nth_error l (Z.to_nat i)) eqn:E; [eexists; split; reflexivity|].
  apply nth_error_None in E. unfold zlen in Hi. lia.
Qed.

Lemma zset_ok {A} (l : list A) i x : 0 <= i < zlen l -> zset l i x = Ok (set_nth l (Z.to_nat i) x).
Proof. intro Hi. unfold zset. replace ((i <? 0) || (zlen l <=? i)) with false by lia. reflexivity. Qed.

Lemma set_nth_length' {A} (l : list A) i x : length (set_nth l i x) = length l.
Proof. revert i; induction l as [|y l IH]; intro i; [destruct i; reflexivity|]. destruct i; cbn; [reflexivity|]. f_equal. apply IH. Qed.

(* replacing an entry w by w ++ [SP]: one more code point, and it is a space *)
Lemma concat_set_snoc (l : list (list Z)) i w : nth_error l i = Some w ->
  length (concat (set_nth l i (w ++ [SP]))) = S (length (concat l)) /\
  filter (fun r => negb (r =? SP)) (concat (set_nth l i (w ++ [SP]))) = filter (fun r => negb (r =? SP)) (concat l).
Proof.
  revert i; induction l as [|x l IH]; intros [|i] Hn; cbn in Hn; try discriminate.
  - injection Hn as ->. cbn [set_nth concat]. rewrite !app_length. cbn [length]. split; [lia|].
    rewrite !filter_app. cbn. rewrite app_nil_r. reflexivity.
  - destruct (IH i Hn) as [H1 H2]. cbn [set_nth concat]. rewrite !app_length, H1. split; [lia|].
    rewrite !filter_app, H2. reflexivity.
Qed.

Section C12.
Context `{Classifier}.

(* the loop's indexing is always in range, for every number of gaps and of spaces to add;
   the parity invariant is what makes the from-the-right index safe when the number of gaps is even *)
Theorem justify_loop_safe n : forall full g sI fR,
  zlen full = 2 * g + 1 -> 0 <= sI < g ->
  (g mod 2 = 0 -> fR = Z.odd sI) ->
  let oddSub := if g mod 2 =? 0 then 0 else 1 in
  exists full', justify_loop n full g oddSub sI fR = Ok full' /\ zlen full' = 2 * g + 1 /\
    length (concat full') = (length (concat full) + n)%nat /\
    filter (fun r => negb (r =? SP)) (concat full') = filter (fun r => negb (r =? SP)) (concat full).
Proof.
  induction n as [|n IH]; intros full g sI fR Hlen HsI Hpar oddSub.
  - exists full. cbn. repeat split; [exact Hlen|lia].
  - cbn [justify_loop]. fold oddSub.
    set (idx := if fR then (g - oddSub - sI) * 2 + 1 else sI * 2 + 1).
    assert (Hidx : 0 <= idx < zlen full).
    { unfold idx, oddSub. destruct fR.
      - destruct (g mod 2 =? 0) eqn:Eg.
        + assert (Hs : Z.odd sI = true) by (symmetry; apply Hpar; lia).
          rewrite Z.odd_spec in Hs. destruct Hs as [k Hk]. lia.
        + lia.
      - lia. }
    destruct (znth_ok full idx Hidx) as (w & Hw & Hnth). rewrite Hw. cbn [bind].
    rewrite zset_ok by exact Hidx. cbn [bind].
    set (sI' := if g <=? sI + 1 then 0 else sI + 1).
    destruct (IH (set_nth full (Z.to_nat idx) (gadd w [SP])) g sI' (negb fR)) as (full' & Hr & Hl' & Hc' & Hf').
    + unfold zlen in *. rewrite set_nth_length'. exact Hlen.
    + unfold sI'. destruct (g <=? sI + 1) eqn:E; lia.
    + intro Hg. specialize (Hpar Hg). unfold sI'. destruct (g <=? sI + 1) eqn:E.
      * assert (sI + 1 = g) by lia. subst fR. cbn.
        assert (Ho : Z.odd sI = true).
        { rewrite <- Z.negb_even. replace sI with (g - 1) by lia. rewrite Z.even_sub. 
          assert (Z.even g = true) by (apply Z.even_spec; exists (g / 2); lia). rewrite H1. reflexivity. }
        rewrite Ho. reflexivity.
      * subst fR. rewrite Z.odd_add. cbn. destruct (Z.odd sI); reflexivity.
    + exists full'. split; [exact Hr|]. split; [exact Hl'|].
      destruct (concat_set_snoc full (Z.to_nat idx) w Hnth) as [H1 H2].
      change (gadd w [SP]) with (w ++ [SP]) in Hc', Hf'.
      unfold gstr in *. split; [rewrite Hc'; rewrite H1; lia|rewrite Hf'; exact H2].
Qed.

(* JustifyLine never panics: the word list it builds has 2 * gaps + 1 entries *)
Lemma intersperse_length ws : ws <> [] -> zlen (intersperse_sp ws) = 2 * (zlen ws - 1) + 1.
Proof.
  induction ws as [|w ws IH]; [congruence|]. intros _. destruct ws as [|w2 ws'].
  - reflexivity.
  - change (intersperse_sp (w :: w2 :: ws')) with (w :: [SP] :: intersperse_sp (w2 :: ws')).
    unfold zlen in *. cbn [length]. specialize (IH ltac:(discriminate)). cbn [length] in IH. lia.
Qed.

Lemma concat_intersperse ws : concat (intersperse_sp ws) = join [SP] ws.
Proof.
  induction ws as [|w ws IH]; [reflexivity|]. destruct ws as [|w2 ws']; [cbn; apply app_nil_r|].
  change (intersperse_sp (w :: w2 :: ws')) with (w :: [SP] :: intersperse_sp (w2 :: ws')).
  cbn [concat]. rewrite IH. reflexivity.
Qed.

End C12.
