(* C18, continued: Wrap terminates within its fuel and never panics, for every text, width
   and separator - no assumption on the clusters. The word loop's measure: twice the number of
   clusters left in the current word, plus one if the current line is not empty. *)
From Coq Require Import List Bool Arith ZArith Lia ZifyBool.
Import ListNotations.
From Rosed Require Import Base.Cls Base.Res Base.ListX Base.Str Base.Utf8 Gem.Segment Gem.GString Model.Util Model.Tb Model.Manip Model.Table Model.Options Model.Editor Model.Ops
     Proofs.SeamP Proofs.SegmentP Proofs.C04P Proofs.C09P Proofs.C18P Proofs.C12R.
Open Scope Z_scope.

Section C18Q.
Context `{ClassifierOk} `{Upper}.

(* cutting the first k clusters off a word leaves exactly the others *)
Lemma glen_gsub_tail w k : 0 <= k <= glen w -> glen (gsub w k (glen w)) = glen w - k.
Proof.
  intro Hk. unfold gsub, glen in *. set (cl := clusters w) in *.
  assert (Hn : 0 <= zlen cl) by (unfold zlen; lia).
  assert (E : range_to_indexes (zlen cl) k (zlen cl) = (k, zlen cl)).
  { unfold range_to_indexes. replace (k <? 0) with false by lia. replace (zlen cl <? 0) with false by lia.
    replace (zlen cl <? zlen cl) with false by lia. replace (zlen cl <? k) with false by lia.
    replace (zlen cl <? k) with false by lia. reflexivity. }
  rewrite E. destruct (k =? zlen cl) eqn:Ek; [change (clusters []) with (@nil (list Z)); unfold zlen in *; cbn [length]; lia|].
  unfold zslice, slice. unfold cl. rewrite clusters_slice. fold cl. unfold zlen in *. rewrite firstn_length, skipn_length. lia.
Qed.

Definition aw_measure (w cl : gstr) : nat := (2 * Z.to_nat (glen w) + (if Z.eqb (glen cl) 0 then 0 else 1))%nat.

Lemma glen_nil' : glen [] = 0. Proof. reflexivity. Qed.

Lemma append_word_total fuel : forall lines w cl W, 2 <= W -> (aw_measure w cl < fuel)%nat ->
  exists r, append_word fuel lines w cl W = Ok r.
Proof.
  induction fuel as [|fuel IH]; intros lines w cl W HW Hm; [lia|]. cbn [append_word].
  assert (Hg0 : 0 <= glen w) by (unfold glen, zlen; lia).
  destruct (0 <? glen w) eqn:E0; [|eexists; reflexivity].
  destruct (glen cl + (glen w + (if glen cl =? 0 then 0 else 1)) =? W) eqn:E1.
  - apply IH; [exact HW|]. unfold aw_measure in *. rewrite glen_nil'. cbn. lia.
  - destruct (W <? glen cl + (glen w + (if glen cl =? 0 then 0 else 1))) eqn:E2.
    + destruct (glen cl =? 0) eqn:E3.
      * apply IH; [exact HW|]. unfold aw_measure in *. rewrite glen_nil'. rewrite E3 in Hm.
        rewrite glen_gsub_tail by lia. cbn [Z.eqb]. lia.
      * apply IH; [exact HW|]. unfold aw_measure in *. rewrite glen_nil'. rewrite E3 in Hm. cbn [Z.eqb]. lia.
    + apply IH; [exact HW|]. unfold aw_measure in *. rewrite glen_nil'.
      destruct (glen (gadd (if glen cl =? 0 then cl else gadd cl [SP]) w) =? 0); cbn; lia.
Qed.

Lemma glen_le_length w : glen w <= Z.of_nat (length w).
Proof. unfold glen, zlen. pose proof (clusters_length_le w). lia. Qed.

Lemma append_word_line_total lines w cl W : 2 <= W -> exists r, append_word_to_wrapped_line lines w cl W = Ok r.
Proof.
  intro HW. unfold append_word_to_wrapped_line. replace (W <? 2) with false by lia.
  apply append_word_total; [exact HW|]. unfold aw_measure. pose proof (glen_le_length w).
  assert (0 <= glen w) by (unfold glen, zlen; lia). destruct (glen cl =? 0); lia.
Qed.

Lemma wrap_loop_total W : 2 <= W -> forall cls lines w cl, exists r, wrap_loop cls lines w cl W = Ok r.
Proof.
  intro HW. induction cls as [|ch cls IH]; intros lines w cl; [eexists; reflexivity|]. cbn [wrap_loop].
  destruct (first_rune ch =? SP); [|apply IH].
  destruct (append_word_line_total lines w cl W HW) as [[l2 c2] E]. rewrite E. cbn [bind]. apply IH.
Qed.

(* Wrap returns normally for every text, width and separator *)
Theorem wrap_total text w sep : exists b, wrap text w sep = Ok b.
Proof.
  unfold wrap. destruct (collapse_space_total text sep) as [ct Hc]. rewrite Hc. cbn [bind].
  set (W := if w <? 2 then 2 else w). assert (HW : 2 <= W) by (unfold W; destruct (w <? 2) eqn:E; lia).
  destruct ct as [|x ct0]; [eexists; reflexivity|].
  destruct (wrap_loop_total W HW (clusters (x :: ct0)) [] [] []) as [[[l cw] c] E]. rewrite E. cbn [bind].
  destruct (gis_empty cw); cbn [bind]; [eexists; reflexivity|].
  destruct (append_word_line_total l cw c W HW) as [[l2 c2] E2]. rewrite E2. cbn [bind]. eexists; reflexivity.
Qed.

(* JustifyLine returns normally for every text and width: its index arithmetic stays in range *)
Theorem justify_line_total text w : exists j, justify_line text w = Ok j.
Proof.
  destruct (collapse_space_total text [10]) as [c Hc]. pose proof (justify_line_explicit text w c Hc) as E. cbv zeta in E.
  eexists. exact E.
Qed.

End C18Q.
