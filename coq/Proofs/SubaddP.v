(* Segmentation is subadditive: the concatenation of two texts never has more grapheme clusters
   than the two texts have together - for every classifier and all texts (no assumption on how
   the texts end or start). Joining can merge clusters across the seam (a base and a combining
   mark, two regional indicators, an emoji ZWJ sequence) and can shift the pairing of the
   regional indicators that follow, but it never creates more boundaries than it removes. The
   proof runs the streaming segmenter on the second text from two states - the one reached after
   the first text and the initial one - related by a simulation with a potential of at most one
   pending boundary; the step condition is a finite check over all pairs of states and classes. *)
From Coq Require Import List Bool Arith ZArith Lia.
Import ListNotations.
From Rosed Require Import Base.Cls Gem.Break Gem.Dfa Gem.Segment Gem.GString Base.ListX Proofs.SegmentP.

Definition b2n (b : bool) : nat := if b then 1 else 0.

(* the second run never sees less emoji context than the first *)
Definition sim (s1 s2 : st) : bool :=
  inv s1 && inv s2 &&
  match last s1, last s2 with Some x, Some y => x =c y | None, None => true | _, _ => false end &&
  implb (epx s2) (epx s1) && implb (zwjok s2) (zwjok s1).

(* one boundary the run in context still owes: its regional indicators pair up one later *)
Definition pot (s1 s2 : st) : nat := b2n (negb (riodd s1) && riodd s2).

Definition sub_step_check : bool :=
  forallb (fun s1 => forallb (fun s2 => forallb (fun c =>
    implb (sim s1 s2)
          (sim (dstep s1 c) (dstep s2 c) &&
           (b2n (dbrk s1 c) + pot (dstep s1 c) (dstep s2 c) <=? b2n (dbrk s2 c) + pot s1 s2)%nat)) all_cls) all_st) all_st.
Lemma sub_step_check_ok : sub_step_check = true. Proof. vm_compute. reflexivity. Qed.

Definition sub_start_check : bool :=
  forallb (fun s => forallb (fun c =>
    implb (inv s) (sim (dstep s c) (dstep st0 c) && (b2n (dbrk s c) + pot (dstep s c) (dstep st0 c) <=? 1)%nat)) all_cls) all_st.
Lemma sub_start_check_ok : sub_start_check = true. Proof. vm_compute. reflexivity. Qed.

Lemma sub_step s1 s2 c : sim s1 s2 = true ->
  sim (dstep s1 c) (dstep s2 c) = true /\ (b2n (dbrk s1 c) + pot (dstep s1 c) (dstep s2 c) <= b2n (dbrk s2 c) + pot s1 s2)%nat.
Proof.
  intro Hs. pose proof sub_step_check_ok as K. unfold sub_step_check in K.
  rewrite forallb_forall in K. specialize (K s1 (all_st_ok s1)). rewrite forallb_forall in K. specialize (K s2 (all_st_ok s2)).
  rewrite forallb_forall in K. specialize (K c (all_cls_ok c)). rewrite Hs in K. cbn [implb] in K.
  apply andb_true_iff in K as [K1 K2]. split; [exact K1|apply Nat.leb_le, K2].
Qed.

Lemma sub_start s c : inv s = true ->
  sim (dstep s c) (dstep st0 c) = true /\ (b2n (dbrk s c) + pot (dstep s c) (dstep st0 c) <= 1)%nat.
Proof.
  intro Hs. pose proof sub_start_check_ok as K. unfold sub_start_check in K.
  rewrite forallb_forall in K. specialize (K s (all_st_ok s)). rewrite forallb_forall in K. specialize (K c (all_cls_ok c)).
  rewrite Hs in K. cbn [implb] in K. apply andb_true_iff in K as [K1 K2]. split; [exact K1|apply Nat.leb_le, K2].
Qed.

Section Subadd.
Context `{Classifier}.

(* boundaries found before the code points of rs, starting in state s *)
Fixpoint nb (s : st) (rs : list Z) : nat :=
  match rs with
  | [] => O
  | r :: rs' => (b2n (dbrk s (class_of r)) + nb (dstep s (class_of r)) rs')%nat
  end.

Lemma dchunks_length s cur r nxt : length (dchunks s cur (r :: nxt)) = S (nb (dstep s (class_of r)) nxt).
Proof.
  revert s cur r. induction nxt as [|n nxt IH]; intros s cur r; [reflexivity|].
  rewrite dchunks_cons2. cbn [nb]. destruct (dbrk (dstep s (class_of r)) (class_of n)); cbn [b2n length]; rewrite IH; reflexivity.
Qed.

Lemma clusters_length rs : length (clusters rs) = nb st0 rs.
Proof. destruct rs as [|r nxt]; [reflexivity|]. unfold clusters. rewrite dchunks_length. reflexivity. Qed.

Lemma nb_app s a b : nb s (a ++ b) = (nb s a + nb (run s a) b)%nat.
Proof. revert s. induction a as [|r a IH]; intro s; [reflexivity|]. cbn [app nb run fold_left]. rewrite IH. unfold run. lia. Qed.

Lemma nb_sim rs : forall s1 s2, sim s1 s2 = true -> (nb s1 rs <= nb s2 rs + pot s1 s2)%nat.
Proof.
  induction rs as [|r rs IH]; intros s1 s2 Hs; [cbn; lia|]. cbn [nb].
  destruct (sub_step s1 s2 (class_of r) Hs) as [Hs' Hle]. specialize (IH _ _ Hs'). lia.
Qed.

Lemma nb_context s rs : inv s = true -> (nb s rs <= nb st0 rs)%nat.
Proof.
  intro Hs. destruct rs as [|r rs]; [cbn; lia|]. cbn [nb]. destruct (sub_start s (class_of r) Hs) as [Hsim Hle].
  pose proof (nb_sim rs _ _ Hsim). change (dbrk st0 (class_of r)) with true. cbn [b2n]. lia.
Qed.

(* the number of clusters is subadditive under concatenation *)
Theorem clusters_app_le a b : (length (clusters (a ++ b)) <= length (clusters a) + length (clusters b))%nat.
Proof.
  rewrite !clusters_length, nb_app. pose proof (nb_context (run st0 a) b (inv_run st0 a inv_st0)). lia.
Qed.

Theorem glen_app_le a b : (glen (a ++ b) <= glen a + glen b)%Z.
Proof. unfold glen, zlen. pose proof (clusters_app_le a b). lia. Qed.

(* appending never reduces the number of clusters: the boundaries inside the first text are decided
   by what precedes them, so they all remain; only its last cluster can grow *)
Theorem glen_app_ge_left a b : (glen a <= glen (a ++ b))%Z.
Proof. unfold glen, zlen. rewrite !clusters_length, nb_app. lia. Qed.

(* ... and more precisely: every cluster of the first text but its last one is a cluster of the
   concatenation, in the same place *)
Lemma dchunks_ne s cur r nxt : dchunks s cur (r :: nxt) <> [].
Proof.
  revert s cur r. induction nxt as [|n nxt IH]; intros s cur r; [rewrite dchunks_one; discriminate|].
  rewrite dchunks_cons2. destruct (dbrk (dstep s (class_of r)) (class_of n)); [discriminate|apply IH].
Qed.

Lemma removelast_cons {A} (x : A) l : l <> [] -> removelast (x :: l) = x :: removelast l.
Proof. destruct l; [congruence|reflexivity]. Qed.

Lemma dchunks_prefix b : forall a s cur, a <> [] -> exists X, dchunks s cur (a ++ b) = removelast (dchunks s cur a) ++ X.
Proof.
  induction a as [|r a IH]; intros s cur Hne; [congruence|]. destruct a as [|n a'].
  - rewrite dchunks_one. cbn [removelast app]. eexists. reflexivity.
  - cbn [app]. rewrite !dchunks_cons2.
    destruct (dbrk (dstep s (class_of r)) (class_of n)).
    + destruct (IH (dstep s (class_of r)) [] ltac:(discriminate)) as [X HX]. cbn [app] in HX. rewrite HX.
      rewrite removelast_cons by apply dchunks_ne. eexists. reflexivity.
    + destruct (IH (dstep s (class_of r)) (r :: cur) ltac:(discriminate)) as [X HX]. cbn [app] in HX. exists X. exact HX.
Qed.

Theorem clusters_app_prefix a b : a <> [] -> exists X, clusters (a ++ b) = removelast (clusters a) ++ X.
Proof. intro Hne. exact (dchunks_prefix b a st0 [] Hne). Qed.

End Subadd.
