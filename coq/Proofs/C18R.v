(* C18, continued: the plumbing around the text functions - line-wise application, paragraph
   mode, blocks - returns normally whenever the function applied does; with Wrap and JustifyLine
   total (C18Q) this gives Wrap, Justify, Align and Indent through the Editor for every text,
   width and option combination (Justify without JustifyLastLine outside paragraph mode, which
   goes through a sub-editor, and Indent in paragraph mode are left to the correspondence). *)
From Coq Require Import List Bool Arith ZArith Lia ZifyBool.
Import ListNotations.
From Rosed Require Import Base.Cls Base.Res Base.ListX Base.Str Base.Utf8 Gem.Segment Gem.GString Model.Util Model.Tb Model.Manip Model.Table
     Model.Options Model.Editor Model.Ops Proofs.SeamP Proofs.SegmentP Proofs.C12P Proofs.C11P Proofs.C18P Proofs.C18Q.
Open Scope Z_scope.

Lemma set_nth_length {A} (l : list A) i x : length (set_nth l i x) = length l.
Proof. revert i; induction l as [|y l IH]; intro i; [reflexivity|]. destruct i; cbn; [reflexivity|]. f_equal. apply IH. Qed.

Section C18R.
Context `{ClassifierOk} `{Upper}.

Definition total_line_op (op : line_op) : Prop := forall k l, exists r, op k l = Ok r.
Definition total_para_op (op : gpara_op) : Prop := forall k p pre suf, exists r, op k p pre suf = Ok r.

Lemma apply_each_total_res op lines : total_line_op op -> forall i, exists r, apply_each op i lines = Ok r.
Proof.
  intro Hop. induction lines as [|l ls IH]; intro i; [eexists; reflexivity|]. cbn [apply_each].
  destruct (Hop i l) as [r Hr]. rewrite Hr. cbn [bind]. destruct (IH (i + 1)) as [r2 Hr2]. rewrite Hr2. cbn [bind]. eexists; reflexivity.
Qed.

Lemma apply_opts_total op opts e : total_line_op op -> exists r, apply_opts op opts e = Ok r.
Proof.
  intro Hop. unfold apply_opts.
  destruct (apply_each_total_res op (lines_sep (with_options e (with_defaults opts)) (o_linesep (with_defaults opts))) Hop 0) as [r Hr].
  rewrite Hr. cbn [bind]. eexists; reflexivity.
Qed.

Lemma run_paras_total op : total_para_op op -> forall rs idx np psf, exists r, run_paras op idx rs np psf = Ok r.
Proof.
  intro Hop. induction rs as [|r rest IH]; intros idx np psf; [eexists; reflexivity|]. cbn [run_paras].
  destruct (Hop idx (decode r) (if idx =? 0 then [] else np) (match rest with [] => [] | _ => psf end)) as [x Hx]. rewrite Hx. cbn [bind].
  destruct (IH (idx + 1) np psf) as [m Hm]. rewrite Hm. cbn [bind]. eexists; reflexivity.
Qed.

Lemma apply_gparagraphs_total op opts e : total_para_op op -> exists r, apply_gparagraphs op opts e = Ok r.
Proof.
  intro Hop. rewrite apply_gparagraphs_spec. cbv zeta.
  match goal with |- context [run_paras op 0 ?rs ?np ?psf] => destruct (run_paras_total op Hop rs 0 np psf) as [t Ht]; rewrite Ht end.
  cbn [bind]. eexists; reflexivity.
Qed.

Lemma apply_lines_total f : (forall k l, exists r, f k l = Ok r) -> forall ls i, exists r, apply_lines f i ls = Ok r.
Proof.
  intro Hf. induction ls as [|l ls IH]; intro i; [eexists; reflexivity|]. cbn [apply_lines].
  destruct (Hf i l) as [r Hr]. rewrite Hr. cbn [bind]. destruct (IH (i + 1)) as [r2 Hr2]. rewrite Hr2. cbn [bind]. eexists; reflexivity.
Qed.

Lemma tb_apply_total f b : (forall k l, exists r, f k l = Ok r) -> exists r, tb_apply f b = Ok r.
Proof. intro Hf. unfold tb_apply. destruct (apply_lines_total f Hf (b_lines b) 0) as [r Hr]. rewrite Hr. cbn [bind]. eexists; reflexivity. Qed.

(* Wrap through the Editor, in either mode *)
Theorem wrap_opts_total width opts e : exists r, wrap_opts width opts e = Ok r.
Proof.
  unfold wrap_opts. destruct (o_preserve (with_defaults opts)).
  - apply apply_gparagraphs_total. intros k p pre suf.
    match goal with |- context [wrap ?t ?w ?s] => destruct (wrap_total t w s) as [b Hb]; rewrite Hb end. cbn [bind]. eexists; reflexivity.
  - match goal with |- context [wrap ?t ?w ?s] => destruct (wrap_total t w s) as [b Hb]; rewrite Hb end. cbn [bind]. eexists; reflexivity.
Qed.

(* Justify through the Editor: paragraph mode, or every line justified *)
Theorem justify_opts_total width opts e : o_preserve (with_defaults opts) = true \/ o_justlast (with_defaults opts) = true ->
  exists r, justify_opts width opts e = Ok r.
Proof.
  intro Hmode. unfold justify_opts. destruct (o_preserve (with_defaults opts)) eqn:Ep.
  - apply apply_gparagraphs_total. intros k p pre suf. cbv zeta.
    match goal with |- context [tb_apply ?f ?b] => destruct (tb_apply_total f b) as [b2 Hb2] end.
    { intros i l. destruct (negb (o_justlast (with_defaults opts)) && _); [eexists; reflexivity|].
      destruct (justify_line_total l width) as [j Hj]. rewrite Hj. cbn [bind]. eexists; reflexivity. }
    rewrite Hb2. cbn [bind]. eexists; reflexivity.
  - destruct Hmode as [Hx|Hj]; [discriminate|]. rewrite Hj. apply apply_opts_total. intros k l.
    destruct (justify_line_total (decode l) width) as [j Hj']. rewrite Hj'. cbn [bind]. eexists; reflexivity.
Qed.

(* Indent outside paragraph mode *)
Theorem indent_opts_total level opts e : o_preserve (with_defaults opts) = false -> exists r, indent_opts level opts e = Ok r.
Proof.
  intro Hp. unfold indent_opts. destruct (level <? 1) eqn:El; [eexists; reflexivity|].
  unfold repeat_str. replace (level <? 0) with false by lia. cbn [bind]. rewrite Hp.
  apply apply_opts_total. intros k l. eexists; reflexivity.
Qed.

(* ---- Align in paragraph mode: the block indexing stays in range ---- *)
Lemma tb_line_ok b i : 0 <= i < tb_len b -> exists x, tb_line b i = Ok x.
Proof. intro Hi. unfold tb_line. destruct (znth_ok (b_lines b) i Hi) as (x & Hx & _). exists x. exact Hx. Qed.

Lemma tb_set_ok b i v : 0 <= i < tb_len b -> exists b', tb_set b i v = Ok b' /\ tb_len b' = tb_len b.
Proof.
  intro Hi. unfold tb_set. rewrite zset_ok by exact Hi. cbn [bind]. eexists. split; [reflexivity|].
  unfold tb_len, zlen. cbn [b_lines]. rewrite set_nth_length. reflexivity.
Qed.

Lemma apply_lines_one (g : gstr -> gstr) ls : forall i, apply_lines (fun _ l => Ok [g l]) i ls = Ok (map g ls).
Proof. induction ls as [|l ls IH]; intro i; [reflexivity|]. cbn [apply_lines bind]. rewrite IH. reflexivity. Qed.

Lemma tb_apply_one (g : gstr -> gstr) b : exists b', tb_apply (fun _ l => Ok [g l]) b = Ok b' /\ tb_len b' = tb_len b.
Proof.
  unfold tb_apply. rewrite apply_lines_one. cbn [bind]. eexists. split; [reflexivity|].
  unfold tb_len, tb_with_lines, zlen. cbn [b_lines]. rewrite map_length. reflexivity.
Qed.

Ltac tb_step :=
  match goal with
  | |- context [tb_line ?b ?i] =>
      let x := fresh "x" in let Hx := fresh "Hx" in
      destruct (tb_line_ok b i ltac:(lia)) as [x Hx]; rewrite Hx; cbn [bind]
  | |- context [tb_set ?b ?i ?v] =>
      let b' := fresh "b" in let Hb := fresh "Hb" in let Hl := fresh "Hl" in
      destruct (tb_set_ok b i v ltac:(lia)) as (b' & Hb & Hl); rewrite Hb; cbn [bind]
  end.

Ltac tb_app a w :=
  match goal with
  | |- context [tb_apply ?f ?b] =>
      let b' := fresh "b" in let Hb := fresh "Hb" in let Hl := fresh "Hl" in
      destruct (tb_apply_one (fun l => align_line a l w) b) as (b' & Hb & Hl); rewrite Hb; cbn [bind]
  end.

Theorem align_para_total align width lineSep : total_para_op (align_para align width lineSep).
Proof.
  intros idx para pre suf. unfold align_para. cbv zeta.
  destruct (align =? A_Left); [|destruct (align =? A_Right)].
  - set (bl := tb_new (gadd para (spaces (glen suf))) lineSep). destruct (tb_len bl =? 0) eqn:E0; [eexists; reflexivity|].
    assert (Hn : 0 < tb_len bl) by (unfold tb_len, zlen in *; lia).
    tb_step. tb_step. tb_app align width.
    destruct (0 <? glen (spaces (glen pre))).
    + tb_step. tb_step. destruct (0 <? glen (spaces (glen suf))); cbn [bind]; [tb_step; tb_step|]; eexists; reflexivity.
    + cbn [bind]. destruct (0 <? glen (spaces (glen suf))); cbn [bind]; [tb_step; tb_step|]; eexists; reflexivity.
  - set (bl := tb_new (gadd (spaces (glen pre)) para) lineSep). destruct (tb_len bl =? 0) eqn:E0; [eexists; reflexivity|].
    assert (Hn : 0 < tb_len bl) by (unfold tb_len, zlen in *; lia).
    tb_step. tb_step. tb_app align width.
    destruct (0 <? glen (spaces (glen pre))).
    + tb_step. tb_step. destruct (0 <? glen (spaces (glen suf))); cbn [bind]; [tb_step; tb_step|]; eexists; reflexivity.
    + cbn [bind]. destruct (0 <? glen (spaces (glen suf))); cbn [bind]; [tb_step; tb_step|]; eexists; reflexivity.
  - set (bl := tb_new para lineSep). destruct (tb_len bl =? 0) eqn:E0; [eexists; reflexivity|].
    assert (Hn : 0 < tb_len bl) by (unfold tb_len, zlen in *; lia).
    tb_app align width.
    destruct (0 <? glen (spaces (glen pre))).
    + tb_step. tb_step. destruct (0 <? glen (spaces (glen suf))); cbn [bind]; [tb_step; tb_step|]; eexists; reflexivity.
    + cbn [bind]. destruct (0 <? glen (spaces (glen suf))); cbn [bind]; [tb_step; tb_step|]; eexists; reflexivity.
Qed.

(* Align through the Editor, in either mode, for every alignment value *)
Theorem align_opts_total_all align width opts e : exists r, align_opts align width opts e = Ok r.
Proof.
  unfold align_opts. destruct (_ || _); [eexists; reflexivity|]. cbv zeta.
  destruct (o_preserve (with_defaults opts)); [apply apply_gparagraphs_total, align_para_total|].
  apply apply_opts_total. intros k l. eexists; reflexivity.
Qed.

End C18R.
