(* C03, continued: Delete and Overtype on a text and on its cluster-for-cluster image. *)
From Coq Require Import List Bool Arith ZArith Lia.
Import ListNotations.
From Rosed Require Import Base.Res Base.ListX Base.Utf8 Gem.Segment Gem.GString Model.Util Model.Manip Model.Table Model.Options Model.Editor Model.Ops
     Check.Common Proofs.SegmentP Proofs.SeamP Proofs.Utf8P Proofs.C04P Proofs.C09P Proofs.C13P Proofs.C03P.
Open Scope Z_scope.

Section C03X.
Context `{Classifier} `{Upper}.

(* Delete: the same cluster positions are removed from the text and from its image *)
Theorem delete_image rho rs rs' o ref s e : scalars rs -> scalars rs' -> image rho rs rs' ->
  let cl := clusters rs in let '(s', e') := norm (zlen cl) s e in
  delete s e (Ed (encode rs) o ref) =
    Ok (Ed (encode (concat (firstn (Z.to_nat s') cl)) ++ encode (concat (skipn (Z.to_nat e') cl))) o ref) /\
  delete s e (Ed (encode rs') o ref) =
    Ok (Ed (encode (concat (map rho (firstn (Z.to_nat s') cl))) ++ encode (concat (map rho (skipn (Z.to_nat e') cl)))) o ref).
Proof.
  intros Hs Hs' Hi. cbv zeta.
  pose proof (delete_spec rs o ref s e Hs) as H1. pose proof (delete_spec rs' o ref s e Hs') as H2. cbv zeta in H1, H2.
  rewrite (image_len rho rs rs' Hi) in H2. destruct (norm (zlen (clusters rs)) s e) as [s' e'].
  split; [exact H1|]. rewrite H2, Hi, C17Q_map_firstn, C17Q_map_skipn. reflexivity.
Qed.

(* Overtype: the overwritten span is the same number of clusters at the same position *)
Theorem overtype_image rho rs rs' o ref p x : scalars rs -> scalars rs' -> image rho rs rs' ->
  let cl := clusters rs in let n := zlen cl in let p' := norm1 n p in
  let stop := Z.min (p' + glen (decode x)) n in
  overtype p x (Ed (encode rs) o ref) =
    Ok (Ed (encode (concat (firstn (Z.to_nat p') cl)) ++ encode (decode x) ++ encode (concat (skipn (Z.to_nat stop) cl))) o ref) /\
  overtype p x (Ed (encode rs') o ref) =
    Ok (Ed (encode (concat (map rho (firstn (Z.to_nat p') cl))) ++ encode (decode x) ++ encode (concat (map rho (skipn (Z.to_nat stop) cl)))) o ref).
Proof.
  intros Hs Hs' Hi. cbv zeta. split; [exact (overtype_spec rs o ref p x Hs)|].
  pose proof (overtype_spec rs' o ref p x Hs') as H2. cbv zeta in H2.
  rewrite (image_len rho rs rs' Hi), Hi in H2. rewrite H2, C17Q_map_firstn, C17Q_map_skipn. reflexivity.
Qed.

End C03X.
