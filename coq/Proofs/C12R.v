(* C12, continued: the structure of the justified line - words interleaved with runs of
   spaces - and its exact width in clusters. *)
From Coq Require Import List Bool Arith ZArith Lia ZifyBool.
Import ListNotations.
From Rosed Require Import Base.Cls Base.Res Base.ListX Base.Str Gem.Segment Gem.GString Model.Tb Model.Manip Model.Table
     Proofs.SegmentP Proofs.SeamP Proofs.StrP Proofs.C13P Proofs.C06Q Proofs.C12P Proofs.C18P.
Open Scope Z_scope.

Ltac Zify.zify_post_hook ::= Z.div_mod_to_equations.

(* w0, SP^k0, w1, SP^k1, ..., wg *)
Fixpoint interleave (ws : list gstr) (gs : list nat) : list gstr :=
  match ws, gs with
  | w :: ws', k :: gs' => w :: repeat SP k :: interleave ws' gs'
  | w :: _, [] => [w]
  | [], _ => []
  end.

Fixpoint inc_nth (gs : list nat) (j : nat) : list nat :=
  match gs, j with
  | [], _ => []
  | k :: gs', O => S k :: gs'
  | k :: gs', S j' => k :: inc_nth gs' j'
  end.

Lemma inc_nth_length gs j : length (inc_nth gs j) = length gs.
Proof. revert j; induction gs as [|k gs IH]; intro j; [reflexivity|]. destruct j; cbn; [reflexivity|]. f_equal. apply IH. Qed.

Lemma inc_nth_sum gs j : (j < length gs)%nat -> list_sum (inc_nth gs j) = S (list_sum gs).
Proof.
  revert j; induction gs as [|k gs IH]; intros j Hj; [cbn in Hj; lia|]. destruct j; cbn [inc_nth].
  - change (list_sum (S k :: gs)) with (S k + list_sum gs)%nat. change (list_sum (k :: gs)) with (k + list_sum gs)%nat. lia.
  - change (list_sum (k :: inc_nth gs j)) with (k + list_sum (inc_nth gs j))%nat. change (list_sum (k :: gs)) with (k + list_sum gs)%nat.
    rewrite IH by (cbn in Hj; lia). lia.
Qed.

Definition le_all (a b : list nat) := Forall2 (fun x y => (x <= y)%nat) a b.

Lemma le_all_refl a : le_all a a.
Proof. induction a; constructor; [lia|assumption]. Qed.

Lemma le_all_trans a b c : le_all a b -> le_all b c -> le_all a c.
Proof.
  intro Hab; revert c; induction Hab as [|x y a b Hxy Hab IH]; intros c Hbc; inversion Hbc; subst; constructor; [lia|].
  apply IH; assumption.
Qed.

Lemma inc_nth_le gs j : le_all gs (inc_nth gs j).
Proof.
  revert j; induction gs as [|k gs IH]; intro j; [constructor|]. destruct j; cbn [inc_nth]; constructor; try lia.
  - apply le_all_refl.
  - apply IH.
Qed.

Lemma interleave_length ws gs : length ws = S (length gs) -> length (interleave ws gs) = (2 * length gs + 1)%nat.
Proof.
  revert gs; induction ws as [|w ws IH]; intros gs Hl; [discriminate|]. destruct gs as [|k gs]; [reflexivity|].
  cbn [interleave length]. rewrite IH by (cbn in Hl; lia). lia.
Qed.

Lemma interleave_nth_gap ws gs j : length ws = S (length gs) -> (j < length gs)%nat ->
  nth_error (interleave ws gs) (2 * j + 1) = Some (repeat SP (nth j gs O)).
Proof.
  revert gs j; induction ws as [|w ws IH]; intros gs j Hl Hj; [discriminate|]. destruct gs as [|k gs]; [cbn in Hj; lia|].
  destruct j as [|j]; [reflexivity|].
  replace (2 * S j + 1)%nat with (S (S (2 * j + 1))) by lia. cbn [interleave nth_error nth].
  apply IH; cbn in *; lia.
Qed.

Lemma interleave_set_gap ws gs j : length ws = S (length gs) -> (j < length gs)%nat ->
  set_nth (interleave ws gs) (2 * j + 1) (repeat SP (nth j gs O) ++ [SP]) = interleave ws (inc_nth gs j).
Proof.
  revert gs j; induction ws as [|w ws IH]; intros gs j Hl Hj; [discriminate|]. destruct gs as [|k gs]; [cbn in Hj; lia|].
  destruct j as [|j].
  - cbn [interleave set_nth inc_nth nth Nat.mul Nat.add]. f_equal. f_equal. rewrite <- repeat_cons. reflexivity.
  - replace (2 * S j + 1)%nat with (S (S (2 * j + 1))) by lia. cbn [interleave set_nth inc_nth nth].
    f_equal. f_equal. apply IH; cbn in *; lia.
Qed.

(* the gaps as a pure function of the number of added spaces *)
Definition gap_index (g sI : Z) (fR : bool) : nat :=
  Z.to_nat (if fR then g - (if g mod 2 =? 0 then 0 else 1) - sI else sI).

Fixpoint gaps_after (n : nat) (g : Z) (gs : list nat) (sI : Z) (fR : bool) : list nat :=
  match n with
  | O => gs
  | S n' => gaps_after n' g (inc_nth gs (gap_index g sI fR)) (if g <=? sI + 1 then 0 else sI + 1) (negb fR)
  end.

Definition odd_b (x : Z) : bool := x mod 2 =? 1.

(* which gaps the current pass over the line has already widened *)
Definition hit (g sI : Z) (ph : bool) (j : Z) : bool :=
  if g mod 2 =? 0 then (negb (odd_b j) && (j <? sI)) || (odd_b j && (g - j <? sI))
  else if ph then (negb (odd_b j) && (j <? sI)) || (odd_b j && (g - 1 - j <? sI))
  else (negb (odd_b j) && (g - 1 - j <? sI)) || (odd_b j && (j <? sI)).

Definition balanced (g : Z) (gs : list nat) (sI : Z) (fR : bool) : Prop :=
  Z.of_nat (length gs) = g /\ 0 <= sI < g /\
  exists (q : nat) (ph : bool),
    fR = (if (g mod 2 =? 0) || ph then odd_b sI else negb (odd_b sI)) /\
    forall j, (j < length gs)%nat -> nth j gs O = (q + if hit g sI ph (Z.of_nat j) then 1 else 0)%nat.

Lemma inc_nth_nth gs j0 j : (j0 < length gs)%nat -> nth j (inc_nth gs j0) O = (nth j gs O + if Nat.eqb j j0 then 1 else 0)%nat.
Proof.
  revert j0 j; induction gs as [|k gs IH]; intros j0 j Hj0; [cbn in Hj0; lia|].
  destruct j0 as [|j0]; destruct j as [|j]; cbn [inc_nth nth Nat.eqb]; try lia.
  apply IH. cbn in Hj0. lia.
Qed.

Lemma balanced_step g gs sI fR : balanced g gs sI fR ->
  balanced g (inc_nth gs (gap_index g sI fR)) (if g <=? sI + 1 then 0 else sI + 1) (negb fR).
Proof.
  intros (Hl & HsI & q & ph & HfR & Hn). unfold balanced. rewrite inc_nth_length. split; [exact Hl|]. split; [destruct (g <=? sI + 1) eqn:E; lia|].
  assert (Hj0 : (gap_index g sI fR < length gs)%nat).
  { unfold gap_index, odd_b in *. destruct fR; destruct (g mod 2 =? 0) eqn:Eg; cbn [orb] in HfR; cbv iota; try lia; destruct ph; lia. }
  destruct (g <=? sI + 1) eqn:Ew.
  - (* the pass is complete: every gap has been widened once more *)
    exists (S q), (if g mod 2 =? 0 then ph else negb ph). split.
    + unfold odd_b in *. destruct (g mod 2 =? 0) eqn:Eg; destruct ph, fR; cbn [orb negb] in *; cbv iota in *; first [reflexivity|lia].
    + intros j Hj. rewrite inc_nth_nth by exact Hj0. rewrite (Hn j Hj).
      unfold hit, gap_index, odd_b in *.
      destruct (Nat.eqb j _) eqn:Ej; [apply Nat.eqb_eq in Ej|apply Nat.eqb_neq in Ej];
      destruct (g mod 2 =? 0) eqn:Eg; cbn [orb] in *; destruct ph, fR; cbn [negb] in *; cbv iota in *;
      repeat match goal with |- context [if ?b then _ else _] => let E := fresh "E" in destruct b eqn:E end; lia.
  - exists q, ph. split.
    + unfold odd_b in *. destruct ((g mod 2 =? 0) || ph); rewrite HfR; clear; destruct (sI mod 2 =? 1) eqn:E1; destruct ((sI + 1) mod 2 =? 1) eqn:E2; cbn [negb]; try reflexivity; lia.
    + intros j Hj. rewrite inc_nth_nth by exact Hj0. rewrite (Hn j Hj).
      unfold hit, gap_index, odd_b in *.
      destruct (Nat.eqb j _) eqn:Ej; [apply Nat.eqb_eq in Ej|apply Nat.eqb_neq in Ej];
      destruct (g mod 2 =? 0) eqn:Eg; cbn [orb] in *; destruct ph, fR; cbn [negb] in *; cbv iota in *;
      repeat match goal with |- context [if ?b then _ else _] => let E := fresh "E" in destruct b eqn:E end; lia.
Qed.

Lemma balanced_after n : forall g gs sI fR, balanced g gs sI fR ->
  exists sI' fR', balanced g (gaps_after n g gs sI fR) sI' fR'.
Proof.
  induction n as [|n IH]; intros g gs sI fR Hb; [exists sI, fR; exact Hb|]. cbn [gaps_after]. apply IH, balanced_step, Hb.
Qed.

Lemma balanced_even g gs sI fR : balanced g gs sI fR ->
  forall i j, (i < length gs)%nat -> (j < length gs)%nat -> (nth i gs O <= nth j gs O + 1)%nat.
Proof.
  intros (_ & _ & q & ph & _ & Hn) i j Hi Hj. rewrite (Hn i Hi), (Hn j Hj).
  destruct (hit _ _ _ _), (hit _ _ _ _); lia.
Qed.

Lemma nth_repeat_in {A} (a d : A) k : forall j, (j < k)%nat -> nth j (repeat a k) d = a.
Proof. induction k as [|k IH]; intros j Hj; [lia|]. destruct j; [reflexivity|]. cbn. apply IH. lia. Qed.

Lemma balanced_start k : (1 <= k)%nat -> balanced (Z.of_nat k) (repeat 1%nat k) 0 false.
Proof.
  intro Hk. unfold balanced. rewrite repeat_length. split; [reflexivity|]. split; [lia|]. exists 1%nat, true. split.
  - rewrite orb_true_r. reflexivity.
  - intros j Hj. rewrite nth_repeat_in by exact Hj. unfold hit, odd_b. destruct (Z.of_nat k mod 2 =? 0) eqn:Eg; cbv iota;
    repeat match goal with |- context [if ?b then _ else _] => let E := fresh "E" in destruct b eqn:E end; lia.
Qed.

Section C12R.
Context `{ClassifierOk} `{Upper}.

(* the loop keeps the words and only lengthens gaps, one space per iteration *)
Theorem justify_loop_structure n : forall ws gs sI fR,
  let g := Z.of_nat (length gs) in
  length ws = S (length gs) -> 0 <= sI < g -> (g mod 2 = 0 -> fR = Z.odd sI) ->
  let oddSub := if g mod 2 =? 0 then 0 else 1 in
  exists gs', justify_loop n (interleave ws gs) g oddSub sI fR = Ok (interleave ws gs') /\
              length gs' = length gs /\ list_sum gs' = (list_sum gs + n)%nat /\
              le_all gs gs' /\ gs' = gaps_after n g gs sI fR.
Proof.
  induction n as [|n IH]; intros ws gs sI fR g Hl HsI Hpar oddSub.
  - exists gs. cbn. repeat split; [lia|]. apply le_all_refl.
  - cbn [justify_loop]. fold oddSub.
    set (idx := if fR then (g - oddSub - sI) * 2 + 1 else sI * 2 + 1).
    assert (Hj : exists j, idx = Z.of_nat (2 * j + 1) /\ (j < length gs)%nat).
    { unfold idx, oddSub, g in *. destruct fR.
      - destruct (Z.of_nat (length gs) mod 2 =? 0) eqn:Eg.
        + assert (Hs : Z.odd sI = true) by (symmetry; apply Hpar; lia).
          rewrite Z.odd_spec in Hs. destruct Hs as [k Hk].
          exists (Z.to_nat (Z.of_nat (length gs) - 0 - sI)). lia.
        + exists (Z.to_nat (Z.of_nat (length gs) - 1 - sI)). lia.
      - exists (Z.to_nat sI). lia. }
    destruct Hj as (j & Hidx & Hjl).
    assert (Hlen : zlen (interleave ws gs) = 2 * g + 1) by (unfold zlen, g; rewrite interleave_length by exact Hl; lia).
    unfold znth. replace (idx <? 0) with false by lia. rewrite Hidx, Nat2Z.id, interleave_nth_gap by assumption. cbn [bind].
    rewrite zset_ok by (rewrite Hlen; lia). cbn [bind]. rewrite Nat2Z.id. unfold gadd. rewrite interleave_set_gap by assumption.
    set (sI' := if g <=? sI + 1 then 0 else sI + 1).
    destruct (IH ws (inc_nth gs j) sI' (negb fR)) as (gs' & Hr & Hl' & Hsum & Hmono & Hga).
    + rewrite inc_nth_length. exact Hl.
    + rewrite inc_nth_length. fold g. unfold sI'. destruct (g <=? sI + 1) eqn:E; lia.
    + rewrite inc_nth_length. fold g. intro Hg. specialize (Hpar Hg). unfold sI'. destruct (g <=? sI + 1) eqn:E.
      * assert (sI + 1 = g) by lia. subst fR. cbn.
        assert (Ho : Z.odd sI = true).
        { rewrite <- Z.negb_even. replace sI with (g - 1) by lia. rewrite Z.even_sub.
          assert (Z.even g = true) by (apply Z.even_spec; exists (g / 2); lia). rewrite H3. reflexivity. }
        rewrite Ho. reflexivity.
      * subst fR. rewrite Z.odd_add. cbn. destruct (Z.odd sI); reflexivity.
    + rewrite inc_nth_length in Hr. fold g oddSub in Hr. exists gs'. split; [exact Hr|].
      rewrite inc_nth_length in Hl'. split; [exact Hl'|]. split; [rewrite Hsum, inc_nth_sum by exact Hjl; lia|].
      split; [eapply le_all_trans; [apply inc_nth_le|exact Hmono]|].
      rewrite Hga, inc_nth_length. fold g. cbn [gaps_after]. f_equal. f_equal.
      unfold gap_index. fold oddSub. unfold idx in Hidx. destruct fR; lia.
Qed.

(* the justified line seen as clusters: the words' clusters and one cluster per added space *)
Definition word_ok (w : gstr) : Prop := starts_ok w /\ ends_ok w.

Lemma interleave_clusters ws : forall gs, length ws = S (length gs) -> Forall word_ok ws -> Forall (fun k => (1 <= k)%nat) gs ->
  starts_ok (concat (interleave ws gs)) /\
  glen (concat (interleave ws gs)) = fold_right (fun w a => glen w + a) 0 ws + Z.of_nat (list_sum gs).
Proof.
  induction ws as [|w ws IH]; intros gs Hl Hw Hg; [discriminate|].
  inversion Hw as [|? ? [Hws Hwe] Hw']; subst. destruct gs as [|k gs].
  - destruct ws; [|discriminate]. cbn. rewrite app_nil_r. split; [exact Hws|lia].
  - inversion Hg as [|? ? Hk Hg']; subst. cbn [interleave concat].
    destruct (IH gs ltac:(cbn in Hl; lia) Hw' Hg') as [HRs HRl]. set (R := concat (interleave ws gs)) in *.
    split.
    + destruct w as [|x w']; [|exact Hws]. destruct k; [lia|]. cbn. pose proof sp_plain as Hp. unfold plain in Hp. rewrite Hp.
      repeat split; discriminate.
    + unfold glen in *. destruct k as [|k]; [lia|].
      rewrite clusters_app by (cbn [repeat app]; apply seam_before_plain; [exact Hwe|apply sp_plain]).
      rewrite clusters_repeat_app by (apply sp_plain || exact HRs).
      rewrite !zlen_app, zlen_repeat. cbn [fold_right].
      change (list_sum (S k :: gs)) with (S k + list_sum gs)%nat. lia.
Qed.

Lemma intersperse_interleave ws : ws <> [] -> intersperse_sp ws = interleave ws (repeat 1%nat (length ws - 1)).
Proof.
  induction ws as [|w ws IH]; intro Hne; [congruence|]. destruct ws as [|w2 ws]; [reflexivity|].
  change (intersperse_sp (w :: w2 :: ws)) with (w :: [SP] :: intersperse_sp (w2 :: ws)). rewrite IH by discriminate.
  replace (length (w :: w2 :: ws) - 1)%nat with (S (length (w2 :: ws) - 1)) by (cbn [length]; lia). reflexivity.
Qed.

Lemma list_sum_repeat_one n : list_sum (repeat 1%nat n) = n.
Proof. induction n; [reflexivity|]. cbn [repeat]. change (list_sum (1%nat :: repeat 1%nat n)) with (1 + list_sum (repeat 1%nat n))%nat. lia. Qed.

Lemma le_all_ones n gs : le_all (repeat 1%nat n) gs -> Forall (fun k => (1 <= k)%nat) gs.
Proof. revert gs; induction n; intros gs Hl; inversion Hl; subst; constructor; [assumption|]. apply IHn. assumption. Qed.

(* C12, the width clause: a line that still holds a space after collapsing and is shorter than w
   comes out exactly w clusters wide, when each of its words starts and ends so that the spaces
   around it stay clusters of their own *)
Theorem justify_line_width text w c r :
  collapse_space text [10] = Ok c -> glen c < w -> 1 <= zlen (split c [SP]) - 1 ->
  Forall word_ok (split c [SP]) -> justify_line text w = Ok r ->
  glen r = w /\
  exists gs, r = concat (interleave (split c [SP]) gs) /\ length gs = (length (split c [SP]) - 1)%nat /\
             Forall (fun k => (1 <= k)%nat) gs /\
             (forall i j, (i < length gs)%nat -> (j < length gs)%nat -> (nth i gs O <= nth j gs O + 1)%nat).
Proof.
  intros Hc Hlt Hg Hwords Hr. unfold justify_line in Hr. rewrite Hc in Hr. cbn [bind] in Hr.
  replace (w <=? glen c) with false in Hr by lia.
  set (words := split c [SP]) in *. replace (zlen words - 1 <? 1) with false in Hr by lia.
  assert (Hne : words <> []) by (unfold words, split; apply split_aux_nonempty).
  rewrite intersperse_interleave in Hr by exact Hne. unfold gstr in *.
  set (ones := repeat 1%nat (length words - 1)) in *.
  assert (Hlo : length ones = (length words - 1)%nat) by (unfold ones; apply repeat_length).
  assert (Hlw : length words = S (length ones)) by (unfold zlen in Hg; lia).
  assert (Hzg : zlen words - 1 = Z.of_nat (length ones)) by (unfold zlen; lia).
  rewrite Hzg in Hr.
  destruct (justify_loop_structure (Z.to_nat (w - glen c)) words ones 0 false Hlw ltac:(lia) ltac:(intros; reflexivity))
    as (gs' & Hloop & Hl' & Hsum & Hmono & Hga).
  rewrite Hloop in Hr. cbn [bind] in Hr. inversion Hr; subst r; clear Hr.
  pose proof (le_all_ones _ _ Hmono) as Hge.
  assert (Hlw' : length words = S (length gs')) by lia.
  destruct (interleave_clusters words gs' Hlw' Hwords Hge) as [_ Hgl'].
  destruct (interleave_clusters words ones Hlw Hwords ltac:(unfold ones; clear; induction (length words - 1)%nat; constructor; [lia|assumption])) as [_ Hgl1].
  assert (Hcj : c = concat (interleave words ones)).
  { rewrite <- intersperse_interleave by exact Hne. rewrite concat_intersperse. unfold words. rewrite join_split by discriminate. reflexivity. }
  rewrite <- Hcj in Hgl1. split.
  - rewrite Hgl', Hsum. unfold ones in Hgl1 |- *. rewrite list_sum_repeat_one in *. lia.
  - exists gs'. repeat split; [lia|exact Hge|].
    assert (Hones : repeat 1%nat (length ones) = ones) by (rewrite Hlo; reflexivity).
    pose proof (balanced_start (length ones) ltac:(lia)) as Hb0. rewrite Hones in Hb0.
    destruct (balanced_after (Z.to_nat (w - glen c)) _ _ _ _ Hb0) as (sI' & fR' & Hb).
    rewrite <- Hga in Hb. exact (balanced_even _ _ _ _ Hb).
Qed.

(* JustifyLine completely: for every text and width, the collapsed line itself, or its words
   interleaved with the gap sizes given by gaps_after - a function of the number of words and
   of the missing width only (which is C03 for JustifyLine: the gaps do not depend on what
   the clusters are made of) *)
Theorem justify_line_explicit text w c :
  collapse_space text [10] = Ok c ->
  let words := split c [SP] in
  let g := zlen words - 1 in
  justify_line text w =
    Ok (if (w <=? glen c) || (g <? 1) then c
        else concat (interleave words (gaps_after (Z.to_nat (w - glen c)) g (repeat 1%nat (length words - 1)) 0 false))).
Proof.
  intros Hc words g. unfold justify_line. rewrite Hc. cbn [bind]. fold words. fold g.
  destruct (w <=? glen c) eqn:Ew; [reflexivity|]. destruct (g <? 1) eqn:Eg; [reflexivity|]. cbn [orb].
  assert (Hne : words <> []) by (unfold words, split; apply split_aux_nonempty).
  rewrite intersperse_interleave by exact Hne. unfold gstr in *.
  set (ones := repeat 1%nat (length words - 1)) in *.
  assert (Hlo : length ones = (length words - 1)%nat) by (unfold ones; apply repeat_length).
  assert (Hlw : length words = S (length ones)) by (unfold g, zlen in Eg; lia).
  assert (Hzg : g = Z.of_nat (length ones)) by (unfold g, zlen; lia).
  rewrite Hzg.
  destruct (justify_loop_structure (Z.to_nat (w - glen c)) words ones 0 false Hlw ltac:(lia) ltac:(intros; reflexivity))
    as (gs' & Hloop & _ & _ & _ & Hga).
  rewrite Hloop. cbn [bind]. rewrite Hga. reflexivity.
Qed.

Lemma last_in {A} (l : list A) d : l <> [] -> In (List.last l d) l.
Proof. induction l as [|x l IH]; [congruence|]. intros _. destruct l as [|y l]; [left; reflexivity|]. right. apply IH. discriminate. Qed.

(* words of printable ASCII code points always qualify *)
Lemma ascii_word_ok w : Forall (fun r => 32 <= r < 127) w -> word_ok w.
Proof.
  intro Hw. split.
  - destruct w as [|x w']; [exact I|]. inversion Hw; subst. cbn. match goal with Hx : 32 <= x < 127 |- _ => rewrite (ok_ascii x Hx) end. repeat split; discriminate.
  - destruct w as [|x w']; [left; reflexivity|right]. rewrite Forall_forall in Hw.
    rewrite ok_ascii by (apply Hw, last_in; discriminate). discriminate.
Qed.

Example premises_met : Forall word_ok [[97]; [98; 99]; [100]].
Proof. repeat (apply Forall_cons; [apply ascii_word_ok; repeat (apply Forall_cons; [lia|]); apply Forall_nil|]). apply Forall_nil. Qed.

End C12R.
