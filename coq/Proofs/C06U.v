(* C06, continued: stability of Wrap for the default line separator. The lines of a wrapped text,
   joined by U+000A and wrapped again to the same width, are the same lines. *)
From Coq Require Import List Bool Arith ZArith Lia ZifyBool.
Import ListNotations.
From Rosed Require Import Base.Cls Base.Res Base.ListX Base.Str Gem.Segment Gem.GString Model.Util Model.Tb Model.Manip Model.Table
     Proofs.SegmentP Proofs.SeamP Proofs.StrP Proofs.C04P Proofs.C13P Proofs.C18P Proofs.C06P Proofs.C06Q Proofs.C07Q Proofs.C06R Proofs.C06S.
Open Scope Z_scope.

(* ---- strings: splitting a join at a one-rune separator that occurs in no part ---- *)
Lemma has_prefix_nil0 s : has_prefix s [] = true.
Proof. destruct s; reflexivity. Qed.

Lemma split1_piece s p : forall cur rest, ~ In s p ->
  split_aux 1 [s] 0 cur (p ++ rest) = split_aux 1 [s] 0 (rev p ++ cur) rest.
Proof.
  induction p as [|x p IH]; intros cur rest Hn; [reflexivity|].
  assert (Hx : x <> s) by (intro E; apply Hn; left; exact E).
  assert (Hp : ~ In s p) by (intro E; apply Hn; right; exact E).
  cbn [app split_aux has_prefix]. replace (x =? s) with false by lia. cbn [andb].
  rewrite IH by exact Hp. cbn [rev]. rewrite <- app_assoc. reflexivity.
Qed.

Lemma split_join1 s L : L <> [] -> Forall (fun x => ~ In s x) L -> split (join [s] L) [s] = L.
Proof.
  unfold split. cbn [length]. induction L as [|x L IH]; [congruence|]. intros _ HF.
  inversion HF as [|? ? Hx HF']; subst. destruct L as [|y t].
  - cbn [join]. rewrite <- (app_nil_r x) at 1. rewrite split1_piece by exact Hx. cbn [split_aux].
    rewrite app_nil_r, rev_involutive. reflexivity.
  - rewrite join_cons by discriminate. rewrite split1_piece by exact Hx. cbn [app split_aux has_prefix].
    rewrite Z.eqb_refl, has_prefix_nil0. cbn [andb]. change (1 - 1)%nat with 0%nat. rewrite app_nil_r, rev_involutive. f_equal.
    apply IH; [discriminate|exact HF'].
Qed.

Lemma in_join r sep L : In r (join sep L) -> In r sep \/ exists x, In x L /\ In r x.
Proof.
  induction L as [|x L IH]; [cbn; tauto|]. destruct L as [|y t].
  - cbn [join]. intro Hr. right. exists x. split; [left; reflexivity|exact Hr].
  - rewrite join_cons by discriminate. rewrite !in_app_iff. intros [Hx|[Hs|Hj]].
    + right. exists x. split; [left; reflexivity|exact Hx].
    + left. exact Hs.
    + destruct (IH Hj) as [Hs|(z & Hz & Hr)]; [left; exact Hs|right; exists z; split; [right; exact Hz|exact Hr]].
Qed.

Lemma join_app sep (a b : list (list Z)) : a <> [] -> b <> [] -> join sep (a ++ b) = join sep a ++ sep ++ join sep b.
Proof.
  induction a as [|x a IH]; [congruence|]. intros _ Hb. destruct a as [|y a'].
  - cbn [app]. rewrite join_cons by exact Hb. reflexivity.
  - change ((x :: y :: a') ++ b) with (x :: y :: (a' ++ b)). rewrite !join_cons by discriminate.
    change (y :: a' ++ b) with ((y :: a') ++ b). rewrite IH by (discriminate || exact Hb).
    rewrite (join_cons sep x (y :: a')) by discriminate. rewrite <- !app_assoc. reflexivity.
Qed.

Lemma join_join sep (LL : list (list (list Z))) : Forall (fun l => l <> []) LL ->
  join sep (map (join sep) LL) = join sep (concat LL).
Proof.
  induction LL as [|l LL IH]; [reflexivity|]. intro HF. inversion HF as [|? ? Hl HF']; subst.
  destruct LL as [|m LL'].
  - cbn [map join concat]. rewrite app_nil_r. reflexivity.
  - change (map (join sep) (l :: m :: LL')) with (join sep l :: map (join sep) (m :: LL')).
    rewrite join_cons by (cbn [map]; discriminate). rewrite IH by exact HF'.
    change (concat (l :: m :: LL')) with (l ++ concat (m :: LL')). rewrite join_app; [reflexivity|exact Hl|].
    inversion HF' as [|? ? Hm _]; subst. cbn [concat]. destruct m; [congruence|discriminate].
Qed.

Section C06U.
Context `{ClassifierOk} `{Upper}.

(* ---- a property of code points that the hyphen has is passed from the words to the pieces ---- *)
Section RunePred.
Variable P : Z -> Prop.
Hypothesis PH : P HYPHEN.

Lemma allr_app (a b : list Z) : Forall P a -> Forall P b -> Forall P (a ++ b).
Proof. intros Ha Hb. apply Forall_app. split; assumption. Qed.

Lemma optw_allr w : Forall P w -> Forall (Forall P) (optw w).
Proof. intro Hw. destruct w; [constructor|constructor; [exact Hw|constructor]]. Qed.

Lemma wds_allr cl : forall cur, Forall (fun c => first_rune c <> SP -> Forall P c) cl -> Forall P cur -> Forall (Forall P) (wds cl cur).
Proof.
  induction cl as [|c cl IH]; intros cur HF Hcur; [apply optw_allr, Hcur|].
  inversion HF as [|? ? Hc HF']; subst. cbn [wds]. destruct (first_rune c =? SP) eqn:E.
  - apply Forall_app. split; [apply optw_allr, Hcur|apply IH; [exact HF'|constructor]].
  - apply IH; [exact HF'|]. apply allr_app; [exact Hcur|]. apply Hc. lia.
Qed.

Lemma cov_allr W ps ws : cov W ps ws -> Forall (Forall P) ws -> Forall (Forall P) ps.
Proof.
  induction 1 as [|w ps ws Hc IH|o w' ps ws Hne Hlt Hfull Hc IH]; intro HF; [constructor| |].
  - inversion HF; subst. constructor; [assumption|apply IH; assumption].
  - inversion HF as [|? ? Hw HF']; subst. apply Forall_app in Hw as [Ho Hw'].
    constructor; [apply allr_app; [exact Ho|constructor; [exact PH|constructor]]|]. apply IH. constructor; [exact Hw'|exact HF'].
Qed.
End RunePred.

Definition nows (p : list Z) : Prop := Forall (fun r => is_space r = false) p.

Lemma hyphen_nows : is_space HYPHEN = false.
Proof. vm_compute; reflexivity. Qed.

(* ---- the clusters of a line of such pieces ---- *)
Definition cl_ok (c : list Z) : Prop :=
  (safe_c c /\ (wsc c = true \/ Forall (fun r => is_space r = false) c)) /\ (wsc c = true -> c = [SP]).

Lemma piece_clusters_ok p : all_safe p -> nows p -> Forall cl_ok (clusters p).
Proof.
  intros Hs Hn. unfold all_safe in Hs. pose proof (clusters_nonempty p) as Hne.
  rewrite Forall_forall in Hs, Hne |- *. intros c Hc.
  assert (Hcn : nows c).
  { unfold nows in *. rewrite Forall_forall in Hn |- *. intros r Hr. apply Hn. rewrite <- (clusters_concat p).
    apply in_concat. exists c. split; assumption. }
  split; [split; [exact (Hs c Hc)|right; exact Hcn]|].
  intro Hw. exfalso. specialize (Hne c Hc). destruct c as [|r c']; [congruence|]. unfold wsc, first_rune in Hw. cbn [hd] in Hw.
  inversion Hcn as [|? ? Hr _]; subst. congruence.
Qed.

Lemma sp_cl_ok : cl_ok [SP].
Proof. split; [split; [exact sp_cluster_safe|left; vm_compute; reflexivity]|intros _; reflexivity]. Qed.

Lemma is_sp_false c : first_rune c <> SP -> is_sp c = false.
Proof.
  intro Hc. destruct (is_sp c) eqn:E; [|reflexivity]. apply is_sp_true in E. subst c. exfalso. apply Hc. reflexivity.
Qed.

Lemma dedup_nosp (L : list (list Z)) rest : Forall (fun c => first_rune c <> SP) L -> L <> [] ->
  forall prev, dedup prev (L ++ rest) = L ++ dedup false rest.
Proof.
  induction L as [|c L IH]; intros HF Hne prev; [congruence|]. inversion HF as [|? ? Hc HF']; subst.
  cbn [app dedup]. rewrite (is_sp_false c Hc). f_equal. destruct L as [|d L']; [reflexivity|].
  apply IH; [exact HF'|discriminate].
Qed.

Lemma clusters_ne p : p <> [] -> clusters p <> [].
Proof. intros Hp E. apply Hp. rewrite <- (clusters_concat p), E. reflexivity. Qed.

Lemma line_clusters qs : qs <> [] -> Forall pc_ok qs -> Forall nows qs ->
  Forall cl_ok (clusters (ln qs)) /\ forall prev rest, dedup prev (clusters (ln qs) ++ rest) = clusters (ln qs) ++ dedup false rest.
Proof.
  induction qs as [|p qs IH]; [congruence|]. intros _ HF HN.
  inversion HF as [|? ? (Hpne & Hps & Hpn) HF']; subst. inversion HN as [|? ? Hpw HN']; subst.
  destruct qs as [|q t].
  - cbn [ln join]. split; [apply piece_clusters_ok; assumption|]. intros prev rest.
    apply dedup_nosp; [exact Hpn|apply clusters_ne, Hpne].
  - change (ln (p :: q :: t)) with (p ++ [SP] ++ ln (q :: t)).
    destruct (ln_props (q :: t) HF') as [Hsl _]. rewrite clusters_snoc_sp_app by assumption.
    destruct (IH ltac:(discriminate) HF' HN') as [IH1 IH2]. split.
    + apply Forall_app. split; [apply piece_clusters_ok; assumption|]. constructor; [exact sp_cl_ok|exact IH1].
    + intros prev rest. rewrite <- !app_assoc. rewrite dedup_nosp; [|exact Hpn|apply clusters_ne, Hpne]. cbn [app dedup is_sp]. rewrite Z.eqb_refl.
      rewrite IH2. reflexivity.
Qed.

Lemma wds_trailing_sp (L : list (list Z)) : forall cur, wds (L ++ [[SP]]) cur = wds L cur.
Proof.
  induction L as [|c L IH]; intro cur.
  - cbn [app wds]. unfold first_rune. cbn [hd]. rewrite Z.eqb_refl. cbn [optw]. apply app_nil_r.
  - cbn [app wds]. destruct (first_rune c =? SP); rewrite IH; reflexivity.
Qed.

(* ---- collapsing the re-joined lines gives the pieces joined by single spaces ---- *)
Lemma ln_nows_no_lf ps : Forall nows ps -> ~ In 10 (ln ps).
Proof.
  intros HN Hin. apply in_join in Hin as [Hs|(x & Hx & Hr)].
  - destruct Hs as [E|[]]. vm_compute in E. discriminate.
  - rewrite Forall_forall in HN. specialize (HN x Hx). unfold nows in HN. rewrite Forall_forall in HN. specialize (HN 10 Hr).
    vm_compute in HN. discriminate.
Qed.

Definition tl10 (tr : bool) : list Z := if tr then [10] else [].
Definition tlsp (tr : bool) : list Z := if tr then [SP] else [].

Lemma collapse_rejoin W pss tr : pss <> [] -> Forall (lp_ok W) pss -> Forall nows (concat pss) ->
  exists ct', collapse_space (join [10] (map ln pss) ++ tl10 tr) [10] = Ok ct' /\ all_safe ct' /\ ct' <> [] /\
              wds (clusters ct') [] = concat pss.
Proof.
  intros Hne Hlp HN.
  assert (HNps : forall ps, In ps pss -> Forall nows ps).
  { intros ps Hps. rewrite Forall_forall in HN |- *. intros p Hp. apply HN. apply in_concat. exists ps. split; assumption. }
  assert (Hall : Forall pc_ok (concat pss)).
  { apply Forall_forall. intros p Hp. apply in_concat in Hp as (ps & Hps & Hp). rewrite Forall_forall in Hlp.
    destruct (Hlp ps Hps) as (_ & HF & _). rewrite Forall_forall in HF. apply HF, Hp. }
  assert (Hcne : concat pss <> []).
  { destruct pss as [|ps0 rest]; [congruence|]. inversion Hlp as [|? ? (Hps0 & _) _]; subst. cbn. destruct ps0; [congruence|discriminate]. }
  assert (Hnolf : Forall (fun x => ~ In 10 x) (map ln pss)).
  { apply Forall_forall. intros l Hl. apply in_map_iff in Hl as (ps & <- & Hps). apply ln_nows_no_lf, HNps, Hps. }
  assert (Hmne : map ln pss <> []) by (destruct pss; [congruence|discriminate]).
  assert (Hjj : join [SP] (map ln pss) = ln (concat pss)).
  { unfold ln. apply join_join. revert Hlp. apply Forall_impl. intros ps (Hps & _). exact Hps. }
  assert (Et0 : replace_all (join [10] (map ln pss) ++ tl10 tr) [10] [SP] = ln (concat pss) ++ tlsp tr).
  { unfold replace_all. destruct tr; cbn [tl10 tlsp].
    - replace (join [10] (map ln pss) ++ [10]) with (join [10] (map ln pss ++ [[]])) by (rewrite join_app by (exact Hmne || discriminate); reflexivity).
      rewrite split_join1; [|destruct (map ln pss); discriminate|apply Forall_app; split; [exact Hnolf|constructor; [intros []|constructor]]].
      rewrite join_app by (exact Hmne || discriminate). rewrite Hjj. cbn [join app]. reflexivity.
    - rewrite !app_nil_r. rewrite split_join1 by assumption. exact Hjj. }
  destruct (line_clusters (concat pss) Hcne Hall HN) as [Hok Hdd].
  destruct (ln_props _ Hall) as [HsafeT _]. pose proof (ln_ne _ Hcne Hall) as HneT.
  set (T := ln (concat pss)) in *.
  assert (Ecl : clusters (T ++ tlsp tr) = clusters T ++ (if tr then [[SP]] else [])).
  { destruct tr; cbn [tlsp]; [|rewrite !app_nil_r; reflexivity].
    assert (Hnil : all_safe []) by (unfold all_safe; rewrite clusters_nil; constructor).
    pose proof (clusters_snoc_sp_app T [] HneT HsafeT Hnil) as E. exact E. }
  assert (Hok' : Forall cl_ok (clusters (T ++ tlsp tr))).
  { rewrite Ecl. apply Forall_app. split; [exact Hok|]. destruct tr; [constructor; [exact sp_cl_ok|constructor]|constructor]. }
  destruct (collapse_space_total (join [10] (map ln pss) ++ tl10 tr) [10]) as [r Hr]. exists r. split; [exact Hr|].
  pose proof (collapse_space_clusters (join [10] (map ln pss) ++ tl10 tr) [10] r) as Hc. cbv zeta in Hc.
  change (gis_empty [10]) with false in Hc. cbv iota in Hc. unfold gstr in *. rewrite Et0 in Hc.
  destruct (Hc ltac:(unfold safe_text; revert Hok'; apply Forall_impl; unfold cl_ok; tauto) Hr) as (Hcl & _).
  rewrite map_normws_id in Hcl by (revert Hok'; apply Forall_impl; unfold cl_ok; tauto).
  rewrite Ecl, Hdd in Hcl.
  assert (Edd : dedup false (if tr then [[SP]] else []) = (if tr then [[SP]] else [])) by (destruct tr; reflexivity).
  rewrite Edd, <- Ecl in Hcl.
  assert (Er : r = T ++ tlsp tr) by (rewrite <- (clusters_concat r), Hcl, clusters_concat; reflexivity).
  subst r. split; [|split].
  - unfold all_safe. revert Hok'. apply Forall_impl. unfold cl_ok, safe_c. tauto.
  - intro E. apply HneT. destruct T; [reflexivity|discriminate].
  - rewrite Ecl. destruct tr; [rewrite wds_trailing_sp|rewrite app_nil_r]; apply wds_ln; assumption.
Qed.

(* ---- wrapping again, with the partition given ---- *)
Lemma wrap_again_ct text' w sep pss ct' : let W := Z.max w 2 in
  pss <> [] -> Forall (lp_ok W) pss -> chain W pss ->
  collapse_space text' sep = Ok ct' -> all_safe ct' -> ct' <> [] -> wds (clusters ct') [] = concat pss ->
  exists b', wrap text' w sep = Ok b' /\ b_lines b' = map ln pss.
Proof.
  intros W Hpne Hlp Hch Hre Hsafe' Hne' Hwds.
  destruct (wrap_total text' w sep) as [b' Hw']. exists b'. split; [exact Hw'|].
  destruct (wrap_structure text' w sep _ b' Hre Hsafe' Hne' Hw') as (pss' & Eb' & Hlp' & Hch' & Hcov').
  fold W in Hlp', Hch', Hcov'. rewrite Hwds in Hcov'.
  assert (Hle : Forall (fun p => glen p <= W) (concat pss)).
  { apply Forall_forall. intros p Hp. apply in_concat in Hp as (ps & Hps & Hp). rewrite Forall_forall in Hlp.
    destruct (Hlp ps Hps) as (_ & HF & Hw0). pose proof (piece_le_line ps p HF Hp). lia. }
  pose proof (cov_no_chunk W _ _ Hle Hcov') as Econ.
  rewrite (greedy_unique W pss' pss Hlp' Hlp Hch' Hch Econ) in Eb'. exact Eb'.
Qed.

(* the pieces of a wrap of safe text hold no white-space code point *)
Lemma wrap_pieces_nows text w ct b :
  safe_text (replace_all text [10] [SP]) -> collapse_space text [10] = Ok ct -> ct <> [] -> wrap text w [10] = Ok b ->
  exists pss, b_lines b = map ln pss /\ Forall (lp_ok (Z.max w 2)) pss /\ chain (Z.max w 2) pss /\ Forall nows (concat pss) /\
              cov (Z.max w 2) (concat pss) (wds (clusters ct) []).
Proof.
  intros Hsafe Hc Hne Hw.
  pose proof (collapse_space_clusters text [10] ct) as Hcc. cbv zeta in Hcc. change (gis_empty [10]) with false in Hcc. cbv iota in Hcc.
  destruct (Hcc Hsafe Hc) as (_ & _ & Hws & Hsct).
  destruct (wrap_structure text w [10] ct b Hc (safe_text_all_safe _ Hsct) Hne Hw) as (pss & Eb & Hlp & Hch & Hcov).
  exists pss. split; [exact Eb|split; [exact Hlp|split; [exact Hch|split; [|exact Hcov]]]].
  assert (Hwords : Forall nows (wds (clusters ct) [])).
  { apply wds_allr; [|constructor]. unfold safe_text in Hsct. rewrite Forall_forall in Hsct, Hws |- *. intros c Hin Hfr.
    destruct (Hsct c Hin) as [_ [Hwc|Hn]]; [|exact Hn]. exfalso. apply Hfr. rewrite (Hws c Hin Hwc). reflexivity. }
  exact (cov_allr _ hyphen_nows _ _ _ Hcov Hwords).
Qed.

(* ---- Wrap is stable under the default line separator ---- *)
Theorem wrap_stable_lf text w ct b tr :
  safe_text (replace_all text [10] [SP]) -> collapse_space text [10] = Ok ct -> ct <> [] ->
  wrap text w [10] = Ok b -> b_lines b <> [] ->
  exists b', wrap (join [10] (b_lines b) ++ tl10 tr) w [10] = Ok b' /\ b_lines b' = b_lines b.
Proof.
  intros Hsafe Hc Hne Hw Hlines.
  destruct (wrap_pieces_nows text w ct b Hsafe Hc Hne Hw) as (pss & Eb & Hlp & Hch & HN & _).
  assert (Hpne : pss <> []) by (intro E0; rewrite E0 in Eb; cbn in Eb; congruence).
  destruct (collapse_rejoin _ pss tr Hpne Hlp HN) as (ct' & Hre & Hs' & Hne' & Hwds).
  destruct (wrap_again_ct (join [10] (map ln pss) ++ tl10 tr) w [10] pss ct' Hpne Hlp Hch Hre Hs' Hne' Hwds) as (b' & Hw' & Eb').
  exists b'. rewrite Eb. split; [exact Hw'|exact Eb'].
Qed.

End C06U.
