(* C09, consequences: deleting what was just inserted restores the text; Insert and Delete never
   touch the clusters outside the addressed span (frame). The round trip needs the inserted text
   not to merge with its neighbours (otherwise the cluster positions of the result are not those
   of the parts - e.g. inserting a combining mark after a base letter); that is the seam condition
   of the segmentation. *)
From Coq Require Import List Bool Arith ZArith Lia.
Import ListNotations.
From Rosed Require Import Base.Res Base.ListX Base.Utf8 Gem.Segment Gem.GString Model.Util Model.Manip Model.Table Model.Options Model.Editor Model.Ops
     Check.Common Proofs.SegmentP Proofs.Utf8P Proofs.C04P Proofs.C09P.
Open Scope Z_scope.

Section C09Q.
Context `{Classifier} `{Upper}.

Theorem insert_delete_roundtrip rs o ref p x : scalars rs -> scalars x ->
  let cl := clusters rs in let p' := norm1 (zlen cl) p in
  let a := concat (firstn (Z.to_nat p') cl) in let b := concat (skipn (Z.to_nat p') cl) in
  seam_ok a x -> seam_ok (a ++ x) b ->
  exists e1, insert p (encode x) (Ed (encode rs) o ref) = Ok e1 /\
             delete p' (p' + glen x) e1 = Ok (Ed (encode rs) o ref).
Proof.
  intros Hs Hx. cbv zeta. intros S1 S2.
  set (cl := clusters rs) in *. set (n := zlen cl) in *. set (p' := norm1 n p) in *.
  assert (Hn : 0 <= n) by (unfold n, zlen; lia).
  assert (Hp : 0 <= p' <= n) by (apply norm1_range; exact Hn).
  set (a := concat (firstn (Z.to_nat p') cl)) in *. set (b := concat (skipn (Z.to_nat p') cl)) in *.
  assert (Hab : a ++ b = rs) by (unfold a, b; rewrite <- concat_app, firstn_skipn; apply clusters_concat).
  assert (Ha : scalars a) by (apply (scalars_concat_sub rs); [exact Hs|intros c Hc; apply in_firstn' in Hc; exact Hc]).
  assert (Hb : scalars b) by (apply (scalars_concat_sub rs); [exact Hs|intros c Hc; apply in_skipn' in Hc; exact Hc]).
  eexists. split; [apply (insert_spec rs o ref p (encode x) Hs)|]. fold cl n p' a b.
  rewrite <- !encode_app.
  assert (Hs2 : scalars (a ++ x ++ b)) by (apply scalars_app; split; [exact Ha|apply scalars_app; split; assumption]).
  assert (Ecl : clusters (a ++ x ++ b) = firstn (Z.to_nat p') cl ++ clusters x ++ skipn (Z.to_nat p') cl).
  { rewrite app_assoc, clusters_app by exact S2. rewrite clusters_app by exact S1. unfold a, b, cl.
    rewrite clusters_firstn, clusters_skipn, <- app_assoc. reflexivity. }
  pose proof (delete_spec (a ++ x ++ b) o ref p' (p' + glen x) Hs2) as Hd. cbv zeta in Hd. rewrite Ecl in Hd.
  assert (Hgx : 0 <= glen x) by (unfold glen, zlen; lia).
  assert (Hlen1 : length (firstn (Z.to_nat p') cl) = Z.to_nat p') by (rewrite firstn_length; unfold n, zlen in Hp; lia).
  assert (Hz : zlen (firstn (Z.to_nat p') cl ++ clusters x ++ skipn (Z.to_nat p') cl) = n + glen x).
  { unfold zlen, glen. rewrite !app_length, Hlen1, skipn_length. unfold n, zlen in *. lia. }
  rewrite Hz in Hd.
  assert (En : norm (n + glen x) p' (p' + glen x) = (p', p' + glen x)).
  { unfold norm, norm1, go_End, min_int. 
    destruct (p' =? -9223372036854775808) eqn:E1; [lia|]. destruct (p' + glen x =? -9223372036854775808) eqn:E2; [lia|].
    destruct (p' <? 0) eqn:E3; [lia|]. destruct (p' + glen x <? 0) eqn:E4; [lia|]. f_equal; lia. }
  rewrite En in Hd. rewrite Hd. f_equal. f_equal.
  rewrite firstn_app, Hlen1, Nat.sub_diag. cbn [firstn]. rewrite app_nil_r, firstn_firstn, Nat.min_id.
  replace (Z.to_nat (p' + glen x)) with (length (firstn (Z.to_nat p') cl ++ clusters x) + 0)%nat
    by (rewrite app_length, Hlen1; unfold glen, zlen; lia).
  rewrite app_assoc, skipn_app, skipn_all2 by lia. cbn [app].
  replace (length (firstn (Z.to_nat p') cl ++ clusters x) + 0 - length (firstn (Z.to_nat p') cl ++ clusters x))%nat with 0%nat by lia.
  cbn [skipn]. fold a b. rewrite <- encode_app, Hab. reflexivity.
Qed.

End C09Q.
