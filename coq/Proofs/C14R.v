(* C14 / C18 for every text: with the width bound of Wrap free of assumptions (C06T), the
   two-column layout is the row-by-row juxtaposition of the two wrapped texts for all inputs, and
   InsertTwoColumns returns normally for every pair of texts, non-negative gap, width and
   percentage. *)
From Coq Require Import List Bool Arith ZArith Lia ZifyBool.
Import ListNotations.
From Rosed Require Import Base.Cls Base.Res Base.ListX Base.Str Base.Utf8 Gem.Segment Gem.GString Model.Util Model.Tb Model.Manip Model.Table
     Model.Options Model.Editor Model.Ops Proofs.SegmentP Proofs.SeamP Proofs.C04P Proofs.C13P Proofs.C06Q Proofs.C06T Proofs.C09P Proofs.C14P Proofs.C15P Proofs.C14Q
     Proofs.C18P Proofs.C18Q Proofs.SubaddP.
Open Scope Z_scope.

Section C14R.
Context `{ClassifierOk} `{Upper}.

Theorem two_columns_layout_all pos lt rt gap width m ex opts e lb rb :
  let '(W, lw, rw) := two_col_widths width gap m ex in
  let o := with_defaults opts in
  let sep := decode (o_linesep o) in
  (lt <> [] \/ rt <> []) -> 0 <= gap ->
  wrap (decode lt) lw sep = Ok lb -> wrap (decode rt) rw sep = Ok rb ->
  insert_two_columns_opts pos lt rt gap width m ex opts e =
    insert pos (encode (tb_join {| b_lines := map (row_of (b_lines lb) (b_lines rb) (lw + gap))
                                                 (seq 0 (Nat.max (length (b_lines lb)) (length (b_lines rb))));
                                   b_sep := sep; b_trailing := negb (o_notrailing o) |})) e.
Proof.
  pose proof (two_col_widths_ok width gap m ex) as Hw. pose proof (two_columns_layout pos lt rt gap width m ex opts e lb rb) as HL.
  destruct (two_col_widths width gap m ex) as [[W lw] rw]. destruct Hw as (_ & Hlw & _ & _). cbv zeta in *.
  intros Hne Hgap Hlb Hrb. apply HL; try assumption.
  pose proof (wrap_width_all _ _ _ _ Hlb) as Hwd. replace (Z.max lw 2) with lw in Hwd by lia. exact Hwd.
Qed.

(* InsertTwoColumns returns normally: every pair of texts, every non-negative gap, every width
   and percentage, every position, on any Editor holding valid UTF-8 *)
Theorem two_columns_total pos lt rt gap width m ex opts rs o ref : scalars rs -> 0 <= gap ->
  exists r, insert_two_columns_opts pos lt rt gap width m ex opts (Ed (encode rs) o ref) = Ok r.
Proof.
  intros Hs Hgap. destruct lt as [|l0 lt'] eqn:Elt; destruct rt as [|r0 rt'] eqn:Ert; [eexists; reflexivity| | |].
  all: rewrite <- ?Elt, <- ?Ert;
    pose proof (two_columns_layout_all pos lt rt gap width m ex opts (Ed (encode rs) o ref)) as HL;
    destruct (two_col_widths width gap m ex) as [[W lw] rw]; cbv zeta in HL;
    destruct (wrap_total (decode lt) lw (decode (o_linesep (with_defaults opts)))) as [lb Hlb];
    destruct (wrap_total (decode rt) rw (decode (o_linesep (with_defaults opts)))) as [rb Hrb];
    subst lt rt; rewrite (HL lb rb) by (try assumption; (left; discriminate) || (right; discriminate));
    apply insert_total, Hs.
Qed.

(* no row is wider than the two columns and the gap: every text *)
Lemma glen_le_len (x : list Z) : glen x <= Z.of_nat (length x).
Proof. unfold glen, zlen. pose proof (clusters_length_le x). lia. Qed.

Theorem row_width (left right : list gstr) lw rw gap k : 0 <= lw -> 0 <= gap -> 0 <= rw ->
  Forall (fun l => glen l <= lw) left -> Forall (fun r => glen r <= rw) right ->
  glen (row_of left right (lw + gap) k) <= lw + gap + rw.
Proof.
  intros Hlw Hgap Hrw Hl Hr. unfold row_of. cbv zeta.
  set (l := match nth_error left k with Some x => x | None => [] end).
  set (r := match nth_error right k with Some x => x | None => [] end).
  assert (Gl : 0 <= glen l <= lw).
  { unfold l. destruct (nth_error left k) eqn:E; [|change (glen []) with 0; lia].
    rewrite Forall_forall in Hl. pose proof (Hl _ (nth_error_In _ _ E)). unfold glen, zlen in *. lia. }
  assert (Gr : glen r <= rw).
  { unfold r. destruct (nth_error right k) eqn:E; [|change (glen []) with 0; lia].
    rewrite Forall_forall in Hr. exact (Hr _ (nth_error_In _ _ E)). }
  pose proof (glen_app_le l (repeat SP (Z.to_nat (lw + gap - glen l)) ++ r)) as Ha1.
  pose proof (glen_app_le (repeat SP (Z.to_nat (lw + gap - glen l))) r) as Ha2.
  pose proof (glen_le_len (repeat SP (Z.to_nat (lw + gap - glen l)))) as Ha3. rewrite repeat_length in Ha3. lia.
Qed.

(* InsertTwoColumns: no row of the layout is wider than the (minimum-clamped) total width *)
Theorem two_columns_rows_width lt rt gap width m ex sep lb rb :
  let '(W, lw, rw) := two_col_widths width gap m ex in
  0 <= gap -> wrap lt lw sep = Ok lb -> wrap rt rw sep = Ok rb ->
  forall k, glen (row_of (b_lines lb) (b_lines rb) (lw + gap) k) <= W.
Proof.
  pose proof (two_col_widths_ok width gap m ex) as Hw. destruct (two_col_widths width gap m ex) as [[W lw] rw].
  destruct Hw as (HW & Hlw & Hrw & Hsum). intros Hgap Hlb Hrb k.
  pose proof (wrap_width_all _ _ _ _ Hlb) as Wl. pose proof (wrap_width_all _ _ _ _ Hrb) as Wr.
  replace (Z.max lw 2) with lw in Wl by lia. replace (Z.max rw 2) with rw in Wr by lia.
  pose proof (row_width (b_lines lb) (b_lines rb) lw rw gap k ltac:(lia) Hgap ltac:(lia) Wl Wr). lia.
Qed.

End C14R.
