(* C14 / C18 for every text: with the width bound of Wrap free of assumptions (C06T), the
   two-column layout is the row-by-row juxtaposition of the two wrapped texts for all inputs, and
   InsertTwoColumns returns normally for every pair of texts, non-negative gap, width and
   percentage. *)
From Coq Require Import List Bool Arith ZArith Lia ZifyBool.
Import ListNotations.
From Rosed Require Import Base.Cls Base.Res Base.ListX Base.Str Base.Utf8 Gem.Segment Gem.GString Model.Util Model.Tb Model.Manip Model.Table
     Model.Options Model.Editor Model.Ops Proofs.SegmentP Proofs.SeamP Proofs.C04P Proofs.C13P Proofs.C06Q Proofs.C06T Proofs.C09P Proofs.C14P Proofs.C15P Proofs.C14Q
     Proofs.C18P Proofs.C18Q.
Open Scope Z_scope.

Section C14R.
Context `{ClassifierOk} `{Upper}.

Theorem two_columns_layout_all pos lt rt gap width m ex opts e lb rb :
  let '(W, lw, rw) := two_col_widths width gap m ex in
  let o := with_defaults opts in
  let sep := decode (o_linesep o) in
  (lt <> [] \/ rt <> []) -> 0 <= gap ->
  wrap (decode lt) lw sep = Ok lb -> wrap (decode rt) rw sep = Ok rb ->
  insert_two_columns_opts pos lt rt gap width m ex opts e =
    insert pos (encode (tb_join {| b_lines := map (row_of (b_lines lb) (b_lines rb) (lw + gap))
                                                 (seq 0 (Nat.max (length (b_lines lb)) (length (b_lines rb))));
                                   b_sep := sep; b_trailing := negb (o_notrailing o) |})) e.
Proof.
  pose proof (two_col_widths_ok width gap m ex) as Hw. pose proof (two_columns_layout pos lt rt gap width m ex opts e lb rb) as HL.
  destruct (two_col_widths width gap m ex) as [[W lw] rw]. destruct Hw as (_ & Hlw & _ & _). cbv zeta in *.
  intros Hne Hgap Hlb Hrb. apply HL; try assumption.
  pose proof (wrap_width_all _ _ _ _ Hlb) as Hwd. replace (Z.max lw 2) with lw in Hwd by lia. exact Hwd.
Qed.

(* InsertTwoColumns returns normally: every pair of texts, every non-negative gap, every width
   and percentage, every position, on any Editor holding valid UTF-8 *)
Theorem two_columns_total pos lt rt gap width m ex opts rs o ref : scalars rs -> 0 <= gap ->
  exists r, insert_two_columns_opts pos lt rt gap width m ex opts (Ed (encode rs) o ref) = Ok r.
Proof.
  intros Hs Hgap. destruct lt as [|l0 lt'] eqn:Elt; destruct rt as [|r0 rt'] eqn:Ert; [eexists; reflexivity| | |].
  all: rewrite <- ?Elt, <- ?Ert;
    pose proof (two_columns_layout_all pos lt rt gap width m ex opts (Ed (encode rs) o ref)) as HL;
    destruct (two_col_widths width gap m ex) as [[W lw] rw]; cbv zeta in HL;
    destruct (wrap_total (decode lt) lw (decode (o_linesep (with_defaults opts)))) as [lb Hlb];
    destruct (wrap_total (decode rt) rw (decode (o_linesep (with_defaults opts)))) as [rb Hrb];
    subst lt rt; rewrite (HL lb rb) by (try assumption; (left; discriminate) || (right; discriminate));
    apply insert_total, Hs.
Qed.

End C14R.
