(* C06, continued: no line produced by Wrap exceeds the width. *)
From Coq Require Import List Bool Arith ZArith Lia ZifyBool.
Import ListNotations.
From Rosed Require Import Base.Cls Base.Res Base.ListX Base.Str Gem.Segment Gem.GString Model.Util Model.Tb Model.Manip Model.Table
     Proofs.SegmentP Proofs.SeamP Proofs.C04P Proofs.C09P Proofs.C13P Proofs.C18P Proofs.C06P.
Open Scope Z_scope.

Section C06Q.
Context `{ClassifierOk} `{Upper}.

(* ---- closure of "all clusters are safe" ---- *)
Lemma all_safe_nil : all_safe []. Proof. constructor. Qed.

Lemma all_safe_ends x : all_safe x -> starts_ok x /\ ends_ok x.
Proof.
  intro Hs. pose proof (slice_safe x 0 (length (clusters x)) Hs) as Hsl. cbn [skipn] in Hsl.
  rewrite firstn_all, clusters_concat in Hsl. exact Hsl.
Qed.

Lemma all_safe_slice x a k : all_safe x -> all_safe (concat (firstn k (skipn a (clusters x)))).
Proof.
  intro Hs. unfold all_safe in *. rewrite clusters_slice. rewrite Forall_forall in *. intros c Hc.
  apply Hs. apply in_firstn' in Hc. apply in_skipn' in Hc. exact Hc.
Qed.

Lemma clusters_snoc_sp_app a b : a <> [] -> all_safe a -> all_safe b ->
  clusters (a ++ [SP] ++ b) = clusters a ++ [[SP]] ++ clusters b.
Proof.
  intros Ha Hsa Hsb. destruct (all_safe_ends a Hsa) as [_ Hea]. destruct (all_safe_ends b Hsb) as [Hsb' _].
  rewrite clusters_app by (apply seam_before_plain; [exact Hea|apply sp_plain]).
  f_equal. change ([SP] ++ b) with (repeat SP 1 ++ b). rewrite clusters_repeat_app by (apply sp_plain || exact Hsb'). reflexivity.
Qed.

Lemma sp_cluster_safe : starts_ok [SP] /\ ends_ok [SP].
Proof. split; [cbn; rewrite sp_plain; repeat split; discriminate|right; cbn; rewrite sp_plain; discriminate]. Qed.
Lemma hyphen_cluster_safe : starts_ok [HYPHEN] /\ ends_ok [HYPHEN].
Proof. split; [cbn; rewrite hyphen_plain; repeat split; discriminate|right; cbn; rewrite hyphen_plain; discriminate]. Qed.

Lemma all_safe_sp_app a b : a <> [] -> all_safe a -> all_safe b -> all_safe (a ++ [SP] ++ b).
Proof.
  intros Ha Hsa Hsb. unfold all_safe. rewrite clusters_snoc_sp_app by assumption.
  apply Forall_app. split; [exact Hsa|]. apply Forall_app. split; [constructor; [exact sp_cluster_safe|constructor]|exact Hsb].
Qed.

Lemma glen_sp_app a b : a <> [] -> all_safe a -> all_safe b -> glen (a ++ [SP] ++ b) = glen a + 1 + glen b.
Proof. intros Ha Hsa Hsb. unfold glen. rewrite clusters_snoc_sp_app by assumption. rewrite !zlen_app. unfold zlen. cbn [length]. lia. Qed.

Lemma clusters_snoc_hyphen a : all_safe a -> clusters (a ++ [HYPHEN]) = clusters a ++ [[HYPHEN]].
Proof. intro Hs. destruct (all_safe_ends a Hs) as [_ He]. apply clusters_snoc_plain; [exact He|apply hyphen_plain]. Qed.
Lemma all_safe_hyphen a : all_safe a -> all_safe (a ++ [HYPHEN]).
Proof.
  intro Hs. unfold all_safe. rewrite clusters_snoc_hyphen by exact Hs. apply Forall_app. split; [exact Hs|].
  constructor; [exact hyphen_cluster_safe|constructor].
Qed.
Lemma glen_hyphen a : all_safe a -> glen (a ++ [HYPHEN]) = glen a + 1.
Proof. intro Hs. unfold glen. rewrite clusters_snoc_hyphen by exact Hs. rewrite zlen_app. unfold zlen. cbn. lia. Qed.

(* Sub of a safe word *)
Lemma gsub_safe x a b : all_safe x -> 0 <= a <= b -> b <= glen x ->
  all_safe (gsub x a b) /\ glen (gsub x a b) = b - a.
Proof.
  intros Hs Hab Hb. unfold glen, zlen in Hb.
  replace a with (Z.of_nat (Z.to_nat a)) by lia. replace b with (Z.of_nat (Z.to_nat b)) by lia.
  rewrite gsub_range by lia. split; [apply all_safe_slice, Hs|].
  rewrite glen_concat_slice. unfold zlen. rewrite firstn_length, skipn_length. lia.
Qed.

(* ---- the word loop ---- *)
Definition lines_ok (W : Z) (lines : list gstr) : Prop := Forall (fun l => glen l <= W) lines.

Lemma join_line curLine curWord : all_safe curLine -> all_safe curWord ->
  all_safe (gadd (if glen curLine =? 0 then curLine else gadd curLine [SP]) curWord) /\
  glen (gadd (if glen curLine =? 0 then curLine else gadd curLine [SP]) curWord)
  = glen curLine + (glen curWord + (if glen curLine =? 0 then 0 else 1)).
Proof.
  intros Hsl Hsw. destruct (glen curLine =? 0) eqn:El.
  - apply Z.eqb_eq in El. pose proof (proj1 (glen_zero_iff curLine) El) as Hn. subst curLine.
    unfold gadd. cbn [app]. split; [exact Hsw|]. cbn. lia.
  - assert (Hne : curLine <> []) by (intro E; subst curLine; cbn in El; discriminate).
    unfold gadd. rewrite <- app_assoc. split; [apply all_safe_sp_app; assumption|].
    rewrite glen_sp_app by assumption. lia.
Qed.

Lemma append_word_width fuel : forall lines curWord curLine W r, 2 <= W ->
  all_safe curWord -> all_safe curLine -> glen curLine <= W -> lines_ok W lines ->
  append_word fuel lines curWord curLine W = Ok r ->
  lines_ok W (fst r) /\ all_safe (snd r) /\ glen (snd r) <= W.
Proof.
  induction fuel as [|fuel IH]; intros lines curWord curLine W r HW Hsw Hsl Hll Hlines Hr; [discriminate|].
  cbn [append_word] in Hr. destruct (0 <? glen curWord) eqn:E0; [|injection Hr as <-; cbn; auto].
  destruct (join_line curLine curWord Hsl Hsw) as [Hjs Hjg].
  destruct (glen curLine + (glen curWord + (if glen curLine =? 0 then 0 else 1)) =? W) eqn:Ea.
  - eapply IH; [exact HW|apply all_safe_nil|apply all_safe_nil|cbn; lia| |exact Hr].
    apply Forall_app. split; [exact Hlines|]. constructor; [lia|constructor].
  - destruct (W <? glen curLine + (glen curWord + (if glen curLine =? 0 then 0 else 1))) eqn:Eb.
    + destruct (glen curLine =? 0) eqn:El.
      * (* split the word: W-1 clusters and a hyphen *)
        apply Z.eqb_eq in El. pose proof (proj1 (glen_zero_iff curLine) El) as Hn. subst curLine.
        unfold gadd in Hr. cbn [app] in Hr. cbn in Eb.
        assert (Hlw : W < glen curWord) by lia.
        assert (H1a : 0 <= 0 <= W - 1) by lia. assert (H1b : W - 1 <= glen curWord) by lia.
        assert (H2a : 0 <= W - 1 <= glen curWord) by lia. assert (H2b : glen curWord <= glen curWord) by lia.
        destruct (gsub_safe curWord 0 (W - 1) Hsw H1a H1b) as [Hs1 Hg1].
        destruct (gsub_safe curWord (W - 1) (glen curWord) Hsw H2a H2b) as [Hs2 Hg2].
        eapply IH; [exact HW|exact Hs2|apply all_safe_nil|cbn; lia| |exact Hr].
        apply Forall_app. split; [exact Hlines|]. constructor; [|constructor].
        rewrite glen_hyphen by exact Hs1. lia.
      * eapply IH; [exact HW|exact Hsw|apply all_safe_nil|cbn; lia| |exact Hr].
        apply Forall_app. split; [exact Hlines|]. constructor; [exact Hll|constructor].
    + eapply IH; [exact HW|apply all_safe_nil|exact Hjs|lia|exact Hlines|exact Hr].
Qed.

(* ---- the cluster loop ---- *)
Lemma mid_is_slice {A} (pre mid post : list A) :
  mid = firstn (length mid) (skipn (length pre) (pre ++ mid ++ post)).
Proof. rewrite skipn_app, skipn_all, Nat.sub_diag. cbn [skipn app]. rewrite firstn_app, Nat.sub_diag, firstn_all. cbn. rewrite app_nil_r. reflexivity. Qed.

Lemma word_safe ct pre wordcl rest : all_safe ct -> clusters ct = pre ++ wordcl ++ rest -> all_safe (concat wordcl).
Proof.
  intros Hs E. rewrite (mid_is_slice pre wordcl rest), <- E. apply all_safe_slice, Hs.
Qed.

Lemma wrap_loop_width ct W : 2 <= W -> all_safe ct ->
  forall rest wordcl pre lines curLine r,
  clusters ct = pre ++ wordcl ++ rest -> all_safe curLine -> glen curLine <= W -> lines_ok W lines ->
  wrap_loop rest lines (concat wordcl) curLine W = Ok r ->
  let '(l', cw, cl') := r in lines_ok W l' /\ all_safe cw /\ all_safe cl' /\ glen cl' <= W.
Proof.
  intros HW Hct. induction rest as [|ch rest IH]; intros wordcl pre lines curLine r E Hsl Hll Hlines Hr.
  - cbn in Hr. injection Hr as <-. repeat split; try assumption. apply (word_safe ct pre wordcl [] Hct E).
  - cbn [wrap_loop] in Hr. destruct (first_rune ch =? SP).
    + unfold append_word_to_wrapped_line in Hr. replace (W <? 2) with false in Hr by lia.
      destruct (append_word _ lines (concat wordcl) curLine W) as [[l2 c2]| |] eqn:Ea; cbn [bind] in Hr; try discriminate.
      destruct (append_word_width _ _ _ _ _ _ HW (word_safe ct pre wordcl (ch :: rest) Hct E) Hsl Hll Hlines Ea) as (K1 & K2 & K3).
      cbn [fst snd] in *. change (@nil Z) with (concat (@nil (list Z))) in Hr.
      apply (IH [] (pre ++ wordcl ++ [ch]) l2 c2 r); try assumption.
      rewrite E. rewrite <- !app_assoc. reflexivity.
    + unfold gadd in Hr. assert (Ec : concat wordcl ++ ch = concat (wordcl ++ [ch])) by (rewrite concat_app; cbn; rewrite app_nil_r; reflexivity).
      rewrite Ec in Hr. apply (IH (wordcl ++ [ch]) pre lines curLine r); try assumption.
      rewrite E. rewrite <- !app_assoc. reflexivity.
Qed.

(* no line of the block Wrap returns is wider than the (clamped) width, whenever the space-collapsed
   text consists of safe clusters *)
Theorem wrap_width text w sep ct b : collapse_space text sep = Ok ct -> all_safe ct ->
  wrap text w sep = Ok b -> Forall (fun l => glen l <= Z.max w 2) (b_lines b).
Proof.
  intros Hc Hs Hw. unfold wrap in Hw. rewrite Hc in Hw. cbn [bind] in Hw.
  set (W := if w <? 2 then 2 else w) in *. assert (HW : 2 <= W) by (unfold W; destruct (w <? 2) eqn:E; lia).
  replace (Z.max w 2) with W by (unfold W; destruct (w <? 2) eqn:E; lia).
  destruct ct as [|x ct'] eqn:Ect; [injection Hw as <-; cbn; constructor; [cbn; lia|constructor]|]. rewrite <- Ect in *.
  destruct (wrap_loop (clusters ct) [] [] [] W) as [[[lines cw] cl]| |] eqn:El; cbn [bind] in Hw; try discriminate.
  change (@nil Z) with (concat (@nil (list Z))) in El at 1.
  pose proof (wrap_loop_width ct W HW Hs (clusters ct) [] [] [] [] _ eq_refl all_safe_nil ltac:(cbn; lia) ltac:(constructor) El) as (K1 & K2 & K3 & K4).
  destruct (gis_empty cw) eqn:Ee.
  - cbn [bind] in Hw. injection Hw as <-. cbn [b_lines]. destruct (gis_empty cl); [exact K1|].
    apply Forall_app. split; [exact K1|constructor; [exact K4|constructor]].
  - unfold append_word_to_wrapped_line in Hw. replace (W <? 2) with false in Hw by lia.
    destruct (append_word _ lines cw cl W) as [[l2 c2]| |] eqn:Ea; cbn [bind] in Hw; try discriminate.
    destruct (append_word_width _ _ _ _ _ _ HW K2 K3 K4 K1 Ea) as (G1 & G2 & G3). cbn [fst snd] in *.
    injection Hw as <-. cbn [b_lines]. destruct (gis_empty c2); [exact G1|].
    apply Forall_app. split; [exact G1|constructor; [exact G3|constructor]].
Qed.

End C06Q.
