(* C18, continued: InsertDefinitionsTable and InsertTable return normally for every input - the
   padding counts are never negative and the block indexing stays in range, whatever the clusters
   of the terms, definitions and cells are. *)
From Coq Require Import List Bool Arith ZArith Lia ZifyBool.
Import ListNotations.
From Rosed Require Import Base.Cls Base.Res Base.ListX Base.Str Base.Utf8 Gem.Segment Gem.GString Model.Util Model.Tb Model.Manip Model.Table
     Model.Options Model.Editor Model.Ops Proofs.SegmentP Proofs.SeamP Proofs.C04P Proofs.C09P Proofs.C12P Proofs.C13P Proofs.C14P Proofs.C15P Proofs.C14Q
     Proofs.C18P Proofs.C18Q Proofs.C18R Proofs.OpsMapP Proofs.C12S.
Open Scope Z_scope.

Section C18S.
Context `{ClassifierOk} `{Upper}.

Lemma glen_nn x : 0 <= glen x. Proof. unfold glen, zlen. lia. Qed.

(* CombineColumnBlocks never asks for a negative number of spaces *)
Lemma combine_column_blocks_total lb rb g : 0 <= g -> exists cb, combine_column_blocks lb rb g = Ok cb.
Proof.
  intro Hg. unfold combine_column_blocks.
  destruct (maxZ_ge (map glen (b_lines lb)) 0) as [M0 Mall].
  assert (Hrows : exists rows, combine_rows (Nat.max (length (b_lines lb)) (length (b_lines rb))) 0 (b_lines lb) (b_lines rb)
                                 (maxZ 0 (map glen (b_lines lb)) + g) = Ok rows).
  { rewrite combine_rows_spec; [eexists; reflexivity|lia|lia|]. intros l Hl. specialize (Mall (glen l) (in_map glen _ _ Hl)). lia. }
  destruct Hrows as [rows Hr].
  destruct (b_lines lb) as [|l0 ll]; destruct (b_lines rb) as [|r0 rl]; [eexists; reflexivity| | |]; rewrite Hr; cbn [bind]; eexists; reflexivity.
Qed.

Lemma def_rows_total longest rw lsep psep : forall defs full, exists r, def_rows defs longest rw lsep psep full = Ok r.
Proof.
  induction defs as [|[term def] defs IH]; intro full; [eexists; reflexivity|]. cbn [def_rows].
  set (termr := decode term).
  assert (Hpad : exists pad, (if glen termr <? longest then repeat_str [SP] (longest - glen termr) else Ok []) = Ok pad).
  { destruct (glen termr <? longest) eqn:E; [|eexists; reflexivity]. unfold repeat_str. replace (longest - glen termr <? 0) with false by lia. eexists; reflexivity. }
  destruct Hpad as [pad ->]. cbn [bind].
  destruct (wrap_total (decode def) (rw - 2) lsep) as [rc ->]. cbn [bind].
  match goal with |- context [tb_apply ?f ?b] => destruct (tb_apply_total f b) as [rc2 Hrc2]; [intros k l; eexists; reflexivity|rewrite Hrc2] end.
  cbn [bind].
  match goal with |- context [combine_column_blocks ?l ?r 2] => destruct (combine_column_blocks_total l r 2 ltac:(lia)) as [cb Hcb]; rewrite Hcb end.
  cbn [bind].
  destruct ((0 <? tb_len full) && (0 <? tb_len cb)) eqn:E.
  - apply andb_true_iff in E as [E1 E2].
    destruct (tb_line_ok full (tb_len full - 1) ltac:(lia)) as [x Hx]. rewrite Hx. cbn [bind].
    destruct (tb_line_ok cb 0 ltac:(lia)) as [c0 Hc0]. rewrite Hc0. cbn [bind].
    match goal with |- context [tb_set full ?i ?v] => destruct (tb_set_ok full i v ltac:(lia)) as (f2 & Hf2 & _); rewrite Hf2 end.
    cbn [bind]. apply IH.
  - cbn [bind]. apply IH.
Qed.

(* InsertDefinitionsTable: every list of definitions, width, position and option set *)
Theorem definitions_table_total pos defs width opts rs o ref : scalars rs ->
  exists r, insert_definitions_table_opts pos defs width opts (Ed (encode rs) o ref) = Ok r.
Proof.
  intro Hs. unfold insert_definitions_table_opts. cbv zeta.
  match goal with |- context [def_rows ?d ?l ?r ?a ?b ?f] => destruct (def_rows_total l r a b d f) as [full Hf]; rewrite Hf end.
  cbn [bind]. destruct (0 <? tb_len full); [apply insert_total, Hs|eexists; reflexivity].
Qed.

(* InsertTable: every grid, width, position and option set *)
Theorem table_total pos data width opts rs o ref : scalars rs ->
  exists r, insert_table_opts pos data width opts (Ed (encode rs) o ref) = Ok r.
Proof. intro Hs. unfold insert_table_opts. cbv zeta. apply insert_total, Hs. Qed.

(* Justify through the Editor in every mode: paragraph mode and JustifyLastLine (C18R), the
   path through the sub-editor of all lines but the last for a non-empty text (C12S gives its
   result outright), and the empty text *)
Theorem justify_opts_total_all width opts e : exists r, justify_opts width opts e = Ok r.
Proof.
  destruct (o_preserve (with_defaults opts)) eqn:Ep; [apply justify_opts_total; left; exact Ep|].
  destruct (o_justlast (with_defaults opts)) eqn:Ej; [apply justify_opts_total; right; exact Ej|].
  destruct (e_text e) as [|x t] eqn:Et.
  - destruct e as [t0 o0 r0]. cbn [e_text] in Et. subst t0.
    unfold justify_opts. rewrite Ep, Ej. unfold lines_to, ed_lines_sel, with_options. cbn [e_text].
    unfold sub_ed. cbn. unfold apply_opts.
    match goal with |- context [apply_each ?op 0 ?ls] => destruct (apply_each_total_res op ls) with (i := 0) as [ap Hap] end.
    { intros k l. destruct (justify_line_total (decode l) width) as [j Hj]. rewrite Hj. cbn [bind]. eexists; reflexivity. }
    rewrite Hap. cbn. eexists; reflexivity.
  - pose proof (justify_opts_keep_last width opts e) as K. cbv zeta in K. rewrite K; [eexists; reflexivity|exact Ep|exact Ej|rewrite Et; discriminate].
Qed.

(* Indent in either mode *)
Theorem indent_opts_total_all level opts e : exists r, indent_opts level opts e = Ok r.
Proof.
  destruct (o_preserve (with_defaults opts)) eqn:Ep; [|apply indent_opts_total, Ep].
  unfold indent_opts. destruct (level <? 1) eqn:El; [eexists; reflexivity|].
  unfold repeat_str. replace (level <? 0) with false by lia. cbn [bind]. rewrite Ep.
  unfold apply_paragraphs_opts. apply apply_gparagraphs_total. intros k p pre suf.
  match goal with |- context [apply_opts ?op ?o ?ed] => destruct (apply_opts_total op o ed) as [r Hr]; [intros i l; eexists; reflexivity|] end.
  unfold apply_opts in Hr |- *.
  match type of Hr with context [apply_each ?op 0 ?ls] => destruct (apply_each op 0 ls) as [ap| |] eqn:Hap; cbn [bind] in Hr |- *; try discriminate end.
  unfold ed_string, is_sub_editor, with_text, with_options, edit. cbn. eexists; reflexivity.
Qed.

End C18S.
