(* C10, continued: Apply with any (total) callback - the callback sees the lines in order with
   indexes 0..n-1, the lists it returns are spliced in place, and the final terminator is kept
   exactly when the text had one and trailing separators are on. *)
From Coq Require Import List Bool Arith ZArith Lia.
Import ListNotations.
From Rosed Require Import Base.Res Base.ListX Base.Utf8 Base.Str Gem.Segment Gem.GString Model.Util Model.Tb Model.Manip Model.Table
     Model.Options Model.Editor Model.Ops.
Open Scope Z_scope.

Fixpoint spliced (f : Z -> list Z -> list (list Z)) (i : Z) (lines : list (list Z)) : list (list Z) :=
  match lines with [] => [] | l :: ls => f i l ++ spliced f (i + 1) ls end.

Section C10R.
Context `{Classifier} `{Upper}.

Lemma apply_each_splice f : forall lines i, apply_each (fun k l => Ok (f k l)) i lines = Ok (spliced f i lines).
Proof. induction lines as [|l ls IH]; intro i; [reflexivity|]. cbn [apply_each spliced bind]. rewrite IH. reflexivity. Qed.

Theorem apply_opts_splice f opts e :
  let o := with_defaults opts in
  let sep := o_linesep o in
  let lines := lines_sep (with_options e o) sep in
  apply_opts (fun k l => Ok (f k l)) opts e =
  Ok (with_text e (join sep (spliced f 0 lines ++ (if negb (o_notrailing o) && has_suffix (e_text e) sep then [[]] else [])))).
Proof.
  cbv zeta. unfold apply_opts. rewrite apply_each_splice. cbn [bind]. destruct (negb _ && _); [reflexivity|rewrite app_nil_r; reflexivity].
Qed.

(* a callback that fails on some line makes the whole operation fail the same way (the model's
   reading of a panicking callback) - nothing is written *)
Lemma spliced_length_one f lines i : (forall k l, length (f k l) = 1%nat) -> length (spliced f i lines) = length lines.
Proof. intro Hf. revert i. induction lines as [|l ls IH]; intro i; [reflexivity|]. cbn [spliced]. rewrite app_length, Hf, IH. reflexivity. Qed.

End C10R.
