(* C03 for tables without a header row: MakeTable on a grid of cells and on a grid of their
   cluster-for-cluster images renders line by line to images. The column widths are computed
   from cluster counts, which are the same; every cell is rendered as a piece (kept clusters
   between runs of spaces) that meets its neighbours at plain code points. (A header row is
   upper-cased code point by code point, which does not commute with an arbitrary substitution;
   for those rows the property is decided by the correspondence only.) *)
From Coq Require Import List Bool Arith ZArith Lia ZifyBool.
Import ListNotations.
From Rosed Require Import Base.Cls Base.Res Base.ListX Base.Str Base.Utf8 Gem.Segment Gem.GString Model.Util Model.Tb Model.Manip Model.Table
     Proofs.SegmentP Proofs.SeamP Proofs.C04P Proofs.C13P Proofs.C06Q Proofs.C07Q Proofs.C12R Proofs.C16P Proofs.C16Q Proofs.C03P Proofs.C03T Proofs.ImageP.
Open Scope Z_scope.

Section C03U.
Context `{ClassifierOk} `{Upper}.
Variable rho : list Z -> list Z.
Hypothesis rho_keeps : keeps_ws rho.
Hypothesis rho_sp : rho [SP] = [SP].

Lemma pfix_sp' : pfix rho SP. Proof. split; [apply sp_plain|exact rho_sp]. Qed.

Lemma pfix_spaces n : Forall (pfix rho) (spaces n).
Proof. rewrite spaces_eq. apply pfix_repeat, pfix_sp'. Qed.

(* the kept clusters of a cell and of its image *)
Lemma kept_left_image c c' : image rho c c' -> kept_left c' = map rho (kept_left c).
Proof. intro Hi. unfold kept_left. rewrite Hi. apply drop_ws_map, rho_keeps. Qed.

Lemma kl_clusters c : clusters (kl c) = kept_left c.
Proof. unfold kl. destruct (kept_left_slice c) as (a & j & E). rewrite E. apply clusters_slice. Qed.

Lemma kl_image c c' : image rho c c' -> image rho (kl c) (kl c').
Proof. intro Hi. unfold image. rewrite !kl_clusters. apply kept_left_image, Hi. Qed.

Lemma piece_image l K K' r : starts_ok K -> ends_ok K -> starts_ok K' -> ends_ok K' -> image rho K K' ->
  image rho (piece l K r) (piece l K' r).
Proof.
  intros S E S' E' Hi. unfold piece. apply image_plain_l; [apply pfix_spaces| | |].
  - apply starts_ok_app; [exact S|]. rewrite <- (app_nil_r (spaces r)). apply starts_ok_spaces_app. exact I.
  - apply starts_ok_app; [exact S'|]. rewrite <- (app_nil_r (spaces r)). apply starts_ok_spaces_app. exact I.
  - apply image_plain_r; [apply pfix_spaces|assumption..].
Qed.

(* a body row: cell by cell *)
Lemma build_row_image cs y row row' border : cs_vert cs = [y] -> pfix rho y -> forall ws col,
  fits border false row ws col -> fits border false row' ws col ->
  (forall j, image rho (cell_at row j) (cell_at row' j)) ->
  image rho (build_row cs row ws col false border) (build_row cs row' ws col false border).
Proof.
  intros Hv Hy. induction ws as [|w ws IH]; intros col Hf Hf' Hcells; [reflexivity|].
  pose proof (IH (S col) (fits_tail _ _ _ _ _ _ Hf) (fits_tail _ _ _ _ _ _ Hf') Hcells) as IHi.
  destruct (Hf 0%nat w eq_refl) as [Hsafe Hw]. destruct (Hf' 0%nat w eq_refl) as [Hsafe' Hw']. rewrite Nat.add_0_r in *.
  unfold cellt in *. cbn [build_row]. rewrite Hv.
  set (c := cell_at row col) in *. set (c' := cell_at row' col) in *.
  pose proof (Hcells col) as Ic. fold c c' in Ic.
  destruct (kl_facts _ Hsafe) as (K1 & K2 & K3 & K4). destruct (kl_facts _ Hsafe') as (K1' & K2' & K3' & K4').
  assert (Ek : zlen (kept_left c') = zlen (kept_left c)) by (rewrite (kept_left_image c c' Ic); unfold zlen; rewrite map_length; reflexivity).
  destruct border.
  - destruct (build_row_border cs row y false Hv (proj1 Hy) ws (S col) (fits_tail _ _ _ _ _ _ Hf)) as [_ Sr].
    destruct (build_row_border cs row' y false Hv (proj1 Hy) ws (S col) (fits_tail _ _ _ _ _ _ Hf')) as [_ Sr'].
    unfold gadd. rewrite !align_left_piece, Ek. set (r := Z.max 0 (w - 1 - zlen (kept_left c))).
    assert (EP : forall K, [SP] ++ piece 0 K r = piece 1 K r) by (intro K; unfold piece; rewrite spaces_one, (spaces_nonpos 0) by lia; reflexivity).
    rewrite !EP. apply image_app.
    + right. right. left. exists (piece 1 (kl c) r), y. repeat split; [exact (proj1 Hy)|exact Sr].
    + right. right. left. exists (piece 1 (kl c') r), y. repeat split; [exact (proj1 Hy)|exact Sr'].
    + apply image_plain_r; [constructor; [exact Hy|constructor]|apply piece_ends_ok, K2|apply piece_ends_ok, K2'|].
      apply piece_image; try assumption. apply kl_image, Ic.
    + exact IHi.
  - destruct (build_row_plain cs row false ws (S col) (fits_tail _ _ _ _ _ _ Hf)) as [_ Sr].
    destruct (build_row_plain cs row' false ws (S col) (fits_tail _ _ _ _ _ _ Hf')) as [_ Sr'].
    rewrite !align_left_piece, Ek. set (r := Z.max 0 (w - zlen (kept_left c))).
    assert (Ip : image rho (piece 0 (kl c) r) (piece 0 (kl c') r)) by (apply piece_image; try assumption; apply kl_image, Ic).
    destruct ws as [|w2 ws'].
    + cbn [build_row]. rewrite !app_nil_r. exact Ip.
    + assert (Hr : 0 < r) by (cbn [length] in Hw; change (Nat.ltb 1 (S (S (length ws')))) with true in Hw; cbv iota in Hw; unfold r; lia).
      destruct (piece_ends_plain 0 (kl c) r Hr) as [a Ea]. destruct (piece_ends_plain 0 (kl c') r Hr) as [a' Ea'].
      apply image_app; [| |exact Ip|exact IHi].
      * right. right. left. exists a, SP. repeat split; [exact Ea|apply sp_plain|exact Sr].
      * right. right. left. exists a', SP. repeat split; [exact Ea'|apply sp_plain|exact Sr'].
Qed.

(* without a header every line of the body is a row *)
Lemma build_rows_noheader cs ws border multi hbar nbbar : forall data first,
  build_rows cs data ws first false border multi hbar nbbar =
  map (fun row => (if border then cs_vert cs else []) ++ build_row cs row ws 0 false border) data.
Proof.
  induction data as [|row data IH]; intro first; [reflexivity|]. cbn [build_rows map]. rewrite andb_false_r. cbn [app].
  f_equal. apply IH.
Qed.

Definition row_rel (border : bool) (ws : list Z) (row row' : list gstr) : Prop :=
  fits border false row ws 0 /\ fits border false row' ws 0 /\ forall j, image rho (cell_at row j) (cell_at row' j).

Theorem build_table_image data data' ws W sep border cs x y z :
  cs_corner cs = [x] -> cs_vert cs = [y] -> cs_horz cs = [z] -> pfix rho x -> pfix rho y -> pfix rho z ->
  Forall (fun w => 0 <= w) ws ->
  Forall2 (row_rel border ws) data data' ->
  Forall2 (image rho) (b_lines (build_table data ws W sep false border cs)) (b_lines (build_table data' ws W sep false border cs)).
Proof.
  intros Hc Hv Hh Hx Hy Hz Hws Hrows. unfold build_table. cbn [b_lines andb]. rewrite !build_rows_noheader, Hc, Hh, Hv.
  assert (Hbody : Forall2 (image rho) (map (fun row => (if border then [y] else []) ++ build_row cs row ws 0 false border) data)
                                      (map (fun row => (if border then [y] else []) ++ build_row cs row ws 0 false border) data')).
  { induction Hrows as [|row row' data data' (Hf & Hf' & Hcells) _ IH]; [constructor|]. cbn [map]. constructor; [|exact IH].
    pose proof (build_row_image cs y row row' border Hv Hy ws 0%nat Hf Hf' Hcells) as Ir. destruct border; [|exact Ir].
    destruct (build_row_border cs row y false Hv (proj1 Hy) ws 0%nat Hf) as [_ Sr].
    destruct (build_row_border cs row' y false Hv (proj1 Hy) ws 0%nat Hf') as [_ Sr'].
    apply image_plain_l; [constructor; [exact Hy|constructor]|assumption..]. }
  destruct border; [|cbn [app]; rewrite !app_nil_r; exact Hbody].
  assert (Hbar : image rho ([x] ++ horz_bar [x] [z] ws) ([x] ++ horz_bar [x] [z] ws)).
  { apply image_plain. constructor; [exact Hx|]. clear -Hx Hz Hws. induction Hws as [|w ws Hw _ IH]; [constructor|].
    cbn [horz_bar]. rewrite grepeat_single. apply Forall_app. split; [apply pfix_repeat, Hz|]. constructor; assumption. }
  apply Forall2_app; [constructor; [exact Hbar|constructor]|]. apply Forall2_app; [exact Hbody|constructor; [exact Hbar|constructor]].
Qed.

(* ---- MakeTable: the column widths are a function of the cluster counts of the cells ---- *)
Definition mt_params (data : list (list gstr)) (width : Z) (border : bool) (hl : Z) : option (list Z * Z) :=
  match data with
  | [] => None
  | _ =>
      let colCount := fold_left (fun acc row => Nat.max acc (length row)) data O in
      match colCount with
      | O => None
      | _ =>
          let content := map (col_content_width data) (seq 0 colCount) in
          let padded := map (fun p : nat * Z =>
                               let '(i, w) := p in
                               w + (if border then 2 else if Nat.ltb (S i) colCount then 2 else 0))
                            (combine (seq 0 colCount) content) in
          let minw := (if border then hl else 0) + sumZ padded + (if border then hl * Z.of_nat colCount else 0) in
          let spaceToAdd := width - minw in
          if 0 <? spaceToAdd then
            let n := if negb border && Nat.ltb 1 colCount then Z.of_nat colCount - 1 else Z.of_nat colCount in
            Some (add_space padded 0 n (spaceToAdd / n) (spaceToAdd mod n), width)
          else Some (padded, minw)
      end
  end.

Lemma make_table_params data width sep header border charSet :
  make_table data width sep header border charSet =
  match mt_params data width border (glen (cs_horz (parse_table_charset charSet))) with
  | None => tb_new [] sep
  | Some (ws, W) => build_table data ws W sep header border (parse_table_charset charSet)
  end.
Proof.
  unfold make_table, mt_params. destruct data as [|row data]; [reflexivity|].
  destruct (fold_left (fun acc row0 => Nat.max acc (length row0)) (row :: data) 0%nat); [reflexivity|]. cbv zeta.
  match goal with |- context [if ?c then _ else _] => destruct c end; reflexivity.
Qed.

Lemma cell_at_image row row' j : Forall2 (image rho) row row' -> image rho (cell_at row j) (cell_at row' j).
Proof.
  intro HF. unfold cell_at. pose proof (Forall2_nth_error _ _ _ j HF) as K. unfold gstr in *.
  destruct (nth_error row j), (nth_error row' j); try contradiction; [exact K|reflexivity].
Qed.

Lemma col_count_image (data data' : list (list (list Z))) : Forall2 (Forall2 (image rho)) data data' -> forall acc,
  fold_left (fun acc row => Nat.max acc (length row)) data' acc = fold_left (fun acc row => Nat.max acc (length row)) data acc.
Proof.
  induction 1 as [|row row' data data' Hr _ IH]; intro acc; [reflexivity|]. cbn [fold_left]. pose proof (Forall2_len _ _ _ Hr) as E. unfold gstr in *. rewrite E. apply IH.
Qed.

Lemma col_width_image (data data' : list (list (list Z))) col : Forall2 (Forall2 (image rho)) data data' -> forall acc,
  fold_left (fun acc row => let l := glen (cell_at row col) in if acc <=? l then l else acc) data' acc =
  fold_left (fun acc row => let l := glen (cell_at row col) in if acc <=? l then l else acc) data acc.
Proof.
  induction 1 as [|row row' data data' Hr _ IH]; intro acc; [reflexivity|]. cbn [fold_left]. rewrite IH. f_equal.
  cbv zeta. replace (glen (cell_at row' col)) with (glen (cell_at row col)); [reflexivity|].
  unfold glen. symmetry. apply (image_len rho _ _ (cell_at_image row row' col Hr)).
Qed.

Lemma mt_params_image data data' width border hl : Forall2 (Forall2 (image rho)) data data' ->
  mt_params data' width border hl = mt_params data width border hl.
Proof.
  intro HF. unfold mt_params, col_content_width. unfold gstr in *. destruct HF as [|row row' data data' Hr HF]; [reflexivity|].
  assert (HF' : Forall2 (Forall2 (image rho)) (row :: data) (row' :: data')) by (constructor; assumption).
  rewrite (col_count_image _ _ HF' 0%nat).
  destruct (fold_left (fun acc row0 => Nat.max acc (length row0)) (row :: data) 0%nat) as [|cc]; [reflexivity|].
  match goal with |- context [map ?f (seq 0 (S cc))] =>
    match f with context [row'] => rewrite (map_ext f (fun col => fold_left (fun acc r => let l := glen (cell_at r col) in if acc <=? l then l else acc) (row :: data) 0)) end end.
  - reflexivity.
  - intro col. apply (col_width_image _ _ col HF').
Qed.

(* the widths MakeTable chooses leave every body cell the room its padding needs *)
Lemma mt_fits data width border ws W : mt_params data width border 1 = Some (ws, W) ->
  (forall row c, In row data -> In c row -> all_safe c) ->
  Forall (fun w => 0 <= w) ws /\ forall i row, nth_error data i = Some row -> fits border false row ws 0.
Proof.
  unfold mt_params. intros Hp Hsafe.
  destruct data as [|row0 data']; [discriminate|]. set (data := row0 :: data') in *.
  set (colCount := fold_left (fun acc row => Nat.max acc (length row)) data O) in *.
  destruct colCount as [|cc] eqn:Ecc; [discriminate|]. rewrite <- Ecc in *. cbv zeta in Hp.
  rewrite map_combine_seq in Hp.
  set (padded := map (fun i => col_content_width data i + (if border then 2 else if Nat.ltb (S i) colCount then 2 else 0)) (seq 0 colCount)) in *.
  assert (Hplen : zlen padded = Z.of_nat colCount) by (unfold padded, zlen; rewrite map_length, seq_length; reflexivity).
  assert (Hppos : Forall (fun w => 0 <= w) padded).
  { unfold padded. apply Forall_forall. intros w Hw. apply in_map_iff in Hw as (i & <- & _). pose proof (col_width_nonneg data i).
    destruct border; [lia|]. destruct (Nat.ltb (S i) colCount); lia. }
  set (minw := (if border then 1 else 0) + sumZ padded + (if border then 1 * Z.of_nat colCount else 0)) in *.
  set (n := if negb border && Nat.ltb 1 colCount then Z.of_nat colCount - 1 else Z.of_nat colCount) in *.
  assert (Hn : 0 < n <= zlen padded).
  { unfold n. rewrite Hplen. destruct (negb border && Nat.ltb 1 colCount) eqn:E; [|lia].
    apply andb_true_iff in E as [_ E]. apply Nat.ltb_lt in E. lia. }
  assert (Hge : Forall2 (fun a b => a <= b) padded ws).
  { destruct (0 <? width - minw) eqn:E; injection Hp as <- _; [apply add_space_ge; apply Z.div_pos; lia|].
    clear. induction padded; constructor; [lia|assumption]. }
  assert (Hlenws : length ws = colCount).
  { rewrite <- (Forall2_len _ _ _ Hge). unfold padded. rewrite map_length, seq_length. reflexivity. }
  split.
  - clear -Hge Hppos. induction Hge; [constructor|]. inversion Hppos; subst. constructor; [lia|auto].
  - intros i row Hrow j w Hw. cbn [Nat.add].
    destruct (Forall2_nth_le _ _ _ _ Hge Hw) as (p & Hpn & Hpw). unfold padded in Hpn. apply nth_error_map_seq in Hpn as [Hj Hpe].
    assert (Hin : In row data) by (eapply nth_error_In; exact Hrow).
    pose proof (col_width_ge data j row Hin) as Hcw.
    assert (Hcell : all_safe (cell_at row j)) by (destruct (cell_at_in row j) as [->|Hc']; [apply all_safe_nil'|apply (Hsafe row _ Hin Hc')]).
    unfold cellt. split; [exact Hcell|]. rewrite Hlenws. subst p.
    destruct border; [lia|]. destruct (Nat.ltb (S j) colCount); lia.
Qed.

(* MakeTable without a header on a grid of cells and on the grid of their images *)
Theorem make_table_image data data' width sep border charSet x y z :
  let cs := parse_table_charset charSet in
  cs_corner cs = [x] -> cs_vert cs = [y] -> cs_horz cs = [z] -> pfix rho x -> pfix rho y -> pfix rho z ->
  Forall2 (Forall2 (image rho)) data data' ->
  (forall row c, In row data -> In c row -> all_safe c) -> (forall row c, In row data' -> In c row -> all_safe c) ->
  Forall2 (image rho) (b_lines (make_table data width sep false border charSet)) (b_lines (make_table data' width sep false border charSet)).
Proof.
  cbv zeta. intros Hc Hv Hh Hx Hy Hz HF Hs Hs'. rewrite !make_table_params.
  assert (Hhl : glen (cs_horz (parse_table_charset charSet)) = 1) by (rewrite Hh, glen_plain by (constructor; [exact (proj1 Hz)|constructor]); reflexivity).
  rewrite Hhl. pose proof (mt_params_image data data' width border 1 HF) as Ep. rewrite Ep.
  assert (Ep' := Ep). destruct (mt_params data width border 1) as [[ws W]|] eqn:E; [|constructor].
  destruct (mt_fits data width border ws W E Hs) as [Hws Hfit]. destruct (mt_fits data' width border ws W Ep' Hs') as [_ Hfit'].
  apply (build_table_image data data' ws W sep border _ x y z); try assumption.
  clear -HF Hfit Hfit'. revert Hfit Hfit'. induction HF as [|row row' data data' Hr HF IH]; intros Hfit Hfit'; [constructor|].
  constructor.
  - split; [exact (Hfit 0%nat row eq_refl)|split; [exact (Hfit' 0%nat row' eq_refl)|]]. intro j. apply cell_at_image, Hr.
  - apply IH; intros i r Hn; [exact (Hfit (S i) r Hn)|exact (Hfit' (S i) r Hn)].
Qed.

End C03U.
