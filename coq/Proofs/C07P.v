(* C07: CollapseSpace leaves single U+0020 as the only runs of spaces, and its final pass
   neither loses nor reorders any other code point. *)
From Coq Require Import List Bool Arith ZArith Lia.
Import ListNotations.
From Rosed Require Import Base.Res Base.ListX Base.Str Gem.Segment Gem.GString Model.Tb Model.Manip Model.Table Proofs.C18P.
Open Scope Z_scope.

Inductive NoDouble (c : Z) : list Z -> Prop :=
| nd_nil : NoDouble c []
| nd_one x : NoDouble c [x]
| nd_cons x y l : ~ (x = c /\ y = c) -> NoDouble c (y :: l) -> NoDouble c (x :: y :: l).

Lemma collapse_runs_head c s : match collapse_runs c true s with x :: _ => x <> c | [] => True end.
Proof.
  induction s as [|x s IH]; [exact I|]. cbn [collapse_runs]. destruct (x =? c) eqn:E; [exact IH|].
  apply Z.eqb_neq in E. exact E.
Qed.

Theorem collapse_runs_no_double c s prev : NoDouble c (collapse_runs c prev s).
Proof.
  revert prev; induction s as [|x s IH]; intro prev; [constructor|].
  cbn [collapse_runs]. destruct (x =? c) eqn:E.
  - destruct prev; [apply IH|].
    pose proof (collapse_runs_head c s) as Hh. specialize (IH true).
    destruct (collapse_runs c true s) as [|y l]; [constructor|]. constructor; [intros [_ Hy]; congruence|exact IH].
  - specialize (IH false). apply Z.eqb_neq in E.
    destruct (collapse_runs c false s) as [|y l]; [constructor|]. constructor; [intros [Hx _]; congruence|exact IH].
Qed.

(* the pass drops only copies of c *)
Theorem collapse_runs_keeps_others c s prev :
  filter (fun r => negb (r =? c)) (collapse_runs c prev s) = filter (fun r => negb (r =? c)) s.
Proof.
  revert prev; induction s as [|x s IH]; intro prev; [reflexivity|].
  cbn [collapse_runs]. destruct (x =? c) eqn:E.
  - destruct prev; cbn [filter]; rewrite ?E; cbn [negb]; apply IH.
  - cbn [filter]. rewrite E. cbn [negb]. f_equal. apply IH.
Qed.

(* a second pass changes nothing *)
Theorem collapse_runs_idem c s : collapse_runs c false (collapse_runs c false s) = collapse_runs c false s.
Proof.
  assert (Hgen : forall l, NoDouble c l -> forall prev, (prev = true -> match l with x :: _ => x <> c | [] => True end) ->
                 collapse_runs c prev l = l).
  { induction 1 as [|x|x y l Hxy Hnd IH]; intros prev Hp; [reflexivity| |].
    - cbn. destruct (x =? c) eqn:E; [|reflexivity]. destruct prev; [|reflexivity].
      apply Z.eqb_eq in E. specialize (Hp eq_refl). congruence.
    - change (collapse_runs c prev (x :: y :: l)) with (if x =? c then (if prev then collapse_runs c true (y :: l) else x :: collapse_runs c true (y :: l)) else x :: collapse_runs c false (y :: l)).
      destruct (x =? c) eqn:E.
      + destruct prev; [apply Z.eqb_eq in E; specialize (Hp eq_refl); congruence|].
        f_equal. apply (IH true). intros _. apply Z.eqb_eq in E. intro Hy. apply Hxy. split; assumption.
      + f_equal. apply (IH false). discriminate. }
  apply Hgen; [apply collapse_runs_no_double|discriminate].
Qed.

Section C07.
Context `{Classifier} `{Upper}.

(* CollapseSpace: in its result no two U+0020 are adjacent *)
Theorem collapse_space_no_double text sep r : collapse_space text sep = Ok r -> NoDouble SP r.
Proof.
  unfold collapse_space. destruct (collapse_loop _ _ _); cbn [bind]; try discriminate.
  intro E. injection E as <-. apply collapse_runs_no_double.
Qed.

End C07.
