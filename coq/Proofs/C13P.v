(* C13: AlignLineLeft / Right / Center produce the kept text padded to the exact width. *)
From Coq Require Import List Bool Arith ZArith Lia ZifyBool.
Import ListNotations.
From Rosed Require Import Base.Cls Base.Res Base.ListX Gem.Break Gem.Dfa Gem.Segment Gem.GString Model.Util Model.Manip
     Proofs.SegmentP Proofs.SeamP.
Open Scope Z_scope.

Section C13.
Context `{ClassifierOk}.

(* number of leading whitespace clusters *)
Fixpoint lead_ws (cl : list (list Z)) : nat :=
  match cl with c :: rest => if not_space_cluster c then O else S (lead_ws rest) | [] => O end.

Lemma lead_ws_le cl : (lead_ws cl <= length cl)%nat.
Proof. induction cl as [|c cl IH]; cbn; [lia|]. destruct (not_space_cluster c); lia. Qed.

Lemma find_idx_lead cl i :
  find_idx not_space_cluster i cl = if Nat.eqb (lead_ws cl) (length cl) then -1 else i + Z.of_nat (lead_ws cl).
Proof.
  revert i; induction cl as [|c cl IH]; intro i; cbn [find_idx lead_ws length]; [reflexivity|].
  destruct (not_space_cluster c); [cbn; lia|]. rewrite IH. cbn [Nat.eqb].
  destruct (Nat.eqb (lead_ws cl) (length cl)); lia.
Qed.

Lemma count_leading_spec text : count_leading_ws text = Z.of_nat (lead_ws (clusters text)).
Proof.
  unfold count_leading_ws, gindex_func, glen, zlen. rewrite find_idx_lead.
  destruct (Nat.eqb (lead_ws (clusters text)) (length (clusters text))) eqn:E.
  - apply Nat.eqb_eq in E. cbn. lia.
  - apply Nat.eqb_neq in E. pose proof (lead_ws_le (clusters text)).
    destruct (0 + Z.of_nat (lead_ws (clusters text)) =? -1) eqn:E2; lia.
Qed.

Lemma count_trailing_spec text : count_trailing_ws text = Z.of_nat (lead_ws (rev (clusters text))).
Proof.
  unfold count_trailing_ws, glast_index_func, glen, zlen. rewrite find_idx_lead, rev_length.
  pose proof (lead_ws_le (rev (clusters text))) as Hl. rewrite rev_length in Hl.
  destruct (Nat.eqb (lead_ws (rev (clusters text))) (length (clusters text))) eqn:E.
  - apply Nat.eqb_eq in E. cbn. lia.
  - apply Nat.eqb_neq in E. destruct (0 + Z.of_nat (lead_ws (rev (clusters text))) =? -1) eqn:E2; lia.
Qed.

(* Sub on cluster ranges *)
Lemma range_ok n a b : 0 <= a <= b -> b <= n -> range_to_indexes n a b = (a, b).
Proof.
  intros H1 H2. unfold range_to_indexes.
  destruct (a <? 0) eqn:E1; [lia|]. destruct (b <? 0) eqn:E2; [lia|].
  destruct (n <? b) eqn:E3; [lia|]. destruct (n <? a) eqn:E4; [lia|]. destruct (b <? a) eqn:E5; [lia|]. reflexivity.
Qed.

Lemma gsub_range text a b : (a <= b <= length (clusters text))%nat ->
  gsub text (Z.of_nat a) (Z.of_nat b) = concat (firstn (b - a) (skipn a (clusters text))).
Proof.
  intro Hab. unfold gsub, zlen. rewrite range_ok by lia.
  destruct (Z.of_nat a =? Z.of_nat b) eqn:E.
  - apply Z.eqb_eq in E. assert (a = b) by lia. subst. rewrite Nat.sub_diag. reflexivity.
  - unfold zslice, slice. rewrite !Nat2Z.id. reflexivity.
Qed.

Lemma range_neg_end n a t : 0 <= a -> 0 < t -> a + t <= n -> range_to_indexes n a (- t) = (a, n - t).
Proof.
  intros Ha Ht Hn. unfold range_to_indexes.
  replace (a <? 0) with false by lia. replace (- t <? 0) with true by lia. replace (- t + n <? 0) with false by lia.
  replace (n <? - t + n) with false by lia. replace (n <? a) with false by lia. replace (- t + n <? a) with false by lia.
  f_equal; lia.
Qed.

Lemma gsub_neg_end text a t : (a + t <= length (clusters text))%nat -> (0 < t)%nat ->
  gsub text (Z.of_nat a) (- Z.of_nat t) = concat (firstn (length (clusters text) - t - a) (skipn a (clusters text))).
Proof.
  intros Hat Ht. set (n := length (clusters text)).
  assert (E : gsub text (Z.of_nat a) (- Z.of_nat t) = gsub text (Z.of_nat a) (Z.of_nat (n - t))).
  { unfold gsub, zlen. fold n. rewrite range_neg_end by lia. rewrite range_ok by lia.
    replace (Z.of_nat n - Z.of_nat t) with (Z.of_nat (n - t)) by lia. reflexivity. }
  rewrite E, gsub_range by (subst n; lia). reflexivity.
Qed.

Lemma glen_concat_slice text a k :
  glen (concat (firstn k (skipn a (clusters text)))) = zlen (firstn k (skipn a (clusters text))).
Proof. unfold glen. rewrite clusters_slice. reflexivity. Qed.

(* what is kept *)
Fixpoint drop_ws (cl : list (list Z)) : list (list Z) :=
  match cl with c :: rest => if not_space_cluster c then cl else drop_ws rest | [] => [] end.
Lemma drop_ws_skipn cl : drop_ws cl = skipn (lead_ws cl) cl.
Proof. induction cl as [|c cl IH]; cbn; [reflexivity|]. destruct (not_space_cluster c); [reflexivity|exact IH]. Qed.

Definition kept_left (text : gstr) : list (list Z) := drop_ws (clusters text).
Definition kept_right (text : gstr) : list (list Z) := rev (drop_ws (rev (clusters text))).
Definition kept_center (text : gstr) : list (list Z) := rev (drop_ws (rev (drop_ws (clusters text)))).

Lemma firstn_rev_skipn {A} (l : list A) k : (k <= length l)%nat -> rev (skipn k (rev l)) = firstn (length l - k) l.
Proof.
  intro Hk. rewrite skipn_rev, rev_involutive. reflexivity.
Qed.

(* --- AlignLineLeft --- *)
Theorem align_left_text text w :
  align_left text w = concat (kept_left text) ++ spaces (Z.max 0 (w - zlen (kept_left text))).
Proof.
  unfold align_left, kept_left. rewrite count_leading_spec. rewrite drop_ws_skipn.
  set (cl := clusters text). set (k := lead_ws cl). pose proof (lead_ws_le cl) as Hk. fold k in Hk.
  assert (Hend : (if 0 <? Z.of_nat k then gsub text (Z.of_nat k) (glen text) else text) = concat (skipn k cl)).
  { destruct (0 <? Z.of_nat k) eqn:E.
    - unfold glen, zlen. fold cl. rewrite gsub_range by (fold cl; lia). fold cl.
      rewrite firstn_all2 by (rewrite skipn_length; lia). reflexivity.
    - assert (k = O) by lia. rewrite H1. cbn. subst cl. symmetry. apply clusters_concat. }
  rewrite Hend. unfold gadd. f_equal.
  assert (Hg : glen (concat (skipn k cl)) = zlen (skipn k cl)).
  { unfold glen. subst cl. rewrite clusters_skipn. reflexivity. }
  rewrite Hg. destruct (0 <? w - zlen (skipn k cl)) eqn:E; f_equal; lia.
Qed.

Definition text_ends_ok (text : gstr) : Prop := ends_ok text.

Lemma last_app_ne {A} (a b : list A) d : b <> [] -> List.last (a ++ b) d = List.last b d.
Proof.
  intro Hb. induction a as [|x a IH]; [reflexivity|]. cbn [app].
  destruct (a ++ b) as [|z l] eqn:E; [apply app_eq_nil in E as [_ E]; congruence|].
  change (List.last (x :: z :: l) d) with (List.last (z :: l) d). exact IH.
Qed.

Lemma last_concat_skipn (cl : list (list Z)) k : Forall (fun c => c <> []) cl -> skipn k cl <> [] ->
  List.last (concat (skipn k cl)) 0 = List.last (concat cl) 0.
Proof.
  revert k; induction cl as [|c cl IH]; intros k Hne Hs; [destruct k; cbn in Hs; congruence|].
  destruct k as [|k]; [reflexivity|]. cbn [skipn] in *. inversion Hne as [|? ? Hc Hne']; subst.
  rewrite (IH k Hne' Hs). cbn [concat].
  assert (Hcl : concat cl <> []).
  { destruct cl as [|c2 cl2]; [destruct k; cbn in Hs; congruence|]. inversion Hne' as [|? ? Hc2 _]; subst.
    cbn. destruct c2; [congruence|discriminate]. }
  symmetry. apply last_app_ne, Hcl.
Qed.

Lemma ends_ok_suffix text k : ends_ok text -> ends_ok (concat (skipn k (clusters text))).
Proof.
  intros [->|Hl]; [left; destruct k; reflexivity|].
  destruct (skipn k (clusters text)) eqn:E; [left; reflexivity|]. right.
  rewrite <- E, last_concat_skipn; [rewrite clusters_concat; exact Hl|apply clusters_nonempty|rewrite E; discriminate].
Qed.

(* exact width: the kept text plus padding, never narrower than w *)
Theorem align_left_width text w : ends_ok text ->
  glen (align_left text w) = Z.max w (zlen (kept_left text)).
Proof.
  intro He. rewrite align_left_text. unfold kept_left. rewrite drop_ws_skipn.
  rewrite glen_app_spaces; [|apply ends_ok_suffix, He|lia].
  unfold glen. rewrite clusters_skipn. lia.
Qed.

(* --- AlignLineRight --- *)
Theorem align_right_text text w :
  align_right text w = spaces (Z.max 0 (w - zlen (kept_right text))) ++ concat (kept_right text).
Proof.
  unfold align_right, kept_right. rewrite count_trailing_spec, drop_ws_skipn.
  set (cl := clusters text). set (t := lead_ws (rev cl)).
  pose proof (lead_ws_le (rev cl)) as Ht. rewrite rev_length in Ht. fold t in Ht.
  rewrite firstn_rev_skipn by lia.
  assert (Hst : (if 0 <? Z.of_nat t then gsub text 0 (- Z.of_nat t) else text) = concat (firstn (length cl - t) cl)).
  { destruct (0 <? Z.of_nat t) eqn:E.
    - change 0 with (Z.of_nat 0). rewrite gsub_neg_end by (fold cl; lia). fold cl. cbn [skipn]. rewrite Nat.sub_0_r. reflexivity.
    - assert (t = O) by lia. rewrite H1, Nat.sub_0_r, firstn_all. subst cl. symmetry. apply clusters_concat. }
  rewrite Hst. unfold gadd.
  assert (Hg : glen (concat (firstn (length cl - t) cl)) = zlen (firstn (length cl - t) cl)).
  { unfold glen. subst cl. rewrite clusters_firstn. reflexivity. }
  rewrite Hg. f_equal. destruct (0 <? w - zlen (firstn (length cl - t) cl)) eqn:E; f_equal; lia.
Qed.

Lemma starts_ok_prefix text k : starts_ok text -> starts_ok (concat (firstn k (clusters text))).
Proof.
  intro Hs. pose proof (clusters_concat text) as Hc. pose proof (clusters_nonempty text) as Hn.
  destruct (clusters text) as [|c cl]; [destruct k; exact I|]. destruct k as [|k]; [exact I|].
  inversion Hn as [|? ? Hc1 _]. destruct c as [|x0 c0]; [congruence|]. cbn in Hc. rewrite <- Hc in Hs. exact Hs.
Qed.

Theorem align_right_width text w : starts_ok text ->
  glen (align_right text w) = Z.max w (zlen (kept_right text)).
Proof.
  intro Hs. rewrite align_right_text. unfold kept_right. rewrite drop_ws_skipn.
  pose proof (lead_ws_le (rev (clusters text))) as Ht. rewrite rev_length in Ht.
  rewrite firstn_rev_skipn by lia.
  change (spaces ?n ++ ?b) with (gadd (spaces n) b).
  rewrite glen_spaces_app; [|apply starts_ok_prefix, Hs|lia].
  unfold glen. rewrite clusters_firstn. lia.
Qed.

(* --- AlignLineCenter --- *)
Lemma lead_ws_app a b : (lead_ws a < length a)%nat -> lead_ws (a ++ b) = lead_ws a.
Proof.
  induction a as [|c a IH]; cbn; [lia|]. destruct (not_space_cluster c); [reflexivity|]. intro Hl. f_equal. apply IH. lia.
Qed.

Lemma lead_ws_all a : lead_ws a = length a -> forall b, lead_ws (a ++ b) = (length a + lead_ws b)%nat.
Proof.
  induction a as [|c a IH]; cbn; [reflexivity|]. destruct (not_space_cluster c); [discriminate|]. intros E b. f_equal. apply IH. lia.
Qed.

Lemma skipn_lead_head cl : (lead_ws cl < length cl)%nat ->
  exists c rest, skipn (lead_ws cl) cl = c :: rest /\ not_space_cluster c = true.
Proof.
  induction cl as [|c cl IH]; cbn; [lia|]. destruct (not_space_cluster c) eqn:E; [intros _; exists c, cl; auto|].
  intro Hl. apply IH. lia.
Qed.

Lemma lead_ws_rev_suffix cl : (lead_ws cl < length cl)%nat ->
  lead_ws (rev (skipn (lead_ws cl) cl)) = lead_ws (rev cl) /\ (lead_ws (rev cl) + lead_ws cl < length cl)%nat.
Proof.
  intro Hl. set (k := lead_ws cl).
  assert (Hrev : rev cl = rev (skipn k cl) ++ rev (firstn k cl)).
  { rewrite <- rev_app_distr, firstn_skipn. reflexivity. }
  destruct (skipn_lead_head cl Hl) as (c & rest & E & Hc). fold k in E.
  assert (Hlt : (lead_ws (rev (skipn k cl)) < length (rev (skipn k cl)))%nat).
  { rewrite E. cbn [rev]. clear -Hc. induction (rev rest) as [|x l IH]; cbn; [rewrite Hc; lia|].
    destruct (not_space_cluster x); lia. }
  rewrite Hrev, lead_ws_app by exact Hlt. split; [reflexivity|].
  rewrite rev_length, skipn_length in Hlt. lia.
Qed.

Theorem align_center_text text w :
  let kept := kept_center text in
  let need := w - zlen kept in
  align_center text w =
  if need <=? 0 then concat kept else spaces (need - need / 2) ++ concat kept ++ spaces (need / 2).
Proof.
  cbv zeta. unfold align_center, kept_center. rewrite count_leading_spec, count_trailing_spec, !drop_ws_skipn.
  set (cl := clusters text). set (k := lead_ws cl). set (n := length cl).
  pose proof (lead_ws_le cl) as Hk. fold k n in Hk.
  assert (Hmid : (if 0 <? Z.of_nat (lead_ws (rev cl)) then gsub text (Z.of_nat k) (- Z.of_nat (lead_ws (rev cl)))
                  else gsub text (Z.of_nat k) (glen text))
                 = concat (rev (skipn (lead_ws (rev (skipn k cl))) (rev (skipn k cl))))).
  { destruct (Nat.eq_dec k n) as [Ekn|Ekn].
    - (* whitespace only *)
      assert (Hs : skipn k cl = []) by (apply skipn_all2; lia). rewrite Hs. cbn [rev lead_ws skipn concat].
      assert (Hall : lead_ws (rev cl) = n).
      { clear -Ekn. subst k n. induction cl as [|c cl IH]; [reflexivity|]. cbn in Ekn. destruct (not_space_cluster c) eqn:E; [discriminate|].
        cbn [rev length]. rewrite lead_ws_all by (rewrite rev_length; apply IH; lia). rewrite rev_length. cbn. rewrite E. lia. }
      rewrite Hall, Ekn. destruct (0 <? Z.of_nat n) eqn:E0.
      + unfold gsub, zlen. fold cl n. unfold range_to_indexes.
        replace (Z.of_nat n <? 0) with false by lia. replace (- Z.of_nat n <? 0) with true by lia.
        replace (- Z.of_nat n + Z.of_nat n <? 0) with false by lia.
        replace (- Z.of_nat n + Z.of_nat n) with 0 by lia. replace (Z.of_nat n <? 0) with false by lia.
        replace (Z.of_nat n <? Z.of_nat n) with false by lia. replace (0 <? Z.of_nat n) with true by lia.
        rewrite Z.eqb_refl. reflexivity.
      + assert (Hn0 : n = O) by lia. unfold gsub, glen, zlen. fold cl n. rewrite Hn0. reflexivity.
    - assert (Hlt : (k < n)%nat) by lia.
      destruct (lead_ws_rev_suffix cl Hlt) as [E1 E2]. fold k in E1, E2. rewrite E1. set (t := lead_ws (rev cl)) in *.
      rewrite skipn_rev, rev_involutive, skipn_length. fold n.
      destruct (0 <? Z.of_nat t) eqn:E0.
      + rewrite gsub_neg_end by (fold cl n; lia). fold cl n. f_equal. f_equal. lia.
      + assert (t = O) by lia. unfold glen, zlen. fold cl n. rewrite gsub_range by (fold cl n; lia). fold cl.
        f_equal. f_equal. lia. }
  rewrite Hmid.
  set (kept := rev (skipn (lead_ws (rev (skipn k cl))) (rev (skipn k cl)))).
  assert (Hg : glen (concat kept) = zlen kept).
  { subst kept. rewrite skipn_rev, rev_involutive. unfold glen. subst cl. rewrite clusters_slice. reflexivity. }
  rewrite Hg. destruct (w - zlen kept <=? 0); [reflexivity|]. unfold gadd. rewrite <- app_assoc. reflexivity.
Qed.

Lemma in_skipn' {A} (x : A) a l : In x (skipn a l) -> In x l.
Proof. revert l; induction a as [|a IH]; intros l Hx; [exact Hx|]. destruct l; [destruct Hx|]. right. apply IH, Hx. Qed.
Lemma in_firstn' {A} (x : A) j l : In x (firstn j l) -> In x l.
Proof. revert l; induction j as [|j IH]; intros l Hx; [destruct Hx|]. destruct l; [destruct Hx|]. destruct Hx as [->|Hx]; [left; reflexivity|right; apply IH, Hx]. Qed.

Definition all_safe (text : gstr) : Prop := Forall (fun c => starts_ok c /\ ends_ok c) (clusters text).

Lemma slice_safe text a j : all_safe text ->
  starts_ok (concat (firstn j (skipn a (clusters text)))) /\ ends_ok (concat (firstn j (skipn a (clusters text)))).
Proof.
  intro Hs. unfold all_safe in Hs. pose proof (clusters_nonempty text) as Hn.
  assert (Hs' : Forall (fun c => starts_ok c /\ ends_ok c) (firstn j (skipn a (clusters text)))).
  { apply Forall_forall. intros c Hc. rewrite Forall_forall in Hs. apply Hs. apply (in_skipn' c a). apply (in_firstn' c j). exact Hc. }
  assert (Hn' : Forall (fun c => c <> []) (firstn j (skipn a (clusters text)))).
  { apply Forall_forall. intros c Hc. rewrite Forall_forall in Hn. apply Hn. apply (in_skipn' c a). apply (in_firstn' c j). exact Hc. }
  generalize dependent (firstn j (skipn a (clusters text))). intros l Hl Hne. split.
  - destruct l as [|c l]; [exact I|]. inversion Hl as [|? ? [Hc _] _]; subst. inversion Hne as [|? ? Hc0 _]; subst.
    destruct c as [|x c]; [congruence|]. exact Hc.
  - induction l as [|c l IH]; [left; reflexivity|]. inversion Hl as [|? ? [_ Hc] Hl']; subst. inversion Hne as [|? ? Hc0 Hne']; subst.
    destruct l as [|c2 l2].
    + cbn. rewrite app_nil_r. exact Hc.
    + specialize (IH Hl' Hne'). inversion Hne' as [|? ? Hc2 _]; subst.
      assert (Hcc : concat (c2 :: l2) <> []) by (cbn; destruct c2; [congruence|discriminate]).
      right. cbn [concat]. rewrite last_app_ne by exact Hcc. destruct IH as [IH|IH]; [congruence|exact IH].
Qed.

Theorem align_center_width text w : all_safe text ->
  glen (align_center text w) = Z.max w (zlen (kept_center text)).
Proof.
  intros Hs. rewrite align_center_text. cbv zeta.
  assert (Hk : exists a j, kept_center text = firstn j (skipn a (clusters text))).
  { unfold kept_center. rewrite !drop_ws_skipn, skipn_rev, rev_involutive. eauto. }
  destruct Hk as (a & j & Hk). rewrite Hk.
  assert (Hg : glen (concat (firstn j (skipn a (clusters text)))) = zlen (firstn j (skipn a (clusters text)))) by apply glen_concat_slice.
  destruct (w - zlen (firstn j (skipn a (clusters text))) <=? 0) eqn:E; [rewrite Hg; lia|].
  set (need := w - zlen (firstn j (skipn a (clusters text)))) in *.
  assert (Hn : 0 < need) by lia.
  assert (H2 : 0 <= need / 2) by (apply Z.div_pos; lia).
  assert (H3 : need / 2 <= need) by (apply Z.div_le_upper_bound; lia).
  destruct (slice_safe text a j Hs) as [Hks Hke].
  set (kept := concat (firstn j (skipn a (clusters text)))) in *.
  change (spaces (need - need / 2) ++ kept ++ spaces (need / 2)) with (gadd (spaces (need - need / 2)) (gadd kept (spaces (need / 2)))).
  rewrite glen_spaces_app; [|destruct kept as [|x kp]; [|exact Hks]|lia].
  - rewrite glen_app_spaces by (assumption || lia). rewrite Hg. lia.
  - cbn [gadd app]. rewrite spaces_eq. destruct (Z.to_nat (need / 2)); [exact I|]. cbn. rewrite sp_plain. repeat split; discriminate.
Qed.

End C13.
