(* C05: committing a sub-editor rewrites exactly the selected region. *)
From Coq Require Import List Bool ZArith Lia.
Import ListNotations.
From Rosed Require Import Base.Res Base.ListX Base.Utf8 Gem.Segment Gem.GString Model.Util Model.Options Model.Editor.
Open Scope Z_scope.

Lemma zsub_ok {A} (l : list A) a b : 0 <= a <= b -> b <= zlen l -> zsub l a b = Ok (zslice l a b).
Proof.
  intros H1 H2. unfold zsub.
  destruct (a <? 0) eqn:E1; [lia|]. destruct (b <? a) eqn:E2; [lia|]. destruct (zlen l <? b) eqn:E3; [lia|]. reflexivity.
Qed.

Lemma zsub_inv {A} (l : list A) a b r : zsub l a b = Ok r -> 0 <= a <= b /\ b <= zlen l /\ r = zslice l a b.
Proof.
  unfold zsub. destruct (a <? 0) eqn:E1; [discriminate|]. destruct (b <? a) eqn:E2; [discriminate|].
  destruct (zlen l <? b) eqn:E3; [discriminate|]. cbn. intro E. injection E as <-. repeat split; lia.
Qed.

Lemma zslice_0 {A} (l : list A) b : zslice l 0 b = firstn (Z.to_nat b) l.
Proof. unfold zslice, slice. cbn. rewrite Nat.sub_0_r. reflexivity. Qed.

Lemma zslice_to_end {A} (l : list A) a : 0 <= a -> zslice l a (zlen l) = skipn (Z.to_nat a) l.
Proof.
  intro Ha. unfold zslice, slice, zlen. rewrite Nat2Z.id. apply firstn_all2. rewrite skipn_length. lia.
Qed.

Lemma skipn_skipn' {A} (a b : nat) (l : list A) : skipn a (skipn b l) = skipn (b + a) l.
Proof. revert l; induction b as [|b IH]; intro l; [reflexivity|]. destruct l; [destruct a; reflexivity|]. cbn. apply IH. Qed.

(* the three parts of a selection concatenate to the text *)
Lemma split3 {A} (l : list A) a b : 0 <= a <= b -> b <= zlen l ->
  firstn (Z.to_nat a) l ++ zslice l a b ++ skipn (Z.to_nat b) l = l.
Proof.
  intros H1 H2. unfold zslice, slice.
  rewrite <- (firstn_skipn (Z.to_nat a) l) at 4. f_equal.
  rewrite <- (firstn_skipn (Z.to_nat b - Z.to_nat a) (skipn (Z.to_nat a) l)) at 2. f_equal.
  rewrite skipn_skipn'. f_equal. lia.
Qed.

(* selecting [s, en) of p *)
Lemma sub_ed_spec p s en : 0 <= s <= en -> en <= zlen (e_text p) ->
  sub_ed p s en = Ok (Ed (zslice (e_text p) s en) (e_opts p) (Some (p, s, en))).
Proof. intros H1 H2. unfold sub_ed. rewrite zsub_ok by assumption. reflexivity. Qed.

Lemma sub_ed_inv p s en e : sub_ed p s en = Ok e ->
  0 <= s <= en /\ en <= zlen (e_text p) /\ e = Ed (zslice (e_text p) s en) (e_opts p) (Some (p, s, en)).
Proof.
  unfold sub_ed. destruct (zsub (e_text p) s en) eqn:E; cbn; try discriminate.
  intro H. injection H as <-. apply zsub_inv in E as (H1 & H2 & ->). repeat split; lia.
Qed.

(* whatever text t' the sub-editor holds when it is committed, the result is the
   parent with exactly [s, en) replaced by t': every byte before and after is in place *)
Theorem commit_splice p s en sel t' :
  sub_ed p s en = Ok sel ->
  commit (with_text sel t') =
  Ok (Ed (firstn (Z.to_nat s) (e_text p) ++ t' ++ skipn (Z.to_nat en) (e_text p)) (e_opts p) (e_ref p)).
Proof.
  intro Hs. apply sub_ed_inv in Hs as (H1 & H2 & ->). unfold commit, with_text. cbn [e_ref e_opts e_text].
  rewrite zsub_ok by lia. rewrite zsub_ok by lia. cbn [bind]. rewrite zslice_0, zslice_to_end by lia. reflexivity.
Qed.

(* every operation that only replaces the text keeps the reference, so the above
   applies to whatever sequence of such operations produced t' *)
Lemma with_text_ref e t : e_ref (with_text e t) = e_ref e.
Proof. destruct e; reflexivity. Qed.
Lemma with_options_ref e o : e_ref (with_options e o) = e_ref e.
Proof. destruct e; reflexivity. Qed.

(* committing an unedited selection gives back the parent *)
Theorem commit_unedited p s en sel : sub_ed p s en = Ok sel -> commit sel = Ok p.
Proof.
  intro Hs. pose proof Hs as Hi. apply sub_ed_inv in Hi as (H1 & H2 & E).
  assert (Hw : sel = with_text sel (e_text sel)) by (destruct sel; reflexivity).
  rewrite Hw, (commit_splice p s en sel _ Hs). rewrite E. cbn [e_text].
  rewrite split3 by lia. destruct p; reflexivity.
Qed.

(* committing a root editor is the identity *)
Theorem commit_root e : e_ref e = None -> commit e = Ok e.
Proof. intro H. unfold commit. rewrite H. reflexivity. Qed.

(* CommitAll / String(): commit repeatedly until a root is reached *)
Lemma commit_all_unfold e : commit_all e =
  match e_ref e with
  | None => Ok e
  | Some _ => do c <- commit e; commit_all c
  end.
Proof.
  destruct e as [t o [[[p s] en]|]]; [|reflexivity].
  unfold commit_all at 1. cbn [e_ref e_text]. unfold commit. cbn [e_ref e_text e_opts].
  destruct p as [pt po pr]. cbn [splice_up e_text e_opts e_ref].
  destruct (zsub pt 0 s) as [prefix|c|] eqn:E1; cbn [bind]; [|reflexivity|reflexivity].
  destruct (zsub pt en (zlen pt)) as [suffix|c|] eqn:E2; cbn [bind]; [|reflexivity|reflexivity].
  unfold commit_all. cbn [e_ref e_text]. destruct pr as [[[pp s'] en']|]; reflexivity.
Qed.

Theorem string_is_commit_all e :
  ed_string e = match e_ref e with None => Ok (e_text e) | Some _ => do c <- commit_all e; Ok (e_text c) end.
Proof. unfold ed_string, is_sub_editor. destruct (e_ref e); reflexivity. Qed.

(* an unedited sub-editor of a root converts back to the original text *)
Theorem string_unedited_root p s en sel : e_ref p = None -> sub_ed p s en = Ok sel -> ed_string sel = Ok (e_text p).
Proof.
  intros Hr Hs. rewrite string_is_commit_all. pose proof Hs as Hi. apply sub_ed_inv in Hi as (_ & _ & E).
  rewrite E at 1. cbn [e_ref]. rewrite commit_all_unfold. rewrite E at 1. cbn [e_ref].
  rewrite (commit_unedited _ _ _ _ Hs). cbn [bind]. rewrite commit_all_unfold, Hr. reflexivity.
Qed.

(* and at any depth: String() of an unedited selection is String() of what it was selected from *)
Theorem string_unedited p s en sel : sub_ed p s en = Ok sel -> ed_string sel = ed_string p.
Proof.
  intro Hs. rewrite !string_is_commit_all. pose proof Hs as Hi. apply sub_ed_inv in Hi as (_ & _ & E).
  rewrite E at 1. cbn [e_ref]. rewrite commit_all_unfold. rewrite E at 1. cbn [e_ref].
  rewrite (commit_unedited _ _ _ _ Hs). cbn [bind]. rewrite commit_all_unfold.
  destruct (e_ref p); reflexivity.
Qed.
