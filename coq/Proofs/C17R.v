(* C17, continued: an Options value and its WithDefaults form give the same result for every
   operation, whenever WithDefaults is idempotent on it (which C17_three_clusters shows for every
   table character set of plain code points, and C17_idempotent for every one that comes out
   three clusters long). Every XOpts reads its options through WithDefaults only. *)
From Coq Require Import List Bool Arith ZArith Lia.
Import ListNotations.
From Rosed Require Import Base.Res Base.ListX Base.Utf8 Base.Str Gem.Segment Gem.GString Model.Util Model.Tb Model.Manip Model.Table
     Model.Options Model.Editor Model.Ops.
Open Scope Z_scope.

Section C17R.
Context `{Classifier} `{Upper}.

Variable o : options.
Hypothesis Hidem : with_defaults (with_defaults o) = with_defaults o.

Lemma apply_opts_wd op e : apply_opts op (with_defaults o) e = apply_opts op o e.
Proof. unfold apply_opts. rewrite Hidem. reflexivity. Qed.

Lemma apply_gparagraphs_wd op e : apply_gparagraphs op (with_defaults o) e = apply_gparagraphs op o e.
Proof. unfold apply_gparagraphs. rewrite Hidem. reflexivity. Qed.

Lemma paras_loop_ext (op op' : gpara_op) : (forall i p a b, op i p a b = op' i p a b) ->
  forall paras idx trim ambig lineSep np ps, paras_loop op idx paras trim ambig lineSep np ps = paras_loop op' idx paras trim ambig lineSep np ps.
Proof.
  intro Hop. induction paras as [|para0 rest IH]; intros idx trim ambig lineSep np ps; [reflexivity|].
  cbn [paras_loop]. destruct (match rest with [] => _ | nxt :: _ => _ end) as [[suf para] trim']. rewrite Hop, IH. reflexivity.
Qed.

Lemma apply_gparagraphs_ext (op op' : gpara_op) opts e : (forall i p a b, op i p a b = op' i p a b) ->
  apply_gparagraphs op opts e = apply_gparagraphs op' opts e.
Proof. intro Hop. unfold apply_gparagraphs. cbv zeta. rewrite (paras_loop_ext op op' Hop). reflexivity. Qed.

Theorem wrap_opts_wd w e : wrap_opts w (with_defaults o) e = wrap_opts w o e.
Proof. unfold wrap_opts. rewrite Hidem. reflexivity. Qed.

Theorem justify_opts_wd w e : justify_opts w (with_defaults o) e = justify_opts w o e.
Proof. unfold justify_opts. rewrite Hidem. reflexivity. Qed.

Theorem align_opts_wd a w e : align_opts a w (with_defaults o) e = align_opts a w o e.
Proof. unfold align_opts. rewrite Hidem. reflexivity. Qed.

Theorem collapse_space_opts_wd e : collapse_space_opts (with_defaults o) e = collapse_space_opts o e.
Proof. unfold collapse_space_opts. rewrite Hidem. reflexivity. Qed.

Theorem indent_opts_wd level e : indent_opts level (with_defaults o) e = indent_opts level o e.
Proof.
  unfold indent_opts. rewrite Hidem. destruct (level <? 1); [reflexivity|].
  destruct (repeat_str _ _) as [ind| |]; cbn [bind]; try reflexivity.
  destruct (o_preserve (with_defaults o)); [|apply apply_opts_wd].
  unfold apply_paragraphs_opts. rewrite apply_gparagraphs_wd. apply apply_gparagraphs_ext. intros i p a b.
  rewrite apply_opts_wd. unfold apply_opts, with_options, edit, with_text. cbn [e_text e_opts e_ref]. cbv zeta.
  destruct (apply_each _ 0 _) as [ap| |]; cbn [bind]; reflexivity.
Qed.

Theorem two_columns_wd pos lt rt gap width m ex e :
  insert_two_columns_opts pos lt rt gap width m ex (with_defaults o) e = insert_two_columns_opts pos lt rt gap width m ex o e.
Proof. unfold insert_two_columns_opts. rewrite Hidem. reflexivity. Qed.

Theorem definitions_table_wd pos defs width e :
  insert_definitions_table_opts pos defs width (with_defaults o) e = insert_definitions_table_opts pos defs width o e.
Proof. unfold insert_definitions_table_opts. rewrite Hidem. reflexivity. Qed.

Theorem table_wd pos data width e : insert_table_opts pos data width (with_defaults o) e = insert_table_opts pos data width o e.
Proof. unfold insert_table_opts. rewrite Hidem. reflexivity. Qed.

End C17R.
