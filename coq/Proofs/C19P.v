(* C19: cached cluster boundaries never go stale. The mathematical core is that the
   boundaries of a substring taken between two boundaries are the rebased slice of the
   boundaries of the whole (context-freeness of the segmentation at a break), which is
   what String.Sub computes instead of re-segmenting. *)
From Coq Require Import List Bool Arith ZArith Lia.
Import ListNotations.
From Rosed Require Import Base.Cls Base.Res Base.ListX Gem.Break Gem.Dfa Gem.Segment Gem.GString Gem.GHeap Model.Util
     Proofs.SegmentP Proofs.C04P.
Open Scope nat_scope.

Section C19.
Context `{Classifier}.

Lemma ends_from_shift i d cl : ends_from (i + d) cl = map (fun x => x + d) (ends_from i cl).
Proof.
  revert i; induction cl as [|c cl IH]; intro i; [reflexivity|]. cbn [ends_from map].
  replace (i + d + length c) with (i + length c + d) by lia. rewrite IH. reflexivity.
Qed.

Lemma firstn_ends_from k i cl : firstn k (ends_from i cl) = ends_from i (firstn k cl).
Proof. revert i cl; induction k as [|k IH]; intros i cl; [reflexivity|]. destruct cl; [reflexivity|]. cbn. f_equal. apply IH. Qed.

Lemma skipn_ends_from a i cl : skipn a (ends_from i cl) = ends_from (i + roff cl a) (skipn a cl).
Proof.
  revert i cl; induction a as [|a IH]; intros i cl.
  - unfold roff. cbn. rewrite Nat.add_0_r. reflexivity.
  - destruct cl as [|c cl]; [reflexivity|]. cbn [ends_from skipn]. rewrite IH. unfold roff. cbn [firstn concat].
    rewrite app_length. f_equal. lia.
Qed.

(* the rebasing loop of Sub *)
Definition rebase (d : nat) (ends : list nat) : list nat := map (fun x => x - d) ends.

Theorem sub_boundaries rs a k :
  rebase (roff (clusters rs) a) (firstn k (skipn a (split_runes rs)))
  = split_runes (concat (firstn k (skipn a (clusters rs)))).
Proof.
  rewrite <- !clusters_ends. rewrite clusters_slice.
  rewrite skipn_ends_from, firstn_ends_from. cbn [Nat.add].
  change (roff (clusters rs) a) with (0 + roff (clusters rs) a) at 2. rewrite ends_from_shift.
  unfold rebase. rewrite map_map. rewrite <- (map_id (ends_from 0 _)) at 2. apply map_ext. intro x. lia.
Qed.

(* the runes Sub keeps are those clusters *)
Theorem sub_runes rs a b : a <= b <= length (clusters rs) ->
  slice rs (roff (clusters rs) a) (roff (clusters rs) b) = concat (firstn (b - a) (skipn a (clusters rs))).
Proof.
  intro Hab. rewrite <- (clusters_concat rs) at 1. rewrite slice_roff by exact Hab. reflexivity.
Qed.

(* the rune offsets Sub reads from the cache are the cluster offsets *)
Lemma nth_ends_from cl i k : k < length cl -> nth_error (ends_from i cl) k = Some (i + roff cl (S k)).
Proof.
  revert i k; induction cl as [|c cl IH]; intros i k Hk; [cbn in Hk; lia|].
  destruct k as [|k].
  - cbn. unfold roff. cbn. rewrite app_nil_r. reflexivity.
  - cbn [ends_from nth_error]. rewrite IH by (cbn in Hk; lia). unfold roff. cbn [firstn concat]. rewrite !app_length. f_equal. lia.
Qed.

(* a filled, correct cache stays correct through Sub: the heap model's Sub yields a value
   whose runes are the pure Sub's and whose cell holds exactly their boundaries *)
Theorem gh_sub_correct h v l start end_ :
  g_c v = Some l -> rd h l = Some (split_runes (g_r v)) ->
  let '(h', r) := gh_sub h v start end_ in
  match r with
  | Ok v' => g_r v' = gsub (g_r v) start end_ /\
             (v' = gzero \/ exists l', g_c v' = Some l' /\ length h <= l' /\ rd h' l' = Some (split_runes (g_r v')))
  | _ => False
  end.
Proof.
  intros Hc Hrd. unfold gh_sub, initialized. rewrite Hc.
  unfold gh_len, initialized. rewrite Hc. unfold cell_of at 1. rewrite Hc, Hrd.
  set (cl := clusters (g_r v)).
  assert (Hlen : zlen (split_runes (g_r v)) = zlen cl).
  { rewrite <- clusters_ends. unfold zlen. f_equal. clear. generalize 0. subst cl. generalize (clusters (g_r v)).
    induction l as [|c l IH]; intro i; [reflexivity|]. cbn. f_equal. apply IH. }
  rewrite Hlen. unfold gsub. fold cl.
  pose proof (range_to_indexes_bounds (zlen cl) start end_ ltac:(unfold zlen; lia)) as Hb.
  destruct (range_to_indexes (zlen cl) start end_) as [s e]. destruct Hb as [[Hs0 Hse] Hen].
  destruct (s =? e)%Z eqn:Ese; [split; [reflexivity|left; reflexivity]|].
  assert (Hlt : (s < e)%Z) by (apply Z.eqb_neq in Ese; lia).
  (* the receiver's cell is already filled *)
  assert (Hfill : fill h v = h) by (unfold fill, cell_of; rewrite Hc, Hrd; reflexivity).
  rewrite Hfill. unfold gh_clone, initialized. rewrite Hc. unfold alloc.
  assert (Hrd1 : rd (h ++ [None]) (cell_of v) = Some (split_runes (g_r v))).
  { unfold cell_of. rewrite Hc. unfold rd in *. destruct (nth_error h l) as [c|] eqn:En; [|discriminate].
    rewrite nth_error_app1 by (apply nth_error_Some; congruence). rewrite En. exact Hrd. }
  rewrite Hrd1. cbn [cell_of g_c g_r].
  set (h2 := (h ++ [None]) ++ [Some (split_runes (g_r v))]).
  assert (Hrd2 : rd h2 (length (h ++ [None])) = Some (split_runes (g_r v))).
  { unfold rd, h2. rewrite nth_error_app2 by lia. rewrite Nat.sub_diag. reflexivity. }
  rewrite Hrd2.
  (* the two reads of the cache *)
  set (a := Z.to_nat s). set (b := Z.to_nat e).
  assert (Hab : a < b /\ b <= length cl) by (unfold a, b, zlen in *; lia). destruct Hab as [Hab Hbl].
  assert (Hends : split_runes (g_r v) = ends_from 0 cl) by (symmetry; apply clusters_ends).
  assert (Hget : forall k, k < length cl -> ends_get (split_runes (g_r v)) (Z.of_nat k) = Ok (roff cl (S k))).
  { intros k Hk. unfold ends_get. replace (Z.of_nat k <? 0)%Z with false by lia. rewrite Nat2Z.id, Hends, nth_ends_from by exact Hk. reflexivity. }
  assert (Hrs : (if (0 <? s)%Z then ends_get (split_runes (g_r v)) (s - 1) else Ok 0) = Ok (roff cl a)).
  { destruct (0 <? s)%Z eqn:E0.
    - replace (s - 1)%Z with (Z.of_nat (a - 1)) by (unfold a; lia). rewrite Hget by lia. f_equal. f_equal. unfold a in *. lia.
    - assert (a = 0) by (unfold a; lia). rewrite H0. reflexivity. }
  rewrite Hrs. cbn [bind]. replace (e - 1)%Z with (Z.of_nat (b - 1)) by (unfold b; lia). rewrite Hget by lia. cbn [bind].
  replace (S (b - 1)) with b by lia.
  split.
  - cbn [g_r]. unfold zslice. fold a b. rewrite <- (clusters_concat (g_r v)) at 1. fold cl. rewrite slice_roff by lia. reflexivity.
  - right. exists (length (h ++ [None])). cbn [g_c]. split; [reflexivity|]. split; [rewrite app_length; cbn; lia|].
    unfold wr, rd. cbn [g_r]. 
    assert (Hset : nth_error (set_nth h2 (length (h ++ [None])) (Some (if 0 <? roff cl a then map (fun x => x - roff cl a) (zslice (split_runes (g_r v)) s e) else zslice (split_runes (g_r v)) s e)))
                     (length (h ++ [None])) = Some (Some (if 0 <? roff cl a then map (fun x => x - roff cl a) (zslice (split_runes (g_r v)) s e) else zslice (split_runes (g_r v)) s e))).
    { unfold h2. generalize (h ++ [None]). intro l0. induction l0; cbn; [reflexivity|assumption]. }
    rewrite Hset. f_equal.
    pose proof (sub_boundaries (g_r v) a (b - a)) as Hsb. fold cl in Hsb. unfold rebase in Hsb.
    assert (Hsl : slice (g_r v) (roff cl a) (roff cl b) = concat (firstn (b - a) (skipn a cl))).
    { rewrite <- (clusters_concat (g_r v)) at 1. fold cl. apply slice_roff. lia. }
    rewrite Hsl, <- Hsb. unfold zslice, slice. fold a b.
    destruct (0 <? roff cl a) eqn:E0; [reflexivity|].
    apply Nat.ltb_ge in E0. assert (roff cl a = 0) by lia. rewrite H0.
    rewrite <- (map_id (firstn (b - a) (skipn a (split_runes (g_r v))))) at 1. apply map_ext. intro x. lia.
Qed.

Lemma zlen_split_runes rs : zlen (split_runes rs) = glen rs.
Proof.
  rewrite <- clusters_ends. unfold glen, zlen. f_equal. generalize 0. generalize (clusters rs). intro cl.
  induction cl as [|c cl IH]; intro i; [reflexivity|]. cbn. f_equal. apply IH.
Qed.

Lemma rd_set_same h l c : l < length h -> rd (set_nth h l c) l = c.
Proof. revert l; induction h as [|x h IH]; intros l Hl; [cbn in Hl; lia|]. destruct l; [reflexivity|]. cbn in *. apply IH. lia. Qed.

(* Len: answers as a fresh value would, and leaves the cell empty (only for the empty string) or correctly filled *)
Theorem gh_len_correct h v l : g_c v = Some l -> l < length h ->
  (rd h l = None \/ rd h l = Some (split_runes (g_r v))) ->
  let '(h', n) := gh_len h v in
  n = glen (g_r v) /\ ((rd h' l = None /\ g_r v = []) \/ rd h' l = Some (split_runes (g_r v))).
Proof.
  intros Hc Hl Hrd. unfold gh_len, initialized. rewrite Hc. unfold cell_of. rewrite Hc.
  destruct Hrd as [Hrd|Hrd]; rewrite Hrd.
  - destruct (g_r v) eqn:Er.
    + split; [reflexivity|]. left. split; [exact Hrd|reflexivity].
    + rewrite <- Er. unfold fill, cell_of. rewrite Hc, Hrd. unfold wr. rewrite rd_set_same by exact Hl.
      split; [apply zlen_split_runes|]. right. reflexivity.
  - split; [apply zlen_split_runes|]. right. exact Hrd.
Qed.

End C19.
