(* C14, continued: the two-column layout as a whole is the row-by-row juxtaposition of the two
   wrapped texts; the right column starts at the same cluster offset on every row. *)
From Coq Require Import List Bool Arith ZArith Lia ZifyBool.
Import ListNotations.
From Rosed Require Import Base.Cls Base.Res Base.ListX Base.Str Base.Utf8 Gem.Segment Gem.GString Model.Util Model.Tb Model.Manip Model.Table
     Model.Options Model.Editor Model.Ops Proofs.SegmentP Proofs.SeamP Proofs.C13P Proofs.C06Q Proofs.C14P Proofs.C15P.
Open Scope Z_scope.

Lemma maxZ_ge l : forall d, d <= maxZ d l /\ forall x, In x l -> x <= maxZ d l.
Proof.
  induction l as [|y l IH]; intro d; [split; [cbn; lia|intros ? []]|]. cbn [maxZ]. destruct (IH (Z.max d y)) as [I1 I2].
  split; [lia|]. intros x [<-|Hx]; [lia|apply I2, Hx].
Qed.

Section C14Q.
Context `{ClassifierOk} `{Upper}.

Lemma maxZ_le_bound l d b : d <= b -> (forall x, In x l -> x <= b) -> maxZ d l <= b.
Proof. revert d; induction l as [|y l IH]; intros d Hd Hb; [exact Hd|]. cbn [maxZ]. apply IH; [pose proof (Hb y (or_introl eq_refl)); lia|intros x Hx; apply Hb; right; exact Hx]. Qed.

(* CombineColumnBlocks when no left line is wider than the left width *)
Theorem combine_blocks_spec (lb rb : block) lw gap : 0 <= lw -> 0 <= gap ->
  Forall (fun l => glen l <= lw) (b_lines lb) ->
  let maxl := maxZ 0 (map glen (b_lines lb)) in
  exists cb, combine_column_blocks lb rb (gap + (lw - maxl)) = Ok cb /\
    b_lines cb = map (row_of (b_lines lb) (b_lines rb) (lw + gap)) (seq 0 (Nat.max (length (b_lines lb)) (length (b_lines rb)))).
Proof.
  intros Hlw Hgap Hfit maxl. unfold combine_column_blocks.
  assert (Hmax : 0 <= maxl <= lw).
  { unfold maxl. split; [exact (proj1 (maxZ_ge (map glen (b_lines lb)) 0))|]. apply maxZ_le_bound; [exact Hlw|].
    intros x Hx. apply in_map_iff in Hx as (l & <- & Hl). rewrite Forall_forall in Hfit. apply Hfit, Hl. }
  assert (Htot : maxl + (gap + (lw - maxl)) = lw + gap) by lia.
  destruct (b_lines lb) as [|l0 ll] eqn:El; destruct (b_lines rb) as [|r0 rl] eqn:Er.
  - exists empty_block. split; reflexivity.
  - fold maxl. rewrite Htot. rewrite combine_rows_spec by (try lia; intros l []). eexists. split; reflexivity.
  - fold maxl. rewrite Htot. rewrite combine_rows_spec; [eexists; split; reflexivity|lia|lia|].
    intros l Hl. rewrite Forall_forall in Hfit. specialize (Hfit l Hl). lia.
  - fold maxl. rewrite Htot. rewrite combine_rows_spec; [eexists; split; reflexivity|lia|lia|].
    intros l Hl. rewrite Forall_forall in Hfit. specialize (Hfit l Hl). lia.
Qed.

(* InsertTwoColumns: what is inserted *)
Theorem two_columns_layout pos lt rt gap width m ex opts e lb rb :
  let '(W, lw, rw) := two_col_widths width gap m ex in
  let o := with_defaults opts in
  let sep := decode (o_linesep o) in
  (lt <> [] \/ rt <> []) -> 0 <= gap ->
  wrap (decode lt) lw sep = Ok lb -> wrap (decode rt) rw sep = Ok rb ->
  Forall (fun l => glen l <= lw) (b_lines lb) ->
  insert_two_columns_opts pos lt rt gap width m ex opts e =
    insert pos (encode (tb_join {| b_lines := map (row_of (b_lines lb) (b_lines rb) (lw + gap))
                                                 (seq 0 (Nat.max (length (b_lines lb)) (length (b_lines rb))));
                                   b_sep := sep; b_trailing := negb (o_notrailing o) |})) e.
Proof.
  pose proof (two_col_widths_ok width gap m ex) as Hw. destruct (two_col_widths width gap m ex) as [[W lw] rw] eqn:Ew.
  destruct Hw as (HW & Hlw & Hrw & Hsum). cbv zeta. intros Hne Hgap Hlb Hrb Hfit.
  unfold insert_two_columns_opts. rewrite Ew.
  assert (Hlw0 : 0 <= lw) by lia. assert (Erw : (rw <? 2) = false) by lia.
  destruct (combine_blocks_spec lb rb lw gap Hlw0 Hgap Hfit) as (cb & Hcb & Hlines).
  destruct lt as [|l0 lt'] eqn:Elt; destruct rt as [|r0 rt'] eqn:Ert.
  - destruct Hne as [Hx|Hx]; congruence.
  - rewrite Erw, Hlb, Hrb. cbn [bind]. rewrite Hcb. cbn [bind]. rewrite Hlines. reflexivity.
  - rewrite Erw, Hlb, Hrb. cbn [bind]. rewrite Hcb. cbn [bind]. rewrite Hlines. reflexivity.
  - rewrite Erw, Hlb, Hrb. cbn [bind]. rewrite Hcb. cbn [bind]. rewrite Hlines. reflexivity.
Qed.

(* the same with the width condition on the left lines discharged by C06_width *)
Corollary two_columns_layout_safe pos lt rt gap width m ex opts e lb rb ct :
  let '(W, lw, rw) := two_col_widths width gap m ex in
  let o := with_defaults opts in
  let sep := decode (o_linesep o) in
  (lt <> [] \/ rt <> []) -> 0 <= gap ->
  collapse_space (decode lt) sep = Ok ct -> all_safe ct ->
  wrap (decode lt) lw sep = Ok lb -> wrap (decode rt) rw sep = Ok rb ->
  insert_two_columns_opts pos lt rt gap width m ex opts e =
    insert pos (encode (tb_join {| b_lines := map (row_of (b_lines lb) (b_lines rb) (lw + gap))
                                                 (seq 0 (Nat.max (length (b_lines lb)) (length (b_lines rb))));
                                   b_sep := sep; b_trailing := negb (o_notrailing o) |})) e.
Proof.
  pose proof (two_col_widths_ok width gap m ex) as Hw. pose proof (two_columns_layout pos lt rt gap width m ex opts e lb rb) as HL.
  destruct (two_col_widths width gap m ex) as [[W lw] rw]. destruct Hw as (_ & Hlw & _ & _). cbv zeta in *.
  intros Hne Hgap Hc Hs Hlb Hrb. apply HL; try assumption.
  pose proof (wrap_width _ _ _ _ _ Hc Hs Hlb) as Hwd. replace (Z.max lw 2) with lw in Hwd by lia. exact Hwd.
Qed.

(* every row: the right column starts at cluster offset lw + gap *)
Theorem two_columns_offset (left : list gstr) lw gap k : 0 <= gap ->
  let l := match nth_error left k with Some x => x | None => [] end in
  ends_ok l -> glen l <= lw ->
  glen (l ++ repeat SP (Z.to_nat (lw + gap - glen l))) = lw + gap.
Proof. intros Hgap l He Hl. unfold l in *. apply right_column_offset; [exact He|lia]. Qed.

End C14Q.
