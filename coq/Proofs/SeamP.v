(* Seam algebra: when text glued to spaces (or other plain code points) segments
   into the clusters of its parts. The only facts about the classifier that
   are used are collected in ClassifierOk and discharged for the Go tables in
   Inst/GoOk.v. *)
From Coq Require Import List Bool Arith ZArith Lia.
Import ListNotations.
From Rosed Require Import Base.Cls Base.ListX Gem.Break Gem.Dfa Gem.Segment Gem.GString Model.Manip Proofs.SegmentP.
Open Scope Z_scope.

Class ClassifierOk `{Classifier} := {
  ok_ascii : forall r, 32 <= r < 127 -> class_of r = Other;
  ok_space : forall r, is_space r = true ->
             class_of r = Other \/ class_of r = Control \/ class_of r = CR \/ class_of r = LF;
  ok_lf : class_of 10 = LF;
  ok_cr : class_of 13 = CR;
}.

Section Seam.
Context `{ClassifierOk}.
Arguments dbrk : simpl never.
Arguments dstep : simpl never.

Definition st_other : st := {| last := Some Other; epx := false; zwjok := false; riodd := false |}.

Lemma dstep_other s : dstep s Other = st_other.
Proof. destruct s as [l a b c]. unfold dstep, st_other. cbn. reflexivity. Qed.

Lemma last_dstep s c : last (dstep s c) = Some c.
Proof. reflexivity. Qed.

Lemma last_run s rs : rs <> [] -> last (run s rs) = Some (class_of (List.last rs 0)).
Proof.
  revert s; induction rs as [|r rs IH]; intros s Hne; [congruence|].
  destruct rs as [|r2 rs']; [reflexivity|]. change (run s (r :: r2 :: rs')) with (run (dstep s (class_of r)) (r2 :: rs')).
  rewrite IH by discriminate. reflexivity.
Qed.

(* a break before a code point of class Other, unless the previous one is a Prepend *)
Lemma dbrk_before_other s : last s <> Some Prepend -> dbrk s Other = true.
Proof. destruct s as [[[]|] a b c]; unfold dbrk; cbn; intro Hn; try reflexivity; try congruence; destruct b, c; reflexivity. Qed.

(* a break after a code point of class Other, unless the next one extends it *)
Lemma dbrk_after_other n : n <> Extend -> n <> ZWJ -> n <> SpacingMark -> dbrk st_other n = true.
Proof. destruct n; unfold dbrk, st_other; cbn; intros; try reflexivity; congruence. Qed.

Definition ends_ok (a : list Z) : Prop := a = [] \/ class_of (List.last a 0) <> Prepend.
Definition starts_ok (b : list Z) : Prop :=
  match b with [] => True | n :: _ => class_of n <> Extend /\ class_of n <> ZWJ /\ class_of n <> SpacingMark end.

Definition plain (r : Z) : Prop := class_of r = Other.

Lemma seam_before_plain a r b : ends_ok a -> plain r -> seam_ok a (r :: b).
Proof.
  intros [->|Ha] Hr; cbn; [left; reflexivity|]. destruct a as [|x a']; [left; reflexivity|right].
  rewrite Hr. apply dbrk_before_other. rewrite last_run by discriminate. congruence.
Qed.

Lemma run_snoc s a r : run s (a ++ [r]) = dstep (run s a) (class_of r).
Proof. rewrite run_app. reflexivity. Qed.

Lemma seam_after_plain a r b : plain r -> starts_ok b -> seam_ok (a ++ [r]) b.
Proof.
  intros Hr Hb. destruct b as [|n b']; cbn; [exact I|]. right.
  rewrite run_snoc, Hr, dstep_other. destruct Hb as (H1 & H2 & H3). apply dbrk_after_other; assumption.
Qed.

Lemma clusters_single_plain r : plain r -> clusters [r] = [[r]].
Proof. reflexivity. Qed.

(* text followed by a plain code point *)
Lemma clusters_snoc_plain a r : ends_ok a -> plain r -> clusters (a ++ [r]) = clusters a ++ [[r]].
Proof. intros Ha Hr. rewrite clusters_app by (apply seam_before_plain; assumption). reflexivity. Qed.

Lemma ends_ok_snoc_plain a r : plain r -> ends_ok (a ++ [r]).
Proof. intro Hr. right. rewrite last_last. rewrite Hr. discriminate. Qed.

Lemma sp_plain : plain SP. Proof. apply ok_ascii. unfold SP. lia. Qed.
Lemma hyphen_plain : plain HYPHEN. Proof. apply ok_ascii. unfold HYPHEN. lia. Qed.

(* text followed by k copies of a plain code point *)
Lemma clusters_app_repeat a r k : ends_ok a -> plain r ->
  clusters (a ++ repeat r k) = clusters a ++ repeat [r] k.
Proof.
  intros Ha Hr. induction k as [|k IH]; [cbn; rewrite !app_nil_r; reflexivity|].
  cbn [repeat]. rewrite !repeat_cons. rewrite app_assoc. rewrite clusters_snoc_plain; [rewrite IH, app_assoc; reflexivity| |exact Hr].
  destruct k; [cbn; rewrite app_nil_r; exact Ha|]. cbn [repeat]. rewrite repeat_cons, app_assoc. apply ends_ok_snoc_plain, Hr.
Qed.

Lemma clusters_repeat_plain r k : plain r -> clusters (repeat r k) = repeat [r] k.
Proof. intro Hr. apply (clusters_app_repeat [] r k); [left; reflexivity|exact Hr]. Qed.

(* k copies of a plain code point followed by text *)
Lemma clusters_repeat_app r k b : plain r -> starts_ok b ->
  clusters (repeat r k ++ b) = repeat [r] k ++ clusters b.
Proof.
  intros Hr Hb. destruct k as [|k]; [reflexivity|].
  cbn [repeat]. rewrite repeat_cons. rewrite clusters_app.
  - rewrite <- repeat_cons. change (r :: repeat r k) with (repeat r (S k)). rewrite clusters_repeat_plain by exact Hr. reflexivity.
  - apply seam_after_plain; assumption.
Qed.

Lemma repeatn_single (r : Z) k : repeatn [r] k = repeat r k.
Proof. unfold repeatn. induction k; cbn; [reflexivity|]. rewrite IHk. reflexivity. Qed.

Lemma spaces_eq n : spaces n = repeat SP (Z.to_nat n).
Proof. unfold spaces, grepeat. apply repeatn_single. Qed.

Lemma zlen_app {A} (a b : list A) : zlen (a ++ b) = zlen a + zlen b.
Proof. unfold zlen. rewrite app_length. lia. Qed.
Lemma zlen_repeat {A} (x : A) k : zlen (repeat x k) = Z.of_nat k.
Proof. unfold zlen. rewrite repeat_length. reflexivity. Qed.

Lemma glen_app_spaces a n : ends_ok a -> 0 <= n -> glen (gadd a (spaces n)) = glen a + n.
Proof.
  intros Ha Hn. unfold glen, gadd. rewrite spaces_eq, clusters_app_repeat by (assumption || apply sp_plain).
  rewrite zlen_app, zlen_repeat. lia.
Qed.

Lemma glen_spaces_app n b : starts_ok b -> 0 <= n -> glen (gadd (spaces n) b) = n + glen b.
Proof.
  intros Hb Hn. unfold glen, gadd. rewrite spaces_eq, clusters_repeat_app by (assumption || apply sp_plain).
  rewrite zlen_app, zlen_repeat. lia.
Qed.

End Seam.
