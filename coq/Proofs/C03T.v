(* C03 for the two-column layout: the rows built from a left and a right column and the rows
   built from their cluster-for-cluster images correspond row by row, the right column starting
   at the same cluster offset; with Wrap's image theorem this covers InsertTwoColumns. *)
From Coq Require Import List Bool Arith ZArith Lia ZifyBool.
Import ListNotations.
From Rosed Require Import Base.Cls Base.Res Base.ListX Base.Str Base.Utf8 Gem.Segment Gem.GString Model.Util Model.Tb Model.Manip Model.Table
     Model.Options Model.Editor Model.Ops
     Proofs.SegmentP Proofs.SeamP Proofs.C13P Proofs.C06Q Proofs.C06R Proofs.C14P Proofs.C15P Proofs.C14Q Proofs.C03P Proofs.C03W.
Open Scope Z_scope.

Lemma Forall2_nth_error {A B} (R : A -> B -> Prop) l l' k : Forall2 R l l' ->
  match nth_error l k, nth_error l' k with
  | Some x, Some y => R x y
  | None, None => True
  | _, _ => False
  end.
Proof. intro HF. revert k. induction HF as [|x y l l' Hxy HF IH]; intro k; destruct k; cbn; auto. apply IH. Qed.

Lemma Forall2_len {A B} (R : A -> B -> Prop) l l' : Forall2 R l l' -> length l = length l'.
Proof. induction 1; cbn; congruence. Qed.

Section C03T.
Context `{ClassifierOk} `{Upper}.

(* the lines Wrap returns consist of safe clusters *)
Lemma wrap_lines_safe text w sep ct b : collapse_space text sep = Ok ct -> all_safe ct -> wrap text w sep = Ok b ->
  Forall all_safe (b_lines b).
Proof.
  intros Hc Hs Hw. destruct ct as [|x ct0] eqn:Ect.
  - unfold wrap in Hw. rewrite Hc in Hw. cbn [bind] in Hw. injection Hw as <-. cbn [b_lines]. constructor; [apply all_safe_nil|constructor].
  - rewrite <- Ect in *. destruct (wrap_structure text w sep ct b Hc Hs ltac:(rewrite Ect; discriminate) Hw) as (pss & E & Hlp & _ & _).
    rewrite E. apply Forall_forall. intros l Hl. apply in_map_iff in Hl as (ps & <- & Hps).
    rewrite Forall_forall in Hlp. destruct (Hlp ps Hps) as (_ & Hpc & _). exact (proj1 (ln_props ps Hpc)).
Qed.

Variable rho : list Z -> list Z.
Hypothesis rho_sp : rho [SP] = [SP].

Lemma map_rho_repeat k : map rho (repeat [SP] k) = repeat [SP] k.
Proof. induction k; [reflexivity|]. cbn [repeat map]. rewrite rho_sp. f_equal. assumption. Qed.

(* one row: left line, at least one space of padding, right line *)
Lemma row_image l l' r r' n : (1 <= n)%nat -> ends_ok l -> ends_ok l' -> starts_ok r -> starts_ok r' ->
  image rho l l' -> image rho r r' -> image rho (l ++ repeat SP n ++ r) (l' ++ repeat SP n ++ r').
Proof.
  intros Hn El El' Sr Sr' Il Ir. unfold image in *. destruct n as [|n]; [lia|].
  rewrite (clusters_app l') by (cbn [repeat app]; apply seam_before_plain; [assumption|apply sp_plain]).
  rewrite (clusters_app l) by (cbn [repeat app]; apply seam_before_plain; [assumption|apply sp_plain]).
  rewrite !clusters_repeat_app by (apply sp_plain || assumption).
  rewrite Il, Ir, !map_app, map_rho_repeat. reflexivity.
Qed.

(* the rows of CombineColumnBlocks, when every left line is narrower than the offset of the
   right column (at least one space between the columns) *)
Theorem rows_image left left' right right' total k : 0 < total ->
  Forall2 (image rho) left left' -> Forall2 (image rho) right right' ->
  Forall all_safe left -> Forall all_safe left' -> Forall all_safe right -> Forall all_safe right' ->
  Forall (fun l => glen l < total) left ->
  image rho (row_of left right total k) (row_of left' right' total k).
Proof.
  intros Ht Hl Hr Sl Sl' Sr Sr' Hfit. unfold row_of. cbv zeta. unfold gstr in *.
  pose proof (Forall2_nth_error _ _ _ k Hl) as Kl. pose proof (Forall2_nth_error _ _ _ k Hr) as Kr.
  assert (Hsafe : forall (L : list gstr) x, Forall all_safe L -> nth_error L k = Some x -> starts_ok x /\ ends_ok x).
  { intros L x HL E. rewrite Forall_forall in HL. apply all_safe_ends, HL. eapply nth_error_In; exact E. }
  assert (Hnil : starts_ok (@nil Z) /\ ends_ok (@nil Z)) by (split; [exact I|left; reflexivity]).
  assert (Inil : image rho [] []) by reflexivity.
  destruct (nth_error left k) as [l|] eqn:El; destruct (nth_error left' k) as [l'|] eqn:El'; try contradiction;
  destruct (nth_error right k) as [r|] eqn:Er; destruct (nth_error right' k) as [r'|] eqn:Er'; try contradiction.
  all: try (assert (Hg : glen l' = glen l) by (unfold glen; apply (image_len rho l l' Kl));
            assert (Hlt : glen l < total) by (rewrite Forall_forall in Hfit; apply Hfit; eapply nth_error_In; exact El);
            rewrite Hg).
  all: apply row_image; try lia; try apply (Hsafe _ _ Sl El); try apply (Hsafe _ _ Sl' El'); try apply (Hsafe _ _ Sr Er);
       try apply (Hsafe _ _ Sr' Er'); try apply Hnil; try assumption.
  all: change (glen []) with 0; lia.
Qed.

End C03T.

Section C03T2.
Context `{ClassifierOk} `{Upper}.
Variable rho : list Z -> list Z.
Hypothesis rho_sp : rho [SP] = [SP].
Hypothesis rho_hy : rho [HYPHEN] = [HYPHEN].
Hypothesis rho_spness : forall c, (first_rune (rho c) =? SP) = (first_rune c =? SP).

(* InsertTwoColumns on two texts and on their images: both columns wrap at the same cluster
   positions (C03 for Wrap), so there are as many rows, and every row of the image is the image
   of the row - the right column starts at cluster offset lw + gap in both. At least one space
   between the columns (gap >= 1) keeps a left line from touching the right one. *)
Theorem two_columns_image lt rt lt' rt' gap width m ex sep ctl ctl' ctr ctr' lb lb' rb rb' :
  let '(W, lw, rw) := two_col_widths width gap m ex in
  1 <= gap ->
  collapse_space lt sep = Ok ctl -> collapse_space lt' sep = Ok ctl' -> all_safe ctl -> all_safe ctl' -> image rho ctl ctl' ->
  collapse_space rt sep = Ok ctr -> collapse_space rt' sep = Ok ctr' -> all_safe ctr -> all_safe ctr' -> image rho ctr ctr' ->
  wrap lt lw sep = Ok lb -> wrap lt' lw sep = Ok lb' -> wrap rt rw sep = Ok rb -> wrap rt' rw sep = Ok rb' ->
  let rows (l r : block) := map (row_of (b_lines l) (b_lines r) (lw + gap)) (seq 0 (Nat.max (length (b_lines l)) (length (b_lines r)))) in
  Forall2 (image rho) (rows lb rb) (rows lb' rb').
Proof.
  pose proof (two_col_widths_ok width gap m ex) as Hw. destruct (two_col_widths width gap m ex) as [[W lw] rw].
  destruct Hw as (_ & Hlw & _ & _).
  intros Hgap Cl Cl' Sl Sl' Il Cr Cr' Sr Sr' Ir Wl Wl' Wr Wr'. cbv beta zeta.
  pose proof (wrap_image rho rho_sp rho_hy rho_spness lt lt' lw sep ctl ctl' lb lb' Cl Cl' Sl Sl' Il Wl Wl') as Fl.
  pose proof (wrap_image rho rho_sp rho_hy rho_spness rt rt' rw sep ctr ctr' rb rb' Cr Cr' Sr Sr' Ir Wr Wr') as Fr.
  pose proof (Forall2_len _ _ _ Fl) as Ll. pose proof (Forall2_len _ _ _ Fr) as Lr. unfold gstr in *. rewrite <- Ll, <- Lr.
  assert (Hfit : Forall (fun l => glen l < lw + gap) (b_lines lb)).
  { pose proof (wrap_width lt lw sep ctl lb Cl Sl Wl) as Hwd. eapply Forall_impl; [|exact Hwd]. cbv beta. intros a Ha. lia. }
  match goal with |- Forall2 _ (map _ ?s) _ => generalize s end. intro ks.
  induction ks as [|k ks IH]; [constructor|]. cbn [map]. constructor; [|exact IH].
  apply rows_image; try assumption; try lia.
  - exact (wrap_lines_safe lt lw sep ctl lb Cl Sl Wl).
  - exact (wrap_lines_safe lt' lw sep ctl' lb' Cl' Sl' Wl').
  - exact (wrap_lines_safe rt rw sep ctr rb Cr Sr Wr).
  - exact (wrap_lines_safe rt' rw sep ctr' rb' Cr' Sr' Wr').
Qed.

End C03T2.
