(* C16, continued: column boundaries are at the same cluster offsets on every row - the rendering
   of the first k columns of any row is as many clusters wide as the first k column widths say
   (plus one border character per column and one at the start in bordered tables), whatever the
   cells contain; and a table without cells produces no output. *)
From Coq Require Import List Bool Arith ZArith Lia ZifyBool.
Import ListNotations.
From Rosed Require Import Base.Cls Base.Res Base.ListX Base.Str Gem.Segment Gem.GString Model.Util Model.Tb Model.Manip Model.Table
     Proofs.SegmentP Proofs.SeamP Proofs.C04P Proofs.C13P Proofs.C06Q Proofs.C07Q Proofs.C16P Proofs.C16Q.
Open Scope Z_scope.

Section C16R.
Context `{ClassifierOk} `{Upper}.

(* a row is rendered column by column *)
Lemma build_row_app cs row hdr border ws1 : forall ws2 col,
  build_row cs row (ws1 ++ ws2) col hdr border =
  build_row cs row ws1 col hdr border ++ build_row cs row ws2 (col + length ws1) hdr border.
Proof.
  induction ws1 as [|w ws1 IH]; intros ws2 col; [cbn [app build_row length]; rewrite Nat.add_0_r; reflexivity|].
  cbn [app build_row length]. rewrite IH. rewrite <- app_assoc. replace (S col + length ws1)%nat with (col + S (length ws1))%nat by lia. reflexivity.
Qed.

(* the first k columns have the room their padding needs if all of them have *)
Lemma nth_error_firstn_some {A} (l : list A) k j x : nth_error (firstn k l) j = Some x -> (j < k)%nat /\ nth_error l j = Some x.
Proof.
  revert l j. induction k as [|k IH]; intros l j Hn; [destruct j; discriminate|].
  destruct l as [|a l]; [destruct j; discriminate|]. destruct j as [|j]; [split; [lia|exact Hn]|].
  cbn [firstn nth_error] in Hn. destruct (IH l j Hn) as [A1 B]. split; [lia|exact B].
Qed.

Lemma fits_firstn border hdr row ws col k : fits border hdr row ws col -> fits border hdr row (firstn k ws) col.
Proof.
  intros Hf j w Hn. destruct (nth_error_firstn_some ws k j w Hn) as [Hjk Hw].
  destruct (Hf j w Hw) as [Hs Hl]. split; [exact Hs|].
  destruct border; [exact Hl|]. rewrite firstn_length.
  destruct (Nat.ltb (S j) (Nat.min k (length ws))) eqn:E1; destruct (Nat.ltb (S j) (length ws)) eqn:E2; lia.
Qed.

(* where column k starts, in clusters from the start of the line *)
Definition column_offset (border : bool) (ws : list Z) (k : nat) : Z :=
  if border then 1 + sumZ (map (fun w => w + 1) (firstn k ws)) else sumZ (firstn k ws).

(* every row splits at every column boundary into a part as wide as the offset says and the
   rendering of the remaining columns *)
Theorem row_column_offsets cs row y hdr border ws k : cs_vert cs = [y] -> plain y -> (k <= length ws)%nat ->
  fits border hdr row ws 0 ->
  let line := (if border then cs_vert cs else []) ++ build_row cs row ws 0 hdr border in
  exists P, line = P ++ build_row cs row (skipn k ws) k hdr border /\ glen P = column_offset border ws k.
Proof.
  intros Hv Hy Hk Hf line. unfold line. clear line.
  replace (build_row cs row ws 0 hdr border) with (build_row cs row (firstn k ws ++ skipn k ws) 0 hdr border) by (rewrite firstn_skipn; reflexivity).
  rewrite build_row_app. cbn [Nat.add]. rewrite firstn_length, Nat.min_l by exact Hk.
  exists ((if border then cs_vert cs else []) ++ build_row cs row (firstn k ws) 0 hdr border). split; [rewrite app_assoc; reflexivity|].
  pose proof (fits_firstn border hdr row ws 0 k Hf) as Hfk. unfold column_offset. destruct border.
  - destruct (build_row_border cs row y hdr Hv Hy (firstn k ws) 0%nat Hfk) as [Hg Hs]. rewrite Hv.
    change ([y] ++ build_row cs row (firstn k ws) 0 hdr true) with (([] ++ [y]) ++ build_row cs row (firstn k ws) 0 hdr true).
    rewrite glen_after_plain by assumption. rewrite Hg. cbn [app]. rewrite glen_plain by (constructor; [exact Hy|constructor]). unfold zlen. cbn [length]. lia.
  - destruct (build_row_plain cs row hdr (firstn k ws) 0%nat Hfk) as [Hg _]. cbn [app]. exact Hg.
Qed.

(* no cells, no table *)
Theorem make_table_no_data width sep header border charSet : b_lines (make_table [] width sep header border charSet) = [].
Proof. reflexivity. Qed.

Lemma col_count_empty_rows (data : list (list gstr)) : Forall (fun r => r = []) data -> forall acc,
  fold_left (fun acc row => Nat.max acc (length row)) data acc = acc.
Proof. induction 1 as [|r data Hr _ IH]; intro acc; [reflexivity|]. cbn [fold_left]. rewrite Hr. cbn [length]. rewrite Nat.max_0_r. apply IH. Qed.

Theorem make_table_empty_rows data width sep header border charSet : Forall (fun r => r = []) data ->
  b_lines (make_table data width sep header border charSet) = [].
Proof.
  intro HF. unfold make_table. destruct data as [|r0 data']; [reflexivity|].
  rewrite (col_count_empty_rows (r0 :: data') HF 0%nat). reflexivity.
Qed.

End C16R.
