(* C03 for JustifyLine: the justified line of a cluster-for-cluster image of a text is the
   image of the justified line. The words of a collapsed line are cut at space code points;
   when every cluster is either the single space or free of spaces (which is what CollapseSpace
   leaves, C07) those cuts are cuts between clusters, the same ones in the text and in its
   image, and the gaps are a function of the number of words and of the missing width only. *)
From Coq Require Import List Bool Arith ZArith Lia ZifyBool.
Import ListNotations.
From Rosed Require Import Base.Cls Base.Res Base.ListX Base.Str Base.Utf8 Gem.Segment Gem.GString Model.Util Model.Tb Model.Manip
     Proofs.SegmentP Proofs.SeamP Proofs.StrP Proofs.C13P Proofs.C06Q Proofs.C07Q Proofs.C12R Proofs.C03P.
Open Scope Z_scope.

(* words of a cluster list, cut at the clusters that are the single space *)
Fixpoint cw (L : list (list Z)) (cur : list (list Z)) : list (list (list Z)) :=
  match L with
  | [] => [cur]
  | c :: L' => if is_sp c then cur :: cw L' [] else cw L' (cur ++ [c])
  end.

(* the clusters of words put side by side with k_i spaces between them *)
Fixpoint interleaveC (Ws : list (list (list Z))) (gs : list nat) : list (list Z) :=
  match Ws, gs with
  | W :: Ws', k :: gs' => W ++ repeat [SP] k ++ interleaveC Ws' gs'
  | W :: _, [] => W
  | [], _ => []
  end.

Definition sp_or_free (c : list Z) : Prop := c = [SP] \/ Forall (fun r => r <> SP) c.

Lemma is_sp_true c : is_sp c = true -> c = [SP].
Proof. destruct c as [|x [|y c]]; cbn; try discriminate. intro E. f_equal. lia. Qed.

Lemma sp_or_free_is_sp c : sp_or_free c -> is_sp c = false -> Forall (fun r => r <> SP) c.
Proof. intros [->|Hf] E; [cbn in E; discriminate|exact Hf]. Qed.

Lemma has_prefix_nil' s : has_prefix s [] = true.
Proof. destruct s; reflexivity. Qed.

(* strings.Split at the space, on runs of code points without spaces *)
Lemma split_aux_free c : Forall (fun r => r <> SP) c -> forall cur s,
  split_aux 1 [SP] 0 cur (c ++ s) = split_aux 1 [SP] 0 (rev c ++ cur) s.
Proof.
  induction c as [|x c IH]; intros Hf cur s; [reflexivity|]. inversion Hf as [|? ? Hx Hf']; subst.
  cbn [app split_aux has_prefix]. replace (x =? SP) with false by lia. cbn [andb].
  rewrite IH by exact Hf'. cbn [rev]. rewrite <- app_assoc. reflexivity.
Qed.

Lemma split_aux_cw L : Forall sp_or_free L -> forall cur curcl, rev cur = concat curcl ->
  split_aux 1 [SP] 0 cur (concat L) = map (@concat Z) (cw L curcl).
Proof.
  induction L as [|c L IH]; intros HF cur curcl Hc; [cbn; rewrite Hc; reflexivity|].
  inversion HF as [|? ? Hc0 HF']; subst. cbn [concat cw]. destruct (is_sp c) eqn:Ei.
  - apply is_sp_true in Ei. subst c. cbn [app split_aux has_prefix]. rewrite Z.eqb_refl. cbn [andb Nat.sub map]. rewrite has_prefix_nil'.
    rewrite Hc. f_equal. apply IH; [exact HF'|reflexivity].
  - rewrite split_aux_free by (apply sp_or_free_is_sp; assumption). apply IH; [exact HF'|].
    rewrite rev_app_distr, rev_involutive, Hc, concat_app. cbn. rewrite app_nil_r. reflexivity.
Qed.

Lemma split_sp_cw L : Forall sp_or_free L -> split (concat L) [SP] = map (@concat Z) (cw L []).
Proof. intro HF. unfold split. cbn [length]. apply split_aux_cw; [exact HF|reflexivity]. Qed.

(* every word is a run of consecutive clusters *)
Lemma cw_slices L : forall cur W, In W (cw L cur) -> exists pre post, cur ++ L = pre ++ W ++ post.
Proof.
  induction L as [|c L IH]; intros cur W Hin.
  - destruct Hin as [<-|[]]. exists [], []. rewrite !app_nil_r. reflexivity.
  - cbn [cw] in Hin. destruct (is_sp c).
    + destruct Hin as [<-|Hin]; [exists [], (c :: L); reflexivity|].
      destruct (IH [] W Hin) as (pre & post & E). cbn [app] in E. exists (cur ++ c :: pre), post.
      rewrite E, <- app_assoc. reflexivity.
    + destruct (IH (cur ++ [c]) W Hin) as (pre & post & E). exists pre, post. rewrite <- E, <- app_assoc. reflexivity.
Qed.

Lemma cw_map (rho : list Z -> list Z) L : (forall c, is_sp (rho c) = is_sp c) ->
  forall cur, cw (map rho L) (map rho cur) = map (map rho) (cw L cur).
Proof.
  intro Hr. induction L as [|c L IH]; intro cur; [reflexivity|]. cbn [map cw]. rewrite Hr. destruct (is_sp c).
  - cbn [map]. f_equal. exact (IH []).
  - rewrite <- IH, map_app. reflexivity.
Qed.

Lemma interleaveC_map (rho : list Z -> list Z) Ws : rho [SP] = [SP] -> forall gs,
  interleaveC (map (map rho) Ws) gs = map rho (interleaveC Ws gs).
Proof.
  intro Hr. induction Ws as [|W Ws IH]; intro gs; [reflexivity|]. cbn [map interleaveC]. destruct gs as [|k gs]; [reflexivity|].
  rewrite !map_app, IH. f_equal. f_equal. clear - Hr. induction k; [reflexivity|]. cbn [repeat map]. rewrite Hr. f_equal. exact IHk.
Qed.

Lemma inc_nth_ge gs j : Forall (fun k => (1 <= k)%nat) gs -> Forall (fun k => (1 <= k)%nat) (inc_nth gs j).
Proof.
  revert j. induction gs as [|k gs IH]; intros j HF; [constructor|]. inversion HF; subst.
  destruct j; cbn [inc_nth]; constructor; try lia; auto.
Qed.

Lemma gaps_after_ge n : forall g gs sI fR, Forall (fun k => (1 <= k)%nat) gs -> Forall (fun k => (1 <= k)%nat) (gaps_after n g gs sI fR).
Proof. induction n as [|n IH]; intros g gs sI fR HF; [exact HF|]. cbn [gaps_after]. apply IH, inc_nth_ge, HF. Qed.

Lemma gaps_after_length n : forall g gs sI fR, length (gaps_after n g gs sI fR) = length gs.
Proof. induction n as [|n IH]; intros g gs sI fR; [reflexivity|]. cbn [gaps_after]. rewrite IH. apply inc_nth_length. Qed.

Lemma repeat_ge_one n : Forall (fun k => (1 <= k)%nat) (repeat 1%nat n).
Proof. induction n; constructor; [lia|assumption]. Qed.

Section C03J.
Context `{ClassifierOk}.

(* the clusters of words laid out with runs of spaces between them *)
Lemma interleave_clusters_full ws : forall gs, length ws = S (length gs) -> Forall word_ok ws -> Forall (fun k => (1 <= k)%nat) gs ->
  clusters (concat (interleave ws gs)) = interleaveC (map clusters ws) gs.
Proof.
  induction ws as [|w ws IH]; intros gs Hl Hw Hg; [discriminate|].
  inversion Hw as [|? ? [Hws Hwe] Hw']; subst. destruct gs as [|k gs].
  - destruct ws; [|discriminate]. cbn. rewrite app_nil_r. reflexivity.
  - inversion Hg as [|? ? Hk Hg']; subst. cbn [interleave concat map interleaveC].
    assert (Hl' : length ws = S (length gs)) by (cbn in Hl; lia).
    destruct (interleave_clusters ws gs Hl' Hw' Hg') as [HRs _]. rewrite <- (IH gs Hl' Hw' Hg').
    set (R := concat (interleave ws gs)) in *. destruct k as [|k]; [lia|].
    rewrite clusters_app by (cbn [repeat app]; apply seam_before_plain; [exact Hwe|apply sp_plain]).
    rewrite clusters_repeat_app by (apply sp_plain || exact HRs). reflexivity.
Qed.

Variable rho : list Z -> list Z.
Hypothesis rho_is_sp : forall c, is_sp (rho c) = is_sp c.

Lemma rho_sp : rho [SP] = [SP].
Proof. apply is_sp_true. rewrite rho_is_sp. reflexivity. Qed.

(* a word of a safe text: its clusters are the run it was cut from *)
Lemma cw_word_clusters ct W : In W (cw (clusters ct) []) -> clusters (concat W) = W.
Proof.
  intro Hin. destruct (cw_slices _ _ _ Hin) as (pre & post & E). cbn [app] in E.
  rewrite (mid_is_slice pre W post), <- E. apply clusters_slice.
Qed.

Lemma cw_word_ok ct W : all_safe ct -> In W (cw (clusters ct) []) -> word_ok (concat W).
Proof.
  intros Hs Hin. destruct (cw_slices _ _ _ Hin) as (pre & post & E). cbn [app] in E.
  rewrite (mid_is_slice pre W post), <- E. destruct (slice_safe ct (length pre) (length W) Hs) as [A B]. split; assumption.
Qed.

Theorem justify_line_image text text' w c c' j j' :
  collapse_space text [10] = Ok c -> collapse_space text' [10] = Ok c' ->
  all_safe c -> all_safe c' -> Forall sp_or_free (clusters c) -> Forall sp_or_free (clusters c') ->
  image rho c c' ->
  justify_line text w = Ok j -> justify_line text' w = Ok j' ->
  image rho j j'.
Proof.
  intros Hc Hc' Hs Hs' Hf Hf' Hi Hj Hj'.
  pose proof (justify_line_explicit text w c Hc) as E. pose proof (justify_line_explicit text' w c' Hc') as E'. cbv zeta in E, E'.
  rewrite E in Hj. rewrite E' in Hj'. clear E E'. injection Hj as <-. injection Hj' as <-.
  assert (Hgl : glen c' = glen c) by (unfold glen; apply (image_len rho c c' Hi)).
  set (L := clusters c) in *.
  assert (Ews : split c [SP] = map (@concat Z) (cw L [])) by (rewrite <- (clusters_concat c) at 1; apply split_sp_cw, Hf).
  assert (Ews' : split c' [SP] = map (@concat Z) (map (map rho) (cw L []))).
  { rewrite <- (clusters_concat c') at 1. rewrite split_sp_cw by exact Hf'. unfold image in Hi. rewrite Hi.
    change (@nil (list Z)) with (map rho []) at 1. rewrite cw_map by exact rho_is_sp. reflexivity. }
  change (split c [SP]) with (split_aux 1 [SP] 0 [] c) in Ews. change (split c' [SP]) with (split_aux 1 [SP] 0 [] c') in Ews'.
  rewrite Ews, Ews', Hgl, !map_length. unfold zlen. rewrite !map_length.
  set (Ws := cw L []) in *. set (g := Z.of_nat (length Ws) - 1).
  destruct ((w <=? glen c) || (g <? 1)) eqn:Eb; [exact Hi|].
  set (gs := gaps_after (Z.to_nat (w - glen c)) g (repeat 1%nat (length Ws - 1)) 0 false).
  assert (Hgs : Forall (fun k => (1 <= k)%nat) gs) by (apply gaps_after_ge, repeat_ge_one).
  assert (Hlg : length Ws = S (length gs)) by (unfold gs; rewrite gaps_after_length, repeat_length; unfold g in Eb; lia).
  assert (Hok : Forall word_ok (map (@concat Z) Ws)).
  { apply Forall_forall. intros x Hx. apply in_map_iff in Hx as (W & <- & HW). apply (cw_word_ok c W Hs HW). }
  assert (Hcl : map clusters (map (@concat Z) Ws) = Ws).
  { rewrite map_map. rewrite <- (map_id Ws) at 2. apply map_ext_in. intros W HW. apply (cw_word_clusters c W HW). }
  assert (HWs' : map (map rho) Ws = cw (clusters c') []).
  { unfold image in Hi. rewrite Hi. exact (eq_sym (cw_map rho L rho_is_sp [])). }
  assert (Hok' : Forall word_ok (map (@concat Z) (map (map rho) Ws))).
  { apply Forall_forall. intros x Hx. apply in_map_iff in Hx as (W & <- & HW). rewrite HWs' in HW. apply (cw_word_ok c' W Hs' HW). }
  assert (Hcl' : map clusters (map (@concat Z) (map (map rho) Ws)) = map (map rho) Ws).
  { rewrite map_map. rewrite <- (map_id (map (map rho) Ws)) at 2. apply map_ext_in. intros W HW. rewrite HWs' in HW. apply (cw_word_clusters c' W HW). }
  unfold image.
  rewrite (interleave_clusters_full _ gs) by (rewrite ?map_length; assumption).
  rewrite (interleave_clusters_full (map (@concat Z) Ws) gs) by (rewrite ?map_length; assumption).
  rewrite Hcl, Hcl'. apply interleaveC_map, rho_sp.
Qed.

End C03J.
