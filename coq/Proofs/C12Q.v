(* C12, continued: JustifyLine as a whole. *)
From Coq Require Import List Bool Arith ZArith Lia ZifyBool.
Import ListNotations.
From Rosed Require Import Base.Res Base.ListX Base.Str Gem.Segment Gem.GString Model.Tb Model.Manip Model.Table
     Proofs.StrP Proofs.C12P Proofs.C18P.
Open Scope Z_scope.

Section C12Q.
Context `{Classifier} `{Upper}.

(* JustifyLine never panics and never runs out of fuel. Its result is the space-collapsed line c
   itself when c is already at least w clusters wide or has no space; otherwise it is c with
   exactly (w - clusters of c) more U+0020 code points and nothing else changed. *)
Theorem justify_line_spec text w :
  exists c, collapse_space text [10] = Ok c /\
  exists r, justify_line text w = Ok r /\
    ((w <= glen c \/ zlen (split c [SP]) - 1 < 1) /\ r = c \/
     (glen c < w /\ 1 <= zlen (split c [SP]) - 1 /\
      length r = (length c + Z.to_nat (w - glen c))%nat /\
      filter (fun x => negb (x =? SP)) r = filter (fun x => negb (x =? SP)) c)).
Proof.
  destruct (collapse_space_total text [10]) as [c Hc]. exists c. split; [exact Hc|].
  unfold justify_line. rewrite Hc. cbn [bind].
  destruct (w <=? glen c) eqn:Ew; [exists c; split; [reflexivity|left; split; [left; lia|reflexivity]]|].
  set (words := split c [SP]). set (g := zlen words - 1).
  destruct (g <? 1) eqn:Eg; [exists c; split; [reflexivity|left; split; [right; lia|reflexivity]]|].
  assert (Hne : words <> []) by (unfold words, split; apply split_aux_nonempty).
  pose proof (intersperse_length words Hne) as Hil. fold g in Hil.
  destruct (justify_loop_safe (Z.to_nat (w - glen c)) (intersperse_sp words) g 0 false Hil ltac:(lia) ltac:(intros; reflexivity))
    as (full' & Hr & _ & Hlen & Hfil).
  rewrite Hr. cbn [bind]. exists (concat full'). split; [reflexivity|]. right.
  rewrite concat_intersperse in Hlen, Hfil. unfold words in Hlen, Hfil. rewrite join_split in Hlen, Hfil by discriminate.
  repeat split; [lia|lia|exact Hlen|exact Hfil].
Qed.

End C12Q.
