(* C06, continued: Editor.Wrap twice for every line separator that is a single ASCII character
   other than the space and the hyphen (tab, "|", CR, ...): Wrap(w) of the result of Wrap(w) is that
   result, byte for byte, and it ends with the separator exactly when the text did. *)
From Coq Require Import List Bool Arith ZArith Lia ZifyBool.
Import ListNotations.
From Rosed Require Import Base.Cls Base.Res Base.ListX Base.Str Base.Utf8 Gem.Segment Gem.GString Model.Util Model.Tb Model.Options Model.Editor Model.Manip Model.Table Model.Ops
     Proofs.SegmentP Proofs.SeamP Proofs.StrP Proofs.Utf8P Proofs.C04P Proofs.C13P Proofs.C18P Proofs.C06P Proofs.C06Q Proofs.C07Q Proofs.C06R Proofs.C06S Proofs.C06U Proofs.C06V Proofs.C06W.
Open Scope Z_scope.

Section C06X.
Context `{ClassifierOk} `{Upper}.
Variable s : Z.
Hypothesis Hs_rng : 0 <= s < 128.
Hypothesis Hs_sp : s <> SP.
Hypothesis Hs_hy : s <> HYPHEN.

Lemma scalar_s : scalar s = true.
Proof. unfold scalar. lia. Qed.

Lemma encode_s : encode [s] = [s].
Proof. cbn [encode flat_map]. unfold encode_rune. rewrite scalar_s. replace (s <? 128) with true by lia. reflexivity. Qed.

Lemma decode_s : decode [s] = [s].
Proof. rewrite <- encode_s at 1. apply decode_encode. constructor; [exact scalar_s|constructor]. Qed.

Lemma has_suffix_snoc_s a x : has_suffix (a ++ [x]) [s] = (x =? s).
Proof. unfold has_suffix. rewrite rev_app_distr. cbn [rev app has_prefix]. rewrite has_prefix_nil0. apply andb_true_r. Qed.

Definition ends_s (x : list Z) : Prop := exists y r, x = y ++ [r] /\ r <> s.

Lemma ends_s_join sep L x : ends_s x -> ends_s (join sep (L ++ [x])).
Proof.
  intros (y & r & -> & Hr). destruct L as [|l L'].
  - cbn [app join]. exists y, r. split; [reflexivity|exact Hr].
  - rewrite join_app by discriminate. cbn [join]. exists (join sep (l :: L') ++ sep ++ y), r. split; [rewrite <- !app_assoc; reflexivity|exact Hr].
Qed.

Lemma encode_rune_last_s r : r <> s -> exists z b, encode_rune r = z ++ [b] /\ b <> s.
Proof.
  intro Hr. unfold encode_rune. set (r' := if scalar r then r else rune_error).
  destruct (r' <? 128) eqn:E1; [exists [], r'; split; [reflexivity|unfold r', rune_error in *; destruct (scalar r); lia]|].
  destruct (r' <? 2048); [exists [192 + r' / 64], (128 + r' mod 64); split; [reflexivity|pose proof (Z.mod_pos_bound r' 64); lia]|].
  destruct (r' <? 65536); [exists [224 + r' / 4096; 128 + (r' / 64) mod 64], (128 + r' mod 64); split; [reflexivity|pose proof (Z.mod_pos_bound r' 64); lia]|].
  exists [240 + r' / 262144; 128 + (r' / 4096) mod 64; 128 + (r' / 64) mod 64], (128 + r' mod 64). split; [reflexivity|pose proof (Z.mod_pos_bound r' 64); lia].
Qed.

Lemma encode_ends_s x : ends_s x -> has_suffix (encode x) [s] = false.
Proof.
  intros (y & r & -> & Hr).
  destruct (encode_rune_last_s r Hr) as (z & b & Ez & Hb). rewrite encode_app. cbn [encode flat_map]. rewrite app_nil_r, Ez, app_assoc.
  rewrite has_suffix_snoc_s. lia.
Qed.


Lemma wrap_fields text w sep b : wrap text w sep = Ok b -> b_sep b = sep /\ b_trailing b = false.
Proof.
  unfold wrap. intro Hw. destruct (collapse_space text sep) as [ct| |]; cbn [bind] in Hw; try discriminate.
  destruct ct as [|x ct'].
  - injection Hw as <-. split; reflexivity.
  - destruct (wrap_loop _ _ _ _ _) as [[[l cw] cl]| |]; cbn [bind] in Hw; try discriminate.
    destruct (if gis_empty cw then _ else _) as [[l2 c2]| |]; cbn [bind] in Hw; try discriminate.
    injection Hw as <-. split; reflexivity.
Qed.

(* ---- every code point of the wrapped lines is a scalar value ---- *)
Definition sc (r : Z) : Prop := scalar r = true.

Lemma replace_all_scalars rs : scalars rs -> scalars (replace_all rs [s] [SP]).
Proof.
  intro Hs. unfold replace_all, scalars in *. rewrite Forall_forall in Hs |- *. intros r Hr.
  apply in_join in Hr as [Hr|(x & Hx & Hr)].
  - destruct Hr as [<-|[]]. reflexivity.
  - apply Hs. apply (split_runes rs [s] x r); [discriminate|exact Hx|exact Hr].
Qed.

Lemma collapse_scalars text ct : safe_text (replace_all text [s] [SP]) -> collapse_space text [s] = Ok ct ->
  scalars (replace_all text [s] [SP]) -> Forall (Forall sc) (clusters ct).
Proof.
  intros Hsafe Hc Hs.
  pose proof (collapse_space_clusters text [s] ct) as Hcc. cbv zeta in Hcc. change (gis_empty [s]) with false in Hcc. cbv iota in Hcc.
  destruct (Hcc Hsafe Hc) as (Hcl & _). rewrite Hcl. apply dedup_sub. apply Forall_forall. intros c' Hin.
  apply in_map_iff in Hin as (c & <- & Hin). unfold normws. destruct (wsc c); [constructor; [reflexivity|constructor]|].
  unfold scalars in Hs. rewrite Forall_forall in Hs. apply Forall_forall. intros r Hr. apply Hs.
  rewrite <- (clusters_concat (replace_all text [s] [SP])). apply in_concat. exists c. split; assumption.
Qed.

Lemma ln_scalars ps : Forall (Forall sc) ps -> Forall sc (ln ps).
Proof.
  intro HF. apply Forall_forall. intros r Hr. apply in_join in Hr as [Hr|(x & Hx & Hr)].
  - destruct Hr as [<-|[]]. reflexivity.
  - rewrite Forall_forall in HF. specialize (HF x Hx). rewrite Forall_forall in HF. apply HF, Hr.
Qed.

(* ---- the degenerate case: nothing but white space ---- *)
Lemma collapse_sp : collapse_space [s] [s] = Ok [SP].
Proof.
  destruct (collapse_space_total [s] [s]) as [r Hr]. rewrite Hr. f_equal.
  pose proof (collapse_space_clusters [s] [s] r) as Hc. cbv zeta in Hc. change (gis_empty [s]) with false in Hc. cbv iota in Hc.
  assert (Era : replace_all [s] [s] [SP] = [SP]) by (unfold replace_all, split; cbn [length split_aux has_prefix]; rewrite Z.eqb_refl; reflexivity).
  rewrite Era in Hc.
  assert (Hsafe : safe_text [SP]).
  { unfold safe_text. rewrite (clusters_single_plain SP sp_plain). constructor; [|constructor]. split; [exact sp_cluster_safe|left; reflexivity]. }
  destruct (Hc Hsafe Hr) as (Hcl & _). rewrite (clusters_single_plain SP sp_plain) in Hcl.
  change (dedup false (map normws [[SP]])) with [[SP]] in Hcl.
  rewrite <- (clusters_concat r), Hcl. reflexivity.
Qed.

Lemma collapse_nil : collapse_space [] [s] = Ok [].
Proof.
  destruct (collapse_space_total [] [s]) as [r Hr]. rewrite Hr. f_equal.
  pose proof (collapse_space_clusters [] [s] r) as Hc. cbv zeta in Hc. change (gis_empty [s]) with false in Hc. cbv iota in Hc.
  change (replace_all [] [s] [SP]) with (@nil Z) in Hc.
  assert (Hsafe : safe_text []) by (unfold safe_text; constructor).
  destruct (Hc Hsafe Hr) as (Hcl & _). change (dedup false (map normws (clusters []))) with (@nil (list Z)) in Hcl.
  rewrite <- (clusters_concat r), Hcl. reflexivity.
Qed.

Lemma wrap_degenerate w tr : exists b, wrap (tls s tr) w [s] = Ok b /\ tb_join b = [].
Proof.
  destruct tr; cbn [tls]; unfold wrap.
  - rewrite collapse_sp. cbn [bind]. rewrite (clusters_single_plain SP sp_plain). cbn [wrap_loop].
    unfold first_rune at 1. cbn [hd]. rewrite Z.eqb_refl.
    set (W := if w <? 2 then 2 else w).
    assert (Ea : append_word_to_wrapped_line [] [] [] W = Ok ([], [])).
    { unfold append_word_to_wrapped_line. replace (W <? 2) with false by (unfold W; destruct (w <? 2) eqn:E; lia). reflexivity. }
    rewrite Ea. cbn [bind wrap_loop gis_empty]. eexists. split; reflexivity.
  - rewrite collapse_nil. cbn [bind]. eexists. split; reflexivity.
Qed.

(* ---- the text of a wrap, wrapped again ---- *)
Theorem wrap_twice_text rs w b tr :
  scalars rs -> safe_text (replace_all rs [s] [SP]) -> wrap rs w [s] = Ok b ->
  let X := tb_join b ++ tls s tr in
  scalars X /\ has_suffix (encode X) [s] = tr /\ exists b', wrap X w [s] = Ok b' /\ tb_join b' = tb_join b.
Proof.
  intros Hs Hsafe Hw X.
  assert (Hdeg : tb_join b = [] -> scalars X /\ has_suffix (encode X) [s] = tr /\ exists b', wrap X w [s] = Ok b' /\ tb_join b' = tb_join b).
  { intro E. unfold X. rewrite E. cbn [app]. split; [destruct tr; cbn [tls]; [constructor; [exact scalar_s|constructor]|constructor]|]. split; [destruct tr; cbn [tls]; [rewrite encode_s; pose proof (has_suffix_snoc_s [] s) as Hss; cbn [app] in Hss; rewrite Hss; apply Z.eqb_refl|reflexivity]|].
    destruct (wrap_degenerate w tr) as (b' & Hb' & Ej). exists b'. split; [exact Hb'|exact Ej]. }
  destruct (wrap_fields rs w [s] b Hw) as [Hsep Htr].
  destruct (collapse_space_total rs [s]) as [ct Hc].
  destruct ct as [|c0 ct0] eqn:Ect.
  { apply Hdeg. unfold wrap in Hw. rewrite Hc in Hw. cbn [bind] in Hw. injection Hw as <-. reflexivity. }
  rewrite <- Ect in *. assert (Hne : ct <> []) by (rewrite Ect; discriminate). clear Ect.
  destruct (wrap_pieces_sep s Hs_sp Hs_hy rs w ct b Hsafe Hc Hne Hw) as (pss & Eb & Hlp & Hch & HN & HS & Hcov).
  destruct pss as [|ps0 pss0] eqn:Epss.
  { apply Hdeg. unfold tb_join. rewrite Eb, Htr. reflexivity. }
  rewrite <- Epss in *. assert (Hpne : pss <> []) by (rewrite Epss; discriminate). clear Epss.
  assert (Ej : tb_join b = join [s] (map ln pss)).
  { unfold tb_join. rewrite Eb, Hsep, Htr. destruct pss; [congruence|]. cbn [map]. apply app_nil_r. }
  (* scalar values *)
  assert (Hpsc : Forall (Forall sc) (concat pss)).
  { apply (cov_allr sc ltac:(reflexivity) _ _ _ Hcov). apply wds_allr; [|constructor].
    pose proof (collapse_scalars rs ct Hsafe Hc (replace_all_scalars rs Hs)) as Hcs. revert Hcs. apply Forall_impl. intros c Hc0 _. exact Hc0. }
  assert (HX : scalars X).
  { unfold X, scalars. apply Forall_app. split; [|destruct tr; cbn [tls]; [constructor; [exact scalar_s|constructor]|constructor]]. rewrite Ej. apply Forall_forall. intros r Hr.
    apply in_join in Hr as [Hr|(l & Hl & Hr)]; [destruct Hr as [<-|[]]; exact scalar_s|].
    apply in_map_iff in Hl as (ps & <- & Hps).
    assert (Hps' : Forall (Forall sc) ps).
    { rewrite Forall_forall in Hpsc |- *. intros p Hp. apply Hpsc. apply in_concat. exists ps. split; assumption. }
    pose proof (ln_scalars ps Hps') as Hl. rewrite Forall_forall in Hl. apply Hl, Hr. }
  split; [exact HX|]. split.
  - (* the trailing separator is kept as it was *)
    unfold X. destruct tr; cbn [tls].
    + rewrite encode_app, encode_s, has_suffix_snoc_s. apply Z.eqb_refl.
    + rewrite app_nil_r, Ej. apply encode_ends_s.
      destruct (exists_last Hpne) as (pss' & psl & Epl). rewrite Epl, map_app. cbn [map]. apply ends_s_join.
      assert (Hlast : lp_ok (Z.max w 2) psl) by (rewrite Epl in Hlp; apply Forall_app in Hlp as [_ Hl]; inversion Hl; assumption).
      destruct Hlast as (Hpsl & Hpcs & _). destruct (exists_last Hpsl) as (ps' & p & Ep). unfold ln. rewrite Ep. apply ends_s_join.
      assert (Hp : pc_ok p) by (rewrite Ep in Hpcs; apply Forall_app in Hpcs as [_ Hl]; inversion Hl; assumption).
      assert (Hpn : Forall (nots s) p).
      { rewrite Forall_forall in HS. apply HS. apply in_concat. exists psl. split; [rewrite Epl; apply in_or_app; right; left; reflexivity|].
        rewrite Ep. apply in_or_app. right. left. reflexivity. }
      destruct Hp as (Hpne' & _). destruct (exists_last Hpne') as (y & r & Ey). exists y, r. split; [exact Ey|].
      rewrite Ey in Hpn. apply Forall_app in Hpn as [_ Hl]. inversion Hl as [|? ? Hrs _]; subst. exact Hrs.
  - destruct (collapse_rejoin_sep s Hs_sp _ pss tr Hpne Hlp HN HS) as (ct' & Hre & Hs' & Hne' & Hwds).
    destruct (wrap_again_ct (join [s] (map ln pss) ++ tls s tr) w [s] pss ct' Hpne Hlp Hch Hre Hs' Hne' Hwds) as (b' & Hw' & Eb').
    exists b'. unfold X. rewrite Ej. split; [exact Hw'|].
    destruct (wrap_fields _ w [s] b' Hw') as [Hsep' Htr']. unfold tb_join. rewrite Eb', Hsep', Htr'.
    destruct pss; [congruence|]. cbn [map]. apply app_nil_r.
Qed.

(* ---- Editor.Wrap twice ---- *)
Theorem wrap_editor_stable rs o0 ref o w e1 :
  scalars rs -> o_linesep (with_defaults o) = [s] -> o_preserve (with_defaults o) = false ->
  safe_text (replace_all rs [s] [SP]) ->
  wrap_opts w o (Ed (encode rs) o0 ref) = Ok e1 -> wrap_opts w o e1 = Ok e1.
Proof.
  intros Hs Hls Hpp Hsafe Hw1. unfold wrap_opts in *. cbv zeta in *. rewrite Hls, Hpp in *. cbn [e_text] in Hw1.
  pose proof decode_s as Ed10. rewrite Ed10 in *.
  rewrite (decode_encode rs Hs) in Hw1. set (W := if w <? 2 then 2 else w) in *.
  destruct (wrap rs W [s]) as [b| |] eqn:Hw; cbn [bind] in Hw1; try discriminate.
  set (tr := has_suffix (encode rs) [s]) in *.
  assert (EX : (if tr then gadd (tb_join b) [s] else tb_join b) = tb_join b ++ tls s tr) by (destruct tr; [reflexivity|symmetry; apply app_nil_r]).
  rewrite EX in Hw1. injection Hw1 as <-. unfold with_text. cbn [e_text e_opts e_ref].
  destruct (wrap_twice_text rs W b tr Hs Hsafe Hw) as (HX & Htr & b' & Hw' & Ej).
  rewrite (decode_encode _ HX), Hw'. cbn [bind]. rewrite Htr, Ej.
  assert (EX' : (if tr then gadd (tb_join b) [s] else tb_join b) = tb_join b ++ tls s tr) by (destruct tr; [reflexivity|symmetry; apply app_nil_r]).
  rewrite EX'. reflexivity.
Qed.

(* ... and the result ends with the line separator exactly when the text did *)
Theorem wrap_editor_trailing rs o0 ref o w e1 :
  scalars rs -> o_linesep (with_defaults o) = [s] -> o_preserve (with_defaults o) = false ->
  safe_text (replace_all rs [s] [SP]) ->
  wrap_opts w o (Ed (encode rs) o0 ref) = Ok e1 -> has_suffix (e_text e1) [s] = has_suffix (encode rs) [s].
Proof.
  intros Hs Hls Hpp Hsafe Hw1. unfold wrap_opts in *. cbv zeta in *. rewrite Hls, Hpp in *. cbn [e_text] in Hw1.
  pose proof decode_s as Ed10. rewrite Ed10 in *.
  rewrite (decode_encode rs Hs) in Hw1. set (W := if w <? 2 then 2 else w) in *.
  destruct (wrap rs W [s]) as [b| |] eqn:Hw; cbn [bind] in Hw1; try discriminate.
  set (tr := has_suffix (encode rs) [s]) in *.
  assert (EX : (if tr then gadd (tb_join b) [s] else tb_join b) = tb_join b ++ tls s tr) by (destruct tr; [reflexivity|symmetry; apply app_nil_r]).
  rewrite EX in Hw1. injection Hw1 as <-. unfold with_text. cbn [e_text].
  destruct (wrap_twice_text rs W b tr Hs Hsafe Hw) as (_ & Htr & _). exact Htr.
Qed.

End C06X.
