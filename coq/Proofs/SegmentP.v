(* Facts about segmentation used everywhere else: the cluster list partitions
   the input, its ends are what Split computes, a cluster list can be cut at any
   boundary and each part segments to itself (prefix- and suffix-closure), and
   two texts glued at a seam where the rules break segment independently. *)
From Coq Require Import List Bool Arith ZArith Lia.
Import ListNotations.
From Rosed Require Import Base.Cls Gem.Break Gem.Dfa Gem.Segment.

Section SegP.
Context `{Classifier}.
Arguments dbrk : simpl never.
Arguments dstep : simpl never.

Lemma inv_dstep s c : inv s = true -> inv (dstep s c) = true.
Proof. destruct s as [[l|] a b d]; destruct c, a, b, d; try destruct l; unfold dstep; cbn; intro E; try reflexivity; try discriminate. Qed.

Lemma inv_st0 : inv st0 = true. Proof. reflexivity. Qed.

Lemma inv_run s rs : inv s = true -> inv (run s rs) = true.
Proof. revert s; induction rs as [|r rs IH]; intros s Hs; cbn; [assumption|]. apply IH, inv_dstep, Hs. Qed.

Lemma run_app s a b : run s (a ++ b) = run (run s a) b.
Proof. unfold run. apply fold_left_app. Qed.

(* ---- partition ---- *)
Lemma dchunks_concat s cur rs : concat (dchunks s cur rs) = rev cur ++ rs.
Proof.
  revert s cur; induction rs as [|r nxt IH]; intros s cur.
  - cbn. destruct cur; cbn; rewrite ?app_nil_r; reflexivity.
  - cbn [dchunks]. destruct nxt as [|n nxt'].
    + cbn. rewrite app_nil_r. reflexivity.
    + destruct (dbrk _ _).
      * cbn [concat]. rewrite IH. cbn [rev app]. rewrite <- app_assoc. reflexivity.
      * rewrite IH. cbn [rev]. rewrite <- app_assoc. reflexivity.
Qed.

Theorem clusters_concat rs : concat (clusters rs) = rs.
Proof. unfold clusters. rewrite dchunks_concat. reflexivity. Qed.

Lemma dchunks_nonempty s cur rs : Forall (fun c => c <> []) (dchunks s cur rs).
Proof.
  revert s cur; induction rs as [|r nxt IH]; intros s cur.
  - cbn. destruct cur as [|x cur]; constructor; [|constructor].
    intro E. apply (f_equal (@length Z)) in E. cbn in E. rewrite app_length in E. cbn in E. lia.
  - cbn [dchunks].
    assert (Hne : rev (r :: cur) <> []).
    { intro E. apply (f_equal (@length Z)) in E. cbn in E. rewrite app_length in E. cbn in E. lia. }
    destruct nxt as [|n nxt'].
    + constructor; [assumption|constructor].
    + destruct (dbrk _ _); [constructor; [assumption|]|]; apply IH.
Qed.

Theorem clusters_nonempty rs : Forall (fun c => c <> []) (clusters rs).
Proof. apply dchunks_nonempty. Qed.

Lemma clusters_nil : clusters [] = [].
Proof. reflexivity. Qed.

Lemma clusters_nil_inv rs : clusters rs = [] -> rs = [].
Proof. intro E. rewrite <- (clusters_concat rs), E. reflexivity. Qed.

(* ---- the ends are what gem.Split computes ---- *)
Lemma dchunks_ends s cur rs i :
  ends_from i (dchunks s cur rs) =
  match rs with [] => match cur with [] => [] | _ => [i + length cur] end | _ => dsplit s (i + length cur) (map class_of rs) end.
Proof.
  revert s cur i; induction rs as [|r nxt IH]; intros s cur i.
  - cbn. destruct cur; cbn; [reflexivity|]. rewrite app_length, rev_length. cbn. f_equal. lia.
  - cbn [dchunks map dsplit]. destruct nxt as [|n nxt'].
    + cbn. rewrite app_length, rev_length. cbn. f_equal. lia.
    + cbn [map]. destruct (dbrk _ _).
      * cbn [ends_from app]. rewrite IH. rewrite rev_length. cbn [length].
        replace (i + S (length cur)) with (S (i + length cur)) by lia. f_equal. f_equal. lia.
      * rewrite IH. cbn [length app map]. f_equal. lia.
Qed.

Theorem clusters_ends rs : ends_from 0 (clusters rs) = split_runes rs.
Proof.
  unfold clusters, split_runes. rewrite dchunks_ends. cbn. destruct rs; [reflexivity|].
  rewrite dsplit_split. reflexivity.
Qed.

Lemma dchunks_cons2 s cur r n nxt :
  dchunks s cur (r :: n :: nxt) =
  if dbrk (dstep s (class_of r)) (class_of n) then rev (r :: cur) :: dchunks (dstep s (class_of r)) [] (n :: nxt)
  else dchunks (dstep s (class_of r)) (r :: cur) (n :: nxt).
Proof. reflexivity. Qed.
Lemma dchunks_one s cur r : dchunks s cur [r] = [rev (r :: cur)].
Proof. reflexivity. Qed.

(* ---- gluing at a breaking seam ---- *)
Lemma dchunks_restart s n b : inv s = true -> dbrk s (class_of n) = true ->
  dchunks s [] (n :: b) = dchunks st0 [] (n :: b).
Proof.
  intros Hi Hb. destruct b as [|n2 b]; [reflexivity|]. rewrite !dchunks_cons2.
  rewrite (context_free_step _ _ Hi Hb). reflexivity.
Qed.

Lemma dchunks_app s cur a n b : inv s = true -> a <> [] ->
  dbrk (run s a) (class_of n) = true ->
  dchunks s cur (a ++ n :: b) = dchunks s cur a ++ dchunks st0 [] (n :: b).
Proof.
  revert s cur; induction a as [|r a IH]; intros s cur Hi Hne Hb; [congruence|].
  destruct a as [|r2 a'].
  - cbn [app]. cbn in Hb. rewrite dchunks_one, dchunks_cons2, Hb. cbn [app]. f_equal.
    apply (dchunks_restart (dstep s (class_of r)) n b); [apply inv_dstep, Hi|exact Hb].
  - cbn [app]. cbn [app] in IH. rewrite !dchunks_cons2. change (run s (r :: r2 :: a')) with (run (dstep s (class_of r)) (r2 :: a')) in Hb.
    destruct (dbrk (dstep s (class_of r)) (class_of r2)).
    + cbn [app]. f_equal. apply IH; [apply inv_dstep, Hi|discriminate|exact Hb].
    + apply IH; [apply inv_dstep, Hi|discriminate|exact Hb].
Qed.

Definition seam_ok (a b : list Z) : Prop :=
  match b with [] => True | n :: _ => a = [] \/ dbrk (run st0 a) (class_of n) = true end.

Theorem clusters_app a b : seam_ok a b -> clusters (a ++ b) = clusters a ++ clusters b.
Proof.
  unfold seam_ok, clusters. destruct b as [|n b]; [intros _; rewrite !app_nil_r; reflexivity|].
  intros [->|Hb]; [reflexivity|]. destruct a as [|r a]; [reflexivity|].
  apply dchunks_app; [reflexivity|discriminate|exact Hb].
Qed.

(* ---- cutting at a boundary ---- *)
Lemma dchunks_first s cur rs c cl' : inv s = true ->
  dchunks s cur rs = c :: cl' -> cl' <> [] ->
  exists a, c = rev cur ++ a /\ rs = a ++ concat cl' /\ dchunks s cur a = [c]
            /\ dchunks st0 [] (concat cl') = cl'
            /\ dbrk (run s a) (class_of (hd 0%Z (concat cl'))) = true /\ (a <> [] ).
Proof.
  revert s cur; induction rs as [|r nxt IH]; intros s cur Hi E Hne.
  - cbn in E. destruct cur; [discriminate|]. injection E as _ <-. congruence.
  - destruct nxt as [|n nxt'].
    + rewrite dchunks_one in E. injection E as _ <-. congruence.
    + rewrite dchunks_cons2 in E.
      destruct (dbrk (dstep s (class_of r)) (class_of n)) eqn:Eb.
      * assert (Hc : concat (dchunks (dstep s (class_of r)) [] (n :: nxt')) = n :: nxt')
          by (rewrite dchunks_concat; reflexivity).
        remember (dchunks (dstep s (class_of r)) [] (n :: nxt')) as tl eqn:Et.
        injection E as <- <-. exists [r]. rewrite Hc. repeat split.
        -- subst tl. symmetry. apply dchunks_restart; [apply inv_dstep, Hi|exact Eb].
        -- exact Eb.
        -- discriminate.
      * destruct (IH _ _ (inv_dstep _ _ Hi) E Hne) as (a' & Hc & Hn & Hd & Hr & Hb & Ha).
        exists (r :: a'). repeat split.
        -- rewrite Hc. cbn [rev]. rewrite <- app_assoc. reflexivity.
        -- cbn [app]. rewrite <- Hn. reflexivity.
        -- destruct a' as [|n2 a'']; [congruence|].
           cbn [app] in Hn. injection Hn as <- _. rewrite dchunks_cons2, Eb. exact Hd.
        -- exact Hr.
        -- exact Hb.
        -- discriminate.
Qed.

Lemma hd_concat_nonempty (c : list Z) cl : c <> [] -> hd 0%Z (concat (c :: cl)) = hd 0%Z c.
Proof. destruct c; [congruence|reflexivity]. Qed.

Lemma clusters_cons rs c cl' : clusters rs = c :: cl' ->
  clusters c = [c] /\ clusters (concat cl') = cl' /\ seam_ok c (concat cl').
Proof.
  intro E. destruct cl' as [|c2 cl''].
  - assert (rs = c) by (rewrite <- (clusters_concat rs), E; cbn; apply app_nil_r). subst.
    split; [exact E|]. split; [reflexivity|exact I].
  - destruct (dchunks_first st0 [] rs c (c2 :: cl'') eq_refl E ltac:(discriminate)) as (a & Hc & Hn & Hd & Hr & Hb & Ha).
    cbn in Hc. subst a. repeat split; [exact Hd|exact Hr|].
    unfold seam_ok. destruct (concat (c2 :: cl'')) eqn:Ec; [exact I|]. right. cbn in Hb. exact Hb.
Qed.

Theorem clusters_skipn rs k : clusters (concat (skipn k (clusters rs))) = skipn k (clusters rs).
Proof.
  remember (clusters rs) as cl eqn:E. symmetry in E. revert rs cl E; induction k as [|k IH]; intros rs cl E.
  - cbn. rewrite <- E, clusters_concat. reflexivity.
  - destruct cl as [|c cl']; [reflexivity|]. cbn [skipn].
    destruct (clusters_cons _ _ _ E) as (_ & H2 & _). apply (IH _ _ H2).
Qed.

Theorem clusters_firstn rs k : clusters (concat (firstn k (clusters rs))) = firstn k (clusters rs).
Proof.
  remember (clusters rs) as cl eqn:E. symmetry in E. revert rs k E; induction cl as [|c cl' IH]; intros rs k E.
  - destruct k; reflexivity.
  - destruct k as [|k]; [reflexivity|]. cbn [firstn concat].
    destruct (clusters_cons _ _ _ E) as (H1 & H2 & H3).
    rewrite clusters_app, H1, (IH _ k H2); [reflexivity|].
    unfold seam_ok in *. destruct cl' as [|c2 cl'']; [destruct k; exact I|].
    destruct k as [|k]; [exact I|]. cbn [firstn concat] in *.
    pose proof (clusters_nonempty (c2 ++ concat cl'')) as Hn. rewrite H2 in Hn. inversion Hn as [|? ? Hc2 _]; subst.
    destruct c2 as [|x c2]; [congruence|]. cbn [app] in *. exact H3.
Qed.

Theorem clusters_slice rs i k :
  clusters (concat (firstn k (skipn i (clusters rs)))) = firstn k (skipn i (clusters rs)).
Proof.
  rewrite <- (clusters_skipn rs i) at 2. rewrite <- clusters_firstn. rewrite clusters_skipn. reflexivity.
Qed.

(* each cluster is a single cluster on its own *)
Theorem clusters_each rs c : In c (clusters rs) -> clusters c = [c].
Proof.
  intro Hin. apply In_nth_error in Hin as [i Hi].
  assert (E : firstn 1 (skipn i (clusters rs)) = [c]).
  { revert i Hi. generalize (clusters rs). intros l; induction l as [|x l IH]; intros [|i] Hi; cbn in *; try discriminate.
    - injection Hi as ->. destruct l; reflexivity.
    - apply IH, Hi. }
  pose proof (clusters_slice rs i 1) as Hs.
  rewrite E in Hs. cbn in Hs. rewrite app_nil_r in Hs. exact Hs.
Qed.

End SegP.
