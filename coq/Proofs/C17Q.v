(* C17, continued: WithDefaults always yields a three-cluster table character set, for
   character sets made of plain code points (the general statement fails for sets whose
   clusters merge with the padding: known finding D11). *)
From Coq Require Import List Bool Arith ZArith Lia ZifyBool.
Import ListNotations.
From Rosed Require Import Base.Cls Base.Res Base.ListX Base.Utf8 Gem.Segment Gem.GString Model.Util Model.Manip Model.Options
     Proofs.SegmentP Proofs.SeamP Proofs.Utf8P Proofs.C04P Proofs.C13P Proofs.C17P.
Open Scope Z_scope.

Section C17Q.
Context `{ClassifierOk}.

(* a string of plain code points segments into singletons *)
Lemma clusters_plain rs : Forall plain rs -> clusters rs = map (fun r => [r]) rs.
Proof.
  intro Hp. induction rs as [|r rs IH] using rev_ind; [reflexivity|].
  apply Forall_app in Hp as [Hp1 Hp2]. inversion Hp2 as [|? ? Hr _]; subst.
  rewrite clusters_snoc_plain; [rewrite IH by exact Hp1; rewrite map_app; reflexivity| |exact Hr].
  destruct rs as [|x rs'] using rev_ind; [left; reflexivity|]. right. rewrite last_last.
  apply Forall_app in Hp1 as [_ Hx]. inversion Hx as [|? ? Hx' _]; subst. rewrite Hx'. discriminate.
Qed.

Lemma glen_plain rs : Forall plain rs -> glen rs = zlen rs.
Proof. intro Hp. unfold glen. rewrite clusters_plain by exact Hp. unfold zlen. rewrite map_length. reflexivity. Qed.

Lemma decode_default : decode default_charset = [43; 124; 45].
Proof. reflexivity. Qed.
Lemma default_charset_plain : Forall plain (decode default_charset).
Proof. rewrite decode_default. repeat constructor; apply ok_ascii; lia. Qed.

Lemma default_charset_three : glen (decode default_charset) = 3.
Proof. rewrite glen_plain by apply default_charset_plain. reflexivity. Qed.

Lemma map_skipn' {A B} (f : A -> B) k (l : list A) : map f (skipn k l) = skipn k (map f l).
Proof. revert l; induction k; intro l; [reflexivity|]. destruct l; [reflexivity|]. cbn. apply IHk. Qed.
Lemma map_firstn' {A B} (f : A -> B) k (l : list A) : map f (firstn k l) = firstn k (map f l).
Proof. revert l; induction k; intro l; [reflexivity|]. destruct l; [reflexivity|]. cbn. f_equal. apply IHk. Qed.

Lemma gsub_plain rs a b : Forall plain rs -> (a <= b <= length rs)%nat ->
  gsub rs (Z.of_nat a) (Z.of_nat b) = firstn (b - a) (skipn a rs).
Proof.
  intros Hp Hab. rewrite gsub_range by (rewrite clusters_plain by exact Hp; rewrite map_length; lia).
  rewrite clusters_plain by exact Hp. rewrite <- map_skipn', <- map_firstn'.
  generalize (firstn (b - a) (skipn a rs)). intro l. induction l; cbn; [reflexivity|]. f_equal. assumption.
Qed.

Lemma plain_sub rs a k : Forall plain rs -> Forall plain (firstn k (skipn a rs)).
Proof.
  intro Hp. rewrite Forall_forall in *. intros x Hx. apply Hp. apply in_firstn' in Hx. apply in_skipn' in Hx. exact Hx.
Qed.

(* WithDefaults yields three clusters, for every character set that is the encoding of plain scalar values *)
Theorem wd_three_clusters o cs : o_charset o = encode cs -> scalars cs -> Forall plain cs ->
  glen (decode (o_charset (with_defaults o))) = 3.
Proof.
  intros Ec Hs Hp. unfold with_defaults; cbn [o_charset]. rewrite Ec, (decode_encode cs Hs), default_charset_three.
  rewrite (glen_plain cs Hp).
  destruct (zlen cs =? 3) eqn:E3.
  - rewrite (decode_encode cs Hs), glen_plain by exact Hp. lia.
  - destruct (zlen cs <? 3) eqn:El.
    + set (need := 3 - zlen cs). assert (Hneed : 0 < need <= 3) by (unfold need, zlen in *; lia).
      replace (3 - need) with (Z.of_nat (Z.to_nat (3 - need))) by lia. change 3 with (Z.of_nat 3) at 2.
      assert (Hdp : Forall plain [43; 124; 45]) by (rewrite <- decode_default; apply default_charset_plain).
      rewrite decode_default.
      rewrite gsub_plain by (try exact Hdp; cbn [length]; lia).
      set (pad := firstn (3 - Z.to_nat (3 - need)) (skipn (Z.to_nat (3 - need)) [43; 124; 45])).
      assert (Hpp : Forall plain pad) by (apply plain_sub, Hdp).
      assert (Hsp : scalars pad).
      { unfold scalars. rewrite Forall_forall. intros x Hx. unfold pad in Hx. apply in_firstn' in Hx. apply in_skipn' in Hx.
        cbn in Hx. destruct Hx as [<-|[<-|[<-|[]]]]; reflexivity. }
      unfold gadd. rewrite decode_encode by (apply scalars_app; split; assumption).
      rewrite glen_plain by (apply Forall_app; split; assumption).
      rewrite zlen_app. unfold pad, zlen. rewrite firstn_length, skipn_length. cbn [length].
      unfold need, zlen in *. lia.
    + change 0 with (Z.of_nat 0). change 3 with (Z.of_nat 3) at 1.
      rewrite gsub_plain by (try exact Hp; unfold zlen in *; lia). cbn [skipn]. 
      assert (Hs3 : scalars (firstn (3 - 0) cs)).
      { unfold scalars in *. rewrite Forall_forall in *. intros x Hx. apply Hs. apply in_firstn' in Hx. exact Hx. }
      rewrite decode_encode by exact Hs3. rewrite glen_plain by (apply (plain_sub cs 0 (3 - 0)), Hp).
      unfold zlen. rewrite firstn_length. unfold zlen in *. lia.
Qed.

(* hence full idempotence of WithDefaults on such options *)
Theorem wd_idempotent_plain o cs : o_charset o = encode cs -> scalars cs -> Forall plain cs ->
  with_defaults (with_defaults o) = with_defaults o.
Proof.
  intros Ec Hs Hp. apply wd_idempotent. rewrite default_charset_three. apply (wd_three_clusters o cs Ec Hs Hp).
Qed.

End C17Q.
