(* C06, continued: stability of Wrap for every line separator that is a single code point other
   than the space and the hyphen: the lines of a wrapped text, joined by it (with or without a
   trailing one) and wrapped again to the same width, are the same lines. *)
From Coq Require Import List Bool Arith ZArith Lia ZifyBool.
Import ListNotations.
From Rosed Require Import Base.Cls Base.Res Base.ListX Base.Str Gem.Segment Gem.GString Model.Util Model.Tb Model.Manip Model.Table
     Proofs.SegmentP Proofs.SeamP Proofs.StrP Proofs.C04P Proofs.C13P Proofs.C18P Proofs.C06P Proofs.C06Q Proofs.C07Q Proofs.C06R Proofs.C06S Proofs.C06U.
Open Scope Z_scope.

Lemma split1_no_sep s : forall text cur, ~ In s cur -> Forall (fun x => ~ In s x) (split_aux 1 [s] 0 cur text).
Proof.
  induction text as [|x t IH]; intros cur Hc.
  - cbn [split_aux]. constructor; [|constructor]. intro Hin. apply Hc. apply in_rev. exact Hin.
  - cbn [split_aux has_prefix]. rewrite has_prefix_nil0. destruct (x =? s) eqn:E; cbn [andb].
    + constructor; [intro Hin; apply Hc; apply in_rev; exact Hin|]. change (1 - 1)%nat with 0%nat. apply IH. intros [].
    + apply IH. intros [Hx|Hx]; [lia|exact (Hc Hx)].
Qed.

Section C06W.
Context `{ClassifierOk} `{Upper}.
Variable s : Z.
Hypothesis Hs_sp : s <> SP.
Hypothesis Hs_hy : s <> HYPHEN.

Definition nots (r : Z) : Prop := r <> s.
Definition tls (tr : bool) : list Z := if tr then [s] else [].

Lemma Hsp : nots SP. Proof. unfold nots. intro E. apply Hs_sp. symmetry. exact E. Qed.
Lemma Hhy : nots HYPHEN. Proof. unfold nots. intro E. apply Hs_hy. symmetry. exact E. Qed.

Lemma replace_no_sep text : Forall nots (replace_all text [s] [SP]).
Proof.
  unfold replace_all. apply Forall_forall. intros r Hr. apply in_join in Hr as [Hr|(x & Hx & Hr)].
  - destruct Hr as [<-|[]]. exact Hsp.
  - unfold split in Hx. cbn [length] in Hx. pose proof (split1_no_sep s text [] ltac:(intros [])) as Hf.
    rewrite Forall_forall in Hf. intro E. subst r. exact (Hf x Hx Hr).
Qed.

Lemma collapse_runes (P : Z -> Prop) : P SP -> forall text ct, safe_text (replace_all text [s] [SP]) -> collapse_space text [s] = Ok ct ->
  Forall P (replace_all text [s] [SP]) -> Forall (Forall P) (clusters ct).
Proof.
  intros HP text ct Hsafe Hc Hall.
  pose proof (collapse_space_clusters text [s] ct) as Hcc. cbv zeta in Hcc. change (gis_empty [s]) with false in Hcc. cbv iota in Hcc.
  destruct (Hcc Hsafe Hc) as (Hcl & _). rewrite Hcl. apply dedup_sub. apply Forall_forall. intros c' Hin.
  apply in_map_iff in Hin as (c & <- & Hin). unfold normws. destruct (wsc c); [constructor; [exact HP|constructor]|].
  rewrite Forall_forall in Hall. apply Forall_forall. intros r Hr. apply Hall.
  rewrite <- (clusters_concat (replace_all text [s] [SP])). apply in_concat. exists c. split; assumption.
Qed.

Lemma ln_no_sep ps : Forall (Forall nots) ps -> ~ In s (ln ps).
Proof.
  intros HN Hin. apply in_join in Hin as [Hin|(x & Hx & Hr)].
  - destruct Hin as [E|[]]. apply Hs_sp. symmetry. exact E.
  - rewrite Forall_forall in HN. specialize (HN x Hx). rewrite Forall_forall in HN. exact (HN s Hr eq_refl).
Qed.

Lemma collapse_rejoin_sep W pss tr : pss <> [] -> Forall (lp_ok W) pss -> Forall nows (concat pss) -> Forall (Forall nots) (concat pss) ->
  exists ct', collapse_space (join [s] (map ln pss) ++ tls tr) [s] = Ok ct' /\ all_safe ct' /\ ct' <> [] /\
              wds (clusters ct') [] = concat pss.
Proof.
  intros Hne Hlp HN HS.
  assert (HNps : forall ps, In ps pss -> Forall nows ps).
  { intros ps Hps. rewrite Forall_forall in HN |- *. intros p Hp. apply HN. apply in_concat. exists ps. split; assumption. }
  assert (Hall : Forall pc_ok (concat pss)).
  { apply Forall_forall. intros p Hp. apply in_concat in Hp as (ps & Hps & Hp). rewrite Forall_forall in Hlp.
    destruct (Hlp ps Hps) as (_ & HF & _). rewrite Forall_forall in HF. apply HF, Hp. }
  assert (Hcne : concat pss <> []).
  { destruct pss as [|ps0 rest]; [congruence|]. inversion Hlp as [|? ? (Hps0 & _) _]; subst. cbn. destruct ps0; [congruence|discriminate]. }
  assert (Hnolf : Forall (fun x => ~ In s x) (map ln pss)).
  { apply Forall_forall. intros l Hl. apply in_map_iff in Hl as (ps & <- & Hps). apply ln_no_sep. rewrite Forall_forall in HS |- *. intros p Hp. apply HS. apply in_concat. exists ps. split; assumption. }
  assert (Hmne : map ln pss <> []) by (destruct pss; [congruence|discriminate]).
  assert (Hjj : join [SP] (map ln pss) = ln (concat pss)).
  { unfold ln. apply join_join. revert Hlp. apply Forall_impl. intros ps (Hps & _). exact Hps. }
  assert (Et0 : replace_all (join [s] (map ln pss) ++ tls tr) [s] [SP] = ln (concat pss) ++ tlsp tr).
  { unfold replace_all. destruct tr; cbn [tls tlsp].
    - replace (join [s] (map ln pss) ++ [s]) with (join [s] (map ln pss ++ [[]])) by (rewrite join_app by (exact Hmne || discriminate); reflexivity).
      rewrite split_join1; [|destruct (map ln pss); discriminate|apply Forall_app; split; [exact Hnolf|constructor; [intros []|constructor]]].
      rewrite join_app by (exact Hmne || discriminate). rewrite Hjj. cbn [join app]. reflexivity.
    - rewrite !app_nil_r. rewrite split_join1 by assumption. exact Hjj. }
  destruct (line_clusters (concat pss) Hcne Hall HN) as [Hok Hdd].
  destruct (ln_props _ Hall) as [HsafeT _]. pose proof (ln_ne _ Hcne Hall) as HneT.
  set (T := ln (concat pss)) in *.
  assert (Ecl : clusters (T ++ tlsp tr) = clusters T ++ (if tr then [[SP]] else [])).
  { destruct tr; cbn [tlsp]; [|rewrite !app_nil_r; reflexivity].
    assert (Hnil : all_safe []) by (unfold all_safe; rewrite clusters_nil; constructor).
    pose proof (clusters_snoc_sp_app T [] HneT HsafeT Hnil) as E. exact E. }
  assert (Hok' : Forall cl_ok (clusters (T ++ tlsp tr))).
  { rewrite Ecl. apply Forall_app. split; [exact Hok|]. destruct tr; [constructor; [exact sp_cl_ok|constructor]|constructor]. }
  destruct (collapse_space_total (join [s] (map ln pss) ++ tls tr) [s]) as [r Hr]. exists r. split; [exact Hr|].
  pose proof (collapse_space_clusters (join [s] (map ln pss) ++ tls tr) [s] r) as Hc. cbv zeta in Hc.
  change (gis_empty [s]) with false in Hc. cbv iota in Hc. unfold gstr in *. rewrite Et0 in Hc.
  destruct (Hc ltac:(unfold safe_text; revert Hok'; apply Forall_impl; unfold cl_ok; tauto) Hr) as (Hcl & _).
  rewrite map_normws_id in Hcl by (revert Hok'; apply Forall_impl; unfold cl_ok; tauto).
  rewrite Ecl, Hdd in Hcl.
  assert (Edd : dedup false (if tr then [[SP]] else []) = (if tr then [[SP]] else [])) by (destruct tr; reflexivity).
  rewrite Edd, <- Ecl in Hcl.
  assert (Er : r = T ++ tlsp tr) by (rewrite <- (clusters_concat r), Hcl, clusters_concat; reflexivity).
  subst r. split; [|split].
  - unfold all_safe. revert Hok'. apply Forall_impl. unfold cl_ok, safe_c. tauto.
  - intro E. apply HneT. destruct T; [reflexivity|discriminate].
  - rewrite Ecl. destruct tr; [rewrite wds_trailing_sp|rewrite app_nil_r]; apply wds_ln; assumption.
Qed.


Lemma wrap_pieces_sep text w ct b :
  safe_text (replace_all text [s] [SP]) -> collapse_space text [s] = Ok ct -> ct <> [] -> wrap text w [s] = Ok b ->
  exists pss, b_lines b = map ln pss /\ Forall (lp_ok (Z.max w 2)) pss /\ chain (Z.max w 2) pss /\ Forall nows (concat pss) /\ Forall (Forall nots) (concat pss) /\
              cov (Z.max w 2) (concat pss) (wds (clusters ct) []).
Proof.
  intros Hsafe Hc Hne Hw.
  pose proof (collapse_space_clusters text [s] ct) as Hcc. cbv zeta in Hcc. change (gis_empty [s]) with false in Hcc. cbv iota in Hcc.
  destruct (Hcc Hsafe Hc) as (_ & _ & Hws & Hsct).
  destruct (wrap_structure text w [s] ct b Hc (safe_text_all_safe _ Hsct) Hne Hw) as (pss & Eb & Hlp & Hch & Hcov).
  exists pss. split; [exact Eb|split; [exact Hlp|split; [exact Hch|split; [|split; [|exact Hcov]]]]].
  assert (Hwords : Forall nows (wds (clusters ct) [])).
  { apply wds_allr; [|constructor]. unfold safe_text in Hsct. rewrite Forall_forall in Hsct, Hws |- *. intros c Hin Hfr.
    destruct (Hsct c Hin) as [_ [Hwc|Hn]]; [|exact Hn]. exfalso. apply Hfr. rewrite (Hws c Hin Hwc). reflexivity. }
  - exact (cov_allr _ hyphen_nows _ _ _ Hcov Hwords).
  - apply (cov_allr nots Hhy _ _ _ Hcov). apply wds_allr; [|constructor].
    pose proof (collapse_runes nots Hsp text ct Hsafe Hc (replace_no_sep text)) as Hcs. revert Hcs. apply Forall_impl. intros c Hc0 _. exact Hc0.
Qed.

Theorem wrap_stable_sep text w ct b tr :
  safe_text (replace_all text [s] [SP]) -> collapse_space text [s] = Ok ct -> ct <> [] ->
  wrap text w [s] = Ok b -> b_lines b <> [] ->
  exists b', wrap (join [s] (b_lines b) ++ tls tr) w [s] = Ok b' /\ b_lines b' = b_lines b.
Proof.
  intros Hsafe Hc Hne Hw Hlines.
  destruct (wrap_pieces_sep text w ct b Hsafe Hc Hne Hw) as (pss & Eb & Hlp & Hch & HN & HS & _).
  assert (Hpne : pss <> []) by (intro E0; rewrite E0 in Eb; cbn in Eb; congruence).
  destruct (collapse_rejoin_sep _ pss tr Hpne Hlp HN HS) as (ct' & Hre & Hs' & Hne' & Hwds).
  destruct (wrap_again_ct (join [s] (map ln pss) ++ tls tr) w [s] pss ct' Hpne Hlp Hch Hre Hs' Hne' Hwds) as (b' & Hw' & Eb').
  exists b'. rewrite Eb. split; [exact Hw'|exact Eb'].
Qed.

End C06W.
