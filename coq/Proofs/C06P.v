(* C06: Wrap. *)
From Coq Require Import List Bool Arith ZArith Lia ZifyBool.
Import ListNotations.
From Rosed Require Import Base.Res Base.ListX Base.Str Gem.Segment Gem.GString Model.Util Model.Tb Model.Manip Model.Table
     Proofs.SegmentP Proofs.C04P Proofs.C09P Proofs.C13P Proofs.C18P.
Open Scope Z_scope.

Section C06.
Context `{Classifier} `{Upper}.

(* widths below 2 act as 2 *)
Theorem wrap_clamp text w sep : wrap text w sep = wrap text (Z.max w 2) sep.
Proof.
  unfold wrap. replace (if w <? 2 then 2 else w) with (Z.max w 2) by (destruct (w <? 2) eqn:E; lia).
  replace (if Z.max w 2 <? 2 then 2 else Z.max w 2) with (Z.max w 2) by (destruct (Z.max w 2 <? 2) eqn:E; lia).
  reflexivity.
Qed.

Lemma glen_zero_iff x : glen x = 0 <-> x = [].
Proof.
  unfold glen, zlen. split.
  - intro E. apply clusters_nil_inv. destruct (clusters x); [reflexivity|cbn in E; lia].
  - intros ->. reflexivity.
Qed.

Lemma glen_nonneg x : 0 <= glen x. Proof. unfold glen, zlen. lia. Qed.

(* cutting the first k >= 1 clusters off a word of more than k clusters makes it shorter *)
Lemma gsub_tail_shorter x k : 1 <= k < glen x -> (length (gsub x k (glen x)) < length x)%nat.
Proof.
  intro Hk. unfold glen, zlen in Hk. 
  replace k with (Z.of_nat (Z.to_nat k)) by lia. unfold glen, zlen.
  rewrite gsub_range by lia.
  rewrite firstn_all2 by (rewrite skipn_length; lia).
  rewrite <- (clusters_concat x) at 2.
  rewrite <- (firstn_skipn (Z.to_nat k) (clusters x)) at 2. rewrite concat_app, app_length.
  pose proof (clusters_nonempty x) as Hne.
  destruct (clusters x) as [|c cl] eqn:Ec; [cbn in Hk; lia|].
  destruct (Z.to_nat k) as [|k'] eqn:Ek; [lia|]. cbn [firstn concat]. rewrite app_length.
  inversion Hne as [|? ? Hc _]; subst. destruct c; [congruence|]. cbn [length]. lia.
Qed.

(* the word loop of Wrap always finishes within its fuel and never panics (width >= 2) *)
Lemma append_word_total fuel : forall lines curWord curLine width, 2 <= width ->
  (2 * length curWord + (if gis_empty curLine then 0 else 1) < fuel)%nat ->
  exists r, append_word fuel lines curWord curLine width = Ok r.
Proof.
  induction fuel as [|fuel IH]; intros lines curWord curLine width Hw Hf; [lia|].
  cbn [append_word]. destruct (0 <? glen curWord) eqn:E0; [|eexists; reflexivity].
  assert (Hcw : curWord <> []) by (intro E; subst; cbn in E0; discriminate).
  assert (Hlen : (1 <= length curWord)%nat) by (destruct curWord; [congruence|cbn; lia]).
  assert (Hll : (glen curLine =? 0) = gis_empty curLine).
  { destruct curLine; [reflexivity|]. cbn [gis_empty]. apply Z.eqb_neq. intro E. apply glen_zero_iff in E. discriminate. }
  destruct (glen curLine + (glen curWord + (if glen curLine =? 0 then 0 else 1)) =? width) eqn:Ea.
  - apply IH; [exact Hw|cbn; lia].
  - destruct (width <? glen curLine + (glen curWord + (if glen curLine =? 0 then 0 else 1))) eqn:Eb.
    + rewrite Hll in *. destruct (gis_empty curLine) eqn:Ee.
      * apply IH; [exact Hw|]. cbn [gis_empty].
        assert (Hs : (length (gsub curWord (width - 1) (glen curWord)) < length curWord)%nat).
        { apply gsub_tail_shorter. destruct curLine; [|discriminate]. cbn in Eb. lia. }
        lia.
      * apply IH; [exact Hw|]. cbn [gis_empty]. lia.
    + apply IH; [exact Hw|]. cbn [length].
      match goal with |- context [if ?b then _ else _] => destruct b end; destruct (gis_empty curLine); lia.
Qed.

Lemma append_word_to_line_total lines curWord curLine width : 2 <= width ->
  exists r, append_word_to_wrapped_line lines curWord curLine width = Ok r.
Proof.
  intro Hw. unfold append_word_to_wrapped_line. replace (width <? 2) with false by lia.
  apply append_word_total; [exact Hw|]. destruct (gis_empty curLine); lia.
Qed.

Lemma wrap_loop_total cl : forall lines curWord curLine width, 2 <= width ->
  exists r, wrap_loop cl lines curWord curLine width = Ok r.
Proof.
  induction cl as [|ch cl IH]; intros lines curWord curLine width Hw; [eexists; reflexivity|].
  cbn [wrap_loop]. destruct (first_rune ch =? SP).
  - destruct (append_word_to_line_total lines curWord curLine width Hw) as [[l2 c2] Hr]. rewrite Hr. cbn [bind]. apply IH, Hw.
  - apply IH, Hw.
Qed.

(* Wrap is total: for every text, width and separator it returns a block *)
Theorem wrap_total text w sep : exists b, wrap text w sep = Ok b.
Proof.
  unfold wrap. set (w' := if w <? 2 then 2 else w). assert (Hw : 2 <= w') by (unfold w'; destruct (w <? 2) eqn:E; lia).
  destruct (collapse_space_total text sep) as [c Hc]. rewrite Hc. cbn [bind].
  destruct c as [|x c']; [eexists; reflexivity|].
  destruct (wrap_loop_total (clusters (x :: c')) [] [] [] w' Hw) as [[[lines cw] cl] Hr]. rewrite Hr. cbn [bind].
  destruct (gis_empty cw).
  - cbn [bind]. eexists. reflexivity.
  - destruct (append_word_to_line_total lines cw cl w' Hw) as [[l2 c2] Hr2]. rewrite Hr2. cbn [bind]. eexists. reflexivity.
Qed.

End C06.
