(* C11: a paragraph callback that returns its argument reproduces the text exactly, also
   when paragraph and line separators overlap ambiguously (the look-ahead repair). *)
From Coq Require Import List Bool ZArith Lia.
Import ListNotations.
From Rosed Require Import Base.Res Base.ListX Base.Utf8 Base.Str Gem.Segment Gem.GString
     Model.Util Model.Tb Model.Manip Model.Table Model.Options Model.Editor Model.Ops
     Check.Paras Proofs.StrP.
Open Scope Z_scope.

Section C11.
Context `{Classifier} `{Upper}.

Definition valid (b : list Z) : Prop := encode (decode b) = b.

Lemma repair_nonempty ps lsep trim : ps <> [] -> repair ps lsep trim <> [].
Proof.
  destruct ps as [|p [|q rest]]; cbn [repair]; intro Hne; [congruence|discriminate|].
  destruct (has_prefix q lsep); discriminate.
Qed.

(* moving a leading line separator of a piece to the tail of the previous piece does not change the joined text,
   because the two separators commute *)
Lemma join_repair psep lsep ps trim : psep ++ lsep = lsep ++ psep ->
  join psep (repair ps lsep trim) =
  join psep (match ps with p :: rest => (if trim then skipn (length lsep) p else p) :: rest | [] => [] end).
Proof.
  intro Hcomm. revert trim; induction ps as [|p rest IH]; intro trim; [reflexivity|].
  cbn [repair]. set (p' := if trim then skipn (length lsep) p else p).
  destruct rest as [|q rest']; [reflexivity|].
  destruct (has_prefix q lsep) eqn:Eq.
  - rewrite join_cons by (apply repair_nonempty; discriminate). rewrite IH.
    rewrite (join_cons psep p' (q :: rest')) by discriminate.
    apply has_prefix_spec in Eq.
    set (X := skipn (length lsep) q) in *.
    assert (Hq : join psep (q :: rest') = lsep ++ join psep (X :: rest')).
    { destruct rest' as [|r rest'']; [cbn [join]; exact Eq|]. rewrite !join_cons by discriminate. rewrite Eq at 1.
      rewrite <- app_assoc. reflexivity. }
    rewrite Hq. rewrite <- !app_assoc. f_equal. rewrite !app_assoc, Hcomm. reflexivity.
  - rewrite join_cons by (apply repair_nonempty; discriminate). rewrite IH.
    rewrite (join_cons psep p' (q :: rest')) by discriminate. reflexivity.
Qed.

(* the loop of applyGParagraphsOpts hands the callback exactly the repaired pieces *)
Lemma paras_loop_id (op : gpara_op) (g : gstr -> gstr) idx ps trim lsep np psf :
  (forall i para pre suf, op i para pre suf = Ok [g para]) ->
  paras_loop op idx ps trim true lsep np psf = Ok (map (fun b => encode (g (decode b))) (repair ps lsep trim)).
Proof.
  intro Hop. revert idx trim; induction ps as [|p rest IH]; intros idx trim; [reflexivity|].
  cbn [paras_loop repair]. set (p' := if trim then skipn (length lsep) p else p).
  destruct rest as [|q rest'].
  - rewrite Hop. cbn [bind paras_loop map app]. reflexivity.
  - cbn [andb]. destruct (has_prefix q lsep) eqn:Eq; rewrite Hop; cbn [bind]; rewrite IH; cbn [bind map app]; reflexivity.
Qed.

Lemma paras_loop_id_plain (op : gpara_op) (g : gstr -> gstr) idx ps lsep np psf :
  (forall i para pre suf, op i para pre suf = Ok [g para]) ->
  paras_loop op idx ps false false lsep np psf = Ok (map (fun b => encode (g (decode b))) ps).
Proof.
  intro Hop. revert idx; induction ps as [|p rest IH]; intro idx; [reflexivity|].
  cbn [paras_loop]. destruct rest as [|q rest'].
  - rewrite Hop. cbn. reflexivity.
  - cbn [andb]. rewrite Hop. cbn [bind]. rewrite IH. cbn. reflexivity.
Qed.

Lemma map_valid (g : gstr -> gstr) l : (forall b, valid b -> encode (g (decode b)) = b) -> Forall valid l ->
  map (fun b => encode (g (decode b))) l = l.
Proof. intro Hg. induction 1 as [|x l Hx _ IH]; [reflexivity|]. cbn. rewrite (Hg x Hx), IH. reflexivity. Qed.

(* the pieces the callback is given *)
Definition pieces (t psep lsep : list Z) : list (list Z) :=
  if zlist_eqb (psep ++ lsep) (lsep ++ psep) then repair (split t psep) lsep false else split t psep.

Theorem paragraphs_identity (op : gpara_op) (g : gstr -> gstr) opts e :
  (forall i para pre suf, op i para pre suf = Ok [g para]) ->
  (forall b, valid b -> encode (g (decode b)) = b) ->
  let o := with_defaults opts in
  o_parasep o <> [] ->
  Forall valid (pieces (e_text e) (o_parasep o) (o_linesep o)) ->
  apply_gparagraphs op opts e = Ok e.
Proof.
  intros Hop Hg o Hps Hv. unfold apply_gparagraphs. fold o. unfold pieces in Hv.
  destruct (zlist_eqb (o_parasep o ++ o_linesep o) (o_linesep o ++ o_parasep o)) eqn:Ea.
  - rewrite (paras_loop_id op g) by exact Hop. cbn [bind]. rewrite (map_valid g _ Hg Hv).
    apply zlist_eqb_eq in Ea. rewrite (join_repair _ _ _ false Ea).
    assert (Es : match split (e_text e) (o_parasep o) with p :: rest => p :: rest | [] => [] end = split (e_text e) (o_parasep o))
      by (destruct (split (e_text e) (o_parasep o)); reflexivity).
    rewrite Es, join_split by exact Hps. destruct e; reflexivity.
  - rewrite (paras_loop_id_plain op g) by exact Hop. cbn [bind]. rewrite (map_valid g _ Hg Hv).
    rewrite join_split by exact Hps. destruct e; reflexivity.
Qed.

(* the public form: a ParagraphOperation returning its paragraph argument *)
Corollary apply_paragraphs_identity opts e :
  let o := with_defaults opts in
  o_parasep o <> [] ->
  Forall valid (pieces (e_text e) (o_parasep o) (o_linesep o)) ->
  apply_paragraphs_opts (fun _ para _ _ => Ok [para]) opts e = Ok e.
Proof.
  intros o Hps Hv. unfold apply_paragraphs_opts.
  apply (paragraphs_identity _ (fun para => decode (encode para))); [intros; reflexivity| |exact Hps|exact Hv].
  intros b Hb. unfold valid in Hb. rewrite Hb, Hb. reflexivity.
Qed.

(* the number of callback invocations: one per piece, k + 1 for k separators *)
(* the loop of applyGParagraphsOpts is: compute the pieces (with the repair when the separators
   are ambiguous), then call the callback once per piece, in order, with index, piece, the
   separator's suffix part before every piece but the first and its prefix part after every
   piece but the last, and concatenate the results *)
Fixpoint run_paras `{Classifier} (op : gpara_op) (idx : Z) (rs : list (list Z)) (np psf : gstr) : Res (list (list Z)) :=
  match rs with
  | [] => Ok []
  | r :: rest =>
      do x <- op idx (decode r) (if idx =? 0 then [] else np) (match rest with [] => [] | _ => psf end);
      do more <- run_paras op (idx + 1) rest np psf;
      Ok (map encode x ++ more)
  end.

Lemma paras_loop_spec `{Classifier} (op : gpara_op) lsep np psf : forall ps idx trim,
  paras_loop op idx ps trim true lsep np psf = run_paras op idx (repair ps lsep trim) np psf.
Proof.
  induction ps as [|p rest IH]; intros idx trim; [reflexivity|].
  cbn [paras_loop repair]. destruct rest as [|q rest'].
  - reflexivity.
  - cbn [andb]. destruct (has_prefix q lsep) eqn:Eq.
    + cbn [run_paras]. assert (Hne : repair (q :: rest') lsep true <> []) by (apply repair_nonempty; discriminate).
      destruct (repair (q :: rest') lsep true) as [|r0 rr] eqn:Er; [congruence|]. rewrite <- Er. rewrite IH. reflexivity.
    + cbn [run_paras]. assert (Hne : repair (q :: rest') lsep false <> []) by (apply repair_nonempty; discriminate).
      destruct (repair (q :: rest') lsep false) as [|r0 rr] eqn:Er; [congruence|]. rewrite <- Er. rewrite IH. reflexivity.
Qed.

Lemma paras_loop_spec_plain `{Classifier} (op : gpara_op) lsep np psf : forall ps idx,
  paras_loop op idx ps false false lsep np psf = run_paras op idx ps np psf.
Proof.
  induction ps as [|p rest IH]; intro idx; [reflexivity|]. cbn [paras_loop run_paras]. destruct rest as [|q rest'].
  - reflexivity.
  - cbn [andb]. rewrite IH. reflexivity.
Qed.

Theorem apply_gparagraphs_spec `{Classifier} `{Upper} (op : gpara_op) opts e :
  let o := with_defaults opts in
  let parts := split (o_parasep o) (o_linesep o) in
  let psf := decode (hd [] parts) in
  let np := match parts with _ :: _ :: _ => decode (last parts []) | _ => [] end in
  apply_gparagraphs op opts e =
    do transformed <- run_paras op 0 (pieces (e_text e) (o_parasep o) (o_linesep o)) np psf;
    Ok (with_text e (join (o_parasep o) transformed)).
Proof.
  cbv zeta. unfold apply_gparagraphs, pieces.
  destruct (zlist_eqb (o_parasep (with_defaults opts) ++ o_linesep (with_defaults opts)) (o_linesep (with_defaults opts) ++ o_parasep (with_defaults opts))) eqn:Ea.
  - rewrite paras_loop_spec. reflexivity.
  - rewrite paras_loop_spec_plain. reflexivity.
Qed.

Theorem pieces_count t psep lsep : length (pieces t psep lsep) = length (split t psep).
Proof.
  unfold pieces. destruct (zlist_eqb _ _); [|reflexivity].
  generalize (split t psep) false. intro ps. induction ps as [|p rest IH]; intro trim; [reflexivity|].
  cbn [repair]. destruct rest as [|q rest']; [reflexivity|].
  destruct (has_prefix q lsep); cbn [length]; rewrite IH; reflexivity.
Qed.

End C11.
