(* C17, continued: XOpts(args, o) and WithOptions(o).X(args) return the same text. In the model
   X(args) is XOpts(args, stored options); an XOpts never reads the options stored on its
   receiver: changing them changes nothing in the result except the options stored on it. *)
From Coq Require Import List Bool Arith ZArith Lia.
Import ListNotations.
From Rosed Require Import Base.Res Base.ListX Base.Utf8 Base.Str Gem.Segment Gem.GString Model.Util Model.Tb Model.Manip Model.Table
     Model.Options Model.Editor Model.Ops Model.Hist.
Open Scope Z_scope.

Definition rmap {A B} (f : A -> B) (r : Res A) : Res B :=
  match r with Ok a => Ok (f a) | Panic c => Panic c | OutOfFuel => OutOfFuel end.

Section C17S.
Context `{Classifier} `{Upper}.

Definition reopt (o' : options) (r : editor) : editor := with_options r o'.

Lemma apply_opts_receiver op o e o' : apply_opts op o (with_options e o') = rmap (reopt o') (apply_opts op o e).
Proof.
  destruct e as [t oe r]. unfold apply_opts, with_options, with_text, reopt. cbn [e_text e_opts e_ref].
  destruct (apply_each op 0 _); reflexivity.
Qed.

Lemma apply_gparagraphs_receiver op o e o' : apply_gparagraphs op o (with_options e o') = rmap (reopt o') (apply_gparagraphs op o e).
Proof.
  destruct e as [t oe r]. unfold apply_gparagraphs, with_options, with_text, reopt. cbn [e_text e_opts e_ref]. cbv zeta.
  destruct (paras_loop _ _ _ _ _ _ _ _); reflexivity.
Qed.

Theorem wrap_receiver w o e o' : wrap_opts w o (with_options e o') = rmap (reopt o') (wrap_opts w o e).
Proof.
  unfold wrap_opts. cbv zeta. destruct (o_preserve (with_defaults o)); [apply apply_gparagraphs_receiver|].
  destruct e as [t oe r]. unfold with_options, with_text, reopt. cbn [e_text e_opts e_ref].
  destruct (wrap _ _ _); reflexivity.
Qed.

Theorem collapse_receiver o e o' : collapse_space_opts o (with_options e o') = rmap (reopt o') (collapse_space_opts o e).
Proof.
  destruct e as [t oe r]. unfold collapse_space_opts, with_options, with_text, reopt. cbn [e_text e_opts e_ref]. cbv zeta.
  destruct (collapse_space _ _); reflexivity.
Qed.

Theorem align_receiver a w o e o' : align_opts a w o (with_options e o') = rmap (reopt o') (align_opts a w o e).
Proof.
  unfold align_opts. destruct (_ || _); [reflexivity|]. cbv zeta.
  destruct (o_preserve (with_defaults o)); [apply apply_gparagraphs_receiver|apply apply_opts_receiver].
Qed.

Theorem indent_receiver level o e o' : indent_opts level o (with_options e o') = rmap (reopt o') (indent_opts level o e).
Proof.
  unfold indent_opts. destruct (level <? 1); [reflexivity|]. destruct (repeat_str _ _); cbn [bind]; try reflexivity.
  destruct (o_preserve (with_defaults o)); [unfold apply_paragraphs_opts; apply apply_gparagraphs_receiver|apply apply_opts_receiver].
Qed.

(* ---- the selections and the three edits ---- *)
Definition sig (r : editor) : list Z * option (Z * Z) :=
  (e_text r, match e_ref r with Some (_, s, en) => Some (s, en) | None => None end).

Lemma sub_ed_sig e o' x y : rmap sig (sub_ed (with_options e o') x y) = rmap sig (sub_ed e x y).
Proof. destruct e as [t oe r]. unfold sub_ed, with_options. cbn [e_text e_opts e_ref]. destruct (zsub t x y); reflexivity. Qed.

Lemma chars_sig e o' s en : rmap sig (chars (with_options e o') s en) = rmap sig (chars e s en).
Proof.
  unfold chars. replace (e_text (with_options e o')) with (e_text e) by (destruct e; reflexivity). cbv zeta.
  destruct (range_to_indexes _ _ _) as [s1 e1]. destruct (_ <=? s1); [apply sub_ed_sig|].
  destruct (znth _ s1); cbn [bind]; try reflexivity.
  destruct (if e1 <? _ then _ else _); cbn [bind]; try reflexivity.
  destruct (chars_loop _ _ _ _ _ _ _) as [bs be]. apply sub_ed_sig.
Qed.

Lemma bind_sig {B} (r1 r2 : Res editor) (f g : editor -> Res B) : rmap sig r1 = rmap sig r2 ->
  (forall a b, sig a = sig b -> f a = g b) -> bind r1 f = bind r2 g.
Proof.
  intros E Hfg. destruct r1 as [a| |], r2 as [b| |]; cbn [rmap bind] in *; try discriminate; try reflexivity; try congruence.
  apply Hfg. congruence.
Qed.

Lemma with_text_reopt e o' t : with_text (with_options e o') t = reopt o' (with_text e t).
Proof. destruct e; reflexivity. Qed.

Theorem insert_receiver pos t e o' : insert pos t (with_options e o') = rmap (reopt o') (insert pos t e).
Proof.
  unfold insert, chars_to, chars_from. replace (e_text (with_options e o')) with (e_text e) by (destruct e; reflexivity).
  transitivity (do b <- chars e 0 pos; do a <- chars e pos (zlen (e_text e)); Ok (reopt o' (with_text e (e_text b ++ t ++ e_text a)))).
  - apply bind_sig; [apply chars_sig|]. intros b b' Eb. apply bind_sig; [apply chars_sig|]. intros a a' Ea.
    rewrite with_text_reopt. unfold sig in *. congruence.
  - destruct (chars e 0 pos); cbn [bind rmap]; try reflexivity. destruct (chars e pos _); reflexivity.
Qed.

Theorem delete_receiver s en e o' : delete s en (with_options e o') = rmap (reopt o') (delete s en e).
Proof.
  unfold delete. replace (e_text (with_options e o')) with (e_text e) by (destruct e; reflexivity).
  transitivity (do sel <- chars e s en;
                rmap (reopt o') match e_ref sel with None => Panic P_index
                                | Some (_, s0, en0) => do before <- zsub (e_text e) 0 s0; do after <- zsub (e_text e) en0 (zlen (e_text e)); Ok (with_text e (before ++ after)) end).
  - apply bind_sig; [apply chars_sig|]. intros a b Eab. unfold sig in Eab. injection Eab as _ Er.
    destruct (e_ref a) as [[[pa sa] ea]|], (e_ref b) as [[[pb sb] eb]|]; try discriminate; [|reflexivity].
    injection Er as -> ->. destruct (zsub _ 0 sb); cbn [bind rmap]; try reflexivity.
    destruct (zsub _ eb _); cbn [bind rmap]; reflexivity.
  - destruct (chars e s en); reflexivity.
Qed.

Theorem overtype_receiver pos t e o' : overtype pos t (with_options e o') = rmap (reopt o') (overtype pos t e).
Proof.
  unfold overtype, chars_to, chars_from. replace (e_text (with_options e o')) with (e_text e) by (destruct e; reflexivity). cbv zeta.
  transitivity (do b <- chars e 0 pos; do a <- chars e (glen (decode (e_text b)) + glen (decode t)) (zlen (e_text e));
                Ok (reopt o' (with_text e (e_text b ++ encode (decode t) ++ e_text a)))).
  - apply bind_sig; [apply chars_sig|]. intros b b' Eb. assert (Etb : e_text b = e_text b') by (unfold sig in Eb; congruence). rewrite Etb.
    apply bind_sig; [apply chars_sig|]. intros a a' Ea. rewrite with_text_reopt. unfold sig in Ea. congruence.
  - destruct (chars e 0 pos); cbn [bind rmap]; try reflexivity. destruct (chars e _ _); reflexivity.
Qed.

(* ---- Justify and the three inserted layouts ---- *)
Theorem justify_receiver w o e o' : justify_opts w o (with_options e o') = rmap (reopt o') (justify_opts w o e).
Proof.
  unfold justify_opts. cbv zeta. destruct (o_preserve (with_defaults o)); [apply apply_gparagraphs_receiver|].
  destruct (o_justlast (with_defaults o)); [apply apply_opts_receiver|].
  destruct e as [t oe r]. unfold with_options at 1 2. cbn [e_text e_opts e_ref]. unfold with_options at 2. cbn [e_text e_opts e_ref].
  destruct (lines_to _ _) as [sub| |]; cbn [bind rmap]; try reflexivity.
  destruct (apply_opts _ _ sub) as [sub2| |]; cbn [bind rmap]; try reflexivity.
  destruct (commit sub2) as [c| |]; cbn [bind rmap]; reflexivity.
Qed.

Theorem two_columns_receiver pos lt rt gap width m ex o e o' :
  insert_two_columns_opts pos lt rt gap width m ex o (with_options e o') = rmap (reopt o') (insert_two_columns_opts pos lt rt gap width m ex o e).
Proof.
  unfold insert_two_columns_opts.
  assert (Hgo : forall X, (let '(width0, lw, rw) := two_col_widths width gap m ex in
                 if rw <? 2 then Panic P_rightcol else
                 let opts0 := with_defaults o in let lineSep := decode (o_linesep opts0) in
                 do lb <- wrap (decode lt) lw lineSep; do rb <- wrap (decode rt) rw lineSep;
                 let maxl := maxZ 0 (map glen (b_lines lb)) in
                 do cb <- combine_column_blocks lb rb (gap + (lw - maxl));
                 let cb0 := {| b_lines := b_lines cb; b_sep := lineSep; b_trailing := negb (o_notrailing opts0) |} in
                 insert pos (encode (tb_join cb0)) (with_options e X)) =
          rmap (reopt X) (let '(width0, lw, rw) := two_col_widths width gap m ex in
                 if rw <? 2 then Panic P_rightcol else
                 let opts0 := with_defaults o in let lineSep := decode (o_linesep opts0) in
                 do lb <- wrap (decode lt) lw lineSep; do rb <- wrap (decode rt) rw lineSep;
                 let maxl := maxZ 0 (map glen (b_lines lb)) in
                 do cb <- combine_column_blocks lb rb (gap + (lw - maxl));
                 let cb0 := {| b_lines := b_lines cb; b_sep := lineSep; b_trailing := negb (o_notrailing opts0) |} in
                 insert pos (encode (tb_join cb0)) e)).
  { intro X. destruct (two_col_widths width gap m ex) as [[w0 lw] rw]. destruct (rw <? 2); [reflexivity|]. cbv zeta.
    destruct (wrap (decode lt) _ _); cbn [bind rmap]; try reflexivity. destruct (wrap (decode rt) _ _); cbn [bind rmap]; try reflexivity.
    destruct (combine_column_blocks _ _ _); cbn [bind rmap]; try reflexivity. apply insert_receiver. }
  destruct lt, rt; [reflexivity|apply Hgo..].
Qed.

Theorem definitions_table_receiver pos defs width o e o' :
  insert_definitions_table_opts pos defs width o (with_options e o') = rmap (reopt o') (insert_definitions_table_opts pos defs width o e).
Proof.
  unfold insert_definitions_table_opts. cbv zeta. destruct (def_rows _ _ _ _ _ _); cbn [bind rmap]; try reflexivity.
  destruct (0 <? _); [apply insert_receiver|reflexivity].
Qed.

Theorem table_receiver pos data width o e o' :
  insert_table_opts pos data width o (with_options e o') = rmap (reopt o') (insert_table_opts pos data width o e).
Proof. unfold insert_table_opts. cbv zeta. apply insert_receiver. Qed.

(* ---- XOpts(args, o) = WithOptions(o).X(args), up to the options stored on the result ---- *)
Theorem xopts_is_with_options_x e o :
  (forall w, run_op (with_options e o) (OWrap w None) = rmap (reopt o) (run_op e (OWrap w (Some o)))) /\
  (forall w, run_op (with_options e o) (OJustify w None) = rmap (reopt o) (run_op e (OJustify w (Some o)))) /\
  (forall a w, run_op (with_options e o) (OAlign a w None) = rmap (reopt o) (run_op e (OAlign a w (Some o)))) /\
  (forall l, run_op (with_options e o) (OIndent l None) = rmap (reopt o) (run_op e (OIndent l (Some o)))) /\
  run_op (with_options e o) (OCollapse None) = rmap (reopt o) (run_op e (OCollapse (Some o))) /\
  (forall pos l r gap width m ex, run_op (with_options e o) (OTwoCols pos l r gap width m ex None) = rmap (reopt o) (run_op e (OTwoCols pos l r gap width m ex (Some o)))) /\
  (forall pos defs width, run_op (with_options e o) (ODefTable pos defs width None) = rmap (reopt o) (run_op e (ODefTable pos defs width (Some o)))) /\
  (forall pos data width, run_op (with_options e o) (OTable pos data width None) = rmap (reopt o) (run_op e (OTable pos data width (Some o)))) /\
  (forall cb, run_op (with_options e o) (OApply cb None) = rmap (reopt o) (run_op e (OApply cb (Some o)))) /\
  (forall cb, run_op (with_options e o) (OApplyParas cb None) = rmap (reopt o) (run_op e (OApplyParas cb (Some o)))).
Proof.
  assert (Eo : e_opts (with_options e o) = o) by (destruct e; reflexivity).
  cbn [run_op opts_or]. rewrite Eo.
  repeat split; intros; first [apply wrap_receiver|apply justify_receiver|apply align_receiver|apply indent_receiver|apply collapse_receiver
                              |apply two_columns_receiver|apply definitions_table_receiver|apply table_receiver|apply apply_opts_receiver
                              |unfold apply_paragraphs_opts; apply apply_gparagraphs_receiver].
Qed.

End C17S.
