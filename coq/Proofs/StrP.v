(* Facts about the model of strings.Split / Join / HasPrefix. *)
From Coq Require Import List Bool ZArith Lia.
Import ListNotations.
From Rosed Require Import Base.Res Base.ListX Base.Str.
Open Scope Z_scope.

Lemma has_prefix_spec s p : has_prefix s p = true <-> s = p ++ skipn (length p) s.
Proof.
  revert s; induction p as [|y p IH]; intro s; cbn.
  - destruct s; split; reflexivity.
  - destruct s as [|x s]; [split; discriminate|]. cbn. rewrite andb_true_iff, Z.eqb_eq, IH. split.
    + intros [-> E]. cbn. f_equal. exact E.
    + cbn. intro E. injection E as -> E. split; [reflexivity|exact E].
Qed.

Lemma has_prefix_app p s : has_prefix (p ++ s) p = true.
Proof. apply has_prefix_spec. rewrite skipn_app, skipn_all, Nat.sub_diag. reflexivity. Qed.

Lemma has_prefix_refl p : has_prefix p p = true.
Proof. rewrite <- (app_nil_r p) at 1. apply has_prefix_app. Qed.

Lemma split_aux_nonempty sepl sep skip cur s : split_aux sepl sep skip cur s <> [].
Proof.
  revert skip cur; induction s as [|x s IH]; intros skip cur; destruct skip; cbn [split_aux]; try discriminate.
  - destruct (has_prefix (x :: s) sep); [discriminate|apply IH].
  - apply IH.
Qed.

(* skipping the rest of a separator that is present *)
Lemma split_aux_skip sepl sep k s : (k <= length s)%nat ->
  split_aux sepl sep k [] s = split_aux sepl sep O [] (skipn k s).
Proof.
  revert s; induction k as [|k IH]; intros s Hk; [reflexivity|].
  destruct s as [|x s]; [cbn in Hk; lia|]. cbn. apply IH. cbn in Hk. lia.
Qed.

Lemma join_cons sep x l : l <> [] -> join sep (x :: l) = x ++ sep ++ join sep l.
Proof. destruct l; [congruence|reflexivity]. Qed.

(* Join after Split is the identity, for every non-empty separator *)
Lemma join_split_aux sep n : sep <> [] -> forall s cur, (length s <= n)%nat ->
  join sep (split_aux (length sep) sep O cur s) = rev cur ++ s.
Proof.
  intro Hsep. induction n as [|n IH]; intros s cur Hn.
  - destruct s; [|cbn in Hn; lia]. cbn. rewrite app_nil_r. reflexivity.
  - destruct s as [|x s']; [cbn; rewrite app_nil_r; reflexivity|].
    cbn [split_aux]. destruct (has_prefix (x :: s') sep) eqn:E.
    + apply has_prefix_spec in E.
      assert (Hl : (length sep <= length (x :: s'))%nat).
      { rewrite E, app_length. lia. }
      destruct sep as [|y sep']; [congruence|].
      cbn [length] in *. replace (S (length sep') - 1)%nat with (length sep') by lia.
      rewrite split_aux_skip by (cbn in Hl; lia).
      rewrite join_cons by apply split_aux_nonempty.
      rewrite (IH (skipn (length sep') s') []) by (rewrite skipn_length; cbn in Hn; lia).
      cbn [rev app]. f_equal. cbn [skipn length] in E. symmetry. exact E.
    + rewrite (IH s' (x :: cur)) by (cbn in Hn; lia). cbn [rev]. rewrite <- app_assoc. reflexivity.
Qed.

Theorem join_split s sep : sep <> [] -> join sep (split s sep) = s.
Proof.
  intro Hsep. unfold split. destruct sep as [|y sep']; [congruence|].
  apply (join_split_aux (y :: sep') (length s) Hsep s []). lia.
Qed.

