(* C08: in the model Editors are values and operations are functions of their arguments;
   what is stated here is that a history never rewrites an entry of the pool, and that
   sibling sub-editors are independent. That the Go code shares no mutable memory between
   Editor values (value receivers, parentRef never written) is validated by the
   correspondence run, which re-observes every earlier pool entry after every step. *)
From Coq Require Import List Bool ZArith Lia.
Import ListNotations.
From Rosed Require Import Base.Res Base.ListX Gem.Segment Model.Table Model.Options Model.Editor Model.Ops Model.Hist Proofs.C05P.
Open Scope Z_scope.

Section C08.
Context `{Classifier} `{Upper}.

(* the pool after running some steps: every earlier entry is still there, unchanged *)
Fixpoint pool_after (pool : list editor) (steps : list (nat * op)) : list editor :=
  match steps with
  | [] => pool
  | (i, o) :: rest =>
      match nth_error pool i with
      | None => pool
      | Some e => pool_after (pool ++ [match run_op e o with Ok e' => e' | _ => e end]) rest
      end
  end.

Theorem pool_only_grows pool steps : exists added, pool_after pool steps = pool ++ added.
Proof.
  revert pool; induction steps as [|[i o] rest IH]; intro pool; [exists []; rewrite app_nil_r; reflexivity|].
  cbn. destruct (nth_error pool i) as [e|]; [|exists []; rewrite app_nil_r; reflexivity].
  destruct (IH (pool ++ [match run_op e o with Ok e' => e' | _ => e end])) as [added Ha].
  exists ([match run_op e o with Ok e' => e' | _ => e end] ++ added). rewrite Ha, <- app_assoc. reflexivity.
Qed.

Corollary earlier_entries_unchanged pool steps k e : nth_error pool k = Some e -> nth_error (pool_after pool steps) k = Some e.
Proof.
  intro Hk. destruct (pool_only_grows pool steps) as [added ->]. rewrite nth_error_app1; [exact Hk|].
  apply nth_error_Some. congruence.
Qed.

(* an operation's result is a function of the receiver and the arguments (there is no hidden state) *)
Theorem deterministic e1 e2 o1 o2 : e1 = e2 -> o1 = o2 -> run_op e1 o1 = run_op e2 o2.
Proof. intros -> ->. reflexivity. Qed.

(* siblings: committing one sub-editor of p gives a result that does not depend on any other sub-editor of p *)
Theorem siblings_independent p s1 e1 sel1 s2 e2 sel2 t1 t2 :
  sub_ed p s1 e1 = Ok sel1 -> sub_ed p s2 e2 = Ok sel2 ->
  commit (with_text sel1 t1) =
  Ok (Ed (firstn (Z.to_nat s1) (e_text p) ++ t1 ++ skipn (Z.to_nat e1) (e_text p)) (e_opts p) (e_ref p)) /\
  commit (with_text sel2 t2) =
  Ok (Ed (firstn (Z.to_nat s2) (e_text p) ++ t2 ++ skipn (Z.to_nat e2) (e_text p)) (e_opts p) (e_ref p)).
Proof. intros H1 H2. split; eapply commit_splice; eassumption. Qed.

End C08.
