(* UTF-8: decoding the encoding of scalar values gives them back, with the byte
   offset of every code point (what Go's range-over-string yields). *)
From Coq Require Import List Bool Arith ZArith Lia ZifyBool.
Import ListNotations.
From Rosed Require Import Base.ListX Base.Utf8.
Open Scope Z_scope.

Ltac Zify.zify_post_hook ::= Z.div_mod_to_equations.

Definition width (r : Z) : Z := zlen (encode_rune r).

Lemma scalar_range r : scalar r = true <-> (0 <= r < 55296 \/ 57343 < r <= 1114111).
Proof. unfold scalar. lia. Qed.

Lemma encode_rune_scalar r : scalar r = true ->
  encode_rune r =
  if r <? 128 then [r]
  else if r <? 2048 then [192 + r / 64; 128 + r mod 64]
  else if r <? 65536 then [224 + r / 4096; 128 + (r / 64) mod 64; 128 + r mod 64]
  else [240 + r / 262144; 128 + (r / 4096) mod 64; 128 + (r / 64) mod 64; 128 + r mod 64].
Proof. intro H. unfold encode_rune. rewrite H. reflexivity. Qed.

Lemma dec1_encode r rest : scalar r = true ->
  dec1 (encode_rune r ++ rest) = (r, length (encode_rune r)).
Proof.
  intro Hs. rewrite (encode_rune_scalar r Hs). apply scalar_range in Hs.
  destruct (r <? 128) eqn:E1.
  - cbn [app dec1 length]. rewrite E1. reflexivity.
  - destruct (r <? 2048) eqn:E2.
    + cbn [app dec1 length].
      replace (192 + r / 64 <? 128) with false by lia.
      replace ((194 <=? 192 + r / 64) && (192 + r / 64 <=? 223)) with true by lia.
      unfold cont. replace ((128 <=? 128 + r mod 64) && (128 + r mod 64 <=? 191)) with true by lia.
      f_equal. lia.
    + destruct (r <? 65536) eqn:E3.
      * cbn [app dec1 length].
        replace (224 + r / 4096 <? 128) with false by lia.
        replace ((194 <=? 224 + r / 4096) && (224 + r / 4096 <=? 223)) with false by lia.
        replace ((224 <=? 224 + r / 4096) && (224 + r / 4096 <=? 239)) with true by lia.
        unfold cont.
        assert (Hc : ((if 224 + r / 4096 =? 224 then 160 else 128) <=? 128 + (r / 64) mod 64)
                     && (128 + (r / 64) mod 64 <=? (if 224 + r / 4096 =? 237 then 159 else 191))
                     && ((128 <=? 128 + r mod 64) && (128 + r mod 64 <=? 191)) = true).
        { destruct (224 + r / 4096 =? 224) eqn:A; destruct (224 + r / 4096 =? 237) eqn:B; lia. }
        rewrite Hc. f_equal. lia.
      * cbn [app dec1 length].
        replace (240 + r / 262144 <? 128) with false by lia.
        replace ((194 <=? 240 + r / 262144) && (240 + r / 262144 <=? 223)) with false by lia.
        replace ((224 <=? 240 + r / 262144) && (240 + r / 262144 <=? 239)) with false by lia.
        replace ((240 <=? 240 + r / 262144) && (240 + r / 262144 <=? 244)) with true by lia.
        unfold cont.
        assert (Hc : ((if 240 + r / 262144 =? 240 then 144 else 128) <=? 128 + (r / 4096) mod 64)
                     && (128 + (r / 4096) mod 64 <=? (if 240 + r / 262144 =? 244 then 143 else 191))
                     && ((128 <=? 128 + (r / 64) mod 64) && (128 + (r / 64) mod 64 <=? 191))
                     && ((128 <=? 128 + r mod 64) && (128 + r mod 64 <=? 191)) = true).
        { destruct (240 + r / 262144 =? 240) eqn:A; destruct (240 + r / 262144 =? 244) eqn:B; lia. }
        rewrite Hc. f_equal. lia.
Qed.

Lemma encode_rune_nonempty r : encode_rune r <> [].
Proof. unfold encode_rune. repeat match goal with |- context [if ?b then _ else _] => destruct b end; discriminate. Qed.

Lemma width_pos r : 1 <= width r <= 4.
Proof. unfold width, zlen, encode_rune. repeat match goal with |- context [if ?b then _ else _] => destruct b end; cbn; lia. Qed.

Lemma encode_cons r rs : encode (r :: rs) = encode_rune r ++ encode rs.
Proof. reflexivity. Qed.
Lemma encode_app a b : encode (a ++ b) = encode a ++ encode b.
Proof. unfold encode. apply flat_map_app. Qed.

Fixpoint with_offsets (off : Z) (rs : list Z) : list (Z * Z) :=
  match rs with [] => [] | r :: rs' => (off, r) :: with_offsets (off + width r) rs' end.

Lemma decode_from_encode rs : Forall (fun r => scalar r = true) rs ->
  forall fuel off, (length rs <= fuel)%nat -> decode_from fuel off (encode rs) = with_offsets off rs.
Proof.
  induction 1 as [|r rs Hr _ IH]; intros fuel off Hf.
  - destruct fuel; reflexivity.
  - destruct fuel as [|fuel]; [cbn in Hf; lia|]. rewrite encode_cons. cbn [decode_from with_offsets].
    destruct (encode_rune r ++ encode rs) eqn:E; [apply app_eq_nil in E as [E _]; exfalso; exact (encode_rune_nonempty r E)|].
    rewrite <- E, dec1_encode by exact Hr. f_equal.
    rewrite skipn_app, skipn_all, Nat.sub_diag. cbn [skipn app]. apply IH. cbn in Hf. lia.
Qed.

Lemma encode_length_ge rs : (length rs <= length (encode rs))%nat.
Proof.
  induction rs as [|r rs IH]; [reflexivity|]. rewrite encode_cons, app_length. cbn [length].
  pose proof (width_pos r) as Hw. unfold width, zlen in Hw. lia.
Qed.

Theorem range_str_encode rs : Forall (fun r => scalar r = true) rs -> range_str (encode rs) = with_offsets 0 rs.
Proof. intro H. unfold range_str. apply decode_from_encode; [exact H|apply encode_length_ge]. Qed.

Lemma map_snd_with_offsets off rs : map snd (with_offsets off rs) = rs.
Proof. revert off; induction rs as [|r rs IH]; intro off; cbn; [reflexivity|]. rewrite IH. reflexivity. Qed.

Theorem decode_encode rs : Forall (fun r => scalar r = true) rs -> decode (encode rs) = rs.
Proof. intro H. unfold decode. rewrite range_str_encode by exact H. apply map_snd_with_offsets. Qed.

(* byte offset of code point k *)
Definition boff (rs : list Z) (k : nat) : Z := zlen (encode (firstn k rs)).

Lemma boff_0 rs : boff rs 0 = 0. Proof. reflexivity. Qed.
Lemma boff_all rs k : (length rs <= k)%nat -> boff rs k = zlen (encode rs).
Proof. intro H. unfold boff. rewrite firstn_all2 by exact H. reflexivity. Qed.
Lemma zlen_app' {A} (a b : list A) : zlen (a ++ b) = zlen a + zlen b.
Proof. unfold zlen. rewrite app_length. lia. Qed.
Lemma boff_S rs k r : nth_error rs k = Some r -> boff rs (S k) = boff rs k + width r.
Proof.
  revert k; induction rs as [|x rs IH]; intros k Hn; [destruct k; discriminate|].
  destruct k as [|k].
  - cbn in Hn. injection Hn as ->. unfold boff. cbn [firstn]. rewrite encode_cons. cbn [encode]. rewrite app_nil_r. reflexivity.
  - cbn in Hn. specialize (IH k Hn). unfold boff in *.
    change (firstn (S (S k)) (x :: rs)) with (x :: firstn (S k) rs). change (firstn (S k) (x :: rs)) with (x :: firstn k rs).
    rewrite !encode_cons, !zlen_app', IH. lia.
Qed.
Lemma boff_mono rs a b : (a <= b)%nat -> boff rs a <= boff rs b.
Proof.
  intro Hab. unfold boff. replace b with (a + (b - a))%nat by lia.
  rewrite <- (firstn_skipn a (firstn (a + (b - a)) rs)), firstn_firstn, Nat.min_l by lia.
  rewrite encode_app, zlen_app'. unfold zlen. lia.
Qed.

Lemma with_offsets_skipn rs off k : with_offsets (off + boff rs k) (skipn k rs) = skipn k (with_offsets off rs).
Proof.
  revert off k; induction rs as [|r rs IH]; intros off k; [destruct k; reflexivity|].
  destruct k as [|k]; [rewrite boff_0, Z.add_0_r; reflexivity|].
  cbn [skipn with_offsets]. rewrite <- IH. f_equal. unfold boff. cbn [firstn]. rewrite encode_cons, zlen_app'. unfold width. lia.
Qed.

Lemma skipn_skipn2 {A} (a b : nat) (l : list A) : skipn a (skipn b l) = skipn (b + a) l.
Proof. revert l; induction b as [|b IH]; intro l; [reflexivity|]. destruct l; [destruct a; reflexivity|]. cbn. apply IH. Qed.

(* slicing the encoding at code-point offsets *)
Lemma zslice_encode rs a b : (a <= b <= length rs)%nat ->
  zslice (encode rs) (boff rs a) (boff rs b) = encode (slice rs a b).
Proof.
  intros Hab. unfold zslice, slice.
  assert (E : rs = firstn a rs ++ firstn (b - a) (skipn a rs) ++ skipn b rs).
  { rewrite <- (firstn_skipn a rs) at 1. f_equal.
    rewrite <- (firstn_skipn (b - a) (skipn a rs)) at 1. f_equal.
    rewrite skipn_skipn2. f_equal. lia. }
  assert (Een : encode rs = encode (firstn a rs) ++ encode (firstn (b - a) (skipn a rs)) ++ encode (skipn b rs)).
  { rewrite <- !encode_app, <- E. reflexivity. }
  assert (Ha : Z.to_nat (boff rs a) = length (encode (firstn a rs))) by (unfold boff, zlen; lia).
  assert (Hb : (Z.to_nat (boff rs b) - Z.to_nat (boff rs a))%nat = length (encode (firstn (b - a) (skipn a rs)))).
  { rewrite Ha. unfold boff, zlen. rewrite Nat2Z.id.
    assert (Ef : firstn b rs = firstn a rs ++ firstn (b - a) (skipn a rs)).
    { rewrite E at 1. rewrite firstn_app. rewrite firstn_length, Nat.min_l by lia.
      rewrite (firstn_all2 (firstn a rs)) by (rewrite firstn_length; lia).
      f_equal. rewrite firstn_app, firstn_length, skipn_length, Nat.min_l by lia.
      replace (b - a - (b - a))%nat with O by lia. rewrite firstn_O, app_nil_r.
      apply firstn_all2. rewrite firstn_length, skipn_length. lia. }
    rewrite Ef, encode_app, app_length. lia. }
  rewrite Hb, Ha, Een. rewrite skipn_app, skipn_all, Nat.sub_diag. cbn [skipn app].
  rewrite firstn_app, Nat.sub_diag, firstn_all. cbn [firstn]. rewrite app_nil_r. reflexivity.
Qed.
