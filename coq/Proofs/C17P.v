(* C17: options. *)
From Coq Require Import List Bool ZArith Lia.
Import ListNotations.
From Rosed Require Import Base.Res Base.ListX Base.Utf8 Base.Str Gem.Segment Gem.GString
     Model.Util Model.Tb Model.Manip Model.Table Model.Options Model.Editor Model.Ops Model.Hist.
Open Scope Z_scope.

Section C17.
Context `{Classifier} `{Upper}.

(* WithDefaults: string fields are never empty afterwards and a second application changes nothing there *)
Lemma wd_linesep o : o_linesep (with_defaults o) <> [] /\ o_linesep (with_defaults (with_defaults o)) = o_linesep (with_defaults o).
Proof. unfold with_defaults; cbn [o_linesep]. destruct (o_linesep o); cbn; split; try discriminate; reflexivity. Qed.
Lemma wd_indent o : o_indent (with_defaults o) <> [] /\ o_indent (with_defaults (with_defaults o)) = o_indent (with_defaults o).
Proof. unfold with_defaults; cbn [o_indent]. destruct (o_indent o); cbn; split; try discriminate; reflexivity. Qed.
Lemma wd_parasep o : o_parasep (with_defaults o) <> [] /\ o_parasep (with_defaults (with_defaults o)) = o_parasep (with_defaults o).
Proof. unfold with_defaults; cbn [o_parasep]. destruct (o_parasep o); cbn; split; try discriminate; reflexivity. Qed.

(* unset fields get exactly the documented defaults, set fields are kept *)
Lemma wd_values o :
  o_linesep (with_defaults o) = (match o_linesep o with [] => default_linesep | x => x end) /\
  o_indent (with_defaults o) = (match o_indent o with [] => default_indent | x => x end) /\
  o_parasep (with_defaults o) = (match o_parasep o with [] => default_parasep | x => x end) /\
  o_notrailing (with_defaults o) = o_notrailing o /\ o_preserve (with_defaults o) = o_preserve o /\
  o_justlast (with_defaults o) = o_justlast o /\ o_borders (with_defaults o) = o_borders o /\
  o_headers (with_defaults o) = o_headers o.
Proof. unfold with_defaults; cbn. repeat split. Qed.

(* idempotence, given that the first application produced a set as long as the default one *)
Theorem wd_idempotent o :
  glen (decode (o_charset (with_defaults o))) = glen (decode default_charset) ->
  with_defaults (with_defaults o) = with_defaults o.
Proof.
  intro Hc.
  destruct (wd_linesep o) as [_ H1]. destruct (wd_indent o) as [_ H2]. destruct (wd_parasep o) as [_ H3].
  set (o1 := with_defaults o) in *.
  unfold with_defaults at 1. rewrite Hc, Z.eqb_refl.
  change (match o_linesep o1 with [] => default_linesep | x => x end) with (o_linesep (with_defaults o1)).
  change (match o_indent o1 with [] => default_indent | x => x end) with (o_indent (with_defaults o1)).
  change (match o_parasep o1 with [] => default_parasep | x => x end) with (o_parasep (with_defaults o1)).
  rewrite H1, H2, H3. destruct o1; reflexivity.
Qed.

(* ---- the Options stored on the returned Editor are the receiver's ---- *)
Lemma with_text_opts e t : e_opts (with_text e t) = e_opts e. Proof. destruct e; reflexivity. Qed.
Lemma sub_ed_opts e s en r : sub_ed e s en = Ok r -> e_opts r = e_opts e.
Proof. unfold sub_ed. destruct (zsub _ _ _); cbn; try discriminate. intro E. injection E as <-. reflexivity. Qed.

Lemma chars_opts e s en r : chars e s en = Ok r -> e_opts r = e_opts e.
Proof.
  unfold chars. destruct (range_to_indexes _ _ _) as [s' e'].
  destruct (_ <=? s'); [apply sub_ed_opts|].
  destruct (znth _ s'); cbn [bind]; try discriminate.
  destruct (if e' <? _ then _ else _); cbn [bind]; try discriminate.
  destruct (chars_loop _ _ _ _ _ _ _). apply sub_ed_opts.
Qed.

Lemma lines_sel_opts e s en r : ed_lines_sel e s en = Ok r -> e_opts r = e_opts e.
Proof.
  unfold ed_lines_sel. destruct (e_text e) eqn:Et; [apply sub_ed_opts|].
  destruct (range_to_indexes _ _ _) as [s' e']. destruct (_ <=? s'); [apply sub_ed_opts|].
  destruct (lines_scan _ _ _ _ _ _) as [[b|]| |]; cbn [bind]; try discriminate; [|apply sub_ed_opts].
  destruct (lines_scan _ _ _ _ _ _) as [[b2|]| |]; cbn [bind]; try discriminate; apply sub_ed_opts.
Qed.

Lemma apply_opts_opts op o e r : apply_opts op o e = Ok r -> e_opts r = e_opts e.
Proof. unfold apply_opts. destruct (apply_each _ _ _); cbn [bind]; try discriminate. intro E. injection E as <-. apply with_text_opts. Qed.

Lemma apply_gparagraphs_opts op o e r : apply_gparagraphs op o e = Ok r -> e_opts r = e_opts e.
Proof. unfold apply_gparagraphs. destruct (paras_loop _ _ _ _ _ _ _ _); cbn [bind]; try discriminate. intro E. injection E as <-. apply with_text_opts. Qed.

Lemma insert_opts pos t e r : insert pos t e = Ok r -> e_opts r = e_opts e.
Proof.
  unfold insert, chars_to, chars_from. destruct (chars e 0 pos); cbn [bind]; try discriminate.
  destruct (chars e pos _); cbn [bind]; try discriminate. intro E. injection E as <-. apply with_text_opts.
Qed.

Ltac res_inv :=
  repeat match goal with
         | |- context [bind ?x _] => destruct x; cbn [bind]; try discriminate
         | |- Ok _ = Ok _ -> _ => let E := fresh in intro E; injection E as <-
         end.

Theorem ops_keep_options e o r :
  match o with OWithOptions _ | OCommit | OCommitAll => False | _ => True end ->
  run_op e o = Ok r -> e_opts r = e_opts e.
Proof.
  intro Hk. destruct o; try contradiction; cbn [run_op].
  - apply chars_opts.
  - apply chars_opts.
  - apply chars_opts.
  - apply lines_sel_opts.
  - apply lines_sel_opts.
  - apply lines_sel_opts.
  - apply insert_opts.
  - unfold delete. destruct (chars e s e0) as [sel| |]; cbn [bind]; try discriminate. destruct (e_ref sel) as [[[p a] b]|]; try discriminate.
    res_inv. apply with_text_opts.
  - unfold overtype, chars_to, chars_from. res_inv. apply with_text_opts.
  - unfold wrap_opts. destruct (o_preserve _); [apply apply_gparagraphs_opts|]. res_inv. apply with_text_opts.
  - unfold justify_opts. destruct (o_preserve _); [apply apply_gparagraphs_opts|].
    destruct (o_justlast _); [apply apply_opts_opts|].
    destruct (lines_to _ _); cbn [bind]; try discriminate. destruct (apply_opts _ _ _); cbn [bind]; try discriminate.
    destruct (commit _) as [c| |]; cbn [bind]; try discriminate. intro E. injection E as <-. destruct c; reflexivity.
  - unfold align_opts. destruct (_ || _); [intro E; injection E as <-; reflexivity|].
    destruct (o_preserve _); [apply apply_gparagraphs_opts|apply apply_opts_opts].
  - unfold collapse_space_opts. res_inv. apply with_text_opts.
  - unfold indent_opts. destruct (_ <? 1); [intro E; injection E as <-; reflexivity|].
    destruct (repeat_str _ _); cbn [bind]; try discriminate.
    destruct (o_preserve _); [apply apply_gparagraphs_opts|apply apply_opts_opts].
  - apply apply_opts_opts.
  - apply apply_gparagraphs_opts.
  - unfold insert_two_columns_opts. destruct l, r0; try (intro E; injection E as <-; reflexivity);
    destruct (two_col_widths _ _ _ _) as [[W lw] rw]; destruct (rw <? 2); try discriminate;
    destruct (wrap _ _ _); cbn [bind]; try discriminate; destruct (wrap _ _ _); cbn [bind]; try discriminate;
    destruct (combine_column_blocks _ _ _); cbn [bind]; try discriminate; apply insert_opts.
  - unfold insert_definitions_table_opts. destruct (def_rows _ _ _ _ _ _); cbn [bind]; try discriminate.
    destruct (0 <? _); [apply insert_opts|intro E; injection E as <-; reflexivity].
  - unfold insert_table_opts. apply insert_opts.
Qed.

End C17.
