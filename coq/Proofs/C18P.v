(* C18: totality - pieces of the argument that no public operation panics or runs out of fuel. *)
From Coq Require Import List Bool Arith ZArith Lia ZifyBool.
Import ListNotations.
From Rosed Require Import Base.Res Base.ListX Base.Utf8 Base.Str Gem.Segment Gem.GString Model.Util Model.Tb Model.Manip Model.Table
     Model.Options Model.Editor Model.Ops Proofs.SegmentP Proofs.C04P Proofs.C09P.
Open Scope Z_scope.

Section C18.
Context `{Classifier} `{Upper}.

Lemma split_at_cluster (cl : list (list Z)) i c : nth_error cl i = Some c ->
  concat cl = concat (firstn i cl) ++ c ++ concat (skipn (S i) cl).
Proof.
  revert i; induction cl as [|x cl IH]; intros [|i] Hn; cbn in Hn; try discriminate.
  - injection Hn as ->. reflexivity.
  - cbn [firstn skipn concat]. rewrite (IH i Hn) at 1. rewrite <- app_assoc. reflexivity.
Qed.

(* the loop of CollapseSpace terminates within its fuel and never indexes out of range *)
Lemma collapse_loop_total fuel : forall text i, 0 <= i -> (length text - Z.to_nat i < fuel)%nat ->
  exists r, collapse_loop fuel i text = Ok r.
Proof.
  induction fuel as [|fuel IH]; intros text i Hi Hf; [lia|].
  cbn [collapse_loop]. set (cl := clusters text).
  destruct (i <? zlen cl) eqn:E; [|eexists; reflexivity].
  unfold znth. replace (i <? 0) with false by lia.
  destruct (nth_error cl (Z.to_nat i)) as [ch|] eqn:En; [|apply nth_error_None in En; unfold zlen in E; lia].
  cbn [bind].
  pose proof (clusters_length_le text) as Hle. fold cl in Hle.
  assert (Hch : ch <> []).
  { pose proof (clusters_nonempty text) as Hne. fold cl in Hne. rewrite Forall_forall in Hne. apply Hne. eapply nth_error_In. exact En. }
  assert (Hlen : (length (concat (firstn (Z.to_nat i) cl) ++ [SP] ++ concat (skipn (S (Z.to_nat i)) cl)) <= length text)%nat).
  { assert (Et : length text = length (concat cl)) by (unfold cl; rewrite clusters_concat; reflexivity).
    rewrite Et, (split_at_cluster cl _ ch En). rewrite !app_length.
    destruct ch; [congruence|]. cbn [length]. lia. }
  apply IH; [lia|]. destruct (is_space (first_rune ch)); unfold zlen in *; lia.
Qed.

Theorem collapse_space_total text sep : exists r, collapse_space text sep = Ok r.
Proof.
  unfold collapse_space. set (t := if gis_empty sep then text else replace_all text sep [SP]).
  destruct (collapse_loop_total (S (length t)) t 0 ltac:(lia) ltac:(lia)) as [r Hr]. rewrite Hr. cbn [bind]. eexists. reflexivity.
Qed.

(* selection and the edits built on it never panic on valid UTF-8, for every integer position *)
Theorem chars_total rs o ref s e : scalars rs -> exists r, chars (Ed (encode rs) o ref) s e = Ok r.
Proof.
  intro Hs. pose proof (chars_spec rs o ref s e Hs) as Hc. cbv zeta in Hc.
  destruct (Check.Common.norm (zlen (clusters rs)) s e). eexists. exact Hc.
Qed.
Theorem insert_total rs o ref p x : scalars rs -> exists r, insert p x (Ed (encode rs) o ref) = Ok r.
Proof. intro Hs. eexists. apply (insert_spec rs o ref p x Hs). Qed.
Theorem delete_total rs o ref s e : scalars rs -> exists r, delete s e (Ed (encode rs) o ref) = Ok r.
Proof.
  intro Hs. pose proof (delete_spec rs o ref s e Hs) as Hd. cbv zeta in Hd.
  destruct (Check.Common.norm (zlen (clusters rs)) s e). eexists. exact Hd.
Qed.
Theorem overtype_total rs o ref p x : scalars rs -> exists r, overtype p x (Ed (encode rs) o ref) = Ok r.
Proof. intro Hs. eexists. apply (overtype_spec rs o ref p x Hs). Qed.

(* CollapseSpace as an Editor operation is total *)
Theorem collapse_space_opts_total opts e : exists r, collapse_space_opts opts e = Ok r.
Proof.
  unfold collapse_space_opts. destruct (collapse_space_total (decode (e_text e)) (decode (o_linesep (with_defaults opts)))) as [r Hr].
  rewrite Hr. cbn [bind]. eexists. reflexivity.
Qed.

(* Align outside paragraph mode is total: its per-line functions cannot fail *)
Lemma apply_each_total (f : Z -> list Z -> list (list Z)) lines i : exists r, apply_each (fun k l => Ok (f k l)) i lines = Ok r.
Proof.
  revert i; induction lines as [|l ls IH]; intro i; [eexists; reflexivity|]. cbn [apply_each bind].
  destruct (IH (i + 1)) as [r Hr]. rewrite Hr. cbn [bind]. eexists. reflexivity.
Qed.
Theorem align_opts_total align width opts e : o_preserve (with_defaults opts) = false -> exists r, align_opts align width opts e = Ok r.
Proof.
  intro Hp. unfold align_opts. destruct (_ || _); [eexists; reflexivity|]. rewrite Hp.
  unfold apply_opts.
  destruct (apply_each_total (fun _ line => [encode (align_line align (decode line) width)])
              (lines_sep (with_options e (with_defaults (with_defaults opts))) (o_linesep (with_defaults (with_defaults opts)))) 0) as [r Hr].
  rewrite Hr. cbn [bind]. eexists. reflexivity.
Qed.

End C18.
