(* C09: Insert, Delete and Overtype edit exactly the addressed clusters. *)
From Coq Require Import List Bool Arith ZArith Lia ZifyBool.
Import ListNotations.
From Rosed Require Import Base.Res Base.ListX Base.Utf8 Gem.Segment Gem.GString Model.Util Model.Tb Model.Manip Model.Table
     Model.Options Model.Editor Model.Ops Check.Common Proofs.SegmentP Proofs.Utf8P Proofs.C05P Proofs.C04P.
Open Scope Z_scope.

Section C09.
Context `{Classifier} `{Upper}.

Lemma clusters_length_le rs : (length (clusters rs) <= length rs)%nat.
Proof.
  pose proof (clusters_concat rs) as Hc. pose proof (clusters_nonempty rs) as Hn.
  rewrite <- Hc at 2. clear Hc. induction Hn as [|c l Hc' _ IH]; [cbn; lia|].
  cbn [length concat]. rewrite app_length. destruct c; [congruence|]. cbn [length]. lia.
Qed.

Lemma norm1_range n p : 0 <= n -> 0 <= norm1 n p <= n.
Proof. intro Hn. unfold norm1. destruct (p =? go_End); [lia|]. destruct (p <? 0) eqn:E; lia. Qed.

Lemma norm_to n p : 0 <= n -> norm n 0 p = (0, norm1 n p).
Proof.
  intro Hn. unfold norm. pose proof (norm1_range n p Hn).
  assert (E0 : norm1 n 0 = 0) by (unfold norm1, go_End, min_int; cbn; lia). rewrite E0. f_equal. lia.
Qed.

Lemma norm_from n p L : 0 <= n -> n <= L -> norm n p L = (norm1 n p, n).
Proof.
  intros Hn HL. unfold norm. pose proof (norm1_range n p Hn).
  assert (EL : norm1 n L = n).
  { unfold norm1, go_End, min_int. destruct (L =? -9223372036854775808) eqn:E; [reflexivity|]. destruct (L <? 0) eqn:E2; lia. }
  rewrite EL. f_equal. lia.
Qed.

Lemma text_len_ge rs : zlen (clusters rs) <= zlen (encode rs).
Proof. pose proof (clusters_length_le rs). pose proof (encode_length_ge rs). unfold zlen. lia. Qed.

Lemma chars_to_text rs o ref p : scalars rs ->
  exists r, chars_to (Ed (encode rs) o ref) p = Ok r /\
            e_text r = encode (concat (firstn (Z.to_nat (norm1 (zlen (clusters rs)) p)) (clusters rs))).
Proof.
  intro Hs. unfold chars_to. pose proof (chars_spec rs o ref 0 p Hs) as Hc. cbv zeta in Hc.
  rewrite norm_to in Hc by (unfold zlen; lia). eexists. split; [exact Hc|]. cbn [e_text]. rewrite zslice_0. reflexivity.
Qed.

Lemma chars_from_text rs o ref p : scalars rs ->
  exists r, chars_from (Ed (encode rs) o ref) p = Ok r /\
            e_text r = encode (concat (skipn (Z.to_nat (norm1 (zlen (clusters rs)) p)) (clusters rs))).
Proof.
  intro Hs. unfold chars_from. cbn [e_text]. pose proof (chars_spec rs o ref p (zlen (encode rs)) Hs) as Hc. cbv zeta in Hc.
  rewrite norm_from in Hc by (try apply text_len_ge; unfold zlen; lia). eexists. split; [exact Hc|]. cbn [e_text].
  rewrite zslice_to_end by (pose proof (norm1_range (zlen (clusters rs)) p); unfold zlen in *; lia). reflexivity.
Qed.

(* Insert: clusters[0:p'] ++ new ++ clusters[p':] *)
Theorem insert_spec rs o ref p x : scalars rs ->
  let cl := clusters rs in let p' := Z.to_nat (norm1 (zlen cl) p) in
  insert p x (Ed (encode rs) o ref) = Ok (Ed (encode (concat (firstn p' cl)) ++ x ++ encode (concat (skipn p' cl))) o ref).
Proof.
  intro Hs. cbv zeta. unfold insert.
  destruct (chars_to_text rs o ref p Hs) as (b & Hb & Tb). destruct (chars_from_text rs o ref p Hs) as (a & Ha & Ta).
  rewrite Hb, Ha. cbn [bind]. rewrite Tb, Ta. reflexivity.
Qed.

(* Delete: clusters[0:s'] ++ clusters[e':] *)
Theorem delete_spec rs o ref s e : scalars rs ->
  let cl := clusters rs in let '(s', e') := norm (zlen cl) s e in
  delete s e (Ed (encode rs) o ref) =
  Ok (Ed (encode (concat (firstn (Z.to_nat s') cl)) ++ encode (concat (skipn (Z.to_nat e') cl))) o ref).
Proof.
  intro Hs. cbv zeta. unfold delete.
  pose proof (chars_spec rs o ref s e Hs) as Hc. cbv zeta in Hc.
  assert (Hn0 : 0 <= zlen (clusters rs)) by (unfold zlen; lia).
  pose proof (range_to_indexes_bounds (zlen (clusters rs)) (if s =? go_End then zlen (clusters rs) else s)
                (if e =? go_End then zlen (clusters rs) else e) Hn0) as Hb.
  rewrite (range_to_indexes_is_norm (zlen (clusters rs)) s e Hn0 (or_intror I)) in Hb.
  destruct (norm (zlen (clusters rs)) s e) as [s' e']. destruct Hb as [[Hs0 Hse] Hen].
  rewrite Hc. cbn [bind e_ref e_text].
  set (cl := clusters rs) in *.
  pose proof (clusters_concat rs) as Hcat. fold cl in Hcat.
  assert (Hrl : roff cl (length cl) = length rs) by (rewrite roff_all by lia; rewrite Hcat; reflexivity).
  assert (Ha : boff rs (roff cl (Z.to_nat s')) <= boff rs (roff cl (Z.to_nat e'))) by (apply boff_mono, roff_mono; lia).
  assert (Hb2 : boff rs (roff cl (Z.to_nat e')) <= zlen (encode rs)).
  { rewrite <- (boff_all rs (length rs)) by lia. apply boff_mono. rewrite <- Hrl. apply roff_mono. unfold zlen in *; lia. }
  assert (H0b : 0 <= boff rs (roff cl (Z.to_nat s'))) by (unfold boff, zlen; lia).
  rewrite zsub_ok by lia. rewrite zsub_ok by lia. cbn [bind]. unfold with_text. cbn [e_opts e_ref].
  f_equal. f_equal. f_equal.
  - rewrite <- (boff_0 rs). rewrite zslice_encode by (pose proof (roff_mono cl (Z.to_nat s') (length cl)); unfold zlen in *; lia).
    f_equal. rewrite <- Hcat at 1. change O with (roff cl 0). rewrite slice_roff by (unfold zlen in *; lia).
    unfold slice. rewrite Nat.sub_0_r. reflexivity.
  - rewrite <- (boff_all rs (length rs)) at 1 by lia. rewrite zslice_encode by (pose proof (roff_mono cl (Z.to_nat e') (length cl)); unfold zlen in *; lia).
    f_equal. rewrite <- Hrl. rewrite <- Hcat at 1. rewrite slice_roff by (unfold zlen in *; lia).
    unfold slice. f_equal. apply firstn_all2. rewrite skipn_length. lia.
Qed.

(* Overtype: clusters[0:p'] ++ new ++ clusters[min(p' + len(new), n):] *)
Theorem overtype_spec rs o ref p x : scalars rs ->
  let cl := clusters rs in let n := zlen cl in let p' := norm1 n p in
  let stop := Z.min (p' + glen (decode x)) n in
  overtype p x (Ed (encode rs) o ref) =
  Ok (Ed (encode (concat (firstn (Z.to_nat p') cl)) ++ encode (decode x) ++ encode (concat (skipn (Z.to_nat stop) cl))) o ref).
Proof.
  intro Hs. cbv zeta. unfold overtype.
  destruct (chars_to_text rs o ref p Hs) as (b & Hb & Tb). rewrite Hb. cbn [bind]. rewrite Tb.
  set (cl := clusters rs). set (n := zlen cl). set (p' := norm1 n p).
  assert (Hp : 0 <= p' <= n) by (apply norm1_range; unfold n, zlen; lia).
  assert (Hsub : scalars (concat (firstn (Z.to_nat p') cl))).
  { apply (scalars_concat_sub rs); [exact Hs|]. intros c Hc. apply in_firstn' in Hc. exact Hc. }
  rewrite (decode_encode _ Hsub).
  assert (Hg : glen (concat (firstn (Z.to_nat p') cl)) = p').
  { unfold glen. subst cl. rewrite clusters_firstn. unfold zlen. rewrite firstn_length. fold (zlen (clusters rs)) in n. unfold n, zlen in Hp. lia. }
  rewrite Hg.
  assert (Hk : 0 <= glen (decode x)) by (unfold glen, zlen; lia).
  destruct (chars_from_text rs o ref (p' + glen (decode x)) Hs) as (a & Ha & Ta). rewrite Ha. cbn [bind]. rewrite Ta.
  fold cl n. unfold with_text. cbn [e_opts e_ref]. f_equal. f_equal. f_equal. f_equal. f_equal. f_equal.
  unfold norm1, go_End, min_int. destruct (p' + glen (decode x) =? -9223372036854775808) eqn:E; [lia|].
  destruct (p' + glen (decode x) <? 0) eqn:E2; [lia|]. reflexivity.
Qed.

End C09.
