(* C06, continued: the structure of wrapped lines. Every line Wrap emits is its pieces (words,
   or hyphen-terminated chunks of an over-long word) joined by single spaces; no piece is
   empty or holds a space cluster; and breaking is greedy: a line that is not full is followed
   by a piece that would not have fitted on it. *)
From Coq Require Import List Bool Arith ZArith Lia ZifyBool.
Import ListNotations.
From Rosed Require Import Base.Cls Base.Res Base.ListX Base.Str Gem.Segment Gem.GString Model.Util Model.Tb Model.Manip Model.Table
     Proofs.SegmentP Proofs.SeamP Proofs.StrP Proofs.C04P Proofs.C13P Proofs.C18P Proofs.C06P Proofs.C06Q.
Open Scope Z_scope.

Ltac glia := unfold gstr in *; lia.

Section C06R.
Context `{ClassifierOk} `{Upper}.

(* ---- pieces and lines of pieces ---- *)
Definition nosp (p : gstr) : Prop := Forall (fun c => first_rune c <> SP) (clusters p).
Definition pc_ok (p : gstr) : Prop := p <> [] /\ all_safe p /\ nosp p.
Definition ln (ps : list gstr) : gstr := join [SP] ps.

Lemma ln_snoc ps w : ps <> [] -> ln (ps ++ [w]) = ln ps ++ [SP] ++ w.
Proof.
  unfold ln. induction ps as [|p ps IH]; [congruence|]. intros _. destruct ps as [|q ps]; [reflexivity|].
  specialize (IH ltac:(discriminate)).
  change (join [SP] ((p :: q :: ps) ++ [w])) with (p ++ [SP] ++ join [SP] ((q :: ps) ++ [w])).
  change (join [SP] (p :: q :: ps)) with (p ++ [SP] ++ join [SP] (q :: ps)).
  rewrite IH, <- !app_assoc. reflexivity.
Qed.

Lemma ln_ne ps : ps <> [] -> Forall pc_ok ps -> ln ps <> [].
Proof.
  destruct ps as [|p ps]; [congruence|]. intros _ HF. inversion HF as [|? ? [Hp _] _]; subst.
  unfold ln. destruct ps; [exact Hp|]. rewrite join_cons by discriminate. destruct p; [congruence|discriminate].
Qed.

Lemma ln_props ps : Forall pc_ok ps -> all_safe (ln ps) /\ glen (ln ps) = sumZ (map glen ps) + Z.max 0 (zlen ps - 1).
Proof.
  induction ps as [|p ps IH] using rev_ind; intro HF; [split; [apply all_safe_nil|reflexivity]|].
  apply Forall_app in HF as [HF Hp]. inversion Hp as [|? ? (Hpne & Hps & _) _]; subst. destruct (IH HF) as [IHs IHg].
  destruct ps as [|q ps'] eqn:Eps.
  - cbn. split; [exact Hps|]. unfold zlen. cbn. lia.
  - rewrite <- Eps in *. assert (Hne : ps <> []) by (rewrite Eps; discriminate).
    rewrite ln_snoc by exact Hne. pose proof (ln_ne ps Hne HF) as Hlne.
    split; [apply all_safe_sp_app; assumption|].
    rewrite glen_sp_app by assumption. rewrite IHg, map_app, !zlen_app.
    assert (Hs : forall a b, sumZ (a ++ b) = sumZ a + sumZ b) by (induction a; intros; cbn; [reflexivity|rewrite IHa; lia]).
    rewrite Hs. cbn [map sumZ]. assert (1 <= zlen ps) by (rewrite Eps; unfold zlen; cbn; lia). unfold zlen at 3. cbn [length]. lia.
Qed.

Lemma ln_empty_iff ps : Forall pc_ok ps -> (glen (ln ps) =? 0) = match ps with [] => true | _ => false end.
Proof.
  intro HF. destruct ps as [|p ps]; [reflexivity|]. apply Z.eqb_neq. intro E. apply glen_zero_iff in E.
  exact (ln_ne (p :: ps) ltac:(discriminate) HF E).
Qed.

(* a line of pieces *)
Definition lp_ok (W : Z) (ps : list gstr) : Prop := ps <> [] /\ Forall pc_ok ps /\ glen (ln ps) <= W.

(* the line is full, or a piece of g clusters does not fit after it *)
Definition nofit (W : Z) (ps : list gstr) (g : Z) : Prop := glen (ln ps) = W \/ W < glen (ln ps) + 1 + g.

Definition link (W : Z) (pss : list (list gstr)) (g : Z) : Prop :=
  match pss with [] => True | _ => nofit W (List.last pss []) g end.

Fixpoint chain (W : Z) (pss : list (list gstr)) : Prop :=
  match pss with
  | ps :: ((ps' :: _) as rest) => nofit W ps (glen (hd [] ps')) /\ chain W rest
  | _ => True
  end.

Lemma link_mono W pss g g' : g <= g' -> link W pss g -> link W pss g'.
Proof. unfold link, nofit. destruct pss; [auto|]. intros Hg [E|E]; [left; exact E|right; lia]. Qed.

Lemma link_snoc W pss ps g : nofit W ps g -> link W (pss ++ [ps]) g.
Proof. unfold link. destruct (pss ++ [ps]) eqn:E; [destruct pss; discriminate|]. rewrite <- E, last_last. auto. Qed.

Lemma chain_snoc W pss ps : chain W pss -> link W pss (glen (hd [] ps)) -> chain W (pss ++ [ps]).
Proof.
  induction pss as [|a pss IH]; intros Hc Hl; [exact I|]. destruct pss as [|b pss].
  - cbn. unfold link in Hl. cbn in Hl. split; [exact Hl|exact I].
  - change ((a :: b :: pss) ++ [ps]) with (a :: b :: (pss ++ [ps])). cbn [chain] in *. destruct Hc as [Hab Hc].
    split; [exact Hab|]. change (b :: pss ++ [ps]) with ((b :: pss) ++ [ps]). apply IH; [exact Hc|].
    unfold link in *. change (List.last (a :: b :: pss) []) with (List.last (b :: pss) []) in Hl. exact Hl.
Qed.

(* ---- chunks of an over-long word ---- *)
Lemma nosp_gsub x a b : nosp x -> 0 <= a <= b -> b <= glen x -> nosp (gsub x a b).
Proof.
  intros Hn Hab Hb. unfold glen, zlen in Hb. unfold nosp in *.
  replace a with (Z.of_nat (Z.to_nat a)) by lia. replace b with (Z.of_nat (Z.to_nat b)) by lia.
  rewrite gsub_range by lia. rewrite clusters_slice. apply Forall_forall. intros c Hc. rewrite Forall_forall in Hn.
  apply Hn. apply in_firstn' in Hc. apply in_skipn' in Hc. exact Hc.
Qed.

Lemma nosp_hyphen x : all_safe x -> nosp x -> nosp (x ++ [HYPHEN]).
Proof.
  intros Hs Hn. unfold nosp in *. rewrite clusters_snoc_hyphen by exact Hs. apply Forall_app. split; [exact Hn|].
  constructor; [cbn; unfold HYPHEN, SP; lia|constructor].
Qed.

Lemma chunk_facts w W : pc_ok w -> 2 <= W -> W < glen w ->
  pc_ok (gsub w 0 (W - 1) ++ [HYPHEN]) /\ glen (gsub w 0 (W - 1) ++ [HYPHEN]) = W /\
  pc_ok (gsub w (W - 1) (glen w)) /\ glen (gsub w (W - 1) (glen w)) = glen w - (W - 1).
Proof.
  intros (Hne & Hs & Hn) HW Hlw.
  assert (H1a : 0 <= 0 <= W - 1) by lia. assert (H1b : W - 1 <= glen w) by lia.
  assert (H2a : 0 <= W - 1 <= glen w) by lia. assert (H2b : glen w <= glen w) by lia.
  destruct (gsub_safe w 0 (W - 1) Hs H1a H1b) as [Hs1 Hg1].
  destruct (gsub_safe w (W - 1) (glen w) Hs H2a H2b) as [Hs2 Hg2].
  split; [split; [destruct (gsub w 0 (W - 1)); discriminate|split; [apply all_safe_hyphen, Hs1|apply nosp_hyphen; [exact Hs1|apply nosp_gsub; [exact Hn|lia|lia]]]]|].
  split; [rewrite glen_hyphen by exact Hs1; lia|]. split; [|exact Hg2].
  split; [intro E; rewrite E in Hg2; cbn in Hg2; lia|]. split; [exact Hs2|apply nosp_gsub; [exact Hn|lia|lia]].
Qed.

(* ---- coverage: the pieces, read in order, are the words; an over-long word is cut into
   hyphen-ended chunks and a remainder ---- *)
Definition optw (w : gstr) : list gstr := match w with [] => [] | _ => [w] end.

Inductive cov (W : Z) : list gstr -> list gstr -> Prop :=
| cov_nil : cov W [] []
| cov_word w ps ws : cov W ps ws -> cov W (w :: ps) (w :: ws)
| cov_chunk o w' ps ws : w' <> [] -> W < glen (o ++ w') -> W <= glen (o ++ [HYPHEN]) <= W -> cov W ps (w' :: ws) -> cov W ((o ++ [HYPHEN]) :: ps) ((o ++ w') :: ws).

Lemma cov_split_last W ps : forall ws o w', w' <> [] -> W < glen (o ++ w') -> W <= glen (o ++ [HYPHEN]) <= W ->
  cov W (ps ++ [o ++ w']) ws -> cov W (ps ++ [o ++ [HYPHEN]] ++ [w']) ws.
Proof.
  induction ps as [|p ps IH]; intros ws o w' Hne Hlt Hfull Hc.
  - cbn [app] in *. inversion Hc as [|x ps0 ws0 Hc0|o2 w2 ps0 ws0 Hne2 Hlt2 Hf2 Hc0]; subst.
    + inversion Hc0; subst. apply cov_chunk; [exact Hne|exact Hlt|exact Hfull|]. apply cov_word. apply cov_nil.
    + inversion Hc0.
  - cbn [app] in *. inversion Hc as [|x ps0 ws0 Hc0|o2 w2 ps0 ws0 Hne2 Hlt2 Hf2 Hc0]; subst.
    + apply cov_word. apply IH; assumption.
    + apply cov_chunk; [exact Hne2|exact Hlt2|exact Hf2|]. apply IH; assumption.
Qed.

Lemma gsub_split w k : 0 <= k <= glen w -> gsub w 0 k ++ gsub w k (glen w) = w.
Proof.
  intro Hk. unfold glen, zlen in *. replace k with (Z.of_nat (Z.to_nat k)) by lia.
  change 0 with (Z.of_nat 0). rewrite !gsub_range by lia. cbn [skipn]. rewrite Nat.sub_0_r.
  rewrite (firstn_all2 (n := length (clusters w) - Z.to_nat k)) by (rewrite skipn_length; lia).
  rewrite <- concat_app, firstn_skipn. apply clusters_concat.
Qed.

(* ---- the word loop ---- *)
Definition St (W : Z) (pss : list (list gstr)) (cps : list gstr) : Prop :=
  Forall (lp_ok W) pss /\ chain W pss /\ Forall pc_ok cps /\
  (cps <> [] -> glen (ln cps) < W /\ link W pss (glen (hd [] cps))) /\
  (cps = [] -> link W pss 0).

Lemma ln_add cps w : Forall pc_ok cps -> pc_ok w ->
  gadd (if glen (ln cps) =? 0 then ln cps else gadd (ln cps) [SP]) w = ln (cps ++ [w]) /\
  glen (ln (cps ++ [w])) = glen (ln cps) + (glen w + (if glen (ln cps) =? 0 then 0 else 1)) /\
  Forall pc_ok (cps ++ [w]) /\ hd [] (cps ++ [w]) = match cps with [] => w | p :: _ => p end.
Proof.
  intros HF Hw. rewrite ln_empty_iff by exact HF.
  assert (HF' : Forall pc_ok (cps ++ [w])) by (apply Forall_app; split; [exact HF|constructor; [exact Hw|constructor]]).
  destruct cps as [|p cps].
  - cbn. repeat split; try lia; exact HF'.
  - split; [unfold gadd; rewrite ln_snoc by discriminate; rewrite <- app_assoc; reflexivity|].
    split; [|split; [exact HF'|reflexivity]].
    rewrite ln_snoc by discriminate. destruct (ln_props (p :: cps) HF) as [Hs _]. destruct Hw as (Hwne & Hws & _).
    rewrite glen_sp_app; [lia|apply ln_ne; [discriminate|exact HF]|exact Hs|exact Hws].
Qed.

Lemma append_word_struct W fuel : 2 <= W -> forall ws pss w cps r,
  (w = [] \/ pc_ok w) -> Forall (lp_ok W) pss -> chain W pss -> Forall pc_ok cps ->
  (cps <> [] -> glen (ln cps) < W /\ link W pss (glen (hd [] cps))) ->
  (cps = [] -> link W pss (Z.min (glen w) W)) ->
  cov W (concat pss ++ cps ++ optw w) ws ->
  append_word fuel (map ln pss) w (ln cps) W = Ok r ->
  exists pss' cps', r = (map ln pss', ln cps') /\ St W pss' cps' /\ cov W (concat pss' ++ cps') ws.
Proof.
  intro HW. induction fuel as [|fuel IH]; intros ws pss w cps r Hw Hpss Hch Hcps Hne Hnil Hcov Hr; [discriminate|].
  cbn [append_word] in Hr. destruct (0 <? glen w) eqn:E0.
  2:{ injection Hr as <-. exists pss, cps. split; [reflexivity|].
      assert (Hw0 : w = []) by (apply glen_zero_iff; pose proof (glen_nonneg w); glia).
      split; [|rewrite Hw0 in Hcov; cbn [optw] in Hcov; rewrite app_nil_r in Hcov; exact Hcov].
      repeat split; try assumption; try (apply Hne; assumption).
      intro Ec. specialize (Hnil Ec). assert (Hg : glen w = 0) by (pose proof (glen_nonneg w); glia). rewrite Hg in Hnil.
      replace (Z.min 0 W) with 0 in Hnil by glia. exact Hnil. }
  assert (Hwok : pc_ok w) by (destruct Hw as [->|Hw]; [cbn in E0; discriminate|exact Hw]).
  assert (Hoptw : optw w = [w]) by (destruct Hwok as [Hwne _]; destruct w; [congruence|reflexivity]).
  rewrite Hoptw in Hcov.
  destruct (ln_add cps w Hcps Hwok) as (Eadd & Gadd & Fadd & Hadd).
  rewrite (ln_empty_iff cps Hcps) in Hr, Eadd, Gadd.
  pose proof (glen_nonneg (ln cps)) as Hllnn.
  destruct cps as [|p cps'].
  - (* the current line is empty *)
    clear Hne. specialize (Hnil eq_refl). cbv iota in Hr, Eadd, Gadd. change (glen (ln [])) with 0 in *.
    rewrite !Z.add_0_l, !Z.add_0_r in Hr. rewrite Z.add_0_l, Z.add_0_r in Gadd. cbn [app] in *.
    assert (Hnone : forall X : Prop, (@nil gstr) <> [] -> X) by (intros X Hx; exfalso; apply Hx; reflexivity).
    destruct (glen w =? W) eqn:Ea.
    + rewrite Eadd in Hr. change (map ln pss ++ [ln [w]]) with (map ln pss ++ map ln [[w]]) in Hr. rewrite <- map_app in Hr.
      change (@nil Z) with (ln []) in Hr at 2.
      assert (A2 : Forall (lp_ok W) (pss ++ [[w]])).
      { apply Forall_app. split; [exact Hpss|]. constructor; [|constructor]. split; [discriminate|]. split; [exact Fadd|glia]. }
      assert (A3 : chain W (pss ++ [[w]])).
      { apply chain_snoc; [exact Hch|]. cbn [hd]. replace (Z.min (glen w) W) with (glen w) in Hnil by glia. exact Hnil. }
      assert (A6 : @nil gstr = [] -> link W (pss ++ [[w]]) (Z.min (glen []) W)) by (intros _; apply link_snoc; left; glia).
      assert (A7 : cov W (concat (pss ++ [[w]]) ++ [] ++ optw []) ws) by (rewrite concat_app; cbn [concat optw app]; rewrite !app_nil_r; exact Hcov).
      exact (IH ws (pss ++ [[w]]) [] [] r (or_introl eq_refl) A2 A3 (Forall_nil _) (Hnone _) A6 A7 Hr).
    + destruct (W <? glen w) eqn:Eb.
      * (* longer than the width: a chunk and a hyphen *)
        unfold gadd in Hr. cbn [ln join app] in Hr.
        destruct (chunk_facts w W Hwok HW ltac:(lia)) as (C1 & C2 & C3 & C4).
        change (map ln pss ++ [gsub w 0 (W - 1) ++ [HYPHEN]]) with (map ln pss ++ map ln [[gsub w 0 (W - 1) ++ [HYPHEN]]]) in Hr.
        rewrite <- map_app in Hr. change (@nil Z) with (ln []) in Hr.
        set (chunk := gsub w 0 (W - 1) ++ [HYPHEN]) in *.
        assert (A2 : Forall (lp_ok W) (pss ++ [[chunk]])).
        { apply Forall_app. split; [exact Hpss|]. constructor; [|constructor]. split; [discriminate|]. split; [constructor; [exact C1|constructor]|].
          cbn [ln join]. glia. }
        assert (A3 : chain W (pss ++ [[chunk]])).
        { apply chain_snoc; [exact Hch|]. cbn [hd]. rewrite C2. replace (Z.min (glen w) W) with W in Hnil by glia. exact Hnil. }
        assert (A6 : @nil gstr = [] -> link W (pss ++ [[chunk]]) (Z.min (glen (gsub w (W - 1) (glen w))) W)).
        { intros _. apply link_snoc. left. cbn [ln join]. exact C2. }
        assert (A7 : cov W (concat (pss ++ [[chunk]]) ++ [] ++ optw (gsub w (W - 1) (glen w))) ws).
        { destruct C3 as (C3ne & _). assert (Eo : optw (gsub w (W - 1) (glen w)) = [gsub w (W - 1) (glen w)]) by (destruct (gsub w (W - 1) (glen w)); [congruence|reflexivity]).
          rewrite Eo, concat_app. cbn [concat app]. rewrite <- app_assoc. unfold chunk. apply cov_split_last; [exact C3ne|rewrite (gsub_split w (W - 1)) by glia; glia|unfold chunk in C2; glia|].
          rewrite (gsub_split w (W - 1)) by glia. exact Hcov. }
        exact (IH ws (pss ++ [[chunk]]) (gsub w (W - 1) (glen w)) [] r (or_intror C3) A2 A3 (Forall_nil _) (Hnone _) A6 A7 Hr).
      * (* fits *)
        rewrite Eadd in Hr.
        assert (A5 : [w] <> [] -> glen (ln [w]) < W /\ link W pss (glen (hd [] [w]))).
        { intros _. split; [glia|]. cbn [hd]. replace (Z.min (glen w) W) with (glen w) in Hnil by glia. exact Hnil. }
        assert (A6 : [w] = [] -> link W pss (Z.min (glen []) W)) by discriminate.
        assert (A7 : cov W (concat pss ++ [w] ++ optw []) ws) by (cbn [optw]; rewrite app_nil_r; exact Hcov).
        exact (IH ws pss [] [w] r (or_introl eq_refl) Hpss Hch Fadd A5 A6 A7 Hr).
  - (* the current line holds pieces *)
    clear Hnil. destruct (Hne ltac:(discriminate)) as [Hlt Hlk]. cbv iota in Hr, Eadd, Gadd. cbn [hd] in Hlk.
    assert (Hnone : forall X : Prop, (@nil gstr) <> [] -> X) by (intros X Hx; exfalso; apply Hx; reflexivity).
    set (ll := glen (ln (p :: cps'))) in *.
    destruct (ll + (glen w + 1) =? W) eqn:Ea.
    + rewrite Eadd in Hr.
      change (map ln pss ++ [ln ((p :: cps') ++ [w])]) with (map ln pss ++ map ln [(p :: cps') ++ [w]]) in Hr. rewrite <- map_app in Hr.
      change (@nil Z) with (ln []) in Hr at 2.
      assert (A2 : Forall (lp_ok W) (pss ++ [(p :: cps') ++ [w]])).
      { apply Forall_app. split; [exact Hpss|]. constructor; [|constructor]. split; [discriminate|]. split; [exact Fadd|glia]. }
      assert (A3 : chain W (pss ++ [(p :: cps') ++ [w]])) by (apply chain_snoc; [exact Hch|cbn [hd app]; exact Hlk]).
      assert (A6 : @nil gstr = [] -> link W (pss ++ [(p :: cps') ++ [w]]) (Z.min (glen []) W)) by (intros _; apply link_snoc; left; glia).
      assert (A7 : cov W (concat (pss ++ [(p :: cps') ++ [w]]) ++ [] ++ optw []) ws) by (rewrite concat_app; cbn [concat optw]; rewrite !app_nil_r; exact Hcov).
      exact (IH ws (pss ++ [(p :: cps') ++ [w]]) [] [] r (or_introl eq_refl) A2 A3 (Forall_nil _) (Hnone _) A6 A7 Hr).
    + destruct (W <? ll + (glen w + 1)) eqn:Eb.
      * (* emit the line, retry the word on an empty one *)
        change (map ln pss ++ [ln (p :: cps')]) with (map ln pss ++ map ln [p :: cps']) in Hr. rewrite <- map_app in Hr.
        change (@nil Z) with (ln []) in Hr.
        assert (A2 : Forall (lp_ok W) (pss ++ [p :: cps'])).
        { apply Forall_app. split; [exact Hpss|]. constructor; [|constructor]. split; [discriminate|]. split; [exact Hcps|]. fold ll. glia. }
        assert (A3 : chain W (pss ++ [p :: cps'])) by (apply chain_snoc; [exact Hch|exact Hlk]).
        assert (A6 : @nil gstr = [] -> link W (pss ++ [p :: cps']) (Z.min (glen w) W)).
        { intros _. apply link_snoc. right. fold ll. glia. }
        assert (A7 : cov W (concat (pss ++ [p :: cps']) ++ [] ++ optw w) ws) by (rewrite Hoptw, concat_app; cbn [concat]; rewrite app_nil_r, <- app_assoc; exact Hcov).
        exact (IH ws (pss ++ [p :: cps']) w [] r (or_intror Hwok) A2 A3 (Forall_nil _) (Hnone _) A6 A7 Hr).
      * rewrite Eadd in Hr.
        assert (A5 : (p :: cps') ++ [w] <> [] -> glen (ln ((p :: cps') ++ [w])) < W /\ link W pss (glen (hd [] ((p :: cps') ++ [w])))).
        { intros _. split; [glia|]. cbn [hd app]. exact Hlk. }
        assert (A6 : (p :: cps') ++ [w] = [] -> link W pss (Z.min (glen []) W)) by discriminate.
        assert (A7 : cov W (concat pss ++ ((p :: cps') ++ [w]) ++ optw []) ws) by (cbn [optw]; rewrite app_nil_r; exact Hcov).
        exact (IH ws pss [] ((p :: cps') ++ [w]) r (or_introl eq_refl) Hpss Hch Fadd A5 A6 A7 Hr).
Qed.

(* ---- the cluster loop ---- *)
Lemma word_pc ct pre wordcl rest : all_safe ct -> clusters ct = pre ++ wordcl ++ rest ->
  Forall (fun c => first_rune c <> SP) wordcl -> concat wordcl = [] \/ pc_ok (concat wordcl).
Proof.
  intros Hs E Hn. destruct wordcl as [|c wc]; [left; reflexivity|right].
  assert (Hsl : c :: wc = firstn (length (c :: wc)) (skipn (length pre) (clusters ct))) by (rewrite E; apply mid_is_slice).
  split; [|split].
  - pose proof (clusters_nonempty ct) as Hne. rewrite E in Hne. apply Forall_app in Hne as [_ Hne]. apply Forall_app in Hne as [Hne _].
    inversion Hne; subst. cbn. destruct c; [congruence|discriminate].
  - apply (word_safe ct pre (c :: wc) rest Hs E).
  - unfold nosp. rewrite Hsl, clusters_slice, <- Hsl. exact Hn.
Qed.

Lemma St_link W pss cps w : 2 <= W -> St W pss cps -> cps = [] -> link W pss (Z.min (glen w) W).
Proof. intros HW (_ & _ & _ & _ & Hn) Hc. apply (link_mono W pss 0); [pose proof (glen_nonneg w); lia|apply Hn, Hc]. Qed.

Lemma cov_snoc W ps ws w : cov W ps ws -> cov W (ps ++ [w]) (ws ++ [w]).
Proof. induction 1; cbn [app]; [apply cov_word, cov_nil|apply cov_word; assumption|apply cov_chunk; assumption]. Qed.

Lemma cov_optw W ps ws w : cov W ps ws -> cov W (ps ++ optw w) (ws ++ optw w).
Proof. intro Hc. destruct w; cbn [optw]; [rewrite !app_nil_r; exact Hc|apply cov_snoc, Hc]. Qed.

(* the words of a cluster list: maximal runs of clusters that are not a space *)
Fixpoint wds (cl : list (list Z)) (cur : gstr) : list gstr :=
  match cl with
  | [] => optw cur
  | c :: cl' => if first_rune c =? SP then optw cur ++ wds cl' [] else wds cl' (cur ++ c)
  end.

Lemma wrap_loop_struct ct W : 2 <= W -> all_safe ct ->
  forall rest wordcl pre pss cps done r,
  clusters ct = pre ++ wordcl ++ rest -> Forall (fun c => first_rune c <> SP) wordcl -> St W pss cps ->
  cov W (concat pss ++ cps) done ->
  wrap_loop rest (map ln pss) (concat wordcl) (ln cps) W = Ok r ->
  exists pss' w' cps' done', r = (map ln pss', w', ln cps') /\ St W pss' cps' /\ (w' = [] \/ pc_ok w') /\
    cov W (concat pss' ++ cps') done' /\ done' ++ optw w' = done ++ wds rest (concat wordcl).
Proof.
  intros HW Hct. induction rest as [|ch rest IH]; intros wordcl pre pss cps done r E Hn Hst Hcov Hr.
  - cbn in Hr. injection Hr as <-. exists pss, (concat wordcl), cps, done. split; [reflexivity|]. split; [exact Hst|].
    split; [apply (word_pc ct pre wordcl [] Hct E Hn)|]. split; [exact Hcov|reflexivity].
  - cbn [wrap_loop wds] in *. destruct (first_rune ch =? SP) eqn:Esp.
    + unfold append_word_to_wrapped_line in Hr. replace (W <? 2) with false in Hr by lia.
      destruct (append_word _ (map ln pss) (concat wordcl) (ln cps) W) as [[l2 c2]| |] eqn:Ea; cbn [bind] in Hr; try discriminate.
      pose proof Hst as (S1 & S2 & S3 & S4 & S5).
      assert (Hcov' : cov W (concat pss ++ cps ++ optw (concat wordcl)) (done ++ optw (concat wordcl))) by (rewrite app_assoc; apply cov_optw, Hcov).
      destruct (append_word_struct W _ HW (done ++ optw (concat wordcl)) pss (concat wordcl) cps (l2, c2) (word_pc ct pre wordcl (ch :: rest) Hct E Hn) S1 S2 S3 S4
                  (St_link W pss cps (concat wordcl) HW Hst) Hcov' Ea) as (pss' & cps' & Er & Hst' & Hc').
      injection Er as -> ->. change (@nil Z) with (concat (@nil (list Z))) in Hr.
      destruct (IH [] (pre ++ wordcl ++ [ch]) pss' cps' (done ++ optw (concat wordcl)) r) as (pss2 & w2 & cps2 & done2 & Er2 & Hst2 & Hw2 & Hc2 & Hd2);
        [rewrite E, <- !app_assoc; reflexivity|constructor|exact Hst'|exact Hc'|exact Hr|].
      exists pss2, w2, cps2, done2. split; [exact Er2|split; [exact Hst2|split; [exact Hw2|split; [exact Hc2|]]]].
      rewrite Hd2. cbn [concat]. rewrite <- app_assoc. reflexivity.
    + unfold gadd in Hr. assert (Ec : concat wordcl ++ ch = concat (wordcl ++ [ch])) by (rewrite concat_app; cbn; rewrite app_nil_r; reflexivity).
      rewrite Ec in Hr |- *. apply (IH (wordcl ++ [ch]) pre pss cps done r); [rewrite E, <- !app_assoc; reflexivity| |exact Hst|exact Hcov|exact Hr].
      apply Forall_app. split; [exact Hn|]. constructor; [lia|constructor].
Qed.

(* Wrap: the lines are lines of pieces, none wider than the width, broken greedily, and the
   pieces are the words of the collapsed text in order (over-long words cut into chunks) *)
Theorem wrap_structure text w sep ct b : collapse_space text sep = Ok ct -> all_safe ct -> ct <> [] ->
  wrap text w sep = Ok b ->
  exists pss, b_lines b = map ln pss /\ Forall (lp_ok (Z.max w 2)) pss /\ chain (Z.max w 2) pss /\
              cov (Z.max w 2) (concat pss) (wds (clusters ct) []).
Proof.
  intros Hc Hs Hne Hw. unfold wrap in Hw. rewrite Hc in Hw. cbn [bind] in Hw.
  set (W := if w <? 2 then 2 else w) in *. assert (HW : 2 <= W) by (unfold W; destruct (w <? 2) eqn:E; lia).
  replace (Z.max w 2) with W by (unfold W; destruct (w <? 2) eqn:E; lia).
  destruct ct as [|x ct'] eqn:Ect; [congruence|]. rewrite <- Ect in *.
  destruct (wrap_loop (clusters ct) [] [] [] W) as [[[lines cw] cl]| |] eqn:El; cbn [bind] in Hw; try discriminate.
  assert (Hst0 : St W [] []).
  { unfold St. split; [apply Forall_nil|]. split; [exact I|]. split; [apply Forall_nil|]. split; [intro Hx; exfalso; apply Hx; reflexivity|intros _; exact I]. }
  change (@nil gstr) with (map ln []) in El at 1. change (@nil Z) with (concat (@nil (list Z))) in El at 1. change (@nil Z) with (ln []) in El.
  destruct (wrap_loop_struct ct W HW Hs (clusters ct) [] [] [] [] [] _ eq_refl ltac:(constructor) Hst0 (cov_nil W) El)
    as (pss1 & w1 & cps1 & done1 & Er & Hst1 & Hw1 & Hc1 & Hd1).
  injection Er as -> -> ->. cbn [app concat] in Hd1.
  assert (Hfin : forall pss cps l c ws, St W pss cps -> cov W (concat pss ++ cps) ws -> (l, c) = (map ln pss, ln cps) ->
            exists pss', (if gis_empty c then l else l ++ [c]) = map ln pss' /\ Forall (lp_ok W) pss' /\ chain W pss' /\ cov W (concat pss') ws).
  { intros pss cps l c ws (S1 & S2 & S3 & S4 & S5) Hcv Elc. injection Elc as -> ->. destruct cps as [|p cps'].
    - exists pss. cbn. rewrite app_nil_r in Hcv. repeat split; assumption.
    - destruct (S4 ltac:(discriminate)) as [Hlt Hlk]. pose proof (ln_ne (p :: cps') ltac:(discriminate) S3) as Hlne.
      assert (Hlp : lp_ok W (p :: cps')) by (split; [discriminate|split; [exact S3|lia]]).
      exists (pss ++ [p :: cps']). split.
      { destruct (ln (p :: cps')) eqn:Eln; [congruence|]. cbn [gis_empty]. rewrite <- Eln, map_app. reflexivity. }
      split; [apply Forall_app; split; [exact S1|constructor; [exact Hlp|constructor]]|].
      split; [apply chain_snoc; [exact S2|exact Hlk]|]. rewrite concat_app. cbn [concat]. rewrite app_nil_r. exact Hcv. }
  destruct (gis_empty w1) eqn:Ee.
  - cbn [bind] in Hw. injection Hw as <-. cbn [b_lines]. destruct w1; [|discriminate]. cbn [optw] in Hd1. rewrite app_nil_r in Hd1. subst done1.
    apply (Hfin pss1 cps1 _ _ _ Hst1 Hc1 eq_refl).
  - unfold append_word_to_wrapped_line in Hw. replace (W <? 2) with false in Hw by lia.
    destruct (append_word _ (map ln pss1) w1 (ln cps1) W) as [[l2 c2]| |] eqn:Ea; cbn [bind] in Hw; try discriminate.
    pose proof Hst1 as (S1 & S2 & S3 & S4 & S5).
    assert (Hcov' : cov W (concat pss1 ++ cps1 ++ optw w1) (wds (clusters ct) [])) by (rewrite <- Hd1, app_assoc; apply cov_optw, Hc1).
    destruct (append_word_struct W _ HW _ pss1 w1 cps1 (l2, c2) Hw1 S1 S2 S3 S4 (St_link W pss1 cps1 w1 HW Hst1) Hcov' Ea) as (pss2 & cps2 & Er & Hst2 & Hc2).
    injection Hw as <-. cbn [b_lines]. apply (Hfin pss2 cps2 _ _ _ Hst2 Hc2 Er).
Qed.

Corollary wrap_words text w sep ct b : collapse_space text sep = Ok ct -> all_safe ct -> ct <> [] -> wrap text w sep = Ok b ->
  exists pss, b_lines b = map ln pss /\ cov (Z.max w 2) (concat pss) (wds (clusters ct) []).
Proof.
  intros Hc Hs Hne Hw. destruct (wrap_structure text w sep ct b Hc Hs Hne Hw) as (pss & H2 & _ & _ & H4).
  exact (ex_intro _ pss (conj H2 H4)).
Qed.

End C06R.
