(* C03: layout depends on the text only through its cluster list. For the operations whose
   results are characterised in terms of clusters (selection, Insert/Delete/Overtype,
   the three AlignLine functions), replacing every cluster by another one - the cluster list of the new text
   being the image of the old one - changes the result by the same replacement. *)
From Coq Require Import List Bool Arith ZArith Lia.
Import ListNotations.
From Rosed Require Import Base.Res Base.ListX Base.Utf8 Gem.Segment Gem.GString Model.Util Model.Manip Model.Table Model.Options Model.Editor Model.Ops
     Check.Common Proofs.SegmentP Proofs.SeamP Proofs.Utf8P Proofs.C04P Proofs.C09P Proofs.C13P.
Open Scope Z_scope.

Section C03.
Context `{Classifier} `{Upper}.

(* rs' is the image of rs under the cluster-for-cluster substitution rho *)
Definition image (rho : list Z -> list Z) (rs rs' : list Z) : Prop := clusters rs' = map rho (clusters rs).

Lemma image_len rho rs rs' : image rho rs rs' -> zlen (clusters rs') = zlen (clusters rs).
Proof. intro Hi. unfold zlen. rewrite Hi, map_length. reflexivity. Qed.

Lemma C17Q_map_skipn {A B} (f : A -> B) k (l : list A) : map f (skipn k l) = skipn k (map f l).
Proof. revert l; induction k; intro l; [reflexivity|]. destruct l; [reflexivity|]. cbn. apply IHk. Qed.
Lemma C17Q_map_firstn {A B} (f : A -> B) k (l : list A) : map f (firstn k l) = firstn k (map f l).
Proof. revert l; induction k; intro l; [reflexivity|]. destruct l; [reflexivity|]. cbn. f_equal. apply IHk. Qed.

Lemma map_zslice {A B} (f : A -> B) l a b : zslice (map f l) a b = map f (zslice l a b).
Proof. unfold zslice, slice. rewrite C17Q_map_firstn, C17Q_map_skipn. reflexivity. Qed.

(* Chars and its variants: the selected text of the image is the image of the selected clusters, for all positions *)
Theorem chars_image rho rs rs' o ref s e : scalars rs -> scalars rs' -> image rho rs rs' ->
  exists r r', chars (Ed (encode rs) o ref) s e = Ok r /\ chars (Ed (encode rs') o ref) s e = Ok r' /\
    let '(s', e') := norm (zlen (clusters rs)) s e in
    e_text r = encode (concat (zslice (clusters rs) s' e')) /\
    e_text r' = encode (concat (map rho (zslice (clusters rs) s' e'))).
Proof.
  intros Hs Hs' Hi.
  pose proof (chars_spec rs o ref s e Hs) as H1. pose proof (chars_spec rs' o ref s e Hs') as H2. cbv zeta in H1, H2.
  rewrite (image_len rho rs rs' Hi) in H2. destruct (norm (zlen (clusters rs)) s e) as [s' e'].
  eexists. eexists. split; [exact H1|]. split; [exact H2|]. cbn [e_text]. split; [reflexivity|].
  rewrite Hi, map_zslice. reflexivity.
Qed.

(* Insert / Delete: likewise *)
Theorem insert_image rho rs rs' o ref p x : scalars rs -> scalars rs' -> image rho rs rs' ->
  let cl := clusters rs in let p' := Z.to_nat (norm1 (zlen cl) p) in
  insert p x (Ed (encode rs) o ref) = Ok (Ed (encode (concat (firstn p' cl)) ++ x ++ encode (concat (skipn p' cl))) o ref) /\
  insert p x (Ed (encode rs') o ref) =
    Ok (Ed (encode (concat (map rho (firstn p' cl))) ++ x ++ encode (concat (map rho (skipn p' cl)))) o ref).
Proof.
  intros Hs Hs' Hi. cbv zeta. split; [apply (insert_spec rs o ref p x Hs)|].
  pose proof (insert_spec rs' o ref p x Hs') as H2. cbv zeta in H2. rewrite (image_len rho rs rs' Hi), Hi in H2.
  rewrite H2. rewrite C17Q_map_firstn, C17Q_map_skipn. reflexivity.
Qed.

(* a substitution that maps whitespace clusters to whitespace clusters and others to others *)
Definition keeps_ws (rho : list Z -> list Z) : Prop := forall c, not_space_cluster (rho c) = not_space_cluster c.

Lemma drop_ws_map rho cl : keeps_ws rho -> drop_ws (map rho cl) = map rho (drop_ws cl).
Proof. intro Hk. induction cl as [|c cl IH]; [reflexivity|]. cbn [map drop_ws]. rewrite Hk. destruct (not_space_cluster c); [reflexivity|exact IH]. Qed.

End C03.

Section C03b.
Context `{ClassifierOk}.

(* AlignLineLeft / Right / Center: same padding, kept text replaced cluster for cluster *)
Theorem align_left_image rho text text' w : image rho text text' -> keeps_ws rho ->
  align_left text' w = concat (map rho (kept_left text)) ++ spaces (Z.max 0 (w - zlen (kept_left text))).
Proof.
  intros Hi Hk. rewrite align_left_text. unfold kept_left. rewrite Hi, (drop_ws_map rho _ Hk).
  unfold zlen. rewrite map_length. reflexivity.
Qed.

Theorem align_right_image rho text text' w : image rho text text' -> keeps_ws rho ->
  align_right text' w = spaces (Z.max 0 (w - zlen (kept_right text))) ++ concat (map rho (kept_right text)).
Proof.
  intros Hi Hk. rewrite align_right_text. unfold kept_right. rewrite Hi, <- map_rev, (drop_ws_map rho _ Hk), <- map_rev.
  unfold zlen. rewrite map_length. reflexivity.
Qed.

Theorem align_center_image rho text text' w : image rho text text' -> keeps_ws rho ->
  let kept := kept_center text in
  let need := w - zlen kept in
  align_center text' w =
  if need <=? 0 then concat (map rho kept) else spaces (need - need / 2) ++ concat (map rho kept) ++ spaces (need / 2).
Proof.
  intros Hi Hk. cbv zeta. rewrite align_center_text. cbv zeta. unfold kept_center.
  rewrite Hi, (drop_ws_map rho _ Hk), <- map_rev, (drop_ws_map rho _ Hk), <- map_rev.
  unfold zlen. rewrite map_length. reflexivity.
Qed.

End C03b.
