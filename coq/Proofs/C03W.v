(* C03 for Wrap: wrapping the cluster-for-cluster image of a text gives, line by line, the
   image of the wrapped text - line breaks fall at the same cluster positions whatever the
   clusters are made of. Proved by running the two word loops in lock step. *)
From Coq Require Import List Bool Arith ZArith Lia ZifyBool.
Import ListNotations.
From Rosed Require Import Base.Cls Base.Res Base.ListX Base.Str Base.Utf8 Gem.Segment Gem.GString Model.Util Model.Tb Model.Manip Model.Table
     Model.Options Model.Editor Model.Ops Proofs.SegmentP Proofs.SeamP Proofs.C04P Proofs.C13P Proofs.C18P Proofs.C06P Proofs.C06Q Proofs.C03P.
Open Scope Z_scope.

Ltac glia := unfold gstr in *; lia.

Section C03W.
Context `{ClassifierOk} `{Upper}.
Variable rho : list Z -> list Z.
Hypothesis rho_sp : rho [SP] = [SP].
Hypothesis rho_hy : rho [HYPHEN] = [HYPHEN].

Lemma image_nil : image rho [] [].
Proof. reflexivity. Qed.

Lemma image_glen x x' : image rho x x' -> glen x' = glen x.
Proof. intro Hi. unfold glen. apply (image_len rho x x' Hi). Qed.

Lemma image_ne x x' : image rho x x' -> x <> [] -> x' <> [].
Proof.
  intros Hi Hx Hx'. subst x'. unfold image in Hi. cbn in Hi. symmetry in Hi. apply map_eq_nil in Hi.
  apply clusters_nil_inv in Hi. congruence.
Qed.

Lemma image_sp_app a a' b b' : a <> [] -> all_safe a -> all_safe a' -> all_safe b -> all_safe b' ->
  image rho a a' -> image rho b b' -> image rho (a ++ [SP] ++ b) (a' ++ [SP] ++ b').
Proof.
  intros Hne Ha Ha' Hb Hb' Ia Ib. unfold image in *.
  rewrite !clusters_snoc_sp_app by (assumption || (apply (image_ne a a'); assumption)).
  rewrite Ia, Ib, !map_app. cbn [map]. rewrite rho_sp. reflexivity.
Qed.

Lemma image_hyphen a a' : all_safe a -> all_safe a' -> image rho a a' -> image rho (a ++ [HYPHEN]) (a' ++ [HYPHEN]).
Proof.
  intros Ha Ha' Ia. unfold image in *. rewrite !clusters_snoc_hyphen by assumption. rewrite Ia, map_app. cbn [map]. rewrite rho_hy. reflexivity.
Qed.

Lemma image_gsub x x' a b : image rho x x' -> image rho (gsub x a b) (gsub x' a b).
Proof.
  intro Hi. unfold image, gsub in *. rewrite (image_len rho x x' Hi).
  destruct (range_to_indexes (zlen (clusters x)) a b) as [s e]. destruct (s =? e); [reflexivity|].
  unfold zslice, slice. rewrite !clusters_slice. rewrite Hi, C17Q_map_firstn, C17Q_map_skipn. reflexivity.
Qed.

Lemma Forall2_snoc {A B} (R : A -> B -> Prop) l l' x x' : Forall2 R l l' -> R x x' -> Forall2 R (l ++ [x]) (l' ++ [x']).
Proof. intros HF Hx. apply Forall2_app; [exact HF|constructor; [exact Hx|constructor]]. Qed.

(* the word loop on a word and its image, a line and its image *)
Lemma append_word_image W fuel : 2 <= W -> forall lines lines' w w' cl cl' r r',
  all_safe w -> all_safe w' -> all_safe cl -> all_safe cl' ->
  image rho w w' -> image rho cl cl' -> Forall2 (image rho) lines lines' ->
  append_word fuel lines w cl W = Ok r -> append_word fuel lines' w' cl' W = Ok r' ->
  Forall2 (image rho) (fst r) (fst r') /\ image rho (snd r) (snd r') /\ all_safe (snd r) /\ all_safe (snd r').
Proof.
  intro HW. induction fuel as [|fuel IH]; intros lines lines' w w' cl cl' r r' Sw Sw' Sc Sc' Iw Ic Il Hr Hr'; [discriminate|].
  cbn [append_word] in Hr, Hr'.
  rewrite (image_glen w w' Iw), (image_glen cl cl' Ic) in Hr'.
  destruct (0 <? glen w) eqn:E0.
  2:{ injection Hr as <-. injection Hr' as <-. cbn [fst snd]. auto. }
  destruct (join_line cl w Sc Sw) as [Js Jg]. destruct (join_line cl' w' Sc' Sw') as [Js' Jg'].
  rewrite (image_glen cl cl' Ic) in Js', Jg'.
  assert (Ijoin : image rho (gadd (if glen cl =? 0 then cl else gadd cl [SP]) w) (gadd (if glen cl =? 0 then cl' else gadd cl' [SP]) w')).
  { destruct (glen cl =? 0) eqn:El.
    - apply Z.eqb_eq in El. pose proof (proj1 (glen_zero_iff cl) El) as En. subst cl.
      assert (cl' = []) by (apply glen_zero_iff; rewrite (image_glen [] cl' Ic); reflexivity). subst cl'. exact Iw.
    - assert (Hne : cl <> []) by (intro E; subst cl; cbn in El; discriminate).
      unfold gadd. rewrite <- !app_assoc. apply image_sp_app; assumption. }
  destruct (glen cl + (glen w + (if glen cl =? 0 then 0 else 1)) =? W) eqn:Ea.
  - refine (IH _ _ _ _ _ _ r r' all_safe_nil all_safe_nil all_safe_nil all_safe_nil image_nil image_nil _ Hr Hr').
    apply Forall2_snoc; assumption.
  - destruct (W <? glen cl + (glen w + (if glen cl =? 0 then 0 else 1))) eqn:Eb.
    + destruct (glen cl =? 0) eqn:El.
      * apply Z.eqb_eq in El. pose proof (proj1 (glen_zero_iff cl) El) as En. subst cl.
        assert (cl' = []) by (apply glen_zero_iff; rewrite (image_glen [] cl' Ic); reflexivity). subst cl'.
        unfold gadd in Hr, Hr'. cbn [app] in Hr, Hr'. cbn in Eb.
        assert (H1a : 0 <= 0 <= W - 1) by lia. assert (H1b : W - 1 <= glen w) by glia.
        assert (H2a : 0 <= W - 1 <= glen w) by glia. assert (H2b : glen w <= glen w) by lia.
        assert (H1b' : W - 1 <= glen w') by (rewrite (image_glen w w' Iw); exact H1b).
        assert (H2a' : 0 <= W - 1 <= glen w') by (rewrite (image_glen w w' Iw); exact H2a).
        assert (H2b' : glen w <= glen w') by (rewrite (image_glen w w' Iw); lia).
        destruct (gsub_safe w 0 (W - 1) Sw H1a H1b) as [G1 _]. destruct (gsub_safe w (W - 1) (glen w) Sw H2a H2b) as [G2 _].
        destruct (gsub_safe w' 0 (W - 1) Sw' H1a H1b') as [G1' _]. destruct (gsub_safe w' (W - 1) (glen w) Sw' H2a H2b') as [G2' _].
        refine (IH _ _ _ _ _ _ r r' G2 G2' all_safe_nil all_safe_nil (image_gsub w w' _ _ Iw) image_nil _ Hr Hr').
        apply Forall2_snoc; [exact Il|]. apply image_hyphen; [exact G1|exact G1'|apply image_gsub, Iw].
      * refine (IH _ _ _ _ _ _ r r' Sw Sw' all_safe_nil all_safe_nil Iw image_nil _ Hr Hr').
        apply Forall2_snoc; assumption.
    + exact (IH _ _ _ _ _ _ r r' all_safe_nil all_safe_nil Js Js' image_nil Ijoin Il Hr Hr').
Qed.

(* more fuel does not change a result *)
Lemma append_word_fuel_mono W : forall f lines w cl r, append_word f lines w cl W = Ok r ->
  forall f', (f <= f')%nat -> append_word f' lines w cl W = Ok r.
Proof.
  induction f as [|f IH]; intros lines w cl r Hr f' Hf; [discriminate|]. destruct f' as [|f']; [lia|].
  cbn [append_word] in *. destruct (0 <? glen w); [|exact Hr].
  destruct (glen cl + (glen w + (if glen cl =? 0 then 0 else 1)) =? W); [apply IH; [exact Hr|lia]|].
  destruct (W <? glen cl + (glen w + (if glen cl =? 0 then 0 else 1))); [|apply IH; [exact Hr|lia]].
  destruct (glen cl =? 0); apply IH; (exact Hr || lia).
Qed.

Hypothesis rho_spness : forall c, (first_rune (rho c) =? SP) = (first_rune c =? SP).

Lemma word_image ct ct' pre wordcl rest : clusters ct = pre ++ wordcl ++ rest -> clusters ct' = map rho (clusters ct) ->
  image rho (concat wordcl) (concat (map rho wordcl)).
Proof.
  intros E E'. unfold image.
  assert (E1 : clusters (concat wordcl) = wordcl).
  { rewrite (mid_is_slice pre wordcl rest), <- E. apply clusters_slice. }
  assert (E2 : clusters (concat (map rho wordcl)) = map rho wordcl).
  { rewrite E, !map_app in E'. rewrite (mid_is_slice (map rho pre) (map rho wordcl) (map rho rest)), <- E'. apply clusters_slice. }
  rewrite E1, E2. reflexivity.
Qed.

Lemma wrap_loop_image ct ct' W : 2 <= W -> all_safe ct -> all_safe ct' -> clusters ct' = map rho (clusters ct) ->
  forall rest wordcl pre lines lines' cl cl' r r',
  clusters ct = pre ++ wordcl ++ rest -> all_safe cl -> all_safe cl' -> image rho cl cl' -> Forall2 (image rho) lines lines' ->
  wrap_loop rest lines (concat wordcl) cl W = Ok r -> wrap_loop (map rho rest) lines' (concat (map rho wordcl)) cl' W = Ok r' ->
  let '(l, cw, c) := r in let '(l', cw', c') := r' in
  Forall2 (image rho) l l' /\ image rho cw cw' /\ image rho c c' /\ all_safe cw /\ all_safe cw' /\ all_safe c /\ all_safe c'.
Proof.
  intros HW Hs Hs' E'. induction rest as [|ch rest IH]; intros wordcl pre lines lines' cl cl' r r' E Sc Sc' Ic Il Hr Hr'.
  - cbn in Hr, Hr'. injection Hr as <-. injection Hr' as <-.
    assert (E2 : clusters ct' = map rho pre ++ map rho wordcl ++ map rho []) by (rewrite E', E, !map_app; reflexivity).
    repeat split; try assumption; [apply (word_image ct ct' pre wordcl [] E E')|apply (word_safe ct pre wordcl [] Hs E)|apply (word_safe ct' _ _ _ Hs' E2)].
  - cbn [wrap_loop map] in Hr, Hr'. rewrite rho_spness in Hr'.
    assert (E2 : clusters ct' = map rho pre ++ map rho wordcl ++ map rho (ch :: rest)) by (rewrite E', E, !map_app; reflexivity).
    destruct (first_rune ch =? SP) eqn:Esp.
    + unfold append_word_to_wrapped_line in Hr, Hr'. replace (W <? 2) with false in Hr, Hr' by lia.
      destruct (append_word _ lines (concat wordcl) cl W) as [[l2 c2]| |] eqn:Ea; cbn [bind] in Hr; try discriminate.
      destruct (append_word _ lines' (concat (map rho wordcl)) cl' W) as [[l2' c2']| |] eqn:Ea'; cbn [bind] in Hr'; try discriminate.
      set (f1 := (2 * length (concat wordcl) + 3)%nat) in *. set (f2 := (2 * length (concat (map rho wordcl)) + 3)%nat) in *.
      pose proof (append_word_fuel_mono W _ _ _ _ _ Ea (Nat.max f1 f2) ltac:(lia)) as Ea1.
      pose proof (append_word_fuel_mono W _ _ _ _ _ Ea' (Nat.max f1 f2) ltac:(lia)) as Ea1'.
      destruct (append_word_image W _ HW _ _ _ _ _ _ _ _ (word_safe ct pre wordcl (ch :: rest) Hs E) (word_safe ct' _ _ _ Hs' E2) Sc Sc'
                  (word_image ct ct' pre wordcl (ch :: rest) E E') Ic Il Ea1 Ea1') as (K1 & K2 & K3 & K4).
      cbn [fst snd] in *. change (@nil Z) with (concat (@nil (list Z))) in Hr. change (@nil Z) with (concat (map rho (@nil (list Z)))) in Hr'.
      apply (IH [] (pre ++ wordcl ++ [ch]) l2 l2' c2 c2' r r'); try assumption.
      rewrite E, <- !app_assoc. reflexivity.
    + unfold gadd in Hr, Hr'.
      assert (Ec : concat wordcl ++ ch = concat (wordcl ++ [ch])) by (rewrite concat_app; cbn; rewrite app_nil_r; reflexivity).
      assert (Ec' : concat (map rho wordcl) ++ rho ch = concat (map rho (wordcl ++ [ch]))) by (rewrite map_app, concat_app; cbn; rewrite app_nil_r; reflexivity).
      rewrite Ec in Hr. rewrite Ec' in Hr'.
      apply (IH (wordcl ++ [ch]) pre lines lines' cl cl' r r'); try assumption. rewrite E, <- !app_assoc. reflexivity.
Qed.

Lemma image_empty_iff x x' : image rho x x' -> gis_empty x' = gis_empty x.
Proof.
  intro Hi. destruct x as [|a x0]; destruct x' as [|a' x0']; try reflexivity.
  - exfalso. unfold image in Hi. cbn [clusters] in Hi. change (clusters []) with (@nil (list Z)) in Hi. cbn [map] in Hi.
    apply clusters_nil_inv in Hi. discriminate.
  - exfalso. apply (image_ne (a :: x0) [] Hi); [discriminate|reflexivity].
Qed.

(* Wrap on a collapsed text and on its cluster-for-cluster image: the lines correspond one to one *)
Theorem wrap_image text text' w sep ct ct' b b' :
  collapse_space text sep = Ok ct -> collapse_space text' sep = Ok ct' -> all_safe ct -> all_safe ct' ->
  clusters ct' = map rho (clusters ct) ->
  wrap text w sep = Ok b -> wrap text' w sep = Ok b' ->
  Forall2 (image rho) (b_lines b) (b_lines b').
Proof.
  intros Hc Hc' Hs Hs' E' Hw Hw'. unfold wrap in Hw, Hw'. rewrite Hc in Hw. rewrite Hc' in Hw'. cbn [bind] in Hw, Hw'.
  set (W := if w <? 2 then 2 else w) in *. assert (HW : 2 <= W) by (unfold W; destruct (w <? 2) eqn:E; lia).
  assert (Iall : image rho ct ct') by exact E'.
  pose proof (image_empty_iff ct ct' Iall) as Eemp.
  destruct ct as [|x0 ct0] eqn:Ect; destruct ct' as [|x0' ct0'] eqn:Ect'; try discriminate.
  - injection Hw as <-. injection Hw' as <-. cbn [b_lines]. constructor; [exact image_nil|constructor].
  - rewrite <- Ect, <- Ect' in *.
    destruct (wrap_loop (clusters ct) [] [] [] W) as [[[l cw] c]| |] eqn:El; cbn [bind] in Hw; try discriminate.
    destruct (wrap_loop (clusters ct') [] [] [] W) as [[[l' cw'] c']| |] eqn:El'; cbn [bind] in Hw'; try discriminate.
    rewrite E' in El'. change (@nil Z) with (concat (@nil (list Z))) in El at 1. change (@nil Z) with (concat (map rho (@nil (list Z)))) in El' at 1.
    pose proof (wrap_loop_image ct ct' W HW Hs Hs' E' (clusters ct) [] [] [] [] [] [] _ _ eq_refl all_safe_nil all_safe_nil image_nil (Forall2_nil _) El El')
      as (K1 & K2 & K3 & S1 & S2 & S3 & S4).
    rewrite (image_empty_iff cw cw' K2) in Hw'.
    assert (Hfin : forall l l' c c' bb bb', Forall2 (image rho) l l' -> image rho c c' ->
              Ok {| b_lines := if gis_empty c then l else l ++ [c]; b_sep := sep; b_trailing := false |} = Ok bb ->
              Ok {| b_lines := if gis_empty c' then l' else l' ++ [c']; b_sep := sep; b_trailing := false |} = Ok bb' ->
              Forall2 (image rho) (b_lines bb) (b_lines bb')).
    { intros m m' d d' bb bb' Hm Hd Hb Hb'. injection Hb as <-. injection Hb' as <-. cbn [b_lines].
      rewrite (image_empty_iff d d' Hd). destruct (gis_empty d); [exact Hm|apply Forall2_snoc; assumption]. }
    destruct (gis_empty cw) eqn:Ecw.
    + cbn [bind] in Hw, Hw'. apply (Hfin l l' c c' b b' K1 K3 Hw Hw').
    + unfold append_word_to_wrapped_line in Hw, Hw'. replace (W <? 2) with false in Hw, Hw' by lia.
      destruct (append_word _ l cw c W) as [[l2 c2]| |] eqn:Ea; cbn [bind] in Hw; try discriminate.
      destruct (append_word _ l' cw' c' W) as [[l2' c2']| |] eqn:Ea'; cbn [bind] in Hw'; try discriminate.
      set (f1 := (2 * length cw + 3)%nat) in *. set (f2 := (2 * length cw' + 3)%nat) in *.
      pose proof (append_word_fuel_mono W _ _ _ _ _ Ea (Nat.max f1 f2) ltac:(lia)) as Ea1.
      pose proof (append_word_fuel_mono W _ _ _ _ _ Ea' (Nat.max f1 f2) ltac:(lia)) as Ea1'.
      destruct (append_word_image W _ HW _ _ _ _ _ _ _ _ S1 S2 S3 S4 K2 K3 K1 Ea1 Ea1') as (G1 & G2 & _ & _).
      cbn [fst snd] in *. apply (Hfin l2 l2' c2 c2' b b' G1 G2 Hw Hw').
Qed.

End C03W.
