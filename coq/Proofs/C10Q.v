(* C10, continued: Lines(start, end). The two scanning loops (strings.Index from a running
   byte offset) find exactly the byte offsets at which the pieces of strings.Split start, so
   the selection is the lines start..end-1 of the one decomposition, with their terminators. *)
From Coq Require Import List Bool Arith ZArith Lia ZifyBool.
Import ListNotations.
From Rosed Require Import Base.Res Base.ListX Base.Str Gem.Segment Gem.GString Model.Util Model.Options Model.Editor
     Proofs.StrP Proofs.C04P.
Open Scope Z_scope.

(* ---- strings.Index and strings.Split agree on where separators are ---- *)
Lemma index_from_ge s sep : forall i k, index_from i s sep = Some k -> i <= k.
Proof.
  induction s as [|x s IH]; intros i k; cbn [index_from].
  - destruct (has_prefix [] sep); [intro E; inversion E; lia|discriminate].
  - destruct (has_prefix (x :: s) sep); [intro E; inversion E; lia|]. intro E. apply IH in E. lia.
Qed.

Lemma index_from_shift s sep : forall i j, index_from j s sep = option_map (fun k => k - i + j) (index_from i s sep).
Proof.
  induction s as [|x s IH]; intros i j; cbn [index_from].
  - destruct (has_prefix [] sep); cbn; [f_equal; lia|reflexivity].
  - destruct (has_prefix (x :: s) sep); cbn; [f_equal; lia|]. rewrite (IH (i + 1) (j + 1)).
    destruct (index_from (i + 1) s sep); cbn; [f_equal; lia|reflexivity].
Qed.

(* the first piece of Split ends at the first occurrence Index reports *)
Lemma split_aux_first sep : sep <> [] -> forall s cur,
  match index s sep with
  | None => split_aux (length sep) sep O cur s = [rev cur ++ s]
  | Some k => (Z.to_nat k + length sep <= length s)%nat /\ 0 <= k /\
              s = firstn (Z.to_nat k) s ++ sep ++ skipn (Z.to_nat k + length sep) s /\
              split_aux (length sep) sep O cur s =
                (rev cur ++ firstn (Z.to_nat k) s) :: split_aux (length sep) sep O [] (skipn (Z.to_nat k + length sep) s)
  end.
Proof.
  intro Hsep. unfold index. induction s as [|x s IH]; intro cur.
  - cbn [index_from]. destruct sep as [|y sep']; [congruence|]. cbn. rewrite app_nil_r. reflexivity.
  - cbn [index_from split_aux]. destruct (has_prefix (x :: s) sep) eqn:E.
    + apply has_prefix_spec in E. assert (Hl : (length sep <= length (x :: s))%nat) by (rewrite E, app_length; lia).
      cbn [Z.to_nat Nat.add firstn]. rewrite app_nil_r. split; [exact Hl|]. split; [lia|]. split; [exact E|].
      f_equal. destruct sep as [|y sep']; [congruence|]. cbn [length] in *. replace (S (length sep') - 1)%nat with (length sep') by lia.
      rewrite split_aux_skip by lia. reflexivity.
    + rewrite (index_from_shift s sep 0 (0 + 1)). specialize (IH (x :: cur)). destruct (index_from 0 s sep) as [k|] eqn:Ek; cbn [option_map].
      * destruct IH as (Hl & Hk & Hs & Hsp). replace (Z.to_nat (k - 0 + (0 + 1))) with (S (Z.to_nat k)) by lia.
        cbn [length firstn skipn Nat.add]. split; [lia|]. split; [lia|]. split; [cbn [app]; f_equal; exact Hs|].
        rewrite Hsp. cbn [rev]. rewrite <- app_assoc. reflexivity.
      * rewrite IH. cbn [rev]. rewrite <- app_assoc. reflexivity.
Qed.

Lemma split_first s sep : sep <> [] ->
  match index s sep with
  | None => split s sep = [s]
  | Some k => (Z.to_nat k + length sep <= length s)%nat /\ 0 <= k /\
              s = firstn (Z.to_nat k) s ++ sep ++ skipn (Z.to_nat k + length sep) s /\
              split s sep = firstn (Z.to_nat k) s :: split (skipn (Z.to_nat k + length sep) s) sep
  end.
Proof.
  intro Hsep. pose proof (split_aux_first sep Hsep s []) as Hf. unfold split. destruct sep as [|y sep']; [congruence|].
  destruct (index s (y :: sep')); exact Hf.
Qed.

Lemma split_ne s sep : sep <> [] -> split s sep <> [].
Proof. intro Hsep. unfold split. destruct sep; [congruence|]. apply split_aux_nonempty. Qed.

Lemma split_length_le sep : sep <> [] -> forall n s, (length s <= n)%nat -> (length (split s sep) <= length s + 1)%nat.
Proof.
  intro Hsep. induction n as [|n IH]; intros s Hn.
  - destruct s; [|cbn in Hn; lia]. pose proof (split_first [] sep Hsep) as Hf. destruct (index [] sep) as [k|].
    + destruct Hf as (Hl & _). destruct sep; [congruence|]. cbn in Hl. lia.
    + rewrite Hf. cbn. lia.
  - pose proof (split_first s sep Hsep) as Hf. destruct (index s sep) as [k|]; [|rewrite Hf; cbn; lia].
    destruct Hf as (Hl & Hk & _ & Hsp). rewrite Hsp. cbn [length].
    assert (Hs : (0 < length sep)%nat) by (destruct sep; [congruence|cbn; lia]).
    specialize (IH (skipn (Z.to_nat k + length sep) s)). rewrite skipn_length in IH. lia.
Qed.

(* ---- the scanning loop ---- *)
Definition off (sep : list Z) (Q : list (list Z)) (d : nat) : Z :=
  Z.of_nat (length (concat (map (fun p => p ++ sep) (firstn d Q)))).

Lemma off_0 sep Q : off sep Q 0 = 0. Proof. reflexivity. Qed.

Lemma off_S sep p Q d : off sep (p :: Q) (S d) = zlen p + zlen sep + off sep Q d.
Proof. unfold off, zlen. cbn [firstn map concat]. rewrite !app_length. lia. Qed.

Lemma skipn_skipn2 {A} (l : list A) a b : skipn a (skipn b l) = skipn (b + a) l.
Proof. revert l; induction b as [|b IH]; intro l; [reflexivity|]. destruct l; [destruct a; reflexivity|]. cbn. apply IH. Qed.

Lemma zsub_suffix {A} (l : list A) pos : (pos <= length l)%nat -> zsub l (Z.of_nat pos) (zlen l) = Ok (skipn pos l).
Proof.
  intro Hp. unfold zsub, zlen. replace ((Z.of_nat pos <? 0) || (Z.of_nat (length l) <? Z.of_nat pos) || (Z.of_nat (length l) <? Z.of_nat (length l))) with false by lia.
  unfold zslice, slice. rewrite !Nat2Z.id. rewrite firstn_all2 by (rewrite skipn_length; lia). reflexivity.
Qed.

Lemma lines_scan_spec sep text : sep <> [] -> forall d fuel lineIdx pos,
  (pos <= length text)%nat -> (length (split (skipn pos text) sep) <= fuel)%nat ->
  lines_scan fuel text sep lineIdx (lineIdx + Z.of_nat d) (Z.of_nat pos)
  = Ok (if (d <? length (split (skipn pos text) sep))%nat then Some (Z.of_nat pos + off sep (split (skipn pos text) sep) d) else None).
Proof.
  intro Hsep. induction d as [|d IH]; intros fuel lineIdx pos Hpos Hfuel.
  - pose proof (split_ne (skipn pos text) sep Hsep) as Hne.
    destruct fuel as [|fuel]; [destruct (split (skipn pos text) sep); [congruence|cbn in Hfuel; lia]|].
    cbn [lines_scan]. replace (lineIdx =? lineIdx + Z.of_nat 0) with true by lia.
    destruct (split (skipn pos text) sep) as [|q Q]; [congruence|]. cbn [length Nat.ltb Nat.leb]. rewrite off_0. f_equal. f_equal. lia.
  - pose proof (split_ne (skipn pos text) sep Hsep) as Hne.
    destruct fuel as [|fuel]; [destruct (split (skipn pos text) sep); [congruence|cbn in Hfuel; lia]|].
    cbn [lines_scan]. replace (lineIdx =? lineIdx + Z.of_nat (S d)) with false by lia.
    rewrite zsub_suffix by exact Hpos. cbn [bind].
    pose proof (split_first (skipn pos text) sep Hsep) as Hf. destruct (index (skipn pos text) sep) as [k|].
    + destruct Hf as (Hl & Hk & Hs & Hsp). rewrite skipn_length in Hl.
      replace (Z.of_nat pos + k + zlen sep) with (Z.of_nat (pos + (Z.to_nat k + length sep))) by (unfold zlen; lia).
      replace (lineIdx + Z.of_nat (S d)) with ((lineIdx + 1) + Z.of_nat d) by lia.
      rewrite skipn_skipn2 in Hsp. rewrite Hsp in Hfuel |- *. cbn [length] in Hfuel.
      rewrite IH by lia. f_equal. cbn [length]. change (S d <? S ?n)%nat with (d <? n)%nat.
      destruct (d <? length (split (skipn (pos + (Z.to_nat k + length sep)) text) sep))%nat; [|reflexivity].
      f_equal. rewrite off_S. unfold zlen. rewrite firstn_length, skipn_length. lia.
    + rewrite Hf. cbn [length]. destruct d; reflexivity.
Qed.

(* the text from the start of piece a on splits into the pieces from a on *)
Lemma split_suffix sep : sep <> [] -> forall a text, (a < length (split text sep))%nat ->
  (Z.to_nat (off sep (split text sep) a) <= length text)%nat /\
  split (skipn (Z.to_nat (off sep (split text sep) a)) text) sep = skipn a (split text sep).
Proof.
  intro Hsep. induction a as [|a IH]; intros text Ha.
  - rewrite off_0. cbn. split; [lia|reflexivity].
  - pose proof (split_first text sep Hsep) as Hf. destruct (index text sep) as [k|]; [|rewrite Hf in Ha; cbn in Ha; lia].
    destruct Hf as (Hl & Hk & Hs & Hsp). rewrite Hsp in Ha |- *. cbn [length] in Ha.
    destruct (IH (skipn (Z.to_nat k + length sep) text) ltac:(lia)) as [IH1 IH2].
    rewrite off_S. cbn [skipn]. unfold zlen. rewrite firstn_length. rewrite skipn_length in IH1.
    set (o := off sep (split (skipn (Z.to_nat k + length sep) text) sep) a) in *.
    assert (Ho : 0 <= o) by (unfold o, off; lia).
    replace (Z.to_nat (Z.of_nat (Nat.min (Z.to_nat k) (length text)) + Z.of_nat (length sep) + o)) with ((Z.to_nat k + length sep) + Z.to_nat o)%nat by lia.
    split; [lia|]. rewrite <- skipn_skipn2. exact IH2.
Qed.

Lemma off_add sep P a d : off sep P (a + d) = off sep P a + off sep (skipn a P) d.
Proof.
  unfold off. revert P; induction a as [|a IH]; intro P; [reflexivity|]. destruct P as [|p P]; [cbn; destruct d; reflexivity|].
  cbn [Nat.add firstn map concat skipn]. rewrite !app_length. specialize (IH P). lia.
Qed.

Lemma lines_sep_length e sep : let P := split (e_text e) sep in
  (length (lines_sep e sep) <= length P)%nat.
Proof.
  cbv zeta. unfold lines_sep. destruct (rev (split (e_text e) sep)) as [|[|x l] rest] eqn:E; try lia.
  destruct (negb (o_notrailing (e_opts e))); [|lia].
  assert (Hl : length (split (e_text e) sep) = length ([] :: rest)) by (rewrite <- E, rev_length; reflexivity).
  rewrite rev_length, Hl. cbn. lia.
Qed.

(* ---- what those byte ranges contain ---- *)
Lemma join_prefix sep : forall k P, (k < length P)%nat ->
  join sep P = concat (map (fun p => p ++ sep) (firstn k P)) ++ join sep (skipn k P).
Proof.
  induction k as [|k IH]; intros P Hk; [reflexivity|]. destruct P as [|p P]; [cbn in Hk; lia|].
  cbn [length] in Hk. rewrite join_cons by (destruct P; [cbn in Hk; lia|discriminate]).
  cbn [firstn map concat skipn]. rewrite (IH P) by lia. rewrite <- !app_assoc. reflexivity.
Qed.

Lemma skipn_exact {A} (a b : list A) n : length a = n -> skipn n (a ++ b) = b.
Proof. intros <-. rewrite skipn_app, skipn_all, Nat.sub_diag. reflexivity. Qed.

Lemma firstn_exact {A} (a b : list A) n : length a = n -> firstn n (a ++ b) = a.
Proof. intros <-. rewrite firstn_app, firstn_all, Nat.sub_diag. cbn. apply app_nil_r. Qed.

Theorem lines_range_text sep text (P := split text sep) a b : sep <> [] -> (a <= b)%nat -> (b < length P)%nat ->
  zslice text (off sep P a) (off sep P b) = concat (map (fun p => p ++ sep) (slice P a b)).
Proof.
  intros Hsep Hab Hb. pose proof (join_split text sep Hsep) as Hj. fold P in Hj.
  unfold zslice, slice, off. rewrite !Nat2Z.id.
  rewrite <- Hj at 1. rewrite (join_prefix sep a P) by lia. rewrite skipn_exact by reflexivity.
  rewrite (join_prefix sep (b - a) (skipn a P)) by (rewrite skipn_length; lia).
  apply firstn_exact.
  pose proof (off_add sep P a (b - a)) as Ho. unfold off in Ho. replace (a + (b - a))%nat with b in Ho by lia. lia.
Qed.

Theorem lines_tail_text sep text (P := split text sep) a : sep <> [] -> (a < length P)%nat ->
  zslice text (off sep P a) (zlen text) = join sep (skipn a P).
Proof.
  intros Hsep Ha. pose proof (join_split text sep Hsep) as Hj. fold P in Hj.
  unfold zslice, slice, off, zlen. rewrite !Nat2Z.id.
  rewrite <- Hj at 2. rewrite (join_prefix sep a P) at 1 by lia. rewrite skipn_exact by reflexivity.
  apply firstn_all2. rewrite <- Hj at 1. rewrite (join_prefix sep a P) by lia. rewrite app_length. lia.
Qed.

Section C10Q.
Context `{Classifier}.

(* Lines(start, end): the byte range from the start of line a to the start of line b (or the
   end of the text when b is past the last piece), where (a, b) is the normalised range *)
Theorem lines_sel_spec e s0 e0 :
  let text := e_text e in
  let sep := o_linesep (with_defaults (e_opts e)) in
  let P := split text sep in
  let lc := line_count e in
  let s1 := if s0 =? go_End then lc else s0 in
  let e1 := if e0 =? go_End then lc else e0 in
  text <> [] -> sep <> [] ->
  ed_lines_sel e s0 e0 =
    let '(a, b) := range_to_indexes lc s1 e1 in
    if lc <=? a then sub_ed e (zlen text) (zlen text)
    else sub_ed e (off sep P (Z.to_nat a)) (if (Z.to_nat b <? length P)%nat then off sep P (Z.to_nat b) else zlen text).
Proof.
  cbv zeta. intros Htext Hsep. unfold ed_lines_sel. destruct (e_text e) as [|x t] eqn:Et; [congruence|]. rewrite <- Et in *.
  set (text := e_text e) in *. set (sep := o_linesep (with_defaults (e_opts e))) in *. set (P := split text sep).
  set (lc := line_count e).
  assert (Hlc : 0 <= lc <= Z.of_nat (length P)).
  { unfold lc, line_count, ed_lines. fold sep. pose proof (lines_sep_length e sep) as Hl. cbv zeta in Hl. fold text P in Hl. unfold zlen. lia. }
  pose proof (range_to_indexes_bounds lc (if s0 =? go_End then lc else s0) (if e0 =? go_End then lc else e0) ltac:(lia)) as Hb.
  destruct (range_to_indexes lc (if s0 =? go_End then lc else s0) (if e0 =? go_End then lc else e0)) as [a b]. destruct Hb as [[Ha Hab] Hblc].
  destruct (lc <=? a) eqn:Ela; [reflexivity|].
  assert (HPlen : (length P <= S (S (length text)))%nat).
  { pose proof (split_length_le sep Hsep (length text) text ltac:(lia)) as Hl. fold P in Hl. lia. }
  (* first loop *)
  pose proof (lines_scan_spec sep text Hsep (Z.to_nat a) (S (S (length text))) 0 0%nat ltac:(lia)) as H1.
  cbn [skipn] in H1. fold P in H1. specialize (H1 HPlen). change (Z.of_nat 0) with 0 in H1. rewrite Z.add_0_l, Z2Nat.id in H1 by lia.
  rewrite H1. cbn [bind]. replace (Z.to_nat a <? length P)%nat with true by lia. rewrite Z.add_0_l.
  (* second loop *)
  destruct (split_suffix sep Hsep (Z.to_nat a) text ltac:(fold P; lia)) as [Hoff Hsuf]. fold P in Hoff, Hsuf.
  pose proof (lines_scan_spec sep text Hsep (Z.to_nat (b - a)) (S (S (length text))) a (Z.to_nat (off sep P (Z.to_nat a))) Hoff) as H2.
  rewrite Hsuf in H2. rewrite skipn_length in H2. specialize (H2 ltac:(lia)).
  assert (Hoff0 : 0 <= off sep P (Z.to_nat a)) by (unfold off; lia).
  rewrite !Z2Nat.id in H2 by lia. replace (a + (b - a)) with b in H2 by lia. rewrite H2. cbn [bind].
  replace (Z.to_nat (b - a) <? length P - Z.to_nat a)%nat with (Z.to_nat b <? length P)%nat by lia.
  destruct (Z.to_nat b <? length P)%nat eqn:Eb; [|reflexivity].
  rewrite <- off_add. replace (Z.to_nat a + Z.to_nat (b - a))%nat with (Z.to_nat b) by lia. reflexivity.
Qed.

End C10Q.
