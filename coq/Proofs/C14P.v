(* C14: the column-width arithmetic of InsertTwoColumns. *)
From Coq Require Import List Bool ZArith Lia.
Import ListNotations.
From Rosed Require Import Base.Res Base.ListX Gem.Segment Gem.GString Model.Table Model.Ops.
Open Scope Z_scope.

(* for every width, every gap >= 0 and every percentage (given exactly as m * 2^ex,
   below 0 and above 1 included): both columns are at least 2 wide and, with the gap,
   they fill the clamped total width exactly *)
Theorem two_col_widths_ok width gap m ex :
  let '(W, lw, rw) := two_col_widths width gap m ex in
  W = Z.max width (gap + 4) /\ 2 <= lw /\ 2 <= rw /\ lw + gap + rw = W.
Proof.
  unfold two_col_widths.
  set (W := if width <? gap + 4 then gap + 4 else width).
  assert (HW : W = Z.max width (gap + 4)) by (subst W; destruct (width <? gap + 4) eqn:E; lia).
  set (l0 := if m <=? 0 then 0 else if pct_gt_one m ex then W - gap else fmul_trunc (W - gap) m ex).
  clearbody l0.
  set (l1 := if l0 <? 2 then 2 else l0).
  set (l2 := if W - gap - 2 <? l1 then W - gap - 2 else l1).
  assert (H1 : 2 <= l1) by (subst l1; destruct (l0 <? 2) eqn:E; lia).
  assert (H2 : 2 <= l2 /\ l2 <= W - gap - 2) by (subst l2; destruct (W - gap - 2 <? l1) eqn:E; lia).
  repeat split; lia.
Qed.

(* hence the explicit panic of InsertTwoColumns is unreachable *)
Corollary two_col_no_panic width gap m ex :
  let '(_, _, rw) := two_col_widths width gap m ex in (rw <? 2) = false.
Proof.
  pose proof (two_col_widths_ok width gap m ex) as H. destruct (two_col_widths width gap m ex) as [[W lw] rw].
  destruct H as (_ & _ & H & _). lia.
Qed.

(* when the percentage is within [0,1] and the scaled width needs no clamping, the
   left width is the truncated product, as documented *)
Lemma two_col_widths_unclamped width gap m ex :
  let W := Z.max width (gap + 4) in
  0 < m -> pct_gt_one m ex = false ->
  2 <= fmul_trunc (W - gap) m ex <= W - gap - 2 ->
  two_col_widths width gap m ex = (W, fmul_trunc (W - gap) m ex, (W - gap) - fmul_trunc (W - gap) m ex).
Proof.
  intros W Hm Hp Hr. unfold two_col_widths.
  replace (if width <? gap + 4 then gap + 4 else width) with W by (subst W; destruct (width <? gap + 4) eqn:E; lia).
  destruct (m <=? 0) eqn:E1; [lia|]. rewrite Hp.
  destruct (fmul_trunc (W - gap) m ex <? 2) eqn:E2; [lia|].
  destruct (W - gap - 2 <? fmul_trunc (W - gap) m ex) eqn:E3; [lia|]. reflexivity.
Qed.
