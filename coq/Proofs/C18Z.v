(* C18, continued: CommitAll and String of a chain of selections. all_ok e: the text of e is
   valid UTF-8 and every link of its parent chain cuts the parent's text at code-point
   boundaries. It holds of Edit(valid text), is kept by Chars, Lines, Commit and by every
   operation that replaces the text by valid text, and makes CommitAll return valid text. *)
From Coq Require Import List Bool Arith ZArith Lia ZifyBool.
Import ListNotations.
From Rosed Require Import Base.Res Base.ListX Base.Utf8 Base.Str Gem.Segment Gem.GString Model.Util Model.Tb Model.Manip Model.Table
     Model.Options Model.Editor Model.Ops Check.Common Proofs.SegmentP Proofs.StrP Proofs.Utf8P Proofs.C04P Proofs.C17P Proofs.C18P Proofs.C18T Proofs.C18U
     Proofs.Utf8SplitP Proofs.C18V Proofs.C10P Proofs.C10Q Proofs.C18X Proofs.C18Y.
Open Scope Z_scope.

Notation valid x := (valid_utf8 x = true).

Fixpoint chain_ok (p : editor) (s en : Z) : Prop :=
  match p with
  | Ed ptext _ pref =>
      valid (zslice ptext 0 s) /\ valid (zslice ptext en (zlen ptext)) /\
      match pref with None => True | Some (pp, s', en') => chain_ok pp s' en' end
  end.

Definition all_ok (e : editor) : Prop :=
  valid (e_text e) /\ match e_ref e with None => True | Some (p, s, en) => chain_ok p s en end.

Lemma splice_up_valid : forall p s en text r, chain_ok p s en -> valid text -> splice_up p s en text = Ok r -> valid (e_text r).
Proof.
  fix IH 1. intros [ptext popts pref] s en text r Hc Ht E. cbn [splice_up] in E. cbn [chain_ok] in Hc. destruct Hc as (Hp & Hs & Hrest).
  unfold zsub in E. destruct (_ || _); [discriminate|]. destruct (_ || _); [discriminate|].
  assert (Hfull : valid (zslice ptext 0 s ++ text ++ zslice ptext en (zlen ptext))) by (apply valid_app; [exact Hp|apply valid_app; [exact Ht|exact Hs]]).
  destruct pref as [[[pp s'] en']|]; [exact (IH pp s' en' _ r Hrest Hfull E)|injection E as <-; exact Hfull].
Qed.

Theorem commit_all_valid e r : all_ok e -> commit_all e = Ok r -> valid (e_text r).
Proof.
  intros [He Hc] E. unfold commit_all in E. destruct (e_ref e) as [[[p s] en]|]; [exact (splice_up_valid p s en _ r Hc He E)|injection E as <-; exact He].
Qed.

Theorem string_valid e t : all_ok e -> ed_string e = Ok t -> valid t.
Proof.
  intros Hok E. unfold ed_string in E. destruct (is_sub_editor e); [|injection E as <-; exact (proj1 Hok)].
  destruct (commit_all e) as [c| |] eqn:Ec; cbn [bind] in E; try discriminate. injection E as <-. exact (commit_all_valid e c Hok Ec).
Qed.

Lemma all_ok_edit t : valid t -> all_ok (edit t).
Proof. intro Ht. split; [exact Ht|exact I]. Qed.

Lemma all_ok_with_text e t : all_ok e -> valid t -> all_ok (with_text e t).
Proof. intros [_ Hc] Ht. split; [exact Ht|exact Hc]. Qed.

Lemma all_ok_with_options e o : all_ok e -> all_ok (with_options e o).
Proof. intros [He Hc]. split; [exact He|exact Hc]. Qed.

Lemma chain_of_selection e r x y : all_ok e -> e_ref r = Some (e, x, y) -> ref_ok r -> valid (e_text r) -> all_ok r.
Proof.
  intros [He Hc] Er Hr Hv. split; [exact Hv|]. rewrite Er. unfold ref_ok in Hr. rewrite Er in Hr. destruct Hr as [Hp Hs].
  destruct e as [t o ref]. cbn [chain_ok]. cbn [e_text e_ref] in *. split; [exact Hp|split; [exact Hs|]]. destruct ref as [[[pp s'] en']|]; [exact Hc|exact I].
Qed.

Theorem all_ok_commit e r : all_ok e -> commit e = Ok r -> all_ok r.
Proof.
  intros [He Hc] E. unfold commit in E. destruct (e_ref e) as [[[p s] en]|] eqn:Er; [|injection E as <-; split; [exact He|rewrite Er; exact I]].
  destruct p as [pt po pr]. cbn [chain_ok] in Hc. destruct Hc as (Hp & Hs & Hrest). cbn [e_text e_opts e_ref] in E. unfold zsub in E.
  destruct (_ || _); cbn [bind] in E; [discriminate|]. destruct (_ || _); cbn [bind] in E; [discriminate|]. injection E as <-.
  split; [cbn [e_text]; apply valid_app; [exact Hp|apply valid_app; [exact He|exact Hs]]|]. cbn [e_ref]. exact Hrest.
Qed.

Section C18Z.
Context `{Classifier} `{Upper}.

Lemma sub_ed_parts e x y r : sub_ed e x y = Ok r -> e_ref r = Some (e, x, y).
Proof. exact (sub_ed_ref e x y r). Qed.

Theorem all_ok_lines e s0 e0 r : all_ok e -> valid (o_linesep (with_defaults (e_opts e))) -> ed_lines_sel e s0 e0 = Ok r -> all_ok r.
Proof.
  intros Hok Hsep E. pose proof (lines_sel_valid e s0 e0 r (proj1 Hok) Hsep E) as Hv. pose proof (lines_sel_ref_ok e s0 e0 r (proj1 Hok) Hsep E) as Hr.
  assert (Er : exists x y, e_ref r = Some (e, x, y)).
  { unfold ed_lines_sel in E. destruct (e_text e); [eexists _, _; exact (sub_ed_ref _ _ _ _ E)|].
    destruct (range_to_indexes _ _ _) as [a b]. destruct (_ <=? _); [eexists _, _; exact (sub_ed_ref _ _ _ _ E)|].
    destruct (lines_scan _ _ _ _ _ _) as [[bs|]| |]; cbn [bind] in E; try discriminate; [|eexists _, _; exact (sub_ed_ref _ _ _ _ E)].
    destruct (lines_scan _ _ _ _ _ _) as [[be|]| |]; cbn [bind] in E; try discriminate; eexists _, _; exact (sub_ed_ref _ _ _ _ E). }
  destruct Er as (x & y & Er). exact (chain_of_selection e r x y Hok Er Hr Hv).
Qed.

Theorem all_ok_chars e s0 e0 r : all_ok e -> chars e s0 e0 = Ok r -> all_ok r.
Proof.
  intros Hok E. pose proof (chars_ref_ok e s0 e0 r (proj1 Hok) E) as Hr.
  destruct e as [t o ref]. destruct Hok as [He Hc]. cbn [e_text] in He. destruct (valid_is_encode t He) as (rs & Hs & ->).
  pose proof (chars_spec rs o ref s0 e0 Hs) as Hsp. cbv zeta in Hsp. destruct (norm _ s0 e0) as [s' e']. rewrite Hsp in E. injection E as <-.
  eapply chain_of_selection with (e := Ed (encode rs) o ref); [exact (conj He Hc)|reflexivity|exact Hr|cbn [e_text]; apply encode_valid].
Qed.

End C18Z.
