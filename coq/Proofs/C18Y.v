(* C18, continued: committing a selection of valid text gives valid text. A Chars or Lines
   selection cuts its parent's text at code-point boundaries: what precedes and what follows the
   selection are valid (ref_ok), and Commit concatenates them around the selection's text. Hence
   Justify in line mode without JustifyLastLine (all lines but the last through a sub-editor). *)
From Coq Require Import List Bool Arith ZArith Lia ZifyBool.
Import ListNotations.
From Rosed Require Import Base.Res Base.ListX Base.Utf8 Base.Str Gem.Segment Gem.GString Model.Util Model.Tb Model.Manip Model.Table
     Model.Options Model.Editor Model.Ops Check.Common Proofs.SegmentP Proofs.StrP Proofs.Utf8P Proofs.C04P Proofs.C17P Proofs.C18P Proofs.C18T Proofs.C18U
     Proofs.Utf8SplitP Proofs.C18V Proofs.C10P Proofs.C10Q Proofs.C18X.
Open Scope Z_scope.

Notation valid x := (valid_utf8 x = true).

Definition ref_ok (e : editor) : Prop :=
  match e_ref e with
  | None => True
  | Some (p, s, en) => valid (zslice (e_text p) 0 s) /\ valid (zslice (e_text p) en (zlen (e_text p)))
  end.

Lemma sub_ed_ref e x y r : sub_ed e x y = Ok r -> e_ref r = Some (e, x, y).
Proof.
  unfold sub_ed, zsub. intro E. destruct (_ || _); cbn [bind] in E; [discriminate|]. injection E as <-. reflexivity.
Qed.

Lemma zslice_all {A} (l : list A) : zslice l 0 (zlen l) = l.
Proof. unfold zslice, slice, zlen. rewrite Nat2Z.id. cbn [Z.to_nat skipn]. rewrite Nat.sub_0_r. apply firstn_all. Qed.

Theorem commit_valid e r : valid (e_text e) -> ref_ok e -> commit e = Ok r -> valid (e_text r).
Proof.
  intros He Hr E. unfold commit in E. unfold ref_ok in Hr. destruct (e_ref e) as [[[p s] en]|]; [|injection E as <-; exact He].
  destruct Hr as [Hp Hs]. unfold zsub in E.
  destruct (_ || _); cbn [bind] in E; [discriminate|]. destruct (_ || _); cbn [bind] in E; [discriminate|].
  injection E as <-. cbn [e_text]. apply valid_app; [exact Hp|]. apply valid_app; [exact He|exact Hs].
Qed.

Section C18Y.
Context `{Classifier} `{Upper}.

(* a Lines selection of valid text *)
Theorem lines_sel_ref_ok e s0 e0 r : valid (e_text e) -> valid (o_linesep (with_defaults (e_opts e))) ->
  ed_lines_sel e s0 e0 = Ok r -> ref_ok r.
Proof.
  intros He Hsep E. unfold ref_ok.
  destruct (e_text e) as [|x0 t0] eqn:Et.
  { unfold ed_lines_sel in E. rewrite Et in E. rewrite (sub_ed_ref _ _ _ _ E), Et. split; reflexivity. }
  assert (Htext : e_text e <> []) by (rewrite Et; discriminate). rewrite <- Et in *. clear Et.
  pose proof (proj1 (wd_linesep (e_opts e))) as Hne.
  pose proof (lines_sel_spec e s0 e0 Htext Hne) as Hspec. cbv zeta in Hspec. rewrite Hspec in E. clear Hspec.
  set (text := e_text e) in *. set (sep := o_linesep (with_defaults (e_opts e))) in *. set (P := split text sep) in *.
  set (lc := line_count e) in *.
  assert (Hlc : 0 <= lc <= Z.of_nat (length P)).
  { unfold lc, line_count, ed_lines. fold sep. pose proof (lines_sep_length e sep) as Hl. cbv zeta in Hl. fold text P in Hl. unfold zlen. lia. }
  pose proof (range_to_indexes_bounds lc (if s0 =? go_End then lc else s0) (if e0 =? go_End then lc else e0) ltac:(lia)) as Hb.
  destruct (range_to_indexes lc (if s0 =? go_End then lc else s0) (if e0 =? go_End then lc else e0)) as [a b]. destruct Hb as [[Ha Hab] Hblc].
  pose proof (split_valid text sep He Hsep Hne) as HP. fold P in HP.
  assert (Hpre : forall k, (k < length P)%nat -> valid (zslice text 0 (off sep P k))).
  { intros k Hk. change 0 with (off sep P 0). unfold P. rewrite lines_range_text by (fold P; lia || exact Hne). fold P. apply valid_concat.
    apply Forall_forall. intros y Hy. apply in_map_iff in Hy as (p & <- & Hp). apply valid_app; [|exact Hsep].
    rewrite Forall_forall in HP. apply HP. unfold slice in Hp. apply firstn_In in Hp. apply skipn_In in Hp. exact Hp. }
  assert (Hsuf : forall k, (k < length P)%nat -> valid (zslice text (off sep P k) (zlen text))).
  { intros k Hk. unfold P. rewrite lines_tail_text by (fold P; lia || exact Hne). fold P. apply valid_join; [exact Hsep|].
    apply Forall_forall. intros p Hp. rewrite Forall_forall in HP. apply HP. apply skipn_In in Hp. exact Hp. }
  destruct (lc <=? a) eqn:Ela.
  { rewrite (sub_ed_ref _ _ _ _ E). fold text. rewrite zslice_all, zslice_empty. split; [exact He|reflexivity]. }
  rewrite (sub_ed_ref _ _ _ _ E). fold text. split; [apply Hpre; lia|].
  destruct (Z.to_nat b <? length P)%nat eqn:Eb; [apply Hsuf; lia|rewrite zslice_empty; reflexivity].
Qed.

(* a Chars selection of valid text *)
Theorem chars_ref_ok e s0 e0 r : valid (e_text e) -> chars e s0 e0 = Ok r -> ref_ok r.
Proof.
  intros He E. destruct e as [t o ref]. cbn [e_text] in He. destruct (valid_is_encode t He) as (rs & Hs & ->).
  pose proof (chars_spec rs o ref s0 e0 Hs) as Hc. cbv zeta in Hc. destruct (norm _ s0 e0) as [s' e']. rewrite Hc in E. injection E as <-.
  unfold ref_ok. cbn [e_ref e_text].
  assert (Hle : forall k, (roff (clusters rs) k <= length rs)%nat).
  { intro k. pose proof (roff_mono (clusters rs) k (Nat.max k (length (clusters rs))) ltac:(lia)) as Hm.
    rewrite (roff_all (clusters rs) (Nat.max k (length (clusters rs)))) in Hm by lia. rewrite clusters_concat in Hm. exact Hm. }
  split.
  - rewrite <- (boff_0 rs). rewrite zslice_encode by (split; [lia|apply Hle]). apply encode_valid.
  - rewrite <- (boff_all rs (length rs)) by lia. rewrite zslice_encode by (split; [apply Hle|lia]). apply encode_valid.
Qed.

(* Justify, line mode, last line left alone: all lines but the last through a sub-editor and Commit *)
Theorem justify_valid_lines width opts e r : o_preserve (with_defaults opts) = false ->
  valid (e_text e) -> valid (o_linesep (with_defaults opts)) -> justify_opts width opts e = Ok r -> valid (e_text r).
Proof.
  intros Hp He Hsep E. destruct (o_justlast (with_defaults opts)) eqn:Hj; [exact (justify_valid_all width opts e r Hp Hj Hsep E)|].
  unfold justify_opts in E. cbv zeta in E. rewrite Hp, Hj in E.
  destruct (lines_to _ _) as [sub| |] eqn:Esub; cbn [bind] in E; try discriminate.
  destruct (apply_opts _ _ sub) as [sub2| |] eqn:Eap; cbn [bind] in E; try discriminate.
  destruct (commit sub2) as [c| |] eqn:Ec; cbn [bind] in E; try discriminate. injection E as <-. unfold with_options. cbn [e_text].
  unfold lines_to in Esub.
  assert (Hsep' : valid (o_linesep (with_defaults (e_opts (with_options e (with_defaults opts)))))).
  { unfold with_options. cbn [e_opts]. rewrite (proj2 (wd_linesep opts)). exact Hsep. }
  pose proof (lines_sel_valid (with_options e (with_defaults opts)) 0 (-1) sub He Hsep' Esub) as Hsubv.
  pose proof (lines_sel_ref_ok (with_options e (with_defaults opts)) 0 (-1) sub He Hsep' Esub) as Hsubr.
  assert (Hv2 : valid (e_text sub2)).
  { refine (apply_opts_valid _ _ _ _ _ (wd_linesep_valid _ Hsep) Eap).
    intros k l r0 E0. cbv beta in E0. destruct (justify_line _ _) as [j| |]; cbn [bind] in E0; try discriminate.
    injection E0 as <-. constructor; [apply encode_valid|constructor]. }
  assert (Hr2 : ref_ok sub2).
  { unfold apply_opts in Eap. cbv zeta in Eap. destruct (apply_each _ _ _); cbn [bind] in Eap; try discriminate. injection Eap as <-.
    unfold ref_ok, with_text. cbn [e_ref]. exact Hsubr. }
  exact (commit_valid sub2 c Hv2 Hr2 Ec).
Qed.

End C18Y.
