(* C11, continued: in paragraph mode, when the paragraph separator has no visible affix (it
   starts and ends with the line separator, e.g. "\n\n" with "\n"), Wrap, Justify and Indent
   are the paragraph-separator join of the operation applied to each piece on its own. *)
From Coq Require Import List Bool Arith ZArith Lia ZifyBool.
Import ListNotations.
From Rosed Require Import Base.Res Base.ListX Base.Utf8 Base.Str Gem.Segment Gem.GString Model.Util Model.Tb Model.Manip Model.Table
     Model.Options Model.Editor Model.Ops Check.Paras Proofs.SegmentP Proofs.StrP Proofs.C06P Proofs.C11P Proofs.C12P Proofs.C12Q Proofs.C13P Proofs.C18P Proofs.OpsMapP.
Open Scope Z_scope.

Section C11Q.
Context `{Classifier} `{Upper}.

(* the callback sequencing with empty affixes and a callback that returns one string *)
Lemma run_paras_map (op : gpara_op) (g : Z -> gstr -> gstr) : (forall i para, op i para [] [] = Ok [g i para]) ->
  forall rs idx, run_paras op idx rs [] [] =
    Ok (map (fun p => encode (g (fst p) (decode (snd p)))) (combine (map (fun j => idx + Z.of_nat j) (seq 0 (length rs))) rs)).
Proof.
  intro Hop. induction rs as [|r rest IH]; intro idx; [reflexivity|]. cbn [run_paras].
  replace (op idx (decode r) (if idx =? 0 then [] else []) match rest with [] => [] | _ :: _ => [] end) with (Ok [g idx (decode r)])
    by (destruct (idx =? 0), rest; symmetry; apply Hop).
  cbn [bind]. rewrite IH. cbn [bind length seq map combine app fst snd].
  f_equal. f_equal; [f_equal; f_equal; lia|]. rewrite <- seq_shift, map_map. f_equal. f_equal. apply map_ext. intro j. lia.
Qed.

(* no visible affix: the separator starts and ends with the line separator (or the line separator is absent from the parts in the documented way) *)
Definition no_affix (psep lsep : list Z) : Prop :=
  let parts := split psep lsep in
  decode (hd [] parts) = [] /\ match parts with _ :: _ :: _ => decode (last parts []) = [] | _ => True end.

Theorem apply_gparagraphs_map (op : gpara_op) (g : Z -> gstr -> gstr) opts e :
  let o := with_defaults opts in
  no_affix (o_parasep o) (o_linesep o) ->
  (forall i para, op i para [] [] = Ok [g i para]) ->
  let ps := pieces (e_text e) (o_parasep o) (o_linesep o) in
  apply_gparagraphs op opts e =
    Ok (with_text e (join (o_parasep o)
         (map (fun p => encode (g (fst p) (decode (snd p)))) (combine (map Z.of_nat (seq 0 (length ps))) ps)))).
Proof.
  cbv zeta. intros [Hpsf Hnp] Hop. rewrite apply_gparagraphs_spec. cbv zeta. rewrite Hpsf.
  assert (Enp : match split (o_parasep (with_defaults opts)) (o_linesep (with_defaults opts)) with
                | _ :: _ :: _ => decode (last (split (o_parasep (with_defaults opts)) (o_linesep (with_defaults opts))) [])
                | _ => [] end = []).
  { destruct (split (o_parasep (with_defaults opts)) (o_linesep (with_defaults opts))) as [|a [|b l]]; try reflexivity. exact Hnp. }
  rewrite Enp. rewrite (run_paras_map op g Hop). cbn [bind]. reflexivity.
Qed.

Lemma map_snd_combine {A B C} (h : B -> C) : forall (a : list A) (b : list B), length a = length b ->
  map (fun p => h (snd p)) (combine a b) = map h b.
Proof. induction a as [|x a IH]; intros [|y b] Hl; cbn in *; try reflexivity; try discriminate. f_equal. apply IH. lia. Qed.

(* Sub(0, Len) is the whole string *)
Lemma gsub_whole x : gsub x 0 (glen x) = x.
Proof.
  unfold gsub, glen. set (cl := clusters x). rewrite range_ok by (unfold zlen; lia).
  destruct (0 =? zlen cl) eqn:E.
  - assert (cl = []) by (unfold zlen in E; destruct cl; [reflexivity|cbn in E; lia]). unfold cl in *. symmetry. apply clusters_nil_inv. assumption.
  - unfold zslice, slice, zlen. rewrite Nat2Z.id. cbn [Z.to_nat skipn]. rewrite Nat.sub_0_r, firstn_all. apply clusters_concat.
Qed.

Lemma strip_affixes_nil text : strip_affixes text [] [] = text.
Proof. unfold strip_affixes. change (glen []) with 0. cbn [Z.ltb]. apply gsub_whole. Qed.

Lemma wd_parasep_idem o : o_parasep (with_defaults (with_defaults o)) = o_parasep (with_defaults o).
Proof. unfold with_defaults. cbn [o_parasep]. destruct (o_parasep o); reflexivity. Qed.

(* Wrap in paragraph mode *)
Definition wrap_piece (width : Z) (lsep : gstr) (para : gstr) : gstr :=
  match wrap para width lsep with Ok bl => tb_join bl | _ => [] end.

Theorem wrap_opts_paragraphs width opts e :
  let o := with_defaults opts in
  o_preserve o = true -> no_affix (o_parasep o) (o_linesep o) ->
  let ps := pieces (e_text e) (o_parasep o) (o_linesep o) in
  wrap_opts width opts e =
    Ok (with_text e (join (o_parasep o) (map (fun b => encode (wrap_piece (Z.max width 2) (decode (o_linesep o)) (decode b))) ps))).
Proof.
  cbv zeta. intros Hp Hna. unfold wrap_opts. rewrite Hp.
  set (W := if width <? 2 then 2 else width). replace (Z.max width 2) with W by (unfold W; destruct (width <? 2) eqn:E; lia).
  assert (Hna' : no_affix (o_parasep (with_defaults (with_defaults opts))) (o_linesep (with_defaults (with_defaults opts))))
    by (rewrite wd_parasep_idem, wd_linesep_idem; exact Hna).
  rewrite (apply_gparagraphs_map _ (fun _ para => wrap_piece W (decode (o_linesep (with_defaults opts))) para) (with_defaults opts) e Hna').
  - rewrite wd_parasep_idem, wd_linesep_idem. do 3 f_equal. apply (map_snd_combine (fun b => encode (wrap_piece W (decode (o_linesep (with_defaults opts))) (decode b)))).
    rewrite map_length, seq_length. reflexivity.
  - intros i para. change (glen []) with 0. unfold grepeat. cbn [Z.to_nat repeatn repeat concat]. unfold gadd. cbn [app]. rewrite app_nil_r.
    unfold wrap_piece. destruct (wrap_total para W (decode (o_linesep (with_defaults opts)))) as [bl Hbl]. rewrite Hbl. cbn [bind].
    rewrite strip_affixes_nil. reflexivity.
Qed.

(* Justify in paragraph mode *)
Definition jl (w : Z) (line : gstr) : gstr := match justify_line line w with Ok j => j | _ => [] end.

Fixpoint mapi_from {A B} (f : Z -> A -> B) (i : Z) (l : list A) : list B :=
  match l with [] => [] | x :: l' => f i x :: mapi_from f (i + 1) l' end.

Lemma apply_lines_mapi (f : Z -> gstr -> Res (list gstr)) (h : Z -> gstr -> gstr) :
  (forall i x, f i x = Ok [h i x]) -> forall l i, apply_lines f i l = Ok (mapi_from h i l).
Proof. intro Hf. induction l as [|x l IH]; intro i; [reflexivity|]. cbn [apply_lines mapi_from]. rewrite Hf. cbn [bind]. rewrite IH. reflexivity. Qed.

Definition justify_piece (jlast : bool) (w : Z) (lsep para : gstr) : gstr :=
  let bl := tb_new para lsep in
  let n := tb_len bl in
  tb_join (tb_with_lines bl (mapi_from (fun idx line => if negb jlast && (idx =? n - 1) then line else jl w line) 0 (b_lines bl))).

Theorem justify_opts_paragraphs width opts e :
  let o := with_defaults opts in
  o_preserve o = true -> no_affix (o_parasep o) (o_linesep o) ->
  let ps := pieces (e_text e) (o_parasep o) (o_linesep o) in
  justify_opts width opts e =
    Ok (with_text e (join (o_parasep o) (map (fun b => encode (justify_piece (o_justlast o) width (decode (o_linesep o)) (decode b))) ps))).
Proof.
  cbv zeta. intros Hp Hna. unfold justify_opts. rewrite Hp.
  assert (Hna' : no_affix (o_parasep (with_defaults (with_defaults opts))) (o_linesep (with_defaults (with_defaults opts))))
    by (rewrite wd_parasep_idem, wd_linesep_idem; exact Hna).
  rewrite (apply_gparagraphs_map _ (fun _ para => justify_piece (o_justlast (with_defaults opts)) width (decode (o_linesep (with_defaults opts))) para)
             (with_defaults opts) e Hna').
  - rewrite wd_parasep_idem, wd_linesep_idem. do 3 f_equal.
    apply (map_snd_combine (fun b => encode (justify_piece (o_justlast (with_defaults opts)) width (decode (o_linesep (with_defaults opts))) (decode b)))).
    rewrite map_length, seq_length. reflexivity.
  - intros i para. change (glen []) with 0. unfold grepeat. cbn [Z.to_nat repeatn repeat concat]. unfold gadd. cbn [app]. rewrite app_nil_r.
    unfold tb_apply.
    rewrite (apply_lines_mapi _ (fun idx line => if negb (o_justlast (with_defaults opts)) && (idx =? tb_len (tb_new para (decode (o_linesep (with_defaults opts)))) - 1)
                                                  then line else jl width line)).
    + cbn [bind]. rewrite strip_affixes_nil. reflexivity.
    + intros idx x. destruct (negb (o_justlast (with_defaults opts)) && (idx =? tb_len (tb_new para (decode (o_linesep (with_defaults opts)))) - 1)); [reflexivity|].
      unfold jl. destruct (justify_line_spec x width) as (c & _ & r & Hr & _). rewrite Hr. reflexivity.
Qed.

(* Align in paragraph mode *)
Definition align_piece (a w : Z) (lsep para : gstr) : gstr :=
  let bl := tb_new para lsep in
  if tb_len bl =? 0 then para
  else tb_join (tb_with_lines bl (map (fun l => align_line a l w) (b_lines bl))).

Lemma apply_lines_map1 (h : gstr -> gstr) : forall l i, apply_lines (fun _ line => Ok [h line]) i l = Ok (map h l).
Proof. induction l as [|x l IH]; intro i; [reflexivity|]. cbn [apply_lines bind map]. rewrite IH. reflexivity. Qed.

Lemma set_nth_same {A} (l : list A) : forall n y, nth_error l n = Some y -> set_nth l n y = l.
Proof. induction l as [|a l IH]; intros [|n] y En; cbn [nth_error set_nth] in *; try discriminate; [inversion En; reflexivity|f_equal; apply IH, En]. Qed.

Lemma tb_set_same (bl : block) x rest : b_lines bl = x :: rest ->
  tb_line bl 0 = Ok x /\ tb_set bl 0 x = Ok bl.
Proof.
  intro E. unfold tb_line, tb_set, znth, zset. rewrite E. change (0 <? 0) with false. cbn [Z.to_nat nth_error orb]. split; [reflexivity|].
  replace (zlen (x :: rest) <=? 0) with false by (unfold zlen; cbn [length]; lia). cbn [set_nth bind].
  destruct bl as [L S T]. cbn [b_lines b_sep b_trailing] in *. subst L. reflexivity.
Qed.

Lemma align_para_plain a w lsep idx para : (a = A_Left \/ a = A_Right \/ a = A_Center) ->
  align_para a w lsep idx para [] [] = Ok [align_piece a w lsep para].
Proof.
  intro Ha. unfold align_para, align_piece. change (glen []) with 0. change (spaces 0) with (@nil Z). cbv zeta.
  change (glen []) with 0. unfold gadd. cbn [app]. rewrite ?app_nil_r. change (0 <? 0) with false. cbv iota.
  set (bl := tb_new para lsep).
  destruct (tb_len bl =? 0) eqn:El; [destruct Ha as [Ha|[Ha|Ha]]; subst a; reflexivity|].
  assert (Hne : exists x rest, b_lines bl = x :: rest).
  { unfold tb_len, zlen in El. destruct (b_lines bl) as [|x rest]; [cbn in El; discriminate|eauto]. }
  destruct Hne as (x & rest & Ebl). destruct (tb_set_same bl x rest Ebl) as [Hline Hset].
  assert (Hlast : exists y, tb_line bl (tb_len bl - 1) = Ok y /\ tb_set bl (tb_len bl - 1) y = Ok bl).
  { unfold tb_line, tb_set, tb_len, znth, zset. rewrite Ebl.
    assert (Hz : 1 <= zlen (x :: rest)) by (unfold zlen; cbn [length]; lia).
    replace (zlen (x :: rest) - 1 <? 0) with false by lia.
    destruct (nth_error (x :: rest) (Z.to_nat (zlen (x :: rest) - 1))) as [y|] eqn:En; [|apply nth_error_None in En; unfold zlen in *; lia].
    exists y. split; [reflexivity|]. replace (zlen (x :: rest) <=? zlen (x :: rest) - 1) with false by lia.
    cbn [orb bind]. rewrite (set_nth_same _ _ _ En). destruct bl as [L S T]. cbn [b_lines b_sep b_trailing] in *. subst L. reflexivity. }
  destruct Hlast as (y & Hly & Hsy).
  unfold tb_apply.
  destruct Ha as [Ha|[Ha|Ha]]; subst a; cbn [Z.eqb A_Left A_Right A_Center].
  - change (A_Left =? A_Left) with true. cbv iota. rewrite Hline. cbn [bind]. rewrite ?app_nil_r, Hset. cbn [bind].
    rewrite apply_lines_map1. cbn [bind]. reflexivity.
  - change (A_Right =? A_Left) with false. change (A_Right =? A_Right) with true. cbv iota. rewrite Hly. cbn [bind]. rewrite Hsy. cbn [bind].
    rewrite apply_lines_map1. cbn [bind]. reflexivity.
  - change (A_Center =? A_Left) with false. change (A_Center =? A_Right) with false. cbv iota.
    rewrite apply_lines_map1. cbn [bind]. reflexivity.
Qed.

Theorem align_opts_paragraphs a width opts e :
  let o := with_defaults opts in
  (a = A_Left \/ a = A_Right \/ a = A_Center) ->
  o_preserve o = true -> no_affix (o_parasep o) (o_linesep o) ->
  let ps := pieces (e_text e) (o_parasep o) (o_linesep o) in
  align_opts a width opts e =
    Ok (with_text e (join (o_parasep o) (map (fun b => encode (align_piece a width (decode (o_linesep o)) (decode b))) ps))).
Proof.
  cbv zeta. intros Ha Hp Hna. unfold align_opts.
  replace ((a =? A_None) || (negb (a =? A_Left) && negb (a =? A_Right) && negb (a =? A_Center))) with false
    by (unfold A_None, A_Left, A_Right, A_Center in *; destruct Ha as [Ha|[Ha|Ha]]; subst a; reflexivity).
  rewrite Hp.
  assert (Hna' : no_affix (o_parasep (with_defaults (with_defaults opts))) (o_linesep (with_defaults (with_defaults opts))))
    by (rewrite wd_parasep_idem, wd_linesep_idem; exact Hna).
  rewrite (apply_gparagraphs_map _ (fun _ para => align_piece a width (decode (o_linesep (with_defaults opts))) para) (with_defaults opts) e Hna').
  - rewrite wd_parasep_idem, wd_linesep_idem. do 3 f_equal.
    apply (map_snd_combine (fun b => encode (align_piece a width (decode (o_linesep (with_defaults opts))) (decode b)))).
    rewrite map_length, seq_length. reflexivity.
  - intros i para. apply align_para_plain. exact Ha.
Qed.

(* Indent in paragraph mode *)
Definition indent_piece (ind : list Z) (opts : options) (para : gstr) : gstr :=
  decode (join (o_linesep (with_defaults opts)) (mapped_lines (fun l => ind ++ l) opts (with_options (edit (encode para)) opts))).

Theorem indent_opts_paragraphs level opts e ind :
  let o := with_defaults opts in
  1 <= level -> o_preserve o = true -> repeat_str (o_indent o) level = Ok ind ->
  no_affix (o_parasep o) (o_linesep o) ->
  let ps := pieces (e_text e) (o_parasep o) (o_linesep o) in
  indent_opts level opts e =
    Ok (with_text e (join (o_parasep o) (map (fun b => encode (indent_piece ind opts (decode b))) ps))).
Proof.
  cbv zeta. intros Hl Hp Hi Hna. unfold indent_opts. replace (level <? 1) with false by lia. rewrite Hi. cbn [bind]. rewrite Hp.
  unfold apply_paragraphs_opts.
  rewrite (apply_gparagraphs_map _ (fun _ para => indent_piece ind opts para) opts e Hna).
  - do 3 f_equal. apply (map_snd_combine (fun b => encode (indent_piece ind opts (decode b)))). rewrite map_length, seq_length. reflexivity.
  - intros i para. rewrite (apply_opts_map (fun l => ind ++ l)). cbn [bind]. unfold ed_string, is_sub_editor, with_text, with_options, edit.
    cbn [e_ref e_text bind map]. reflexivity.
Qed.

Example no_affix_default : no_affix [10; 10] [10] /\ no_affix [13; 10; 13; 10] [13; 10] /\ no_affix [10; 10; 10] [10].
Proof. repeat split; vm_compute; reflexivity. Qed.

End C11Q.
