(* C04: Chars selects exactly the clusters of the normalised range, at the right byte offsets. *)
From Coq Require Import List Bool Arith ZArith Lia ZifyBool.
Import ListNotations.
From Rosed Require Import Base.Res Base.ListX Base.Utf8 Gem.Segment Gem.GString Model.Util Model.Options Model.Editor
     Check.Common Proofs.SegmentP Proofs.Utf8P Proofs.C05P.
Open Scope Z_scope.

(* ---- normalisation ---- *)
Lemma range_to_indexes_bounds n s e : 0 <= n ->
  let '(s', e') := range_to_indexes n s e in 0 <= s' <= e' /\ e' <= n.
Proof.
  intro Hn. unfold range_to_indexes.
  repeat match goal with |- context [if ?c then _ else _] => destruct c eqn:? end;
  repeat match goal with Hx : context [if ?c then _ else _] |- _ => destruct c eqn:? end; lia.
Qed.

(* RangeToIndexes after the End substitution is the documented normalisation *)
Theorem range_to_indexes_is_norm n s e : 0 <= n -> s <> go_End \/ True ->
  range_to_indexes n (if s =? go_End then n else s) (if e =? go_End then n else e) = norm n s e.
Proof.
  intros Hn _. unfold range_to_indexes, norm, norm1, go_End, min_int.
  repeat match goal with |- context [if ?c then _ else _] => destruct c eqn:? end; f_equal;
  repeat match goal with Hx : context [if ?c then _ else _] |- _ => destruct c eqn:? end; lia.
Qed.

Section C04.
Context `{Classifier}.

(* rune offset at which cluster k starts *)
Definition roff (cl : list (list Z)) (k : nat) : nat := length (concat (firstn k cl)).

Lemma cluster_starts_nth cl i k : (k < length cl)%nat ->
  znth (cluster_starts i cl) (Z.of_nat k) = Ok (i + Z.of_nat (roff cl k)).
Proof.
  revert i k; induction cl as [|c cl IH]; intros i k Hk; [cbn in Hk; lia|].
  destruct k as [|k].
  - cbn. f_equal. unfold roff. cbn. lia.
  - cbn [length] in Hk. cbn [cluster_starts]. unfold znth.
    replace (Z.of_nat (S k) <? 0) with false by lia. rewrite Nat2Z.id. cbn [nth_error].
    specialize (IH (i + zlen c) k ltac:(lia)). unfold znth in IH. replace (Z.of_nat k <? 0) with false in IH by lia.
    rewrite Nat2Z.id in IH. rewrite IH. f_equal. unfold roff, zlen. cbn [firstn concat]. rewrite app_length. lia.
Qed.

Lemma cluster_starts_length i cl : length (cluster_starts i cl) = length cl.
Proof. revert i; induction cl; intro i; cbn; [reflexivity|]. rewrite IHcl. reflexivity. Qed.

Lemma roff_mono cl a b : (a <= b)%nat -> (roff cl a <= roff cl b)%nat.
Proof.
  intro Hab. unfold roff. replace b with (a + (b - a))%nat by lia.
  rewrite <- (firstn_skipn a (firstn (a + (b - a)) cl)), firstn_firstn, Nat.min_l by lia.
  rewrite concat_app, app_length. lia.
Qed.

Lemma roff_all cl k : (length cl <= k)%nat -> roff cl k = length (concat cl).
Proof. intro Hk. unfold roff. rewrite firstn_all2 by exact Hk. reflexivity. Qed.

Lemma roff_lt cl k : Forall (fun c => c <> []) cl -> (k < length cl)%nat -> (roff cl k < length (concat cl))%nat.
Proof.
  revert k; induction cl as [|c cl IH]; intros k Hne Hk; [cbn in Hk; lia|].
  inversion Hne as [|? ? Hc Hne']; subst. destruct k as [|k].
  - unfold roff. cbn. rewrite app_length. destruct c; [congruence|cbn; lia].
  - unfold roff in *. cbn [firstn concat length]. rewrite !app_length. cbn [length] in Hk. specialize (IH k Hne' ltac:(lia)). lia.
Qed.

Lemma slice_roff cl a b : (a <= b <= length cl)%nat ->
  slice (concat cl) (roff cl a) (roff cl b) = concat (slice cl a b).
Proof.
  intro Hab. unfold slice, roff.
  assert (E : cl = firstn a cl ++ firstn (b - a) (skipn a cl) ++ skipn b cl).
  { rewrite <- (firstn_skipn a cl) at 1. f_equal. rewrite <- (firstn_skipn (b - a) (skipn a cl)) at 1. f_equal.
    rewrite skipn_skipn2. f_equal. lia. }
  assert (Eb : firstn b cl = firstn a cl ++ firstn (b - a) (skipn a cl)).
  { rewrite E at 1. rewrite firstn_app, firstn_length, Nat.min_l by lia.
    rewrite (firstn_all2 (firstn a cl)) by (rewrite firstn_length; lia). f_equal.
    rewrite firstn_app, firstn_length, skipn_length, Nat.min_l by lia.
    replace (b - a - (b - a))%nat with O by lia. rewrite firstn_O, app_nil_r.
    apply firstn_all2. rewrite firstn_length, skipn_length. lia. }
  rewrite Eb, concat_app, app_length. replace (length (concat (firstn a cl)) + length (concat (firstn (b - a) (skipn a cl))) - length (concat (firstn a cl)))%nat
    with (length (concat (firstn (b - a) (skipn a cl)))) by lia.
  assert (Ecc : concat cl = concat (firstn a cl) ++ concat (firstn (b - a) (skipn a cl)) ++ concat (skipn b cl)).
  { rewrite <- !concat_app, <- E. reflexivity. }
  rewrite Ecc. rewrite skipn_app, skipn_all, Nat.sub_diag. cbn [skipn app].
  rewrite firstn_app, Nat.sub_diag, firstn_all. cbn [firstn]. rewrite app_nil_r. reflexivity.
Qed.

(* ---- the range-over-string loop ---- *)
Lemma nth_error_skipn_cons {A} (l : list A) j x : nth_error l j = Some x -> skipn j l = x :: skipn (S j) l.
Proof. revert j; induction l as [|y l IH]; intros [|j] Hn; cbn in *; try discriminate; [injection Hn as ->; reflexivity|apply IH, Hn]. Qed.

(* both ends inside the text *)
Lemma chars_loop_inside rs (R1 R2 : nat) L be : (R1 <= R2)%nat -> (R2 < length rs)%nat -> Z.of_nat R2 < L ->
  forall k j bs c, (R2 - j = k)%nat -> (j <= R2)%nat -> c = Z.of_nat j - 1 ->
  chars_loop (with_offsets (boff rs j) (skipn j rs)) c (Z.of_nat R1) (Z.of_nat R2) L bs be
  = ((if (j <=? R1)%nat then boff rs R1 else bs), boff rs R2).
Proof.
  intros H12 H2 HL. induction k as [|k IH]; intros j bs c Hk Hj Hc; subst c.
  - assert (j = R2) by lia. subst j.
    destruct (nth_error rs R2) as [x|] eqn:Ex; [|apply nth_error_None in Ex; lia].
    rewrite (nth_error_skipn_cons _ _ _ Ex). cbn [with_offsets chars_loop].
    replace (Z.of_nat R2 - 1 + 1) with (Z.of_nat R2) by lia.
    replace (L <=? Z.of_nat R2) with false by lia. rewrite andb_false_r, Z.eqb_refl.
    destruct (Z.of_nat R2 =? Z.of_nat R1) eqn:E.
    + assert (R1 = R2) by lia. subst. rewrite Nat.leb_refl. reflexivity.
    + replace (R2 <=? R1)%nat with false by lia. reflexivity.
  - destruct (nth_error rs j) as [x|] eqn:Ex; [|apply nth_error_None in Ex; lia].
    rewrite (nth_error_skipn_cons _ _ _ Ex). cbn [with_offsets chars_loop].
    replace (Z.of_nat j - 1 + 1) with (Z.of_nat j) by lia.
    replace (L <=? Z.of_nat R2) with false by lia. rewrite andb_false_r.
    replace (Z.of_nat j =? Z.of_nat R2) with false by lia.
    rewrite <- (boff_S rs j x Ex).
    rewrite (IH (S j) _ (Z.of_nat j)) by lia.
    destruct (Z.of_nat j =? Z.of_nat R1) eqn:E.
    + assert (j = R1) by lia. subst. rewrite Nat.leb_refl. destruct (S R1 <=? R1)%nat eqn:E2; [apply Nat.leb_le in E2; lia|reflexivity].
    + destruct (j <=? R1)%nat eqn:E1; destruct (S j <=? R1)%nat eqn:E2; try reflexivity;
      apply Nat.leb_le in E1 || apply Nat.leb_gt in E1; apply Nat.leb_le in E2 || apply Nat.leb_gt in E2; lia.
Qed.

(* the end of the selection is the end of the text: the loop stops as soon as it has the start *)
Lemma chars_loop_to_end rs (R1 : nat) L be : (R1 < length rs)%nat -> Z.of_nat (length rs) <= L ->
  forall k j bs c, (R1 - j = k)%nat -> (j <= R1)%nat -> c = Z.of_nat j - 1 ->
  chars_loop (with_offsets (boff rs j) (skipn j rs)) c (Z.of_nat R1) L L bs be = (boff rs R1, be).
Proof.
  intros H1 HL. induction k as [|k IH]; intros j bs c Hk Hj Hc; subst c.
  - assert (j = R1) by lia. subst j.
    destruct (nth_error rs R1) as [x|] eqn:Ex; [|apply nth_error_None in Ex; lia].
    rewrite (nth_error_skipn_cons _ _ _ Ex). cbn [with_offsets chars_loop].
    replace (Z.of_nat R1 - 1 + 1) with (Z.of_nat R1) by lia. rewrite Z.eqb_refl, Z.leb_refl. reflexivity.
  - destruct (nth_error rs j) as [x|] eqn:Ex; [|apply nth_error_None in Ex; lia].
    rewrite (nth_error_skipn_cons _ _ _ Ex). cbn [with_offsets chars_loop].
    replace (Z.of_nat j - 1 + 1) with (Z.of_nat j) by lia.
    replace (Z.of_nat j =? Z.of_nat R1) with false by lia. cbn [andb].
    replace (Z.of_nat j =? L) with false by lia.
    rewrite <- (boff_S rs j x Ex).
    apply (IH (S j) _ (Z.of_nat j)); lia.
Qed.

(* ---- Chars ---- *)
Definition scalars (rs : list Z) : Prop := Forall (fun r => scalar r = true) rs.

Theorem chars_spec rs o ref s e : scalars rs ->
  let ed := Ed (encode rs) o ref in
  let cl := clusters rs in
  let n := zlen cl in
  let '(s', e') := norm n s e in
  let a := boff rs (roff cl (Z.to_nat s')) in
  let b := boff rs (roff cl (Z.to_nat e')) in
  chars ed s e = Ok (Ed (encode (concat (zslice cl s' e'))) o (Some (ed, a, b))).
Proof.
  intro Hsc. cbv zeta. unfold chars. cbn [e_text].
  rewrite (decode_encode rs Hsc). set (cl := clusters rs).
  assert (Hlen : zlen (cluster_starts 0 cl) = zlen cl) by (unfold zlen; rewrite cluster_starts_length; reflexivity).
  rewrite Hlen. set (n := zlen cl). assert (Hn : 0 <= n) by (unfold n, zlen; lia).
  rewrite (range_to_indexes_is_norm n s e Hn (or_intror I)).
  pose proof (range_to_indexes_bounds n (if s =? go_End then n else s) (if e =? go_End then n else e) Hn) as Hb.
  rewrite (range_to_indexes_is_norm n s e Hn (or_intror I)) in Hb.
  destruct (norm n s e) as [s' e']. destruct Hb as [[Hs0 Hse] Hen].
  pose proof (clusters_concat rs) as Hcat. fold cl in Hcat.
  pose proof (clusters_nonempty rs) as Hne. fold cl in Hne.
  assert (HL : zlen (encode rs) = boff rs (length rs)) by (rewrite boff_all by lia; reflexivity).
  assert (Hrl : roff cl (length cl) = length rs) by (rewrite roff_all by lia; rewrite Hcat; reflexivity).
  destruct (n <=? s') eqn:Ens.
  - (* at or past the end: the empty selection at the end of the text *)
    assert (s' = n) by lia. assert (e' = n) by lia. subst s' e'.
    assert (Enn : Z.to_nat n = length cl) by (unfold n, zlen; lia).
    rewrite Enn, Hrl, <- HL.
    rewrite sub_ed_spec by (cbn [e_text]; unfold zlen; lia). cbn [e_text e_opts].
    f_equal. f_equal. unfold zslice, slice. rewrite !Nat.sub_diag. reflexivity.
  - assert (Hs'n : (Z.to_nat s' < length cl)%nat) by (unfold n, zlen in *; lia).
    replace s' with (Z.of_nat (Z.to_nat s')) at 1 by lia.
    rewrite cluster_starts_nth by exact Hs'n. cbn [bind].
    rewrite Z.add_0_l.
    set (R1 := roff cl (Z.to_nat s')).
    assert (HR1 : (R1 < length rs)%nat) by (subst R1; rewrite <- Hcat; apply roff_lt; assumption).
    rewrite (range_str_encode rs Hsc).
    change (with_offsets 0 rs) with (with_offsets (boff rs 0) (skipn 0 rs)).
    destruct (e' <? n) eqn:Een.
    + assert (He'n : (Z.to_nat e' < length cl)%nat) by (unfold n, zlen in *; lia).
      replace e' with (Z.of_nat (Z.to_nat e')) at 1 by lia.
      rewrite cluster_starts_nth by exact He'n. cbn [bind]. rewrite Z.add_0_l.
      set (R2 := roff cl (Z.to_nat e')).
      assert (HR2 : (R2 < length rs)%nat) by (subst R2; rewrite <- Hcat; apply roff_lt; assumption).
      assert (H12 : (R1 <= R2)%nat) by (subst R1 R2; apply roff_mono; lia).
      rewrite (chars_loop_inside rs R1 R2 (zlen (encode rs)) (-1) H12 HR2) with (k := R2) (j := O);
        [| pose proof (encode_length_ge rs); unfold zlen; lia | lia | lia | reflexivity].
      cbn [Nat.leb].
      assert (Hbe : boff rs R2 =? -1 = false) by (unfold boff, zlen; lia). rewrite Hbe.
      assert (Hmono : boff rs R1 <= boff rs R2) by (apply boff_mono; exact H12).
      assert (Hle : boff rs R2 <= zlen (encode rs)) by (rewrite HL; apply boff_mono; lia).
      rewrite sub_ed_spec by (cbn [e_text]; unfold boff, zlen in *; lia). cbn [e_text e_opts].
      f_equal. f_equal.
      rewrite zslice_encode by lia. f_equal. subst R1 R2. rewrite <- Hcat at 1. rewrite slice_roff by lia.
      unfold zslice. reflexivity.
    + assert (e' = n) by lia. subst e'. cbn [bind].
      rewrite (chars_loop_to_end rs R1 (zlen (encode rs)) (-1) HR1) with (k := R1) (j := O);
        [| pose proof (encode_length_ge rs); unfold zlen; lia | lia | lia | reflexivity].
      rewrite Z.eqb_refl.
      assert (Enn : Z.to_nat n = length cl) by (unfold n, zlen; lia).
      rewrite Enn, Hrl, <- HL.
      assert (Hle : boff rs R1 <= zlen (encode rs)) by (rewrite HL; apply boff_mono; lia).
      rewrite sub_ed_spec by (cbn [e_text]; unfold boff, zlen in *; lia). cbn [e_text e_opts].
      f_equal. f_equal. rewrite HL. rewrite zslice_encode by lia. f_equal.
      subst R1. rewrite <- Hrl. rewrite <- Hcat at 1. rewrite slice_roff by (unfold n, zlen in *; lia).
      unfold zslice. rewrite Enn. reflexivity.
Qed.

End C04.

Lemma in_skipn' {A} (x : A) a l : In x (skipn a l) -> In x l.
Proof. revert l; induction a as [|a IH]; intros l Hx; [exact Hx|]. destruct l; [destruct Hx|]. right. apply IH, Hx. Qed.
Lemma in_firstn' {A} (x : A) j l : In x (firstn j l) -> In x l.
Proof. revert l; induction j as [|j IH]; intros l Hx; [destruct Hx|]. destruct l; [destruct Hx|]. destruct Hx as [->|Hx]; [left; reflexivity|right; apply IH, Hx]. Qed.

Section C04b.
Context `{Classifier}.

Lemma scalars_app a b : scalars (a ++ b) <-> scalars a /\ scalars b.
Proof. unfold scalars. apply Forall_app. Qed.

Lemma scalars_concat_sub rs (l : list (list Z)) : scalars rs -> (forall c, In c l -> In c (clusters rs)) -> scalars (concat l).
Proof.
  intros Hs Hin. unfold scalars in *. rewrite Forall_forall in *. intros r Hr. apply in_concat in Hr as (c & Hc & Hrc).
  apply Hs. rewrite <- (clusters_concat rs). apply in_concat. exists c. split; [apply Hin, Hc|exact Hrc].
Qed.

Lemma valid_utf8_encode rs : scalars rs -> valid_utf8 (encode rs) = true.
Proof.
  intro Hs. unfold valid_utf8. rewrite (decode_encode rs Hs). apply andb_true_iff. split.
  - apply forallb_forall. unfold scalars in Hs. rewrite Forall_forall in Hs. exact Hs.
  - generalize (encode rs). intro l. induction l as [|x l IH]; [reflexivity|]. rewrite Z.eqb_refl. exact IH.
Qed.

(* CharCount is the number of clusters *)
Theorem char_count_spec rs o ref : scalars rs -> char_count (Ed (encode rs) o ref) = zlen (clusters rs).
Proof. intro Hs. unfold char_count, glen. cbn [e_text]. rewrite (decode_encode rs Hs). reflexivity. Qed.

(* before ++ selected ++ after is the text, each part a whole number of clusters *)
Theorem selection_partition rs s' e' : (0 <= s' <= e') -> e' <= zlen (clusters rs) ->
  encode (concat (firstn (Z.to_nat s') (clusters rs))) ++ encode (concat (zslice (clusters rs) s' e'))
  ++ encode (concat (skipn (Z.to_nat e') (clusters rs))) = encode rs.
Proof.
  intros H1 H2. rewrite <- !encode_app, <- !concat_app. rewrite (split3 (clusters rs) s' e' H1 H2).
  rewrite clusters_concat. reflexivity.
Qed.

(* the selected text is valid UTF-8: no cluster and no code point is split *)
Theorem selection_valid rs s' e' : scalars rs -> valid_utf8 (encode (concat (zslice (clusters rs) s' e'))) = true.
Proof.
  intro Hs. apply valid_utf8_encode. apply (scalars_concat_sub rs); [exact Hs|].
  intros c Hc. unfold zslice, slice in Hc. apply in_firstn' in Hc. apply in_skipn' in Hc. exact Hc.
Qed.

End C04b.
