(* C16: the column-width arithmetic of MakeTable - the surplus is distributed exactly. *)
From Coq Require Import List Bool Arith ZArith Lia.
Import ListNotations.
From Rosed Require Import Base.ListX Gem.Segment Model.Table.
Open Scope Z_scope.

(* how many of the indexes i, i+1, ..., i+len-1 are below n *)
Definition cnt (i len n : Z) : Z := Z.max 0 (Z.min (i + len) n - i).

(* the distribution used by MakeTable: per = s / n, rem = s mod n over the first n columns *)
Lemma add_space_sum' ws i n per rem : 0 <= i -> rem <= n ->
  sumZ (add_space ws i n per rem) = sumZ ws + per * cnt i (zlen ws) n + cnt i (zlen ws) rem.
Proof.
  intros Hi Hrn. revert i Hi; induction ws as [|w ws IH]; intros i Hi.
  - unfold cnt, zlen. cbn. lia.
  - cbn [add_space sumZ]. rewrite IH by lia.
    assert (Hl : zlen (w :: ws) = zlen ws + 1) by (unfold zlen; cbn [length]; lia). rewrite Hl.
    assert (C1 : cnt i (zlen ws + 1) n = (if i <? n then 1 else 0) + cnt (i + 1) (zlen ws) n).
    { unfold cnt, zlen. destruct (i <? n) eqn:E; lia. }
    assert (C2 : cnt i (zlen ws + 1) rem = (if i <? rem then 1 else 0) + cnt (i + 1) (zlen ws) rem).
    { unfold cnt, zlen. destruct (i <? rem) eqn:E; lia. }
    rewrite C1, C2. destruct (i <? n) eqn:En.
    + destruct (i <? rem) eqn:Er; ring.
    + assert (Er : (i <? rem) = false) by lia. rewrite Er. ring.
Qed.

Theorem surplus_distributed_exactly ws n s : 0 < n <= zlen ws -> 0 <= s ->
  sumZ (add_space ws 0 n (s / n) (s mod n)) = sumZ ws + s.
Proof.
  intros Hn Hs. pose proof (Z.mod_pos_bound s n ltac:(lia)) as Hm.
  rewrite add_space_sum' by lia. unfold cnt.
  replace (Z.max 0 (Z.min (0 + zlen ws) n - 0)) with n by lia.
  replace (Z.max 0 (Z.min (0 + zlen ws) (s mod n) - 0)) with (s mod n) by lia.
  rewrite (Z.div_mod s n) at 3 by lia. ring.
Qed.

(* every column keeps at least its content width plus padding *)
Lemma add_space_ge ws i n per rem : 0 <= per -> Forall2 (fun w w' => w <= w') ws (add_space ws i n per rem).
Proof.
  intro Hp. revert i; induction ws as [|w ws IH]; intro i; [constructor|]. cbn [add_space]. constructor; [|apply IH].
  destruct (i <? n); [|lia]. destruct (i <? rem); lia.
Qed.


