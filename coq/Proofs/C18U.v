(* C18, continued: valid UTF-8 out of the line-wise and paragraph-wise plumbing. In paragraph
   mode every operation writes, per paragraph, the encoding of what its paragraph function
   returns, joined by the paragraph separator: valid whatever the function returns. Line-wise,
   the result is the line-separator join of what the line function returns. *)
From Coq Require Import List Bool Arith ZArith Lia.
Import ListNotations.
From Rosed Require Import Base.Res Base.ListX Base.Utf8 Base.Str Gem.Segment Gem.GString Model.Util Model.Tb Model.Manip Model.Table
     Model.Options Model.Editor Model.Ops Proofs.Utf8P Proofs.C04P Check.Common Proofs.C17P Proofs.C18P Proofs.C18T Proofs.C09P.
Open Scope Z_scope.

Section C18U.
Context `{Classifier} `{Upper}.

Notation valid x := (valid_utf8 x = true).

Lemma paras_loop_valid op : forall paras idx trim ambig lineSep np ps r,
  paras_loop op idx paras trim ambig lineSep np ps = Ok r -> Forall (fun x => valid x) r.
Proof.
  induction paras as [|para0 rest IH]; intros idx trim ambig lineSep np ps r E; [injection E as <-; constructor|].
  cbn [paras_loop] in E.
  destruct (match rest with [] => _ | nxt :: _ => _ end) as [[suf para] trim'].
  destruct (op idx _ _ _) as [r0| |]; cbn [bind] in E; try discriminate.
  destruct (paras_loop op (idx + 1) rest trim' ambig lineSep np ps) as [more| |] eqn:Em; cbn [bind] in E; try discriminate.
  injection E as <-. apply Forall_app. split; [|exact (IH _ _ _ _ _ _ _ Em)].
  apply Forall_forall. intros x Hx. apply in_map_iff in Hx as (y & <- & _). apply encode_valid.
Qed.

(* paragraph mode: any paragraph function *)
Theorem apply_gparagraphs_valid op opts e r : valid (o_parasep (with_defaults opts)) ->
  apply_gparagraphs op opts e = Ok r -> valid (e_text r).
Proof.
  intros Hps E. unfold apply_gparagraphs in E. cbv zeta in E.
  destruct (paras_loop _ _ _ _ _ _ _ _) as [tr| |] eqn:Et; cbn [bind] in E; try discriminate.
  injection E as <-. cbn [with_text e_text]. apply valid_join; [exact Hps|exact (paras_loop_valid _ _ _ _ _ _ _ _ _ Et)].
Qed.

Lemma apply_each_valid_res (op : line_op) : (forall k l r, op k l = Ok r -> Forall (fun x => valid x) r) ->
  forall lines i r, apply_each op i lines = Ok r -> Forall (fun x => valid x) r.
Proof.
  intro Hf. induction lines as [|l ls IH]; intros i r E; [injection E as <-; constructor|].
  cbn [apply_each] in E. destruct (op i l) as [r0| |] eqn:E0; cbn [bind] in E; try discriminate.
  destruct (apply_each op (i + 1) ls) as [rest| |] eqn:Er; cbn [bind] in E; try discriminate.
  injection E as <-. apply Forall_app. split; [exact (Hf _ _ _ E0)|exact (IH _ _ Er)].
Qed.

(* line mode: any line function that returns valid lines *)
Theorem apply_opts_valid (op : line_op) opts e r : (forall k l r, op k l = Ok r -> Forall (fun x => valid x) r) ->
  valid (o_linesep (with_defaults opts)) -> apply_opts op opts e = Ok r -> valid (e_text r).
Proof.
  intros Hop Hsep E. unfold apply_opts in E. cbv zeta in E.
  destruct (apply_each op 0 _) as [ap| |] eqn:Ea; cbn [bind] in E; try discriminate. injection E as <-. cbn [with_text e_text].
  apply valid_join; [exact Hsep|]. pose proof (apply_each_valid_res op Hop _ _ _ Ea) as Hv.
  destruct (negb _ && _); [apply Forall_app; split; [exact Hv|constructor; [exact valid_nil|constructor]]|exact Hv].
Qed.

Lemma wd_parasep_valid o : valid (o_parasep (with_defaults o)) -> valid (o_parasep (with_defaults (with_defaults o))).
Proof. intro Hv. rewrite (proj2 (wd_parasep o)). exact Hv. Qed.
Lemma wd_linesep_valid o : valid (o_linesep (with_defaults o)) -> valid (o_linesep (with_defaults (with_defaults o))).
Proof. intro Hv. rewrite (proj2 (wd_linesep o)). exact Hv. Qed.

(* ---- the operations, in paragraph mode ---- *)
Theorem wrap_valid_paras width opts e r : o_preserve (with_defaults opts) = true -> valid (o_parasep (with_defaults opts)) ->
  wrap_opts width opts e = Ok r -> valid (e_text r).
Proof.
  intros Hp Hv E. unfold wrap_opts in E. cbv zeta in E. rewrite Hp in E.
  exact (apply_gparagraphs_valid _ _ _ _ (wd_parasep_valid _ Hv) E).
Qed.

Theorem justify_valid_paras width opts e r : o_preserve (with_defaults opts) = true -> valid (o_parasep (with_defaults opts)) ->
  justify_opts width opts e = Ok r -> valid (e_text r).
Proof.
  intros Hp Hv E. unfold justify_opts in E. cbv zeta in E. rewrite Hp in E.
  exact (apply_gparagraphs_valid _ _ _ _ (wd_parasep_valid _ Hv) E).
Qed.

Theorem align_valid_paras align width opts e r : o_preserve (with_defaults opts) = true -> valid (o_parasep (with_defaults opts)) ->
  valid (e_text e) -> align_opts align width opts e = Ok r -> valid (e_text r).
Proof.
  intros Hp Hv He E. unfold align_opts in E. destruct (_ || _); [injection E as <-; exact He|]. cbv zeta in E. rewrite Hp in E.
  exact (apply_gparagraphs_valid _ _ _ _ (wd_parasep_valid _ Hv) E).
Qed.

Theorem indent_valid_paras level opts e r : o_preserve (with_defaults opts) = true -> valid (o_parasep (with_defaults opts)) ->
  valid (e_text e) -> indent_opts level opts e = Ok r -> valid (e_text r).
Proof.
  intros Hp Hv He E. unfold indent_opts in E. destruct (level <? 1); [injection E as <-; exact He|].
  destruct (repeat_str _ _) as [ind| |]; cbn [bind] in E; try discriminate. rewrite Hp in E.
  unfold apply_paragraphs_opts in E.
  exact (apply_gparagraphs_valid _ _ _ _ Hv E).
Qed.

(* ---- Justify of every line, line mode ---- *)
Theorem justify_valid_all width opts e r : o_preserve (with_defaults opts) = false -> o_justlast (with_defaults opts) = true ->
  valid (o_linesep (with_defaults opts)) -> justify_opts width opts e = Ok r -> valid (e_text r).
Proof.
  intros Hp Hj Hv E. unfold justify_opts in E. cbv zeta in E. rewrite Hp, Hj in E.
  refine (apply_opts_valid _ _ _ _ _ (wd_linesep_valid _ Hv) E).
  intros k l r0 E0. cbv beta in E0. destruct (justify_line _ _) as [j| |]; cbn [bind] in E0; try discriminate.
  injection E0 as <-. constructor; [apply encode_valid|constructor].
Qed.

(* ---- Insert, Delete, Overtype: concatenations of encodings and of the inserted text ---- *)
Theorem insert_valid p x e r : valid (e_text e) -> valid x -> insert p x e = Ok r -> valid (e_text r).
Proof.
  intros He Hx E. destruct e as [t o ref]. cbn [e_text] in He. destruct (valid_is_encode t He) as (rs & Hs & ->).
  pose proof (insert_spec rs o ref p x Hs) as Hi. cbv zeta in Hi. rewrite Hi in E. injection E as <-. cbn [e_text].
  apply valid_app; [apply encode_valid|]. apply valid_app; [exact Hx|apply encode_valid].
Qed.

Theorem delete_valid s en e r : valid (e_text e) -> delete s en e = Ok r -> valid (e_text r).
Proof.
  intros He E. destruct e as [t o ref]. cbn [e_text] in He. destruct (valid_is_encode t He) as (rs & Hs & ->).
  pose proof (delete_spec rs o ref s en Hs) as Hd. cbv zeta in Hd. destruct (norm _ s en) as [s' e']. rewrite Hd in E. injection E as <-. cbn [e_text].
  apply valid_app; apply encode_valid.
Qed.

Theorem overtype_valid p x e r : valid (e_text e) -> overtype p x e = Ok r -> valid (e_text r).
Proof.
  intros He E. destruct e as [t o ref]. cbn [e_text] in He. destruct (valid_is_encode t He) as (rs & Hs & ->).
  pose proof (overtype_spec rs o ref p x Hs) as Ho. cbv zeta in Ho. rewrite Ho in E. injection E as <-. cbn [e_text].
  apply valid_app; [apply encode_valid|]. apply valid_app; apply encode_valid.
Qed.

End C18U.
