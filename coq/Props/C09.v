(* C09 - Insert, Delete and Overtype edit exactly the addressed clusters. *)
From Coq Require Import List Bool ZArith Lia.
Import ListNotations.
From Rosed Require Import Base.Res Base.ListX Base.Utf8 Gem.Segment Gem.GString Model.Table Model.Options Model.Editor Model.Ops
     Check.Common Proofs.Utf8P Proofs.C04P Proofs.C09P.
Open Scope Z_scope.

(* For every valid UTF-8 text (the encoding of scalar values rs), every classifier and
   every integer position, with p' the documented normalisation of p against the number
   n of clusters: *)
Theorem C09_insert : forall (C : Classifier) (U : Upper) rs o ref p x, scalars rs ->
  let cl := clusters rs in let p' := Z.to_nat (norm1 (zlen cl) p) in
  insert p x (Ed (encode rs) o ref) = Ok (Ed (encode (concat (firstn p' cl)) ++ x ++ encode (concat (skipn p' cl))) o ref).
Proof. intros C U. exact insert_spec. Qed.
Print Assumptions C09_insert.

Theorem C09_delete : forall (C : Classifier) (U : Upper) rs o ref s e, scalars rs ->
  let cl := clusters rs in let '(s', e') := norm (zlen cl) s e in
  delete s e (Ed (encode rs) o ref) =
  Ok (Ed (encode (concat (firstn (Z.to_nat s') cl)) ++ encode (concat (skipn (Z.to_nat e') cl))) o ref).
Proof. intros C U. exact delete_spec. Qed.
Print Assumptions C09_delete.

Theorem C09_overtype : forall (C : Classifier) (U : Upper) rs o ref p x, scalars rs ->
  let cl := clusters rs in let n := zlen cl in let p' := norm1 n p in
  let stop := Z.min (p' + glen (decode x)) n in
  overtype p x (Ed (encode rs) o ref) =
  Ok (Ed (encode (concat (firstn (Z.to_nat p') cl)) ++ encode (decode x) ++ encode (concat (skipn (Z.to_nat stop) cl))) o ref).
Proof. intros C U. exact overtype_spec. Qed.
Print Assumptions C09_overtype.
