(* C09 - Insert, Delete and Overtype edit exactly the addressed clusters. *)
From Coq Require Import List Bool ZArith Lia.
Import ListNotations.
From Rosed Require Import Base.Res Base.ListX Base.Utf8 Gem.Segment Gem.GString Model.Table Model.Options Model.Editor Model.Ops
     Check.Common Proofs.Utf8P Proofs.C04P Proofs.C09P Proofs.SegmentP Proofs.C09Q Inst.GoRt gen.GemEdit Inst.GoEdit.
Open Scope Z_scope.

(* For every valid UTF-8 text (the encoding of scalar values rs), every classifier and
   every integer position, with p' the documented normalisation of p against the number
   n of clusters: *)
Theorem C09_insert : forall (C : Classifier) (U : Upper) rs o ref p x, scalars rs ->
  let cl := clusters rs in let p' := Z.to_nat (norm1 (zlen cl) p) in
  insert p x (Ed (encode rs) o ref) = Ok (Ed (encode (concat (firstn p' cl)) ++ x ++ encode (concat (skipn p' cl))) o ref).
Proof. intros C U. exact insert_spec. Qed.
Print Assumptions C09_insert.

Theorem C09_delete : forall (C : Classifier) (U : Upper) rs o ref s e, scalars rs ->
  let cl := clusters rs in let '(s', e') := norm (zlen cl) s e in
  delete s e (Ed (encode rs) o ref) =
  Ok (Ed (encode (concat (firstn (Z.to_nat s') cl)) ++ encode (concat (skipn (Z.to_nat e') cl))) o ref).
Proof. intros C U. exact delete_spec. Qed.
Print Assumptions C09_delete.

Theorem C09_overtype : forall (C : Classifier) (U : Upper) rs o ref p x, scalars rs ->
  let cl := clusters rs in let n := zlen cl in let p' := norm1 n p in
  let stop := Z.min (p' + glen (decode x)) n in
  overtype p x (Ed (encode rs) o ref) =
  Ok (Ed (encode (concat (firstn (Z.to_nat p') cl)) ++ encode (decode x) ++ encode (concat (skipn (Z.to_nat stop) cl))) o ref).
Proof. intros C U. exact overtype_spec. Qed.
Print Assumptions C09_overtype.

(* deleting what was just inserted restores the text: for every text, position and inserted text
   that does not merge with its neighbours (the seam condition of the segmentation - without it
   the inserted text is not a whole number of clusters of the result: a combining mark inserted
   after a base letter becomes part of that letter's cluster) *)
Theorem C09_insert_delete_roundtrip : forall (C : Classifier) (U : Upper) rs o ref p x, scalars rs -> scalars x ->
  let cl := clusters rs in let p' := norm1 (zlen cl) p in
  let a := concat (firstn (Z.to_nat p') cl) in let b := concat (skipn (Z.to_nat p') cl) in
  seam_ok a x -> seam_ok (a ++ x) b ->
  exists e1, insert p (encode x) (Ed (encode rs) o ref) = Ok e1 /\
             delete p' (p' + glen x) e1 = Ok (Ed (encode rs) o ref).
Proof. intros C U. exact insert_delete_roundtrip. Qed.
Print Assumptions C09_insert_delete_roundtrip.

(* Insert, Delete and Overtype as they are in operations.go now - translated statement by
   statement on every run (gen/GemFuncs.v), every selection, byte slice and dereference that can
   panic bound in Go's evaluation order - are the model's operations, for every Editor, position
   and text: the three theorems above are about the code as it is written *)
Theorem C09_operations_are_the_source : forall (C : Classifier) (U : Upper) e p q text,
  go_Insert e p text = insert p text e /\ go_Delete e p q = delete p q e /\ go_Overtype e p text = overtype p text e.
Proof. intros C U e p q text. exact (conj (go_insert_eq e p text) (conj (go_delete_eq e p q) (go_overtype_eq e p text))). Qed.
Print Assumptions C09_operations_are_the_source.
