(* C17 - Unset options equal their defaults; XOpts equals WithOptions(o).X. *)
From Coq Require Import List Bool ZArith Lia.
Import ListNotations.
From Rosed Require Import Base.Res Base.ListX Base.Utf8 Gem.Segment Gem.GString Model.Table Model.Options Model.Editor Model.Ops Model.Hist
     Proofs.SeamP Proofs.C04P Proofs.C17P Proofs.C17Q.
Open Scope Z_scope.

(* unset string fields become exactly the documented defaults, set fields and all booleans are kept *)
Theorem C17_defaults : forall (C : Classifier) o,
  o_linesep (with_defaults o) = (match o_linesep o with [] => default_linesep | x => x end) /\
  o_indent (with_defaults o) = (match o_indent o with [] => default_indent | x => x end) /\
  o_parasep (with_defaults o) = (match o_parasep o with [] => default_parasep | x => x end) /\
  o_notrailing (with_defaults o) = o_notrailing o /\ o_preserve (with_defaults o) = o_preserve o /\
  o_justlast (with_defaults o) = o_justlast o /\ o_borders (with_defaults o) = o_borders o /\
  o_headers (with_defaults o) = o_headers o.
Proof. intros C. exact wd_values. Qed.
Print Assumptions C17_defaults.

(* WithDefaults is idempotent whenever its first application produced a set as long as the default one ... *)
Theorem C17_idempotent : forall (C : Classifier) o,
  glen (decode (o_charset (with_defaults o))) = glen (decode default_charset) ->
  with_defaults (with_defaults o) = with_defaults o.
Proof. intros C. exact wd_idempotent. Qed.
Print Assumptions C17_idempotent.

(* ... which it always does for character sets of plain code points (0, 1, 2, 3 or more of them): three clusters, idempotent *)
Theorem C17_three_clusters : forall (C : Classifier) (K : ClassifierOk) o cs,
  o_charset o = encode cs -> scalars cs -> Forall plain cs ->
  glen (decode (o_charset (with_defaults o))) = 3 /\ with_defaults (with_defaults o) = with_defaults o.
Proof. intros C K o cs E Hs Hp. exact (conj (wd_three_clusters o cs E Hs Hp) (wd_idempotent_plain o cs E Hs Hp)). Qed.
Print Assumptions C17_three_clusters.

(* every operation other than WithOptions / Commit / CommitAll leaves the Options stored on the returned Editor as they were on the receiver *)
Theorem C17_keeps_options : forall (C : Classifier) (U : Upper) e o r,
  match o with OWithOptions _ | OCommit | OCommitAll => False | _ => True end ->
  run_op e o = Ok r -> e_opts r = e_opts e.
Proof. intros C U. exact ops_keep_options. Qed.
Print Assumptions C17_keeps_options.
