(* C02 - Every code point carries its Unicode 13.0.0 break class.
   Statements about the tables regenerated from internal/gem/graphemeclusters.go. *)
From Coq Require Import List Bool ZArith Lia.
Import ListNotations.
From Rosed Require Import Base.Cls Base.Intervals Gem.Segment gen.Tables ref.Ucd13 Inst.GoP.
Open Scope Z_scope.

(* all 14 predicates (13 Grapheme_Cluster_Break values and Extended_Pictographic)
   agree with the Unicode 13.0.0 reference for every integer, in range or not *)
Theorem C02_tables : forall r : Z, bits go_tables r = bits ucd13_tables r.
Proof. exact go_tables_are_ucd13. Qed.
Print Assumptions C02_tables.

(* each value satisfies at most one predicate *)
Theorem C02_one_class : forall r : Z, one_class (bits go_tables r) = true.
Proof. exact go_one_class. Qed.
Print Assumptions C02_one_class.

(* out-of-range and negative values behave as Other *)
Theorem C02_out_of_range : forall r : Z, r < 0 \/ 1114111 < r -> go_class_of r = Other.
Proof. exact go_out_of_range_other. Qed.
Print Assumptions C02_out_of_range.

(* Hangul syllables follow the arithmetic structure: LV at multiples of 28, LVT otherwise, neither outside *)
Theorem C02_hangul : forall r : Z, 44032 <= r <= 55203 ->
  inr r isCbLV_tab = ((r - 44032) mod 28 =? 0) /\ inr r isCbLVT_tab = negb ((r - 44032) mod 28 =? 0).
Proof. exact go_hangul. Qed.
Print Assumptions C02_hangul.
Theorem C02_hangul_outside : forall r : Z, in_hangul r || outside_hangul (bits go_tables r) = true.
Proof. exact go_hangul_outside. Qed.
Print Assumptions C02_hangul_outside.

(* the classifier the executable model uses (a decision tree) is the table-driven classification *)
Theorem C02_classifier : forall r : Z, go_class_of r = class_of_tabs go_tables r.
Proof. exact go_class_of_spec. Qed.
Print Assumptions C02_classifier.
