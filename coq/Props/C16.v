(* C16 - Tables are rectangular with aligned columns. Proved so far: the width arithmetic. *)
From Coq Require Import List Bool ZArith Lia.
Import ListNotations.
From Rosed Require Import Base.ListX Gem.Segment Model.Table Proofs.C16P.
Open Scope Z_scope.

(* the surplus width is distributed exactly: quotient to each of the first n columns, one more to the first (s mod n) *)
Theorem C16_surplus_exact : forall ws n s, 0 < n <= zlen ws -> 0 <= s ->
  sumZ (add_space ws 0 n (s / n) (s mod n)) = sumZ ws + s.
Proof. exact surplus_distributed_exactly. Qed.
Print Assumptions C16_surplus_exact.

(* hence the total of the column widths plus the fixed border columns b is the requested width when
   that exceeds the minimum the content needs, and that minimum otherwise *)
Theorem C16_total_width : forall padded n b width, 0 < n <= zlen padded ->
  let minw := b + sumZ padded in
  let s := width - minw in
  b + sumZ (if 0 <? s then add_space padded 0 n (s / n) (s mod n) else padded) = Z.max width minw.
Proof.
  intros padded n b width Hn minw s. destruct (0 <? s) eqn:E.
  - rewrite surplus_distributed_exactly by lia. unfold s, minw. lia.
  - unfold s, minw in *. lia.
Qed.
Print Assumptions C16_total_width.

(* no column is narrower than its content plus padding *)
Theorem C16_columns_fit : forall ws i n per rem, 0 <= per -> Forall2 (fun w w' => w <= w') ws (add_space ws i n per rem).
Proof. exact add_space_ge. Qed.
Print Assumptions C16_columns_fit.
