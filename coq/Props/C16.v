(* C16 - Tables are rectangular with aligned columns. Proved: the width arithmetic, and
   C16_rectangular: every line MakeTable produces has exactly max(width, minimum) clusters,
   for every ragged matrix, width, border/header setting and every plain character set, when
   no cell's clusters can merge with a neighbouring space or border character and
   upper-casing a header cell neither breaks that nor adds clusters (without the last
   condition the property is false of the code: known finding D12). *)
From Coq Require Import List Bool ZArith Lia.
Import ListNotations.
From Rosed Require Import Base.ListX Gem.Segment Gem.GString Model.Tb Model.Manip Model.Table Proofs.SeamP Proofs.C13P Proofs.C16P Proofs.C16Q Proofs.C16R.
From Rosed Require Import Proofs.C16S.
Open Scope Z_scope.

(* the surplus width is distributed exactly: quotient to each of the first n columns, one more to the first (s mod n) *)
Theorem C16_surplus_exact : forall ws n s, 0 < n <= zlen ws -> 0 <= s ->
  sumZ (add_space ws 0 n (s / n) (s mod n)) = sumZ ws + s.
Proof. exact surplus_distributed_exactly. Qed.
Print Assumptions C16_surplus_exact.

(* hence the total of the column widths plus the fixed border columns b is the requested width when
   that exceeds the minimum the content needs, and that minimum otherwise *)
Theorem C16_total_width : forall padded n b width, 0 < n <= zlen padded ->
  let minw := b + sumZ padded in
  let s := width - minw in
  b + sumZ (if 0 <? s then add_space padded 0 n (s / n) (s mod n) else padded) = Z.max width minw.
Proof.
  intros padded n b width Hn minw s. destruct (0 <? s) eqn:E.
  - rewrite surplus_distributed_exactly by lia. unfold s, minw. lia.
  - unfold s, minw in *. lia.
Qed.
Print Assumptions C16_total_width.

(* no column is narrower than its content plus padding *)
Theorem C16_columns_fit : forall ws i n per rem, 0 <= per -> Forall2 (fun w w' => w <= w') ws (add_space ws i n per rem).
Proof. exact add_space_ge. Qed.
Print Assumptions C16_columns_fit.

Theorem C16_rectangular : forall (C : Classifier) (K : ClassifierOk) (U : Upper) data width sep header border charSet,
  Forall plain charSet ->
  (forall row c, In row data -> In c row -> all_safe c) ->
  (header = true -> forall row c, nth_error data 0 = Some row -> In c row -> all_safe (upper_str c) /\ glen (upper_str c) <= glen c) ->
  Forall (fun l => glen l = Z.max width (min_table_width data border)) (b_lines (make_table data width sep header border charSet)).
Proof. intros C K U. exact table_rectangular. Qed.
Print Assumptions C16_rectangular.

(* column boundaries at the same offsets on every row: for every row (header or body, bordered or
   not) whose cells have the room the layout relies on, and every k, the line is a part exactly
   column_offset wide - a function of the column widths only - followed by the rendering of
   columns k, k+1, ...; whatever the cells contain *)
Theorem C16_column_offsets : forall (C : Classifier) (K : ClassifierOk) (U : Upper) cs row y hdr border ws k,
  cs_vert cs = [y] -> plain y -> (k <= length ws)%nat -> fits border hdr row ws 0 ->
  let line := (if border then cs_vert cs else []) ++ build_row cs row ws 0 hdr border in
  exists P, line = P ++ build_row cs row (skipn k ws) k hdr border /\ glen P = column_offset border ws k.
Proof. intros C K U. exact row_column_offsets. Qed.
Print Assumptions C16_column_offsets.

(* empty data, or only empty rows, produce no output *)
Theorem C16_no_cells : forall (C : Classifier) (U : Upper) data width sep header border charSet,
  Forall (fun r => r = []) data -> b_lines (make_table data width sep header border charSet) = [].
Proof. intros C U. exact make_table_empty_rows. Qed.
Print Assumptions C16_no_cells.

(* the lines of a table, in order: top border; the first row, rendered as a header row when
   headers are on; the rule after a header row (the border bar when borders are on and there is
   more than one row, a run of the horizontal character without borders); the other rows in input
   order; bottom border. row_line = the left border and the cells of one row (build_row) *)
Theorem C16_rows_in_order : forall (C : Classifier) (U : Upper) (r0 : list gstr) rest ws width sep (header border : bool) cs,
  let hbar : gstr := if border then cs_corner cs ++ horz_bar (cs_corner cs) (cs_horz cs) ws else [] in
  let rule := if header then (if border then (if 1 <? zlen (r0 :: rest) then [hbar] else []) else [grepeat (cs_horz cs) width]) else [] in
  b_lines (build_table (r0 :: rest) ws width sep header border cs) =
  (if border then [hbar] else []) ++ [row_line cs ws header border r0] ++ rule ++ map (row_line cs ws false border) rest ++ (if border then [hbar] else []).
Proof. intros C U. exact build_table_structure. Qed.
Print Assumptions C16_rows_in_order.

(* a header cell is the upper-cased cell: centred between borders, left-aligned without *)
Theorem C16_header_cell : forall (C : Classifier) (U : Upper) cs row w ws col border,
  build_row cs row (w :: ws) col true border =
  (let h := upper_str (cell_at row col) in if border then gadd (align_center h w) (cs_vert cs) else align_left h w)
  ++ build_row cs row ws (S col) true border.
Proof. intros C U. exact header_cell. Qed.
Print Assumptions C16_header_cell.
