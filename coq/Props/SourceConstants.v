(* The unexported layout constants of InsertDefinitionsTable as they are in the source now
   (gen/Consts.v, regenerated on every run) are the literals the model writes out. Kept apart
   from Props/C15.v: the constants are found by name, and a renamed unexported constant must
   not stop C15's theorems from building - what the constants are worth is judged by the
   correspondence on every generated definitions table anyway. *)
From Coq Require Import List ZArith.
Import ListNotations.
From Rosed Require Import Model.Manip gen.Consts Inst.GoConstsLayout.
Open Scope Z_scope.

(* the layout literals of the model ("- ", the two-space term indent, the two-space column gap,
   the borderless table padding) are the constants of operations.go / table.go in the source now *)
Theorem layout_constants_are_the_source :
  go_definitionStart = [HYPHEN; SP] /\ go_termLeftTabWidth = 2 /\ go_minBetween = 2.
Proof. exact go_layout_consts_eq. Qed.
Print Assumptions layout_constants_are_the_source.
