(* C03 - Layout depends on grapheme clusters only, not on their encoding.
   [image rho rs rs'] says that the cluster list of rs' is the cluster list of rs with every
   cluster c replaced by rho c (any number of code points or bytes each). Proved so far for
   the operations whose results are characterised cluster-wise: Chars and its variants, Insert,
   Delete, Overtype, the three line-alignment functions, CollapseSpace, Wrap, JustifyLine, the
   two-column layout, the definitions table and tables without a header row. *)
From Coq Require Import List Bool ZArith Lia.
Import ListNotations.
From Rosed Require Import Base.Res Base.ListX Base.Utf8 Gem.Segment Gem.GString Model.Manip Model.Table Model.Options Model.Editor Model.Ops
     Base.Str Check.Common Proofs.SeamP Proofs.C04P Proofs.C13P Model.Tb Proofs.C03P Proofs.C07Q Proofs.C03W Proofs.C03X Proofs.C03J Proofs.C03T Proofs.C15P Proofs.C06Q Proofs.C15Q Proofs.C12R Proofs.ImageP Proofs.C03U Base.Cls Inst.Go Inst.GoOk.
Open Scope Z_scope.

Theorem C03_chars : forall (C : Classifier) (U : Upper) rho rs rs' o ref s e, scalars rs -> scalars rs' -> image rho rs rs' ->
  exists r r', chars (Ed (encode rs) o ref) s e = Ok r /\ chars (Ed (encode rs') o ref) s e = Ok r' /\
    let '(s', e') := norm (zlen (clusters rs)) s e in
    e_text r = encode (concat (zslice (clusters rs) s' e')) /\
    e_text r' = encode (concat (map rho (zslice (clusters rs) s' e'))).
Proof. intros C U. exact chars_image. Qed.
Print Assumptions C03_chars.

Theorem C03_insert : forall (C : Classifier) (U : Upper) rho rs rs' o ref p x, scalars rs -> scalars rs' -> image rho rs rs' ->
  let cl := clusters rs in let p' := Z.to_nat (norm1 (zlen cl) p) in
  insert p x (Ed (encode rs) o ref) = Ok (Ed (encode (concat (firstn p' cl)) ++ x ++ encode (concat (skipn p' cl))) o ref) /\
  insert p x (Ed (encode rs') o ref) =
    Ok (Ed (encode (concat (map rho (firstn p' cl))) ++ x ++ encode (concat (map rho (skipn p' cl)))) o ref).
Proof. intros C U. exact insert_image. Qed.
Print Assumptions C03_insert.

Theorem C03_align : forall (C : Classifier) (K : ClassifierOk) rho text text' w, image rho text text' -> keeps_ws rho ->
  align_left text' w = concat (map rho (kept_left text)) ++ spaces (Z.max 0 (w - zlen (kept_left text))) /\
  align_right text' w = spaces (Z.max 0 (w - zlen (kept_right text))) ++ concat (map rho (kept_right text)).
Proof. intros C K rho text text' w Hi Hk. exact (conj (align_left_image rho text text' w Hi Hk) (align_right_image rho text text' w Hi Hk)). Qed.
Print Assumptions C03_align.

Theorem C03_align_center : forall (C : Classifier) (K : ClassifierOk) rho text text' w, image rho text text' -> keeps_ws rho ->
  let kept := kept_center text in
  let need := w - zlen kept in
  align_center text' w =
  if need <=? 0 then concat (map rho kept) else spaces (need - need / 2) ++ concat (map rho kept) ++ spaces (need / 2).
Proof. intros C K. exact align_center_image. Qed.
Print Assumptions C03_align_center.

(* the count of clusters, hence every position normalisation, is the same for a text and its image *)
Theorem C03_count : forall (C : Classifier) rho rs rs', image rho rs rs' -> zlen (clusters rs') = zlen (clusters rs).
Proof. intros C. exact image_len. Qed.
Print Assumptions C03_count.

(* CollapseSpace: if the clusters of text' are those of text replaced one for one by a
   substitution that keeps white-space clusters white-space and others not, then the clusters
   of the collapsed text' are those of the collapsed text under the same substitution (the
   single spaces that remain are left alone) *)
Theorem C03_collapse_space : forall (C : Classifier) (K : ClassifierOk) (U : Upper) rho text sep r text' r',
  let t0 := if gis_empty sep then text else replace_all text sep [SP] in
  let t0' := if gis_empty sep then text' else replace_all text' sep [SP] in
  (forall c, wsc (rho c) = wsc c) -> clusters t0' = map rho (clusters t0) ->
  safe_text t0 -> safe_text t0' -> collapse_space text sep = Ok r -> collapse_space text' sep = Ok r' ->
  clusters r' = map (fun c => if is_sp c then c else rho c) (clusters r).
Proof. intros C K U. exact collapse_space_image. Qed.
Print Assumptions C03_collapse_space.

(* Wrap: if the clusters of the collapsed text ct' are those of ct replaced one for one by a
   substitution that fixes the space and the hyphen cluster and keeps the others from looking
   like a space, then the wrapped lines correspond one to one, each line of the image being the
   image of the line - the line breaks fall at the same cluster positions *)
Theorem C03_wrap : forall (C : Classifier) (K : ClassifierOk) (U : Upper) (rho : list Z -> list Z),
  rho [SP] = [SP] -> rho [HYPHEN] = [HYPHEN] -> (forall c, (first_rune (rho c) =? SP) = (first_rune c =? SP)) ->
  forall text text' w sep ct ct' b b',
  collapse_space text sep = Ok ct -> collapse_space text' sep = Ok ct' -> all_safe ct -> all_safe ct' ->
  clusters ct' = map rho (clusters ct) ->
  wrap text w sep = Ok b -> wrap text' w sep = Ok b' ->
  Forall2 (image rho) (b_lines b) (b_lines b').
Proof. intros C K U. exact wrap_image. Qed.
Print Assumptions C03_wrap.

(* Delete and Overtype: the same cluster positions are removed / overwritten in a text and in
   its image, for all positions *)
Theorem C03_delete : forall (C : Classifier) (U : Upper) rho rs rs' o ref s e, scalars rs -> scalars rs' -> image rho rs rs' ->
  let cl := clusters rs in let '(s', e') := norm (zlen cl) s e in
  delete s e (Ed (encode rs) o ref) =
    Ok (Ed (encode (concat (firstn (Z.to_nat s') cl)) ++ encode (concat (skipn (Z.to_nat e') cl))) o ref) /\
  delete s e (Ed (encode rs') o ref) =
    Ok (Ed (encode (concat (map rho (firstn (Z.to_nat s') cl))) ++ encode (concat (map rho (skipn (Z.to_nat e') cl)))) o ref).
Proof. intros C U. exact delete_image. Qed.
Print Assumptions C03_delete.

Theorem C03_overtype : forall (C : Classifier) (U : Upper) rho rs rs' o ref p x, scalars rs -> scalars rs' -> image rho rs rs' ->
  let cl := clusters rs in let n := zlen cl in let p' := norm1 n p in
  let stop := Z.min (p' + glen (decode x)) n in
  overtype p x (Ed (encode rs) o ref) =
    Ok (Ed (encode (concat (firstn (Z.to_nat p') cl)) ++ encode (decode x) ++ encode (concat (skipn (Z.to_nat stop) cl))) o ref) /\
  overtype p x (Ed (encode rs') o ref) =
    Ok (Ed (encode (concat (map rho (firstn (Z.to_nat p') cl))) ++ encode (decode x) ++ encode (concat (map rho (skipn (Z.to_nat stop) cl)))) o ref).
Proof. intros C U. exact overtype_image. Qed.
Print Assumptions C03_overtype.

(* JustifyLine: when the collapsed line and its image consist of safe clusters each of which is
   the single space or contains no space (what CollapseSpace leaves, C07), and the substitution
   maps the space cluster, and nothing else, to the space cluster, the justified image is the
   image of the justified line: same words, same gaps *)
Theorem C03_justify_line : forall (C : Classifier) (K : ClassifierOk) (rho : list Z -> list Z),
  (forall c, is_sp (rho c) = is_sp c) ->
  forall text text' w c c' j j',
  collapse_space text [10] = Ok c -> collapse_space text' [10] = Ok c' ->
  all_safe c -> all_safe c' -> Forall sp_or_free (clusters c) -> Forall sp_or_free (clusters c') ->
  image rho c c' ->
  justify_line text w = Ok j -> justify_line text' w = Ok j' ->
  image rho j j'.
Proof. intros C K. exact justify_line_image. Qed.
Print Assumptions C03_justify_line.

(* the rows of the two-column layout: row k of the images is the image of row k, the right
   column at the same cluster offset, when there is at least one space between the columns *)
Theorem C03_two_column_rows : forall (C : Classifier) (K : ClassifierOk) (rho : list Z -> list Z), rho [SP] = [SP] ->
  forall left left' right right' total k, 0 < total ->
  Forall2 (image rho) left left' -> Forall2 (image rho) right right' ->
  Forall all_safe left -> Forall all_safe left' -> Forall all_safe right -> Forall all_safe right' ->
  Forall (fun l => glen l < total) left ->
  image rho (row_of left right total k) (row_of left' right' total k).
Proof. intros C K. exact rows_image. Qed.
Print Assumptions C03_two_column_rows.

(* InsertTwoColumns: both columns wrapped (C03_wrap), then laid out row by row *)
Theorem C03_two_columns : forall (C : Classifier) (K : ClassifierOk) (U : Upper) (rho : list Z -> list Z),
  rho [SP] = [SP] -> rho [HYPHEN] = [HYPHEN] -> (forall c, (first_rune (rho c) =? SP) = (first_rune c =? SP)) ->
  forall lt rt lt' rt' gap width m ex sep ctl ctl' ctr ctr' lb lb' rb rb',
  let '(W, lw, rw) := two_col_widths width gap m ex in
  1 <= gap ->
  collapse_space lt sep = Ok ctl -> collapse_space lt' sep = Ok ctl' -> all_safe ctl -> all_safe ctl' -> image rho ctl ctl' ->
  collapse_space rt sep = Ok ctr -> collapse_space rt' sep = Ok ctr' -> all_safe ctr -> all_safe ctr' -> image rho ctr ctr' ->
  wrap lt lw sep = Ok lb -> wrap lt' lw sep = Ok lb' -> wrap rt rw sep = Ok rb -> wrap rt' rw sep = Ok rb' ->
  let rows (l r : block) := map (row_of (b_lines l) (b_lines r) (lw + gap)) (seq 0 (Nat.max (length (b_lines l)) (length (b_lines r)))) in
  Forall2 (image rho) (rows lb rb) (rows lb' rb').
Proof. intros C K U. exact two_columns_image. Qed.
Print Assumptions C03_two_columns.

(* texts that meet at a plain code point (class Other: a space, a hyphen, a border character):
   their cluster lists are concatenated, so images of the parts make an image of the whole -
   the tool behind every layout that glues user text to padding and decoration *)
Theorem C03_image_app : forall (C : Classifier) (K : ClassifierOk) rho a a' b b',
  meets a b -> meets a' b' -> image rho a a' -> image rho b b' -> image rho (a ++ b) (a' ++ b').
Proof. intros C K. exact (image_app). Qed.
Print Assumptions C03_image_app.

(* the definitions table: the longest term is the same for the terms and for their images
   (it is counted in clusters), and every row of every entry - term, padding, dash, first line
   of the definition; continuation lines under it - is the image of the row *)
Theorem C03_definitions_table : forall (C : Classifier) (K : ClassifierOk) (rho : list Z -> list Z),
  rho [SP] = [SP] -> rho [HYPHEN] = [HYPHEN] ->
  forall (defs defs' : list (list Z * list Z)) (rbs rbs' : list block),
  Forall2 (fun d d' : list Z * list Z => image rho (decode (fst d)) (decode (fst d')) /\
             word_ok (decode (fst d)) /\ word_ok (decode (fst d'))) defs defs' ->
  Forall2 (fun rb rb' => Forall2 (image rho) (b_lines rb) (b_lines rb') /\ Forall all_safe (b_lines rb) /\ Forall all_safe (b_lines rb')) rbs rbs' ->
  let longest := fold_left lg_step defs (-1) in
  fold_left lg_step defs' (-1) = longest /\
  Forall2 (Forall2 (image rho)) (map (fun p => entry longest (fst p) (snd p)) (combine defs rbs))
                                (map (fun p => entry longest (fst p) (snd p)) (combine defs' rbs')).
Proof. intros C K. exact deftable_entries_image. Qed.
Print Assumptions C03_definitions_table.

(* MakeTable without a header row, on a grid of cells and on the grid of their images: the
   column widths are computed from cluster counts, so they are the same; every line of the image
   table is the image of the line (borders and bars are plain code points the substitution
   leaves alone). A header row is upper-cased code point by code point, which an arbitrary
   substitution does not commute with: headers are decided by the correspondence only. *)
Theorem C03_table : forall (C : Classifier) (K : ClassifierOk) (U : Upper) (rho : list Z -> list Z),
  keeps_ws rho -> rho [SP] = [SP] ->
  forall data data' width sep border charSet x y z,
  let cs := parse_table_charset charSet in
  cs_corner cs = [x] -> cs_vert cs = [y] -> cs_horz cs = [z] -> pfix rho x -> pfix rho y -> pfix rho z ->
  Forall2 (Forall2 (image rho)) data data' ->
  (forall row c, In row data -> In c row -> all_safe c) -> (forall row c, In row data' -> In c row -> all_safe c) ->
  Forall2 (image rho) (b_lines (make_table data width sep false border charSet)) (b_lines (make_table data' width sep false border charSet)).
Proof. intros C K U. exact make_table_image. Qed.
Print Assumptions C03_table.

(* the premises of C03_justify_line can be met with the classifier regenerated from the Go
   source: "ab c a" and the same line with every "a" replaced by "e" + U+0301 (two code points,
   three bytes, one cluster); both justify to width 9 with the same gaps *)
Definition C03_rho_ex (c : list Z) : list Z := match c with [x] => if x =? 97 then [101; 769] else c | _ => c end.
Definition C03_t_ex : list Z := [97; 98; 32; 99; 32; 97].
Definition C03_t_ex' : list Z := [101; 769; 98; 32; 99; 32; 101; 769].

Example C03_justify_premises_met :
  (forall c, is_sp (C03_rho_ex c) = is_sp c) /\
  collapse_space C03_t_ex [10] = Ok C03_t_ex /\ collapse_space C03_t_ex' [10] = Ok C03_t_ex' /\
  all_safe C03_t_ex /\ all_safe C03_t_ex' /\ Forall sp_or_free (clusters C03_t_ex) /\ Forall sp_or_free (clusters C03_t_ex') /\
  image C03_rho_ex C03_t_ex C03_t_ex' /\
  justify_line C03_t_ex 9 = Ok [97; 98; 32; 32; 32; 99; 32; 32; 97] /\
  justify_line C03_t_ex' 9 = Ok [101; 769; 98; 32; 32; 32; 99; 32; 32; 101; 769].
Proof.
  assert (E1 : clusters C03_t_ex = [[97]; [98]; [32]; [99]; [32]; [97]]) by (vm_compute; reflexivity).
  assert (E2 : clusters C03_t_ex' = [[101; 769]; [98]; [32]; [99]; [32]; [101; 769]]) by (vm_compute; reflexivity).
  assert (Hc : forall r, In r [97; 98; 32; 99; 101] -> go_class_of r = Other).
  { intros r Hr. cbn [In] in Hr. repeat (destruct Hr as [<-|Hr]; [vm_compute; reflexivity|]). destruct Hr. }
  assert (H769 : go_class_of 769 = Extend) by (vm_compute; reflexivity).
  assert (Hs : forall x, In x [97; 98; 32; 99; 101] -> forall t, starts_ok (x :: t)).
  { intros x Hx t. cbn [starts_ok]. change (@class_of GoClassifier x) with (go_class_of x). rewrite (Hc x Hx). repeat split; discriminate. }
  assert (He1 : forall x, In x [97; 98; 32; 99; 101] -> ends_ok [x]).
  { intros x Hx. right. cbn [List.last]. change (@class_of GoClassifier x) with (go_class_of x). rewrite (Hc x Hx). discriminate. }
  assert (He2 : ends_ok [101; 769]).
  { right. cbn [List.last]. change (@class_of GoClassifier 769) with (go_class_of 769). rewrite H769. discriminate. }
  split; [|split; [|split; [|split; [|split; [|split; [|split; [|split; [|split]]]]]]]].
  - intro c. destruct c as [|x [|y c]]; try reflexivity. unfold C03_rho_ex. destruct (x =? 97) eqn:E; [|reflexivity].
    cbn. unfold SP. destruct (x =? 32) eqn:E32; [lia|reflexivity].
  - vm_compute; reflexivity.
  - vm_compute; reflexivity.
  - unfold all_safe. rewrite E1. repeat (apply Forall_cons; [split; [apply Hs|apply He1]; cbn [In]; tauto|]). apply Forall_nil.
  - unfold all_safe. rewrite E2.
    repeat (apply Forall_cons; [split; [apply Hs; cbn [In]; tauto|first [exact He2|apply He1; cbn [In]; tauto]]|]). apply Forall_nil.
  - rewrite E1. repeat (apply Forall_cons; [first [left; reflexivity|right; repeat constructor; unfold SP; lia]|]). apply Forall_nil.
  - rewrite E2. repeat (apply Forall_cons; [first [left; reflexivity|right; repeat constructor; unfold SP; lia]|]). apply Forall_nil.
  - unfold image. rewrite E1, E2. reflexivity.
  - vm_compute; reflexivity.
  - vm_compute; reflexivity.
Qed.
