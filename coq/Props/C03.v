(* C03 - Layout depends on grapheme clusters only, not on their encoding.
   [image rho rs rs'] says that the cluster list of rs' is the cluster list of rs with every
   cluster c replaced by rho c (any number of code points or bytes each). Proved so far for
   the operations whose results are characterised cluster-wise: Chars and its variants, Insert,
   the three line-alignment functions, CollapseSpace and Wrap. *)
From Coq Require Import List Bool ZArith Lia.
Import ListNotations.
From Rosed Require Import Base.Res Base.ListX Base.Utf8 Gem.Segment Gem.GString Model.Manip Model.Table Model.Options Model.Editor Model.Ops
     Base.Str Check.Common Proofs.SeamP Proofs.C04P Proofs.C13P Model.Tb Proofs.C03P Proofs.C07Q Proofs.C03W.
Open Scope Z_scope.

Theorem C03_chars : forall (C : Classifier) (U : Upper) rho rs rs' o ref s e, scalars rs -> scalars rs' -> image rho rs rs' ->
  exists r r', chars (Ed (encode rs) o ref) s e = Ok r /\ chars (Ed (encode rs') o ref) s e = Ok r' /\
    let '(s', e') := norm (zlen (clusters rs)) s e in
    e_text r = encode (concat (zslice (clusters rs) s' e')) /\
    e_text r' = encode (concat (map rho (zslice (clusters rs) s' e'))).
Proof. intros C U. exact chars_image. Qed.
Print Assumptions C03_chars.

Theorem C03_insert : forall (C : Classifier) (U : Upper) rho rs rs' o ref p x, scalars rs -> scalars rs' -> image rho rs rs' ->
  let cl := clusters rs in let p' := Z.to_nat (norm1 (zlen cl) p) in
  insert p x (Ed (encode rs) o ref) = Ok (Ed (encode (concat (firstn p' cl)) ++ x ++ encode (concat (skipn p' cl))) o ref) /\
  insert p x (Ed (encode rs') o ref) =
    Ok (Ed (encode (concat (map rho (firstn p' cl))) ++ x ++ encode (concat (map rho (skipn p' cl)))) o ref).
Proof. intros C U. exact insert_image. Qed.
Print Assumptions C03_insert.

Theorem C03_align : forall (C : Classifier) (K : ClassifierOk) rho text text' w, image rho text text' -> keeps_ws rho ->
  align_left text' w = concat (map rho (kept_left text)) ++ spaces (Z.max 0 (w - zlen (kept_left text))) /\
  align_right text' w = spaces (Z.max 0 (w - zlen (kept_right text))) ++ concat (map rho (kept_right text)).
Proof. intros C K rho text text' w Hi Hk. exact (conj (align_left_image rho text text' w Hi Hk) (align_right_image rho text text' w Hi Hk)). Qed.
Print Assumptions C03_align.

Theorem C03_align_center : forall (C : Classifier) (K : ClassifierOk) rho text text' w, image rho text text' -> keeps_ws rho ->
  let kept := kept_center text in
  let need := w - zlen kept in
  align_center text' w =
  if need <=? 0 then concat (map rho kept) else spaces (need - need / 2) ++ concat (map rho kept) ++ spaces (need / 2).
Proof. intros C K. exact align_center_image. Qed.
Print Assumptions C03_align_center.

(* the count of clusters, hence every position normalisation, is the same for a text and its image *)
Theorem C03_count : forall (C : Classifier) rho rs rs', image rho rs rs' -> zlen (clusters rs') = zlen (clusters rs).
Proof. intros C. exact image_len. Qed.
Print Assumptions C03_count.

(* CollapseSpace: if the clusters of text' are those of text replaced one for one by a
   substitution that keeps white-space clusters white-space and others not, then the clusters
   of the collapsed text' are those of the collapsed text under the same substitution (the
   single spaces that remain are left alone) *)
Theorem C03_collapse_space : forall (C : Classifier) (K : ClassifierOk) (U : Upper) rho text sep r text' r',
  let t0 := if gis_empty sep then text else replace_all text sep [SP] in
  let t0' := if gis_empty sep then text' else replace_all text' sep [SP] in
  (forall c, wsc (rho c) = wsc c) -> clusters t0' = map rho (clusters t0) ->
  safe_text t0 -> safe_text t0' -> collapse_space text sep = Ok r -> collapse_space text' sep = Ok r' ->
  clusters r' = map (fun c => if is_sp c then c else rho c) (clusters r).
Proof. intros C K U. exact collapse_space_image. Qed.
Print Assumptions C03_collapse_space.

(* Wrap: if the clusters of the collapsed text ct' are those of ct replaced one for one by a
   substitution that fixes the space and the hyphen cluster and keeps the others from looking
   like a space, then the wrapped lines correspond one to one, each line of the image being the
   image of the line - the line breaks fall at the same cluster positions *)
Theorem C03_wrap : forall (C : Classifier) (K : ClassifierOk) (U : Upper) (rho : list Z -> list Z),
  rho [SP] = [SP] -> rho [HYPHEN] = [HYPHEN] -> (forall c, (first_rune (rho c) =? SP) = (first_rune c =? SP)) ->
  forall text text' w sep ct ct' b b',
  collapse_space text sep = Ok ct -> collapse_space text' sep = Ok ct' -> all_safe ct -> all_safe ct' ->
  clusters ct' = map rho (clusters ct) ->
  wrap text w sep = Ok b -> wrap text' w sep = Ok b' ->
  Forall2 (image rho) (b_lines b) (b_lines b').
Proof. intros C K U. exact wrap_image. Qed.
Print Assumptions C03_wrap.
