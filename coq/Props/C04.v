(* C04 - Character selection and counting are grapheme-exact for all positions. *)
From Coq Require Import List Bool ZArith Lia.
Import ListNotations.
From Rosed Require Import Base.Res Base.ListX Base.Utf8 Gem.Segment Gem.GString Model.Util Model.Options Model.Editor
     Check.Common Proofs.Utf8P Proofs.C04P gen.Funcs Inst.GoFuncs Inst.GoRt gen.GemChars Inst.GoSel Proofs.C18T Proofs.C18Y.
Open Scope Z_scope.

(* For every text that is the UTF-8 encoding of scalar values (i.e. every valid UTF-8
   text), every classifier and every pair of integers s, e (End, negative, out of range,
   reversed): Chars returns the encoding of exactly the clusters in the documented
   normalised range [s', e'), as a sub-editor whose byte offsets are those of cluster
   s' and cluster e'. *)
Theorem C04_chars : forall (C : Classifier) rs o ref s e, scalars rs ->
  let ed := Ed (encode rs) o ref in
  let cl := clusters rs in
  let '(s', e') := norm (zlen cl) s e in
  chars ed s e = Ok (Ed (encode (concat (zslice cl s' e'))) o
                        (Some (ed, boff rs (roff cl (Z.to_nat s')), boff rs (roff cl (Z.to_nat e'))))).
Proof. intros C rs o ref s e Hs. exact (chars_spec rs o ref s e Hs). Qed.
Print Assumptions C04_chars.

(* util.RangeToIndexes, after the End substitution, is the documented normalisation *)
Theorem C04_normalisation : forall n s e, 0 <= n ->
  range_to_indexes n (if s =? go_End then n else s) (if e =? go_End then n else e) = norm n s e.
Proof. intros n s e Hn. exact (range_to_indexes_is_norm n s e Hn (or_intror I)). Qed.
Print Assumptions C04_normalisation.

Theorem C04_count : forall (C : Classifier) rs o ref, scalars rs -> char_count (Ed (encode rs) o ref) = zlen (clusters rs).
Proof. intros C. exact char_count_spec. Qed.
Print Assumptions C04_count.

(* the parts before, inside and after a selection concatenate to the original text *)
Theorem C04_partition : forall (C : Classifier) rs s' e', 0 <= s' <= e' -> e' <= zlen (clusters rs) ->
  encode (concat (firstn (Z.to_nat s') (clusters rs))) ++ encode (concat (zslice (clusters rs) s' e'))
  ++ encode (concat (skipn (Z.to_nat e') (clusters rs))) = encode rs.
Proof. intros C. exact selection_partition. Qed.
Print Assumptions C04_partition.

(* a selection never splits a UTF-8 sequence *)
Theorem C04_valid : forall (C : Classifier) rs s' e', scalars rs ->
  valid_utf8 (encode (concat (zslice (clusters rs) s' e'))) = true.
Proof. intros C. exact selection_valid. Qed.
Print Assumptions C04_valid.

(* decoding the encoding of scalar values gives them back (Go's []rune(string(rs))) *)
Theorem C04_utf8_roundtrip : forall rs, scalars rs -> decode (encode rs) = rs.
Proof. exact decode_encode. Qed.
Print Assumptions C04_utf8_roundtrip.

(* the position normalisation of the model is the Go function util.RangeToIndexes as it is in
   the source now: go_RangeToIndexes is regenerated from internal/util/util.go by the translator
   on every run, statement by statement (Go int read as Z) *)
Theorem C04_range_to_indexes_is_the_source : forall size s e, 0 <= size -> go_RangeToIndexes size s e = range_to_indexes size s e.
Proof. exact go_range_to_indexes_eq. Qed.
Print Assumptions C04_range_to_indexes_is_the_source.

(* CharsFrom and CharsTo as they are in subeditor.go now (translated on every run,
   gen/GemChars.v) are Chars with the documented second/first argument: the model's selectors *)
Theorem C04_chars_from_to_are_the_source : forall (C : Classifier) e p,
  go_CharsFrom e p = chars_from e p /\ go_CharsTo e p = chars_to e p.
Proof. intros C e p. exact (conj (go_chars_from_eq e p) (go_chars_to_eq e p)). Qed.
Print Assumptions C04_chars_from_to_are_the_source.

(* "A selection never splits ... a UTF-8 sequence": of a valid text, what is selected, what
   precedes it and what follows it in the parent are each valid UTF-8 (ref_ok r says the last two) *)
Theorem C04_never_splits_utf8 : forall (C : Classifier) e s0 e0 r, valid_utf8 (e_text e) = true ->
  chars e s0 e0 = Ok r -> valid_utf8 (e_text r) = true /\ ref_ok r.
Proof.
  intros C e s0 e0 r He E. split; [|exact (chars_ref_ok e s0 e0 r He E)].
  destruct e as [t o ref]. cbn [e_text] in He. destruct (valid_is_encode t He) as (rs & Hs & ->).
  pose proof (chars_spec rs o ref s0 e0 Hs) as Hc. cbv zeta in Hc. destruct (norm _ s0 e0) as [s' e']. rewrite Hc in E. injection E as <-.
  cbn [e_text]. apply encode_valid.
Qed.
Print Assumptions C04_never_splits_utf8.
