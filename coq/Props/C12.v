(* C12 - Justify fills lines to the exact width with even gaps. Proved: the space
   distribution loop indexes safely for every number of gaps and spaces; JustifyLine adds
   exactly the missing number of spaces and nothing else; and (C12_exact_width_even_gaps) a
   line that still has a space and is shorter than w comes out exactly w clusters wide, as
   its words interleaved with runs of spaces that differ by at most one - for every
   classifier, under the stated condition that no word starts with an extending code point
   or ends with a Prepend one (otherwise a space would merge into a neighbouring cluster).
   The line/last-line bookkeeping of JustifyOpts is decided by check_C12 on the model. *)
From Coq Require Import List Bool ZArith Lia.
Import ListNotations.
From Rosed Require Import Base.Res Base.ListX Base.Str Gem.Segment Gem.GString Model.Manip Model.Table Proofs.SeamP Proofs.C12P Proofs.C12Q Proofs.C12R Base.Utf8 Model.Options Model.Editor Model.Ops Proofs.OpsMapP Proofs.C12S.
Open Scope Z_scope.

(* fullList[spaceWordIdx] is always in range; every iteration appends one U+0020 to one entry *)
Theorem C12_index_safe : forall (C : Classifier) n full g sI fR,
  zlen full = 2 * g + 1 -> 0 <= sI < g -> (g mod 2 = 0 -> fR = Z.odd sI) ->
  let oddSub := if g mod 2 =? 0 then 0 else 1 in
  exists full', justify_loop n full g oddSub sI fR = Ok full' /\ zlen full' = 2 * g + 1 /\
    length (concat full') = (length (concat full) + n)%nat /\
    filter (fun r => negb (r =? SP)) (concat full') = filter (fun r => negb (r =? SP)) (concat full).
Proof. intros C. exact justify_loop_safe. Qed.
Print Assumptions C12_index_safe.

Theorem C12_justify_line : forall (C : Classifier) (U : Upper) text w,
  exists c, collapse_space text [10] = Ok c /\
  exists r, justify_line text w = Ok r /\
    ((w <= glen c \/ zlen (split c [SP]) - 1 < 1) /\ r = c \/
     (glen c < w /\ 1 <= zlen (split c [SP]) - 1 /\
      length r = (length c + Z.to_nat (w - glen c))%nat /\
      filter (fun x => negb (x =? SP)) r = filter (fun x => negb (x =? SP)) c)).
Proof. intros C U. exact justify_line_spec. Qed.
Print Assumptions C12_justify_line.

(* the line's words, kept in order, with gaps.(i) spaces after word i *)
Theorem C12_exact_width_even_gaps : forall (C : Classifier) (K : ClassifierOk) (U : Upper) text w c r,
  collapse_space text [10] = Ok c -> glen c < w -> 1 <= zlen (split c [SP]) - 1 ->
  Forall (fun word => starts_ok word /\ ends_ok word) (split c [SP]) ->
  justify_line text w = Ok r ->
  glen r = w /\
  exists gaps, r = concat (interleave (split c [SP]) gaps) /\ length gaps = (length (split c [SP]) - 1)%nat /\
             Forall (fun k => (1 <= k)%nat) gaps /\
             (forall i j, (i < length gaps)%nat -> (j < length gaps)%nat -> (nth i gaps O <= nth j gaps O + 1)%nat).
Proof. intros C K U. exact justify_line_width. Qed.
Print Assumptions C12_exact_width_even_gaps.

(* the hypotheses are met by a line of three words, and the theorem's conclusion is what runs *)
Example C12_premises_met : forall (C : Classifier) (K : ClassifierOk),
  Forall (fun word => starts_ok word /\ ends_ok word) [[97]; [98; 99]; [100]].
Proof. intros C K. exact premises_met. Qed.

(* Justify as an Editor operation with JustifyLastLine, outside paragraph mode: every line of the
   one line decomposition is replaced by its JustifyLine, the lines are re-joined and the final
   terminator is kept exactly when it was there: the number of lines and the trailing separator
   are unchanged *)
Theorem C12_justify_opts_lines : forall (C : Classifier) (U : Upper) width opts e,
  o_preserve (with_defaults opts) = false -> o_justlast (with_defaults opts) = true ->
  justify_opts width opts e =
    Ok (with_text e (join (o_linesep (with_defaults opts)) (mapped_lines (just_line width) opts e))).
Proof. intros C U. exact justify_opts_lines. Qed.
Print Assumptions C12_justify_opts_lines.

(* JustifyLine as an explicit function: the collapsed line, or its words interleaved with gap
   sizes that depend only on the number of words and on the missing width *)
Theorem C12_justify_line_explicit : forall (C : Classifier) (U : Upper) text w c,
  collapse_space text [10] = Ok c ->
  let words := split c [SP] in
  let g := zlen words - 1 in
  justify_line text w =
    Ok (if (w <=? glen c) || (g <? 1) then c
        else concat (interleave words (gaps_after (Z.to_nat (w - glen c)) g (repeat 1%nat (length words - 1)) 0 false))).
Proof. intros C U. exact justify_line_explicit. Qed.
Print Assumptions C12_justify_line_explicit.

(* Justify without JustifyLastLine, outside paragraph mode (LinesTo(-1), per-line JustifyLine,
   Commit): with P the pieces strings.Split gives and k = LineCount - 1, each of the first k
   lines is replaced by its JustifyLine and keeps its terminator, and everything from the last
   line on - the last line and the empty piece after a final terminator - is returned untouched *)
Theorem C12_justify_keeps_last_line : forall (C : Classifier) (U : Upper) w opts e,
  let o := with_defaults opts in
  let sep := o_linesep o in
  let P := split (e_text e) sep in
  let k := Z.to_nat (line_count (with_options e o) - 1) in
  o_preserve o = false -> o_justlast o = false -> e_text e <> [] ->
  justify_opts w opts e =
    Ok (with_text e (concat (map (fun p => just_line w p ++ sep) (firstn k P)) ++ join sep (skipn k P))).
Proof. intros C U. exact justify_opts_keep_last. Qed.
Print Assumptions C12_justify_keeps_last_line.
