(* C12 - Justify fills lines to the exact width with even gaps. Proved so far: the space
   distribution loop indexes safely for every number of gaps and spaces, and JustifyLine
   adds exactly the missing number of spaces and nothing else. That the runs of spaces
   differ by at most one is stated in DESIGN.md as not yet proved; it is checked on every
   generated case by the executable checker check_C12. *)
From Coq Require Import List Bool ZArith Lia.
Import ListNotations.
From Rosed Require Import Base.Res Base.ListX Base.Str Gem.Segment Gem.GString Model.Manip Model.Table Proofs.C12P Proofs.C12Q.
Open Scope Z_scope.

(* fullList[spaceWordIdx] is always in range; every iteration appends one U+0020 to one entry *)
Theorem C12_index_safe : forall (C : Classifier) n full g sI fR,
  zlen full = 2 * g + 1 -> 0 <= sI < g -> (g mod 2 = 0 -> fR = Z.odd sI) ->
  let oddSub := if g mod 2 =? 0 then 0 else 1 in
  exists full', justify_loop n full g oddSub sI fR = Ok full' /\ zlen full' = 2 * g + 1 /\
    length (concat full') = (length (concat full) + n)%nat /\
    filter (fun r => negb (r =? SP)) (concat full') = filter (fun r => negb (r =? SP)) (concat full).
Proof. intros C. exact justify_loop_safe. Qed.
Print Assumptions C12_index_safe.

Theorem C12_justify_line : forall (C : Classifier) (U : Upper) text w,
  exists c, collapse_space text [10] = Ok c /\
  exists r, justify_line text w = Ok r /\
    ((w <= glen c \/ zlen (split c [SP]) - 1 < 1) /\ r = c \/
     (glen c < w /\ 1 <= zlen (split c [SP]) - 1 /\
      length r = (length c + Z.to_nat (w - glen c))%nat /\
      filter (fun x => negb (x =? SP)) r = filter (fun x => negb (x =? SP)) c)).
Proof. intros C U. exact justify_line_spec. Qed.
Print Assumptions C12_justify_line.
