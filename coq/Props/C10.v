(* C10 - Line count, per-line callbacks and line selection agree and round-trip. *)
From Coq Require Import List Bool ZArith Lia.
Import ListNotations.
From Rosed Require Import Base.Res Base.ListX Base.Str Gem.Segment Model.Options Model.Editor Model.Ops Check.Select
     Proofs.StrP Proofs.C10P.
Open Scope Z_scope.

(* strings.Join after strings.Split is the identity for every non-empty separator *)
Theorem C10_join_split : forall s sep, sep <> [] -> join sep (split s sep) = s.
Proof. exact join_split. Qed.
Print Assumptions C10_join_split.

(* one decomposition: the lines, each with its terminator, concatenate back to the text,
   under either trailing-separator policy *)
Theorem C10_decomposition : forall t sep ntl, sep <> [] ->
  join sep (lines_of t sep ntl) ++ (if terminated t sep ntl then sep else []) = t.
Proof. exact lines_decomposition. Qed.
Print Assumptions C10_decomposition.

(* LineCount is the length of that decomposition, which is also the list an Apply callback sees *)
Theorem C10_line_count : forall (C : Classifier) e,
  line_count e = zlen (lines_of (e_text e) (o_linesep (with_defaults (e_opts e))) (o_notrailing (e_opts e))).
Proof. intros C e. exact (line_count_is_lines e). Qed.
Print Assumptions C10_line_count.

(* a callback returning its argument reproduces the Editor exactly *)
Theorem C10_apply_identity : forall (C : Classifier) opts e,
  o_linesep (with_defaults opts) <> [] ->
  trailing_consistent (e_text e) (o_linesep (with_defaults opts)) = true ->
  apply_opts (fun _ l => Ok [l]) opts e = Ok e.
Proof. intros C opts e. exact (apply_id opts e). Qed.
Print Assumptions C10_apply_identity.
