(* C10 - Line count, per-line callbacks and line selection agree and round-trip. *)
From Coq Require Import List Bool ZArith Lia.
Import ListNotations.
From Rosed Require Import Base.Res Base.ListX Base.Str Gem.Segment Model.Util Model.Options Model.Editor Model.Ops Check.Select
     Proofs.StrP Proofs.C10P Proofs.C10Q Inst.GoRt gen.GemLines Inst.GoSelLines.
From Rosed Require Import Model.Table Proofs.C10R.
Open Scope Z_scope.

(* strings.Join after strings.Split is the identity for every non-empty separator *)
Theorem C10_join_split : forall s sep, sep <> [] -> join sep (split s sep) = s.
Proof. exact join_split. Qed.
Print Assumptions C10_join_split.

(* one decomposition: the lines, each with its terminator, concatenate back to the text,
   under either trailing-separator policy *)
Theorem C10_decomposition : forall t sep ntl, sep <> [] ->
  join sep (lines_of t sep ntl) ++ (if terminated t sep ntl then sep else []) = t.
Proof. exact lines_decomposition. Qed.
Print Assumptions C10_decomposition.

(* LineCount is the length of that decomposition, which is also the list an Apply callback sees *)
Theorem C10_line_count : forall (C : Classifier) e,
  line_count e = zlen (lines_of (e_text e) (o_linesep (with_defaults (e_opts e))) (o_notrailing (e_opts e))).
Proof. intros C e. exact (line_count_is_lines e). Qed.
Print Assumptions C10_line_count.

(* a callback returning its argument reproduces the Editor exactly *)
Theorem C10_apply_identity : forall (C : Classifier) opts e,
  o_linesep (with_defaults opts) <> [] ->
  trailing_consistent (e_text e) (o_linesep (with_defaults opts)) = true ->
  apply_opts (fun _ l => Ok [l]) opts e = Ok e.
Proof. intros C opts e. exact (apply_id opts e). Qed.
Print Assumptions C10_apply_identity.

(* Lines(start, end): with P the pieces strings.Split gives and (a, b) the normalised range,
   the selection is the byte range from the start of piece a to the start of piece b, or to
   the end of the text when b is past the last piece; nothing is selected past the line count *)
Theorem C10_lines_selection : forall (C : Classifier) e s0 e0,
  let text := e_text e in
  let sep := o_linesep (with_defaults (e_opts e)) in
  let P := split text sep in
  let lc := line_count e in
  let s1 := if s0 =? go_End then lc else s0 in
  let e1 := if e0 =? go_End then lc else e0 in
  text <> [] -> sep <> [] ->
  ed_lines_sel e s0 e0 =
    let '(a, b) := range_to_indexes lc s1 e1 in
    if lc <=? a then sub_ed e (zlen text) (zlen text)
    else sub_ed e (off sep P (Z.to_nat a)) (if (Z.to_nat b <? length P)%nat then off sep P (Z.to_nat b) else zlen text).
Proof. intros C. exact lines_sel_spec. Qed.
Print Assumptions C10_lines_selection.

(* and those byte ranges hold exactly the lines a..b-1, each with its terminator *)
Theorem C10_lines_range_text : forall sep text a b, sep <> [] -> (a <= b)%nat -> (b < length (split text sep))%nat ->
  zslice text (off sep (split text sep) a) (off sep (split text sep) b) = concat (map (fun p => p ++ sep) (slice (split text sep) a b)).
Proof. exact lines_range_text. Qed.
Print Assumptions C10_lines_range_text.

Theorem C10_lines_tail_text : forall sep text a, sep <> [] -> (a < length (split text sep))%nat ->
  zslice text (off sep (split text sep) a) (zlen text) = join sep (skipn a (split text sep)).
Proof. exact lines_tail_text. Qed.
Print Assumptions C10_lines_tail_text.

(* LinesFrom and LinesTo as they are in subeditor.go now (translated on every run,
   gen/GemLines.v) are Lines with the line count / zero as the other bound: the model's selectors *)
Theorem C10_lines_from_to_are_the_source : forall (C : Classifier) e p,
  go_LinesFrom e p = lines_from e p /\ go_LinesTo e p = lines_to e p.
Proof. intros C e p. exact (conj (go_lines_from_eq e p) (go_lines_to_eq e p)). Qed.
Print Assumptions C10_lines_from_to_are_the_source.

(* Apply with any callback that returns normally: it is called on the lines of the decomposition
   in order with indexes 0, 1, ..., the lists it returns are spliced in place of the lines
   (spliced f 0 lines = f 0 l0 ++ f 1 l1 ++ ...), and the final terminator is kept exactly when
   the text ended with the separator and trailing separators are on *)
Theorem C10_apply_splices : forall (C : Classifier) (U : Upper) f opts e,
  let o := with_defaults opts in
  let sep := o_linesep o in
  let lines := lines_sep (with_options e o) sep in
  apply_opts (fun k l => Ok (f k l)) opts e =
  Ok (with_text e (join sep (spliced f 0 lines ++ (if negb (o_notrailing o) && has_suffix (e_text e) sep then [[]] else [])))).
Proof. intros C U. exact apply_opts_splice. Qed.
Print Assumptions C10_apply_splices.
