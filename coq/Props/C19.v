(* C19 - Grapheme strings are pure values: cached boundaries never go stale. *)
From Coq Require Import List Bool Arith ZArith Lia.
Import ListNotations.
From Rosed Require Import Base.Res Base.ListX Gem.Segment Gem.GString Gem.GHeap Gem.GSpec Model.Util Proofs.SegmentP Proofs.C04P Proofs.C19P Proofs.C19H Proofs.SubaddP.

(* boundaries partition the code points, for arbitrary rune values and any classifier:
   they concatenate to the input, no cluster is empty *)
Theorem C19_partition : forall (C : Classifier) (rs : list Z),
  concat (clusters rs) = rs /\ Forall (fun c => c <> []) (clusters rs).
Proof. intros C rs. exact (conj (clusters_concat rs) (clusters_nonempty rs)). Qed.
Print Assumptions C19_partition.

(* context-freeness: any run of consecutive clusters, taken out of its context, segments to itself *)
Theorem C19_context_free : forall (C : Classifier) rs i k,
  clusters (concat (firstn k (skipn i (clusters rs)))) = firstn k (skipn i (clusters rs)).
Proof. intros C. exact clusters_slice. Qed.
Print Assumptions C19_context_free.

(* what Sub stores in the new value's cache - the slice of the old boundaries, rebased by the
   rune offset of the first kept cluster - is exactly what segmenting the substring afresh gives *)
Theorem C19_sub_boundaries : forall (C : Classifier) rs a k,
  rebase (roff (clusters rs) a) (firstn k (skipn a (split_runes rs)))
  = split_runes (concat (firstn k (skipn a (clusters rs)))).
Proof. intros C. exact sub_boundaries. Qed.
Print Assumptions C19_sub_boundaries.

(* the heap model of Sub (written after string.go) on a value whose cell is correctly filled:
   the result has the pure Sub's runes, and is either the shared Zero or a value in a fresh
   cell holding exactly its own boundaries; it never panics *)
Theorem C19_sub_cache : forall (C : Classifier) h v l start end_,
  g_c v = Some l -> rd h l = Some (split_runes (g_r v)) ->
  let '(h', r) := gh_sub h v start end_ in
  match r with
  | Ok v' => g_r v' = gsub (g_r v) start end_ /\
             (v' = gzero \/ exists l', g_c v' = Some l' /\ length h <= l' /\ rd h' l' = Some (split_runes (g_r v')))
  | _ => False
  end.
Proof. intros C. exact gh_sub_correct. Qed.
Print Assumptions C19_sub_cache.

(* Len answers as a freshly built value would, and leaves the cell correct *)
Theorem C19_len : forall (C : Classifier) h v l, g_c v = Some l -> l < length h ->
  (rd h l = None \/ rd h l = Some (split_runes (g_r v))) ->
  let '(h', n) := gh_len h v in
  n = glen (g_r v) /\ ((rd h' l = None /\ g_r v = []) \/ rd h' l = Some (split_runes (g_r v))).
Proof. intros C. exact gh_len_correct. Qed.
Print Assumptions C19_len.

(* the whole property, over histories: run any sequence of New / Zero / String{} / value copy /
   Add / Sub / SetCharAt / Repeat / CharAt / Len / Runes / GraphemeIndexes on the heap model of
   gem.String (values sharing lazily filled cache cells, written after string.go) from the
   initial heap. After every step the contents of all pool values and the step's observation
   are exactly those of the pure model (Gem/GSpec.v), in which a value is its code points and
   Len, CharAt and the boundaries are recomputed from the content each time - i.e. those of a
   value freshly built from the same content; the pool only ever grows, so no operand is
   altered; and the invariant WF (each cell nil or exactly the boundaries of every value that
   points to it) holds in every state. Reverse, which installs mirrored boundaries on purpose,
   is outside the quantifier (in_c19). *)
Theorem C19_history : forall (C : Classifier) ops, Forall in_c19 ops ->
  map (fun so => (view (fst so), snd so)) (grun (heap0, []) ops) = prun [] ops /\
  Forall (fun so => WF (fst so)) (grun (heap0, []) ops).
Proof. intros C. exact history_from_start. Qed.
Print Assumptions C19_history.

Theorem C19_operands_kept : forall (C : Classifier) pool o,
  fst (pstep pool o) = pool \/ exists x, fst (pstep pool o) = pool ++ [x].
Proof. intros C. exact pstep_appends. Qed.
Print Assumptions C19_operands_kept.

Example C19_history_premise : Forall in_c19 [GNew [97; 769; 98]%Z; GCopy 0; GLen 0; GSub 1 0%Z 1%Z; GAdd 3 0; GZeroValue; GRepeat 4 2%Z; GSetCharAt 6 1%Z [120]%Z; GCharAt 7 0%Z].
Proof. exact history_premise. Qed.

(* Add (and any concatenation): every cluster of the first operand but its last is a cluster of
   the result, in the same place - boundaries depend only on what precedes them and on the next
   code point, so appending can change nothing but how the last cluster ends; the cluster count
   of the result is at least that of the first operand and at most the sum (C06_clusters_monotone_left,
   C06_clusters_subadditive) *)
Theorem C19_append_keeps_clusters : forall (C : Classifier) a b, a <> [] ->
  exists X, clusters (a ++ b) = removelast (clusters a) ++ X.
Proof. intros C. exact clusters_app_prefix. Qed.
Print Assumptions C19_append_keeps_clusters.
