(* C14 - Two-column layout is the aligned juxtaposition of two wrapped texts. *)
From Coq Require Import List Bool ZArith Lia.
Import ListNotations.
From Rosed Require Import Base.Res Base.ListX Base.Utf8 Gem.Segment Gem.GString Model.Tb Model.Manip Model.Table Model.Options Model.Editor Model.Ops
     Proofs.SeamP Proofs.C04P Proofs.C13P Proofs.C14P Proofs.C15P Proofs.C14Q Proofs.C14R.
From Rosed Require Import Proofs.C15R.
Open Scope Z_scope.

(* both columns are at least 2 wide and lw + gap + rw is the minimum-clamped total
   width, for every integer width, every gap and every percentage m * 2^ex *)
Theorem C14_widths : forall width gap m ex,
  let '(W, lw, rw) := two_col_widths width gap m ex in
  W = Z.max width (gap + 4) /\ 2 <= lw /\ 2 <= rw /\ lw + gap + rw = W.
Proof. exact two_col_widths_ok. Qed.
Print Assumptions C14_widths.

(* the explicit panic ("rightColWidth < minRightColWidth") is unreachable *)
Theorem C14_no_panic : forall width gap m ex,
  let '(_, _, rw) := two_col_widths width gap m ex in (rw <? 2) = false.
Proof. exact two_col_no_panic. Qed.
Print Assumptions C14_no_panic.

(* without clamping the left column is int(float64(W - gap) * pct) *)
Theorem C14_unclamped : forall width gap m ex,
  let W := Z.max width (gap + 4) in
  0 < m -> pct_gt_one m ex = false ->
  2 <= fmul_trunc (W - gap) m ex <= W - gap - 2 ->
  two_col_widths width gap m ex = (W, fmul_trunc (W - gap) m ex, (W - gap) - fmul_trunc (W - gap) m ex).
Proof. exact two_col_widths_unclamped. Qed.
Print Assumptions C14_unclamped.

(* the layout as a whole: what InsertTwoColumns inserts is, row by row, the k-th wrapped left
   line, spaces up to cluster offset lw + gap, and the k-th wrapped right line, for
   max(left, right) rows, joined by the line separator, with a trailing separator exactly when
   trailing separators are on (row_of is that row; missing lines are empty) *)
Theorem C14_layout : forall (C : Classifier) (K : ClassifierOk) (U : Upper) pos lt rt gap width m ex opts e lb rb ct,
  let '(W, lw, rw) := two_col_widths width gap m ex in
  let o := with_defaults opts in
  let sep := decode (o_linesep o) in
  (lt <> [] \/ rt <> []) -> 0 <= gap ->
  collapse_space (decode lt) sep = Ok ct -> all_safe ct ->
  wrap (decode lt) lw sep = Ok lb -> wrap (decode rt) rw sep = Ok rb ->
  insert_two_columns_opts pos lt rt gap width m ex opts e =
    insert pos (encode (tb_join {| b_lines := map (row_of (b_lines lb) (b_lines rb) (lw + gap))
                                                 (seq 0 (Nat.max (length (b_lines lb)) (length (b_lines rb))));
                                   b_sep := sep; b_trailing := negb (o_notrailing o) |})) e.
Proof. intros C K U. exact two_columns_layout_safe. Qed.
Print Assumptions C14_layout.

(* the right column starts at the same cluster offset on every row *)
Theorem C14_right_column_offset : forall (C : Classifier) (K : ClassifierOk) (left : list gstr) lw gap k, 0 <= gap ->
  let l := match nth_error left k with Some x => x | None => [] end in
  ends_ok l -> glen l <= lw ->
  glen (l ++ repeat SP (Z.to_nat (lw + gap - glen l))) = lw + gap.
Proof. intros C K. exact two_columns_offset. Qed.
Print Assumptions C14_right_column_offset.

(* the same for every text: Wrap's width bound holds without any assumption on the clusters
   (C06_width_every_text), so no left line is wider than the left column *)
Theorem C14_layout_every_text : forall (C : Classifier) (K : ClassifierOk) (U : Upper) pos lt rt gap width m ex opts e lb rb,
  let '(W, lw, rw) := two_col_widths width gap m ex in
  let o := with_defaults opts in
  let sep := decode (o_linesep o) in
  (lt <> [] \/ rt <> []) -> 0 <= gap ->
  wrap (decode lt) lw sep = Ok lb -> wrap (decode rt) rw sep = Ok rb ->
  insert_two_columns_opts pos lt rt gap width m ex opts e =
    insert pos (encode (tb_join {| b_lines := map (row_of (b_lines lb) (b_lines rb) (lw + gap))
                                                 (seq 0 (Nat.max (length (b_lines lb)) (length (b_lines rb))));
                                   b_sep := sep; b_trailing := negb (o_notrailing o) |})) e.
Proof. intros C K U. exact two_columns_layout_all. Qed.
Print Assumptions C14_layout_every_text.

(* no line of the layout exceeds the (minimum-clamped) total width - every text: each row is
   the k-th wrapped left line, the padding, the k-th wrapped right line, and cluster counts are
   subadditive (C06_clusters_subadditive) *)
Theorem C14_rows_width : forall (C : Classifier) (K : ClassifierOk) (U : Upper) lt rt gap width m ex sep lb rb,
  let '(W, lw, rw) := two_col_widths width gap m ex in
  0 <= gap -> wrap lt lw sep = Ok lb -> wrap rt rw sep = Ok rb ->
  forall k, glen (row_of (b_lines lb) (b_lines rb) (lw + gap) k) <= W.
Proof. intros C K U. exact two_columns_rows_width. Qed.
Print Assumptions C14_rows_width.

(* two empty column texts produce no output: the Editor is returned as it is *)
Theorem C14_empty_texts : forall (C : Classifier) (U : Upper) pos gap width m ex opts e, insert_two_columns_opts pos [] [] gap width m ex opts e = Ok e.
Proof. intros C U. exact two_columns_empty. Qed.
Print Assumptions C14_empty_texts.
