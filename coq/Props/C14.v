(* C14 - Two-column layout is the aligned juxtaposition of two wrapped texts. *)
From Coq Require Import List Bool ZArith Lia.
Import ListNotations.
From Rosed Require Import Model.Ops Proofs.C14P.
Open Scope Z_scope.

(* both columns are at least 2 wide and lw + gap + rw is the minimum-clamped total
   width, for every integer width, every gap and every percentage m * 2^ex *)
Theorem C14_widths : forall width gap m ex,
  let '(W, lw, rw) := two_col_widths width gap m ex in
  W = Z.max width (gap + 4) /\ 2 <= lw /\ 2 <= rw /\ lw + gap + rw = W.
Proof. exact two_col_widths_ok. Qed.
Print Assumptions C14_widths.

(* the explicit panic ("rightColWidth < minRightColWidth") is unreachable *)
Theorem C14_no_panic : forall width gap m ex,
  let '(_, _, rw) := two_col_widths width gap m ex in (rw <? 2) = false.
Proof. exact two_col_no_panic. Qed.
Print Assumptions C14_no_panic.

(* without clamping the left column is int(float64(W - gap) * pct) *)
Theorem C14_unclamped : forall width gap m ex,
  let W := Z.max width (gap + 4) in
  0 < m -> pct_gt_one m ex = false ->
  2 <= fmul_trunc (W - gap) m ex <= W - gap - 2 ->
  two_col_widths width gap m ex = (W, fmul_trunc (W - gap) m ex, (W - gap) - fmul_trunc (W - gap) m ex).
Proof. exact two_col_widths_unclamped. Qed.
Print Assumptions C14_unclamped.
